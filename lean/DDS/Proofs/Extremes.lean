/-
  DDS.Proofs.Extremes — helper proofs for the clauses of property C12 about `GetMinValue`,
  `GetMaxValue`, `GetSum` (statements for the reader are in `DDS.Props.C12x`).

  * A. minimum / maximum index of a unit-weight content
  * B. `getMin` / `getMax` of the sketch built by unit adds: the bin representative of the true
       extreme (`getMin_core`, `getMax_core`)
  * C. quantile answers lie between `getMin` and `getMax` (`between_core`)
  * D. the exact (rational) approximate sum `approxSumQ` and its accuracy (`sum_accuracy_abs'`,
       `sum_accuracy'`); the float fold of `GetSum()` under `SumExact` (`getSum_of_exact`)
  * E. every non-collapsing store kind observes like the spec sketch (`obs_eq_spec`)
  * F. collapsing stores: extreme indexes of `specLow` / `specHigh` (the clamped extremes of C05),
       what `getMin` / `getMax` report on them, and when the un-collapsed answer is retained
-/
import DDS.Props.Lift2

set_option linter.unusedVariables false
set_option linter.unusedSectionVars false

namespace DDS.Extremes

open DDS Content

/-! ## A. extreme indexes of a unit-weight content -/

theorem key_mem_unitsOf {I : List Int} {k : Int} (hk : k ∈ I) : ∃ w, (k, w) ∈ unitsOf I := by
  rw [← lookup_pos_iff _ (wf_unitsOf I), lookup_unitsOf]
  have : 0 < I.count k := List.count_pos_iff.2 hk
  exact_mod_cast this

theorem maxIndex_unitsOf (I : List Int) (k : Int) (hk : k ∈ I) (hub : ∀ i ∈ I, i ≤ k) :
    (unitsOf I).maxIndex? = some k :=
  maxIndex?_eq_of _ (wf_unitsOf I).1 k (key_mem_unitsOf hk) (fun p hp => hub _ (mem_unitsOf hp))

theorem minIndex_unitsOf (I : List Int) (k : Int) (hk : k ∈ I) (hlb : ∀ i ∈ I, k ≤ i) :
    (unitsOf I).minIndex? = some k :=
  minIndex?_eq_of _ (wf_unitsOf I).1 k (key_mem_unitsOf hk) (fun p hp => hlb _ (mem_unitsOf hp))

theorem pairwise_le_last (L : List Int) (hs : L.Pairwise (· ≤ ·)) (h : 0 < L.length) :
    ∀ i ∈ L, i ≤ L[L.length - 1] := by
  intro i hi
  obtain ⟨j, hj, rfl⟩ := List.getElem_of_mem hi
  rcases Nat.lt_or_ge j (L.length - 1) with hlt | hge
  · exact (List.pairwise_iff_getElem.1 hs) j _ hj (by omega) hlt
  · have : j = L.length - 1 := by omega
    subst this; exact le_refl _

theorem pairwise_first_le (L : List Int) (hs : L.Pairwise (· ≤ ·)) (h : 0 < L.length) :
    ∀ i ∈ L, L[0] ≤ i := by
  intro i hi
  obtain ⟨j, hj, rfl⟩ := List.getElem_of_mem hi
  rcases Nat.eq_zero_or_pos j with rfl | hjp
  · exact le_refl _
  · exact (List.pairwise_iff_getElem.1 hs) 0 j h hj hjp

section units
variable (env : MapEnv) (α mn mx : Rat) (C : Contract env α mn mx)
include C

/-- the maximum index of the content of a sorted list of admissible magnitudes is the index of
    the last (largest) one -/
theorem maxIndex_units_sorted (L : List Rat) (hs : L.Pairwise (· ≤ ·))
    (hr : ∀ x ∈ L, mn < x ∧ x ≤ mx) (h : 0 < L.length) :
    (unitsOf (L.map (idxOf env))).maxIndex? = some (idxOf env (L[L.length - 1])) := by
  have hp := idx_pairwise env α mn mx C L hs hr
  have hl : 0 < (L.map (idxOf env)).length := by simpa using h
  have := maxIndex_unitsOf (L.map (idxOf env)) ((L.map (idxOf env))[(L.map (idxOf env)).length - 1])
    (List.getElem_mem _) (pairwise_le_last _ hp hl)
  simpa using this

/-- … and the minimum index is the index of the first (smallest) one -/
theorem minIndex_units_sorted (L : List Rat) (hs : L.Pairwise (· ≤ ·))
    (hr : ∀ x ∈ L, mn < x ∧ x ≤ mx) (h : 0 < L.length) :
    (unitsOf (L.map (idxOf env))).minIndex? = some (idxOf env (L[0])) := by
  have hp := idx_pairwise env α mn mx C L hs hr
  have hl : 0 < (L.map (idxOf env)).length := by simpa using h
  have := minIndex_unitsOf (L.map (idxOf env)) ((L.map (idxOf env))[0])
    (List.getElem_mem _) (pairwise_first_le _ hp hl)
  simpa using this

end units

/-! ## B. `getMin` / `getMax` after unit adds -/

theorem getMin_sp (env : MapEnv) (m : Option MapId) (cp cn : Content) (z : F64) :
    Sketch.getMin env ⟨m, .sp cp, .sp cn, z⟩ =
      (if !cn.isEmpty then
        match cn.maxIndex? with
        | some k => .ok (F64.neg (env.value k))
        | none => .ok (F64.neg (env.value 0))
      else if F64.gt z (.fin 0) then .ok (.fin 0)
      else match cp.minIndex? with
        | some k => .ok (env.value k)
        | none => .error .empty) := rfl

theorem getMax_sp (env : MapEnv) (m : Option MapId) (cp cn : Content) (z : F64) :
    Sketch.getMax env ⟨m, .sp cp, .sp cn, z⟩ =
      (if !cp.isEmpty then
        match cp.maxIndex? with
        | some k => .ok (env.value k)
        | none => .ok (env.value 0)
      else if F64.gt z (.fin 0) then .ok (.fin 0)
      else match cn.minIndex? with
        | some k => .ok (F64.neg (env.value k))
        | none => .error .empty) := rfl

theorem isEmpty_unitsOf_map (env : MapEnv) (L : List Rat) :
    (unitsOf (L.map (idxOf env))).isEmpty = decide (L.length = 0) := by
  cases L with
  | nil => rfl
  | cons x xs =>
    have hne : unitsOf ((x :: xs).map (idxOf env)) ≠ [] := unitsOf_ne_nil (by simp)
    cases hc : unitsOf ((x :: xs).map (idxOf env)) with
    | nil => exact absurd hc hne
    | cons p r => simp [Content.isEmpty]

section core
variable (env : MapEnv) (α mn mx : Rat) (C : Contract env α mn mx)
include C

/-- **core (minimum)**: on the sketch holding the unit contents of the sorted magnitudes `M`
    (negative side), `z` zeros and the sorted positives `P`, `GetMinValue` is the bin
    representative of the first element of the ground truth -/
theorem getMin_core (m : Option MapId) (P M : List Rat) (z : Nat)
    (hP : P.Pairwise (· ≤ ·)) (hM : M.Pairwise (· ≤ ·))
    (hPr : ∀ x ∈ P, mn < x ∧ x ≤ mx) (hMr : ∀ x ∈ M, mn < x ∧ x ≤ mx)
    (hn1 : 1 ≤ M.length + z + P.length) :
    Sketch.getMin env
      ⟨m, .sp (unitsOf (P.map (idxOf env))), .sp (unitsOf (M.map (idxOf env))), .fin (z : Rat)⟩
      = .ok (binRep env ((threeWay M z P)[0]!)) := by
  have hmn := C.minPos
  rw [getMin_sp, isEmpty_unitsOf_map]
  by_cases hM0 : M.length = 0
  · have hMnil : M = [] := List.eq_nil_of_length_eq_zero hM0
    subst hMnil
    simp only [List.length_nil, decide_true, Bool.not_true, Bool.false_eq_true, if_false]
    by_cases hz : 0 < z
    · have hz' : (0 : Rat) < (z : Rat) := by exact_mod_cast hz
      have hgt : F64.gt (.fin (z : Rat)) (.fin 0) = true := by simpa [F64.gt, F64.lt] using hz'
      rw [hgt, if_pos rfl,
        threeWay_get_zero [] z P 0 (by simp) (by simpa using hz), binRep_zero]
    · have hz0 : z = 0 := by omega
      subst hz0
      have hPl : 0 < P.length := by simp at hn1; omega
      have hgt : F64.gt (.fin ((0 : Nat) : Rat)) (.fin 0) = false := by simp [F64.gt, F64.lt]
      rw [hgt, if_neg (by simp), minIndex_units_sorted env α mn mx C P hP hPr hPl]
      have := threeWay_get_pos [] 0 P 0 hPl
      simp only [List.length_nil, Nat.add_zero] at this
      rw [this, binRep_pos env (by linarith [(hPr _ (List.getElem_mem hPl)).1])]
  · have hMl : 0 < M.length := by omega
    simp only [hM0, decide_false, Bool.not_false, if_true]
    rw [maxIndex_units_sorted env α mn mx C M hM hMr hMl,
      threeWay_get_neg M z P 0 hMl,
      binRep_neg env (by linarith [(hMr _ (List.getElem_mem (show M.length - 1 - 0 < M.length by omega))).1])]
    rfl

/-- **core (maximum)** -/
theorem getMax_core (m : Option MapId) (P M : List Rat) (z : Nat)
    (hP : P.Pairwise (· ≤ ·)) (hM : M.Pairwise (· ≤ ·))
    (hPr : ∀ x ∈ P, mn < x ∧ x ≤ mx) (hMr : ∀ x ∈ M, mn < x ∧ x ≤ mx)
    (hn1 : 1 ≤ M.length + z + P.length) :
    Sketch.getMax env
      ⟨m, .sp (unitsOf (P.map (idxOf env))), .sp (unitsOf (M.map (idxOf env))), .fin (z : Rat)⟩
      = .ok (binRep env ((threeWay M z P)[M.length + z + P.length - 1]!)) := by
  have hmn := C.minPos
  rw [getMax_sp, isEmpty_unitsOf_map]
  by_cases hP0 : P.length = 0
  · have hPnil : P = [] := List.eq_nil_of_length_eq_zero hP0
    subst hPnil
    simp only [List.length_nil, decide_true, Bool.not_true, Bool.false_eq_true, if_false, Nat.add_zero]
    by_cases hz : 0 < z
    · have hz' : (0 : Rat) < (z : Rat) := by exact_mod_cast hz
      have hgt : F64.gt (.fin (z : Rat)) (.fin 0) = true := by simpa [F64.gt, F64.lt] using hz'
      rw [hgt, if_pos rfl,
        threeWay_get_zero M z [] (M.length + z - 1) (by omega) (by omega), binRep_zero]
    · have hz0 : z = 0 := by omega
      subst hz0
      have hMl : 0 < M.length := by simp at hn1; omega
      have hgt : F64.gt (.fin ((0 : Nat) : Rat)) (.fin 0) = false := by simp [F64.gt, F64.lt]
      rw [hgt, if_neg (by simp), minIndex_units_sorted env α mn mx C M hM hMr hMl,
        threeWay_get_neg' M 0 [] (M.length + 0 - 1) 0 (by omega),
        binRep_neg env (by linarith [(hMr _ (List.getElem_mem hMl)).1])]
  · have hPl : 0 < P.length := by omega
    simp only [hP0, decide_false, Bool.not_false, if_true]
    rw [maxIndex_units_sorted env α mn mx C P hP hPr hPl]
    have := threeWay_get_pos M z P (P.length - 1) (by omega)
    rw [show M.length + z + (P.length - 1) = M.length + z + P.length - 1 by omega] at this
    rw [this, binRep_pos env (by linarith [(hPr _ (List.getElem_mem (show P.length - 1 < P.length by omega))).1])]

end core

theorem Psorted_range (mn mx : Rat) (xs : List Rat) (hx : ∀ x ∈ xs, rabs x ≤ mx) :
    ∀ x ∈ Psorted mn xs, mn < x ∧ x ≤ mx := by
  intro x hxP
  obtain ⟨h1, h2⟩ := mem_Psorted.1 hxP
  exact ⟨h2, (rabs_le_iff.1 (hx x h1)).2⟩

theorem Msorted_range (mn mx : Rat) (xs : List Rat) (hx : ∀ x ∈ xs, rabs x ≤ mx) :
    ∀ x ∈ Msorted mn xs, mn < x ∧ x ≤ mx := by
  intro x hxM
  obtain ⟨h1, h2⟩ := mem_Msorted.1 hxM
  have := (rabs_le_iff.1 (hx _ h1)).1
  exact ⟨h2, by linarith⟩

theorem length_sorted_split (mn : Rat) (hmn : 0 < mn) (xs : List Rat) :
    (Msorted mn xs).length + zeroCnt mn xs + (Psorted mn xs).length = xs.length := by
  have := length_split mn hmn xs
  rw [Msorted, Psorted, (sortAsc_perm _).length_eq, (sortAsc_perm _).length_eq, List.length_map]
  exact this

theorem sortedInputs_get_mem (mn : Rat) (xs : List Rat) (k : Nat) (hk : k < xs.length) :
    (sortedInputs mn xs)[k]! ∈ sortedInputs mn xs := by
  have hk' : k < (sortedInputs mn xs).length := by rw [length_sortedInputs]; exact hk
  rw [getElem!_pos _ k hk']; exact List.getElem_mem hk'

section sketch
variable (env : MapEnv) (α mn mx : Rat) (C : Contract env α mn mx)
  (xs : List Rat) (hx : ∀ x ∈ xs, rabs x ≤ mx) (hne : xs ≠ []) (hn : xs.length ≤ 2 ^ 53)
  (s : Sketch)
  (hs : Sketch.addAll env (Sketch.new (some env.id) .sparse) (xs.map (fun x => (x, 1))) = some s)
include C hx hne hn hs

/-- `GetMinValue` is the bin representative of the smallest input -/
theorem getMin_bin' :
    Sketch.getMin env s = .ok (binRep env ((sortedInputs mn xs)[0]!)) := by
  have hlen := length_sorted_split mn C.minPos xs
  have hpos : 0 < xs.length := List.length_pos_iff.2 hne
  rw [addAll_state env α mn mx C xs hx hn s hs, sortedInputs_split mn C.minPos xs]
  exact getMin_core env α mn mx C (some env.id) (Psorted mn xs) (Msorted mn xs) (zeroCnt mn xs)
    (sortAsc_pairwise _) (sortAsc_pairwise _) (Psorted_range mn mx xs hx)
    (Msorted_range mn mx xs hx) (by omega)

/-- `GetMaxValue` is the bin representative of the largest input -/
theorem getMax_bin' :
    Sketch.getMax env s = .ok (binRep env ((sortedInputs mn xs)[xs.length - 1]!)) := by
  have hlen := length_sorted_split mn C.minPos xs
  have hpos : 0 < xs.length := List.length_pos_iff.2 hne
  rw [addAll_state env α mn mx C xs hx hn s hs, sortedInputs_split mn C.minPos xs]
  have := getMax_core env α mn mx C (some env.id) (Psorted mn xs) (Msorted mn xs) (zeroCnt mn xs)
    (sortAsc_pairwise _) (sortAsc_pairwise _) (Psorted_range mn mx xs hx)
    (Msorted_range mn mx xs hx) (by omega)
  rw [hlen] at this
  exact this

theorem min_accuracy' :
    ∃ a : Rat, Sketch.getMin env s = .ok (.fin a) ∧
      rabs (a - (sortedInputs mn xs)[0]!) ≤ α * rabs ((sortedInputs mn xs)[0]!) := by
  have hpos : 0 < xs.length := List.length_pos_iff.2 hne
  obtain ⟨a, ha, hacc⟩ := binRep_acc env α mn mx C _ (sortedInputs_range mn mx xs hx _
    (sortedInputs_get_mem mn xs 0 hpos))
  exact ⟨a, by rw [getMin_bin' env α mn mx C xs hx hne hn s hs, ha], hacc⟩

theorem max_accuracy' :
    ∃ b : Rat, Sketch.getMax env s = .ok (.fin b) ∧
      rabs (b - (sortedInputs mn xs)[xs.length - 1]!) ≤
        α * rabs ((sortedInputs mn xs)[xs.length - 1]!) := by
  have hpos : 0 < xs.length := List.length_pos_iff.2 hne
  obtain ⟨a, ha, hacc⟩ := binRep_acc env α mn mx C _ (sortedInputs_range mn mx xs hx _
    (sortedInputs_get_mem mn xs (xs.length - 1) (by omega)))
  exact ⟨a, by rw [getMax_bin' env α mn mx C xs hx hne hn s hs, ha], hacc⟩

end sketch

/-! ## C. quantile answers lie between the reported minimum and maximum -/

/-- whatever the (float) rank, a non-empty sparse store answers with one of its keys -/
theorem skar_mem (c : Content) (hc : c.WF) (hne : c ≠ []) (x : F64) :
    ∃ w, (Sketch.storeKeyAtRank (.sp c) x, w) ∈ c := by
  obtain ⟨kx, hkx⟩ := Content.maxIndex?_isSome c hne
  have hmax : ∃ w, ((c.maxIndex?).getD 0, w) ∈ c := by
    rw [hkx]; exact Content.maxIndex_mem c kx hkx
  cases x with
  | fin r =>
    have : Sketch.storeKeyAtRank (.sp c) (.fin r) = c.keyAtRank r := Store.sp_keyAtRank c hc r
    rw [this]; exact Content.keyAtRank_mem c r hne
  | ninf =>
    have : Sketch.storeKeyAtRank (.sp c) .ninf = c.keyAtRank 0 := Store.sp_keyAtRank c hc 0
    rw [this]; exact Content.keyAtRank_mem c 0 hne
  | pinf => exact hmax
  | nan => exact hmax

/-- a quantile that is answered is valid, and the count is not zero -/
theorem quantile_ok_facts {env : MapEnv} (S : Sketch) (q v : F64) (hq : S.quantile env q = .ok v) :
    (F64.le (.fin 0) q && F64.le q (.fin 1)) = true ∧ F64.eq S.getCount (.fin 0) = false := by
  rw [Sketch.quantile_unfold] at hq
  by_cases h1 : (!(F64.le (.fin 0) q && F64.le q (.fin 1))) = true
  · rw [if_pos h1] at hq; cases hq
  rw [if_neg h1] at hq
  by_cases h2 : F64.eq S.getCount (.fin 0) = true
  · rw [if_pos h2] at hq; cases hq
  exact ⟨by simpa using h1, by simpa using h2⟩

/-- the representative of bin `i` as a rational (0 if the oracle's answer is not finite, which the
    contract excludes) -/
def valQ (env : MapEnv) (i : Int) : Rat :=
  match env.value i with
  | .fin r => r
  | _ => 0

section between
variable {env : MapEnv} {α mn mx : Rat} (C : Contract env α mn mx)
include C

theorem value_eq (i : Int) : env.value i = .fin (valQ env i) := by
  obtain ⟨r, hr, _⟩ := C.valFin i
  unfold valQ; rw [hr]

theorem valQ_pos (i : Int) : 0 < valQ env i := by
  obtain ⟨r, hr, h0⟩ := C.valFin i
  unfold valQ; rw [hr]; exact h0

theorem valQ_mono {i j : Int} (h : i ≤ j) : valQ env i ≤ valQ env j :=
  C.valMono i j _ _ h (value_eq C i) (value_eq C j)

theorem getMin_neg (m : Option MapId) (cp cn : Content) (z : F64) (hne : cn ≠ []) (k : Int)
    (hk : cn.maxIndex? = some k) :
    (Sketch.spec m cp cn z).getMin env = .ok (.fin (-(valQ env k))) := by
  have e : (Sketch.spec m cp cn z).getMin env = _ := getMin_sp env m cp cn z
  rw [e]
  cases cn with
  | nil => exact absurd rfl hne
  | cons pn rn =>
    simp only [Content.isEmpty, List.isEmpty_cons, Bool.not_false, if_true]
    rw [hk]
    simp only [value_eq C k]; rfl

omit C in
theorem getMin_zero (m : Option MapId) (cp : Content) (zq : Rat) (hz : 0 < zq) :
    (Sketch.spec m cp [] (.fin zq)).getMin env = .ok (.fin 0) := by
  have e : (Sketch.spec m cp [] (.fin zq)).getMin env = _ := getMin_sp env m cp [] (.fin zq)
  rw [e]
  have hgt : F64.gt (.fin zq) (.fin 0) = true := by simpa [F64.gt, F64.lt] using hz
  simp [Content.isEmpty, hgt]

theorem getMin_pos (m : Option MapId) (cp : Content) (zq : Rat) (hz : ¬ 0 < zq) :
    (Sketch.spec m cp [] (.fin zq)).getMin env =
      match cp.minIndex? with
      | some k => .ok (.fin (valQ env k))
      | none => .error .empty := by
  have e : (Sketch.spec m cp [] (.fin zq)).getMin env = _ := getMin_sp env m cp [] (.fin zq)
  rw [e]
  have hgt : F64.gt (.fin zq) (.fin 0) = false := by simpa [F64.gt, F64.lt] using hz
  simp only [Content.isEmpty, List.isEmpty_nil, Bool.not_true, Bool.false_eq_true, if_false, hgt]
  cases cp.minIndex? with
  | none => rfl
  | some k => simp only [value_eq C k]

theorem getMax_pos (m : Option MapId) (cp cn : Content) (z : F64) (hne : cp ≠ []) (k : Int)
    (hk : cp.maxIndex? = some k) :
    (Sketch.spec m cp cn z).getMax env = .ok (.fin (valQ env k)) := by
  have e : (Sketch.spec m cp cn z).getMax env = _ := getMax_sp env m cp cn z
  rw [e]
  cases cp with
  | nil => exact absurd rfl hne
  | cons pn rn =>
    simp only [Content.isEmpty, List.isEmpty_cons, Bool.not_false, if_true]
    rw [hk]
    simp only [value_eq C k]

omit C in
theorem getMax_zero (m : Option MapId) (cn : Content) (zq : Rat) (hz : 0 < zq) :
    (Sketch.spec m [] cn (.fin zq)).getMax env = .ok (.fin 0) := by
  have e : (Sketch.spec m [] cn (.fin zq)).getMax env = _ := getMax_sp env m [] cn (.fin zq)
  rw [e]
  have hgt : F64.gt (.fin zq) (.fin 0) = true := by simpa [F64.gt, F64.lt] using hz
  simp [Content.isEmpty, hgt]

theorem getMax_neg (m : Option MapId) (cn : Content) (zq : Rat) (hz : ¬ 0 < zq) :
    (Sketch.spec m [] cn (.fin zq)).getMax env =
      match cn.minIndex? with
      | some k => .ok (.fin (-(valQ env k)))
      | none => .error .empty := by
  have e : (Sketch.spec m [] cn (.fin zq)).getMax env = _ := getMax_sp env m [] cn (.fin zq)
  rw [e]
  have hgt : F64.gt (.fin zq) (.fin 0) = false := by simpa [F64.gt, F64.lt] using hz
  simp only [Content.isEmpty, List.isEmpty_nil, Bool.not_true, Bool.false_eq_true, if_false, hgt]
  cases cn.minIndex? with
  | none => rfl
  | some k => simp only [value_eq C k]; rfl

variable (m : Option MapId) (cp cn : Content) (zq : Rat) (hcp : cp.WF) (hcn : cn.WF)
include hcp hcn

theorem min_le_negbin (a : F64) (ha : (Sketch.spec m cp cn (.fin zq)).getMin env = .ok a)
    (k : Int) (w : Rat) (hk : (k, w) ∈ cn) : F64.le a (.fin (-(valQ env k))) = true := by
  have hne : cn ≠ [] := List.ne_nil_of_mem hk
  obtain ⟨kx, hkx⟩ := Content.maxIndex?_isSome cn hne
  rw [getMin_neg C m cp cn _ hne kx hkx] at ha
  cases ha
  have := valQ_mono C (Content.le_maxIndex cn hcn kx hkx _ hk)
  exact Props.C12.le_fin _ _ (by simp only at this; linarith)

theorem min_le_zero (a : F64) (ha : (Sketch.spec m cp cn (.fin zq)).getMin env = .ok a)
    (h : cn ≠ [] ∨ 0 < zq) : F64.le a (.fin 0) = true := by
  by_cases hne : cn = []
  · subst hne
    rcases h with h | h
    · exact absurd rfl h
    · rw [getMin_zero m cp zq h] at ha
      cases ha
      exact Props.C12.le_fin _ _ le_rfl
  · obtain ⟨kx, hkx⟩ := Content.maxIndex?_isSome cn hne
    rw [getMin_neg C m cp cn _ hne kx hkx] at ha
    cases ha
    have := valQ_pos C kx
    exact Props.C12.le_fin _ _ (by linarith)

theorem min_le_posbin (a : F64) (ha : (Sketch.spec m cp cn (.fin zq)).getMin env = .ok a)
    (k : Int) (w : Rat) (hk : (k, w) ∈ cp) : F64.le a (.fin (valQ env k)) = true := by
  have hk0 := valQ_pos C k
  by_cases hne : cn = []
  · subst hne
    by_cases hz : 0 < zq
    · rw [getMin_zero m cp zq hz] at ha
      cases ha
      exact Props.C12.le_fin _ _ hk0.le
    · rw [getMin_pos C m cp zq hz] at ha
      cases hmin : cp.minIndex? with
      | none => rw [hmin] at ha; cases ha
      | some kn =>
        rw [hmin] at ha
        cases ha
        have := valQ_mono C (Content.minIndex_le cp hcp kn hmin _ hk)
        exact Props.C12.le_fin _ _ this
  · obtain ⟨kx, hkx⟩ := Content.maxIndex?_isSome cn hne
    rw [getMin_neg C m cp cn _ hne kx hkx] at ha
    cases ha
    have := valQ_pos C kx
    exact Props.C12.le_fin _ _ (by linarith)

theorem posbin_le_max (b : F64) (hb : (Sketch.spec m cp cn (.fin zq)).getMax env = .ok b)
    (k : Int) (w : Rat) (hk : (k, w) ∈ cp) : F64.le (.fin (valQ env k)) b = true := by
  have hne : cp ≠ [] := List.ne_nil_of_mem hk
  obtain ⟨kx, hkx⟩ := Content.maxIndex?_isSome cp hne
  rw [getMax_pos C m cp cn _ hne kx hkx] at hb
  cases hb
  have := valQ_mono C (Content.le_maxIndex cp hcp kx hkx _ hk)
  exact Props.C12.le_fin _ _ this

theorem zero_le_max (b : F64) (hb : (Sketch.spec m cp cn (.fin zq)).getMax env = .ok b)
    (h : cp ≠ [] ∨ 0 < zq) : F64.le (.fin 0) b = true := by
  by_cases hne : cp = []
  · subst hne
    rcases h with h | h
    · exact absurd rfl h
    · rw [getMax_zero m cn zq h] at hb
      cases hb
      exact Props.C12.le_fin _ _ le_rfl
  · obtain ⟨kx, hkx⟩ := Content.maxIndex?_isSome cp hne
    rw [getMax_pos C m cp cn _ hne kx hkx] at hb
    cases hb
    have := valQ_pos C kx
    exact Props.C12.le_fin _ _ (by linarith)

theorem negbin_le_max (b : F64) (hb : (Sketch.spec m cp cn (.fin zq)).getMax env = .ok b)
    (k : Int) (w : Rat) (hk : (k, w) ∈ cn) : F64.le (.fin (-(valQ env k))) b = true := by
  have hk0 := valQ_pos C k
  by_cases hne : cp = []
  · subst hne
    by_cases hz : 0 < zq
    · rw [getMax_zero m cn zq hz] at hb
      cases hb
      exact Props.C12.le_fin _ _ (by linarith)
    · rw [getMax_neg C m cn zq hz] at hb
      cases hmin : cn.minIndex? with
      | none => rw [hmin] at hb; cases hb
      | some kn =>
        rw [hmin] at hb
        cases hb
        have := valQ_mono C (Content.minIndex_le cn hcn kn hmin _ hk)
        exact Props.C12.le_fin _ _ (by linarith)
  · obtain ⟨kx, hkx⟩ := Content.maxIndex?_isSome cp hne
    rw [getMax_pos C m cp cn _ hne kx hkx] at hb
    cases hb
    have := valQ_pos C kx
    exact Props.C12.le_fin _ _ (by linarith)

/-- **the answers of `GetValueAtQuantile` lie between `GetMinValue` and `GetMaxValue`**, provided
    the positive store is not consulted while empty (`hpos`) and, when the sketch holds negative
    values only, their total weight is a float (`hrep`) -/
theorem between_core (hz : 0 ≤ zq)
    (hrep : cp = [] → zq = 0 → F64.roundF64 cn.total = .fin cn.total)
    (q v a b : F64)
    (hpos : cp = [] → (Sketch.spec m cp cn (.fin zq)).usesPos q = false)
    (hq : (Sketch.spec m cp cn (.fin zq)).quantile env q = .ok v)
    (ha : (Sketch.spec m cp cn (.fin zq)).getMin env = .ok a)
    (hb : (Sketch.spec m cp cn (.fin zq)).getMax env = .ok b) :
    F64.le a v = true ∧ F64.le v b = true := by
  obtain ⟨S, hS⟩ : ∃ S, S = Sketch.spec m cp cn (.fin zq) := ⟨_, rfl⟩
  have e1 : S.negTotal = .fin cn.total := by rw [hS]; rfl
  have e2 : S.zero = .fin zq := by rw [hS]; rfl
  have e3 : S.neg = .sp cn := by rw [hS]; rfl
  have e4 : S.pos = .sp cp := by rw [hS]; rfl
  rw [← hS] at hq hpos
  rw [Sketch.quantile_unfold] at hq
  by_cases h1 : (!(F64.le (.fin 0) q && F64.le q (.fin 1))) = true
  · rw [if_pos h1] at hq; cases hq
  rw [if_neg h1] at hq
  by_cases h2 : F64.eq S.getCount (.fin 0) = true
  · rw [if_pos h2] at hq; cases hq
  rw [if_neg h2] at hq
  rw [e1, e2, e3, e4] at hq
  by_cases h3 : F64.lt (S.qrank q) (.fin cn.total) = true
  · rw [if_pos h3] at hq
    have hne := Sketch.neg_nonempty_of_lt S q cn h3
    obtain ⟨w, hw⟩ := skar_mem cn hcn hne
      (F64.sub (F64.sub (.fin cn.total) F64.one) (S.qrank q))
    rw [value_eq C] at hq
    cases hq
    exact ⟨min_le_negbin C m cp cn zq hcp hcn a ha _ w hw,
      negbin_le_max C m cp cn zq hcp hcn b hb _ w hw⟩
  rw [if_neg h3] at hq
  by_cases h4 : F64.lt (S.qrank q) (F64.add (.fin zq) (.fin cn.total)) = true
  · rw [if_pos h4] at hq
    cases hq
    -- the rank is finite and non-negative
    obtain ⟨r, hr, hr0⟩ : ∃ r, S.qrank q = .fin r ∧ 0 ≤ r := by
      rcases Sketch.qrank_cases S q with h | h | h
      · rw [h] at h4; cases h4
      · rw [h] at h4
        cases hadd : F64.add (.fin zq) (.fin cn.total) <;> rw [hadd] at h4 <;> cases h4
      · exact h
    rw [hr] at h3 h4
    constructor
    · apply min_le_zero C m cp cn zq hcp hcn a ha
      by_contra hc
      have hc1 : cn = [] := by
        by_contra h; exact hc (Or.inl h)
      have hc2 : zq = 0 := le_antisymm (not_lt.1 (fun h => hc (Or.inr h))) hz
      subst hc1; subst hc2
      have : F64.add (.fin (0 : Rat)) (.fin (Content.total [])) = .fin 0 := by
        show F64.roundF64 (0 + 0) = _
        rw [add_zero]; exact F64.roundF64_zero
      rw [this] at h4
      simp only [F64.lt, decide_eq_true_eq] at h4
      linarith
    · apply zero_le_max C m cp cn zq hcp hcn b hb
      by_contra hc
      have hc1 : cp = [] := by
        by_contra h; exact hc (Or.inl h)
      have hc2 : zq = 0 := le_antisymm (not_lt.1 (fun h => hc (Or.inr h))) hz
      have := hrep hc1 hc2
      subst hc2
      have e : F64.add (.fin (0 : Rat)) (.fin cn.total) = .fin cn.total := by
        show F64.roundF64 (0 + cn.total) = _
        rw [zero_add]; exact this
      rw [e] at h4
      exact h3 h4
  rw [if_neg h4] at hq
  have hne : cp ≠ [] := by
    intro hc
    have := hpos hc
    unfold Sketch.usesPos at this
    rw [e1, e2] at this
    simp only [Bool.not_eq_true] at h3 h4
    rw [h3, h4] at this
    cases this
  obtain ⟨w, hw⟩ := skar_mem cp hcp hne
    (F64.sub (F64.sub (S.qrank q) (.fin zq)) (.fin cn.total))
  rw [value_eq C] at hq
  cases hq
  exact ⟨min_le_posbin C m cp cn zq hcp hcn a ha _ w hw,
    posbin_le_max C m cp cn zq hcp hcn b hb _ w hw⟩

/-- the same under exact counting: `count - 1 ≠ count` is only needed when there is no positive
    value -/
theorem between_exact (hz : 0 ≤ zq)
    (hx : F64.add (F64.add (.fin zq) (.fin cp.total)) (.fin cn.total) =
      .fin (zq + cp.total + cn.total))
    (hpred : cp = [] →
      F64.sub (.fin (zq + cp.total + cn.total)) F64.one ≠ .fin (zq + cp.total + cn.total))
    (q v a b : F64)
    (hq : (Sketch.spec m cp cn (.fin zq)).quantile env q = .ok v)
    (ha : (Sketch.spec m cp cn (.fin zq)).getMin env = .ok a)
    (hb : (Sketch.spec m cp cn (.fin zq)).getMax env = .ok b) :
    F64.le a v = true ∧ F64.le v b = true := by
  apply between_core C m cp cn zq hcp hcn hz ?_ q v a b ?_ hq ha hb
  · intro h1 h2
    subst h1; subst h2
    have e0 : F64.add (.fin (0 : Rat)) (.fin (Content.total [])) = .fin 0 := by
      show F64.roundF64 (0 + 0) = _
      rw [add_zero]; exact F64.roundF64_zero
    rw [e0] at hx
    have hx' : F64.roundF64 (0 + cn.total) = .fin (0 + 0 + cn.total) := hx
    simpa using hx'
  · intro hc
    obtain ⟨hv, hne⟩ := quantile_ok_facts _ q v hq
    obtain ⟨r, rfl, hr0, hr1⟩ := (Props.C13.quantile_valid_iff q).1 hv
    apply Props.C12.usesPos_false_of_exact m cp cn zq hcp hcn hz hx hc ?_ (hpred hc) r hr0 hr1
    intro hN
    rw [Props.C12.count_eq_total m cp cn zq hx, hN] at hne
    simp [F64.eq] at hne

/-- **the guard is needed**: a sketch without positive values whose quantile consults the
    (empty) positive store answers `value 0 > 0`, ABOVE the reported maximum -/
theorem above_max_of_usesPos (q v b : F64)
    (hu : (Sketch.spec m [] cn (.fin zq)).usesPos q = true)
    (hq : (Sketch.spec m [] cn (.fin zq)).quantile env q = .ok v)
    (hb : (Sketch.spec m [] cn (.fin zq)).getMax env = .ok b) :
    v = env.value 0 ∧ F64.lt b v = true := by
  obtain ⟨S, hS⟩ : ∃ S, S = Sketch.spec m [] cn (.fin zq) := ⟨_, rfl⟩
  have e1 : S.negTotal = .fin cn.total := by rw [hS]; rfl
  have e2 : S.zero = .fin zq := by rw [hS]; rfl
  have e4 : S.pos = .sp [] := by rw [hS]; rfl
  rw [← hS] at hq hu
  obtain ⟨hv, hne⟩ := quantile_ok_facts _ q v hq
  unfold Sketch.usesPos at hu
  simp only [Bool.and_eq_true, Bool.not_eq_true'] at hu
  rw [Sketch.quantile_unfold, hv, hne, hu.1, hu.2, e4] at hq
  simp only [Bool.not_true, Bool.false_eq_true, if_false] at hq
  have hk : ∀ x : F64, Sketch.storeKeyAtRank (.sp []) x = 0 := by
    intro x; cases x <;> rfl
  rw [hk] at hq
  cases hq
  refine ⟨rfl, ?_⟩
  rw [value_eq C 0]
  have h0 := valQ_pos C 0
  by_cases hzz : 0 < zq
  · rw [getMax_zero m cn zq hzz] at hb
    cases hb
    simpa [F64.lt] using h0
  · rw [getMax_neg C m cn zq hzz] at hb
    cases hmin : cn.minIndex? with
    | none => rw [hmin] at hb; cases hb
    | some kn =>
      rw [hmin] at hb
      cases hb
      have := valQ_pos C kn
      simp only [F64.lt, decide_eq_true_eq]
      linarith

end between

end DDS.Extremes

namespace DDS.Extremes
open DDS Content

section unitsBetween
variable (env : MapEnv) (α mn mx : Rat) (C : Contract env α mn mx)
  (xs : List Rat) (hx : ∀ x ∈ xs, rabs x ≤ mx) (hne : xs ≠ []) (hn : xs.length ≤ 2 ^ 53)
  (s : Sketch)
  (hs : Sketch.addAll env (Sketch.new (some env.id) .sparse) (xs.map (fun x => (x, 1))) = some s)
include C hx hne hn hs

/-- after at most `2^53` unit adds no extra hypothesis is needed -/
theorem between_units (q v a b : F64) (hq : s.quantile env q = .ok v)
    (ha : s.getMin env = .ok a) (hb : s.getMax env = .ok b) :
    F64.le a v = true ∧ F64.le v b = true := by
  have hst := addAll_state env α mn mx C xs hx hn s hs
  have hlen := length_sorted_split mn C.minPos xs
  have hpos : 0 < xs.length := List.length_pos_iff.2 hne
  subst hst
  obtain ⟨u1, u2⟩ := Props.Lift.unit_counts_exact (zeroCnt mn xs)
    ((Psorted mn xs).map (idxOf env)).length ((Msorted mn xs).map (idxOf env)).length
    (by simp only [List.length_map]; omega) (by simp only [List.length_map]; omega)
  exact between_exact C (some env.id) (unitsOf ((Psorted mn xs).map (idxOf env)))
    (unitsOf ((Msorted mn xs).map (idxOf env))) (zeroCnt mn xs : Rat) (wf_unitsOf _) (wf_unitsOf _)
    (by positivity) (by rw [total_unitsOf, total_unitsOf]; exact u1)
    (fun _ => by rw [total_unitsOf, total_unitsOf]; exact u2) q v a b hq ha hb

end unitsBetween

end DDS.Extremes

/-! ## D. the approximate sum -/

namespace DDS.Extremes
open DDS Content

/-- the rational a finite float is (0 for the non-finite ones) -/
def ratOfF : F64 → Rat
  | .fin r => r
  | _ => 0

/-- `Σ value · weight` over what `ForEach` enumerates, in exact arithmetic -/
def approxSumL (l : List (F64 × Rat)) : Rat := (l.map (fun p => ratOfF p.1 * p.2)).sum

/-- **the exact (rational) version of `GetSum()`**: the same sum over the same enumeration,
    without rounding (`none` only if `ForEach` panics) -/
def approxSumQ (env : MapEnv) (s : Sketch) : Option Rat := (s.forEachList env).map approxSumL

/-- `Σ f(index) · weight` over a list of bins -/
def fsumC (f : Int → Rat) (c : List (Int × Rat)) : Rat := (c.map (fun b => f b.1 * b.2)).sum

@[simp] theorem fsumC_nil (f : Int → Rat) : fsumC f [] = 0 := rfl
@[simp] theorem fsumC_cons (f : Int → Rat) (p : Int × Rat) (c : List (Int × Rat)) :
    fsumC f (p :: c) = f p.1 * p.2 + fsumC f c := by
  simp [fsumC]

theorem fsumC_add (f : Int → Rat) (c : Content) (i : Int) (w : Rat) :
    fsumC f (c.add i w) = fsumC f c + f i * w := by
  induction c with
  | nil =>
    rw [add_nil]
    split
    · rename_i h; rw [h]; simp
    · simp
  | cons p rest ih =>
    rw [add_cons]
    split
    · rename_i h; rw [h]; simp
    · split
      · simp only [fsumC_cons]; ring
      · split
        · rename_i h
          split
          · rename_i h0
            simp only [fsumC_cons]
            have : f p.1 * p.2 + f i * w = f p.1 * (p.2 + w) := by rw [h]; ring
            rw [h0] at this
            linarith
          · simp only [fsumC_cons]; rw [h]; ring
        · simp only [fsumC_cons, ih]; ring

theorem fsumC_merge (f : Int → Rat) (a : Content) (b : List (Int × Rat)) :
    fsumC f (a.merge b) = fsumC f a + fsumC f b := by
  induction b generalizing a with
  | nil => simp
  | cons p b ih => rw [merge_cons, ih, fsumC_add, fsumC_cons]; ring

theorem fsumC_unitPairs (f : Int → Rat) (I : List Int) : fsumC f (unitPairs I) = (I.map f).sum := by
  induction I with
  | nil => rfl
  | cons i I ih => simp only [unitPairs_cons, fsumC_cons, ih, List.map_cons, List.sum_cons]; ring

theorem fsumC_unitsOf (f : Int → Rat) (I : List Int) : fsumC f (unitsOf I) = (I.map f).sum := by
  unfold unitsOf
  rw [fsumC_merge, fsumC_unitPairs]; simp

theorem ratOfF_value (env : MapEnv) (k : Int) : ratOfF (env.value k) = valQ env k := by
  unfold ratOfF valQ; cases env.value k <;> rfl

theorem ratOfF_neg (x : F64) : ratOfF (F64.neg x) = -ratOfF x := by
  cases x <;> simp [ratOfF, F64.neg]

theorem approxSumL_append (l₁ l₂ : List (F64 × Rat)) :
    approxSumL (l₁ ++ l₂) = approxSumL l₁ + approxSumL l₂ := by
  simp [approxSumL]

theorem approxSumL_pos (env : MapEnv) (c : Content) :
    approxSumL (c.map (fun b => (env.value b.1, b.2))) = fsumC (valQ env) c := by
  induction c with
  | nil => rfl
  | cons p c ih =>
    simp only [approxSumL, List.map_cons, List.sum_cons, fsumC_cons, ratOfF_value] at ih ⊢
    rw [ih]

theorem approxSumL_neg (env : MapEnv) (c : Content) :
    approxSumL (c.map (fun b => (F64.neg (env.value b.1), b.2))) = -fsumC (valQ env) c := by
  induction c with
  | nil => simp [approxSumL]
  | cons p c ih =>
    simp only [approxSumL, List.map_cons, List.sum_cons, fsumC_cons, ratOfF_value, ratOfF_neg] at ih ⊢
    rw [ih]; ring

/-- on a spec sketch: the zero bucket contributes 0, positive bins `r_k · w_k`, negative bins
    `−r_k · w_k` -/
theorem approxSumQ_spec (env : MapEnv) (m : Option MapId) (cp cn : Content) (zq : Rat) :
    approxSumQ env (Sketch.spec m cp cn (.fin zq)) =
      some (fsumC (valQ env) cp - fsumC (valQ env) cn) := by
  unfold approxSumQ
  rw [Props.C12.forEachList_spec]
  simp only [Option.map_some, approxSumL_append, approxSumL_pos, approxSumL_neg]
  congr 1
  have : approxSumL (if zq = 0 then [] else [(F64.fin 0, zq)]) = 0 := by
    split <;> simp [approxSumL, ratOfF]
  rw [this]; ring

/-- `approxSumQ` depends on the stores only through the contents they refine -/
theorem approxSumQ_congr (env : MapEnv) {s : Sketch} {cp cn : Content} (h : s.Refines cp cn) :
    approxSumQ env s = approxSumQ env (Sketch.spec s.mapping cp cn s.zero) := by
  unfold approxSumQ
  rw [Sketch.forEachList_congr env h]

end DDS.Extremes

namespace DDS.Extremes
open DDS Content

/-- the signed representative of the bin of a (zero-collapsed) value, as a rational -/
def repQ (env : MapEnv) (y : Rat) : Rat :=
  if 0 < y then valQ env (idxOf env y)
  else if y < 0 then -(valQ env (idxOf env y))
  else 0

theorem binRep_eq_repQ {env : MapEnv} {α mn mx : Rat} (C : Contract env α mn mx) (y : Rat) :
    binRep env y = .fin (repQ env y) := by
  unfold binRep repQ
  split
  · exact value_eq C _
  · split
    · rw [value_eq C]; rfl
    · rfl

theorem repQ_acc {env : MapEnv} {α mn mx : Rat} (C : Contract env α mn mx) (y : Rat)
    (hy : y = 0 ∨ (mn < rabs y ∧ rabs y ≤ mx)) : rabs (repQ env y - y) ≤ α * rabs y := by
  obtain ⟨a, ha, hacc⟩ := binRep_acc env α mn mx C y hy
  rw [binRep_eq_repQ C] at ha
  cases ha
  exact hacc

theorem sum_map_neg_rep (env : MapEnv) (L : List Rat) (h : ∀ x ∈ L, 0 < x) :
    (L.map (fun x => repQ env (-x))).sum = -((L.map (idxOf env)).map (valQ env)).sum := by
  induction L with
  | nil => simp
  | cons x L ih =>
    have hx := h x (List.mem_cons_self ..)
    have e : repQ env (-x) = -(valQ env (idxOf env x)) := by
      unfold repQ
      rw [if_neg (by linarith), if_pos (by linarith), idxOf_neg]
    simp only [List.map_cons, List.sum_cons, e,
      ih (fun y hy => h y (List.mem_cons_of_mem _ hy))]
    ring

theorem sum_map_pos_rep (env : MapEnv) (L : List Rat) (h : ∀ x ∈ L, 0 < x) :
    (L.map (repQ env)).sum = ((L.map (idxOf env)).map (valQ env)).sum := by
  induction L with
  | nil => simp
  | cons x L ih =>
    have hx := h x (List.mem_cons_self ..)
    have e : repQ env x = valQ env (idxOf env x) := by
      unfold repQ; rw [if_pos hx]
    simp only [List.map_cons, List.sum_cons, e,
      ih (fun y hy => h y (List.mem_cons_of_mem _ hy))]

theorem sum_replicate_rep (env : MapEnv) (z : Nat) :
    ((List.replicate z (0 : Rat)).map (repQ env)).sum = 0 := by
  have : repQ env 0 = 0 := by simp [repQ]
  induction z with
  | zero => rfl
  | succ z ih => simp only [List.replicate_succ, List.map_cons, List.sum_cons, this, ih]; ring

/-- the exact approximate sum of the unit contents is the sum of the signed representatives of
    the ground truth -/
theorem sum_rep_threeWay (env : MapEnv) (M P : List Rat) (z : Nat)
    (hM : ∀ x ∈ M, 0 < x) (hP : ∀ x ∈ P, 0 < x) :
    ((threeWay M z P).map (repQ env)).sum =
      fsumC (valQ env) (unitsOf (P.map (idxOf env))) -
        fsumC (valQ env) (unitsOf (M.map (idxOf env))) := by
  unfold threeWay
  rw [List.map_append, List.map_append, List.sum_append, List.sum_append, List.map_map,
    sum_replicate_rep, sum_map_pos_rep env P hP, fsumC_unitsOf, fsumC_unitsOf]
  have h1 : (List.map (repQ env ∘ fun x => -x) M.reverse).sum =
      (M.reverse.map (fun x => repQ env (-x))).sum := rfl
  rw [h1, sum_map_neg_rep env M.reverse (fun x hx => hM x (List.mem_reverse.1 hx)),
    List.map_reverse, List.map_reverse, List.sum_reverse]
  ring

/-- per-element relative accuracy adds up: the error of a sum is at most `α · Σ |x|` -/
theorem sum_err (g : Rat → Rat) (α : Rat) (l : List Rat)
    (h : ∀ y ∈ l, rabs (g y - y) ≤ α * rabs y) :
    rabs ((l.map g).sum - l.sum) ≤ α * (l.map rabs).sum := by
  induction l with
  | nil => simp [rabs]
  | cons x l ih =>
    have h1 := h x (List.mem_cons_self ..)
    have h2 := ih (fun y hy => h y (List.mem_cons_of_mem _ hy))
    simp only [List.map_cons, List.sum_cons]
    rw [rabs_eq_abs] at h1 h2 ⊢
    have e : g x + (l.map g).sum - (x + l.sum) = (g x - x) + ((l.map g).sum - l.sum) := by ring
    rw [e]
    have := abs_add_le (g x - x) ((l.map g).sum - l.sum)
    rw [mul_add]
    linarith

theorem sum_rabs_nonneg (l : List Rat) (h : ∀ y ∈ l, 0 ≤ y) : (l.map rabs).sum = rabs l.sum := by
  have key : ∀ l : List Rat, (∀ y ∈ l, 0 ≤ y) → (l.map rabs).sum = l.sum ∧ 0 ≤ l.sum := by
    intro l
    induction l with
    | nil => intro _; simp
    | cons x l ih =>
      intro h
      have hx := h x (List.mem_cons_self ..)
      obtain ⟨i1, i2⟩ := ih (fun y hy => h y (List.mem_cons_of_mem _ hy))
      simp only [List.map_cons, List.sum_cons, i1]
      rw [rabs_eq_abs, abs_of_nonneg hx]
      exact ⟨rfl, by linarith⟩
  obtain ⟨k1, k2⟩ := key l h
  rw [k1, rabs_eq_abs, abs_of_nonneg k2]

theorem sum_rabs_nonpos (l : List Rat) (h : ∀ y ∈ l, y ≤ 0) : (l.map rabs).sum = rabs l.sum := by
  have key : ∀ l : List Rat, (∀ y ∈ l, y ≤ 0) → (l.map rabs).sum = -l.sum ∧ l.sum ≤ 0 := by
    intro l
    induction l with
    | nil => intro _; simp
    | cons x l ih =>
      intro h
      have hx := h x (List.mem_cons_self ..)
      obtain ⟨i1, i2⟩ := ih (fun y hy => h y (List.mem_cons_of_mem _ hy))
      simp only [List.map_cons, List.sum_cons, i1]
      rw [rabs_eq_abs, abs_of_nonpos hx]
      exact ⟨by ring, by linarith⟩
  obtain ⟨k1, k2⟩ := key l h
  rw [k1, rabs_eq_abs, abs_of_nonpos k2]

section sumUnits
variable (env : MapEnv) (α mn mx : Rat) (C : Contract env α mn mx)
  (xs : List Rat) (hx : ∀ x ∈ xs, rabs x ≤ mx) (hn : xs.length ≤ 2 ^ 53)
  (s : Sketch)
  (hs : Sketch.addAll env (Sketch.new (some env.id) .sparse) (xs.map (fun x => (x, 1))) = some s)
include C hx hn hs

/-- the exact approximate sum after unit adds: the sum of the signed bin representatives of the
    inputs -/
theorem approxSumQ_units :
    approxSumQ env s = some (((sortedInputs mn xs).map (repQ env)).sum) := by
  have hmn := C.minPos
  have hst := addAll_state env α mn mx C xs hx hn s hs
  subst hst
  rw [sortedInputs_split mn hmn xs, sum_rep_threeWay env _ _ _
    (fun x h => by linarith [(Msorted_range mn mx xs hx x h).1])
    (fun x h => by linarith [(Psorted_range mn mx xs hx x h).1])]
  exact approxSumQ_spec env (some env.id) _ _ _

/-- **accuracy of the approximate sum, general form**: the error is at most `α · Σ |xᵢ|` -/
theorem sum_accuracy_abs' :
    ∃ A : Rat, approxSumQ env s = some A ∧
      rabs (A - (sortedInputs mn xs).sum) ≤ α * ((sortedInputs mn xs).map rabs).sum :=
  ⟨_, approxSumQ_units env α mn mx C xs hx hn s hs,
    sum_err (repQ env) α _ (fun y hy => repQ_acc C y (sortedInputs_range mn mx xs hx y hy))⟩

/-- **same-signed data**: the error is at most `α · |Σ xᵢ|` -/
theorem sum_accuracy'
    (hsign : (∀ y ∈ sortedInputs mn xs, 0 ≤ y) ∨ (∀ y ∈ sortedInputs mn xs, y ≤ 0)) :
    ∃ A : Rat, approxSumQ env s = some A ∧
      rabs (A - (sortedInputs mn xs).sum) ≤ α * rabs (sortedInputs mn xs).sum := by
  obtain ⟨A, h1, h2⟩ := sum_accuracy_abs' env α mn mx C xs hx hn s hs
  refine ⟨A, h1, ?_⟩
  rcases hsign with h | h
  · rwa [sum_rabs_nonneg _ h] at h2
  · rwa [sum_rabs_nonpos _ h] at h2

end sumUnits

theorem sortedInputs_nonneg_of (mn : Rat) (xs : List Rat) (h : ∀ x ∈ xs, 0 ≤ x) :
    ∀ y ∈ sortedInputs mn xs, 0 ≤ y := by
  intro y hy
  obtain ⟨x, hx, rfl⟩ := mem_sortedInputs.1 hy
  unfold zeroSmall; split
  · exact le_refl _
  · exact h x hx

theorem sortedInputs_nonpos_of (mn : Rat) (xs : List Rat) (h : ∀ x ∈ xs, x ≤ 0) :
    ∀ y ∈ sortedInputs mn xs, y ≤ 0 := by
  intro y hy
  obtain ⟨x, hx, rfl⟩ := mem_sortedInputs.1 hy
  unfold zeroSmall; split
  · exact le_refl _
  · exact h x hx

/-- the ground truth has the sum of the zero-collapsed inputs -/
theorem sum_sortedInputs (mn : Rat) (xs : List Rat) :
    (sortedInputs mn xs).sum = (xs.map (zeroSmall mn)).sum :=
  (sortAsc_perm _).sum_eq

end DDS.Extremes

/-! ### the float fold of `GetSum()` -/

namespace DDS.Extremes
open DDS Content

/-- **exactness hypothesis of `GetSum()`**: every enumerated value is finite, every product
    `value · weight` is a float, and so is every partial sum (the sum over each prefix of the
    enumeration) -/
structure SumExact (l : List (F64 × Rat)) : Prop where
  prod : ∀ p ∈ l, ∃ r, p.1 = .fin r ∧ F64.roundF64 (r * p.2) = .fin (r * p.2)
  psum : ∀ k ≤ l.length, F64.roundF64 (approxSumL (l.take k)) = .fin (approxSumL (l.take k))

/-- the fold `sum += value * count` of `GetSum()` -/
def sumFold (acc : F64) (l : List (F64 × Rat)) : F64 :=
  l.foldl (fun acc p => F64.add acc (F64.mul p.1 (.fin p.2))) acc

theorem getSum_eq_fold (env : MapEnv) (s : Sketch) :
    s.getSum env = (s.forEachList env).map (sumFold (.fin 0)) := by
  unfold Sketch.getSum sumFold
  cases s.forEachList env <;> rfl

theorem sumFold_exact (pre l : List (F64 × Rat))
    (hprod : ∀ p ∈ l, ∃ r, p.1 = .fin r ∧ F64.roundF64 (r * p.2) = .fin (r * p.2))
    (hpart : ∀ k ≤ l.length,
      F64.roundF64 (approxSumL (pre ++ l.take k)) = .fin (approxSumL (pre ++ l.take k))) :
    sumFold (.fin (approxSumL pre)) l = .fin (approxSumL (pre ++ l)) := by
  induction l generalizing pre with
  | nil => simp [sumFold]
  | cons p l ih =>
    obtain ⟨r, hr, hp⟩ := hprod p (List.mem_cons_self ..)
    have h1 := hpart 1 (by simp)
    have e1 : approxSumL (pre ++ [p]) = approxSumL pre + r * p.2 := by
      rw [approxSumL_append]; simp [approxSumL, hr, ratOfF]
    simp only [List.take_succ_cons, List.take_zero] at h1
    have step : F64.add (.fin (approxSumL pre)) (F64.mul p.1 (.fin p.2)) =
        .fin (approxSumL (pre ++ [p])) := by
      rw [hr]
      show F64.add _ (F64.roundF64 (r * p.2)) = _
      rw [hp]
      show F64.roundF64 (approxSumL pre + r * p.2) = _
      rw [← e1]; exact h1
    have := ih (pre ++ [p]) (fun q hq => hprod q (List.mem_cons_of_mem _ hq)) (by
      intro k hk
      have := hpart (k + 1) (by simp; omega)
      simpa [List.take_succ_cons, List.append_assoc] using this)
    show sumFold (F64.add (.fin (approxSumL pre)) (F64.mul p.1 (.fin p.2))) l = _
    rw [step, this, List.append_assoc]
    rfl

/-- **the float `GetSum()` is the exact approximate sum when nothing is rounded** -/
theorem getSum_of_exact (env : MapEnv) (s : Sketch) (l : List (F64 × Rat))
    (hl : s.forEachList env = some l) (hE : SumExact l) :
    s.getSum env = some (.fin (approxSumL l)) ∧ approxSumQ env s = some (approxSumL l) := by
  constructor
  · rw [getSum_eq_fold, hl, Option.map_some]
    have := sumFold_exact [] l hE.prod (by simpa using hE.psum)
    simpa [approxSumL] using this
  · unfold approxSumQ; rw [hl]; rfl

end DDS.Extremes

/-! ## E. every store kind -/

namespace DDS.Extremes
open DDS Content DDS.Lift

/-- a sketch refining contents observes (extremes, enumeration, sums) like the spec sketch -/
theorem obs_congr (env : MapEnv) {s : Sketch} {cp cn : Content} (h : s.Refines cp cn) :
    s.getMin env = (Sketch.spec s.mapping cp cn s.zero).getMin env ∧
    s.getMax env = (Sketch.spec s.mapping cp cn s.zero).getMax env ∧
    s.forEachList env = (Sketch.spec s.mapping cp cn s.zero).forEachList env ∧
    s.getSum env = (Sketch.spec s.mapping cp cn s.zero).getSum env ∧
    approxSumQ env s = approxSumQ env (Sketch.spec s.mapping cp cn s.zero) :=
  ⟨Sketch.getMin_congr env h, Sketch.getMax_congr env h, Sketch.forEachList_congr env h,
    Sketch.getSum_congr env h, approxSumQ_congr env h⟩

/-- the sketch built by unit adds on stores of a non-collapsing kind observes like the spec sketch
    built from the same values (no bound on the number of values) -/
theorem obs_eq_spec (k : StoreKind) (hk : Plain k)
    (env : MapEnv) (α mn mx : Rat) (C : Contract env α mn mx)
    (xs : List Rat) (hx : ∀ x ∈ xs, rabs x ≤ mx)
    (hx32 : ∀ x ∈ xs, mn < rabs x → I32 (env.index (.fin (rabs x)))) (s : Sketch)
    (hs : Sketch.addAll env (Sketch.new (some env.id) k) (xs.map (fun x => (x, 1))) = some s) :
    ∃ s₀, Sketch.addAll env (Sketch.new (some env.id) .sparse) (xs.map (fun x => (x, 1))) = some s₀ ∧
      s.getMin env = s₀.getMin env ∧ s.getMax env = s₀.getMax env ∧
      s.forEachList env = s₀.forEachList env ∧ s.getSum env = s₀.getSum env ∧
      approxSumQ env s = approxSumQ env s₀ := by
  obtain ⟨s', s₀, h1, h2, G, h4⟩ := Props.Lift.addAll_any_store k hk env α mn mx C xs hx hx32
  rw [hs] at h1
  cases h1
  refine ⟨s₀, h2, ?_⟩
  rw [← h4]
  exact obs_congr env G.refines

end DDS.Extremes

/-! ## F. collapsing stores: the clamped extremes -/

namespace DDS.Extremes
open DDS Content DDS.Lift

theorem isEmpty_specLow (N : Nat) (c : Content) (h : c.WF) : (specLow N c).isEmpty = c.isEmpty := by
  rw [Bool.eq_iff_iff, isEmpty_iff_total_zero _ (wf_specLow N c h), isEmpty_iff_total_zero c h,
    total_specLow]

theorem isEmpty_specHigh (N : Nat) (c : Content) (h : c.WF) :
    (specHigh N c).isEmpty = c.isEmpty := by
  rw [Bool.eq_iff_iff, isEmpty_iff_total_zero _ (wf_specHigh N c h), isEmpty_iff_total_zero c h,
    total_specHigh]

/-- lowest-collapsing keeps the maximum index -/
theorem maxIndex_specLow (N : Nat) (hN : 1 ≤ N) (c : Content) (h : c.WF) :
    (specLow N c).maxIndex? = c.maxIndex? := by
  cases hmx : c.maxIndex? with
  | none => rw [maxIndex?_eq_none.1 hmx]; rfl
  | some mx => exact (specLow_keys N hN c h mx hmx).1

/-- highest-collapsing keeps the minimum index -/
theorem minIndex_specHigh (N : Nat) (hN : 1 ≤ N) (c : Content) (h : c.WF) :
    (specHigh N c).minIndex? = c.minIndex? := by
  cases hmn : c.minIndex? with
  | none => rw [minIndex?_eq_none.1 hmn]; rfl
  | some mn => exact (specHigh_keys N hN c h mn hmn).1

/-- **the clamped minimum of C05**: the minimum index of a lowest-collapsing content is
    `max(minIndex, maxIndex − N + 1)` -/
theorem minIndex_specLow (N : Nat) (c : Content) (h : c.WF) (mn mx : Int)
    (hmn : c.minIndex? = some mn) (hmx : c.maxIndex? = some mx) :
    (specLow N c).minIndex? = some (max mn (mx - (N : Int) + 1)) := by
  rw [specLow_of_max N c mx hmx]
  apply minIndex?_eq_of _ (wf_foldLow c h _).1
  · obtain ⟨w, hw⟩ := minIndex_mem c mn hmn
    have := key_mem_relabel (fun i => if i < mx - (N : Int) + 1 then mx - (N : Int) + 1 else i)
      c h _ hw
    simp only at this
    have e1 : (if mn < mx - (N : Int) + 1 then mx - (N : Int) + 1 else mn) =
        max mn (mx - (N : Int) + 1) := by split <;> omega
    rw [e1] at this
    exact this
  · intro p hp
    obtain ⟨q, hq, hqp⟩ := mem_relabel hp
    have := minIndex_le c h mn hmn q hq
    split at hqp <;> omega

/-- **the clamped maximum of C05**: the maximum index of a highest-collapsing content is
    `min(maxIndex, minIndex + N − 1)` -/
theorem maxIndex_specHigh (N : Nat) (c : Content) (h : c.WF) (mn mx : Int)
    (hmn : c.minIndex? = some mn) (hmx : c.maxIndex? = some mx) :
    (specHigh N c).maxIndex? = some (min mx (mn + (N : Int) - 1)) := by
  rw [specHigh_of_min N c mn hmn]
  exact maxIndex_foldHigh c h _ mx hmx

end DDS.Extremes

namespace DDS.Extremes
open DDS Content DDS.Lift

section collapsed
variable (env : MapEnv) (N : Nat) (hN : 1 ≤ N) (m : Option MapId) (cp cn : Content) (z : F64)
  (hcp : cp.WF) (hcn : cn.WF)
include hN hcp hcn

/-- `GetMinValue` on lowest-collapsing contents: unchanged when there is a negative value or a
    zero; otherwise the representative of the clamped minimum bin `max(min, max − N + 1)` -/
theorem getMin_specLow :
    (Sketch.spec m (specLow N cp) (specLow N cn) z).getMin env =
      if (!cn.isEmpty || F64.gt z (.fin 0)) = true then (Sketch.spec m cp cn z).getMin env
      else match cp.minIndex?, cp.maxIndex? with
        | some a, some b => .ok (env.value (max a (b - (N : Int) + 1)))
        | _, _ => .error .empty := by
  have e1 : (Sketch.spec m (specLow N cp) (specLow N cn) z).getMin env = _ := getMin_sp env m _ _ z
  have e2 : (Sketch.spec m cp cn z).getMin env = _ := getMin_sp env m cp cn z
  rw [e1, e2, isEmpty_specLow N cn hcn, maxIndex_specLow N hN cn hcn]
  by_cases h1 : (!cn.isEmpty) = true
  · simp only [h1, Bool.true_or, if_true]
  · simp only [h1, Bool.false_or, Bool.false_eq_true, if_false]
    by_cases h2 : F64.gt z (.fin 0) = true
    · simp only [h2, if_true]
    · simp only [h2, Bool.false_eq_true, if_false]
      cases hmn : cp.minIndex? with
      | none => rw [minIndex?_eq_none.1 hmn]; rfl
      | some a =>
        have hne : cp ≠ [] := by intro h; rw [h] at hmn; cases hmn
        obtain ⟨b, hb⟩ := maxIndex?_isSome cp hne
        rw [minIndex_specLow N cp hcp a b hmn hb, hb]

/-- `GetMaxValue` on lowest-collapsing contents: unchanged when there is a positive value or a
    zero; otherwise (negative values only) minus the representative of the clamped bin -/
theorem getMax_specLow :
    (Sketch.spec m (specLow N cp) (specLow N cn) z).getMax env =
      if (!cp.isEmpty || F64.gt z (.fin 0)) = true then (Sketch.spec m cp cn z).getMax env
      else match cn.minIndex?, cn.maxIndex? with
        | some a, some b => .ok (F64.neg (env.value (max a (b - (N : Int) + 1))))
        | _, _ => .error .empty := by
  have e1 : (Sketch.spec m (specLow N cp) (specLow N cn) z).getMax env = _ := getMax_sp env m _ _ z
  have e2 : (Sketch.spec m cp cn z).getMax env = _ := getMax_sp env m cp cn z
  rw [e1, e2, isEmpty_specLow N cp hcp, maxIndex_specLow N hN cp hcp]
  by_cases h1 : (!cp.isEmpty) = true
  · simp only [h1, Bool.true_or, if_true]
  · simp only [h1, Bool.false_or, Bool.false_eq_true, if_false]
    by_cases h2 : F64.gt z (.fin 0) = true
    · simp only [h2, if_true]
    · simp only [h2, Bool.false_eq_true, if_false]
      cases hmn : cn.minIndex? with
      | none => rw [minIndex?_eq_none.1 hmn]; rfl
      | some a =>
        have hne : cn ≠ [] := by intro h; rw [h] at hmn; cases hmn
        obtain ⟨b, hb⟩ := maxIndex?_isSome cn hne
        rw [minIndex_specLow N cn hcn a b hmn hb, hb]

/-- `GetMinValue` on highest-collapsing contents: with negative values, minus the representative
    of the clamped bin `min(max, min + N − 1)`; otherwise unchanged -/
theorem getMin_specHigh :
    (Sketch.spec m (specHigh N cp) (specHigh N cn) z).getMin env =
      if (!cn.isEmpty) = true then
        match cn.minIndex?, cn.maxIndex? with
        | some a, some b => .ok (F64.neg (env.value (min b (a + (N : Int) - 1))))
        | _, _ => .ok (F64.neg (env.value 0))
      else (Sketch.spec m cp cn z).getMin env := by
  have e1 : (Sketch.spec m (specHigh N cp) (specHigh N cn) z).getMin env = _ :=
    getMin_sp env m _ _ z
  have e2 : (Sketch.spec m cp cn z).getMin env = _ := getMin_sp env m cp cn z
  rw [e1, e2, isEmpty_specHigh N cn hcn, minIndex_specHigh N hN cp hcp]
  by_cases h1 : (!cn.isEmpty) = true
  · simp only [h1, if_true]
    have hne : cn ≠ [] := by
      intro h; rw [h] at h1; simp [Content.isEmpty] at h1
    obtain ⟨b, hb⟩ := maxIndex?_isSome cn hne
    cases hmn : cn.minIndex? with
    | none => exact absurd (minIndex?_eq_none.1 hmn) hne
    | some a => rw [maxIndex_specHigh N cn hcn a b hmn hb, hb]
  · simp only [h1, Bool.false_eq_true, if_false]

/-- `GetMaxValue` on highest-collapsing contents: with positive values, the representative of the
    clamped bin `min(max, min + N − 1)`; otherwise unchanged -/
theorem getMax_specHigh :
    (Sketch.spec m (specHigh N cp) (specHigh N cn) z).getMax env =
      if (!cp.isEmpty) = true then
        match cp.minIndex?, cp.maxIndex? with
        | some a, some b => .ok (env.value (min b (a + (N : Int) - 1)))
        | _, _ => .ok (env.value 0)
      else (Sketch.spec m cp cn z).getMax env := by
  have e1 : (Sketch.spec m (specHigh N cp) (specHigh N cn) z).getMax env = _ :=
    getMax_sp env m _ _ z
  have e2 : (Sketch.spec m cp cn z).getMax env = _ := getMax_sp env m cp cn z
  rw [e1, e2, isEmpty_specHigh N cp hcp, minIndex_specHigh N hN cn hcn]
  by_cases h1 : (!cp.isEmpty) = true
  · simp only [h1, if_true]
    have hne : cp ≠ [] := by
      intro h; rw [h] at h1; simp [Content.isEmpty] at h1
    obtain ⟨b, hb⟩ := maxIndex?_isSome cp hne
    cases hmn : cp.minIndex? with
    | none => exact absurd (minIndex?_eq_none.1 hmn) hne
    | some a => rw [maxIndex_specHigh N cp hcp a b hmn hb, hb]
  · simp only [h1, Bool.false_eq_true, if_false]

end collapsed

end DDS.Extremes

namespace DDS.Extremes
open DDS Content DDS.Lift

section collapsingSk
variable (N : Nat) (hN : 1 ≤ N)
  (env : MapEnv) (α mn mx : Rat) (C : Contract env α mn mx)
  (xs : List Rat) (hx : ∀ x ∈ xs, rabs x ≤ mx)
  (hx32 : ∀ x ∈ xs, mn < rabs x → I32 (env.index (.fin (rabs x)))) (s : Sketch)
include hN C hx hx32

/-- the extremes reported by a sketch on lowest-collapsing stores, in terms of the exact
    contents `cp`, `cn` of the spec sketch `s₀` built from the same values -/
theorem low_extremes'
    (hs : Sketch.addAll env (Sketch.new (some env.id) (.low N)) (xs.map (fun x => (x, 1))) = some s) :
    ∃ s₀ cp cn,
      Sketch.addAll env (Sketch.new (some env.id) .sparse) (xs.map (fun x => (x, 1))) = some s₀ ∧
      s₀ = Sketch.spec (some env.id) cp cn s.zero ∧ cp.WF ∧ cn.WF ∧
      s.getMin env =
        (if (!cn.isEmpty || F64.gt s.zero (.fin 0)) = true then s₀.getMin env
         else match cp.minIndex?, cp.maxIndex? with
          | some a, some b => .ok (env.value (max a (b - (N : Int) + 1)))
          | _, _ => .error .empty) ∧
      s.getMax env =
        (if (!cp.isEmpty || F64.gt s.zero (.fin 0)) = true then s₀.getMax env
         else match cn.minIndex?, cn.maxIndex? with
          | some a, some b => .ok (F64.neg (env.value (max a (b - (N : Int) + 1))))
          | _, _ => .error .empty) := by
  obtain ⟨s', s₀, cp, cn, h1, h2, h3, hmap, wp, wn, _, _, _, _, R⟩ :=
    Props.Lift.collapsing_sketch_contents (.low N) hN env α mn mx C xs hx hx32
  rw [hs] at h1
  cases h1
  change s.Refines (specLow N cp) (specLow N cn) at R
  refine ⟨s₀, cp, cn, h2, h3, wp, wn, ?_, ?_⟩
  · rw [Sketch.getMin_congr env R, hmap, getMin_specLow env N hN _ cp cn s.zero wp wn, h3]
  · rw [Sketch.getMax_congr env R, hmap, getMax_specLow env N hN _ cp cn s.zero wp wn, h3]

/-- the same for highest-collapsing stores -/
theorem high_extremes'
    (hs : Sketch.addAll env (Sketch.new (some env.id) (.high N)) (xs.map (fun x => (x, 1))) = some s) :
    ∃ s₀ cp cn,
      Sketch.addAll env (Sketch.new (some env.id) .sparse) (xs.map (fun x => (x, 1))) = some s₀ ∧
      s₀ = Sketch.spec (some env.id) cp cn s.zero ∧ cp.WF ∧ cn.WF ∧
      s.getMin env =
        (if (!cn.isEmpty) = true then
          match cn.minIndex?, cn.maxIndex? with
          | some a, some b => .ok (F64.neg (env.value (min b (a + (N : Int) - 1))))
          | _, _ => .ok (F64.neg (env.value 0))
         else s₀.getMin env) ∧
      s.getMax env =
        (if (!cp.isEmpty) = true then
          match cp.minIndex?, cp.maxIndex? with
          | some a, some b => .ok (env.value (min b (a + (N : Int) - 1)))
          | _, _ => .ok (env.value 0)
         else s₀.getMax env) := by
  obtain ⟨s', s₀, cp, cn, h1, h2, h3, hmap, wp, wn, _, _, _, _, R⟩ :=
    Props.Lift.collapsing_sketch_contents (.high N) hN env α mn mx C xs hx hx32
  rw [hs] at h1
  cases h1
  change s.Refines (specHigh N cp) (specHigh N cn) at R
  refine ⟨s₀, cp, cn, h2, h3, wp, wn, ?_, ?_⟩
  · rw [Sketch.getMin_congr env R, hmap, getMin_specHigh env N hN _ cp cn s.zero wp wn, h3]
  · rw [Sketch.getMax_congr env R, hmap, getMax_specHigh env N hN _ cp cn s.zero wp wn, h3]

end collapsingSk

end DDS.Extremes

namespace DDS.Extremes
open DDS Content DDS.Lift

theorem Msorted_length (mn : Rat) (xs : List Rat) :
    (Msorted mn xs).length = (negPart mn xs).length := by
  rw [Msorted, (sortAsc_perm _).length_eq, List.length_map]

theorem Psorted_length (mn : Rat) (xs : List Rat) :
    (Psorted mn xs).length = (posPart mn xs).length := by
  rw [Psorted, (sortAsc_perm _).length_eq]

/-- some input is negative or in the zero bucket -/
theorem neg_or_zero_of (env : MapEnv) (mn : Rat) (hmn : 0 < mn) (xs : List Rat)
    (h : ∃ x ∈ xs, x ≤ mn) :
    (!(unitsOf ((Msorted mn xs).map (idxOf env))).isEmpty ||
      F64.gt (.fin (zeroCnt mn xs : Rat)) (.fin 0)) = true := by
  obtain ⟨x, hx, hle⟩ := h
  rw [isEmpty_unitsOf_map, Msorted_length]
  by_cases hneg : x < -mn
  · have : x ∈ negPart mn xs := List.mem_filter.2 ⟨hx, by simpa using hneg⟩
    have : 0 < (negPart mn xs).length := List.length_pos_of_mem this
    have h0 : ¬ (negPart mn xs).length = 0 := by omega
    simp [h0]
  · have hz : rabs x ≤ mn := rabs_le_iff.2 ⟨by linarith, hle⟩
    have : x ∈ xs.filter (fun x => decide (rabs x ≤ mn)) :=
      List.mem_filter.2 ⟨hx, by simpa using hz⟩
    have : 0 < zeroCnt mn xs := List.length_pos_of_mem this
    have h0 : (0 : Rat) < (zeroCnt mn xs : Rat) := by exact_mod_cast this
    have : F64.gt (.fin (zeroCnt mn xs : Rat)) (.fin 0) = true := by
      simpa [F64.gt, F64.lt] using h0
    rw [this, Bool.or_true]

/-- some input is positive or in the zero bucket -/
theorem pos_or_zero_of (env : MapEnv) (mn : Rat) (hmn : 0 < mn) (xs : List Rat)
    (h : ∃ x ∈ xs, -mn ≤ x) :
    (!(unitsOf ((Psorted mn xs).map (idxOf env))).isEmpty ||
      F64.gt (.fin (zeroCnt mn xs : Rat)) (.fin 0)) = true := by
  obtain ⟨x, hx, hle⟩ := h
  rw [isEmpty_unitsOf_map, Psorted_length]
  by_cases hpos : mn < x
  · have : x ∈ posPart mn xs := List.mem_filter.2 ⟨hx, by simpa using hpos⟩
    have : 0 < (posPart mn xs).length := List.length_pos_of_mem this
    have h0 : ¬ (posPart mn xs).length = 0 := by omega
    simp [h0]
  · have hz : rabs x ≤ mn := rabs_le_iff.2 ⟨hle, by linarith⟩
    have : x ∈ xs.filter (fun x => decide (rabs x ≤ mn)) :=
      List.mem_filter.2 ⟨hx, by simpa using hz⟩
    have : 0 < zeroCnt mn xs := List.length_pos_of_mem this
    have h0 : (0 : Rat) < (zeroCnt mn xs : Rat) := by exact_mod_cast this
    have : F64.gt (.fin (zeroCnt mn xs : Rat)) (.fin 0) = true := by
      simpa [F64.gt, F64.lt] using h0
    rw [this, Bool.or_true]

theorem no_neg_of (env : MapEnv) (mn : Rat) (xs : List Rat) (h : ∀ x ∈ xs, -mn ≤ x) :
    (!(unitsOf ((Msorted mn xs).map (idxOf env))).isEmpty) = false := by
  rw [isEmpty_unitsOf_map, Msorted_length]
  have : negPart mn xs = [] := by
    rw [negPart, List.filter_eq_nil_iff]
    intro x hx
    have := h x hx
    simp only [decide_eq_true_eq, not_lt]; exact this
  simp [this]

theorem no_pos_of (env : MapEnv) (mn : Rat) (xs : List Rat) (h : ∀ x ∈ xs, x ≤ mn) :
    (!(unitsOf ((Psorted mn xs).map (idxOf env))).isEmpty) = false := by
  rw [isEmpty_unitsOf_map, Psorted_length]
  have : posPart mn xs = [] := by
    rw [posPart, List.filter_eq_nil_iff]
    intro x hx
    have := h x hx
    simp only [decide_eq_true_eq, not_lt]; exact this
  simp [this]

section retained
variable (N : Nat) (hN : 1 ≤ N)
  (env : MapEnv) (α mn mx : Rat) (C : Contract env α mn mx)
  (xs : List Rat) (hx : ∀ x ∈ xs, rabs x ≤ mx)
  (hx32 : ∀ x ∈ xs, mn < rabs x → I32 (env.index (.fin (rabs x))))
  (hn : xs.length ≤ 2 ^ 53) (s : Sketch)
include hN C hx hx32 hn

/-- the contents of the spec sketch, as `low_extremes'` / `high_extremes'` name them -/
theorem spec_contents (s₀ : Sketch) (cp cn : Content) (z : F64)
    (h2 : Sketch.addAll env (Sketch.new (some env.id) .sparse) (xs.map (fun x => (x, 1))) = some s₀)
    (h3 : s₀ = Sketch.spec (some env.id) cp cn z) :
    cp = unitsOf ((Psorted mn xs).map (idxOf env)) ∧
    cn = unitsOf ((Msorted mn xs).map (idxOf env)) ∧ z = .fin (zeroCnt mn xs : Rat) := by
  have hst := addAll_state env α mn mx C xs hx hn s₀ h2
  rw [h3] at hst
  simp only [Sketch.spec, Sketch.mk.injEq, Store.sp.injEq, true_and] at hst
  exact hst

/-- lowest-collapsing: with a negative or zero input the reported minimum is the un-collapsed one -/
theorem low_min_eq (hlow : ∃ x ∈ xs, x ≤ mn)
    (hs : Sketch.addAll env (Sketch.new (some env.id) (.low N)) (xs.map (fun x => (x, 1))) = some s) :
    ∃ s₀, Sketch.addAll env (Sketch.new (some env.id) .sparse) (xs.map (fun x => (x, 1))) = some s₀ ∧
      s.getMin env = s₀.getMin env := by
  obtain ⟨s₀, cp, cn, h2, h3, _, _, hmin, _⟩ := low_extremes' N hN env α mn mx C xs hx hx32 s hs
  obtain ⟨_, e2, e3⟩ := spec_contents N hN env α mn mx C xs hx hx32 hn s₀ cp cn s.zero h2 h3
  refine ⟨s₀, h2, ?_⟩
  rw [hmin, e2, e3, if_pos (neg_or_zero_of env mn C.minPos xs hlow)]

/-- lowest-collapsing: with a positive or zero input the reported maximum is the un-collapsed one -/
theorem low_max_eq (hhigh : ∃ x ∈ xs, -mn ≤ x)
    (hs : Sketch.addAll env (Sketch.new (some env.id) (.low N)) (xs.map (fun x => (x, 1))) = some s) :
    ∃ s₀, Sketch.addAll env (Sketch.new (some env.id) .sparse) (xs.map (fun x => (x, 1))) = some s₀ ∧
      s.getMax env = s₀.getMax env := by
  obtain ⟨s₀, cp, cn, h2, h3, _, _, _, hmax⟩ := low_extremes' N hN env α mn mx C xs hx hx32 s hs
  obtain ⟨e1, _, e3⟩ := spec_contents N hN env α mn mx C xs hx hx32 hn s₀ cp cn s.zero h2 h3
  refine ⟨s₀, h2, ?_⟩
  rw [hmax, e1, e3, if_pos (pos_or_zero_of env mn C.minPos xs hhigh)]

/-- highest-collapsing: without negative inputs the reported minimum is the un-collapsed one -/
theorem high_min_eq (hnn : ∀ x ∈ xs, -mn ≤ x)
    (hs : Sketch.addAll env (Sketch.new (some env.id) (.high N)) (xs.map (fun x => (x, 1))) = some s) :
    ∃ s₀, Sketch.addAll env (Sketch.new (some env.id) .sparse) (xs.map (fun x => (x, 1))) = some s₀ ∧
      s.getMin env = s₀.getMin env := by
  obtain ⟨s₀, cp, cn, h2, h3, _, _, hmin, _⟩ := high_extremes' N hN env α mn mx C xs hx hx32 s hs
  obtain ⟨_, e2, _⟩ := spec_contents N hN env α mn mx C xs hx hx32 hn s₀ cp cn s.zero h2 h3
  refine ⟨s₀, h2, ?_⟩
  rw [hmin, e2, no_neg_of env mn xs hnn, if_neg (by simp)]

/-- highest-collapsing: without positive inputs the reported maximum is the un-collapsed one -/
theorem high_max_eq (hnp : ∀ x ∈ xs, x ≤ mn)
    (hs : Sketch.addAll env (Sketch.new (some env.id) (.high N)) (xs.map (fun x => (x, 1))) = some s) :
    ∃ s₀, Sketch.addAll env (Sketch.new (some env.id) .sparse) (xs.map (fun x => (x, 1))) = some s₀ ∧
      s.getMax env = s₀.getMax env := by
  obtain ⟨s₀, cp, cn, h2, h3, _, _, _, hmax⟩ := high_extremes' N hN env α mn mx C xs hx hx32 s hs
  obtain ⟨e1, _, _⟩ := spec_contents N hN env α mn mx C xs hx hx32 hn s₀ cp cn s.zero h2 h3
  refine ⟨s₀, h2, ?_⟩
  rw [hmax, e1, no_pos_of env mn xs hnp, if_neg (by simp)]

end retained

end DDS.Extremes
