/-
  DDS.Proofs.GenPagCodec — the binary codec of the REGENERATED buffered-paginated store
  (`DDS.Gen.Paginated.BufferedPaginatedStore.Encode` / `.DecodeAndMergeWith` in
  `DDS/Generated/CodePaginated.lean`) against the HAND-WRITTEN model (`Sketch.encodeStore (.pg s)`,
  `Sketch.decodeStore (.pg s)`).
-/
import DDS.Proofs.GenPagDefs
import DDS.Proofs.GenDenseEncode
import DDS.Proofs.RoundTrip

namespace DDS.GenPag

open DDS DDS.GoSem DDS.Gen.Encoding DDS.Codec DDS.GenEncoding DDS.GenDense
open DDS.GenDenseEncode (EncodeVarfloat64_fin bn_append block_bytes flatMap_vfBits)
open DDS.RoundTrip (dRec deltasFrom0_eq dRec_length pageBlocksFrom encodeStore_pg_eq)

/-! ### 1. `Encode` -/

/-- `int64(x)` does not wrap -/
def I64r (v : Int) : Prop := -(2:Int)^63 ≤ v ∧ v < (2:Int)^63

/-- the blocks the model's encoder writes for the (already compacted) store `s` -/
def pagBlocks (s : PStore) (side : Side) : List Block :=
  (if s.buffer.isEmpty then [] else [.bins side (.deltas (Sketch.deltasFrom0 s.buffer))])
    ++ pageBlocksFrom s side s.pages.toList 0

theorem encodeStore_pg (s : PStore) (side : Side) :
    Sketch.encodeStore (.pg s) side = s.compact.map (fun s' => (Store.pg s', pagBlocks s' side)) := by
  cases h : s.compact with
  | none => simp only [Sketch.encodeStore, h, Option.bind_eq_bind, Option.bind_none, Option.map_none]
  | some s' => rw [encodeStore_pg_eq s s' side h]; rfl

theorem cdc_index_eq (s : PStore) (cap : Int) (p : Int) :
    Gen.Paginated.BufferedPaginatedStore.index (toGen s cap) p 0 = s.index p 0 := by
  unfold Gen.Paginated.BufferedPaginatedStore.index PStore.index PStore.pageLen
  simp only [toGen_pageLenLog2, Int.toNat_natCast]
  norm_cast

theorem cdc_ofInt_nat (n : Nat) (h : n < 2 ^ 64) : (BitVec.ofInt 64 (n : Int)).toNat = n := by
  rw [BitVec.toNat_ofInt]
  omega

/-- the counts of one page -/
theorem Encode_loop2 (fuel : Nat) (hf : 9 ≤ fuel) (page : List Rat) : ∀ (b : List (BitVec 8)),
    Gen.Paginated.BufferedPaginatedStore.Encode.loop2 fuel page b
      = .done (b ++ bn (page.flatMap fun c => encVarfloatBits (Sketch.vfBits c))) := by
  induction page with
  | nil => intro b; simp [Gen.Paginated.BufferedPaginatedStore.Encode.loop2, bn]
  | cons c page ih =>
    intro b
    unfold Gen.Paginated.BufferedPaginatedStore.Encode.loop2
    rw [EncodeVarfloat64_fin fuel hf, Res.bindL_ok, ih]
    simp only [List.flatMap_cons, bn_append, List.append_assoc]

/-- the index deltas of the buffer -/
theorem Encode_loop3 (fuel : Nat) (hf : 9 ≤ fuel) (buf : List Int) : ∀ (b : List (BitVec 8)) (prev : Int),
    (∀ d ∈ dRec prev buf, I64r d) →
    ∃ last, Gen.Paginated.BufferedPaginatedStore.Encode.loop3 fuel buf b prev
      = .done (b ++ bn ((dRec prev buf).flatMap encVarint64), last) := by
  induction buf with
  | nil => intro b prev _; exact ⟨prev, by simp [Gen.Paginated.BufferedPaginatedStore.Encode.loop3, dRec, bn]⟩
  | cons x buf ih =>
    intro b prev h
    have hx : I64r (x - prev) := h _ (by simp [dRec])
    obtain ⟨last, hl⟩ := ih (b ++ bn (encVarint64 (x - prev))) x (fun d hd => h d (by simp [dRec, hd]))
    refine ⟨last, ?_⟩
    unfold Gen.Paginated.BufferedPaginatedStore.Encode.loop3
    rw [EncodeVarint64_ofInt fuel hf b _ hx.1 hx.2, Res.bindL_ok, hl]
    simp only [dRec, List.flatMap_cons, bn_append, List.append_assoc]

theorem pageBlocksFrom_cons (s : PStore) (side : Side) (pg : Array Rat) (xs : List (Array Rat)) (n : Nat) :
    pageBlocksFrom s side (pg :: xs) n =
      (if pg.size = 0 then [] else [.bins side (.contiguous (s.index (s.minPageIndex + (n : Int)) 0) 1
        (pg.toList.map Sketch.vfBits))]) ++ pageBlocksFrom s side xs (n + 1) := by
  simp only [pageBlocksFrom, List.zipIdx_cons, List.filterMap_cons]
  by_cases h0 : pg.size = 0 <;> simp [h0]

theorem encBlocks_append (a b : List Block) : Wire.encBlocks (a ++ b) = Wire.encBlocks a ++ Wire.encBlocks b := by
  simp [Wire.encBlocks]

/-- one block per non-empty page -/
theorem Encode_loop1 (fuel : Nat) (hf : 9 ≤ fuel) (t : FlagType) (side : Side)
    (ht : t.byte.toNat = Wire.sideType side) (s : PStore) (cap : Int) (xs : List (Array Rat)) :
    ∀ (n : Nat) (b : List (BitVec 8)),
    (∀ pg ∈ xs, pg.size < 2 ^ 64) →
    (∀ q ∈ xs.zipIdx n, q.1.size ≠ 0 → I64r (s.index (s.minPageIndex + (q.2 : Int)) 0)) →
    Gen.Paginated.BufferedPaginatedStore.Encode.loop1 fuel t (toGen s cap) (xs.map Array.toList) (n : Int) b
      = .done (b ++ bn (Wire.encBlocks (pageBlocksFrom s side xs n))) := by
  induction xs with
  | nil =>
    intro n b _ _
    simp [Gen.Paginated.BufferedPaginatedStore.Encode.loop1, pageBlocksFrom, Wire.encBlocks, bn]
  | cons pg xs ih =>
    intro n b hsz hidx
    have ih' := fun b => ih (n + 1) b (fun q hq => hsz q (by simp [hq]))
      (fun q hq => hidx q (by rw [List.zipIdx_cons]; exact List.mem_cons_of_mem _ hq))
    rw [List.map_cons]
    unfold Gen.Paginated.BufferedPaginatedStore.Encode.loop1
    rw [pageBlocksFrom_cons, encBlocks_append, bn_append]
    by_cases h0 : pg.size = 0
    · have hlen : ¬ ((0 : Int) < GoSem.len pg.toList) := by
        unfold GoSem.len; rw [Array.length_toList]; omega
      simp only [hlen, decide_false, Bool.false_eq_true, if_false, h0, if_true]
      rw [show ((n : Int) + 1) = ((n + 1 : Nat) : Int) by omega, ih']
      simp [Wire.encBlocks, bn]
    · have hlen : (0 : Int) < GoSem.len pg.toList := by
        unfold GoSem.len; rw [Array.length_toList]; omega
      have hI := hidx (pg, n) (by rw [List.zipIdx_cons]; exact List.mem_cons_self ..) h0
      have hs := hsz pg (by simp)
      simp only [hlen, decide_true, if_true, h0, if_false, toGen_minPageIndex]
      rw [EncodeUvarint64_eq fuel hf, Res.bindL_ok, cdc_index_eq,
        EncodeVarint64_ofInt fuel hf _ _ hI.1 hI.2, Res.bindL_ok,
        EncodeVarint64_eq fuel hf, Res.bindL_ok, Encode_loop2 fuel hf]
      simp only [Loop.elimL]
      rw [show ((n : Int) + 1) = ((n + 1 : Nat) : Int) by omega, ih']
      congr 1
      simp only [EncodeFlag, Wire.encBlocks, List.flatMap_cons, List.flatMap_nil, List.append_nil,
        Wire.encBlock, Wire.encPayload, List.length_map, List.append_assoc]
      rw [← bn_append, ← bn_append, ← bn_append, ← List.append_assoc b, ← List.append_assoc (b ++ _),
        block_bytes b _ _ ((storeFlag_bytes side t ht).2.2)]
      unfold GoSem.len
      rw [Array.length_toList, cdc_ofInt_nat _ hs, flatMap_vfBits, show (1#64).toInt = 1 by decide]
      simp only [bn, Wire.payloadSub, List.map_append, List.map_cons, List.append_assoc, List.cons_append]

/-- the `int64` / `uint64` conversions of `Encode` do not wrap around (asked of the COMPACTED store) -/
structure PEncRange (s : PStore) : Prop where
  /-- `uint64(len(buffer))` -/
  bufLen : s.buffer.length < 2 ^ 64
  /-- `int64(index - previousIndex)`, from 0 -/
  bufDeltas : ∀ d ∈ dRec 0 s.buffer, I64r d
  /-- `uint64(len(page))` -/
  pageLen : ∀ pg ∈ s.pages.toList, pg.size < 2 ^ 64
  /-- `int64(s.index(minPageIndex + pageOffset, 0))` of a non-empty page -/
  pageIdx : ∀ q ∈ s.pages.toList.zipIdx 0, q.1.size ≠ 0 → I64r (s.index (s.minPageIndex + (q.2 : Int)) 0)

/-- the paginated component of a model store -/
def storePg : Store → PStore
  | .pg s => s
  | _ => default

/-- fuel for `Encode`: what `compact` needs, and 9 for the codecs (the three loops of `Encode` itself are
    structural on the buffer / pages) -/
def encodeFuel (cf : PStore → Nat) (s : PStore) : Nat := max (cf s) 9

/-- **MAIN (structural form).**  `Encode` compacts (`s' = compact s`, returned with the same capacity) and
    appends the bytes of the model's blocks for `s'`: the buffer as one `IndexDeltas` block (if non-empty),
    then one `ContiguousCounts` block per non-empty page; `.panic` exactly when `compact` panics. -/
theorem Encode_compact (cf : PStore → Nat) (hcompact : CompactSpec cf) (fuel : Nat) (s : PStore) (cap : Int)
    (side : Side) (t : FlagType) (ht : t.byte.toNat = Wire.sideType side) (b : List (BitVec 8))
    (hr : ∀ s', s.compact = some s' → PEncRange s') (hf : encodeFuel cf s ≤ fuel) :
    Gen.Paginated.BufferedPaginatedStore.Encode fuel (toGen s cap) b t
      = toRes (fun s' => (toGen s' cap, b ++ bn (Wire.encBlocks (pagBlocks s' side)))) s.compact := by
  have hf1 : cf s ≤ fuel := Nat.le_trans (Nat.le_max_left _ _) hf
  have hf9 : 9 ≤ fuel := Nat.le_trans (Nat.le_max_right _ _) hf
  unfold Gen.Paginated.BufferedPaginatedStore.Encode
  rw [hcompact s cap fuel hf1]
  cases hc : s.compact with
  | none => rfl
  | some s' =>
    obtain ⟨r1, r2, r3, r4⟩ := hr s' hc
    have hl1 := fun b => Encode_loop1 fuel hf9 t side ht s' cap s'.pages.toList 0 b r3 r4
    simp only [toRes_some, Res.bind_ok, toGen_buffer, toGen_pages, pagesL]
    simp only [Int.natCast_zero] at hl1
    unfold pagBlocks
    rw [encBlocks_append, bn_append]
    by_cases he : s'.buffer = []
    · have hlen : ¬ ((0 : Int) < GoSem.len s'.buffer) := by rw [he]; decide
      simp only [hlen, decide_false, Bool.false_eq_true, if_false, hl1, Loop.elim_done]
      simp only [he, List.isEmpty_nil, if_true]
      simp [Wire.encBlocks, bn]
    · have hlen : (0 : Int) < GoSem.len s'.buffer := by
        unfold GoSem.len
        have : s'.buffer.length ≠ 0 := fun h => he (List.eq_nil_of_length_eq_zero h)
        omega
      have hemp : s'.buffer.isEmpty = false := by
        cases hb : s'.buffer with
        | nil => exact absurd hb he
        | cons _ _ => rfl
      obtain ⟨last, hl3⟩ := Encode_loop3 fuel hf9 s'.buffer
        (EncodeFlag b (NewFlag t BinEncodingIndexDeltas) ++ bn (encUvarint64 s'.buffer.length)) 0 r2
      simp only [hlen, decide_true, if_true, hemp, Bool.false_eq_true, if_false]
      rw [EncodeUvarint64_eq fuel hf9, Res.bind_ok]
      unfold GoSem.len
      rw [cdc_ofInt_nat _ r1, hl3]
      simp only [Loop.elim_done, hl1]
      congr 2
      simp only [EncodeFlag, Wire.encBlocks, List.flatMap_cons, List.flatMap_nil, List.append_nil,
        Wire.encBlock, Wire.encPayload, List.append_assoc]
      rw [← bn_append, ← List.append_assoc b, ← List.append_assoc (b ++ _),
        block_bytes b _ _ ((storeFlag_bytes side t ht).2.1), deltasFrom0_eq, dRec_length]
      simp only [bn, Wire.payloadSub, List.map_append, List.map_cons, List.append_assoc, List.cons_append]

/-- **MAIN.**  The regenerated `Encode` against the model's `Sketch.encodeStore (.pg s) side`: same new store
    (compacted), the bytes of the model's blocks appended to `b`, `.panic` exactly when the model says `none`;
    never `.nofuel`. -/
theorem Encode_eq (cf : PStore → Nat) (hcompact : CompactSpec cf) (fuel : Nat) (s : PStore) (cap : Int)
    (side : Side) (t : FlagType) (ht : t.byte.toNat = Wire.sideType side) (b : List (BitVec 8))
    (hr : ∀ s', s.compact = some s' → PEncRange s') (hf : encodeFuel cf s ≤ fuel) :
    Gen.Paginated.BufferedPaginatedStore.Encode fuel (toGen s cap) b t
      = toRes (fun (p : Store × List Block) => (toGen (storePg p.1) cap, b ++ bn (Wire.encBlocks p.2)))
          (Sketch.encodeStore (.pg s) side) := by
  rw [Encode_compact cf hcompact fuel s cap side t ht b hr hf, encodeStore_pg]
  cases s.compact <;> rfl

theorem Encode_pos (cf : PStore → Nat) (hcompact : CompactSpec cf) (fuel : Nat) (s : PStore) (cap : Int)
    (b : List (BitVec 8)) (hr : ∀ s', s.compact = some s' → PEncRange s') (hf : encodeFuel cf s ≤ fuel) :
    Gen.Paginated.BufferedPaginatedStore.Encode fuel (toGen s cap) b FlagTypePositiveStore
      = toRes (fun (p : Store × List Block) => (toGen (storePg p.1) cap, b ++ bn (Wire.encBlocks p.2)))
          (Sketch.encodeStore (.pg s) .pos) :=
  Encode_eq cf hcompact fuel s cap .pos _ FlagTypePositiveStore_side b hr hf

theorem Encode_neg (cf : PStore → Nat) (hcompact : CompactSpec cf) (fuel : Nat) (s : PStore) (cap : Int)
    (b : List (BitVec 8)) (hr : ∀ s', s.compact = some s' → PEncRange s') (hf : encodeFuel cf s ≤ fuel) :
    Gen.Paginated.BufferedPaginatedStore.Encode fuel (toGen s cap) b FlagTypeNegativeStore
      = toRes (fun (p : Store × List Block) => (toGen (storePg p.1) cap, b ++ bn (Wire.encBlocks p.2)))
          (Sketch.encodeStore (.pg s) .neg) :=
  Encode_eq cf hcompact fuel s cap .neg _ FlagTypeNegativeStore_side b hr hf

end DDS.GenPag
