/-
  DDS.Proofs.GenPagCodec — the binary codec of the REGENERATED buffered-paginated store
  (`DDS.Gen.Paginated.BufferedPaginatedStore.Encode` / `.DecodeAndMergeWith` in
  `DDS/Generated/CodePaginated.lean`, translated on every run from `/repo/ddsketch/store/buffered_paginated.go`)
  against the HAND-WRITTEN model (`Sketch.encodeStore (.pg s)`, `Sketch.decodeStore (.pg s)` in
  `DDS/Model/Sketch.lean`).  Interfaces taken as hypotheses: `CompactSpec cf` (GenPagAdd), `PageSpec` (GenPagBase).

  1. ENCODE.  `Encode_eq` (and `Encode_compact`, `Encode_pos`, `Encode_neg`): for all stores `s`, capacities, prefixes
     `b`, sides,
        `Encode fuel (toGen s cap) b t = toRes (fun (st', blocks) => (toGen st' cap, b ++ bytes of blocks))
                                              (Sketch.encodeStore (.pg s) side)`:
     the store is compacted (same capacity), the bytes appended are exactly those of the model's blocks
     (`pagBlocks`: one `IndexDeltas` block for a non-empty buffer, one `ContiguousCounts` block — first index,
     stride 1, counts — per non-empty page), `.panic` exactly when the model says `none` (`compact` panics), never
     `.nofuel`.  Fuel: `encodeFuel cf s = max (cf s) 9` (the three loops of `Encode` are structural).
     Hypothesis `PEncRange` on the COMPACTED store: `len(buffer)`, `len(page) < 2^64`, the buffer deltas (from 0)
     and the first index of every non-empty page in the `int64` range — the `uint64(..)`/`int64(..)` conversions
     of the Go code; no hypothesis on the weights (`F64.fin w` enters the float codec for every rational), none on
     the invariant.  `pEncRange_of_inv`: it follows from `PStore.Inv` and `len(buffer) < 2^64`;
     `Encode_inv`: on a store with the invariant `Encode` succeeds, same content, model bytes.

  2. DECODE (`DecAgrees r m`: model error `.eof` ⇒ `.ok (_, _, io.EOF)`; model `.ok (st', rest)` ⇒
     `.ok (toGen s' cap', bn rest, nil)` with `Inv s'`, `st' = .pg st''`, `Inv st''`, `content s' = content st''`;
     the model never says `none` under the hypotheses).  The model adds bin by bin, the Go code appends to the
     buffer in batches / adds page-wise, so the stores agree up to abstraction (content) only.
     * `DecodeAndMergeWith_deltas` — layout `BinEncodingIndexDeltas`, in full: batches whose size depends on
       the capacity and the `grow` oracle, `compact()` in between (`dec_loop2`, `dec_loop1`).  Hypotheses: `Inv s`;
       `len(buffer) ≤ max(cap, trigger)` (true of a Go slice; otherwise the first batch size is negative and
       `remaining` grows); announced count `v < 2^63`; every decoded index an int32.  Fuel
       `deltasFuel cf grow s cap b` = `3v + 21` + the maximum of `cf` over `deltaStates …`, the stores handed to
       `compact()` (a function of the store, the capacity, the oracle and the input).
       `DecodeAndMergeWith_deltas_bound`: the same with fuel `F + 3v + 21`, `F` any bound of `cf` on the stores with
       the invariant whose buffer has at most `L ≥ len(buffer) + v` entries (`…_gen`: common generalisation).
     * `DecodeAndMergeWith_contiguous` — layout `BinEncodingContiguousCounts`, in full: any start, any stride
       (also 0 or negative), any number of pages (`dec_loop4`, `dec_loop3`).  Hypotheses: `Inv s`; every announced
       index `start + j·stride` an int32; every decoded count finite and `≥ 0`.  Fuel
       `pageFuelMax + 2·numBins + 13` (`pageFuel_le`: `pageFuelMax = 268435500` suffices for `page` under `Inv`).
     * `DecodeAndMergeWith_fallback` — every other sub-flag is the oracle `decodeFallback`.

  DISAGREEMENT FOUND (`deltas_negative_count_model` / `deltas_negative_count_gen`, kernel-checked): a block of
  layout `IndexDeltas` announcing `numBins ≥ 2^63`: `remaining := int(numBins)` is negative, so is the batch
  size, no index is read, `remaining -= batchSize` gives 0 and Go returns `nil` (block accepted, nothing merged);
  the model — and the generic `store.DecodeAndMergeWith` the other stores use — tries to read the bins and fails
  with `io.EOF`.  Only on malformed input; hence the hypothesis `v < 2^63`.
  Observations, not disagreements: on `io.EOF` in the middle of a block the Go store keeps the bins read so far
  (the model's error carries no store); the `ContiguousCounts` path materialises the page of an index before it
  reads its count, and adds zero counts to a materialised page (the model skips them) — same content.
-/
import DDS.Proofs.GenPagDefs
import DDS.Proofs.GenPagBase
import DDS.Proofs.GenDenseEncode
import DDS.Proofs.RoundTrip
import DDS.Proofs.GenStoreDecode
import DDS.Props.C04Pag

namespace DDS.GenPag

open DDS DDS.GoSem DDS.Gen.Encoding DDS.Codec DDS.GenEncoding DDS.GenDense
open DDS.GenDenseEncode (EncodeVarfloat64_fin bn_append block_bytes flatMap_vfBits)
open DDS.RoundTrip (dRec deltasFrom0_eq dRec_length pageBlocksFrom encodeStore_pg_eq)

/-! ### 1. `Encode` -/

/-- `int64(x)` does not wrap -/
def I64r (v : Int) : Prop := -(2:Int)^63 ≤ v ∧ v < (2:Int)^63

/-- the blocks the model's encoder writes for the (already compacted) store `s` -/
def pagBlocks (s : PStore) (side : Side) : List Block :=
  (if s.buffer.isEmpty then [] else [.bins side (.deltas (Sketch.deltasFrom0 s.buffer))])
    ++ pageBlocksFrom s side s.pages.toList 0

theorem encodeStore_pg (s : PStore) (side : Side) :
    Sketch.encodeStore (.pg s) side = s.compact.map (fun s' => (Store.pg s', pagBlocks s' side)) := by
  cases h : s.compact with
  | none => simp only [Sketch.encodeStore, h, Option.bind_eq_bind, Option.bind_none, Option.map_none]
  | some s' => rw [encodeStore_pg_eq s s' side h]; rfl

theorem cdc_index_eq (s : PStore) (cap : Int) (p : Int) :
    Gen.Paginated.BufferedPaginatedStore.index (toGen s cap) p 0 = s.index p 0 := by
  unfold Gen.Paginated.BufferedPaginatedStore.index PStore.index PStore.pageLen
  simp only [toGen_pageLenLog2, Int.toNat_natCast]
  norm_cast

theorem cdc_ofInt_nat (n : Nat) (h : n < 2 ^ 64) : (BitVec.ofInt 64 (n : Int)).toNat = n := by
  rw [BitVec.toNat_ofInt]
  omega

/-- the counts of one page -/
theorem Encode_loop2 (fuel : Nat) (hf : 9 ≤ fuel) (page : List Rat) : ∀ (b : List (BitVec 8)),
    Gen.Paginated.BufferedPaginatedStore.Encode.loop2 fuel page b
      = .done (b ++ bn (page.flatMap fun c => encVarfloatBits (Sketch.vfBits c))) := by
  induction page with
  | nil => intro b; simp [Gen.Paginated.BufferedPaginatedStore.Encode.loop2, bn]
  | cons c page ih =>
    intro b
    unfold Gen.Paginated.BufferedPaginatedStore.Encode.loop2
    rw [EncodeVarfloat64_fin fuel hf, Res.bindL_ok, ih]
    simp only [List.flatMap_cons, bn_append, List.append_assoc]

/-- the index deltas of the buffer -/
theorem Encode_loop3 (fuel : Nat) (hf : 9 ≤ fuel) (buf : List Int) : ∀ (b : List (BitVec 8)) (prev : Int),
    (∀ d ∈ dRec prev buf, I64r d) →
    ∃ last, Gen.Paginated.BufferedPaginatedStore.Encode.loop3 fuel buf b prev
      = .done (b ++ bn ((dRec prev buf).flatMap encVarint64), last) := by
  induction buf with
  | nil => intro b prev _; exact ⟨prev, by simp [Gen.Paginated.BufferedPaginatedStore.Encode.loop3, dRec, bn]⟩
  | cons x buf ih =>
    intro b prev h
    have hx : I64r (x - prev) := h _ (by simp [dRec])
    obtain ⟨last, hl⟩ := ih (b ++ bn (encVarint64 (x - prev))) x (fun d hd => h d (by simp [dRec, hd]))
    refine ⟨last, ?_⟩
    unfold Gen.Paginated.BufferedPaginatedStore.Encode.loop3
    rw [EncodeVarint64_ofInt fuel hf b _ hx.1 hx.2, Res.bindL_ok, hl]
    simp only [dRec, List.flatMap_cons, bn_append, List.append_assoc]

theorem pageBlocksFrom_cons (s : PStore) (side : Side) (pg : Array Rat) (xs : List (Array Rat)) (n : Nat) :
    pageBlocksFrom s side (pg :: xs) n =
      (if pg.size = 0 then [] else [.bins side (.contiguous (s.index (s.minPageIndex + (n : Int)) 0) 1
        (pg.toList.map Sketch.vfBits))]) ++ pageBlocksFrom s side xs (n + 1) := by
  simp only [pageBlocksFrom, List.zipIdx_cons, List.filterMap_cons]
  by_cases h0 : pg.size = 0 <;> simp [h0]

theorem encBlocks_append (a b : List Block) : Wire.encBlocks (a ++ b) = Wire.encBlocks a ++ Wire.encBlocks b := by
  simp [Wire.encBlocks]

/-- one block per non-empty page -/
theorem Encode_loop1 (fuel : Nat) (hf : 9 ≤ fuel) (t : FlagType) (side : Side)
    (ht : t.byte.toNat = Wire.sideType side) (s : PStore) (cap : Int) (xs : List (Array Rat)) :
    ∀ (n : Nat) (b : List (BitVec 8)),
    (∀ pg ∈ xs, pg.size < 2 ^ 64) →
    (∀ q ∈ xs.zipIdx n, q.1.size ≠ 0 → I64r (s.index (s.minPageIndex + (q.2 : Int)) 0)) →
    Gen.Paginated.BufferedPaginatedStore.Encode.loop1 fuel t (toGen s cap) (xs.map Array.toList) (n : Int) b
      = .done (b ++ bn (Wire.encBlocks (pageBlocksFrom s side xs n))) := by
  induction xs with
  | nil =>
    intro n b _ _
    simp [Gen.Paginated.BufferedPaginatedStore.Encode.loop1, pageBlocksFrom, Wire.encBlocks, bn]
  | cons pg xs ih =>
    intro n b hsz hidx
    have ih' := fun b => ih (n + 1) b (fun q hq => hsz q (by simp [hq]))
      (fun q hq => hidx q (by rw [List.zipIdx_cons]; exact List.mem_cons_of_mem _ hq))
    rw [List.map_cons]
    unfold Gen.Paginated.BufferedPaginatedStore.Encode.loop1
    rw [pageBlocksFrom_cons, encBlocks_append, bn_append]
    by_cases h0 : pg.size = 0
    · have hlen : ¬ ((0 : Int) < GoSem.len pg.toList) := by
        unfold GoSem.len; rw [Array.length_toList]; omega
      simp only [hlen, decide_false, Bool.false_eq_true, if_false, h0, if_true]
      rw [show ((n : Int) + 1) = ((n + 1 : Nat) : Int) by omega, ih']
      simp [Wire.encBlocks, bn]
    · have hlen : (0 : Int) < GoSem.len pg.toList := by
        unfold GoSem.len; rw [Array.length_toList]; omega
      have hI := hidx (pg, n) (by rw [List.zipIdx_cons]; exact List.mem_cons_self ..) h0
      have hs := hsz pg (by simp)
      simp only [hlen, decide_true, if_true, h0, if_false, toGen_minPageIndex]
      rw [EncodeUvarint64_eq fuel hf, Res.bindL_ok, cdc_index_eq,
        EncodeVarint64_ofInt fuel hf _ _ hI.1 hI.2, Res.bindL_ok,
        EncodeVarint64_eq fuel hf, Res.bindL_ok, Encode_loop2 fuel hf]
      simp only [Loop.elimL]
      rw [show ((n : Int) + 1) = ((n + 1 : Nat) : Int) by omega, ih']
      congr 1
      simp only [EncodeFlag, Wire.encBlocks, List.flatMap_cons, List.flatMap_nil, List.append_nil,
        Wire.encBlock, Wire.encPayload, List.length_map, List.append_assoc]
      rw [← bn_append, ← bn_append, ← bn_append, ← List.append_assoc b, ← List.append_assoc (b ++ _),
        block_bytes b _ _ ((storeFlag_bytes side t ht).2.2)]
      unfold GoSem.len
      rw [Array.length_toList, cdc_ofInt_nat _ hs, flatMap_vfBits, show (1#64).toInt = 1 by decide]
      simp only [bn, Wire.payloadSub, List.map_append, List.map_cons, List.append_assoc, List.cons_append]

/-- the `int64` / `uint64` conversions of `Encode` do not wrap around (asked of the COMPACTED store) -/
structure PEncRange (s : PStore) : Prop where
  /-- `uint64(len(buffer))` -/
  bufLen : s.buffer.length < 2 ^ 64
  /-- `int64(index - previousIndex)`, from 0 -/
  bufDeltas : ∀ d ∈ dRec 0 s.buffer, I64r d
  /-- `uint64(len(page))` -/
  pageLen : ∀ pg ∈ s.pages.toList, pg.size < 2 ^ 64
  /-- `int64(s.index(minPageIndex + pageOffset, 0))` of a non-empty page -/
  pageIdx : ∀ q ∈ s.pages.toList.zipIdx 0, q.1.size ≠ 0 → I64r (s.index (s.minPageIndex + (q.2 : Int)) 0)

/-- the paginated component of a model store -/
def storePg : Store → PStore
  | .pg s => s
  | _ => default

/-- fuel for `Encode`: what `compact` needs, and 9 for the codecs (the three loops of `Encode` itself are
    structural on the buffer / pages) -/
def encodeFuel (cf : PStore → Nat) (s : PStore) : Nat := max (cf s) 9

/-- **MAIN (structural form).**  `Encode` compacts (`s' = compact s`, returned with the same capacity) and
    appends the bytes of the model's blocks for `s'`: the buffer as one `IndexDeltas` block (if non-empty),
    then one `ContiguousCounts` block per non-empty page; `.panic` exactly when `compact` panics. -/
theorem Encode_compact (cf : PStore → Nat) (hcompact : CompactSpec cf) (fuel : Nat) (s : PStore) (cap : Int)
    (side : Side) (t : FlagType) (ht : t.byte.toNat = Wire.sideType side) (b : List (BitVec 8))
    (hr : ∀ s', s.compact = some s' → PEncRange s') (hf : encodeFuel cf s ≤ fuel) :
    Gen.Paginated.BufferedPaginatedStore.Encode fuel (toGen s cap) b t
      = toRes (fun s' => (toGen s' cap, b ++ bn (Wire.encBlocks (pagBlocks s' side)))) s.compact := by
  have hf1 : cf s ≤ fuel := Nat.le_trans (Nat.le_max_left _ _) hf
  have hf9 : 9 ≤ fuel := Nat.le_trans (Nat.le_max_right _ _) hf
  unfold Gen.Paginated.BufferedPaginatedStore.Encode
  rw [hcompact s cap fuel hf1]
  cases hc : s.compact with
  | none => rfl
  | some s' =>
    obtain ⟨r1, r2, r3, r4⟩ := hr s' hc
    have hl1 := fun b => Encode_loop1 fuel hf9 t side ht s' cap s'.pages.toList 0 b r3 r4
    simp only [toRes_some, Res.bind_ok, toGen_buffer, toGen_pages, pagesL]
    simp only [Int.natCast_zero] at hl1
    unfold pagBlocks
    rw [encBlocks_append, bn_append]
    by_cases he : s'.buffer = []
    · have hlen : ¬ ((0 : Int) < GoSem.len s'.buffer) := by rw [he]; decide
      simp only [hlen, decide_false, Bool.false_eq_true, if_false, hl1, Loop.elim_done]
      simp only [he, List.isEmpty_nil, if_true]
      simp [Wire.encBlocks, bn]
    · have hlen : (0 : Int) < GoSem.len s'.buffer := by
        unfold GoSem.len
        have : s'.buffer.length ≠ 0 := fun h => he (List.eq_nil_of_length_eq_zero h)
        omega
      have hemp : s'.buffer.isEmpty = false := by
        cases hb : s'.buffer with
        | nil => exact absurd hb he
        | cons _ _ => rfl
      obtain ⟨last, hl3⟩ := Encode_loop3 fuel hf9 s'.buffer
        (EncodeFlag b (NewFlag t BinEncodingIndexDeltas) ++ bn (encUvarint64 s'.buffer.length)) 0 r2
      simp only [hlen, decide_true, if_true, hemp, Bool.false_eq_true, if_false]
      rw [EncodeUvarint64_eq fuel hf9, Res.bind_ok]
      unfold GoSem.len
      rw [cdc_ofInt_nat _ r1, hl3]
      simp only [Loop.elim_done, hl1]
      congr 2
      simp only [EncodeFlag, Wire.encBlocks, List.flatMap_cons, List.flatMap_nil, List.append_nil,
        Wire.encBlock, Wire.encPayload, List.append_assoc]
      rw [← bn_append, ← List.append_assoc b, ← List.append_assoc (b ++ _),
        block_bytes b _ _ ((storeFlag_bytes side t ht).2.1), deltasFrom0_eq, dRec_length]
      simp only [bn, Wire.payloadSub, List.map_append, List.map_cons, List.append_assoc, List.cons_append]

/-- **MAIN.**  The regenerated `Encode` against the model's `Sketch.encodeStore (.pg s) side`: same new store
    (compacted), the bytes of the model's blocks appended to `b`, `.panic` exactly when the model says `none`;
    never `.nofuel`. -/
theorem Encode_eq (cf : PStore → Nat) (hcompact : CompactSpec cf) (fuel : Nat) (s : PStore) (cap : Int)
    (side : Side) (t : FlagType) (ht : t.byte.toNat = Wire.sideType side) (b : List (BitVec 8))
    (hr : ∀ s', s.compact = some s' → PEncRange s') (hf : encodeFuel cf s ≤ fuel) :
    Gen.Paginated.BufferedPaginatedStore.Encode fuel (toGen s cap) b t
      = toRes (fun (p : Store × List Block) => (toGen (storePg p.1) cap, b ++ bn (Wire.encBlocks p.2)))
          (Sketch.encodeStore (.pg s) side) := by
  rw [Encode_compact cf hcompact fuel s cap side t ht b hr hf, encodeStore_pg]
  cases s.compact <;> rfl

theorem Encode_pos (cf : PStore → Nat) (hcompact : CompactSpec cf) (fuel : Nat) (s : PStore) (cap : Int)
    (b : List (BitVec 8)) (hr : ∀ s', s.compact = some s' → PEncRange s') (hf : encodeFuel cf s ≤ fuel) :
    Gen.Paginated.BufferedPaginatedStore.Encode fuel (toGen s cap) b FlagTypePositiveStore
      = toRes (fun (p : Store × List Block) => (toGen (storePg p.1) cap, b ++ bn (Wire.encBlocks p.2)))
          (Sketch.encodeStore (.pg s) .pos) :=
  Encode_eq cf hcompact fuel s cap .pos _ FlagTypePositiveStore_side b hr hf

theorem Encode_neg (cf : PStore → Nat) (hcompact : CompactSpec cf) (fuel : Nat) (s : PStore) (cap : Int)
    (b : List (BitVec 8)) (hr : ∀ s', s.compact = some s' → PEncRange s') (hf : encodeFuel cf s ≤ fuel) :
    Gen.Paginated.BufferedPaginatedStore.Encode fuel (toGen s cap) b FlagTypeNegativeStore
      = toRes (fun (p : Store × List Block) => (toGen (storePg p.1) cap, b ++ bn (Wire.encBlocks p.2)))
          (Sketch.encodeStore (.pg s) .neg) :=
  Encode_eq cf hcompact fuel s cap .neg _ FlagTypeNegativeStore_side b hr hf

/-! ### 2. `DecodeAndMergeWith`

  The model (`Sketch.decodeStore (.pg st)`) hands every bin to `addWithCount`; the paginated store decodes
  two layouts itself (appending to the buffer in batches with `compact()` in between / adding page-wise),
  so the two results are equal up to abstraction only: same bytes consumed, same error, and the resulting
  generated store is the image of a model store satisfying the invariant whose CONTENT is the content of
  the model's result. -/

open DDS.PStore (Idx32 content)
open DDS.GenStoreDecode (dTrace ccTrace V_ok V_err U_ok U_err F_ok F_err hnil heof decItems_err decItems_ok
  decItems_none)

/-- a generated decoder result against the model's -/
def DecAgrees (r : Res (GP × List (BitVec 8) × GoErr)) (m : Option (Except SkErr (Store × Bytes))) : Prop :=
  match m with
  | none => False
  | some (.error e) => e = .eof ∧ ∃ g' b', r = .ok (g', b', GoErr.eof)
  | some (.ok (st', rest)) => ∃ s' cap' st'', r = .ok (toGen s' cap', bn rest, GoErr.nil) ∧ st' = .pg st'' ∧
      PStore.Inv s' ∧ PStore.Inv st'' ∧ content s' = content st''

/-- the same for a loop that returns from the function -/
def LoopAgrees {σ : Type} (r : Loop σ (GP × List (BitVec 8) × GoErr))
    (m : Option (Except SkErr (Store × Bytes))) : Prop :=
  match m with
  | none => False
  | some (.error e) => e = .eof ∧ ∃ g' b', r = .ret (g', b', GoErr.eof)
  | some (.ok (st', rest)) => ∃ s' cap' st'', r = .ret (toGen s' cap', bn rest, GoErr.nil) ∧ st' = .pg st'' ∧
      PStore.Inv s' ∧ PStore.Inv st'' ∧ content s' = content st''

theorem cdc_goMin (x y : Int) : Gen.Paginated.goMin x y = min x y := by
  unfold Gen.Paginated.goMin
  by_cases h : x < y
  · rw [if_pos (by simpa using h)]; omega
  · rw [if_neg (by simpa using h)]; omega

theorem cdc_goMax (x y : Int) : Gen.Paginated.goMax x y = max x y := by
  unfold Gen.Paginated.goMax
  by_cases h : y < x
  · rw [if_pos (by simpa using h)]; omega
  · rw [if_neg (by simpa using h)]; omega

theorem cdc_idx32_i64 (i : Int) (h : Idx32 i) : DDS.I64 i := by
  unfold PStore.Idx32 minInt32 maxInt32 at h
  unfold DDS.I64
  omega

theorem cdc_toInt (i : Int) (h : Idx32 i) : (BitVec.ofInt 64 i).toInt = i :=
  DDS.GenStoreDecode.toInt_ofInt_I64 i (cdc_idx32_i64 i h)

theorem content_append_buffer (s : PStore) (h : PStore.Inv s) (i : Int) (hi : Idx32 i) :
    content { s with buffer := s.buffer ++ [i] } = (content s).add i 1 := by
  apply PStore.content_eq_of_lookup _ (PStore.inv_append_buffer s h i hi) _
    (Content.wf_add _ i 1 (PStore.content_wf s h) (by decide))
  intro j
  rw [PStore.wt_append_buffer, Content.lookup_add, PStore.lookup_content s h]

theorem compact_trigger (s s' : PStore) (h : s.compact = some s') :
    s'.trigger = s'.buffer.length + s'.pageLen := by
  simp only [PStore.compact, Option.bind_eq_bind] at h
  cases hl : PStore.compactLoop s ((PStore.sortInts s.buffer).length + 1) (PStore.sortInts s.buffer) [] with
  | none => rw [hl] at h; simp at h
  | some r =>
    obtain ⟨s₁, kept⟩ := r
    rw [hl] at h
    simp only [Option.bind_some, Option.pure_def, Option.some.injEq] at h
    rw [← h]
    rfl

/-- the model's unit add on a store satisfying the invariant -/
theorem pg_add_unit (st : PStore) (h : PStore.Inv st) (i : Int) (hi : Idx32 i) :
    ∃ st1, (Store.pg st).addWithCount i 1 = some (.pg st1) ∧ PStore.Inv st1 ∧ content st1 = (content st).add i 1 := by
  obtain ⟨st1, h1, h2, h3⟩ := DDS.Props.C04Pag.add_content st h i hi 1 (by decide) true
  exact ⟨st1, by simp only [Store.addWithCount, h1, Option.map_some], h2, h3⟩

/-- read `k` index deltas from index `idx`: the indexes, the last index, the remaining bytes -/
def readDeltas : Nat → Int → Bytes → Option (List Int × Int × Bytes)
  | 0, idx, bs => some ([], idx, bs)
  | k + 1, idx, bs =>
    match decVarint64 bs with
    | .error _ => none
    | .ok (d, bs1) => (readDeltas k (idx + d) bs1).map (fun r => ((idx + d) :: r.1, r.2.1, r.2.2))

/-- the capacity after `k` appends to a buffer of length `len` and capacity `cap` -/
def capAfter (grow : Int → Int → Int) : Nat → Int → Nat → Int
  | 0, cap, _ => cap
  | k + 1, cap, len => capAfter grow k (if (len : Int) = cap then grow cap ((len : Int) + 1) else cap) (len + 1)

def appendBuf (s : PStore) (l : List Int) : PStore := { s with buffer := s.buffer ++ l }

/-- the stores on which the `IndexDeltas` decoder calls `compact()` (the model store with one batch appended to
    its buffer), in order; `M` bounds the number of rounds.  A function of the store, the capacity, the `grow`
    oracle and the input: the fuel that `compact` needs is the maximum of `cf` over this list. -/
def deltaStates (grow : Int → Int → Int) : Nat → PStore → Int → Int → Bytes → Nat → List PStore
  | 0, _, _, _, _, _ => []
  | M + 1, s, cap, idx, bs, n =>
    match readDeltas (min (n : Int) (max cap (s.trigger : Int) - (s.buffer.length : Int))).toNat idx bs with
    | none => []
    | some (l, idx1, bs1) =>
      if n - (min (n : Int) (max cap (s.trigger : Int) - (s.buffer.length : Int))).toNat = 0 then []
      else
        appendBuf s l :: (match (appendBuf s l).compact with
          | none => []
          | some s2 => deltaStates grow M s2
              (capAfter grow (min (n : Int) (max cap (s.trigger : Int) - (s.buffer.length : Int))).toNat cap
                s.buffer.length) idx1 bs1
              (n - (min (n : Int) (max cap (s.trigger : Int) - (s.buffer.length : Int))).toNat))

theorem deltaStates_succ (grow : Int → Int → Int) (M : Nat) (s : PStore) (cap idx : Int) (bs : Bytes) (n k : Nat)
    (l : List Int) (idx1 : Int) (bs1 : Bytes) (s2 : PStore)
    (hk : (min (n : Int) (max cap (s.trigger : Int) - (s.buffer.length : Int))).toNat = k)
    (hr : readDeltas k idx bs = some (l, idx1, bs1)) (hnk : n - k ≠ 0) (hc : (appendBuf s l).compact = some s2) :
    deltaStates grow (M + 1) s cap idx bs n
      = appendBuf s l :: deltaStates grow M s2 (capAfter grow k cap s.buffer.length) idx1 bs1 (n - k) := by
  simp only [deltaStates, hk, hr, hnk, if_false, hc]

/-- one batch of the `IndexDeltas` layout (`loop2`): `k` items appended to the buffer (no compaction), against
    the first `k` of the model's `n = k + m` items -/
theorem dec_loop2 (grow : Int → Int → Int) (batchSize : Int) (m : Nat) :
    ∀ (k n fuel : Nat) (b : List (BitVec 8)) (s : PStore) (cap : Int) (i : Int) (st : PStore) (idx : Int),
    n = k + m → batchSize - i = (k : Int) → k + 10 ≤ fuel → PStore.Inv s → PStore.Inv st → content st = content s →
    (∀ u ∈ dTrace n idx (nb b), Idx32 u) →
    (Sketch.decItems Sketch.dItem n (.pg st) idx (nb b) = some (.error .eof) ∧
      ∃ g' b', Gen.Paginated.BufferedPaginatedStore.DecodeAndMergeWith.loop2 grow batchSize fuel b
        (BitVec.ofInt 64 idx) (toGen s cap) i = .ret (g', b', GoErr.eof)) ∨
    (∃ s1 cap1 st1 idx1 b1,
      Gen.Paginated.BufferedPaginatedStore.DecodeAndMergeWith.loop2 grow batchSize fuel b
        (BitVec.ofInt 64 idx) (toGen s cap) i = .done (b1, BitVec.ofInt 64 idx1, toGen s1 cap1, batchSize) ∧
      Sketch.decItems Sketch.dItem n (.pg st) idx (nb b) = Sketch.decItems Sketch.dItem m (.pg st1) idx1 (nb b1) ∧
      (∀ u ∈ dTrace m idx1 (nb b1), Idx32 u) ∧ PStore.Inv s1 ∧ PStore.Inv st1 ∧ content st1 = content s1 ∧
      s1.buffer.length = s.buffer.length + k ∧
      ∃ l, readDeltas k idx (nb b) = some (l, idx1, nb b1) ∧ s1 = appendBuf s l ∧
        cap1 = capAfter grow k cap s.buffer.length) := by
  intro k
  induction k with
  | zero =>
    intro n fuel b s cap i st idx hn hk hf hI hIt hc htr
    obtain ⟨fuel, rfl⟩ : ∃ f, fuel = f + 1 := ⟨fuel - 1, by omega⟩
    have hi : i = batchSize := by omega
    subst hi
    have hn' : n = m := by omega
    subst hn'
    right
    refine ⟨s, cap, st, idx, b, ?_, rfl, htr, hI, hIt, hc, by omega, [], rfl, by simp [appendBuf], rfl⟩
    simp only [Gen.Paginated.BufferedPaginatedStore.DecodeAndMergeWith.loop2, Int.lt_irrefl, decide_false,
      Bool.false_eq_true, if_false]
  | succ k ih =>
    intro n fuel b s cap i st idx hn hk hf hI hIt hc htr
    obtain ⟨fuel, rfl⟩ : ∃ f, fuel = f + 1 := ⟨fuel - 1, by omega⟩
    obtain ⟨n', rfl⟩ : ∃ n', n = n' + 1 := ⟨k + m, by omega⟩
    have hf9 : 9 ≤ fuel := by omega
    have hi : i < batchSize := by omega
    cases hV : decVarint64 (nb b) with
    | error e1 =>
      left
      refine ⟨?_, toGen s cap, b, ?_⟩
      · exact decItems_err n' _ idx (nb b) _ (Sketch.dItem_of_err _ idx (nb b) _ (Sketch.sk_liftDec_of_error _ _ hV))
      · simp only [Gen.Paginated.BufferedPaginatedStore.DecodeAndMergeWith.loop2, hi, decide_true, if_true,
          V_err fuel hf9 b e1 hV, Res.bindL_ok, heof]
    | ok p1 =>
      obtain ⟨d, r1⟩ := p1
      obtain ⟨b1, hV1, hb1, _, _⟩ := V_ok fuel hf9 b d r1 hV
      have htr' : dTrace (n' + 1) idx (nb b) = (idx + d) :: dTrace n' (idx + d) (nb b1) := by
        simp only [dTrace, hV, hb1]
      rw [htr'] at htr
      have hx : Idx32 (idx + d) := htr _ (List.mem_cons_self ..)
      obtain ⟨st1, ha1, hIt1, hc1⟩ := pg_add_unit st hIt (idx + d) hx
      have hit := Sketch.dItem_of_ok (.pg st) idx (nb b) r1 d (Sketch.sk_liftDec_of_ok _ _ hV)
      rw [ha1, Option.map_some] at hit
      have hm := decItems_ok n' (.pg st) idx (nb b) (.pg st1) (idx + d) r1 hit
      let s1 : PStore := { s with buffer := s.buffer ++ [idx + d] }
      have hI1 : PStore.Inv s1 := PStore.inv_append_buffer s hI _ hx
      have hcs1 : content st1 = content s1 := by
        rw [hc1, hc]; exact (content_append_buffer s hI _ hx).symm
      have hidx : BitVec.ofInt 64 idx + BitVec.ofInt 64 d = BitVec.ofInt 64 (idx + d) := by
        rw [BitVec.ofInt_add]
      have hl : Gen.Paginated.BufferedPaginatedStore.DecodeAndMergeWith.loop2 grow batchSize (fuel + 1) b
            (BitVec.ofInt 64 idx) (toGen s cap) i
          = Gen.Paginated.BufferedPaginatedStore.DecodeAndMergeWith.loop2 grow batchSize fuel b1
            (BitVec.ofInt 64 (idx + d))
            (toGen s1 (if (s.buffer.length : Int) = cap then grow cap ((s.buffer.length : Int) + 1) else cap))
            (i + 1) := by
        simp only [Gen.Paginated.BufferedPaginatedStore.DecodeAndMergeWith.loop2, hi, decide_true, if_true, hV1,
          Res.bindL_ok, hnil, Bool.false_eq_true, if_false, hidx, cdc_toInt _ hx]
        by_cases hcap : (s.buffer.length : Int) = cap
        · have hb : (GoSem.len (toGen s cap).buffer == (toGen s cap).bufferCap) = true := by
            rw [beq_iff_eq]; exact hcap
          simp only [hb, if_true, if_pos hcap]; rfl
        · have hb : (GoSem.len (toGen s cap).buffer == (toGen s cap).bufferCap) = false := by
            rw [beq_eq_false_iff_ne]; exact hcap
          simp only [hb, Bool.false_eq_true, if_false, if_neg hcap]; rfl
      rw [hl, hm, ← hb1]
      have hlen1 : s1.buffer.length = s.buffer.length + 1 := by
        show (s.buffer ++ [idx + d]).length = _
        rw [List.length_append, List.length_singleton]
      rcases ih n' fuel b1 s1 _ (i + 1) st1 (idx + d) (by omega) (by omega) (by omega) hI1 hIt1 hcs1
        (fun u hu => htr u (List.mem_cons_of_mem _ hu)) with
        h | ⟨s2, cap2, st2, idx2, b2, h1, h2, h3, h4, h5, h6, h7, l', h8, h9, h10⟩
      · exact Or.inl h
      · refine Or.inr ⟨s2, cap2, st2, idx2, b2, h1, h2, h3, h4, h5, h6, by omega, (idx + d) :: l', ?_, ?_, ?_⟩
        · rw [hb1] at h8
          simp only [readDeltas, hV, h8, Option.map_some]
        · rw [h9]; simp [appendBuf, s1, List.append_assoc]
        · rw [h10, hlen1]; simp only [capAfter]

/-- the batches of the `IndexDeltas` layout (`loop1`): batch, `compact()`, batch, … against the model's `n` items.
    `M` bounds the number of rounds (`2n`, `+1` when the first batch is empty because the buffer is full);
    `F` is enough fuel for every `compact` on a store (with the invariant) whose buffer has at most `L` entries. -/
theorem dec_loop1 (cf : PStore → Nat) (hcompact : CompactSpec cf) (grow : Int → Int → Int) (F L : Nat) :
    ∀ (M n fuel : Nat) (b : List (BitVec 8)) (s : PStore) (cap : Int) (st : PStore) (idx : Int),
    (∀ s' ∈ deltaStates grow M s cap idx (nb b) n, PStore.Inv s' → s'.buffer.length ≤ L → cf s' ≤ F) →
    2 * n + (if (s.buffer.length : Int) < max cap (s.trigger : Int) then 0 else 1) < M →
    F + M + n + 11 ≤ fuel → s.buffer.length + n ≤ L →
    (s.buffer.length : Int) ≤ max cap (s.trigger : Int) →
    PStore.Inv s → PStore.Inv st → content st = content s →
    (∀ u ∈ dTrace n idx (nb b), Idx32 u) →
    LoopAgrees (Gen.Paginated.BufferedPaginatedStore.DecodeAndMergeWith.loop1 grow fuel b (BitVec.ofInt 64 idx)
        (toGen s cap) (n : Int))
      (Sketch.decItems Sketch.dItem n (.pg st) idx (nb b)) := by
  intro M
  induction M with
  | zero => intro n fuel b s cap st idx _ hM; omega
  | succ M ih =>
    intro n fuel b s cap st idx hcf hM hf hL hcap hI hIt hc htr
    obtain ⟨fuel, rfl⟩ : ∃ f, fuel = f + 1 := ⟨fuel - 1, by omega⟩
    -- the batch size
    obtain ⟨k, hk⟩ : ∃ k : Nat, (k : Int) = min (n : Int) (max cap (s.trigger : Int) - (s.buffer.length : Int)) :=
      ⟨(min (n : Int) (max cap (s.trigger : Int) - (s.buffer.length : Int))).toNat, by omega⟩
    have hkn : k ≤ n := by omega
    obtain ⟨m, hm⟩ : ∃ m, n = k + m := ⟨n - k, by omega⟩
    have hbs : Gen.Paginated.goMin (n : Int) (Gen.Paginated.goMax (toGen s cap).bufferCap
        (toGen s cap).bufferCompactionTriggerLen - GoSem.len (toGen s cap).buffer) = (k : Int) := by
      rw [cdc_goMin, cdc_goMax]; simp only [toGen_bufferCap, toGen_trigger, toGen_buffer, GoSem.len]; omega
    unfold Gen.Paginated.BufferedPaginatedStore.DecodeAndMergeWith.loop1
    simp only [hbs]
    rcases dec_loop2 grow (k : Int) m k n fuel b s cap 0 st idx hm (by omega) (by omega) hI hIt hc htr with
      ⟨h1, g', b', h2⟩ | ⟨s1, cap1, st1, idx1, b1, h1, h2, h3, hI1, hIt1, hc1, hlen1, l, hrd, hs1, hcap1⟩
    · rw [h1, h2]
      exact ⟨rfl, g', b', rfl⟩
    · rw [h1, h2]
      simp only [Loop.elimL]
      by_cases hm0 : m = 0
      · subst hm0
        have hz : ((n : Int) - (k : Int) == 0) = true := by rw [beq_iff_eq]; omega
        simp only [hz, if_true, Sketch.decItems]
        exact ⟨s1, cap1, st1, by rw [bn_nb], rfl, hI1, hIt1, hc1.symm⟩
      · have hz : ((n : Int) - (k : Int) == 0) = false := by rw [beq_eq_false_iff_ne]; omega
        simp only [hz, Bool.false_eq_true, if_false]
        obtain ⟨s2, hcp, hI2, hc2⟩ := DDS.Props.C04Pag.compact_content s1 hI1
        have hds := deltaStates_succ grow M s cap idx (nb b) n k l idx1 (nb b1) s2 (by omega) hrd (by omega)
          (by rw [← hs1]; exact hcp)
        rw [hds, ← hs1, ← hcap1, show n - k = m by omega] at hcf
        have hcf1 : cf s1 ≤ fuel :=
          Nat.le_trans (hcf s1 (List.mem_cons_self ..) hI1 (by omega)) (by omega)
        rw [hcompact s1 cap1 fuel hcf1]
        have hlen2 := (DDS.RoundTrip.compact_buffer s1 s2 hcp).1
        have htrig := compact_trigger s1 s2 hcp
        have hpl : 0 < s2.pageLen := Nat.two_pow_pos _
        rw [hcp, toRes_some, Res.bindL_ok, show (n : Int) - (k : Int) = (m : Int) by omega]
        have hlt : (s2.buffer.length : Int) < max cap1 (s2.trigger : Int) := by omega
        apply ih m fuel b1 s2 cap1 st1 idx1 (fun s' hs' => hcf s' (List.mem_cons_of_mem _ hs')) _ (by omega)
          (by omega) (by omega) hI2 hIt1 (by rw [hc1, hc2]) h3
        rw [if_pos hlt]
        by_cases hk0 : k = 0
        · subst hk0
          have : ¬ ((s.buffer.length : Int) < max cap (s.trigger : Int)) := by omega
          rw [if_neg this] at hM
          omega
        · omega

theorem beqDeltas : (BinEncodingIndexDeltas == BinEncodingIndexDeltas) = true := by decide

/-- general form of the two theorems below: `F` bounds `cf` on the stores handed to `compact()` (`deltaStates`)
    that satisfy the invariant and have at most `L` buffered entries -/
theorem DecodeAndMergeWith_deltas_gen (cf : PStore → Nat) (hcompact : CompactSpec cf) (grow : Int → Int → Int)
    (fb : GP → List (BitVec 8) → SubFlag → Res (GP × List (BitVec 8) × GoErr))
    (F L : Nat) (fuel : Nat) (s : PStore) (cap : Int) (b : List (BitVec 8)) (hI : PStore.Inv s)
    (hcap : (s.buffer.length : Int) ≤ max cap (s.trigger : Int)) (hf9 : 9 ≤ fuel)
    (hn : ∀ v rest, decUvarint64 (nb b) = .ok (v, rest) →
      v < 2 ^ 63 ∧ s.buffer.length + v ≤ L ∧ F + 3 * v + 21 ≤ fuel ∧
      ∀ s' ∈ deltaStates grow (2 * v + 2) s cap 0 rest v, PStore.Inv s' → s'.buffer.length ≤ L → cf s' ≤ F)
    (hidx : ∀ u ∈ DDS.GenStoreDecode.storeIndexes Consts.binEncodingIndexDeltas (nb b), Idx32 u) :
    DecAgrees (Gen.Paginated.BufferedPaginatedStore.DecodeAndMergeWith fuel grow fb (toGen s cap) b
        BinEncodingIndexDeltas)
      (Sketch.decodeStore (.pg s) Consts.binEncodingIndexDeltas (nb b)) := by
  unfold Gen.Paginated.BufferedPaginatedStore.DecodeAndMergeWith
  rw [Sketch.decodeStore_eq]
  simp only [beqDeltas, if_true, show Consts.binEncodingIndexDeltas ≠ Consts.binEncodingIndexDeltasAndCounts by decide,
    if_false]
  cases hU : decUvarint64 (nb b) with
  | error e =>
    rw [U_err fuel hf9 b e hU]
    simp only [Res.bind_ok, heof, if_true, Sketch.liftDec]
    exact ⟨rfl, _, _, rfl⟩
  | ok p =>
    obtain ⟨v, rest⟩ := p
    obtain ⟨hv, hL, hf, hcf⟩ := hn v rest hU
    obtain ⟨b1, hU1, hb1, _, _⟩ := U_ok fuel hf9 b v rest hU
    rw [hU1]
    simp only [Res.bind_ok, hnil, Bool.false_eq_true, if_false, Sketch.liftDec]
    have hti : (BitVec.ofNat 64 v).toInt = (v : Int) := by
      rw [BitVec.toInt_eq_toNat_cond, BitVec.toNat_ofNat]
      have : v % 2 ^ 64 = v := Nat.mod_eq_of_lt (by omega)
      rw [this, if_pos (by omega)]
    have htr : ∀ u ∈ dTrace v 0 (nb b1), Idx32 u := by
      intro u hu
      apply hidx u
      simp only [DDS.GenStoreDecode.storeIndexes, hU,
        show Consts.binEncodingIndexDeltas ≠ Consts.binEncodingIndexDeltasAndCounts by decide, if_false, if_true]
      rw [hb1] at hu; exact hu
    have h := dec_loop1 cf hcompact grow F L (2 * v + 2) v fuel b1 s cap s 0 (by rw [hb1]; exact hcf)
      (by split <;> omega) (by omega) hL hcap hI hI rfl htr
    rw [hti, show (0#64) = BitVec.ofInt 64 0 from rfl, ← hb1]
    revert h
    cases Sketch.decItems Sketch.dItem v (.pg s) 0 (nb b1) with
    | none => exact fun h => h
    | some r =>
      cases r with
      | error e =>
        rintro ⟨h1, g', b', h2⟩
        rw [h2]; exact ⟨h1, g', b', rfl⟩
      | ok q =>
        obtain ⟨st', rest'⟩ := q
        rintro ⟨s', cap', st'', h1, h2⟩
        rw [h1]; exact ⟨s', cap', st'', rfl, h2⟩

theorem le_foldl_max (l : List Nat) (a x : Nat) (h : x ≤ a ∨ x ∈ l) : x ≤ l.foldl max a := by
  induction l generalizing a with
  | nil =>
    rcases h with h | h
    · exact h
    · cases h
  | cons y l ih =>
    rw [List.foldl_cons]
    apply ih
    rcases h with h | h
    · exact Or.inl (by omega)
    · rcases List.mem_cons.1 h with rfl | h
      · exact Or.inl (by omega)
      · exact Or.inr h

/-- the fuel `DecodeAndMergeWith` needs on an `IndexDeltas` block: a function of the store, the capacity, the
    `grow` oracle and the input (`v` = announced number of bins): `3v + 21` for its own loops and the codecs, plus
    the maximum of `cf` over the stores it compacts -/
def deltasFuel (cf : PStore → Nat) (grow : Int → Int → Int) (s : PStore) (cap : Int) (b : List (BitVec 8)) : Nat :=
  match decUvarint64 (nb b) with
  | .error _ => 9
  | .ok (v, rest) => ((deltaStates grow (2 * v + 2) s cap 0 rest v).map cf).foldl max 0 + 3 * v + 21

/-- **`DecodeAndMergeWith`, layout `BinEncodingIndexDeltas`** (batches of appends with `compact()` in between, for
    every capacity, every `grow` oracle, every fallback), against `Sketch.decodeStore (.pg s)`:
    same error (`io.EOF` ↔ `.eof`), same remaining bytes, and the resulting store is the image of a model store
    with the invariant and the CONTENT of the model's result; the model does not panic and the generated code
    neither panics nor runs out of fuel.

    Hypotheses: the invariant; `len(buffer) ≤ max(cap(buffer), trigger)` (true of every Go slice; without it the
    first batch size is negative and `remaining` GROWS); the announced number of bins `v` fits `int`
    (`v < 2^63`, see `deltas_negative_count_gen` for what happens otherwise); every decoded index is an int32
    (`Idx32`, needed by the invariant).  Fuel: `deltasFuel cf grow s cap b`. -/
theorem DecodeAndMergeWith_deltas (cf : PStore → Nat) (hcompact : CompactSpec cf) (grow : Int → Int → Int)
    (fb : GP → List (BitVec 8) → SubFlag → Res (GP × List (BitVec 8) × GoErr))
    (fuel : Nat) (s : PStore) (cap : Int) (b : List (BitVec 8)) (hI : PStore.Inv s)
    (hcap : (s.buffer.length : Int) ≤ max cap (s.trigger : Int))
    (hn : ∀ v rest, decUvarint64 (nb b) = .ok (v, rest) → v < 2 ^ 63)
    (hidx : ∀ u ∈ DDS.GenStoreDecode.storeIndexes Consts.binEncodingIndexDeltas (nb b), Idx32 u)
    (hf : deltasFuel cf grow s cap b ≤ fuel) :
    DecAgrees (Gen.Paginated.BufferedPaginatedStore.DecodeAndMergeWith fuel grow fb (toGen s cap) b
        BinEncodingIndexDeltas)
      (Sketch.decodeStore (.pg s) Consts.binEncodingIndexDeltas (nb b)) := by
  cases hU : decUvarint64 (nb b) with
  | error e =>
    apply DecodeAndMergeWith_deltas_gen cf hcompact grow fb 0 0 fuel s cap b hI hcap
      (by simp only [deltasFuel, hU] at hf; exact hf) (fun v rest h => by rw [hU] at h; cases h) hidx
  | ok p =>
    obtain ⟨v, rest⟩ := p
    simp only [deltasFuel, hU] at hf
    apply DecodeAndMergeWith_deltas_gen cf hcompact grow fb
      (((deltaStates grow (2 * v + 2) s cap 0 rest v).map cf).foldl max 0) (s.buffer.length + v) fuel s cap b hI hcap
      (by omega) ?_ hidx
    intro v' rest' h
    rw [hU] at h
    cases h
    refine ⟨hn v rest hU, Nat.le_refl _, hf, fun s' hs' _ _ => ?_⟩
    exact le_foldl_max _ 0 _ (Or.inr (List.mem_map_of_mem hs'))

/-- the same with a closed fuel bound: `F` enough for `compact` on ANY store with the invariant and a buffer of at
    most `L ≥ len(buffer) + v` entries; fuel `F + 3v + 21` -/
theorem DecodeAndMergeWith_deltas_bound (cf : PStore → Nat) (hcompact : CompactSpec cf) (grow : Int → Int → Int)
    (fb : GP → List (BitVec 8) → SubFlag → Res (GP × List (BitVec 8) × GoErr))
    (F L : Nat) (hcf : ∀ s', PStore.Inv s' → s'.buffer.length ≤ L → cf s' ≤ F)
    (fuel : Nat) (s : PStore) (cap : Int) (b : List (BitVec 8)) (hI : PStore.Inv s)
    (hcap : (s.buffer.length : Int) ≤ max cap (s.trigger : Int)) (hf9 : 9 ≤ fuel)
    (hn : ∀ v rest, decUvarint64 (nb b) = .ok (v, rest) →
      v < 2 ^ 63 ∧ s.buffer.length + v ≤ L ∧ F + 3 * v + 21 ≤ fuel)
    (hidx : ∀ u ∈ DDS.GenStoreDecode.storeIndexes Consts.binEncodingIndexDeltas (nb b), Idx32 u) :
    DecAgrees (Gen.Paginated.BufferedPaginatedStore.DecodeAndMergeWith fuel grow fb (toGen s cap) b
        BinEncodingIndexDeltas)
      (Sketch.decodeStore (.pg s) Consts.binEncodingIndexDeltas (nb b)) :=
  DecodeAndMergeWith_deltas_gen cf hcompact grow fb F L fuel s cap b hI hcap hf9
    (fun v rest h => by
      obtain ⟨h1, h2, h3⟩ := hn v rest h
      exact ⟨h1, h2, h3, fun s' _ hI' hl' => hcf s' hI' hl'⟩) hidx

/-! #### a disagreement on malformed input: an announced bin count `≥ 2^63`

  `remaining := int(numBins)` is negative, so is `batchSize`, nothing is read, `remaining -= batchSize` is 0 and
  the Go function returns `nil` having consumed only the count; the model (and the generic decoder used by the
  other stores) tries to read the bins and reports `io.EOF`.  Kernel-checked on the empty store. -/

def isErrEof : Option (Except SkErr (Store × Bytes)) → Bool
  | some (.error .eof) => true
  | _ => false

def isOkNilEmpty : Res (GP × List (BitVec 8) × GoErr) → Bool
  | .ok (g, [], GoErr.nil) => g.buffer.isEmpty && g.pages.isEmpty
  | _ => false

/-- the uvarint `2^63` -/
def hugeCount : List (BitVec 8) := List.replicate 9 128#8

theorem deltas_negative_count_model :
    isErrEof (Sketch.decodeStore (.pg PStore.new) Consts.binEncodingIndexDeltas (nb hugeCount)) = true := by
  decide +kernel

theorem deltas_negative_count_gen :
    isOkNilEmpty (Gen.Paginated.BufferedPaginatedStore.DecodeAndMergeWith 20 (fun _ n => n)
      (fun s b _ => .ok (s, b, GoErr.nil)) Gen.Paginated.NewBufferedPaginatedStore hugeCount
      BinEncodingIndexDeltas) = true := by
  decide +kernel

/-! #### layout `BinEncodingContiguousCounts` -/

/-- the counts the model decodes, until the items or the parsable input run out -/
def ccCounts : Nat → Bytes → List F64
  | 0, _ => []
  | n + 1, bs =>
    match decVarfloat64 bs with
    | .error _ => []
    | .ok (c, bs1) => c :: ccCounts n bs1

/-- a finite non-negative weight -/
def NonnegFin (c : F64) : Prop := ∃ w : Rat, c = .fin w ∧ 0 ≤ w

theorem cdc_idx_page (pg : Array Rat) (line : Nat) (h : line < pg.size) :
    GoSem.idx pg.toList (line : Int) = some (pg.getD line 0) := by
  unfold GoSem.idx
  rw [if_neg (by omega), Int.toNat_natCast]
  simp [Array.getD, h]

theorem cdc_set_page (pg : Array Rat) (line : Nat) (v : Rat) (h : line < pg.size) :
    GoSem.set pg.toList (line : Int) v = some (pg.setIfInBounds line v).toList := by
  unfold GoSem.set
  rw [if_neg (by rw [Array.length_toList]; omega), Int.toNat_natCast]
  simp

theorem cdc_set_pages (s : PStore) (k : Nat) (pg : Array Rat) (h : k < s.pages.size) :
    GoSem.set (pagesL s) (k : Int) pg.toList
      = some (pagesL { s with pages := s.pages.setIfInBounds k pg }) := by
  unfold GoSem.set pagesL
  rw [if_neg (by rw [List.length_map, Array.length_toList]; omega), Int.toNat_natCast]
  simp [List.map_set]

theorem content_of_wt_add (s s' : PStore) (h : PStore.Inv s) (h' : PStore.Inv s') (i : Int) (w : Rat) (hw : 0 ≤ w)
    (hwt : ∀ j, PStore.wt s' j = PStore.wt s j + if j = i then w else 0) :
    content s' = (content s).add i w := by
  apply PStore.content_eq_of_lookup s' h' _ (Content.wf_add _ i w (PStore.content_wf s h) hw)
  intro j; rw [hwt, Content.lookup_add, PStore.lookup_content s h]

theorem pg_addF (st : PStore) (h : PStore.Inv st) (i : Int) (hi : Idx32 i) (w : Rat) (hw : 0 ≤ w) :
    ∃ st1, Sketch.addF (.pg st) i (.fin w) = some (.pg st1) ∧ PStore.Inv st1 ∧
      content st1 = (content st).add i w := by
  obtain ⟨st1, h1, h2, h3⟩ := DDS.Props.C04Pag.add_content st h i hi w hw true
  exact ⟨st1, by simp only [Sketch.addF, Store.addWithCount, h1, Option.map_some], h2, h3⟩

theorem cdc_toInt64 (i : Int) (h : DDS.I64 i) : (BitVec.ofInt 64 i).toInt = i :=
  DDS.GenStoreDecode.toInt_ofInt_I64 i h

/-- the result of `addAtPage`, explicitly -/
def addAtE (s : PStore) (k ln : Nat) (w : Rat) : PStore :=
  { s with pages := s.pages.setIfInBounds k ((s.pages.getD k #[]).setIfInBounds ln ((s.pages.getD k #[]).getD ln 0 + w)) }

/-- the lines of one page (`loop4`): while the line stays on the page, one count per line -/
theorem dec_loop4 (numBins : BitVec 64) (stride : Int) (hstride : DDS.I64 stride) (cap : Int) :
    ∀ (r fuel : Nat) (b : List (BitVec 8)) (s : PStore) (k : Nat) (line : Int) (idx : Int) (i : BitVec 64)
      (st : PStore),
    numBins.toNat = i.toNat + r → r + 10 ≤ fuel →
    PStore.Inv s → PStore.Inv st → content st = content s →
    k < s.pages.size → (s.pages.getD k #[]).size = 32 →
    idx = (s.minPageIndex + (k : Int)) * 32 + line →
    (∀ j : Nat, j < r → Idx32 (idx + (j : Int) * stride)) →
    (∀ c ∈ ccCounts r (nb b), NonnegFin c) →
    (Sketch.decItems (Sketch.ccItem stride) r (.pg st) idx (nb b) = some (.error .eof) ∧
      ∃ g' b', Gen.Paginated.BufferedPaginatedStore.DecodeAndMergeWith.loop4 32 numBins (k : Int)
        (BitVec.ofInt 64 stride) fuel b (s.pages.getD k #[]).toList (toGen s cap) line (BitVec.ofInt 64 idx) i
          = .ret (g', b', GoErr.eof)) ∨
    (∃ (r' : Nat) (s1 st1 : PStore) (idx1 : Int) (b1 : List (BitVec 8)) (page1 : List Rat) (line1 : Int)
        (i1 : BitVec 64),
      Gen.Paginated.BufferedPaginatedStore.DecodeAndMergeWith.loop4 32 numBins (k : Int)
        (BitVec.ofInt 64 stride) fuel b (s.pages.getD k #[]).toList (toGen s cap) line (BitVec.ofInt 64 idx) i
          = .done (b1, page1, toGen s1 cap, line1, BitVec.ofInt 64 idx1, i1) ∧
      numBins.toNat = i1.toNat + r' ∧ r' ≤ r ∧ ((0 ≤ line ∧ line < 32 ∧ 0 < r) → r' < r) ∧
      Sketch.decItems (Sketch.ccItem stride) r (.pg st) idx (nb b)
        = Sketch.decItems (Sketch.ccItem stride) r' (.pg st1) idx1 (nb b1) ∧
      PStore.Inv s1 ∧ PStore.Inv st1 ∧ content st1 = content s1 ∧
      (∀ j : Nat, j < r' → Idx32 (idx1 + (j : Int) * stride)) ∧
      (∀ c ∈ ccCounts r' (nb b1), NonnegFin c)) := by
  intro r
  induction r with
  | zero =>
    intro fuel b s k line idx i st hn hf hI hIt hc hk hsz hidx hrange hcnt
    obtain ⟨fuel, rfl⟩ : ∃ f, fuel = f + 1 := ⟨fuel - 1, by omega⟩
    have hu := DDS.GenStoreDecode.ult_of_eq i numBins (by omega)
    right
    refine ⟨0, s, st, idx, b, (s.pages.getD k #[]).toList, line, i, ?_, hn, Nat.le_refl _, fun h => absurd h.2.2 (by omega), rfl, hI, hIt, hc,
      hrange, hcnt⟩
    simp only [Gen.Paginated.BufferedPaginatedStore.DecodeAndMergeWith.loop4, hu, Bool.and_false,
      Bool.false_eq_true, if_false]
  | succ r ih =>
    intro fuel b s k line idx i st hn hf hI hIt hc hk hsz hidx hrange hcnt
    obtain ⟨fuel, rfl⟩ : ∃ f, fuel = f + 1 := ⟨fuel - 1, by omega⟩
    have hf9 : 9 ≤ fuel := by omega
    have hu := DDS.GenStoreDecode.ult_of_lt i numBins (by omega)
    by_cases hline : 0 ≤ line ∧ line < 32
    · obtain ⟨hl0, hl1⟩ := hline
      have hcond : ((decide ((0 : Int) ≤ line) && decide (line < 32)) && BitVec.ult i numBins) = true := by
        simp [hl0, hl1, hu]
      cases hF : decVarfloat64 (nb b) with
      | error e1 =>
        left
        refine ⟨?_, toGen s cap, b, ?_⟩
        · exact decItems_err r _ idx (nb b) _
            (Sketch.ccItem_of_err stride _ idx (nb b) _ (Sketch.sk_liftDec_of_error _ _ hF))
        · simp only [Gen.Paginated.BufferedPaginatedStore.DecodeAndMergeWith.loop4, hcond, if_true,
            F_err fuel hf9 b e1 hF, Res.bindL_ok, GoSem.ratOfF64, optL_some, heof]
      | ok p1 =>
        obtain ⟨c, r1⟩ := p1
        obtain ⟨b1, hF1, hb1, _⟩ := F_ok fuel hf9 b c r1 hF
        have hcc : ccCounts (r + 1) (nb b) = c :: ccCounts r (nb b1) := by
          simp only [ccCounts, hF, hb1]
        rw [hcc] at hcnt
        obtain ⟨w, rfl, hw⟩ := hcnt c (List.mem_cons_self ..)
        have hx : Idx32 idx := by
          have := hrange 0 (by omega); simpa using this
        -- the model
        obtain ⟨st1, ha1, hIt1, hc1⟩ := pg_addF st hIt idx hx w hw
        have hit := Sketch.ccItem_of_ok stride (.pg st) idx (nb b) r1 (.fin w) (Sketch.sk_liftDec_of_ok _ _ hF)
        rw [ha1, Option.map_some] at hit
        have hm := decItems_ok r (.pg st) idx (nb b) (.pg st1) (idx + stride) r1 hit
        -- the generated store
        have hL := hI.pageLen_eq
        obtain ⟨ln, hln⟩ : ∃ ln : Nat, line = (ln : Int) := ⟨line.toNat, by omega⟩
        subst hln
        have hpi : s.pageIndex idx = s.minPageIndex + (k : Int) := by
          simp only [PStore.pageIndex, hL]; omega
        have hli : s.lineIndex idx = ln := by
          simp only [PStore.lineIndex, hL]; omega
        have hslot : s.slot? (s.pageIndex idx) = some k := by
          rw [hpi]; unfold PStore.slot?
          rw [if_pos (by omega)]; congr 1; omega
        obtain ⟨s', hadd, hI', hwt'⟩ := PStore.addAtPage_spec s hI idx k hslot (by rw [hsz]; decide) w hw
        rw [hli] at hadd
        have hexp : s.addAtPage k ln w = some (addAtE s k ln w) := by
          unfold PStore.addAtPage addAtE
          simp only []
          rw [if_pos ⟨hk, by omega⟩]
        rw [hexp] at hadd
        have hs' := Option.some.inj hadd
        have hcs' : content st1 = content s' := by
          rw [hc1, hc]; exact (content_of_wt_add s s' hI hI' idx w hw hwt').symm
        have hpg' : s'.pages.getD k #[] = (s.pages.getD k #[]).setIfInBounds ln ((s.pages.getD k #[]).getD ln 0 + w) := by
          rw [← hs']; simp [addAtE, Array.getD, hk]
        have hlnsz : ln < (s.pages.getD k #[]).size := by omega
        have hstep : Gen.Paginated.BufferedPaginatedStore.DecodeAndMergeWith.loop4 32 numBins (k : Int)
              (BitVec.ofInt 64 stride) (fuel + 1) b (s.pages.getD k #[]).toList (toGen s cap) (ln : Int)
              (BitVec.ofInt 64 idx) i
            = Gen.Paginated.BufferedPaginatedStore.DecodeAndMergeWith.loop4 32 numBins (k : Int)
              (BitVec.ofInt 64 stride) fuel b1 (s'.pages.getD k #[]).toList (toGen s' cap) ((ln : Int) + stride)
              (BitVec.ofInt 64 (idx + stride)) (i + 1#64) := by
          rw [Gen.Paginated.BufferedPaginatedStore.DecodeAndMergeWith.loop4]
          simp only [hcond, if_true, hF1, Res.bindL_ok, GoSem.ratOfF64, optL_some, hnil, Bool.false_eq_true,
            if_false, cdc_idx_page (s.pages.getD k #[]) ln hlnsz, cdc_set_page (s.pages.getD k #[]) ln _ hlnsz,
            toGen_pages, cdc_set_pages s k _ hk, cdc_toInt64 stride hstride, ← BitVec.ofInt_add, hpg']
          rw [← hs']
          rfl
        rw [hstep, hm, ← hb1]
        have hsz' : (s'.pages.getD k #[]).size = 32 := by rw [hpg', Array.size_setIfInBounds]; exact hsz
        have hk' : k < s'.pages.size := by rw [← hs']; simp [addAtE, hk]
        have hmin' : s'.minPageIndex = s.minPageIndex := by rw [← hs']; rfl
        rcases ih fuel b1 s' k ((ln : Int) + stride) (idx + stride) (i + 1#64) st1
          (DDS.GenStoreDecode.toNat_succ i numBins r hn) (by omega) hI' hIt1 hcs' hk' hsz'
          (by rw [hmin', hidx]; omega)
          (fun j hj => by
            have := hrange (j + 1) (by omega)
            rw [show idx + stride + (j : Int) * stride = idx + ((j + 1 : Nat) : Int) * stride by
              rw [Int.natCast_add, Int.add_mul]; omega]
            exact this)
          (fun c hc' => hcnt c (List.mem_cons_of_mem _ hc')) with
          h | ⟨r', s2, st2, idx2, b2, page2, line2, i2, h1, h2, h3, _, h5, h6, h7, h8, h9, h10⟩
        · exact Or.inl h
        · exact Or.inr ⟨r', s2, st2, idx2, b2, page2, line2, i2, h1, h2, by omega, fun _ => by omega, h5, h6, h7, h8,
            h9, h10⟩
    · right
      refine ⟨r + 1, s, st, idx, b, (s.pages.getD k #[]).toList, line, i, ?_, hn, Nat.le_refl _, fun h => absurd ⟨h.1, h.2.1⟩ hline, rfl, hI,
        hIt, hc, hrange, hcnt⟩
      have hcond : ((decide ((0 : Int) ≤ line) && decide (line < 32)) && BitVec.ult i numBins) = false := by
        by_cases h0 : 0 ≤ line
        · have : ¬ line < 32 := fun h => hline ⟨h0, h⟩
          simp [this]
        · simp [h0]
      simp only [Gen.Paginated.BufferedPaginatedStore.DecodeAndMergeWith.loop4, hcond, Bool.false_eq_true, if_false]

/-- enough fuel for `page` on any store with the invariant and any page index of an int32 index -/
def pageFuelMax : Nat := 268435500

theorem pageFuel_le (s : PStore) (h : PStore.Inv s) (p : Int) (hp : PStore.PageIdx32 p) :
    pageFuel s p ≤ pageFuelMax := by
  unfold pageFuel pageFuelMax
  unfold PStore.PageIdx32 at hp
  split
  · omega
  · rename_i hc
    have := h.range.2 (fun h0 => hc (Or.inl h0))
    omega

/-- a loop that falls through (the function then returns `nil`) against the model -/
def DoneAgrees (cap : Int) (r : Loop (GP × List (BitVec 8) × BitVec 64 × BitVec 64) (GP × List (BitVec 8) × GoErr))
    (m : Option (Except SkErr (Store × Bytes))) : Prop :=
  match m with
  | none => False
  | some (.error e) => e = .eof ∧ ∃ g' b', r = .ret (g', b', GoErr.eof)
  | some (.ok (st', rest)) => ∃ s' st'' off i', r = .done (toGen s' cap, bn rest, off, i') ∧ st' = .pg st'' ∧
      PStore.Inv s' ∧ PStore.Inv st'' ∧ content s' = content st''

/-- the pages of the `ContiguousCounts` layout (`loop3`) -/
theorem dec_loop3 (hpage : PageSpec) (numBins : BitVec 64) (stride : Int) (hstride : DDS.I64 stride) (cap : Int) :
    ∀ (r fuel : Nat) (b : List (BitVec 8)) (s : PStore) (idx : Int) (i : BitVec 64) (st : PStore),
    numBins.toNat = i.toNat + r → pageFuelMax + 2 * r + 12 ≤ fuel →
    PStore.Inv s → PStore.Inv st → content st = content s →
    (∀ j : Nat, j < r → Idx32 (idx + (j : Int) * stride)) →
    (∀ c ∈ ccCounts r (nb b), NonnegFin c) →
    DoneAgrees cap (Gen.Paginated.BufferedPaginatedStore.DecodeAndMergeWith.loop3 numBins 32
        (BitVec.ofInt 64 stride) fuel (toGen s cap) b (BitVec.ofInt 64 idx) i)
      (Sketch.decItems (Sketch.ccItem stride) r (.pg st) idx (nb b)) := by
  intro r
  induction r using Nat.strongRecOn with
  | _ r ih =>
    intro fuel b s idx i st hn hf hI hIt hc hrange hcnt
    obtain ⟨fuel, rfl⟩ : ∃ f, fuel = f + 1 := ⟨fuel - 1, by omega⟩
    by_cases hr : r = 0
    · subst hr
      have hu := DDS.GenStoreDecode.ult_of_eq i numBins (by omega)
      simp only [Gen.Paginated.BufferedPaginatedStore.DecodeAndMergeWith.loop3, hu, Bool.false_eq_true, if_false,
        Sketch.decItems]
      exact ⟨s, st, _, _, by rw [bn_nb], rfl, hI, hIt, hc.symm⟩
    · have hu := DDS.GenStoreDecode.ult_of_lt i numBins (by omega)
      have hx : Idx32 idx := by
        have := hrange 0 (by omega); simpa using this
      have hL := hI.pageLen_eq
      have hp := PStore.pageIdx32_of_idx32 s hL idx hx
      obtain ⟨s₁, k?, hpg, hI₁, hwt₁, hk₁⟩ := PStore.page_spec s hI (s.pageIndex idx) hp true
      obtain ⟨k, rfl, hslot, hsz⟩ := hk₁ rfl
      have hL₁ := hI₁.pageLen_eq
      have hgp := hpage s cap (s.pageIndex idx) true fuel
        (Nat.le_trans (pageFuel_le s hI _ hp) (by omega))
      rw [hpg, toRes_some] at hgp
      have hc₁ : content st = content s₁ := by
        rw [hc]; symm
        exact PStore.content_eq_of_lookup s₁ hI₁ _ (PStore.content_wf s hI)
          (fun j => by rw [hwt₁, PStore.lookup_content s hI])
      -- the slot
      have hslot' := hslot
      unfold PStore.slot? at hslot'
      split at hslot'
      · rename_i hcond
        have hkeq : (k : Int) = s.pageIndex idx - s₁.minPageIndex := by
          have := Option.some.inj hslot'; omega
        have hksz : k < s₁.pages.size := by omega
        have hidx : idx = (s₁.minPageIndex + (k : Int)) * 32 + ((s₁.lineIndex idx : Nat) : Int) := by
          rw [hkeq]
          simp only [PStore.pageIndex, PStore.lineIndex, hL, hL₁]
          omega
        have hlt : s₁.lineIndex idx < 32 := by
          simp only [PStore.lineIndex, hL₁]; omega
        rcases dec_loop4 numBins stride hstride cap r fuel b s₁ k ((s₁.lineIndex idx : Nat) : Int) idx i st hn
          (by omega) hI₁ hIt hc₁ hksz (by rw [hsz, hL₁]) hidx hrange hcnt with
          ⟨h1, g', b', h2⟩ | ⟨r', s2, st2, idx2, b2, page2, line2, i2, h1, h2, h3, h4, h5, h6, h7, h8, h9, h10⟩
        · rw [h1]
          refine ⟨rfl, g', b', ?_⟩
          rw [Gen.Paginated.BufferedPaginatedStore.DecodeAndMergeWith.loop3]
          simp only [hu, if_true, cdc_toInt _ hx, gen_pageIndex, hgp, Res.bindL_ok, toGen_minPageIndex, ← hkeq,
            gen_lineIndex, pageOf, h2, Loop.elimL]
        · have hlt' : r' < r := h4 ⟨by omega, by omega, by omega⟩
          have hrec := ih r' hlt' fuel b2 s2 idx2 i2 st2 h2 (by omega) h6 h7 h8 h9 h10
          rw [h5]
          have hstep : Gen.Paginated.BufferedPaginatedStore.DecodeAndMergeWith.loop3 numBins 32
                (BitVec.ofInt 64 stride) (fuel + 1) (toGen s cap) b (BitVec.ofInt 64 idx) i
              = Gen.Paginated.BufferedPaginatedStore.DecodeAndMergeWith.loop3 numBins 32
                (BitVec.ofInt 64 stride) fuel (toGen s2 cap) b2 (BitVec.ofInt 64 idx2) i2 := by
            rw [Gen.Paginated.BufferedPaginatedStore.DecodeAndMergeWith.loop3]
            simp only [hu, if_true, cdc_toInt _ hx, gen_pageIndex, hgp, Res.bindL_ok, toGen_minPageIndex, ← hkeq,
              gen_lineIndex, pageOf, h1, Loop.elimL]
          rw [hstep]
          exact hrec
      · cases hslot'

theorem beqCC1 : (BinEncodingContiguousCounts == BinEncodingIndexDeltas) = false := by decide
theorem beqCC2 : (BinEncodingContiguousCounts == BinEncodingContiguousCounts) = true := by decide

/-- **`DecodeAndMergeWith`, layout `BinEncodingContiguousCounts`** (page-wise adds, any start, any stride, any
    number of pages), against `Sketch.decodeStore (.pg s)`: same error, same remaining bytes, and the resulting
    store is the image (same capacity) of a model store with the invariant and the CONTENT of the model's
    result; neither side panics, the generated code does not run out of fuel.

    Hypotheses: the invariant; every announced index `start + j·stride` (`j < numBins`) is an int32 (the Go code
    fetches the page of an index BEFORE it reads the count, so also the index of a count that is cut off
    matters); every decoded count is finite and non-negative (the invariant and the model's content need it).
    Fuel: `pageFuelMax + 2·numBins + 13`. -/
theorem DecodeAndMergeWith_contiguous (hpage : PageSpec) (grow : Int → Int → Int)
    (fb : GP → List (BitVec 8) → SubFlag → Res (GP × List (BitVec 8) × GoErr))
    (fuel : Nat) (s : PStore) (cap : Int) (b : List (BitVec 8)) (hI : PStore.Inv s) (hf9 : 9 ≤ fuel)
    (hn : ∀ v r0 start r1 stride r2, decUvarint64 (nb b) = .ok (v, r0) → decVarint64 r0 = .ok (start, r1) →
      decVarint64 r1 = .ok (stride, r2) →
      pageFuelMax + 2 * v + 13 ≤ fuel ∧ (∀ j : Nat, j < v → Idx32 (start + (j : Int) * stride)) ∧
        (∀ c ∈ ccCounts v r2, NonnegFin c)) :
    DecAgrees (Gen.Paginated.BufferedPaginatedStore.DecodeAndMergeWith fuel grow fb (toGen s cap) b
        BinEncodingContiguousCounts)
      (Sketch.decodeStore (.pg s) Consts.binEncodingContiguousCounts (nb b)) := by
  unfold Gen.Paginated.BufferedPaginatedStore.DecodeAndMergeWith
  rw [Sketch.decodeStore_eq]
  simp only [beqCC1, beqCC2, Bool.false_eq_true, if_false, if_true,
    show Consts.binEncodingContiguousCounts ≠ Consts.binEncodingIndexDeltasAndCounts by decide,
    show Consts.binEncodingContiguousCounts ≠ Consts.binEncodingIndexDeltas by decide]
  cases hU : decUvarint64 (nb b) with
  | error e =>
    rw [U_err fuel hf9 b e hU]
    simp only [Res.bind_ok, heof, if_true, Sketch.liftDec]
    exact ⟨rfl, _, _, rfl⟩
  | ok p =>
    obtain ⟨v, r0⟩ := p
    obtain ⟨b0, hU1, hb0, _, hv⟩ := U_ok fuel hf9 b v r0 hU
    rw [hU1]
    simp only [Res.bind_ok, hnil, Bool.false_eq_true, if_false, Sketch.liftDec]
    cases hS : decVarint64 r0 with
    | error e =>
      rw [V_err fuel hf9 b0 e (by rw [hb0]; exact hS)]
      simp only [Res.bind_ok, heof, if_true]
      exact ⟨rfl, _, _, rfl⟩
    | ok p =>
      obtain ⟨start, r1⟩ := p
      obtain ⟨b1, hS1, hb1, _, _⟩ := V_ok fuel hf9 b0 start r1 (by rw [hb0]; exact hS)
      rw [hS1]
      simp only [Res.bind_ok, hnil, Bool.false_eq_true, if_false]
      cases hD : decVarint64 r1 with
      | error e =>
        rw [V_err fuel hf9 b1 e (by rw [hb1]; exact hD)]
        simp only [Res.bind_ok, heof, if_true]
        exact ⟨rfl, _, _, rfl⟩
      | ok p =>
        obtain ⟨stride, r2⟩ := p
        obtain ⟨b2, hD1, hb2, _, hstride⟩ := V_ok fuel hf9 b1 stride r2 (by rw [hb1]; exact hD)
        obtain ⟨hf, hrange, hcnt⟩ := hn v r0 start r1 stride r2 hU hS hD
        rw [hD1]
        simp only [Res.bind_ok, hnil, Bool.false_eq_true, if_false]
        rw [gen_pageLen, hI.pageLen_eq, ← hb2]
        have hnb : (BitVec.ofNat 64 v).toNat = (0#64).toNat + v := by
          rw [BitVec.toNat_ofNat]
          have : (0#64).toNat = 0 := rfl
          unfold W64 at hv
          omega
        have h := dec_loop3 hpage (BitVec.ofNat 64 v) stride hstride cap v fuel b2 s start 0#64 s hnb (by omega) hI hI
          rfl hrange (by rw [hb2]; exact hcnt)
        revert h
        cases Sketch.decItems (Sketch.ccItem stride) v (.pg s) start (nb b2) with
        | none => exact fun h => h
        | some r =>
          cases r with
          | error e =>
            rintro ⟨h1, g', b', h2⟩
            rw [show ((32 : Nat) : Int) = 32 from rfl, h2]; exact ⟨h1, g', b', rfl⟩
          | ok q =>
            obtain ⟨st', rest'⟩ := q
            rintro ⟨s', st'', off, i', h1, h2⟩
            rw [show ((32 : Nat) : Int) = 32 from rfl, h1]; exact ⟨s', cap, st'', rfl, h2⟩

/-- the third layout (`BinEncodingIndexDeltasAndCounts`) and every unknown sub-flag go to the oracle `decodeFallback`
    (the generic `store.DecodeAndMergeWith`, tied to the model in `GenStoreDecode`) -/
theorem DecodeAndMergeWith_fallback (grow : Int → Int → Int)
    (fb : GP → List (BitVec 8) → SubFlag → Res (GP × List (BitVec 8) × GoErr))
    (fuel : Nat) (g : GP) (b : List (BitVec 8)) (m : SubFlag)
    (h1 : (m == BinEncodingIndexDeltas) = false) (h2 : (m == BinEncodingContiguousCounts) = false) :
    Gen.Paginated.BufferedPaginatedStore.DecodeAndMergeWith fuel grow fb g b m = fb g b m := by
  unfold Gen.Paginated.BufferedPaginatedStore.DecodeAndMergeWith
  simp only [h1, h2, Bool.false_eq_true, if_false]
  cases fb g b m <;> rfl

/-! ### 1b. `Encode` under the store invariant: the range hypotheses hold -/

/-- a store with the invariant whose buffer length fits `uint64` is in range -/
theorem pEncRange_of_inv (s : PStore) (hI : PStore.Inv s) (hlen : s.buffer.length < 2 ^ 64) : PEncRange s := by
  have hL := hI.pageLen_eq
  refine ⟨hlen, ?_, ?_, ?_⟩
  · intro d hd
    exact DDS.RoundTrip.dRec_wf 0 DDS.RoundTrip.idx32_zero s.buffer hI.bufRange d hd
  · intro pg hpg
    have := PStore.pages_size_le s hI pg hpg
    omega
  · intro q hq hne
    obtain ⟨pg, off⟩ := q
    have hq' := List.mem_zipIdx hq
    simp only [Nat.zero_add, Nat.sub_zero, Nat.zero_le, true_and, Array.length_toList,
      Array.getElem_toList] at hq'
    obtain ⟨h1, h2⟩ := hq'
    have hget : s.pages.getD off #[] = pg := by
      simp [Array.getD_eq_getD_getElem?, h1, h2]
    have := hI.pageRange off (by rw [hget]; exact hne)
    apply cdc_idx32_i64
    apply PStore.idx32_of_pageIdx32 s hL
    rw [PStore.pageIndex_index s hL _ 0 (by omega)]
    exact this

/-- **`Encode` on a store with the invariant** (buffer shorter than `2^64`): it succeeds, returns the compacted store
    `s'` (invariant, same content, same capacity) and appends exactly the bytes of the model's blocks. -/
theorem Encode_inv (cf : PStore → Nat) (hcompact : CompactSpec cf) (fuel : Nat) (s : PStore) (cap : Int)
    (side : Side) (t : FlagType) (ht : t.byte.toNat = Wire.sideType side) (b : List (BitVec 8))
    (hI : PStore.Inv s) (hlen : s.buffer.length < 2 ^ 64) (hf : encodeFuel cf s ≤ fuel) :
    ∃ s' blocks, Sketch.encodeStore (.pg s) side = some (.pg s', blocks) ∧
      Gen.Paginated.BufferedPaginatedStore.Encode fuel (toGen s cap) b t
        = .ok (toGen s' cap, b ++ bn (Wire.encBlocks blocks)) ∧
      PStore.Inv s' ∧ content s' = content s := by
  obtain ⟨s', hc, hI', hcont⟩ := DDS.Props.C04Pag.compact_content s hI
  have hlen' := (DDS.RoundTrip.compact_buffer s s' hc).1
  refine ⟨s', pagBlocks s' side, by rw [encodeStore_pg, hc]; rfl, ?_, hI', hcont⟩
  rw [Encode_compact cf hcompact fuel s cap side t ht b
    (fun s'' h'' => by
      rw [hc] at h''; cases h''
      exact pEncRange_of_inv s' hI' (by omega)) hf, hc]
  rfl

end DDS.GenPag
