/-
  DDS.Proofs.GenPagSketch3 — continuation of `GenPagSketch.lean` / `GenPagSketch2.lean` (same namespace): the
  `DecodeAndMergeWith` method of the `StoreI (GPS grow)` instance (`gDecode`: the regenerated
  `BufferedPaginatedStore.DecodeAndMergeWith`, fallback = the regenerated generic `store.DecodeAndMergeWith` over
  `baseI`) against the same method of `instance : StoreI Store` (`GenSketch.storeDecode`, i.e. the model's
  `Sketch.decodeStore`), and the regenerated sketch decoder (`DDSketch.decodeAndMergeWith` loop) over the two.

  1. MODEL LEVEL.  `Rm` (two paginated model stores, invariant, same content), `OutRel` (two results of
     `Sketch.decodeStore`: the same error, or success with the same remaining bytes and `Rm`-related stores; a
     panic of the model on either side is excluded).  `decodeStore_rel_deltas`, `decodeStore_rel_cc`: on `Rm`-related
     stores the model decoder gives `OutRel`-related results (int32 indexes; finite counts `≥ 0`).
  2. `StepRel x st b sub` — what one store block does on a `Sim` pair: THE SAME ERROR; and when that error is nil,
     the same remaining bytes and `Sim`-related receivers.  (On `io.EOF` the Go store keeps the bins read before
     the cut and has consumed input, the model instance returns the unchanged store and input: nothing more can
     be said there, and the sketch decoder returns at once.)
       `sim_decode_deltas`      layout `BinEncodingIndexDeltas`.  Hypotheses: `CapOK x.g`
                                (`len(buffer) ≤ max(cap(buffer), trigger)`), announced count `< 2^63`, int32 indexes.
       `sim_decode_contiguous`  layout `BinEncodingContiguousCounts`.  Hypotheses: int32 indexes, counts finite `≥ 0`,
                                and `2·v ≤ 3·len(b) + 51` for the announced count `v` (FUEL, see below).
       `sim_decode_generic`     every other sub-flag (the generic decoder over `baseI`), through
                                `GenDecodeWrap.decode_model_ok/_error` with `sim_addWithCount` / `sim_add`.
                                Hypotheses: the calls of the input have int32 indexes and finite-or-`≥ 0` counts
                                (`GoodCall`), no index leaves int64 (`NoWrap`), and the model does not panic on
                                the partner store (`decodeStore st sub (nb b) ≠ none`; a non-finite count makes the
                                model say `none` while Go stores nothing — outside the model).
       `DecodeOK`, `sim_decode` the three in one statement.
     FUEL of the instance (`gDecodeFuel`): sufficient for the deltas layout (it contains `deltasFuel` of the actual
     store) and for the generic layout (`≥ len(b) + 9`); for the contiguous layout
     `GenPagCodec.DecodeAndMergeWith_contiguous` asks `pageFuelMax + 2v + 13` for the ANNOUNCED count `v`, the
     instance has `pageFuelMax + 3·len(b) + 64`: enough exactly when `2v ≤ 3·len(b) + 51` — true of every block whose
     `v` counts are present (each takes `≥ 1` byte), false for a header announcing far more bins than bytes follow.
     No corrected instance was defined: the bound is a hypothesis of `sim_decode_contiguous`.
     SURPRISE: `Sim` does not record `len(buffer) ≤ cap(buffer)` (true of every Go slice, not of every value of the
     regenerated record), and `GenPagCodec.DecodeAndMergeWith_deltas` is false without `CapOK`; neither the add
     specifications nor the decode theorems expose the capacity of their result, so `CapOK` cannot be propagated:
     it is a hypothesis wherever a deltas block is decoded.  A fresh store satisfies it (`capOK_new`), and so does
     any store with an empty buffer.
  3. SKETCH LEVEL.  `GoodRun fb fuel b a`: the side conditions (`DecodeOK`) at every store block the regenerated
     decoder loop meets when run on the regenerated side (defined by recursion on the fuel, following that run).
     `loop1_param`: `SkSim a a'`, `GoodRun` ⟹ the two runs of `DDSketch.decodeAndMergeWith.loop1` agree (`LoopRel`:
     both `.done` with the same bytes and `SkSim` states; or both `.ret` with the same non-nil error; or both
     `.panic` / `.nofuel`).  The mapping block, the zero-count block and the fallback (exact summary flags) do not
     touch the stores.  `decodeAndMergeWith_param`, `DecodeAndMergeWith_param`: the same for the two entry points
     (same error; when nil, `SkSim` results).

  Core Lean only.
-/
import DDS.Proofs.GenPagSketch2
import DDS.Proofs.GenPagCodec
import DDS.Proofs.GenDecodeWrap
import DDS.Generated.CodeSketchIter

namespace DDS.GenPagSketch

open DDS DDS.GoSem DDS.PStore DDS.GenPag DDS.Gen.Paginated DDS.Gen.Encoding DDS.Codec DDS.GenEncoding
open DDS.GenStoreDecode (dTrace storeIndexes NoWrap subflag)

variable {grow : Int → Int → Int}

/-! ### 1. the model decoder on two stores with the same content -/

/-- two paginated model stores inside the invariant with the same content -/
def Rm (st st' : Store) : Prop :=
  ∃ s s' : PStore, st = .pg s ∧ st' = .pg s' ∧ Inv s ∧ Inv s' ∧ content s = content s'

/-- two results of the model decoder agree up to content; a panic of the model is excluded -/
def OutRel (m m' : Option (Except SkErr (Store × Bytes))) : Prop :=
  match m, m' with
  | some (.error e), some (.error e') => e = e'
  | some (.ok p), some (.ok p') => Rm p.1 p'.1 ∧ p.2 = p'.2
  | _, _ => False

theorem rm_add {st st' : Store} (h : Rm st st') (i : Int) (hi : Idx32 i) (w : Rat) (hw : 0 ≤ w) :
    ∃ t t', st.addWithCount i w = some t ∧ st'.addWithCount i w = some t' ∧ Rm t t' := by
  obtain ⟨s, s', rfl, rfl, hs, hs', hc⟩ := h
  obtain ⟨s1, h1, hi1, hc1⟩ := Props.C04Pag.add_content s hs i hi w hw true
  obtain ⟨s1', h1', hi1', hc1'⟩ := Props.C04Pag.add_content s' hs' i hi w hw true
  refine ⟨.pg s1, .pg s1', ?_, ?_, s1, s1', rfl, rfl, hi1, hi1', by rw [hc1, hc1', hc]⟩
  · simp only [Store.addWithCount, h1, Option.map_some]
  · simp only [Store.addWithCount, h1', Option.map_some]

theorem decItems_d_rel : ∀ (n : Nat) (st st' : Store) (idx : Int) (bs : Bytes), Rm st st' →
    (∀ u ∈ dTrace n idx bs, Idx32 u) →
    OutRel (Sketch.decItems Sketch.dItem n st idx bs) (Sketch.decItems Sketch.dItem n st' idx bs) := by
  intro n
  induction n with
  | zero => intro st st' idx bs h _; exact ⟨h, rfl⟩
  | succ n ih =>
    intro st st' idx bs h htr
    cases hV : decVarint64 bs with
    | error e =>
      simp only [Sketch.decItems, Sketch.dItem, hV, Sketch.liftDec]
      exact rfl
    | ok p =>
      obtain ⟨d, bs1⟩ := p
      have hi : Idx32 (idx + d) := htr _ (by simp only [dTrace, hV]; exact List.mem_cons_self ..)
      obtain ⟨t, t', e1, e2, hr⟩ := rm_add h (idx + d) hi 1 (by decide)
      simp only [Sketch.decItems, Sketch.dItem, hV, Sketch.liftDec, e1, e2, Option.map_some]
      exact ih t t' (idx + d) bs1 hr (fun u hu => htr u (by
        simp only [dTrace, hV]; exact List.mem_cons_of_mem _ hu))

theorem decItems_cc_rel (stride : Int) : ∀ (n : Nat) (st st' : Store) (idx : Int) (bs : Bytes), Rm st st' →
    (∀ j : Nat, j < n → Idx32 (idx + (j : Int) * stride)) → (∀ c ∈ ccCounts n bs, NonnegFin c) →
    OutRel (Sketch.decItems (Sketch.ccItem stride) n st idx bs)
      (Sketch.decItems (Sketch.ccItem stride) n st' idx bs) := by
  intro n
  induction n with
  | zero => intro st st' idx bs h _ _; exact ⟨h, rfl⟩
  | succ n ih =>
    intro st st' idx bs h hidx hcnt
    cases hV : decVarfloat64 bs with
    | error e =>
      simp only [Sketch.decItems, Sketch.ccItem, hV, Sketch.liftDec]
      exact rfl
    | ok p =>
      obtain ⟨c, bs1⟩ := p
      obtain ⟨w, rfl, hw⟩ := hcnt c (by simp only [ccCounts, hV]; exact List.mem_cons_self ..)
      have hi : Idx32 idx := by simpa using hidx 0 (Nat.succ_pos _)
      obtain ⟨t, t', e1, e2, hr⟩ := rm_add h idx hi w hw
      simp only [Sketch.decItems, Sketch.ccItem, hV, Sketch.liftDec, Sketch.addF, e1, e2, Option.map_some]
      refine ih t t' (idx + stride) bs1 hr (fun j hj => ?_) (fun c hc => hcnt c (by
        simp only [ccCounts, hV]; exact List.mem_cons_of_mem _ hc))
      have := hidx (j + 1) (by omega)
      have e : idx + stride + (j : Int) * stride = idx + ((j + 1 : Nat) : Int) * stride := by
        rw [Int.natCast_succ, Int.add_mul]; omega
      rw [e]; exact this

/-- the model decoder, layout "index deltas", on two stores with the same content -/
theorem decodeStore_rel_deltas {st st' : Store} (h : Rm st st') (bs : Bytes)
    (hidx : ∀ u ∈ storeIndexes Consts.binEncodingIndexDeltas bs, Idx32 u) :
    OutRel (Sketch.decodeStore st Consts.binEncodingIndexDeltas bs)
      (Sketch.decodeStore st' Consts.binEncodingIndexDeltas bs) := by
  rw [Sketch.decodeStore_eq, Sketch.decodeStore_eq]
  simp only [show Consts.binEncodingIndexDeltas ≠ Consts.binEncodingIndexDeltasAndCounts by decide, if_false, if_true]
  cases hU : decUvarint64 bs with
  | error e => simp only [Sketch.liftDec]; exact rfl
  | ok p =>
    obtain ⟨v, rest⟩ := p
    simp only [Sketch.liftDec]
    apply decItems_d_rel v st st' 0 rest h
    intro u hu
    apply hidx u
    simp only [storeIndexes, hU,
      show Consts.binEncodingIndexDeltas ≠ Consts.binEncodingIndexDeltasAndCounts by decide, if_false, if_true]
    exact hu

/-- the model decoder, layout "contiguous counts", on two stores with the same content -/
theorem decodeStore_rel_cc {st st' : Store} (h : Rm st st') (bs : Bytes)
    (hn : ∀ v r0 start r1 stride r2, decUvarint64 bs = .ok (v, r0) → decVarint64 r0 = .ok (start, r1) →
      decVarint64 r1 = .ok (stride, r2) →
      (∀ j : Nat, j < v → Idx32 (start + (j : Int) * stride)) ∧ (∀ c ∈ ccCounts v r2, NonnegFin c)) :
    OutRel (Sketch.decodeStore st Consts.binEncodingContiguousCounts bs)
      (Sketch.decodeStore st' Consts.binEncodingContiguousCounts bs) := by
  rw [Sketch.decodeStore_eq, Sketch.decodeStore_eq]
  simp only [show Consts.binEncodingContiguousCounts ≠ Consts.binEncodingIndexDeltasAndCounts by decide,
    show Consts.binEncodingContiguousCounts ≠ Consts.binEncodingIndexDeltas by decide, if_false, if_true]
  cases hU : decUvarint64 bs with
  | error e => simp only [Sketch.liftDec]; exact rfl
  | ok p =>
    obtain ⟨v, r0⟩ := p
    simp only [Sketch.liftDec]
    cases hS : decVarint64 r0 with
    | error e => exact rfl
    | ok p =>
      obtain ⟨start, r1⟩ := p
      simp only
      cases hD : decVarint64 r1 with
      | error e => exact rfl
      | ok p =>
        obtain ⟨stride, r2⟩ := p
        obtain ⟨h1, h2⟩ := hn v r0 start r1 stride r2 hU hS hD
        exact decItems_cc_rel stride v st st' start r2 h h1 h2

/-! ### 2. one store block on a `Sim` pair -/

@[simp] theorem gps_decode (x : GPS grow) (b : List (BitVec 8)) (sub : SubFlag) :
    StoreI.DecodeAndMergeWith x b sub = gDecode x b sub := rfl

/-- the same error; when it is nil: the same remaining bytes and related receivers -/
def StepRel (x : GPS grow) (st : Store) (b : List (BitVec 8)) (sub : SubFlag) : Prop :=
  (StoreI.DecodeAndMergeWith x b sub).2.2 = (StoreI.DecodeAndMergeWith st b sub).2.2 ∧
  ((StoreI.DecodeAndMergeWith st b sub).2.2 = GoErr.nil →
    (StoreI.DecodeAndMergeWith x b sub).2.1 = (StoreI.DecodeAndMergeWith st b sub).2.1 ∧
    Sim (StoreI.DecodeAndMergeWith x b sub).1 (StoreI.DecodeAndMergeWith st b sub).1)

/-- `len(buffer) ≤ max(cap(buffer), trigger)`: true of every Go slice (`len ≤ cap`), not of every record value -/
def CapOK (g : GP) : Prop := (g.buffer.length : Int) ≤ max g.bufferCap g.bufferCompactionTriggerLen

theorem capOK_new : CapOK NewBufferedPaginatedStore := by
  show ((0 : Nat) : Int) ≤ max (4 : Int) _
  omega

theorem capOK_of_empty (g : GP) (h : g.buffer = []) (ht : 0 ≤ g.bufferCompactionTriggerLen) : CapOK g := by
  unfold CapOK; rw [h]; simp only [List.length_nil]; omega

/-- `gDecode` runs the regenerated paginated decoder with SOME fallback (the regenerated generic decoder over `baseI`,
    irrelevant for the two layouts the paginated store decodes itself) -/
theorem gDecode_eq (x : GPS grow) (b : List (BitVec 8)) (sub : SubFlag) :
    ∃ fb, gDecode x b sub =
      match BufferedPaginatedStore.DecodeAndMergeWith (gDecodeFuel x b) grow fb x.g b sub with
      | .ok (g', b', e) => (⟨g'⟩, b', e)
      | _ => (x, b, GoErr.nil) := ⟨_, rfl⟩

theorem decErr_eof : GenSketch.decErr .eof = GoErr.eof := rfl

/-- from `DecAgrees` (regenerated decoder vs the model on the store's own image) and `OutRel` (model on the image vs
    model on the partner) to `StepRel` -/
theorem stepRel_of_agrees (x : GPS grow) (s' : PStore) (b : List (BitVec 8)) (sub : SubFlag) (k : Nat)
    (hk : Wire.flagSub sub.byte.toNat = k)
    (r : Res (GP × List (BitVec 8) × GoErr))
    (hr : gDecode x b sub = match r with
      | .ok (g', b', e) => (⟨g'⟩, b', e)
      | _ => (x, b, GoErr.nil))
    (m : Option (Except SkErr (Store × Bytes))) (hA : DecAgrees r m)
    (hO : OutRel m (Sketch.decodeStore (.pg s') k (nb b))) : StepRel x (.pg s') b sub := by
  have hM : (StoreI.DecodeAndMergeWith (Store.pg s') b sub : Store × List (BitVec 8) × GoErr) =
      match Sketch.decodeStore (.pg s') k (nb b) with
      | some (.ok (st', rest)) => (st', bn rest, GoErr.nil)
      | some (.error e) => (.pg s', b, GenSketch.decErr e)
      | none => (.pg s', b, GoErr.nil) := by
    show GenSketch.storeDecode (.pg s') b sub = _
    unfold GenSketch.storeDecode
    rw [hk]; rfl
  unfold StepRel
  rw [gps_decode, hr, hM]
  generalize Sketch.decodeStore (.pg s') k (nb b) = m' at hO
  cases m with
  | none => exact hA.elim
  | some q =>
    cases q with
    | error e =>
      obtain ⟨he, g', b', hr'⟩ := hA
      subst he hr'
      cases m' with
      | none => exact hO.elim
      | some q' =>
        cases q' with
        | ok p' => exact hO.elim
        | error e' =>
          have : SkErr.eof = e' := hO
          subst this
          exact ⟨rfl, fun h => absurd (show GoErr.eof = GoErr.nil from h) (by decide)⟩
    | ok p =>
      obtain ⟨st1, rest⟩ := p
      obtain ⟨s1, cap1, st1'', hr', rfl, hi1, hi1'', hc1⟩ := hA
      subst hr'
      cases m' with
      | none => exact hO.elim
      | some q' =>
        cases q' with
        | error e' => exact hO.elim
        | ok p' =>
          obtain ⟨st2, rest'⟩ := p'
          obtain ⟨⟨a, a', ha, ha', hia, hia', hca⟩, hrest⟩ := hO
          simp only at ha ha' hrest
          cases ha
          subst ha' hrest
          exact ⟨rfl, fun _ => ⟨rfl, s1, a', cap1, rfl, rfl, hi1, hia', by rw [hc1, hca]⟩⟩

theorem flagSub_deltas : Wire.flagSub BinEncodingIndexDeltas.byte.toNat = Consts.binEncodingIndexDeltas := by decide
theorem flagSub_cc :
    Wire.flagSub BinEncodingContiguousCounts.byte.toNat = Consts.binEncodingContiguousCounts := by decide

/-- **layout `BinEncodingIndexDeltas`** on a `Sim` pair -/
theorem sim_decode_deltas {x : GPS grow} {st : Store} (h : Sim x st) (b : List (BitVec 8)) (hcap : CapOK x.g)
    (hn : ∀ v rest, decUvarint64 (nb b) = .ok (v, rest) → v < 2 ^ 63)
    (hidx : ∀ u ∈ storeIndexes Consts.binEncodingIndexDeltas (nb b), Idx32 u) :
    StepRel x st b BinEncodingIndexDeltas := by
  obtain ⟨s, s', cap, hx, rfl, hi, hi', hc⟩ := h
  have hcap' : (s.buffer.length : Int) ≤ max cap (s.trigger : Int) := by
    unfold CapOK at hcap; rw [hx] at hcap; exact hcap
  have hf : deltasFuel compactFuel grow s cap b ≤ gDecodeFuel x b := by
    unfold gDecodeFuel; rw [hx, ofGen_toGen, toGen_bufferCap]; omega
  obtain ⟨fb, hfb⟩ := gDecode_eq x b BinEncodingIndexDeltas
  have hA := DecodeAndMergeWith_deltas compactFuel compactSpec grow fb
    (gDecodeFuel x b) s cap b hi hcap' hn hidx hf
  rw [← hx] at hA
  exact stepRel_of_agrees x s' b _ _ flagSub_deltas _ hfb _ hA
    (decodeStore_rel_deltas ⟨s, s', rfl, rfl, hi, hi', hc⟩ (nb b) hidx)

/-- **layout `BinEncodingContiguousCounts`** on a `Sim` pair; `2v ≤ 3·len(b) + 51` (`v` the announced number of bins)
    makes the fuel of the instance sufficient -/
theorem sim_decode_contiguous {x : GPS grow} {st : Store} (h : Sim x st) (b : List (BitVec 8))
    (hn : ∀ v r0 start r1 stride r2, decUvarint64 (nb b) = .ok (v, r0) → decVarint64 r0 = .ok (start, r1) →
      decVarint64 r1 = .ok (stride, r2) →
      2 * v ≤ 3 * b.length + 51 ∧ (∀ j : Nat, j < v → Idx32 (start + (j : Int) * stride)) ∧
        (∀ c ∈ ccCounts v r2, NonnegFin c)) :
    StepRel x st b BinEncodingContiguousCounts := by
  obtain ⟨s, s', cap, hx, rfl, hi, hi', hc⟩ := h
  obtain ⟨fb, hfb⟩ := gDecode_eq x b BinEncodingContiguousCounts
  have hA := DecodeAndMergeWith_contiguous page_spec grow fb
    (gDecodeFuel x b) s cap b hi (by unfold gDecodeFuel; omega)
    (fun v r0 start r1 stride r2 h1 h2 h3 => by
      obtain ⟨a1, a2, a3⟩ := hn v r0 start r1 stride r2 h1 h2 h3
      exact ⟨by unfold gDecodeFuel; omega, a2, a3⟩)
  rw [← hx] at hA
  exact stepRel_of_agrees x s' b _ _ flagSub_cc _ hfb _ hA
    (decodeStore_rel_cc ⟨s, s', rfl, rfl, hi, hi', hc⟩ (nb b)
      (fun v r0 start r1 stride r2 h1 h2 h3 => (hn v r0 start r1 stride r2 h1 h2 h3).2))

/-! ### 4. the generic layout (the fallback of the paginated decoder), and the three layouts in one statement -/

/-- a call of the generic decoder that keeps `Sim`: int32 index, a finite count is `≥ 0` -/
def GoodCall : GenDecodeWrap.Call → Prop
  | (i, some c) => Idx32 i ∧ ∀ w, c = .fin w → 0 ≤ w
  | (i, none) => Idx32 i

theorem sim_step (x : GPS grow) (st : Store) (c : GenDecodeWrap.Call) (h : Sim x st) (hc : GoodCall c) :
    Sim (@GenDecodeWrap.applyCall (GPS grow) baseI x c) (GenDecodeWrap.applyCall st c) := by
  obtain ⟨i, oc⟩ := c
  cases oc with
  | some c => exact sim_addWithCount h i hc.1 c hc.2
  | none => exact sim_add h i hc

theorem gDecode_fallback (x : GPS grow) (b : List (BitVec 8)) (sub : SubFlag)
    (h1 : (sub == BinEncodingIndexDeltas) = false) (h2 : (sub == BinEncodingContiguousCounts) = false) :
    gDecode x b sub =
      match @Gen.StoreDecode.DecodeAndMergeWith (GPS grow) baseI (gDecodeFuel x b) ⟨x.g⟩ b sub with
      | .ok (y, b', e) => (y, b', e)
      | _ => (x, b, GoErr.nil) := by
  unfold gDecode
  rw [DecodeAndMergeWith_fallback _ _ _ _ _ _ h1 h2]
  cases @Gen.StoreDecode.DecodeAndMergeWith (GPS grow) baseI (gDecodeFuel x b) ⟨x.g⟩ b sub <;> rfl

theorem flagSub_subflag : ∀ k, k < 64 → Wire.flagSub (subflag k).byte.toNat = k := by decide

/-- **every other sub-flag** (layout `IndexDeltasAndCounts`, undefined layouts): the regenerated generic decoder over
    `baseI`.  `hnone`: the model does not panic on the partner store. -/
theorem sim_decode_generic {x : GPS grow} {st : Store} (h : Sim x st) (b : List (BitVec 8)) (k : Nat) (hk : k < 64)
    (h1 : k ≠ Consts.binEncodingIndexDeltas) (h2 : k ≠ Consts.binEncodingContiguousCounts)
    (hP : ∀ l b' e, GenDecodeWrap.decodeCalls (gDecodeFuel x b) b (subflag k) = .ok (l, b', e) →
      ∀ c ∈ l.calls, GoodCall c)
    (hw : NoWrap k (nb b)) (hnone : Sketch.decodeStore st k (nb b) ≠ none) :
    StepRel x st b (subflag k) := by
  obtain ⟨_, e2, e3⟩ := GenStoreDecode.subflag_beq k hk
  have hG := gDecode_fallback x b (subflag k) (by rw [e2]; simpa using h1) (by rw [e3]; simpa using h2)
  have hf : b.length + 9 ≤ gDecodeFuel x b := by unfold gDecodeFuel; omega
  have hM : (StoreI.DecodeAndMergeWith st b (subflag k) : Store × List (BitVec 8) × GoErr) =
      match Sketch.decodeStore st k (nb b) with
      | some (.ok (st', rest)) => (st', bn rest, GoErr.nil)
      | some (.error e) => (st, b, GenSketch.decErr e)
      | none => (st, b, GoErr.nil) := by
    show GenSketch.storeDecode st b (subflag k) = _
    unfold GenSketch.storeDecode
    rw [flagSub_subflag k hk]; rfl
  unfold StepRel
  rw [gps_decode, hG, hM]
  cases hm : Sketch.decodeStore st k (nb b) with
  | none => exact absurd hm hnone
  | some q =>
    cases q with
    | error e =>
      rcases @GenDecodeWrap.decode_model_error (GPS grow) baseI Sim GoodCall sim_step x st h k hk b e
        (gDecodeFuel x b) hf hP hm with ⟨_, he, x', b', hr⟩ | ⟨_, he, hr⟩
      · rw [show (⟨x.g⟩ : GPS grow) = x from rfl, hr, he]
        exact ⟨rfl, fun h => absurd (show GoErr.eof = GoErr.nil from h) (by decide)⟩
      · rw [show (⟨x.g⟩ : GPS grow) = x from rfl, hr, he]
        exact ⟨rfl, fun h => absurd (show GoErr.named "unknown bin encoding" = GoErr.nil from h) (by decide)⟩
    | ok p =>
      obtain ⟨st', rest⟩ := p
      obtain ⟨x', hs, hr⟩ := @GenDecodeWrap.decode_model_ok (GPS grow) baseI Sim GoodCall sim_step x st st' h k b
        rest (gDecodeFuel x b) hf hw hP hm
      rw [show (⟨x.g⟩ : GPS grow) = x from rfl, hr]
      exact ⟨rfl, fun _ => ⟨rfl, hs⟩⟩

/-- the side conditions of one store block, by layout -/
def DecodeOK (x : GPS grow) (b : List (BitVec 8)) (sub : SubFlag) : Prop :=
  (sub = BinEncodingIndexDeltas ∧ CapOK x.g ∧
    (∀ v rest, decUvarint64 (nb b) = .ok (v, rest) → v < 2 ^ 63) ∧
    (∀ u ∈ storeIndexes Consts.binEncodingIndexDeltas (nb b), Idx32 u)) ∨
  (sub = BinEncodingContiguousCounts ∧
    ∀ v r0 start r1 stride r2, decUvarint64 (nb b) = .ok (v, r0) → decVarint64 r0 = .ok (start, r1) →
      decVarint64 r1 = .ok (stride, r2) →
      2 * v ≤ 3 * b.length + 51 ∧ (∀ j : Nat, j < v → Idx32 (start + (j : Int) * stride)) ∧
        (∀ c ∈ ccCounts v r2, NonnegFin c)) ∨
  (∃ k, k < 64 ∧ sub = subflag k ∧ k ≠ Consts.binEncodingIndexDeltas ∧ k ≠ Consts.binEncodingContiguousCounts ∧
    (∀ l b' e, GenDecodeWrap.decodeCalls (gDecodeFuel x b) b (subflag k) = .ok (l, b', e) →
      ∀ c ∈ l.calls, GoodCall c) ∧
    NoWrap k (nb b) ∧ ∀ s', Sketch.decodeStore (.pg s') k (nb b) ≠ none)

/-- **`StoreI.DecodeAndMergeWith` of the `GPS` instance on a `Sim` pair** -/
theorem sim_decode {x : GPS grow} {st : Store} (h : Sim x st) (b : List (BitVec 8)) (sub : SubFlag)
    (hok : DecodeOK x b sub) : StepRel x st b sub := by
  rcases hok with ⟨rfl, h1, h2, h3⟩ | ⟨rfl, h1⟩ | ⟨k, hk, rfl, h1, h2, h3, h4, h5⟩
  · exact sim_decode_deltas h b h1 h2 h3
  · exact sim_decode_contiguous h b h1
  · obtain ⟨p, rfl, _⟩ := sim_model_pg h
    exact sim_decode_generic h b k hk h1 h2 h3 h4 (h5 p)

/-! ### 3. the regenerated sketch decoder over the two store instances -/

section sketchDecode

open DDS.Gen.Sketch

variable {M : Type} [MapI M] [Inhabited M]

/-- the side conditions `OK` hold at every store block the decoder loop meets when run over the regenerated stores
    (by recursion on the fuel, following that run; nothing is asked where the loop stops) -/
def GoodRun (OK : GPS grow → List (BitVec 8) → SubFlag → Prop)
    (fb : List (BitVec 8) → Flag → Res (List (BitVec 8) × GoErr)) :
    Nat → List (BitVec 8) → DDSketch M (GPS grow) → Prop
  | 0, _, _ => True
  | fuel + 1, b, s =>
    ∀ b1 flag, DecodeFlag fuel b = .ok (b1, flag, GoErr.nil) →
      if (Flag.Type flag == FlagTypePositiveStore) then
        OK s.positiveValueStore b1 (Flag.SubFlag flag) ∧
        ∀ t b2, (StoreI.DecodeAndMergeWith s.positiveValueStore b1 (Flag.SubFlag flag) :
            GPS grow × List (BitVec 8) × GoErr) = (t, b2, GoErr.nil) →
          GoodRun OK fb fuel b2 { s with positiveValueStore := t }
      else if (Flag.Type flag == FlagTypeNegativeStore) then
        OK s.negativeValueStore b1 (Flag.SubFlag flag) ∧
        ∀ t b2, (StoreI.DecodeAndMergeWith s.negativeValueStore b1 (Flag.SubFlag flag) :
            GPS grow × List (BitVec 8) × GoErr) = (t, b2, GoErr.nil) →
          GoodRun OK fb fuel b2 { s with negativeValueStore := t }
      else if (Flag.Type flag == FlagTypeIndexMapping) then
        ∀ b2 m, MapI.Decode (M := M) b1 flag = (b2, m, GoErr.nil) →
          GoodRun OK fb fuel b2 { s with IndexMapping := m }
      else if (flag == FlagZeroCountVarFloat) then
        ∀ b2 z, DecodeVarfloat64 fuel b1 = .ok (b2, z, GoErr.nil) →
          GoodRun OK fb fuel b2 { s with zeroCount := F64.add s.zeroCount z }
      else
        ∀ b2, fb b1 flag = .ok (b2, GoErr.nil) → GoodRun OK fb fuel b2 s

/-- two runs of the decoder loop agree -/
def LoopRel (l : Loop (List (BitVec 8) × DDSketch M (GPS grow)) (DDSketch M (GPS grow) × GoErr))
    (l' : Loop (List (BitVec 8) × DDSketch M Store) (DDSketch M Store × GoErr)) : Prop :=
  match l, l' with
  | .done p, .done p' => p.1 = p'.1 ∧ SkSim p.2 p'.2
  | .ret p, .ret p' => p.2 = p'.2 ∧ p.2 ≠ GoErr.nil
  | .panic, .panic => True
  | .nofuel, .nofuel => True
  | _, _ => False

theorem ne_nil_of_bne {e : GoErr} (h : (e != GoErr.nil) = true) : e ≠ GoErr.nil := by simpa using h
theorem eq_nil_of_not_bne {e : GoErr} (h : ¬ (e != GoErr.nil) = true) : e = GoErr.nil := by simpa using h

/-- **the decoder loop, parametricity**: on `SkSim`-related sketches, when every store block met satisfies the side
    conditions `OK` (which give `StepRel`), the loop over the regenerated paginated stores and the loop over the
    model stores end alike -/
theorem loop1_param (OK : GPS grow → List (BitVec 8) → SubFlag → Prop)
    (hOK : ∀ x st b sub, Sim x st → OK x b sub → StepRel x st b sub)
    (fb : List (BitVec 8) → Flag → Res (List (BitVec 8) × GoErr)) :
    ∀ (fuel : Nat) (b : List (BitVec 8)) (a : DDSketch M (GPS grow)) (a' : DDSketch M Store),
      SkSim a a' → GoodRun OK fb fuel b a →
      LoopRel (DDSketch.decodeAndMergeWith.loop1 fb fuel b a) (DDSketch.decodeAndMergeWith.loop1 fb fuel b a') := by
  intro fuel
  induction fuel with
  | zero => intro b a a' _ _; exact trivial
  | succ fuel ih =>
    intro b a a' h hg
    unfold DDSketch.decodeAndMergeWith.loop1
    by_cases h0 : decide ((0 : Int) < GoSem.len b) = true
    · simp only [h0, if_true]
      cases hF : DecodeFlag fuel b with
      | panic => exact trivial
      | nofuel => exact trivial
      | ok p =>
        obtain ⟨b1, flag, err⟩ := p
        simp only [Res.bindL_ok]
        by_cases he : (err != GoErr.nil) = true
        · simp only [he, if_true]
          exact ⟨rfl, ne_nil_of_bne he⟩
        · simp only [he, Bool.false_eq_true, if_false]
          have hen := eq_nil_of_not_bne he
          subst hen
          have hg' := hg b1 flag hF
          by_cases hp : (Flag.Type flag == FlagTypePositiveStore) = true
          · simp only [hp, if_true] at hg' ⊢
            obtain ⟨hok, hnext⟩ := hg'
            obtain ⟨e1, e2⟩ := hOK _ _ b1 _ h.pos hok
            generalize (StoreI.DecodeAndMergeWith a.positiveValueStore b1 (Flag.SubFlag flag) :
              GPS grow × List (BitVec 8) × GoErr) = ra at e1 e2 hnext
            generalize (StoreI.DecodeAndMergeWith a'.positiveValueStore b1 (Flag.SubFlag flag) :
              Store × List (BitVec 8) × GoErr) = rb at e1 e2
            obtain ⟨t, b2, e⟩ := ra
            obtain ⟨t', b2', e'⟩ := rb
            simp only at e1 e2
            subst e1
            by_cases he2 : (e != GoErr.nil) = true
            · simp only [he2, if_true]
              exact ⟨rfl, ne_nil_of_bne he2⟩
            · simp only [he2, Bool.false_eq_true, if_false]
              have hen := eq_nil_of_not_bne he2
              subst hen
              obtain ⟨e3, e4⟩ := e2 rfl
              subst e3
              exact ih b2 _ _ ⟨h.map, e4, h.neg, h.zero⟩ (hnext t b2 rfl)
          · simp only [hp, Bool.false_eq_true, if_false] at hg' ⊢
            by_cases hq : (Flag.Type flag == FlagTypeNegativeStore) = true
            · simp only [hq, if_true] at hg' ⊢
              obtain ⟨hok, hnext⟩ := hg'
              obtain ⟨e1, e2⟩ := hOK _ _ b1 _ h.neg hok
              generalize (StoreI.DecodeAndMergeWith a.negativeValueStore b1 (Flag.SubFlag flag) :
                GPS grow × List (BitVec 8) × GoErr) = ra at e1 e2 hnext
              generalize (StoreI.DecodeAndMergeWith a'.negativeValueStore b1 (Flag.SubFlag flag) :
                Store × List (BitVec 8) × GoErr) = rb at e1 e2
              obtain ⟨t, b2, e⟩ := ra
              obtain ⟨t', b2', e'⟩ := rb
              simp only at e1 e2
              subst e1
              by_cases he2 : (e != GoErr.nil) = true
              · simp only [he2, if_true]
                exact ⟨rfl, ne_nil_of_bne he2⟩
              · simp only [he2, Bool.false_eq_true, if_false]
                have hen := eq_nil_of_not_bne he2
                subst hen
                obtain ⟨e3, e4⟩ := e2 rfl
                subst e3
                exact ih b2 _ _ ⟨h.map, h.pos, e4, h.zero⟩ (hnext t b2 rfl)
            · simp only [hq, Bool.false_eq_true, if_false] at hg' ⊢
              by_cases hm : (Flag.Type flag == FlagTypeIndexMapping) = true
              · simp only [hm, if_true] at hg' ⊢
                generalize (MapI.Decode (M := M) b1 flag) = rm at hg'
                obtain ⟨b2, m, e⟩ := rm
                simp only
                by_cases he2 : (e != GoErr.nil) = true
                · simp only [he2, if_true]
                  exact ⟨rfl, ne_nil_of_bne he2⟩
                · simp only [he2, Bool.false_eq_true, if_false]
                  have hen := eq_nil_of_not_bne he2
                  subst hen
                  rw [h.map]
                  by_cases hmm : ((!(MapI.isNil a'.IndexMapping)) && (!(MapI.Equals a'.IndexMapping m))) = true
                  · simp only [hmm, if_true]
                    exact ⟨rfl, show GoErr.named "index mapping mismatch" ≠ GoErr.nil by decide⟩
                  · simp only [hmm, Bool.false_eq_true, if_false]
                    exact ih b2 _ _ ⟨rfl, h.pos, h.neg, h.zero⟩ (hg' b2 m rfl)
              · simp only [hm, Bool.false_eq_true, if_false] at hg' ⊢
                by_cases hz : (flag == FlagZeroCountVarFloat) = true
                · simp only [hz, if_true] at hg' ⊢
                  cases hV : DecodeVarfloat64 fuel b1 with
                  | panic => exact trivial
                  | nofuel => exact trivial
                  | ok p =>
                    obtain ⟨b2, z, e⟩ := p
                    simp only [Res.bindL_ok]
                    by_cases he2 : (e != GoErr.nil) = true
                    · simp only [he2, if_true]
                      exact ⟨rfl, ne_nil_of_bne he2⟩
                    · simp only [he2, Bool.false_eq_true, if_false]
                      have hen := eq_nil_of_not_bne he2
                      subst hen
                      refine ih b2 _ _ ⟨h.map, h.pos, h.neg, ?_⟩ (hg' b2 z hV)
                      show F64.add a.zeroCount z = F64.add a'.zeroCount z
                      rw [h.zero]
                · simp only [hz, Bool.false_eq_true, if_false] at hg' ⊢
                  cases hB : fb b1 flag with
                  | panic => exact trivial
                  | nofuel => exact trivial
                  | ok p =>
                    obtain ⟨b2, e⟩ := p
                    simp only [Res.bindL_ok]
                    by_cases he2 : (e != GoErr.nil) = true
                    · simp only [he2, if_true]
                      exact ⟨rfl, ne_nil_of_bne he2⟩
                    · simp only [he2, Bool.false_eq_true, if_false]
                      have hen := eq_nil_of_not_bne he2
                      subst hen
                      exact ih b2 _ _ h (hg' b2 hB)
    · simp only [h0, Bool.false_eq_true, if_false]
      exact ⟨rfl, h⟩

/-- two results of a sketch-level decode agree: the same error; when nil, related sketches -/
def SkResRel (r : Res (DDSketch M (GPS grow) × GoErr)) (r' : Res (DDSketch M Store × GoErr)) : Prop :=
  match r, r' with
  | .ok p, .ok p' => p.2 = p'.2 ∧ (p'.2 = GoErr.nil → SkSim p.1 p'.1)
  | .panic, .panic => True
  | .nofuel, .nofuel => True
  | _, _ => False

/-- `DDSketch.decodeAndMergeWith` (the loop, then the "missing index mapping" test) over the two instances -/
theorem decodeAndMergeWith_param (OK : GPS grow → List (BitVec 8) → SubFlag → Prop)
    (hOK : ∀ x st b sub, Sim x st → OK x b sub → StepRel x st b sub)
    (fb : List (BitVec 8) → Flag → Res (List (BitVec 8) × GoErr))
    (fuel : Nat) (b : List (BitVec 8)) {a : DDSketch M (GPS grow)} {a' : DDSketch M Store}
    (h : SkSim a a') (hg : GoodRun OK fb fuel b a) :
    SkResRel (DDSketch.decodeAndMergeWith fuel a b fb) (DDSketch.decodeAndMergeWith fuel a' b fb) := by
  have hL := loop1_param OK hOK fb fuel b a a' h hg
  unfold DDSketch.decodeAndMergeWith
  dsimp only
  generalize DDSketch.decodeAndMergeWith.loop1 fb fuel b a = l at hL
  generalize DDSketch.decodeAndMergeWith.loop1 fb fuel b a' = l' at hL
  cases l with
  | done p =>
    cases l' with
    | done p' =>
      obtain ⟨b1, s1⟩ := p
      obtain ⟨b1', s1'⟩ := p'
      obtain ⟨_, hs⟩ := hL
      simp only [Loop.elim_done]
      rw [show s1.IndexMapping = s1'.IndexMapping from hs.map]
      by_cases hn : MapI.isNil s1'.IndexMapping = true
      · simp only [hn, if_true]
        exact ⟨rfl, fun h => absurd (show GoErr.named "missing index mapping" = GoErr.nil from h) (by decide)⟩
      · simp only [hn, Bool.false_eq_true, if_false]
        exact ⟨rfl, fun _ => hs⟩
    | ret _ => exact hL.elim
    | panic => exact hL.elim
    | nofuel => exact hL.elim
  | ret p =>
    cases l' with
    | ret p' =>
      obtain ⟨h1, h2⟩ := hL
      simp only [Loop.elim_ret]
      exact ⟨h1, fun h => absurd (h1.trans h) h2⟩
    | done _ => exact hL.elim
    | panic => exact hL.elim
    | nofuel => exact hL.elim
  | panic =>
    cases l' with
    | panic => exact trivial
    | done _ => exact hL.elim
    | ret _ => exact hL.elim
    | nofuel => exact hL.elim
  | nofuel =>
    cases l' with
    | nofuel => exact trivial
    | done _ => exact hL.elim
    | ret _ => exact hL.elim
    | panic => exact hL.elim

/-- the fallback of the plain decoder (exact-summary flags are skipped) does not depend on the store type -/
theorem lit1_eq (fuel : Nat) :
    DDSketch.DecodeAndMergeWith.lit1 (M := M) (S := GPS grow) fuel =
      DDSketch.DecodeAndMergeWith.lit1 (M := M) (S := Store) fuel := rfl

omit [MapI M] [Inhabited M] in
theorem skResRel_bind {r : Res (DDSketch M (GPS grow) × GoErr)} {r' : Res (DDSketch M Store × GoErr)}
    (h : SkResRel r r') :
    SkResRel (Res.bind r (fun p => .ok (p.1, p.2))) (Res.bind r' (fun p => .ok (p.1, p.2))) := by
  cases r <;> cases r' <;> exact h

/-- **`DDSketch.DecodeAndMergeWith` over the two store instances**: the same error; when nil, related sketches -/
theorem DecodeAndMergeWith_param (OK : GPS grow → List (BitVec 8) → SubFlag → Prop)
    (hOK : ∀ x st b sub, Sim x st → OK x b sub → StepRel x st b sub)
    (fuel : Nat) (b : List (BitVec 8)) {a : DDSketch M (GPS grow)} {a' : DDSketch M Store}
    (h : SkSim a a')
    (hg : GoodRun OK (DDSketch.DecodeAndMergeWith.lit1 (M := M) (S := Store) fuel) fuel b a) :
    SkResRel (DDSketch.DecodeAndMergeWith fuel a b) (DDSketch.DecodeAndMergeWith fuel a' b) := by
  unfold DDSketch.DecodeAndMergeWith
  rw [lit1_eq]
  exact skResRel_bind (decodeAndMergeWith_param OK hOK _ fuel b h hg)

/-- **`DecodeDDSketch` with the provider `NewBufferedPaginatedStore`** over the two store instances -/
theorem DecodeDDSketch_param (OK : GPS grow → List (BitVec 8) → SubFlag → Prop)
    (hOK : ∀ x st b sub, Sim x st → OK x b sub → StepRel x st b sub)
    (fuel : Nat) (b : List (BitVec 8)) (m : M)
    (hg : GoodRun OK (DDSketch.DecodeAndMergeWith.lit1 (M := M) (S := Store) fuel) fuel b
      (NewDDSketch m (⟨NewBufferedPaginatedStore⟩ : GPS grow) ⟨NewBufferedPaginatedStore⟩)) :
    SkResRel
      (Gen.SketchIter.DecodeDDSketch fuel b (fun _ => .ok (⟨NewBufferedPaginatedStore⟩ : GPS grow)) m)
      (Gen.SketchIter.DecodeDDSketch fuel b (fun _ => .ok (Store.new .pag)) m) := by
  unfold Gen.SketchIter.DecodeDDSketch
  simp only [Res.bind_ok]
  exact skResRel_bind (DecodeAndMergeWith_param OK hOK fuel b (skSim_new m) hg)

end sketchDecode

end DDS.GenPagSketch
