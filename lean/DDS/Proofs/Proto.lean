/-
  DDS.Proofs.Proto — lemmas about the protobuf forms of `DDS.Model.Proto`: wire primitives,
  the field reader, and the three message parsers run on the output of the streaming writer.

  Proof style (see `DDS.Proofs.Wire`): a decoder is never unfolded on a concrete encoder output.
  Round trips of the loops are proved by induction on the fuel with opaque arguments; every step
  lemma takes the result of the sub-decoder as a hypothesis on an OPAQUE byte list.
-/
import DDS.Model.Proto
import DDS.Proofs.Codec
import DDS.Proofs.Bins
import DDS.Proofs.Num
import DDS.Proofs.MapId

namespace DDS
namespace Proto
open Codec

/-! ### varint -/

theorem pbVarint_ne_nil (f v : Nat) : pbVarint f v ≠ [] := by
  cases f with
  | zero => simp [pbVarint]
  | succ f => unfold pbVarint; split <;> simp

theorem pbVarint_length_le (f v : Nat) : (pbVarint f v).length ≤ f + 1 := by
  induction f generalizing v with
  | zero => simp [pbVarint]
  | succ f ih =>
    unfold pbVarint; split
    · simp
    · have := ih (v / 128); simp; omega

/-- round trip of the varint loops for any fuels, starting shift and accumulator -/
theorem readVarint_pbVarint (f g v shift acc : Nat) (rest : Bytes) (hv : v < 2 ^ (7 * f + 7))
    (hg : f < g) :
    readVarint g shift acc (pbVarint f v ++ rest) = .ok (acc + v * 2 ^ shift, rest) := by
  induction f generalizing g v shift acc with
  | zero =>
    have hv' : v < 128 := by simpa using hv
    have : v % 128 = v := Nat.mod_eq_of_lt hv'
    obtain ⟨g', rfl⟩ : ∃ g', g = g' + 1 := ⟨g - 1, by omega⟩
    simp [pbVarint, readVarint, this, hv']
  | succ f ih =>
    obtain ⟨g', rfl⟩ : ∃ g', g = g' + 1 := ⟨g - 1, by omega⟩
    unfold pbVarint
    split
    · rename_i h; simp [readVarint, h]
    · rename_i h
      have hp : 2 ^ (7 * (f + 1) + 7) = 128 * 2 ^ (7 * f + 7) := by
        rw [show 7 * (f + 1) + 7 = 7 + (7 * f + 7) by omega, Nat.pow_add]
      have hq : v / 128 < 2 ^ (7 * f + 7) := by
        rw [hp] at hv; omega
      have hn : ¬ (v % 128 + 128 < 128) := by omega
      simp only [List.cons_append, readVarint, hn, if_false]
      rw [ih g' (v / 128) (shift + 7) _ hq (by omega)]
      have hm : (v % 128 + 128) % 128 = v % 128 := by omega
      have hs : 2 ^ (shift + 7) = 128 * 2 ^ shift := by rw [Nat.pow_add, Nat.mul_comm]
      rw [hm, hs]
      have hd : v = 128 * (v / 128) + v % 128 := (Nat.div_add_mod v 128).symm
      generalize v / 128 = q at *
      generalize v % 128 = r at *
      generalize 2 ^ shift = S at *
      subst hd
      have he : acc + r * S + q * (128 * S) = acc + (128 * q + r) * S := by
        rw [Nat.add_mul, Nat.mul_assoc, Nat.add_assoc, Nat.add_comm (r * S), Nat.mul_left_comm]
      rw [he]

theorem rdVarint_of_ok (bs : Bytes) (x : Nat) (rest : Bytes)
    (h : readVarint 10 0 0 bs = .ok (x, rest)) : rdVarint bs = .ok (x % 2 ^ 64, rest) := by
  unfold rdVarint
  rw [h]; rfl

theorem varint_ne_nil (v : Nat) : varint v ≠ [] := pbVarint_ne_nil 9 v

theorem varint_length_le (v : Nat) : (varint v).length ≤ 10 := pbVarint_length_le 9 v

theorem rdVarint_varint (v : Nat) (hv : v < 2 ^ 64) (rest : Bytes) :
    rdVarint (varint v ++ rest) = .ok (v, rest) := by
  have h := readVarint_pbVarint 9 10 v 0 0 rest (Nat.lt_of_lt_of_le hv (by decide)) (by decide)
  have := rdVarint_of_ok _ _ _ h
  rw [Nat.zero_add, Nat.pow_zero, Nat.mul_one, Nat.mod_eq_of_lt hv] at this
  exact this

/-! ### lengths, fixed64, length-delimited payloads -/

theorem hasLen_eq (bs : Bytes) (n : Nat) : hasLen bs n = decide (n ≤ bs.length) := by
  unfold hasLen
  cases n with
  | zero => simp
  | succ n =>
    simp only [Nat.add_sub_cancel, Nat.succ_ne_zero, decide_false, Bool.false_or]
    by_cases h : n + 1 ≤ bs.length
    · have : bs.drop n ≠ [] := by
        intro hc
        have := congrArg List.length hc
        simp at this; omega
      cases hd : bs.drop n with
      | nil => exact absurd hd this
      | cons a t => simp [h]
    · have : bs.drop n = [] := List.drop_eq_nil_of_le (by omega)
      simp [this, h]

theorem hasLen_append (a rest : Bytes) : hasLen (a ++ rest) a.length = true := by
  rw [hasLen_eq]; simp

theorem fixed64_length (b : Nat) : (fixed64 b).length = 8 := encF64LE_length b

theorem fixed64_ne_nil (b : Nat) : fixed64 b ≠ [] := by
  intro h; have := congrArg List.length h; rw [fixed64_length] at this; simp at this

theorem rdFixed64_fixed64 (b : Nat) (hb : b < 2 ^ 64) (rest : Bytes) :
    rdFixed64 (fixed64 b ++ rest) = .ok (b, rest) := by
  have hl := fixed64_length b
  have h1 : hasLen (fixed64 b ++ rest) 8 = true := by rw [← hl]; exact hasLen_append _ _
  have h2 : (fixed64 b ++ rest).take 8 = fixed64 b := by rw [← hl]; exact List.take_left
  have h3 : (fixed64 b ++ rest).drop 8 = rest := by rw [← hl]; exact List.drop_left
  generalize hbs : fixed64 b ++ rest = bs at *
  unfold rdFixed64
  rw [h1, h2, h3]
  have : leValue (fixed64 b) = b := leValue_encF64LE b hb
  rw [this]; rfl

theorem rdBytes_of (bs rest payload tail : Bytes) (n : Nat)
    (h : rdVarint bs = .ok (n, rest)) (hr : rest = payload ++ tail) (hn : payload.length = n) :
    rdBytes bs = .ok (payload, tail) := by
  have h1 : hasLen rest n = true := by rw [hr, ← hn]; exact hasLen_append _ _
  have h2 : rest.take n = payload := by rw [hr, ← hn]; exact List.take_left
  have h3 : rest.drop n = tail := by rw [hr, ← hn]; exact List.drop_left
  unfold rdBytes
  rw [h]
  show (if !hasLen rest n then _ else _) = _
  rw [h1, h2, h3]; rfl

/-! ### one field -/

theorem rdField_varint_of (bs rest r : Bytes) (tag v : Nat) (h : rdVarint bs = .ok (tag, rest))
    (ht : tag % 8 = 0) (h2 : rdVarint rest = .ok (v, r)) :
    rdField bs = .ok (.varint (tag / 8) v, r) := by
  unfold rdField
  rw [h]
  show (match tag % 8 with | 0 => _ | 1 => _ | 2 => _ | 5 => _ | _ => _) = _
  rw [ht]
  show (rdVarint rest >>= _) = _
  rw [h2]; rfl

theorem rdField_fixed64_of (bs rest r : Bytes) (tag v : Nat) (h : rdVarint bs = .ok (tag, rest))
    (ht : tag % 8 = 1) (h2 : rdFixed64 rest = .ok (v, r)) :
    rdField bs = .ok (.fixed64 (tag / 8) v, r) := by
  unfold rdField
  rw [h]
  show (match tag % 8 with | 0 => _ | 1 => _ | 2 => _ | 5 => _ | _ => _) = _
  rw [ht]
  show (rdFixed64 rest >>= _) = _
  rw [h2]; rfl

theorem rdField_bytes_of (bs rest r : Bytes) (tag : Nat) (v : Bytes)
    (h : rdVarint bs = .ok (tag, rest))
    (ht : tag % 8 = 2) (h2 : rdBytes rest = .ok (v, r)) :
    rdField bs = .ok (.bytes (tag / 8) v, r) := by
  unfold rdField
  rw [h]
  show (match tag % 8 with | 0 => _ | 1 => _ | 2 => _ | 5 => _ | _ => _) = _
  rw [ht]
  show (rdBytes rest >>= _) = _
  rw [h2]; rfl

/-- "`e` is the encoding of the field `f`": non-empty, and read back with any tail untouched -/
structure FieldEnc (e : Bytes) (f : Field) : Prop where
  ne : e ≠ []
  rd : ∀ rest, rdField (e ++ rest) = .ok (f, rest)

theorem fieldEnc_varint (tag v : Nat) (ht : tag < 2 ^ 64) (ht0 : tag % 8 = 0) (hv : v < 2 ^ 64) :
    FieldEnc (varint tag ++ varint v) (.varint (tag / 8) v) := by
  refine ⟨by simp [varint_ne_nil], fun rest => ?_⟩
  rw [List.append_assoc]
  exact rdField_varint_of _ _ _ _ _ (rdVarint_varint tag ht _) ht0 (rdVarint_varint v hv rest)

theorem fieldEnc_fixed64 (tag v : Nat) (ht : tag < 2 ^ 64) (ht1 : tag % 8 = 1) (hv : v < 2 ^ 64) :
    FieldEnc (varint tag ++ fixed64 v) (.fixed64 (tag / 8) v) := by
  refine ⟨by simp [varint_ne_nil], fun rest => ?_⟩
  rw [List.append_assoc]
  exact rdField_fixed64_of _ _ _ _ _ (rdVarint_varint tag ht _) ht1 (rdFixed64_fixed64 v hv rest)

theorem fieldEnc_lenDelim (tag : Nat) (payload : Bytes) (ht : tag < 2 ^ 64) (ht2 : tag % 8 = 2)
    (hl : payload.length < 2 ^ 64) :
    FieldEnc (lenDelim tag payload) (.bytes (tag / 8) payload) := by
  refine ⟨by simp [lenDelim, varint_ne_nil], fun rest => ?_⟩
  unfold lenDelim
  rw [List.append_assoc, List.append_assoc]
  refine rdField_bytes_of _ _ _ _ _ (rdVarint_varint tag ht _) ht2 ?_
  exact rdBytes_of _ _ payload rest _ (rdVarint_varint _ hl _) rfl rfl

/-! ### a sequence of fields -/

theorem rdFields_nil (fuel : Nat) : rdFields fuel [] = .ok [] := by cases fuel <;> rfl

theorem rdFields_step (fuel : Nat) (bs rest : Bytes) (f : Field) (hne : bs ≠ [])
    (h : rdField bs = .ok (f, rest)) :
    rdFields (fuel + 1) bs = (rdFields fuel rest).map (fun more => f :: more) := by
  cases bs with
  | nil => exact absurd rfl hne
  | cons x xs =>
    simp only [rdFields]
    rw [h]
    show (rdFields fuel rest >>= fun more => pure (f :: more)) = _
    cases rdFields fuel rest <;> rfl

/-- the encodings of a list of fields, one after the other -/
def encAll (l : List (Bytes × Field)) : Bytes := (l.map (·.1)).flatten

@[simp] theorem encAll_nil : encAll [] = [] := rfl
@[simp] theorem encAll_cons (p : Bytes × Field) (l : List (Bytes × Field)) :
    encAll (p :: l) = p.1 ++ encAll l := rfl

theorem encAll_append (a b : List (Bytes × Field)) : encAll (a ++ b) = encAll a ++ encAll b := by
  simp [encAll]

theorem length_le_encAll (l : List (Bytes × Field)) (h : ∀ p ∈ l, FieldEnc p.1 p.2) :
    l.length ≤ (encAll l).length := by
  induction l with
  | nil => simp
  | cons p l ih =>
    have hp := (h p (by simp)).ne
    have : 1 ≤ p.1.length := by
      cases hpl : p.1 with
      | nil => exact absurd hpl hp
      | cons a t => simp
    have := ih (fun q hq => h q (by simp [hq]))
    simp only [encAll_cons, List.length_cons, List.length_append]
    omega

theorem rdFields_encAll (l : List (Bytes × Field)) (h : ∀ p ∈ l, FieldEnc p.1 p.2) (fuel : Nat)
    (hf : l.length ≤ fuel) : rdFields fuel (encAll l) = .ok (l.map (·.2)) := by
  induction l generalizing fuel with
  | nil => exact rdFields_nil fuel
  | cons p l ih =>
    obtain ⟨fuel', rfl⟩ : ∃ f', fuel = f' + 1 := ⟨fuel - 1, by simp at hf; omega⟩
    have hp := h p (by simp)
    have hne : p.1 ++ encAll l ≠ [] := by simp [hp.ne]
    rw [encAll_cons, rdFields_step fuel' _ _ _ hne (hp.rd _),
      ih (fun q hq => h q (by simp [hq])) fuel' (by simp at hf; omega)]
    rfl

theorem fields_encAll (l : List (Bytes × Field)) (h : ∀ p ∈ l, FieldEnc p.1 p.2) :
    fields (encAll l) = .ok (l.map (·.2)) := by
  unfold fields
  exact rdFields_encAll l h _ (by have := length_le_encAll l h; omega)

/-! ### sint32 -/

/-- the int32 range -/
def I32 (k : Int) : Prop := -(2:Int)^31 ≤ k ∧ k < (2:Int)^31

instance (k : Int) : Decidable (I32 k) := by unfold I32; infer_instance

theorem unzz32_pbZigzag (k : Int) (hk : I32 k) : unzz32 (pbZigzag k) = k := by
  unfold unzz32 pbZigzag
  rw [unzigzag_zigzag']
  obtain ⟨h1, h2⟩ := hk
  simp only
  have e31 : (2:Int)^31 = 2147483648 := by decide
  have e32 : (2:Int)^32 = 4294967296 := by decide
  rw [e31] at h1 h2
  rw [e31, e32]
  split <;> omega

theorem pbZigzag_lt (k : Int) (hk : I32 k) : pbZigzag k < 2 ^ 64 := by
  obtain ⟨h1, h2⟩ := hk
  have e31 : (2:Int)^31 = 2147483648 := by decide
  rw [e31] at h1 h2
  exact zigzag_lt k (by have : (2:Int)^63 = 9223372036854775808 := by decide
                        omega) (by have : (2:Int)^63 = 9223372036854775808 := by decide
                                   omega)

/-! ### `IndexMapping` -/

def mappingStep (m : PbMapping) (f : Field) : PbMapping :=
  match f with
  | .fixed64 1 v => { m with gamma := v }
  | .fixed64 2 v => { m with indexOffset := v }
  | .varint 3 v => { m with interpolation := v }
  | _ => m

theorem parseMapping_of_fields (cur : PbMapping) (bs : Bytes) (fs : List Field)
    (h : fields bs = .ok fs) : parseMapping cur bs = .ok (fs.foldl mappingStep cur) := by
  unfold parseMapping
  rw [h]; rfl

theorem f64bits_lt (x : F64) : f64bits x < 2 ^ 64 := x.toBits.toNat_lt
theorem ratBits_lt (w : Rat) : ratBits w < 2 ^ 64 := (F64.toBits (.fin w)).toNat_lt

theorem parseMapping_streamMapping (m : MapId) :
    parseMapping {} (streamMapping m) = .ok (mappingToProto m) := by
  obtain ⟨k, g, o⟩ := m
  have hg : FieldEnc (varint 0x9 ++ fixed64 (f64bits g)) (.fixed64 1 (f64bits g)) :=
    fieldEnc_fixed64 0x9 _ (by decide) (by decide) (f64bits_lt g)
  have ho : FieldEnc (varint 0x11 ++ fixed64 (f64bits o)) (.fixed64 2 (f64bits o)) :=
    fieldEnc_fixed64 0x11 _ (by decide) (by decide) (f64bits_lt o)
  cases k with
  | log =>
    have e : streamMapping ⟨.log, g, o⟩ =
        encAll [(varint 0x9 ++ fixed64 (f64bits g), .fixed64 1 (f64bits g)),
                (varint 0x11 ++ fixed64 (f64bits o), .fixed64 2 (f64bits o))] := by
      simp [streamMapping, interpolationOf]
    rw [e, parseMapping_of_fields _ _ _ (fields_encAll _ (by
      intro p hp; simp at hp; rcases hp with rfl | rfl <;> assumption))]
    rfl
  | linear =>
    have hi : FieldEnc (varint 0x18 ++ varint 1) (.varint 3 1) :=
      fieldEnc_varint 0x18 1 (by decide) (by decide) (by decide)
    have e : streamMapping ⟨.linear, g, o⟩ =
        encAll [(varint 0x9 ++ fixed64 (f64bits g), .fixed64 1 (f64bits g)),
                (varint 0x11 ++ fixed64 (f64bits o), .fixed64 2 (f64bits o)),
                (varint 0x18 ++ varint 1, .varint 3 1)] := by
      simp [streamMapping, interpolationOf]
    rw [e, parseMapping_of_fields _ _ _ (fields_encAll _ (by
      intro p hp; simp at hp; rcases hp with rfl | rfl | rfl <;> assumption))]
    rfl
  | cubic =>
    have hi : FieldEnc (varint 0x18 ++ varint 3) (.varint 3 3) :=
      fieldEnc_varint 0x18 3 (by decide) (by decide) (by decide)
    have e : streamMapping ⟨.cubic, g, o⟩ =
        encAll [(varint 0x9 ++ fixed64 (f64bits g), .fixed64 1 (f64bits g)),
                (varint 0x11 ++ fixed64 (f64bits o), .fixed64 2 (f64bits o)),
                (varint 0x18 ++ varint 3, .varint 3 3)] := by
      simp [streamMapping, interpolationOf]
    rw [e, parseMapping_of_fields _ _ _ (fields_encAll _ (by
      intro p hp; simp at hp; rcases hp with rfl | rfl | rfl <;> assumption))]
    rfl

theorem streamMapping_length_le (m : MapId) : (streamMapping m).length ≤ 56 := by
  unfold streamMapping
  have h1 := varint_length_le 0x9
  have h2 := varint_length_le 0x11
  have h3 := varint_length_le 0x18
  have h4 := varint_length_le (interpolationOf m.kind)
  split <;> simp only [List.length_append, fixed64_length, List.length_nil] <;> omega

/-! ### one `binCounts` entry -/

def entryPayload (k : Int) (v : Nat) : Bytes :=
  varint 0x8 ++ varint (pbZigzag k) ++ varint 0x11 ++ fixed64 v

theorem streamEntry_eq (k : Int) (v : Nat) : streamEntry k v = lenDelim 0xa (entryPayload k v) := rfl

def entryStep (e : Int × Nat) (f : Field) : Int × Nat :=
  match f with
  | .varint 1 v => (unzz32 v, e.2)
  | .fixed64 2 v => (e.1, v)
  | _ => e

theorem parseEntry_of_fields (bs : Bytes) (fs : List Field) (h : fields bs = .ok fs) :
    parseEntry bs = .ok (fs.foldl entryStep (0, 0)) := by
  unfold parseEntry
  rw [h]; rfl

theorem parseEntry_entryPayload (k : Int) (v : Nat) (hk : I32 k) (hv : v < 2 ^ 64) :
    parseEntry (entryPayload k v) = .ok (k, v) := by
  have h1 : FieldEnc (varint 0x8 ++ varint (pbZigzag k)) (.varint 1 (pbZigzag k)) :=
    fieldEnc_varint 0x8 _ (by decide) (by decide) (pbZigzag_lt k hk)
  have h2 : FieldEnc (varint 0x11 ++ fixed64 v) (.fixed64 2 v) :=
    fieldEnc_fixed64 0x11 _ (by decide) (by decide) hv
  have e : entryPayload k v =
      encAll [(varint 0x8 ++ varint (pbZigzag k), .varint 1 (pbZigzag k)),
              (varint 0x11 ++ fixed64 v, .fixed64 2 v)] := by
    simp [entryPayload]
  rw [e, parseEntry_of_fields _ _ (fields_encAll _ (by
    intro p hp; simp at hp; rcases hp with rfl | rfl <;> assumption))]
  show Except.ok (unzz32 (pbZigzag k), v) = _
  rw [unzz32_pbZigzag k hk]

theorem entryPayload_length_le (k : Int) (v : Nat) : (entryPayload k v).length ≤ 38 := by
  unfold entryPayload
  have h1 := varint_length_le 0x8
  have h2 := varint_length_le (pbZigzag k)
  have h3 := varint_length_le 0x11
  simp only [List.length_append, fixed64_length]; omega

theorem fieldEnc_streamEntry (k : Int) (v : Nat) :
    FieldEnc (streamEntry k v) (.bytes 1 (entryPayload k v)) :=
  fieldEnc_lenDelim 0xa _ (by decide) (by decide)
    (Nat.lt_of_le_of_lt (entryPayload_length_le k v) (by decide))

/-! ### `Store` -/

def storeStep (s : PbStore) (f : Field) : Except PbErr PbStore :=
  match f with
  | .bytes 1 v => do
    let e ← parseEntry v
    pure { s with binCounts := s.binCounts ++ [e] }
  | .fixed64 2 v => pure { s with contiguous := s.contiguous ++ [v] }
  | .bytes 2 v => do
    let ds ← packedDoubles (v.length + 1) v
    pure { s with contiguous := s.contiguous ++ ds }
  | .varint 3 v => pure { s with contiguousOffset := unzz32 v }
  | _ => pure s

theorem parseStore_of_fields (cur : PbStore) (bs : Bytes) (fs : List Field)
    (h : fields bs = .ok fs) : parseStore cur bs = fs.foldlM storeStep cur := by
  unfold parseStore
  rw [h]; rfl

theorem foldlM_entries (l : List (Int × Nat)) (hl : ∀ p ∈ l, I32 p.1 ∧ p.2 < 2 ^ 64)
    (s : PbStore) :
    (l.map (fun p => Field.bytes 1 (entryPayload p.1 p.2))).foldlM storeStep s =
      .ok { s with binCounts := s.binCounts ++ l } := by
  induction l generalizing s with
  | nil => simp [pure, Except.pure]
  | cons p l ih =>
    obtain ⟨h1, h2⟩ := hl p (by simp)
    rw [List.map_cons, List.foldlM_cons]
    have : storeStep s (Field.bytes 1 (entryPayload p.1 p.2)) =
        .ok { s with binCounts := s.binCounts ++ [p] } := by
      show (parseEntry (entryPayload p.1 p.2) >>= _) = _
      rw [parseEntry_entryPayload _ _ h1 h2]; rfl
    rw [this]
    show List.foldlM storeStep _ _ = _
    rw [ih (fun q hq => hl q (by simp [hq]))]
    simp

theorem foldlM_doubles (l : List Nat) (s : PbStore) :
    (l.map (fun v => Field.fixed64 2 v)).foldlM storeStep s =
      .ok { s with contiguous := s.contiguous ++ l } := by
  induction l generalizing s with
  | nil => simp [pure, Except.pure]
  | cons v l ih =>
    rw [List.map_cons, List.foldlM_cons]
    show List.foldlM storeStep { s with contiguous := s.contiguous ++ [v] } _ = _
    rw [ih]
    simp

/-- the bytes of a list of `binCounts` entries -/
theorem entries_eq_encAll (l : List (Int × Nat)) :
    l.flatMap (fun p => streamEntry p.1 p.2) =
      encAll (l.map (fun p => (streamEntry p.1 p.2, Field.bytes 1 (entryPayload p.1 p.2)))) := by
  induction l with
  | nil => rfl
  | cons p l ih => simp [List.flatMap_cons, ih]

theorem parseStore_entries (l : List (Int × Nat)) (hl : ∀ p ∈ l, I32 p.1 ∧ p.2 < 2 ^ 64)
    (cur : PbStore) :
    parseStore cur (l.flatMap (fun p => streamEntry p.1 p.2)) =
      .ok { cur with binCounts := cur.binCounts ++ l } := by
  rw [entries_eq_encAll, parseStore_of_fields _ _ _ (fields_encAll _ (by
    intro p hp
    simp only [List.mem_map] at hp
    obtain ⟨q, _, rfl⟩ := hp
    exact fieldEnc_streamEntry q.1 q.2))]
  rw [List.map_map]
  exact foldlM_entries l hl cur

/-- the bytes of unpacked repeated doubles followed by the offset -/
theorem doubles_eq_encAll (l : List Nat) (off : Nat) :
    l.flatMap (fun v => varint 0x11 ++ fixed64 v) ++ varint 0x18 ++ varint off =
      encAll (l.map (fun v => (varint 0x11 ++ fixed64 v, Field.fixed64 2 v)) ++
        [(varint 0x18 ++ varint off, Field.varint 3 off)]) := by
  rw [encAll_append]
  have : l.flatMap (fun v => varint 0x11 ++ fixed64 v) =
      encAll (l.map (fun v => (varint 0x11 ++ fixed64 v, Field.fixed64 2 v))) := by
    induction l with
    | nil => rfl
    | cons p l ih => simp [List.flatMap_cons, ih]
  rw [this]; simp

theorem parseStore_doubles (l : List Nat) (hl : ∀ v ∈ l, v < 2 ^ 64) (k : Int) (hk : I32 k)
    (cur : PbStore) :
    parseStore cur (l.flatMap (fun v => varint 0x11 ++ fixed64 v) ++ varint 0x18 ++
        varint (pbZigzag k)) =
      .ok { cur with contiguous := cur.contiguous ++ l, contiguousOffset := k } := by
  rw [doubles_eq_encAll, parseStore_of_fields _ _ _ (fields_encAll _ (by
    intro p hp
    simp only [List.mem_append, List.mem_map, List.mem_singleton] at hp
    rcases hp with ⟨v, hv, rfl⟩ | rfl
    · exact fieldEnc_fixed64 0x11 v (by decide) (by decide) (hl v hv)
    · exact fieldEnc_varint 0x18 _ (by decide) (by decide) (pbZigzag_lt k hk)))]
  rw [List.map_append, List.foldlM_append, List.map_map]
  show (List.foldlM storeStep cur (l.map (fun v => Field.fixed64 2 v)) >>= _) = _
  rw [foldlM_doubles]
  show Except.ok _ = _
  rw [unzz32_pbZigzag k hk]

/-! ### the three store kinds -/

/-- what the writer needs of a store: the indexes it emits fit `sint32` (the `.proto` type);
    for a dense store only `minIndex` travels (`contiguousBinIndexOffset`) -/
def StoreKeys32 : Store → Prop
  | .d s => s.isEmpty = false → I32 s.minIndex
  | .sp c => ∀ p ∈ c, I32 p.1
  | .pg s => s.isEmpty = false → ∀ p ∈ s.binsList, I32 p.1

theorem flatMap_entries (c : List (Int × Rat)) :
    c.flatMap (fun p => streamEntry p.1 (ratBits p.2)) =
      (c.map (fun p => (p.1, ratBits p.2))).flatMap (fun p => streamEntry p.1 p.2) := by
  induction c with
  | nil => rfl
  | cons p l ih => simp [List.flatMap_cons, ih]

theorem flatMap_doubles (cs : List Rat) :
    cs.flatMap (fun c => varint 0x11 ++ fixed64 (ratBits c)) =
      (cs.map ratBits).flatMap (fun v => varint 0x11 ++ fixed64 v) := by
  induction cs with
  | nil => rfl
  | cons p l ih => simp [List.flatMap_cons, ih]

theorem parseStore_nil (cur : PbStore) : parseStore cur [] = .ok cur := by
  rw [parseStore_of_fields cur [] [] (by unfold fields; exact rdFields_nil _)]
  rfl

theorem parseStore_content (c : List (Int × Rat)) (hc : ∀ p ∈ c, I32 p.1) :
    parseStore {} (c.flatMap (fun p => streamEntry p.1 (ratBits p.2))) =
      .ok { binCounts := c.map (fun p => (p.1, ratBits p.2)) } := by
  rw [flatMap_entries, parseStore_entries _ (by
    intro p hp
    simp only [List.mem_map] at hp
    obtain ⟨q, hq, rfl⟩ := hp
    exact ⟨hc q hq, ratBits_lt _⟩)]
  rfl

/-- the bytes of the streaming store writer parse to the message `ToProto` builds — exactly,
    field for field (no normalisation needed), for every store kind -/
theorem parseStore_streamStore (st : Store) (hst : StoreKeys32 st) (pb : PbStore) (bs : Bytes)
    (hpb : storeToProto st = some pb) (hbs : streamStore st = some bs) :
    parseStore {} bs = .ok pb := by
  cases st with
  | sp c =>
    simp only [storeToProto, streamStore, Option.some.injEq] at hpb hbs
    subst hpb hbs
    exact parseStore_content c hst
  | pg s =>
    simp only [storeToProto, streamStore] at hpb hbs
    by_cases he : s.isEmpty = true
    · rw [if_pos he] at hpb hbs
      simp only [Option.some.injEq] at hpb hbs
      subst hpb hbs
      exact parseStore_nil {}
    · rw [if_neg he] at hpb hbs
      simp only [Option.some.injEq] at hpb hbs
      subst hpb hbs
      exact parseStore_content _ (hst (by simpa using he))
  | d s =>
    simp only [storeToProto, streamStore] at hpb hbs
    by_cases he : s.isEmpty = true
    · rw [if_pos he] at hpb hbs
      simp only [Option.some.injEq] at hpb hbs
      subst hpb hbs
      exact parseStore_nil {}
    · rw [if_neg he] at hpb hbs
      have hk : I32 s.minIndex := hst (by simpa using he)
      cases hcs : (DStore.idxRange s.minIndex s.maxIndex).mapM
          (fun i => DStore.rd s.bins (i - s.offset)) with
      | none => rw [hcs] at hpb; simp at hpb
      | some cs =>
        rw [hcs] at hpb hbs
        simp only [Option.bind_eq_bind, Option.bind_some, Option.pure_def, Option.some.injEq] at hpb hbs
        subst hpb hbs
        rw [flatMap_doubles, parseStore_doubles _ (by
          intro v hv
          simp only [List.mem_map] at hv
          obtain ⟨q, _, rfl⟩ := hv
          exact ratBits_lt q) _ hk]
        rfl

/-! ### the sketch -/

def sketchStep (m : PbSketch) (f : Field) : Except PbErr PbSketch :=
  match f with
  | .bytes 1 v => do
    let mp ← parseMapping (m.mapping.getD {}) v
    pure { m with mapping := some mp }
  | .bytes 2 v => do
    let st ← parseStore (m.pos.getD {}) v
    pure { m with pos := some st }
  | .bytes 3 v => do
    let st ← parseStore (m.neg.getD {}) v
    pure { m with neg := some st }
  | .fixed64 4 v => pure { m with zero := v }
  | _ => pure m

theorem pbParse_of_fields (bs : Bytes) (fs : List Field) (h : fields bs = .ok fs) :
    pbParse bs = fs.foldlM sketchStep {} := by
  unfold pbParse
  rw [h]; rfl

theorem ok_bind {ε α β} (a : α) (f : α → Except ε β) : (Except.ok a >>= f) = f a := rfl

/-- the layout of `EncodeProto` on opaque sub-messages -/
theorem pbParse_layout (sm n p : Bytes) (z : Nat) (pm : PbMapping) (pbn pbp : PbStore)
    (hm : parseMapping {} sm = .ok pm) (hn : parseStore {} n = .ok pbn)
    (hp : parseStore {} p = .ok pbp) (hz : z < 2 ^ 64)
    (hml : sm.length < 2 ^ 64) (hnl : n.length < 2 ^ 64) (hpl : p.length < 2 ^ 64) :
    pbParse (lenDelim 0xa sm ++ varint 0x21 ++ fixed64 z ++ lenDelim 0x1a n ++ lenDelim 0x12 p) =
      .ok { mapping := some pm, pos := some pbp, neg := some pbn, zero := z } := by
  have e : lenDelim 0xa sm ++ varint 0x21 ++ fixed64 z ++ lenDelim 0x1a n ++ lenDelim 0x12 p =
      encAll [(lenDelim 0xa sm, Field.bytes 1 sm), (varint 0x21 ++ fixed64 z, Field.fixed64 4 z),
              (lenDelim 0x1a n, Field.bytes 3 n), (lenDelim 0x12 p, Field.bytes 2 p)] := by
    simp
  have h1 : FieldEnc (lenDelim 0xa sm) (.bytes 1 sm) :=
    fieldEnc_lenDelim 0xa sm (by decide) (by decide) hml
  have h2 : FieldEnc (varint 0x21 ++ fixed64 z) (.fixed64 4 z) :=
    fieldEnc_fixed64 0x21 z (by decide) (by decide) hz
  have h3 : FieldEnc (lenDelim 0x1a n) (.bytes 3 n) :=
    fieldEnc_lenDelim 0x1a n (by decide) (by decide) hnl
  have h4 : FieldEnc (lenDelim 0x12 p) (.bytes 2 p) :=
    fieldEnc_lenDelim 0x12 p (by decide) (by decide) hpl
  rw [e, pbParse_of_fields _ _ (fields_encAll _ (by
    intro q hq; simp at hq; rcases hq with rfl | rfl | rfl | rfl <;> assumption))]
  simp only [List.map_cons, List.map_nil, List.foldlM_cons, List.foldlM_nil]
  have s1 : sketchStep {} (Field.bytes 1 sm) = .ok { mapping := some pm } := by
    show (parseMapping {} sm >>= _) = _
    rw [hm]; rfl
  have s2 : sketchStep { mapping := some pm } (Field.fixed64 4 z) =
      .ok { mapping := some pm, zero := z } := rfl
  have s3 : sketchStep { mapping := some pm, zero := z } (Field.bytes 3 n) =
      .ok { mapping := some pm, neg := some pbn, zero := z } := by
    show (parseStore {} n >>= _) = _
    rw [hn]; rfl
  have s4 : sketchStep { mapping := some pm, neg := some pbn, zero := z } (Field.bytes 2 p) =
      .ok { mapping := some pm, pos := some pbp, neg := some pbn, zero := z } := by
    show (parseStore {} p >>= _) = _
    rw [hp]; rfl
  rw [s1, ok_bind, s2, ok_bind, s3, ok_bind, s4, ok_bind]
  rfl

/-- `EncodeProto` against `ToProto`, exactly -/
theorem pbParse_streamBytes (s : Sketch) (m : MapId) (hm : s.mapping = some m)
    (hpos : StoreKeys32 s.pos) (hneg : StoreKeys32 s.neg)
    (msg : PbSketch) (bs : Bytes) (hmsg : toProto s = some msg) (hbs : streamBytes s = some bs)
    (hlen : ∀ n p, streamStore s.neg = some n → streamStore s.pos = some p →
      n.length < 2 ^ 64 ∧ p.length < 2 ^ 64) :
    pbParse bs = .ok msg := by
  unfold toProto at hmsg
  unfold streamBytes at hbs
  rw [hm] at hmsg hbs
  cases hp : storeToProto s.pos with
  | none => rw [hp] at hmsg; simp at hmsg
  | some pbp =>
    cases hn : storeToProto s.neg with
    | none => rw [hp, hn] at hmsg; simp at hmsg
    | some pbn =>
      cases hsn : streamStore s.neg with
      | none => rw [hsn] at hbs; simp at hbs
      | some n =>
        cases hsp : streamStore s.pos with
        | none => rw [hsn, hsp] at hbs; simp at hbs
        | some p =>
          rw [hp, hn] at hmsg
          rw [hsn, hsp] at hbs
          simp only [Option.bind_eq_bind, Option.bind_some, Option.pure_def, Option.some.injEq,
            Option.map_some] at hmsg hbs
          subst hmsg hbs
          obtain ⟨hnl, hpl⟩ := hlen n p hsn hsp
          exact pbParse_layout _ n p _ _ pbn pbp (parseMapping_streamMapping m)
            (parseStore_streamStore _ hneg _ _ hn hsn) (parseStore_streamStore _ hpos _ _ hp hsp)
            (f64bits_lt _) (Nat.lt_of_le_of_lt (streamMapping_length_le m) (by decide)) hnl hpl

/-! ### lengths of the written stores -/

/-- number of bins the writer emits -/
def wireBins : Store → Nat
  | .d s => (DStore.idxRange s.minIndex s.maxIndex).length
  | .sp c => c.length
  | .pg s => s.binsList.length

theorem flatMap_length_le {α} (l : List α) (f : α → Bytes) (B : Nat) (h : ∀ a ∈ l, (f a).length ≤ B) :
    (l.flatMap f).length ≤ B * l.length := by
  induction l with
  | nil => simp
  | cons a l ih =>
    have h1 := h a (by simp)
    have h2 := ih (fun b hb => h b (by simp [hb]))
    simp only [List.flatMap_cons, List.length_append, List.length_cons, Nat.mul_add]
    omega

theorem streamEntry_length_le (k : Int) (v : Nat) : (streamEntry k v).length ≤ 58 := by
  rw [streamEntry_eq]
  unfold lenDelim
  have h1 := varint_length_le 0xa
  have h2 := varint_length_le (entryPayload k v).length
  have h3 := entryPayload_length_le k v
  simp only [List.length_append]; omega

theorem mapM_length {α β} (f : α → Option β) (l : List α) (r : List β) (h : l.mapM f = some r) :
    r.length = l.length := by
  induction l generalizing r with
  | nil => simp at h; subst h; rfl
  | cons a l ih =>
    rw [List.mapM_cons] at h
    cases hfa : f a with
    | none => rw [hfa] at h; simp at h
    | some b =>
      cases hl : l.mapM f with
      | none => rw [hfa, hl] at h; simp at h
      | some r' =>
        rw [hfa, hl] at h
        simp at h
        subst h
        simp [ih r' hl]

theorem streamStore_length_le (st : Store) (bs : Bytes) (h : streamStore st = some bs) :
    bs.length ≤ 58 * wireBins st + 20 := by
  cases st with
  | sp c =>
    simp only [streamStore, Option.some.injEq] at h
    subst h
    have := flatMap_length_le c (fun p => streamEntry p.1 (ratBits p.2)) 58
      (fun a _ => streamEntry_length_le _ _)
    simp only [wireBins]; omega
  | pg s =>
    simp only [streamStore] at h
    split at h
    · simp only [Option.some.injEq] at h; subst h; simp
    · simp only [Option.some.injEq] at h
      subst h
      have := flatMap_length_le s.binsList (fun p => streamEntry p.1 (ratBits p.2)) 58
        (fun a _ => streamEntry_length_le _ _)
      simp only [wireBins]; omega
  | d s =>
    simp only [streamStore] at h
    split at h
    · simp only [Option.some.injEq] at h; subst h; simp
    · cases hcs : (DStore.idxRange s.minIndex s.maxIndex).mapM
          (fun i => DStore.rd s.bins (i - s.offset)) with
      | none => rw [hcs] at h; simp at h
      | some cs =>
        rw [hcs] at h
        simp only [Option.bind_eq_bind, Option.bind_some, Option.pure_def, Option.some.injEq] at h
        subst h
        have hl := mapM_length _ _ _ hcs
        have := flatMap_length_le cs (fun c => varint 0x11 ++ fixed64 (ratBits c)) 58 (by
          intro a _
          have := varint_length_le 0x11
          simp only [List.length_append, fixed64_length]; omega)
        have h1 := varint_length_le 0x18
        have h2 := varint_length_le (pbZigzag s.minIndex)
        simp only [wireBins, List.length_append]
        omega

/-! ### rebuilding: `MergeWithProto` -/

theorem weightOf_ratBits (w : Rat) (h : F64.isRep w = true) : weightOf (ratBits w) = some w := by
  unfold weightOf ratBits
  rw [UInt64.ofNat_toNat, F64.toBits_ofBits_rep w h]

def dedupStep (acc : List (Int × Nat)) (e : Int × Nat) : List (Int × Nat) :=
  acc.filter (fun x => x.1 ≠ e.1) ++ [e]

theorem normBinCounts_eq (l : List (Int × Nat)) :
    normBinCounts l = (l.foldl dedupStep []).mergeSort (fun a b => decide (a.1 ≤ b.1)) := rfl

theorem dedup_of_distinct (l acc : List (Int × Nat)) (h1 : l.Pairwise (fun a b => a.1 ≠ b.1))
    (h2 : ∀ a ∈ acc, ∀ b ∈ l, a.1 ≠ b.1) : l.foldl dedupStep acc = acc ++ l := by
  induction l generalizing acc with
  | nil => simp
  | cons e l ih =>
    rw [List.foldl_cons]
    have hf : acc.filter (fun x => x.1 ≠ e.1) = acc := by
      rw [List.filter_eq_self]
      intro a ha
      simpa using h2 a ha e (by simp)
    have hp := List.pairwise_cons.mp h1
    have hstep : dedupStep acc e = acc ++ [e] := by unfold dedupStep; rw [hf]
    rw [hstep, ih _ hp.2 (by
      intro a ha b hb
      rcases List.mem_append.mp ha with ha | ha
      · exact h2 a ha b (by simp [hb])
      · simp at ha; subst ha; exact hp.1 b hb)]
    simp

/-- keys strictly increasing: already in canonical form -/
theorem normBinCounts_of_increasing (l : List (Int × Nat))
    (h : l.Pairwise (fun a b => a.1 < b.1)) : normBinCounts l = l := by
  rw [normBinCounts_eq, dedup_of_distinct l [] (h.imp (fun hab => Int.ne_of_lt hab)) (by simp),
    List.nil_append]
  exact List.mergeSort_of_pairwise (h.imp (fun hab => by simpa using Int.le_of_lt hab))

theorem mem_dedup (l acc : List (Int × Nat)) (x : Int × Nat) (h : x ∈ l.foldl dedupStep acc) :
    x ∈ acc ∨ x ∈ l := by
  induction l generalizing acc with
  | nil => left; simpa using h
  | cons e l ih =>
    rw [List.foldl_cons] at h
    rcases ih _ h with h | h
    · unfold dedupStep at h
      rcases List.mem_append.mp h with h | h
      · left; exact (List.mem_filter.mp h).1
      · right; simp at h; simp [h]
    · right; simp [h]

theorem mem_normBinCounts (l : List (Int × Nat)) (x : Int × Nat) (h : x ∈ normBinCounts l) :
    x ∈ l := by
  rw [normBinCounts_eq] at h
  have := (List.mergeSort_perm _ _).mem_iff.mp h
  rcases mem_dedup l [] x this with h | h
  · simp at h
  · exact h

theorem sorted_pairwise (c : Content) (h : Content.Sorted c) :
    c.Pairwise (fun a b => a.1 < b.1) := by
  induction c with
  | nil => exact List.Pairwise.nil
  | cons p c ih =>
    have := (Content.sorted_cons p c).mp h
    exact List.pairwise_cons.mpr ⟨this.1, ih this.2⟩

def binStep (s : Store) (e : Int × Nat) : Option Store := do
  let w ← weightOf e.2
  s.addWithCount e.1 w

def contigStep (off : Int) (s : Store) (cv : Nat × Nat) : Option Store := do
  let w ← weightOf cv.1
  s.addWithCount ((cv.2 : Int) + off) w

theorem mergeWithProto_eq (st : Store) (pb : PbStore) :
    mergeWithProto st pb =
      ((normBinCounts pb.binCounts).foldlM binStep st >>= fun st =>
        (pb.contiguous.zipIdx).foldlM (contigStep pb.contiguousOffset) st) := rfl

/-- a generic fold of "add the weight of this item at its key" into a sparse store -/
theorem foldlM_add_sp {α} (items : List α) (key : α → Int) (wt : α → Option Rat) (c0 : Content)
    (st : Store)
    (h : items.foldlM (fun (s : Store) e => (wt e).bind (fun w => s.addWithCount (key e) w))
      (.sp c0) = some st) :
    ∃ c, st = .sp c ∧ ∀ j, c.lookup j =
      c0.lookup j + (items.map (fun e => if key e = j then (wt e).getD 0 else 0)).sum := by
  induction items generalizing c0 with
  | nil =>
    simp only [List.foldlM_nil, Option.pure_def, Option.some.injEq] at h
    exact ⟨c0, h.symm, fun j => by simp⟩
  | cons e items ih =>
    rw [List.foldlM_cons] at h
    cases hw : wt e with
    | none => rw [hw] at h; simp at h
    | some w =>
      rw [hw] at h
      simp only [Option.bind_some, Store.addWithCount, Option.bind_eq_bind] at h
      obtain ⟨c, hc, hl⟩ := ih _ h
      refine ⟨c, hc, fun j => ?_⟩
      rw [hl j, Content.lookup_add, List.map_cons, List.sum_cons, hw]
      simp only [Option.getD_some]
      by_cases hj : key e = j
      · rw [if_pos hj, if_pos hj.symm]; ring
      · rw [if_neg hj, if_neg (fun h => hj h.symm)]; ring

theorem foldlM_add_sp_some {α} (items : List α) (key : α → Int) (wt : α → Option Rat)
    (c0 : Content) (hw : ∀ e ∈ items, (wt e).isSome = true) :
    ∃ c, items.foldlM (fun (s : Store) e => (wt e).bind (fun w => s.addWithCount (key e) w))
      (.sp c0) = some (.sp c) := by
  induction items generalizing c0 with
  | nil => exact ⟨c0, rfl⟩
  | cons e items ih =>
    obtain ⟨w, hw1⟩ := Option.isSome_iff_exists.mp (hw e (by simp))
    obtain ⟨c, hc⟩ := ih (c0.add (key e) w) (fun x hx => hw x (by simp [hx]))
    refine ⟨c, ?_⟩
    rw [List.foldlM_cons, hw1]
    simpa [Store.addWithCount] using hc

/-- weight a message assigns to index `j` through its (canonical) sparse entries -/
def binWeight (l : List (Int × Nat)) (j : Int) : Rat :=
  (l.map (fun e => if e.1 = j then (weightOf e.2).getD 0 else 0)).sum

/-- weight a message assigns to index `j` through its contiguous counts:
    entry number `i` sits at index `i + offset` -/
def contigWeight (l : List Nat) (off : Int) (j : Int) : Rat :=
  ((l.zipIdx).map (fun cv => if (cv.2 : Int) + off = j then (weightOf cv.1).getD 0 else 0)).sum

theorem mergeWithProto_sp (pb : PbStore) (c0 : Content) (st : Store)
    (h : mergeWithProto (.sp c0) pb = some st) :
    ∃ c, st = .sp c ∧ ∀ j, c.lookup j = c0.lookup j + binWeight (normBinCounts pb.binCounts) j +
      contigWeight pb.contiguous pb.contiguousOffset j := by
  rw [mergeWithProto_eq] at h
  cases h1 : (normBinCounts pb.binCounts).foldlM binStep (.sp c0) with
  | none => rw [h1] at h; simp at h
  | some st1 =>
    rw [h1] at h
    simp only [Option.bind_eq_bind, Option.bind_some] at h
    obtain ⟨c1, rfl, hl1⟩ := foldlM_add_sp _ (fun (e : Int × Nat) => e.1)
      (fun (e : Int × Nat) => weightOf e.2) c0 st1 h1
    obtain ⟨c, hc, hl⟩ := foldlM_add_sp _ (fun (cv : Nat × Nat) => (cv.2 : Int) + pb.contiguousOffset)
      (fun (cv : Nat × Nat) => weightOf cv.1) c1 st h
    exact ⟨c, hc, fun j => by rw [hl j, hl1 j]; rfl⟩

theorem mergeWithProto_sp_some (pb : PbStore) (c0 : Content)
    (hb : ∀ e ∈ pb.binCounts, (weightOf e.2).isSome = true)
    (hc : ∀ v ∈ pb.contiguous, (weightOf v).isSome = true) :
    ∃ c, mergeWithProto (.sp c0) pb = some (.sp c) := by
  obtain ⟨c1, h1⟩ := foldlM_add_sp_some (normBinCounts pb.binCounts) (fun (e : Int × Nat) => e.1)
    (fun (e : Int × Nat) => weightOf e.2) c0 (fun e he => hb e (mem_normBinCounts _ _ he))
  obtain ⟨c, h2⟩ := foldlM_add_sp_some pb.contiguous.zipIdx
    (fun (cv : Nat × Nat) => (cv.2 : Int) + pb.contiguousOffset)
    (fun (cv : Nat × Nat) => weightOf cv.1) c1 (by
      intro cv hcv
      have : cv.1 ∈ pb.contiguous := by
        obtain ⟨v, i⟩ := cv
        exact (List.mem_zipIdx hcv).2.2 ▸ List.getElem_mem _
      exact hc _ this)
  refine ⟨c, ?_⟩
  rw [mergeWithProto_eq]
  show (List.foldlM binStep (Store.sp c0) (normBinCounts pb.binCounts) >>= _) = _
  have e1 : List.foldlM binStep (Store.sp c0) (normBinCounts pb.binCounts) = some (.sp c1) := h1
  rw [e1]
  exact h2

/-- the contiguous weight at `j` is the weight of entry number `j − offset` (if there is one) -/
theorem contigSum_zipIdx (g : Nat → Rat) (l : List Nat) (off j : Int) (n : Nat) :
    ((l.zipIdx n).map (fun cv => if (cv.2 : Int) + off = j then g cv.1 else 0)).sum =
      if (n : Int) ≤ j - off ∧ j - off < (n : Int) + l.length then
        g (l.getD ((j - off).toNat - n) 0) else 0 := by
  induction l generalizing n with
  | nil => simp
  | cons v l ih =>
    rw [List.zipIdx_cons, List.map_cons, List.sum_cons, ih (n + 1)]
    by_cases h0 : (n : Int) + off = j
    · have e0 : (j - off).toNat - n = 0 := by omega
      rw [if_pos h0, if_neg (by push_cast; omega), if_pos (by simp; omega), e0]
      simp
    · rw [if_neg h0]
      by_cases h1 : ((n + 1 : Nat) : Int) ≤ j - off ∧ j - off < ((n + 1 : Nat) : Int) + l.length
      · have e1 : (j - off).toNat - n = ((j - off).toNat - (n + 1)) + 1 := by omega
        rw [if_pos h1, if_pos (by simp; omega), e1]
        simp
      · rw [if_neg h1, if_neg (by simp; omega)]
        simp

theorem contigWeight_eq (l : List Nat) (off j : Int) :
    contigWeight l off j =
      if off ≤ j ∧ j - off < l.length then (weightOf (l.getD (j - off).toNat 0)).getD 0 else 0 := by
  unfold contigWeight
  have := contigSum_zipIdx (fun v => (weightOf v).getD 0) l off j 0
  simp only [Nat.sub_zero, Int.ofNat_zero, Int.zero_add] at this
  rw [this]
  by_cases h : off ≤ j ∧ j - off < l.length
  · rw [if_pos h, if_pos (by omega)]
  · rw [if_neg h, if_neg (by omega)]

/-! ### rebuilding a spec sketch from its message -/

theorem foldlM_binStep_content (c : Content) (hc : ∀ p ∈ c, F64.isRep p.2 = true) (c0 : Content) :
    (c.map (fun p => (p.1, ratBits p.2))).foldlM binStep (.sp c0) = some (.sp (c0.merge c)) := by
  induction c generalizing c0 with
  | nil => rfl
  | cons p c ih =>
    rw [List.map_cons, List.foldlM_cons]
    have : binStep (.sp c0) (p.1, ratBits p.2) = some (.sp (c0.add p.1 p.2)) := by
      unfold binStep
      simp only [weightOf_ratBits p.2 (hc p (by simp)), Store.addWithCount]
      rfl
    rw [this]
    simp only [Option.bind_eq_bind, Option.bind_some]
    rw [ih (fun q hq => hc q (by simp [hq])), Content.merge_cons]

theorem mergeWithProto_content (c : Content) (hwf : c.WF) (hc : ∀ p ∈ c, F64.isRep p.2 = true) :
    mergeWithProto (.sp []) { binCounts := c.map (fun p => (p.1, ratBits p.2)) } = some (.sp c) := by
  rw [mergeWithProto_eq]
  simp only
  rw [normBinCounts_of_increasing _ (by
    rw [List.pairwise_map]; exact sorted_pairwise c hwf.1)]
  rw [foldlM_binStep_content c hc [], Content.merge_nil_left c hwf]
  rfl

theorem fromProto_spec (m : MapId) (cp cn : Content) (z : F64) (hcp : cp.WF) (hcn : cn.WF)
    (hwp : ∀ p ∈ cp, F64.isRep p.2 = true) (hwn : ∀ p ∈ cn, F64.isRep p.2 = true)
    (hg : F64.ofBits (F64.toBits m.gamma) = m.gamma)
    (ho : F64.ofBits (F64.toBits m.indexOffset) = m.indexOffset)
    (h1 : F64.le m.gamma (.fin 1) = false)
    (hz : F64.ofBits (F64.toBits z) = z) :
    fromProto .sparse
      { mapping := some (mappingToProto m),
        pos := some { binCounts := cp.map (fun p => (p.1, ratBits p.2)) },
        neg := some { binCounts := cn.map (fun p => (p.1, ratBits p.2)) },
        zero := f64bits z } =
      some (.ok { mapping := some m, pos := .sp cp, neg := .sp cn, zero := z }) := by
  unfold fromProto
  simp only [Store.new]
  rw [mergeWithProto_content cp hcp hwp, mergeWithProto_content cn hcn hwn,
    MapId.mappingFromProto_mappingToProto m hg ho h1]
  simp only [Option.bind_eq_bind, Option.bind_some, Option.pure_def]
  unfold f64bits
  rw [UInt64.ofNat_toNat, hz]

end Proto
end DDS
