/-
  DDS.Proofs.GenCollapsingHigh — the REGENERATED `CollapsingHighestDenseStore`
  (`DDS/Generated/CodeDense.lean`, translated from
  `/repo/ddsketch/store/collapsing_highest_dense_store.go` on every run) equals the HAND-WRITTEN model
  `DDS.DStore` of kind `.high n` (`DDS/Model/Dense.lean`), method by method, for ALL inputs.

  Every theorem has the form
      `generated fuel (toHigh n s) args = toRes (toHigh n) (model s args)`   (`s.kind = .high n`)
  (`toHigh n s` of `GenDenseBase`: the generated structure with `maxNumBins = n` holding the fields of
  `s`): the model says `some t` ⇒ the generated code returns `.ok (toHigh n t)`; the model says `none`
  (Go would panic) ⇒ the generated code returns `.panic`; `.nofuel` is never returned when the stated
  fuel bound holds.  The only hypothesis on the store is `s.kind = .high n` (the model dispatches on
  `kind`); by `GenDenseBase.forall_high` every generated store with `0 ≤ maxNumBins` is such an image.

    getNewLength_rel  any fuel;  `min (dense length) maxNumBins`
    adjust_rel        fuel ≥ s.bins.size + 2       (summing loop `sumLoop`, `resetBins`, `shiftCounts`)
    extendRange_rel   fuel ≥ extendFuel s a b      (= size + dense new length + 2, `GenDenseBase.extendFuel`)
    normalize_rel     fuel ≥ extendFuel s i i      (result `(toHigh n t, arrayIndex)`; the collapsed
                                                    case returns `len(bins) - 1`)
    addWithCount_rel, add_rel, addBin_rel          the same fuel
    mergeWith_rel     fuel ≥ mergeFuel s o = max (extendFuel s o.min o.max) (width of o's window + 1);
                      `MergeWith fuel (toHigh n s) (toHigh m o) = toRes (toHigh n) (s.mergeSame o)` for
                      ANY `o` and any `m` — results AND panics agree
    copy_eq, clear_rel (any fuel), new_eq
  and `…_ex : ∃ f0, ∀ fuel ≥ f0, …`, `…_kind` (the model keeps `kind = .high n`).

  MERGE.  The Go code runs DOWNWARDS from `o.maxIndex` in two loops (first the indexes above the window
  of `s`, which go to the last cell; then the rest down to `o.minIndex + 1`) plus one separate last step
  for `o.minIndex`; the model is ONE upward `foldlM` over `idxRange o.minIndex o.maxIndex`.  `loop2_spec`
  / `loop1_spec` show that the loops compute `downFold` (the same step function `hstep`, descending);
  `addAt_comm`/`hstep_comm` show that two steps commute INCLUDING their panics (a `+=` never changes the
  array size, so whether a step panics does not depend on the steps before it), hence
  `downFold_eq : downFold f b hi k = (irange (hi-k+1) k).foldlM f b`.  A panic at a different point of
  the downward pass than of the upward fold is therefore still the same OUTCOME (`.panic` / `none`).

  No disagreement between generated code and model was found.  Differences in evaluation ORDER that are
  invisible in the result: the merge direction (above), and the generated merge loops read `s.bins[…]`
  before `o.bins[…]` while the model reads `o.bins` first (`optL_comm`/`optR_comm`).

  Core Lean only (Mathlib tactics come in through `DDS.Proofs.Num`, imported by the base).
-/
import DDS.Proofs.GenDenseBase

namespace DDS.GenHigh

open DDS DDS.GoSem DDS.DStore DDS.GenDense

abbrev GH := DDS.Gen.Dense.CollapsingHighestDenseStore

/-! ### small helpers -/

theorem bind_ok_self {α : Type} (r : Res α) : (r.bind fun x => Res.ok x) = r := by
  cases r <;> rfl

/-- `toHigh` only looks at the five generated fields and `isCollapsed` -/
theorem toHigh_congr (n : Int) {s t : DStore} (hg : toGen s = toGen t) (hc : s.isCollapsed = t.isCollapsed) :
    toHigh n s = toHigh n t := by
  simp only [toHigh, hg, hc]

/-! ### kind / isCollapsed are preserved by the model's bulk operations -/

theorem grow_kind (s t : DStore) (k : Int) (h : s.grow k = some t) : t.kind = s.kind := by
  unfold DStore.grow at h
  split at h
  · cases h
  · cases h; rfl

theorem grow_isCollapsed (s t : DStore) (k : Int) (h : s.grow k = some t) : t.isCollapsed = s.isCollapsed := by
  unfold DStore.grow at h
  split at h
  · cases h
  · cases h; rfl

theorem resetBins_kc (s t : DStore) (a b : Int) (h : s.resetBins a b = some t) :
    t.kind = s.kind ∧ t.isCollapsed = s.isCollapsed ∧ t.offset = s.offset ∧ t.count = s.count ∧
      t.minIndex = s.minIndex ∧ t.maxIndex = s.maxIndex := by
  unfold DStore.resetBins at h
  simp only at h
  split at h
  · cases h; simp
  · split at h
    · cases h; simp
    · cases h

theorem shiftCounts_kc (s t : DStore) (shift : Int) (h : s.shiftCounts shift = some t) :
    t.kind = s.kind ∧ t.isCollapsed = s.isCollapsed := by
  unfold DStore.shiftCounts at h
  simp only at h
  split at h
  · cases h
  · simp only [Option.map_eq_some_iff] at h
    obtain ⟨u, hu, rfl⟩ := h
    split at hu
    · have := resetBins_kc _ u _ _ hu; exact ⟨this.1, this.2.1⟩
    · have := resetBins_kc _ u _ _ hu; exact ⟨this.1, this.2.1⟩

theorem centerCounts_kc (s t : DStore) (a b : Int) (h : s.centerCounts a b = some t) :
    t.kind = s.kind ∧ t.isCollapsed = s.isCollapsed := by
  unfold DStore.centerCounts at h
  simp only [Option.bind_eq_bind, Option.bind_eq_some_iff] at h
  obtain ⟨u, hu, h2⟩ := h
  cases h2
  exact shiftCounts_kc s u _ hu

/-! ### `getNewLength` -/

theorem getNewLength_rel (fuel : Nat) (n : Nat) (s : DStore) (hk : s.kind = .high n) (a b : Int) :
    Gen.Dense.CollapsingHighestDenseStore.getNewLength fuel (toHigh (n : Int) s) a b
      = toRes id (s.getNewLength a b) := by
  unfold Gen.Dense.CollapsingHighestDenseStore.getNewLength DStore.getNewLength
  rw [toHigh_DenseStore, GenDense.getNewLength_rel]
  cases denseNewLength a b with
  | none => rfl
  | some d => simp [hk, goMin_eq]

/-- the model's `getNewLength` for kind `high n`, the dispatch resolved -/
theorem getNewLength_high (n : Nat) (s : DStore) (hk : s.kind = .high n) (a b : Int) :
    s.getNewLength a b = (denseNewLength a b).map (fun d => min d (n : Int)) := by
  unfold DStore.getNewLength
  cases denseNewLength a b with
  | none => rfl
  | some d => simp [hk]

/-! ### `adjust` -/

/-- one step of the model's `sumRange` fold -/
def sumStep (s : DStore) (acc : Rat) (idx : Int) : Option Rat := (rd s.bins (idx - s.offset)).map (acc + ·)

/-- the summing loop of `adjust`: `k` indexes `i, …, s.maxIndex`.  Fuel: `k + 1`, or `bins.size + 1`
    less the array position reached (the loop panics when it leaves the array). -/
theorem sumLoop (N : Int) (k : Nat) :
    ∀ (fuel : Nat) (s : DStore) (acc : Rat) (i : Int), (s.maxIndex - i + 1).toNat = k →
      (k + 1 ≤ fuel ∨ (s.bins.size + 1 ≤ fuel + (i - s.offset).toNat ∧ 1 ≤ fuel)) →
      Gen.Dense.CollapsingHighestDenseStore.adjust.loop1 (toHigh N s) fuel acc i =
        match (irange i k).foldlM (sumStep s) acc with
        | some r => .done (r, i + k)
        | none => .panic := by
  induction k with
  | zero =>
    intro fuel s acc i hk hf
    obtain ⟨f, rfl⟩ : ∃ f, fuel = f + 1 := ⟨fuel - 1, by omega⟩
    unfold Gen.Dense.CollapsingHighestDenseStore.adjust.loop1
    have hc : ¬ (i ≤ s.maxIndex) := by omega
    simp only [toHigh_DenseStore, toGen_maxIndex, hc, decide_false, Bool.false_eq_true, if_false, irange_zero,
      List.foldlM_nil, Option.pure_def, Int.natCast_zero, Int.add_zero]
  | succ k ih =>
    intro fuel s acc i hk hf
    obtain ⟨f, rfl⟩ : ∃ f, fuel = f + 1 := ⟨fuel - 1, by omega⟩
    unfold Gen.Dense.CollapsingHighestDenseStore.adjust.loop1
    have hc : i ≤ s.maxIndex := by omega
    simp only [toHigh_DenseStore, toGen_maxIndex, toGen_offset, toGen_bins, hc, decide_true, if_true,
      irange_succ_left, List.foldlM_cons, idx_toList]
    unfold sumStep
    by_cases hin : 0 ≤ i - s.offset ∧ i - s.offset < s.bins.size
    · rw [rd_eq _ _ hin]
      simp only [optL_some, Option.map_some, Option.bind_eq_bind, Option.bind_some]
      rw [ih f s _ (i + 1) (by omega) (by omega)]
      simp only [Int.natCast_add, Int.natCast_one]
      rw [show i + 1 + (k : Int) = i + ((k : Int) + 1) by omega]
      rfl
    · rw [rd_none _ _ hin]
      rfl

theorem adjust_rel (fuel : Nat) (n : Nat) (s : DStore) (a b : Int) (hk : s.kind = .high n)
    (hf : s.bins.size + 2 ≤ fuel) :
    Gen.Dense.CollapsingHighestDenseStore.adjust fuel (toHigh (n : Int) s) a b
      = toRes (toHigh (n : Int)) (s.adjust a b) := by
  unfold Gen.Dense.CollapsingHighestDenseStore.adjust DStore.adjust
  simp only [hk, toHigh_DenseStore, toHigh_maxNumBins, toHigh_isCollapsed, toGen_minIndex, toGen_maxIndex,
    toGen_offset, toGen_count, toGen_bins, len_toList]
  rw [show s.len = (s.bins.size : Int) from rfl]
  by_cases hw : b - a + 1 > s.bins.size
  · rw [if_pos (by simpa using hw), if_pos hw]
    unfold collapseHigh
    rw [show s.len = (s.bins.size : Int) from rfl]
    by_cases h1 : a + s.bins.size - 1 ≤ s.minIndex
    · rw [if_pos (by simpa using h1), if_pos h1]
      rw [mkSlice_eq, if_neg (by omega)]
      simp only [optR_some, Int.toNat_natCast, set_toList, len_toList, Array.size_replicate]
      cases setAt (Array.replicate s.bins.size (0 : Rat)) ((s.bins.size : Int) - 1) s.count <;> rfl
    · rw [if_neg (by simpa using h1), if_neg h1]
      by_cases hs : s.offset - a > 0
      · rw [if_pos (by simpa using hs), if_pos hs]
        rw [sumLoop (n : Int) _ fuel s 0 _ rfl (Or.inr (by omega))]
        unfold DStore.sumRange
        rw [idxRange_eq]
        rw [show (fun (acc : Rat) (idx : Int) => Option.map (fun x => acc + x) (rd s.bins (idx - s.offset)))
          = sumStep s from rfl]
        generalize List.foldlM (sumStep s) 0 _ = sm
        cases sm with
        | none => rfl
        | some r =>
          simp only [Loop.elim_done, Option.bind_eq_bind, Option.bind_some]
          rw [resetBins_rel fuel s _ _ (Or.inl hf)]
          cases hr : s.resetBins (a + ↑s.bins.size - 1 + 1) s.maxIndex with
          | none => rfl
          | some t =>
            have hsz := resetBins_size s t _ _ hr
            obtain ⟨hk1, hc1, ho1, hcnt1, hmin1, hmax1⟩ := resetBins_kc s t _ _ hr
            simp only [toRes_some, Res.bind_ok, toGen_bins, toGen_offset, toGen_count, toGen_minIndex,
              Option.bind_some, addAt_toList]
            cases hadd : addAt t.bins (a + ↑s.bins.size - 1 - t.offset) r with
            | none => rfl
            | some b' =>
              have hsz2 := addAt_size _ _ _ _ hadd
              simp only [Option.map_some, optR_some, Option.bind_some]
              have e : ({ bins := b'.toList, count := t.count, offset := t.offset, minIndex := t.minIndex, maxIndex := a + ↑s.bins.size - 1 } : GS)
                  = toGen { kind := t.kind, bins := b', count := t.count, offset := t.offset, minIndex := t.minIndex, maxIndex := a + ↑s.bins.size - 1, isCollapsed := t.isCollapsed } := rfl
              rw [e, shiftCounts_rel fuel _ _ (by simp only; omega)]
              cases DStore.shiftCounts _ _ <;> rfl
      · rw [if_neg (by simpa using hs), if_neg hs, shiftCounts_rel fuel s _ hf]
        cases DStore.shiftCounts _ _ <;> rfl
  · rw [if_neg (by simpa using hw), if_neg hw, centerCounts_rel fuel s a b hf]
    cases hcc : s.centerCounts a b with
    | none => rfl
    | some t =>
      have := (centerCounts_kc s t a b hcc).2
      simp only [toRes_some, Res.bind_ok, toHigh, this]

/-- `adjust_rel` for a generated store given up to `toHigh` -/
theorem adjust_rel' (fuel : Nat) (n : Nat) (g : GH) (t : DStore) (a b : Int) (hk : t.kind = .high n)
    (hg : g = toHigh (n : Int) t) (hf : t.bins.size + 2 ≤ fuel) :
    (Gen.Dense.CollapsingHighestDenseStore.adjust fuel g a b).bind (fun x => Res.ok x)
      = toRes (toHigh (n : Int)) (t.adjust a b) := by
  rw [bind_ok_self, hg, adjust_rel fuel n t a b hk hf]

/-! ### `extendRange` -/

theorem extendRange_rel (fuel : Nat) (n : Nat) (s : DStore) (a b : Int) (hk : s.kind = .high n)
    (hf : extendFuel s a b ≤ fuel) :
    Gen.Dense.CollapsingHighestDenseStore.extendRange fuel (toHigh (n : Int) s) a b
      = toRes (toHigh (n : Int)) (s.extendRange a b) := by
  unfold Gen.Dense.CollapsingHighestDenseStore.extendRange DStore.extendRange
  simp only [goMin_eq, goMax_eq, toHigh_DenseStore, toGen_minIndex, toGen_maxIndex, toGen_offset, toGen_bins,
    toGen_count, isEmpty_eq, getNewLength_rel fuel n s hk, len_toList, getNewLength_high n s hk]
  unfold extendFuel at hf
  rw [show s.len = (s.bins.size : Int) from rfl]
  by_cases h0 : s.count = 0
  · have he : s.isEmpty = true := by simp [DStore.isEmpty, h0]
    rw [if_pos he, if_pos h0]
    cases hL : denseNewLength (min a s.minIndex) (max b s.maxIndex) with
    | none => rfl
    | some d =>
      rw [hL] at hf
      simp only [Option.map_some, toRes_some, id, Res.bind_ok, Option.bind_eq_bind, Option.bind_some, mkSlice_eq,
        DStore.grow, Option.getD_some] at hf ⊢
      by_cases hneg : min d (n : Int) < 0
      · rw [if_pos hneg, if_pos hneg]; rfl
      · rw [if_neg hneg, if_neg hneg]
        simp only [optR_some, Option.bind_some, hk]
        by_cases hwide : max b s.maxIndex - min a s.minIndex + 1 > min d (n : Int)
        · have hwide' : min d (n : Int) < max b s.maxIndex - min a s.minIndex + 1 := hwide
          simp only [hwide', decide_true, if_true, toHigh_maxNumBins]
          exact adjust_rel' fuel n _ _ _ _ rfl (by simp [toHigh, toGen])
            (by simp only [Array.size_append, Array.size_replicate]; omega)
        · have hwide' : ¬ (min d (n : Int) < max b s.maxIndex - min a s.minIndex + 1) := hwide
          simp only [hwide', decide_false, Bool.false_eq_true, if_false, toHigh_maxNumBins, toHigh_isCollapsed]
          exact adjust_rel' fuel n _ _ _ _ rfl (by simp [toHigh, toGen])
            (by simp only [Array.size_append, Array.size_replicate]; omega)
  · have he : ¬ (s.isEmpty = true) := by simp [DStore.isEmpty, h0]
    rw [if_neg he, if_neg h0]
    by_cases hin : min a s.minIndex ≥ s.offset ∧ max b s.maxIndex < s.offset + s.bins.size
    · rw [if_pos (by simpa using hin), if_pos hin]
      rfl
    · rw [if_neg (by simpa using hin), if_neg hin]
      cases hL : denseNewLength (min a s.minIndex) (max b s.maxIndex) with
      | none => rfl
      | some d =>
        rw [hL] at hf
        simp only [Option.map_some, toRes_some, id, Res.bind_ok, Option.bind_eq_bind, Option.bind_some,
          Option.getD_some] at hf ⊢
        by_cases hgt : min d (n : Int) > s.bins.size
        · rw [if_pos (by simpa using hgt), if_pos hgt]
          simp only [DStore.grow]
          rw [if_neg (by omega)]
          simp only [Option.bind_some]
          exact adjust_rel' fuel n _ _ _ _ hk (by simp [toHigh, toGen])
            (by simp only [Array.size_append, Array.size_replicate]; omega)
        · rw [if_neg (by simpa using hgt), if_neg hgt]
          simp only [Option.pure_def, Option.bind_some]
          exact adjust_rel' fuel n _ _ _ _ hk rfl (by omega)

/-! ### `normalize`, `AddWithCount`, `Add`, `AddBin` -/

/-- `normalize`: the store and the array index to update (`len(bins) - 1` when collapsed) -/
theorem normalize_rel (fuel : Nat) (n : Nat) (s : DStore) (i : Int) (hk : s.kind = .high n)
    (hf : extendFuel s i i ≤ fuel) :
    Gen.Dense.CollapsingHighestDenseStore.normalize fuel (toHigh (n : Int) s) i
      = toRes (fun p : DStore × Int => (toHigh (n : Int) p.1, p.2)) (s.normalize i) := by
  unfold Gen.Dense.CollapsingHighestDenseStore.normalize DStore.normalize
  simp only [hk]
  by_cases h1 : s.maxIndex < i
  · have h1' : decide ((toHigh (n : Int) s).DenseStore.maxIndex < i) = true := decide_eq_true h1
    rw [if_pos h1', if_pos h1]
    by_cases hc : s.isCollapsed = true
    · rw [toHigh_isCollapsed, if_pos hc, if_pos hc]; rfl
    · rw [toHigh_isCollapsed, if_neg hc, if_neg hc, extendRange_rel fuel n s i i hk hf]
      cases s.extendRange i i with
      | none => rfl
      | some t =>
        simp only [toRes_some, Res.bind_ok, Option.bind_eq_bind, Option.bind_some]
        by_cases hc2 : t.isCollapsed = true
        · simp only [toHigh_isCollapsed, hc2, if_true]; rfl
        · simp only [toHigh_isCollapsed, hc2]; rfl
  · have h1' : ¬ (decide ((toHigh (n : Int) s).DenseStore.maxIndex < i) = true) := by
      rw [decide_eq_true_eq]; exact h1
    rw [if_neg h1', if_neg h1]
    by_cases h2 : i < s.minIndex
    · have h2' : decide (i < (toHigh (n : Int) s).DenseStore.minIndex) = true := decide_eq_true h2
      rw [if_pos h2', if_pos h2, extendRange_rel fuel n s i i hk hf]
      cases s.extendRange i i <;> rfl
    · have h2' : ¬ (decide (i < (toHigh (n : Int) s).DenseStore.minIndex) = true) := by
        rw [decide_eq_true_eq]; exact h2
      rw [if_neg h2', if_neg h2]; rfl

theorem addWithCount_rel (fuel : Nat) (n : Nat) (s : DStore) (i : Int) (c : Rat) (hk : s.kind = .high n)
    (hf : extendFuel s i i ≤ fuel) :
    Gen.Dense.CollapsingHighestDenseStore.AddWithCount fuel (toHigh (n : Int) s) i c
      = toRes (toHigh (n : Int)) (s.addWithCount i c) := by
  unfold Gen.Dense.CollapsingHighestDenseStore.AddWithCount DStore.addWithCount
  by_cases h0 : c = 0
  · rw [if_pos (by simpa using h0), if_pos h0]; rfl
  · rw [if_neg (by simpa using h0), if_neg h0, normalize_rel fuel n s i hk hf]
    cases s.normalize i with
    | none => rfl
    | some p =>
      obtain ⟨t, ai⟩ := p
      simp only [toRes_some, Res.bind_ok, toHigh_DenseStore, toGen_bins, addAt_toList, Option.bind_eq_bind,
        Option.bind_some]
      cases addAt t.bins ai c <;> rfl

theorem add_rel (fuel : Nat) (n : Nat) (s : DStore) (i : Int) (hk : s.kind = .high n)
    (hf : extendFuel s i i ≤ fuel) :
    Gen.Dense.CollapsingHighestDenseStore.Add fuel (toHigh (n : Int) s) i
      = toRes (toHigh (n : Int)) (s.addWithCount i 1) := by
  unfold Gen.Dense.CollapsingHighestDenseStore.Add
  rw [bind_ok_self, addWithCount_rel fuel n s i 1 hk hf]

theorem addBin_rel (fuel : Nat) (n : Nat) (s : DStore) (bin : Gen.Dense.Bin) (hk : s.kind = .high n)
    (hf : extendFuel s bin.index bin.index ≤ fuel) :
    Gen.Dense.CollapsingHighestDenseStore.AddBin fuel (toHigh (n : Int) s) bin
      = toRes (toHigh (n : Int)) (s.addWithCount bin.index bin.count) := by
  unfold Gen.Dense.CollapsingHighestDenseStore.AddBin Gen.Dense.Bin.Index Gen.Dense.Bin.Count
  by_cases h0 : bin.count = 0
  · simp only [h0, beq_self_eq_true, if_true]
    unfold DStore.addWithCount
    rw [if_pos rfl]; rfl
  · rw [if_neg (by simpa using h0), bind_ok_self, addWithCount_rel fuel n s _ _ hk hf]

/-! ### `Copy`, `Clear`, constructor -/

theorem copy_eq (n : Int) (s : DStore) :
    Gen.Dense.CollapsingHighestDenseStore.Copy (toHigh n s) = toHigh n s := by
  simp [Gen.Dense.CollapsingHighestDenseStore.Copy, GoSem.copySlice, GoSem.len, toHigh, toGen]

theorem clear_rel (fuel : Nat) (n : Int) (s : DStore) :
    Gen.Dense.CollapsingHighestDenseStore.Clear fuel (toHigh n s) = .ok (toHigh n s.clear) := by
  unfold Gen.Dense.CollapsingHighestDenseStore.Clear
  rw [toHigh_DenseStore, GenDense.clear_rel]
  rfl

theorem new_eq (n : Nat) :
    Gen.Dense.NewCollapsingHighestDenseStore (n : Int) = toHigh (n : Int) (DStore.new (.high n)) := rfl

/-! ### `MergeWith` -/

/-- one step of the model's merge fold for kind `high`: `o.bins[idx - o.offset]` is added to the last
    cell when `idx` lies above the window of `s`, else to the cell of `idx` -/
def hstep (o : DStore) (off maxI L : Int) (b : Array Rat) (idx : Int) : Option (Array Rat) :=
  (rd o.bins (idx - o.offset)).bind fun c =>
    if idx > maxI then addAt b (L - 1) c else addAt b (idx - off) c

/-- the cell that `hstep` updates -/
def hcell (off maxI L idx : Int) : Int := if idx > maxI then L - 1 else idx - off

theorem hstep_eq (o : DStore) (off maxI L : Int) (b : Array Rat) (idx : Int) :
    hstep o off maxI L b idx = (rd o.bins (idx - o.offset)).bind fun c => addAt b (hcell off maxI L idx) c := by
  unfold hstep hcell
  split <;> rfl

/-- two `+=` on one array commute (also in their panics: the size does not change) -/
theorem addAt_comm (b : Array Rat) (p q : Int) (v w : Rat) :
    (addAt b p v).bind (fun b1 => addAt b1 q w) = (addAt b q w).bind (fun b2 => addAt b2 p v) := by
  by_cases hp : 0 ≤ p ∧ p < b.size
  · obtain ⟨b1, h1, hs1, hv1⟩ := addAt_eq b p v hp
    by_cases hq : 0 ≤ q ∧ q < b.size
    · obtain ⟨b2, h2, hs2, hv2⟩ := addAt_eq b q w hq
      obtain ⟨b12, h12, hs12, hv12⟩ := addAt_eq b1 q w (by omega)
      obtain ⟨b21, h21, hs21, hv21⟩ := addAt_eq b2 p v (by omega)
      rw [h1, h2, Option.bind_some, Option.bind_some, h12, h21]
      congr 1
      apply array_ext_at0 _ _ (by omega)
      intro j _ _
      rw [hv12, hv21, hv1, hv2, Rat.add_assoc, Rat.add_assoc, Rat.add_comm (if j = p then v else 0)]
    · rw [h1, addAt_none b q w hq, Option.bind_some, addAt_none b1 q w (by omega)]
      rfl
  · rw [addAt_none b p v hp]
    by_cases hq : 0 ≤ q ∧ q < b.size
    · obtain ⟨b2, h2, hs2, hv2⟩ := addAt_eq b q w hq
      rw [h2, Option.bind_some, addAt_none b2 p v (by omega)]
      rfl
    · rw [addAt_none b q w hq]
      rfl

/-- two steps of the merge fold commute -/
theorem hstep_comm (o : DStore) (off maxI L : Int) (b : Array Rat) (x y : Int) :
    (hstep o off maxI L b x).bind (fun b1 => hstep o off maxI L b1 y)
      = (hstep o off maxI L b y).bind (fun b2 => hstep o off maxI L b2 x) := by
  simp only [hstep_eq]
  cases rd o.bins (x - o.offset) with
  | none =>
    cases rd o.bins (y - o.offset) with
    | none => rfl
    | some w =>
      simp only [Option.bind_none, Option.bind_some]
      cases addAt b (hcell off maxI L y) w <;> rfl
  | some v =>
    cases rd o.bins (y - o.offset) with
    | none =>
      simp only [Option.bind_none, Option.bind_some]
      cases addAt b (hcell off maxI L x) v <;> rfl
    | some w =>
      simp only [Option.bind_some]
      exact addAt_comm b _ _ v w

/-- with commuting steps, the last element of the list can be processed first -/
theorem foldlM_snoc_comm {β : Type} (f : Array Rat → β → Option (Array Rat))
    (hcomm : ∀ b x y, (f b x).bind (fun b1 => f b1 y) = (f b y).bind (fun b2 => f b2 x))
    (l : List β) (x : β) : ∀ b : Array Rat,
    (l ++ [x]).foldlM f b = (f b x).bind (fun b' => l.foldlM f b') := by
  induction l with
  | nil =>
    intro b
    simp only [List.nil_append, List.foldlM_cons, List.foldlM_nil]
    cases f b x <;> rfl
  | cons y l ih =>
    intro b
    simp only [List.cons_append, List.foldlM_cons, Option.bind_eq_bind]
    have : ∀ b1, List.foldlM f b1 (l ++ [x]) = (f b1 x).bind (fun b' => l.foldlM f b') := ih
    simp only [this]
    rw [← Option.bind_assoc, hcomm b y x, Option.bind_assoc]

/-- process `hi, hi - 1, …` (`k` indexes), in this order -/
def downFold (f : Array Rat → Int → Option (Array Rat)) : Array Rat → Int → Nat → Option (Array Rat)
  | b, _, 0 => some b
  | b, hi, k + 1 => (f b hi).bind (fun b' => downFold f b' (hi - 1) k)

theorem downFold_add (f : Array Rat → Int → Option (Array Rat)) (k1 k2 : Nat) : ∀ (b : Array Rat) (hi : Int),
    downFold f b hi (k1 + k2) = (downFold f b hi k1).bind (fun b' => downFold f b' (hi - k1) k2) := by
  induction k1 with
  | zero => intro b hi; simp [downFold]
  | succ k1 ih =>
    intro b hi
    rw [show k1 + 1 + k2 = (k1 + k2) + 1 by omega]
    simp only [downFold, ih, Option.bind_assoc]
    congr 1
    funext b'
    rw [show hi - 1 - (k1 : Int) = hi - ((k1 + 1 : Nat) : Int) by omega]

/-- the downward pass computes the model's upward fold when the steps commute -/
theorem downFold_eq (f : Array Rat → Int → Option (Array Rat))
    (hcomm : ∀ b x y, (f b x).bind (fun b1 => f b1 y) = (f b y).bind (fun b2 => f b2 x)) (k : Nat) :
    ∀ (b : Array Rat) (hi : Int), downFold f b hi k = (irange (hi - k + 1) k).foldlM f b := by
  induction k with
  | zero => intro b hi; rfl
  | succ k ih =>
    intro b hi
    rw [irange_succ_right, foldlM_snoc_comm f hcomm]
    simp only [downFold]
    rw [show hi - ((k + 1 : Nat) : Int) + 1 + (k : Int) = hi by omega]
    congr 1
    funext b'
    rw [ih, show hi - 1 - (k : Int) + 1 = hi - ((k + 1 : Nat) : Int) + 1 by omega]

theorem optL_comm {α β σ ρ : Type} (A : Option α) (B : Option β) (K : α → β → Loop σ ρ) :
    optL A (fun a => optL B (fun b => K a b)) = optL B (fun b => optL A (fun a => K a b)) := by
  cases A <;> cases B <;> rfl

theorem optR_comm {α β ρ : Type} (A : Option α) (B : Option β) (K : α → β → Res ρ) :
    optR A (fun a => optR B (fun b => K a b)) = optR B (fun b => optR A (fun a => K a b)) := by
  cases A <;> cases B <;> rfl

/-- first loop of `MergeWith`: the indexes of `o` above the window of `s` go to the last cell;
    `k` iterations `idx, idx - 1, …` -/
theorem loop2_spec (M N : Int) (o : DStore) (L : Int) (k : Nat) :
    ∀ (fuel : Nat) (s : DStore) (idx : Int), (s.bins.size : Int) = L →
      (idx - max s.maxIndex (o.minIndex - 1)).toNat = k → k + 1 ≤ fuel →
      Gen.Dense.CollapsingHighestDenseStore.MergeWith.loop2 (toHigh M o) fuel (toHigh N s) idx =
        match downFold (hstep o s.offset s.maxIndex L) s.bins idx k with
        | some b => .done (toHigh N { s with bins := b }, idx - k)
        | none => .panic := by
  induction k with
  | zero =>
    intro fuel s idx hL hk hf
    obtain ⟨f, rfl⟩ : ∃ f, fuel = f + 1 := ⟨fuel - 1, by omega⟩
    unfold Gen.Dense.CollapsingHighestDenseStore.MergeWith.loop2
    have hc : (decide ((toHigh N s).DenseStore.maxIndex < idx) && decide ((toHigh M o).DenseStore.minIndex ≤ idx))
        = false := by
      rw [Bool.and_eq_false_iff, decide_eq_false_iff_not, decide_eq_false_iff_not]
      simp only [toHigh_DenseStore, toGen_maxIndex, toGen_minIndex]; omega
    rw [if_neg (by rw [hc]; exact Bool.false_ne_true)]
    simp only [downFold, Int.natCast_zero, Int.sub_zero]
  | succ k ih =>
    intro fuel s idx hL hk hf
    obtain ⟨f, rfl⟩ : ∃ f, fuel = f + 1 := ⟨fuel - 1, by omega⟩
    unfold Gen.Dense.CollapsingHighestDenseStore.MergeWith.loop2
    have hc1 : s.maxIndex < idx := by omega
    have hc2 : o.minIndex ≤ idx := by omega
    simp only [toHigh_DenseStore, toGen_maxIndex, toGen_minIndex, toGen_offset, toGen_bins, toGen_count, hc1, hc2,
      decide_true, Bool.and_self, if_true, len_toList, downFold]
    rw [optL_comm, idx_toList]
    rw [hstep_eq, show hcell s.offset s.maxIndex L idx = L - 1 from if_pos hc1, hL]
    cases hrd : rd o.bins (idx - o.offset) with
    | none => rfl
    | some c =>
      simp only [optL_some, Option.bind_some]
      rw [addAt_toList_L]
      cases hadd : addAt s.bins (L - 1) c with
      | none => rfl
      | some b' =>
        have hsz := addAt_size _ _ _ _ hadd
        simp only [Option.map_some, optL_some, Option.bind_some]
        have e := ih f { s with bins := b' } (idx - 1) (by simp only; omega) (by simp only; omega) (by omega)
        simp only [toHigh, toGen] at e ⊢
        rw [e]
        simp only [Int.natCast_add, Int.natCast_one]
        rw [show idx - 1 - (k : Int) = idx - ((k : Int) + 1) by omega]

/-- second loop of `MergeWith`: the indexes of `o` inside the window of `s`, down to `o.minIndex + 1`;
    `k` iterations `idx, idx - 1, …` -/
theorem loop1_spec (M N : Int) (o : DStore) (L : Int) (k : Nat) :
    ∀ (fuel : Nat) (s : DStore) (idx : Int), idx ≤ max s.maxIndex o.minIndex →
      (idx - o.minIndex).toNat = k → k + 1 ≤ fuel →
      Gen.Dense.CollapsingHighestDenseStore.MergeWith.loop1 (toHigh M o) fuel (toHigh N s) idx =
        match downFold (hstep o s.offset s.maxIndex L) s.bins idx k with
        | some b => .done (toHigh N { s with bins := b }, idx - k)
        | none => .panic := by
  induction k with
  | zero =>
    intro fuel s idx hle hk hf
    obtain ⟨f, rfl⟩ : ∃ f, fuel = f + 1 := ⟨fuel - 1, by omega⟩
    unfold Gen.Dense.CollapsingHighestDenseStore.MergeWith.loop1
    have hc : ¬ (o.minIndex < idx) := by omega
    simp only [toHigh_DenseStore, toGen_minIndex, hc, decide_false, Bool.false_eq_true, if_false, downFold,
      Int.natCast_zero, Int.sub_zero]
  | succ k ih =>
    intro fuel s idx hle hk hf
    obtain ⟨f, rfl⟩ : ∃ f, fuel = f + 1 := ⟨fuel - 1, by omega⟩
    unfold Gen.Dense.CollapsingHighestDenseStore.MergeWith.loop1
    have hc : o.minIndex < idx := by omega
    simp only [toHigh_DenseStore, toGen_maxIndex, toGen_minIndex, toGen_offset, toGen_bins, toGen_count, hc,
      decide_true, if_true, downFold]
    rw [optL_comm, idx_toList]
    rw [hstep_eq, show hcell s.offset s.maxIndex L idx = idx - s.offset from if_neg (by omega)]
    cases hrd : rd o.bins (idx - o.offset) with
    | none => rfl
    | some c =>
      simp only [optL_some, Option.bind_some]
      rw [addAt_toList_L]
      cases hadd : addAt s.bins (idx - s.offset) c with
      | none => rfl
      | some b' =>
        simp only [Option.map_some, optL_some, Option.bind_some]
        have e := ih f { s with bins := b' } (idx - 1) (by simp only; omega) (by omega) (by omega)
        simp only [toHigh, toGen] at e ⊢
        rw [e]
        simp only [Int.natCast_add, Int.natCast_one]
        rw [show idx - 1 - (k : Int) = idx - ((k : Int) + 1) by omega]

/-- the part of the generated `MergeWith` after the range has been extended (the two loops, the
    separate last step and the count update; it occurs twice in the generated text) -/
def genTail (fuel : Nat) (o s : GH) : Res GH :=
  let idx := ((o).DenseStore).maxIndex
  Loop.elim (Gen.Dense.CollapsingHighestDenseStore.MergeWith.loop2 o fuel s idx) (fun (s, idx) =>
  Loop.elim (Gen.Dense.CollapsingHighestDenseStore.MergeWith.loop1 o fuel s idx) (fun (s, idx) =>
  if (idx == ((o).DenseStore).minIndex) then
  GoSem.optR (GoSem.idx ((s).DenseStore).bins (idx - ((s).DenseStore).offset)) (fun t1 =>
  GoSem.optR (GoSem.idx ((o).DenseStore).bins (idx - ((o).DenseStore).offset)) (fun t2 =>
  GoSem.optR (GoSem.set ((s).DenseStore).bins (idx - ((s).DenseStore).offset) (t1 + t2)) (fun t3 =>
  let s := { s with DenseStore := { (s).DenseStore with bins := t3 } }
  let s := { s with DenseStore := { (s).DenseStore with count := (((s).DenseStore).count + ((o).DenseStore).count) } }
  .ok s)))
  else
  let s := { s with DenseStore := { (s).DenseStore with count := (((s).DenseStore).count + ((o).DenseStore).count) } }
  .ok s))

theorem mergeWith_unfold (fuel : Nat) (s o : GH) :
    Gen.Dense.CollapsingHighestDenseStore.MergeWith fuel s o =
      if Gen.Dense.DenseStore.IsEmpty o.DenseStore then .ok s
      else if (decide (o.DenseStore.minIndex < s.DenseStore.minIndex) || decide (s.DenseStore.maxIndex < o.DenseStore.maxIndex)) then
        Res.bind (Gen.Dense.CollapsingHighestDenseStore.extendRange fuel s o.DenseStore.minIndex o.DenseStore.maxIndex)
          (fun s => genTail fuel o s)
      else genTail fuel o s := rfl

/-- the merge fold of the model (kind `high`) after the range has been extended -/
def mergeFold (s o : DStore) : Option DStore :=
  ((idxRange o.minIndex o.maxIndex).foldlM (hstep o s.offset s.maxIndex s.len) s.bins).bind fun b =>
    some { s with bins := b, count := s.count + o.count }

theorem genTail_spec (fuel : Nat) (M N : Int) (s o : DStore)
    (hf : (o.maxIndex - o.minIndex + 1).toNat + 1 ≤ fuel) :
    genTail fuel (toHigh M o) (toHigh N s) = toRes (toHigh N) (mergeFold s o) := by
  unfold genTail mergeFold
  simp only [toHigh_DenseStore, toGen_maxIndex, toGen_minIndex, toGen_offset, toGen_bins, toGen_count]
  obtain ⟨k2, hk2⟩ : ∃ k2, (o.maxIndex - max s.maxIndex (o.minIndex - 1)).toNat = k2 := ⟨_, rfl⟩
  rw [loop2_spec M N o s.len k2 fuel s o.maxIndex rfl hk2 (by omega)]
  obtain ⟨K, hK⟩ : ∃ K, (o.maxIndex - o.minIndex + 1).toNat = K := ⟨_, rfl⟩
  have e1 : idxRange o.minIndex o.maxIndex = irange (o.maxIndex - K + 1) K := by
    rw [idxRange_eq, hK]
    by_cases hz : K = 0
    · rw [hz]; rfl
    · congr 1; omega
  rw [e1, ← downFold_eq _ (hstep_comm o s.offset s.maxIndex s.len), show K = k2 + (K - k2) by omega, downFold_add]
  cases h2 : downFold (hstep o s.offset s.maxIndex s.len) s.bins o.maxIndex k2 with
  | none => rfl
  | some b2 =>
    simp only [Loop.elim_done, Option.bind_some]
    obtain ⟨k1, hk1⟩ : ∃ k1, (o.maxIndex - k2 - o.minIndex).toNat = k1 := ⟨_, rfl⟩
    rw [loop1_spec M N o s.len k1 fuel { s with bins := b2 } (o.maxIndex - k2) (by simp only; omega) hk1 (by omega)]
    simp only
    by_cases he : o.minIndex ≤ o.maxIndex - k2
    · rw [show K - k2 = k1 + 1 by omega, downFold_add]
      cases h1 : downFold (hstep o s.offset s.maxIndex s.len) b2 (o.maxIndex - ↑k2) k1 with
      | none => rfl
      | some b1 =>
        simp only [Loop.elim_done, Option.bind_some, toHigh_DenseStore, toGen_bins, toGen_offset, toGen_count,
          toGen_minIndex, toGen_maxIndex, toHigh_maxNumBins, toHigh_isCollapsed]
        rw [show o.maxIndex - (k2 : Int) - (k1 : Int) = o.minIndex by omega]
        simp only [beq_self_eq_true, if_true, downFold]
        rw [hstep_eq, show hcell s.offset s.maxIndex s.len o.minIndex = o.minIndex - s.offset from if_neg (by omega)]
        rw [optR_comm, idx_toList]
        cases hrd : rd o.bins (o.minIndex - o.offset) with
        | none => rfl
        | some c =>
          simp only [optR_some, Option.bind_some]
          rw [addAt_toList]
          cases hadd : addAt b1 (o.minIndex - s.offset) c <;> rfl
    · rw [show K - k2 = 0 by omega, show k1 = 0 by omega]
      simp only [downFold, Loop.elim_done, Option.bind_some, Int.natCast_zero, Int.sub_zero]
      refine Eq.trans (if_neg ?_) rfl
      rw [beq_iff_eq]; omega

/-! kinds along `adjust` / `extendRange` -/

theorem collapseHigh_kind (s t : DStore) (a b : Int) (h : s.collapseHigh a b = some t) : t.kind = s.kind := by
  unfold DStore.collapseHigh at h
  split at h
  · simp only [Option.bind_eq_bind, Option.bind_eq_some_iff, Option.pure_def, Option.some.injEq] at h
    obtain ⟨_, _, rfl⟩ := h
    rfl
  · simp only at h
    split at h
    · simp only [Option.bind_eq_bind, Option.bind_eq_some_iff] at h
      obtain ⟨_, _, u, hu, _, _, h3⟩ := h
      rw [(shiftCounts_kc _ _ _ h3).1]
      exact (resetBins_kc _ _ _ _ hu).1
    · simp only [Option.bind_eq_bind, Option.bind_eq_some_iff, Option.pure_def, Option.some.injEq] at h
      obtain ⟨u, hu, rfl⟩ := h
      exact (shiftCounts_kc _ _ _ hu).1

theorem adjust_kind (n : Nat) (s t : DStore) (a b : Int) (hk : s.kind = .high n) (h : s.adjust a b = some t) :
    t.kind = .high n := by
  unfold DStore.adjust at h
  simp only [hk] at h
  split at h
  · simp only [Option.bind_eq_bind, Option.bind_eq_some_iff, Option.pure_def, Option.some.injEq] at h
    obtain ⟨u, hu, rfl⟩ := h
    simp only
    rw [collapseHigh_kind _ _ _ _ hu, hk]
  · rw [(centerCounts_kc _ _ _ _ h).1, hk]

theorem extendRange_kind (n : Nat) (s t : DStore) (a b : Int) (hk : s.kind = .high n)
    (h : s.extendRange a b = some t) : t.kind = .high n := by
  unfold DStore.extendRange at h
  simp only [Option.bind_eq_bind, Option.pure_def, hk] at h
  split at h
  · simp only [Option.bind_eq_some_iff] at h
    obtain ⟨L, _, u, hu, h3⟩ := h
    have hku := grow_kind s u L hu
    split at h3
    · exact adjust_kind n _ t _ _ (by simp only; rw [hku, hk]) h3
    · exact adjust_kind n _ t _ _ (by simp only; rw [hku, hk]) h3
  · split at h
    · cases h; rfl
    · obtain ⟨L, _, h2⟩ := Option.bind_eq_some_iff.1 h
      split at h2
      · obtain ⟨u, hu, h3⟩ := Option.bind_eq_some_iff.1 h2
        exact adjust_kind n u t _ _ (by rw [grow_kind s u _ hu, hk]) h3
      · exact adjust_kind n s t _ _ hk h2

/-- the model's same-type merge for kind `high n`, the dispatch on `kind` resolved -/
theorem mergeSame_high (n : Nat) (s o : DStore) (hk : s.kind = .high n) :
    s.mergeSame o =
      if o.isEmpty then some s
      else (if o.minIndex < s.minIndex ∨ o.maxIndex > s.maxIndex then s.extendRange o.minIndex o.maxIndex
            else some s).bind (fun s1 => mergeFold s1 o) := by
  unfold DStore.mergeSame
  by_cases he : o.isEmpty = true
  · rw [if_pos he, if_pos he]
  · rw [if_neg he, if_neg he]
    have key : ∀ s1 : DStore, s1.kind = .high n →
        (do
          let idxs := idxRange o.minIndex o.maxIndex
          let b ← match s1.kind with
            | .plain =>
              idxs.foldlM (fun b idx => do
                let c ← rd o.bins (idx - o.offset)
                addAt b (idx - s1.offset) c) s1.bins
            | .low _ =>
              idxs.foldlM (fun b idx => do
                let c ← rd o.bins (idx - o.offset)
                if idx < s1.minIndex then addAt b 0 c else addAt b (idx - s1.offset) c) s1.bins
            | .high _ =>
              idxs.foldlM (fun b idx => do
                let c ← rd o.bins (idx - o.offset)
                if idx > s1.maxIndex then addAt b (s1.len - 1) c else addAt b (idx - s1.offset) c) s1.bins
          pure { s1 with bins := b, count := s1.count + o.count }) = mergeFold s1 o := by
      intro s1 hk1
      unfold mergeFold
      simp only [hk1]
      rfl
    by_cases hc : o.minIndex < s.minIndex ∨ o.maxIndex > s.maxIndex
    · rw [if_pos hc, if_pos hc]
      cases hx : s.extendRange o.minIndex o.maxIndex with
      | none => rfl
      | some s1 => exact key s1 (extendRange_kind n s s1 _ _ hk hx)
    · rw [if_neg hc, if_neg hc]
      exact key s hk

/-- fuel for `MergeWith`: the `extendRange` call and the loops over `[o.minIndex, o.maxIndex]` -/
def mergeFuel (s o : DStore) : Nat :=
  max (extendFuel s o.minIndex o.maxIndex) ((o.maxIndex - o.minIndex + 1).toNat + 1)

/-- `MergeWith` of two highest-collapsing stores (any two limits `n`, `m`): the generated code, whose
    loops run DOWNWARDS from `o.maxIndex`, equals the model's single upward fold — result and panics. -/
theorem mergeWith_rel (fuel : Nat) (n : Nat) (m : Int) (s o : DStore) (hk : s.kind = .high n)
    (hf : mergeFuel s o ≤ fuel) :
    Gen.Dense.CollapsingHighestDenseStore.MergeWith fuel (toHigh (n : Int) s) (toHigh m o)
      = toRes (toHigh (n : Int)) (s.mergeSame o) := by
  rw [mergeWith_unfold, mergeSame_high n s o hk]
  unfold mergeFuel at hf
  rw [show Gen.Dense.DenseStore.IsEmpty (toHigh m o).DenseStore = o.isEmpty from rfl]
  by_cases he : o.isEmpty = true
  · rw [if_pos he, if_pos he]; rfl
  · rw [if_neg he, if_neg he]
    by_cases hc : o.minIndex < s.minIndex ∨ o.maxIndex > s.maxIndex
    · have hc' : (decide ((toHigh m o).DenseStore.minIndex < (toHigh (n : Int) s).DenseStore.minIndex)
          || decide ((toHigh (n : Int) s).DenseStore.maxIndex < (toHigh m o).DenseStore.maxIndex)) = true := by
        rw [Bool.or_eq_true, decide_eq_true_eq, decide_eq_true_eq]; exact hc
      rw [if_pos hc', if_pos hc]
      rw [show (toHigh m o).DenseStore.minIndex = o.minIndex from rfl,
        show (toHigh m o).DenseStore.maxIndex = o.maxIndex from rfl,
        extendRange_rel fuel n s _ _ hk (by omega)]
      cases hx : s.extendRange o.minIndex o.maxIndex with
      | none => rfl
      | some s1 =>
        simp only [toRes_some, Res.bind_ok, Option.bind_some]
        exact genTail_spec fuel m n s1 o (by omega)
    · have hc' : ¬ ((decide ((toHigh m o).DenseStore.minIndex < (toHigh (n : Int) s).DenseStore.minIndex)
          || decide ((toHigh (n : Int) s).DenseStore.maxIndex < (toHigh m o).DenseStore.maxIndex)) = true) := by
        rw [Bool.or_eq_true, decide_eq_true_eq, decide_eq_true_eq]; exact hc
      rw [if_neg hc', if_neg hc]
      exact genTail_spec fuel m n s o (by omega)

/-! ### kinds along `normalize` / `addWithCount` / `mergeSame` -/

theorem normalize_kind (n : Nat) (s t : DStore) (i ai : Int) (hk : s.kind = .high n)
    (h : s.normalize i = some (t, ai)) : t.kind = .high n := by
  unfold DStore.normalize at h
  simp only [hk, Option.bind_eq_bind, Option.pure_def] at h
  split at h
  · split at h
    · cases h; exact hk
    · obtain ⟨u, hu, h2⟩ := Option.bind_eq_some_iff.1 h
      have := extendRange_kind n s u i i hk hu
      split at h2 <;> (cases h2; exact this)
  · split at h
    · obtain ⟨u, hu, h2⟩ := Option.bind_eq_some_iff.1 h
      have := extendRange_kind n s u i i hk hu
      cases h2
      exact this
    · cases h; exact hk

theorem addWithCount_kind (n : Nat) (s t : DStore) (i : Int) (c : Rat) (hk : s.kind = .high n)
    (h : s.addWithCount i c = some t) : t.kind = .high n := by
  unfold DStore.addWithCount at h
  split at h
  · cases h; exact hk
  · simp only [Option.bind_eq_bind, Option.bind_eq_some_iff, Option.pure_def, Option.some.injEq] at h
    obtain ⟨p, hn, b, hb, ht⟩ := h
    subst ht
    exact normalize_kind n s p.1 i p.2 hk hn

theorem mergeSame_kind (n : Nat) (s t o : DStore) (hk : s.kind = .high n)
    (h : s.mergeSame o = some t) : t.kind = .high n := by
  rw [mergeSame_high n s o hk] at h
  split at h
  · cases h; exact hk
  · obtain ⟨s1, h1, h2⟩ := Option.bind_eq_some_iff.1 h
    have hk1 : s1.kind = .high n := by
      split at h1
      · exact extendRange_kind n s s1 _ _ hk h1
      · cases h1; exact hk
    unfold mergeFold at h2
    obtain ⟨b, _, h3⟩ := Option.bind_eq_some_iff.1 h2
    cases h3
    exact hk1

/-! ### enough fuel exists: `∃ f0, ∀ fuel ≥ f0, …` -/

theorem adjust_ex (n : Nat) (s : DStore) (a b : Int) (hk : s.kind = .high n) :
    ∃ f0, ∀ fuel, f0 ≤ fuel →
      Gen.Dense.CollapsingHighestDenseStore.adjust fuel (toHigh (n : Int) s) a b
        = toRes (toHigh (n : Int)) (s.adjust a b) :=
  ⟨_, fun fuel hf => adjust_rel fuel n s a b hk hf⟩

theorem extendRange_ex (n : Nat) (s : DStore) (a b : Int) (hk : s.kind = .high n) :
    ∃ f0, ∀ fuel, f0 ≤ fuel →
      Gen.Dense.CollapsingHighestDenseStore.extendRange fuel (toHigh (n : Int) s) a b
        = toRes (toHigh (n : Int)) (s.extendRange a b) :=
  ⟨_, fun fuel hf => extendRange_rel fuel n s a b hk hf⟩

theorem addWithCount_ex (n : Nat) (s : DStore) (i : Int) (c : Rat) (hk : s.kind = .high n) :
    ∃ f0, ∀ fuel, f0 ≤ fuel →
      Gen.Dense.CollapsingHighestDenseStore.AddWithCount fuel (toHigh (n : Int) s) i c
        = toRes (toHigh (n : Int)) (s.addWithCount i c) :=
  ⟨_, fun fuel hf => addWithCount_rel fuel n s i c hk hf⟩

theorem mergeWith_ex (n : Nat) (m : Int) (s o : DStore) (hk : s.kind = .high n) :
    ∃ f0, ∀ fuel, f0 ≤ fuel →
      Gen.Dense.CollapsingHighestDenseStore.MergeWith fuel (toHigh (n : Int) s) (toHigh m o)
        = toRes (toHigh (n : Int)) (s.mergeSame o) :=
  ⟨_, fun fuel hf => mergeWith_rel fuel n m s o hk hf⟩

/-- the `RRel` form of the two main statements -/
theorem addWithCount_RRel (fuel : Nat) (n : Nat) (s : DStore) (i : Int) (c : Rat) (hk : s.kind = .high n)
    (hf : extendFuel s i i ≤ fuel) :
    RRel (toHigh (n : Int)) (s.addWithCount i c)
      (Gen.Dense.CollapsingHighestDenseStore.AddWithCount fuel (toHigh (n : Int) s) i c) :=
  addWithCount_rel fuel n s i c hk hf

theorem mergeWith_RRel (fuel : Nat) (n : Nat) (m : Int) (s o : DStore) (hk : s.kind = .high n)
    (hf : mergeFuel s o ≤ fuel) :
    RRel (toHigh (n : Int)) (s.mergeSame o)
      (Gen.Dense.CollapsingHighestDenseStore.MergeWith fuel (toHigh (n : Int) s) (toHigh m o)) :=
  mergeWith_rel fuel n m s o hk hf

end DDS.GenHigh
