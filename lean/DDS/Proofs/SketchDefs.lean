/-
  DDS.Proofs.SketchDefs — shared vocabulary of the sketch-level theorems:
  * `Store.Refines st c`   : the store `st` observes exactly like the canonical content `c`
  * `Contract env α`       : the mapping contract the oracle `env` is assumed to meet (C03 proves it
                             for the ideal formulas; the harness checks every instance it supplies)
  * `addV`, `fromList`     : adding values through the model's `AddWithCount`, with the index the
                             mapping assigns to the magnitude
  * `zeroSmall`, `sortedInputs` : the ground truth the quantile theorems compare with
-/
import DDS.Model.Sketch
import DDS.Proofs.Bins

namespace DDS

/-- absolute value on `Rat` (core Lean has no `|·|` notation) -/
def rabs (x : Rat) : Rat := if x < 0 then -x else x

/-- a store observes exactly like the content `c` (every observer of the `store.Store` API) -/
structure Store.Refines (st : Store) (c : Content) : Prop where
  wf : c.WF
  total : st.totalCount = c.total
  empty : st.isEmpty = c.isEmpty
  min : st.minIndex? = c.minIndex?
  max : st.maxIndex? = c.maxIndex?
  bins : st.binsList = some c
  kar : c ≠ [] → ∀ r, st.keyAtRank r = c.keyAtRank r

/-- both sides of a sketch refine contents -/
structure Sketch.Refines (s : Sketch) (cp cn : Content) : Prop where
  pos : s.pos.Refines cp
  neg : s.neg.Refines cn

/-- the spec sketch: both stores are plain finite maps -/
def Sketch.spec (m : Option MapId) (cp cn : Content) (z : F64) : Sketch :=
  { mapping := m, pos := .sp cp, neg := .sp cn, zero := z }

/-- The mapping contract (over the rationals that finite floats are). -/
structure Contract (env : MapEnv) (α mn mx : Rat) : Prop where
  minEq : env.minIndexable = .fin mn
  maxEq : env.maxIndexable = .fin mx
  minPos : 0 < mn
  minLeMax : mn ≤ mx
  alphaPos : 0 < α
  alphaLt : α < 1
  /-- representative values are finite and positive -/
  valFin : ∀ i, ∃ r, env.value i = .fin r ∧ 0 < r
  /-- representative values increase with the index -/
  valMono : ∀ i j ri rj, i ≤ j → env.value i = .fin ri → env.value j = .fin rj → ri ≤ rj
  /-- the index does not decrease with the value -/
  idxMono : ∀ v w, mn < v → v ≤ w → w ≤ mx → env.index (.fin v) ≤ env.index (.fin w)
  /-- α-accuracy of the representative of the bin a value falls in -/
  acc : ∀ v r, mn < v → v ≤ mx → env.value (env.index (.fin v)) = .fin r → rabs (r - v) ≤ α * v

/-- `AddWithCount(v, c)` with the index the mapping assigns to `|v|` -/
def Sketch.addV (env : MapEnv) (s : Sketch) (v c : Rat) : Option (Except SkErr Sketch) :=
  s.addWithCount env (.fin v) (.fin c) (env.index (.fin (rabs v)))

/-- add a list of `(value, weight)` pairs; `none` if any step panics or is refused -/
def Sketch.addAll (env : MapEnv) (s : Sketch) : List (Rat × Rat) → Option Sketch
  | [] => some s
  | (v, c) :: rest =>
    match s.addV env v c with
    | some (.ok s') => Sketch.addAll env s' rest
    | _ => none

/-- values no further from zero than the smallest indexable magnitude count as 0 -/
def zeroSmall (mn : Rat) (v : Rat) : Rat := if rabs v ≤ mn then 0 else v

/-- the ground truth: inputs with sub-minimum magnitudes replaced by 0, sorted -/
def sortedInputs (mn : Rat) (xs : List Rat) : List Rat :=
  (xs.map (zeroSmall mn)).mergeSort (fun a b => decide (a ≤ b))

end DDS
