/-
  DDS.Proofs.RoundTrip — lemmas behind `DDS.Props.C06`: what `Sketch.encodeStore` writes denotes the
  store's content (every store kind), and decoding `Wire.encBlocks` of `Sketch.encode` into a spec
  sketch restores mapping, zero bucket and both contents.

  Kernel pitfall (see `DDS.Proofs.Wire`): no decoder is ever reduced on a concrete encoder output;
  the byte level is entered only through `Sketch.decodeLoop_encBlocks`.
-/
import DDS.Proofs.Wire
import DDS.Proofs.Num
import DDS.Proofs.Summary
import DDS.Proofs.Refine
import DDS.Proofs.Paginated
import DDS.Proofs.Collapsing

namespace DDS

open Codec Wire

/-! ## weights that survive the varfloat transform -/

/-- the weight survives the documented `+1 / −1` float transform -/
def VfOK (w : Rat) : Prop := Codec.VarfloatExact w = true

/-- a weight as the library holds it (a binary64) that survives the varfloat transform.
    `VfOK` alone is about rationals: `2^53 + 1` satisfies it without being a float. -/
def WOK (w : Rat) : Prop := F64.isRep w = true ∧ VfOK w

instance (w : Rat) : Decidable (VfOK w) := by unfold VfOK; infer_instance
instance (w : Rat) : Decidable (WOK w) := by unfold WOK; infer_instance

namespace RoundTrip

theorem vfOK_add (w : Rat) (h : VfOK w) : F64.add (.fin w) F64.one = .fin (w + 1) := by
  unfold VfOK Codec.VarfloatExact at h
  cases hs : F64.add (.fin w) F64.one with
  | fin s =>
    rw [hs] at h
    have : s - 1 = w := by simpa using h
    rw [← this]; congr 1; ring
  | pinf => rw [hs] at h; simp at h
  | ninf => rw [hs] at h; simp at h
  | nan => rw [hs] at h; simp at h

theorem vfOK_isRep_succ (w : Rat) (h : VfOK w) : F64.isRep (w + 1) = true := by
  have := vfOK_add w h
  exact F64.isRep_of_roundF64 (x := w + 1) this

theorem vfOK_of_isRep_succ (w : Rat) (h : F64.isRep (w + 1) = true) : VfOK w := by
  unfold VfOK Codec.VarfloatExact
  have : F64.add (.fin w) F64.one = .fin (w + 1) := F64.add_exact w 1 h
  rw [this]
  simp

theorem vfBits_lt (w : Rat) : Sketch.vfBits w < W64 := by
  unfold Sketch.vfBits W64
  exact UInt64.toNat_lt _

theorem vfBitsF_lt (w : F64) : Sketch.vfBitsF w < W64 := by
  unfold Sketch.vfBitsF W64
  exact UInt64.toNat_lt _

theorem vfBitsF_fin (w : Rat) : Sketch.vfBitsF (.fin w) = Sketch.vfBits w := rfl

/-- the heart of the round trip: the float the decoder computes from the bits the encoder writes -/
theorem vfValue_vfBits (w : Rat) (h : WOK w) : Wire.vfValue (Sketch.vfBits w) = .fin w := by
  obtain ⟨hr, hv⟩ := h
  unfold Wire.vfValue Sketch.vfBits
  rw [UInt64.ofNat_toNat, vfOK_add w hv, F64.toBits_ofBits_rep _ (vfOK_isRep_succ w hv)]
  have := F64.sub_exact (w + 1) 1 (by rwa [add_sub_cancel_right])
  rwa [add_sub_cancel_right] at this

theorem wOK_nat (n : Nat) (hn : n < 2 ^ 53) : WOK (n : Rat) :=
  ⟨F64.isRep_nat n (by omega), varfloatExact_nat n hn⟩

theorem wOK_zero : WOK 0 := by
  have := wOK_nat 0 (by norm_num)
  simpa using this

theorem wOK_one : WOK 1 := by
  have := wOK_nat 1 (by norm_num)
  simpa using this

/-- dyadic weights `k / 2^g` with `k < 2^(53-g)` -/
theorem wOK_dyadic (k g : Nat) (hg : g ≤ 52) (hk : k < 2 ^ (53 - g)) :
    WOK ((k : Rat) / 2 ^ g) := by
  have hpow : pow2 (-(g : Int)) = 1 / (2 : Rat) ^ g := by
    rw [pow2_eq_zpow, zpow_neg, zpow_natCast, one_div]
  have hk53 : k < 2 ^ 53 := lt_of_lt_of_le hk (Nat.pow_le_pow_right (by norm_num) (by omega))
  have h2g : 2 ^ g ≤ 2 ^ 52 := Nat.pow_le_pow_right (by norm_num) hg
  have hkg : k + 2 ^ g ≤ 2 ^ 53 := by
    by_cases h0 : g = 0
    · subst h0; simp at hk ⊢; omega
    · have : 2 ^ (53 - g) ≤ 2 ^ 52 := Nat.pow_le_pow_right (by norm_num) (by omega)
      have e : (2:Nat) ^ 53 = 2 ^ 52 + 2 ^ 52 := by norm_num
      omega
  have hlt : ∀ m : Nat, m ≤ 2 ^ 53 → |((m : Int) : Rat)| * pow2 (-(g : Int)) < pow2 1024 := by
    intro m hm
    have h1 : |((m : Int) : Rat)| ≤ pow2 53 := by
      rw [F64.pow2_53, abs_of_nonneg (by positivity)]
      exact_mod_cast hm
    have h2 : pow2 (-(g : Int)) ≤ 1 := by
      rw [← pow2_zero]; exact pow2_mono (by omega)
    calc |((m : Int) : Rat)| * pow2 (-(g : Int)) ≤ pow2 53 * 1 :=
          mul_le_mul h1 h2 (pow2_pos _).le (pow2_pos _).le
      _ < pow2 1024 := by rw [mul_one]; exact pow2_strictMono (by norm_num)
  have habs : ∀ m : Nat, m ≤ 2 ^ 53 → |(m : Int)| ≤ 2 ^ 53 := by
    intro m hm
    rw [abs_of_nonneg (by positivity)]
    exact_mod_cast hm
  constructor
  · have := F64.isRep_dyadic (k : Int) (-(g : Int)) (habs k hk53.le) (by omega) (hlt k hk53.le)
    rw [hpow] at this
    have e : (((k : Nat) : Int) : Rat) * (1 / 2 ^ g) = (k : Rat) / 2 ^ g := by
      push_cast
      ring
    rwa [e] at this
  · apply vfOK_of_isRep_succ
    have := F64.isRep_dyadic ((k + 2 ^ g : Nat) : Int) (-(g : Int)) (habs _ hkg) (by omega)
      (hlt _ hkg)
    rw [hpow] at this
    have e : (((k + 2 ^ g : Nat) : Int) : Rat) * (1 / 2 ^ g) = (k : Rat) / 2 ^ g + 1 := by
      push_cast
      field_simp
    rwa [e] at this

/-! ## float bins that denote a content -/

/-- rational bins as the float bins a decoder reads -/
def finBins (l : List (Int × Rat)) : List (Int × F64) := l.map (fun p => (p.1, F64.fin p.2))

theorem finBins_append (a b : List (Int × Rat)) : finBins (a ++ b) = finBins a ++ finBins b := by
  simp [finBins]

/-- the bins of one side of a documentation content -/
def sideBins (d : Wire.Doc) : Side → List (Int × F64)
  | .pos => d.pos
  | .neg => d.neg

def otherSide : Side → Side
  | .pos => .neg
  | .neg => .pos

/-- the float bins `fb` are finite and non-negative, and add up, index by index, to the content `c`
    (zero weights and repeated indexes allowed: `Content.add _ _ 0` is a no-op) -/
def Denotes (fb : List (Int × F64)) (c : Content) : Prop :=
  ∃ L : List (Int × Rat), fb = finBins L ∧ (∀ p ∈ L, 0 ≤ p.2) ∧
    ∀ j, Content.lookup L j = c.lookup j

theorem foldlM_addPair_finBins (c : Content) (l : List (Int × Rat)) :
    (finBins l).foldlM Sketch.addPair c = some (c.merge l) := by
  induction l generalizing c with
  | nil => rfl
  | cons p l ih =>
    simp only [finBins, List.map_cons, List.foldlM_cons, Sketch.addPair] at ih ⊢
    rw [Content.merge_cons]
    exact ih _

theorem finiteBins_finBins (l : List (Int × Rat)) : Sketch.FiniteBins (finBins l) := by
  intro p hp
  obtain ⟨q, _, rfl⟩ := List.mem_map.1 hp
  rfl

theorem Denotes.finite {fb c} (h : Denotes fb c) : Sketch.FiniteBins fb := by
  obtain ⟨L, rfl, _, _⟩ := h
  exact finiteBins_finBins L

/-- merged into a receiver content `a`, the bins give the pointwise sum `a.merge c` -/
theorem Denotes.merge {fb c} (h : Denotes fb c) (hc : c.WF) (a : Content) (ha : a.WF) :
    fb.foldlM Sketch.addPair a = some (a.merge c) := by
  obtain ⟨L, rfl, hnn, hl⟩ := h
  rw [foldlM_addPair_finBins]
  congr 1
  apply Content.ext _ _ (Content.wf_merge_of_nonneg a L ha hnn) (Content.wf_merge a c ha hc)
  intro j
  rw [Content.lookup_merge, Content.lookup_merge, hl]

theorem Denotes.contentOf {fb c} (h : Denotes fb c) (hc : c.WF) : Wire.contentOf fb = some c := by
  rw [Sketch.contentOf_eq, h.merge hc [] Content.wf_nil, Content.merge_nil_left c hc]

theorem Denotes.nil : Denotes [] [] := ⟨[], rfl, by simp, fun _ => rfl⟩

/-! ## index deltas -/

/-- the `(index delta, count bits)` items the encoders write, starting from index `prev` -/
def deltaRec (prev : Int) : List (Int × Rat) → List (Int × Nat)
  | [] => []
  | p :: rest => (p.1 - prev, Sketch.vfBits p.2) :: deltaRec p.1 rest

theorem delta_foldl (l : List (Int × Rat)) (prev : Int) (acc : List (Int × Nat)) :
    (l.foldl (fun (acc : Int × List (Int × Nat)) p =>
        (p.1, (p.1 - acc.1, Sketch.vfBits p.2) :: acc.2)) (prev, acc)).2.reverse
      = acc.reverse ++ deltaRec prev l := by
  induction l generalizing prev acc with
  | nil => simp [deltaRec]
  | cons p l ih => simp [List.foldl_cons, ih, deltaRec]

theorem deltaRec_length (prev : Int) (l : List (Int × Rat)) : (deltaRec prev l).length = l.length := by
  induction l generalizing prev with
  | nil => rfl
  | cons p l ih => simp [deltaRec, ih]

theorem dcBins_deltaRec (prev : Int) (l : List (Int × Rat)) (hw : ∀ p ∈ l, WOK p.2) :
    Sketch.dcBins prev (deltaRec prev l) = finBins l := by
  induction l generalizing prev with
  | nil => rfl
  | cons p l ih =>
    simp only [deltaRec, Sketch.dcBins, finBins, List.map_cons]
    rw [vfValue_vfBits p.2 (hw p (by simp)), show prev + (p.1 - prev) = p.1 by omega]
    congr 1
    exact ih p.1 (fun q hq => hw q (by simp [hq]))

open PStore (Idx32)

theorem i64_sub_of_idx32 (a b : Int) (ha : Idx32 a) (hb : Idx32 b) : I64 (a - b) := by
  unfold Idx32 minInt32 maxInt32 at *
  unfold I64
  omega

theorem idx32_zero : Idx32 0 := by unfold Idx32 minInt32 maxInt32; omega

theorem deltaRec_wf (prev : Int) (hp : Idx32 prev) (l : List (Int × Rat))
    (hk : ∀ p ∈ l, Idx32 p.1) : ∀ q ∈ deltaRec prev l, I64 q.1 ∧ q.2 < W64 := by
  induction l generalizing prev with
  | nil => intro q hq; simp [deltaRec] at hq
  | cons p l ih =>
    intro q hq
    simp only [deltaRec, List.mem_cons] at hq
    rcases hq with rfl | hq
    · exact ⟨i64_sub_of_idx32 _ _ (hk p (by simp)) hp, vfBits_lt _⟩
    · exact ih p.1 (hk p (by simp)) (fun r hr => hk r (by simp [hr])) q hq

/-! ## one block of bins -/

/-- the block carries bins of the given side -/
def IsBins (side : Side) (b : Block) : Prop := ∃ p, b = .bins side p

theorem interp_single_bins (side : Side) (p : BinsPayload) :
    sideBins (interp [.bins side p]) side = payloadBins p ∧
    sideBins (interp [.bins side p]) (otherSide side) = [] ∧
    zeroIncrements [.bins side p] = [] ∧ (interp [.bins side p]).mappings = [] := by
  cases side <;> simp [interp_eq, interpStep, sideBins, otherSide, zeroIncrements]

theorem sideBins_append (a b : List Block) (side : Side) :
    sideBins (interp (a ++ b)) side = sideBins (interp a) side ++ sideBins (interp b) side := by
  have := interp_append a b
  cases side
  · exact this.2.1
  · exact this.2.2.1

theorem sideBins_nil (side : Side) : sideBins (interp []) side = [] := by
  cases side <;> rfl

/-! ## the sparse store -/

/-- key range of a content: every index is an int32 -/
def Keys32 (c : Content) : Prop := ∀ p ∈ c, Idx32 p.1

theorem length_lt_of_keys32 (c : Content) (hs : c.Sorted) (hk : Keys32 c) : c.length < W64 := by
  have := Content.length_le_of_sorted_range c hs minInt32 (2 ^ 32) (by
    intro p hp
    have := hk p hp
    unfold Idx32 minInt32 maxInt32 at *
    omega)
  unfold W64
  omega

theorem encodeStore_sp_nil (side : Side) : Sketch.encodeStore (.sp []) side = some (.sp [], []) := rfl

theorem encodeStore_sp_cons (p : Int × Rat) (c : Content) (side : Side) :
    Sketch.encodeStore (.sp (p :: c)) side =
      some (.sp (p :: c), [.bins side (.deltasCounts (deltaRec 0 (p :: c)))]) := by
  have := delta_foldl (p :: c) 0 []
  simp only [List.reverse_nil, List.nil_append] at this
  simp only [Sketch.encodeStore, Content.isEmpty, List.isEmpty_cons, Bool.false_eq_true, if_false]
  rw [this]

/-- one `deltasCounts` block written from a rational bin list -/
theorem deltasCounts_block (side : Side) (L : List (Int × Rat)) (hlen : L.length < W64)
    (hk : ∀ p ∈ L, Idx32 p.1) (hw : ∀ p ∈ L, WOK p.2) :
    (Block.bins side (.deltasCounts (deltaRec 0 L))).WF ∧
    (Block.bins side (.deltasCounts (deltaRec 0 L))).FiniteWeights ∧
    sideBins (interp [.bins side (.deltasCounts (deltaRec 0 L))]) side = finBins L := by
  have hb : payloadBins (.deltasCounts (deltaRec 0 L)) = finBins L := by
    rw [Sketch.payloadBins_dc, dcBins_deltaRec 0 L hw]
  refine ⟨?_, ?_, ?_⟩
  · show (deltaRec 0 L).length < W64 ∧ _
    rw [deltaRec_length]
    exact ⟨hlen, deltaRec_wf 0 idx32_zero L hk⟩
  · show Sketch.FiniteBins _
    rw [hb]; exact finiteBins_finBins L
  · rw [(interp_single_bins side _).1, hb]

theorem encodeStore_sparse (c : Content) (hc : c.WF) (hw : ∀ p ∈ c, WOK p.2) (hk : Keys32 c)
    (side : Side) :
    ∃ bl, Sketch.encodeStore (.sp c) side = some (.sp c, bl) ∧
      (∀ b ∈ bl, b.WF ∧ b.FiniteWeights ∧ IsBins side b) ∧
      Denotes (sideBins (interp bl) side) c := by
  cases c with
  | nil =>
    refine ⟨[], rfl, by simp, ?_⟩
    rw [sideBins_nil]; exact Denotes.nil
  | cons p c =>
    obtain ⟨h1, h2, h3⟩ := deltasCounts_block side (p :: c) (length_lt_of_keys32 _ hc.1 hk) hk hw
    refine ⟨_, encodeStore_sp_cons p c side, ?_, ?_⟩
    · intro b hb
      rw [List.mem_singleton] at hb
      subst hb
      exact ⟨h1, h2, _, rfl⟩
    · rw [h3]
      exact ⟨p :: c, rfl, fun q hq => (hc.2 q hq).le, fun _ => rfl⟩

/-! ## the fold `applyBlocks` on the block list an encoder writes -/

open Sketch (applyBlock applyBlocks andThen addBins addPair DecAux)

theorem applyBlocks_append (s : Sketch) (aux : DecAux) (a b : List Block) :
    applyBlocks s aux (a ++ b) =
      andThen (applyBlocks s aux a) (fun s' aux' => applyBlocks s' aux' b) := by
  induction a generalizing s aux with
  | nil => rfl
  | cons x a ih =>
    simp only [List.cons_append, applyBlocks]
    cases applyBlock s aux x with
    | none => rfl
    | some r =>
      cases r with
      | error e => rfl
      | ok r => exact ih r.1 r.2

theorem applyBlocks_append_ok (s s1 : Sketch) (aux aux1 : DecAux) (a b : List Block)
    (h : applyBlocks s aux a = some (.ok (s1, aux1))) :
    applyBlocks s aux (a ++ b) = applyBlocks s1 aux1 b := by
  rw [applyBlocks_append, h]; rfl

def getSide (s : Sketch) : Side → Store
  | .pos => s.pos
  | .neg => s.neg

def setSide (s : Sketch) : Side → Store → Sketch
  | .pos, st => { s with pos := st }
  | .neg, st => { s with neg := st }

theorem applyBlock_bins (s : Sketch) (aux : DecAux) (side : Side) (p : BinsPayload) :
    applyBlock s aux (.bins side p) =
      (match addBins (getSide s side) (payloadBins p) with
       | none => none
       | some st => some (.ok (setSide s side st, aux))) := by
  cases side <;> rfl

theorem getSide_setSide (s : Sketch) (side : Side) (st : Store) :
    getSide (setSide s side st) side = st := by cases side <;> rfl

theorem setSide_setSide (s : Sketch) (side : Side) (st st' : Store) :
    setSide (setSide s side st) side st' = setSide s side st' := by cases side <;> rfl

/-- a run of bins blocks of one side, folded into a receiver whose store of that side is the spec
    store `.sp c` -/
theorem applyBlocks_bins (side : Side) (bl : List Block) (hb : ∀ b ∈ bl, IsBins side b)
    (s : Sketch) (aux : DecAux) (c c' : Content) (hs : getSide s side = .sp c)
    (h : (sideBins (interp bl) side).foldlM addPair c = some c') :
    applyBlocks s aux bl = some (.ok (setSide s side (.sp c'), aux)) := by
  induction bl generalizing s c with
  | nil =>
    rw [sideBins_nil] at h
    simp only [List.foldlM_nil, Option.pure_def, Option.some.injEq] at h
    subst h
    have : setSide s side (.sp c) = s := by
      cases side
      · simp only [getSide] at hs; simp only [setSide, ← hs]
      · simp only [getSide] at hs; simp only [setSide, ← hs]
    rw [this]; rfl
  | cons b bl ih =>
    obtain ⟨p, rfl⟩ := hb b (by simp)
    have happ := sideBins_append [.bins side p] bl side
    rw [List.singleton_append, (interp_single_bins side p).1] at happ
    rw [happ, List.foldlM_append] at h
    cases h1 : (payloadBins p).foldlM addPair c with
    | none => rw [h1] at h; simp at h
    | some c1 =>
      rw [h1] at h
      simp only [Option.bind_eq_bind, Option.bind_some] at h
      simp only [applyBlocks, applyBlock_bins, hs, Sketch.addBins_sp, h1, Option.map_some]
      rw [ih (fun b hb' => hb b (by simp [hb'])) (setSide s side (.sp c1)) c1
        (getSide_setSide _ _ _) h, setSide_setSide]

/-! ## mapping blocks -/

/-- the mapping survives its bit patterns, and a decoder accepts its `gamma` -/
structure MapOK (m : MapId) : Prop where
  gamma : F64.ofBits m.gamma.toBits = m.gamma
  offset : F64.ofBits m.indexOffset.toBits = m.indexOffset
  gt : F64.le m.gamma (.fin 1) = false

theorem ofBlock_toBlock (m : MapId) (hm : MapOK m) :
    MapId.ofBlock (MapId.subFlag m.kind) m.gamma.toBits.toNat m.indexOffset.toBits.toNat = .ok m := by
  obtain ⟨k, g, o⟩ := m
  obtain ⟨h1, h2, h3⟩ := hm
  simp only at h1 h2 h3
  unfold MapId.ofBlock
  simp only [UInt64.ofNat_toNat, h1, h2, h3]
  cases k <;> simp (decide := true)

theorem toBlock_wf (m : MapId) : m.toBlock.WF := by
  refine ⟨?_, UInt64.toNat_lt _, UInt64.toNat_lt _⟩
  cases m.kind <;> simp (decide := true)

/-- the receiver accepts the mapping `m`: it has none, or one that `Equals` it -/
def Accepts (m0 : Option MapId) (m : MapId) : Prop :=
  m0 = none ∨ ∃ cur, m0 = some cur ∧ cur.equals m = true

theorem applyBlocks_mapping (s : Sketch) (aux : DecAux) (m : MapId) (hm : MapOK m)
    (hacc : Accepts s.mapping m) :
    applyBlocks s aux [m.toBlock] = some (.ok ({ s with mapping := some m }, aux)) := by
  have hr : Sketch.mapResult s (MapId.subFlag m.kind) m.gamma.toBits.toNat m.indexOffset.toBits.toNat
      = .ok { s with mapping := some m } := by
    unfold Sketch.mapResult
    rw [ofBlock_toBlock m hm]
    rcases hacc with h | ⟨cur, h, he⟩
    · simp only [h]
    · simp only [h, he, if_true]
  simp only [applyBlocks, MapId.toBlock, applyBlock, hr]

/-! ## the blocks of `Sketch.encode`, folded into a spec receiver -/

/-- the zero-count block list of `Sketch.encode` for a finite zero bucket -/
def zeroBlocks (z : Rat) : List Block := if z = 0 then [] else [.zeroCount (Sketch.vfBits z)]

/-- the mapping block list of `Sketch.encode` -/
def mapBlocks (m : MapId) (om : Bool) : List Block := if om then [] else [m.toBlock]

/-- the zero bucket after decoding a zero bucket `z` into a receiver holding `z0` -/
def zeroAfter (z0 : F64) (z : Rat) : F64 := if z = 0 then z0 else F64.add z0 (.fin z)

theorem applyBlocks_zero (s : Sketch) (aux : DecAux) (z : Rat) (hz : WOK z) :
    applyBlocks s aux (zeroBlocks z) = some (.ok ({ s with zero := zeroAfter s.zero z }, aux)) := by
  unfold zeroBlocks zeroAfter
  by_cases h : z = 0
  · simp only [h, if_true]; rfl
  · simp only [h, if_false, applyBlocks, applyBlock, vfValue_vfBits z hz]

/-- what `encodeStore` does on a store that observes like `c`: it returns a store that still
    observes like `c`, and blocks of that side that denote `c` -/
def StoreEncodes (st : Store) (side : Side) (c : Content) : Prop :=
  ∃ st' bl, Sketch.encodeStore st side = some (st', bl) ∧ st'.Refines c ∧
    (∀ b ∈ bl, b.WF ∧ b.FiniteWeights ∧ IsBins side b) ∧
    Denotes (sideBins (interp bl) side) c

theorem storeEncodes_sparse (c : Content) (hc : c.WF) (hw : ∀ p ∈ c, WOK p.2) (hk : Keys32 c)
    (side : Side) : StoreEncodes (.sp c) side c := by
  obtain ⟨bl, h1, h2, h3⟩ := encodeStore_sparse c hc hw hk side
  exact ⟨_, bl, h1, Store.refines_sparse c hc, h2, h3⟩

/-- the block list of `Sketch.encode`, given the two store block lists -/
def sketchBlocks (m : MapId) (om : Bool) (z : Rat) (pb nb : List Block) : List Block :=
  zeroBlocks z ++ mapBlocks m om ++ pb ++ nb

theorem encode_eq (s : Sketch) (m : MapId) (z : Rat) (om : Bool) (p n : Store)
    (pb nb : List Block) (hm : s.mapping = some m) (hz : s.zero = .fin z)
    (hp : Sketch.encodeStore s.pos .pos = some (p, pb))
    (hn : Sketch.encodeStore s.neg .neg = some (n, nb)) :
    s.encode om = some ({ s with pos := p, neg := n }, sketchBlocks m om z pb nb) := by
  unfold Sketch.encode sketchBlocks zeroBlocks mapBlocks
  simp only [hp, hn, hm, hz, Option.bind_eq_bind, Option.bind_some, Option.pure_def,
    vfBitsF_fin]
  have e : F64.ne (.fin z) (.fin 0) = !decide (z = 0) := by
    by_cases h0 : z = 0 <;> simp [F64.ne, F64.eq, h0]
  rw [e]
  by_cases h0 : z = 0 <;> cases om <;> simp [h0]

theorem sketchBlocks_wf (m : MapId) (om : Bool) (z : Rat) (pb nb : List Block)
    (hpb : ∀ b ∈ pb, b.WF) (hnb : ∀ b ∈ nb, b.WF) :
    ∀ b ∈ sketchBlocks m om z pb nb, b.WF := by
  intro b hb
  unfold sketchBlocks zeroBlocks mapBlocks at hb
  simp only [List.mem_append] at hb
  rcases hb with ((hb | hb) | hb) | hb
  · split at hb
    · simp at hb
    · rw [List.mem_singleton] at hb; subst hb; exact vfBits_lt z
  · split at hb
    · simp at hb
    · rw [List.mem_singleton] at hb; subst hb; exact toBlock_wf m
  · exact hpb b hb
  · exact hnb b hb

/-- The fold of the blocks of `Sketch.encode` over a spec receiver: mapping set, zero bucket
    added, both contents merged.  `aux` (the statistics of the exact-summary variant) is untouched. -/
theorem applyBlocks_sketchBlocks (m : MapId) (hm : MapOK m) (om : Bool) (z : Rat) (hz : WOK z)
    (pb nb : List Block) (cp cn : Content) (hcp : cp.WF) (hcn : cn.WF)
    (hpb : ∀ b ∈ pb, IsBins .pos b) (hnb : ∀ b ∈ nb, IsBins .neg b)
    (hdp : Denotes (sideBins (interp pb) .pos) cp) (hdn : Denotes (sideBins (interp nb) .neg) cn)
    (m0 : Option MapId) (hm0 : if om then m0 = some m else Accepts m0 m)
    (a b : Content) (ha : a.WF) (hb : b.WF) (z0 : F64) (aux : DecAux) :
    applyBlocks (Sketch.spec m0 a b z0) aux (sketchBlocks m om z pb nb) =
      some (.ok (Sketch.spec (some m) (a.merge cp) (b.merge cn) (zeroAfter z0 z), aux)) := by
  unfold sketchBlocks
  rw [List.append_assoc, List.append_assoc,
    applyBlocks_append_ok _ _ _ _ _ _ (applyBlocks_zero _ aux z hz)]
  show applyBlocks (Sketch.spec m0 a b (zeroAfter z0 z)) aux _ = _
  have hmap : applyBlocks (Sketch.spec m0 a b (zeroAfter z0 z)) aux (mapBlocks m om)
      = some (.ok (Sketch.spec (some m) a b (zeroAfter z0 z), aux)) := by
    unfold mapBlocks
    cases om with
    | true =>
      simp only [if_true] at hm0
      subst hm0
      rfl
    | false =>
      simp only [Bool.false_eq_true, if_false] at hm0 ⊢
      exact applyBlocks_mapping _ aux m hm hm0
  rw [applyBlocks_append_ok _ _ _ _ _ _ hmap]
  have hpos := applyBlocks_bins .pos pb hpb (Sketch.spec (some m) a b (zeroAfter z0 z)) aux a
    (a.merge cp) rfl (hdp.merge hcp a ha)
  rw [applyBlocks_append_ok _ _ _ _ _ _ hpos]
  exact applyBlocks_bins .neg nb hnb _ aux b (b.merge cn) rfl (hdn.merge hcn b hb)

/-- from the fold to the byte level: `decodeAndMergeWith` on the encoded bytes -/
theorem decodeAndMergeWith_encBlocks (s s' : Sketch) (aux' : DecAux) (bl : List Block)
    (hwf : ∀ b ∈ bl, b.WF)
    (h : applyBlocks s { stats := none } bl = some (.ok (s', aux')))
    (hm : s'.mapping.isNone = false) :
    Sketch.decodeAndMergeWith s (encBlocks bl) = some (.ok s') := by
  have hl := encBlocks_length_ge bl
  unfold Sketch.decodeAndMergeWith
  rw [Sketch.decodeLoop_encBlocks bl hwf _ (by omega), h]
  simp only [hm, Bool.false_eq_true, if_false]

/-! ## contiguous blocks -/

/-- consecutive indexes from `start`, one per count -/
def seqBins (start : Int) : List Rat → List (Int × Rat)
  | [] => []
  | y :: rest => (start, y) :: seqBins (start + 1) rest

theorem ccBins_vf (start : Int) (ys : List Rat) (hw : ∀ y ∈ ys, WOK y) :
    Sketch.ccBins 1 start (ys.map Sketch.vfBits) = finBins (seqBins start ys) := by
  induction ys generalizing start with
  | nil => rfl
  | cons y ys ih =>
    simp only [List.map_cons, Sketch.ccBins, seqBins, finBins]
    rw [vfValue_vfBits y (hw y (by simp))]
    congr 1
    exact ih (start + 1) (fun q hq => hw q (by simp [hq]))

theorem seqBins_nonneg (start : Int) (ys : List Rat) (h : ∀ y ∈ ys, 0 ≤ y) :
    ∀ p ∈ seqBins start ys, 0 ≤ p.2 := by
  induction ys generalizing start with
  | nil => intro p hp; simp [seqBins] at hp
  | cons y ys ih =>
    intro p hp
    simp only [seqBins, List.mem_cons] at hp
    rcases hp with rfl | hp
    · exact h y (by simp)
    · exact ih (start + 1) (fun q hq => h q (by simp [hq])) p hp

theorem seqBins_keys (start : Int) (ys : List Rat) :
    ∀ p ∈ seqBins start ys, start ≤ p.1 ∧ p.1 < start + ys.length := by
  induction ys generalizing start with
  | nil => intro p hp; simp [seqBins] at hp
  | cons y ys ih =>
    intro p hp
    simp only [seqBins, List.mem_cons] at hp
    rcases hp with rfl | hp
    · simp only [List.length_cons]; omega
    · have := ih (start + 1) p hp
      simp only [List.length_cons]; omega

/-- one `contiguous` block with stride 1 written from a list of counts -/
theorem contiguous_block (side : Side) (start : Int) (hs : Idx32 start) (ys : List Rat)
    (hlen : ys.length < W64) (hw : ∀ y ∈ ys, WOK y) :
    (Block.bins side (.contiguous start 1 (ys.map Sketch.vfBits))).WF ∧
    (Block.bins side (.contiguous start 1 (ys.map Sketch.vfBits))).FiniteWeights ∧
    sideBins (interp [.bins side (.contiguous start 1 (ys.map Sketch.vfBits))]) side
      = finBins (seqBins start ys) := by
  have hb : payloadBins (.contiguous start 1 (ys.map Sketch.vfBits)) = finBins (seqBins start ys) := by
    rw [Sketch.payloadBins_cc, ccBins_vf start ys hw]
  refine ⟨?_, ?_, ?_⟩
  · show (ys.map Sketch.vfBits).length < W64 ∧ I64 start ∧ I64 1 ∧ _
    rw [List.length_map]
    refine ⟨hlen, ?_, ?_, ?_⟩
    · unfold Idx32 minInt32 maxInt32 at hs; unfold I64; omega
    · unfold I64; omega
    · intro c hc
      obtain ⟨y, _, rfl⟩ := List.mem_map.1 hc
      exact vfBits_lt y
  · show Sketch.FiniteBins _
    rw [hb]; exact finiteBins_finBins _
  · rw [(interp_single_bins side _).1, hb]

/-! ## the dense stores (plain and collapsing: one encoder) -/

open DStore (wt irange idxRange_eq irange_succ_left rd at0)

theorem mapM_eq_some_map {α β} (f : α → Option β) (g : α → β) (l : List α)
    (h : ∀ x ∈ l, f x = some (g x)) : l.mapM f = some (l.map g) := by
  induction l with
  | nil => rfl
  | cons a l ih =>
    rw [List.mapM_cons, h a (by simp), ih (fun x hx => h x (by simp [hx]))]
    rfl

theorem seqBins_irange (lo : Int) (n : Nat) (f : Int → Rat) :
    seqBins lo ((irange lo n).map f) = (irange lo n).map (fun i => (i, f i)) := by
  induction n generalizing lo with
  | zero => rfl
  | succ n ih =>
    rw [irange_succ_left, List.map_cons, List.map_cons, seqBins, ih (lo + 1)]

theorem zip_irange (lo : Int) (n : Nat) (f : Int → Rat) :
    (irange lo n).zip ((irange lo n).map f) = (irange lo n).map (fun i => (i, f i)) := by
  induction (irange lo n) with
  | nil => rfl
  | cons a l ih => simp [ih]

theorem lookup_irange_map (lo : Int) (n : Nat) (f : Int → Rat) (j : Int) :
    Content.lookup ((irange lo n).map (fun i => (i, f i))) j =
      if lo ≤ j ∧ j < lo + n then f j else 0 := by
  induction n generalizing lo with
  | zero =>
    rw [if_neg (by omega)]; rfl
  | succ n ih =>
    rw [irange_succ_left, List.map_cons, Content.lookup_cons, ih (lo + 1)]
    by_cases h1 : lo = j
    · subst h1
      rw [if_pos rfl, if_neg (by omega), if_pos (by omega), add_zero]
    · rw [if_neg h1, zero_add]
      by_cases h2 : lo + 1 ≤ j ∧ j < lo + 1 + (n : Int)
      · rw [if_pos h2, if_pos (by omega)]
      · rw [if_neg h2, if_neg (by omega)]

theorem lookup_filter_ne_zero (L : List (Int × Rat)) (j : Int) :
    Content.lookup (L.filter (fun p => p.2 ≠ 0)) j = Content.lookup L j := by
  induction L with
  | nil => rfl
  | cons p L ih =>
    by_cases hp : p.2 = 0
    · rw [List.filter_cons_of_neg (by simp [hp]), ih, Content.lookup_cons, hp]
      simp
    · rw [List.filter_cons_of_pos (by simp [hp]), Content.lookup_cons, Content.lookup_cons, ih]

/-- what the dense encoder needs of a store of any of the three dense kinds -/
structure DenseOK (s : DStore) : Prop where
  nonneg : ∀ j, 0 ≤ wt s j
  outside : ∀ i, (i < s.minIndex ∨ s.maxIndex < i) → wt s i = 0
  window : s.count ≠ 0 → s.offset ≤ s.minIndex ∧ s.minIndex ≤ s.maxIndex ∧
    s.maxIndex < s.offset + s.len
  emptyWin : s.count = 0 → s.maxIndex < s.minIndex
  range : s.count ≠ 0 → Idx32 s.minIndex ∧ Idx32 s.maxIndex
  wok : ∀ j, WOK (wt s j)

/-- the two block lists `encodeDense` chooses between, by encoded size -/
theorem encodeDense_cases (s : DStore) (side : Side) (hne : s.isEmpty = false) (counts : List Rat)
    (hc : (DStore.idxRange s.minIndex s.maxIndex).mapM (fun i => rd s.bins (i - s.offset))
      = some counts) :
    Sketch.encodeDense s side
        = some [.bins side (.contiguous s.minIndex 1 (counts.map Sketch.vfBits))] ∨
    Sketch.encodeDense s side
        = some [.bins side (.deltasCounts (deltaRec 0
            (((DStore.idxRange s.minIndex s.maxIndex).zip counts).filter (fun p => p.2 ≠ 0))))] := by
  have hd := delta_foldl (((DStore.idxRange s.minIndex s.maxIndex).zip counts).filter
    (fun p => p.2 ≠ 0)) 0 []
  simp only [List.reverse_nil, List.nil_append] at hd
  unfold Sketch.encodeDense
  simp only [hne, Bool.false_eq_true, if_false, hc, Option.bind_eq_bind, Option.bind_some]
  split
  · left; rfl
  · right
    rw [hd]; rfl

theorem DenseOK.content_spec {s : DStore} (hd : DenseOK s) :
    s.binsList = some (DStore.content s) ∧ (DStore.content s).WF ∧
      ∀ j, (DStore.content s).lookup j = wt s j := by
  apply DStore.content_spec_gen s hd.nonneg hd.outside
  intro idx h1 h2
  by_cases h0 : s.count = 0
  · have := hd.emptyWin h0
    omega
  · obtain ⟨w1, w2, w3⟩ := hd.window h0
    unfold DStore.len at w3
    omega

/-- the dense encoder (either layout) writes blocks that denote any content with `lookup = wt` -/
theorem encodeDense_denotes (s : DStore) (hd : DenseOK s) (c : Content)
    (hlook : ∀ j, c.lookup j = wt s j) (side : Side) :
    ∃ bl, Sketch.encodeStore (.d s) side = some (.d s, bl) ∧
      (∀ b ∈ bl, b.WF ∧ b.FiniteWeights ∧ IsBins side b) ∧
      Denotes (sideBins (interp bl) side) c := by
  by_cases h0 : s.count = 0
  · -- empty: no block
    have he : s.isEmpty = true := (DStore.isEmpty_iff_count s).2 h0
    refine ⟨[], ?_, by simp, ?_⟩
    · simp [Sketch.encodeStore, Sketch.encodeDense, he]
    · rw [sideBins_nil]
      refine ⟨[], rfl, by simp, fun j => ?_⟩
      have := hd.emptyWin h0
      rw [hlook, hd.outside j (by omega)]
      rfl
  · have hne : s.isEmpty = false := by
      cases h : s.isEmpty with
      | false => rfl
      | true => exact absurd ((DStore.isEmpty_iff_count s).1 h) h0
    obtain ⟨w1, w2, w3⟩ := hd.window h0
    obtain ⟨r1, r2⟩ := hd.range h0
    have hlen : ((s.maxIndex - s.minIndex + 1).toNat : Int) = s.maxIndex - s.minIndex + 1 := by
      omega
    have hin : ∀ idx, s.minIndex ≤ idx →
        idx < s.minIndex + ((s.maxIndex - s.minIndex + 1).toNat : Int) →
        0 ≤ idx - s.offset ∧ idx - s.offset < s.bins.size := by
      intro idx h1 h2
      unfold DStore.len at w3
      omega
    -- the counts read by the encoder
    obtain ⟨n, hn⟩ : ∃ n, n = (s.maxIndex - s.minIndex + 1).toNat := ⟨_, rfl⟩
    have hnlt : n < W64 := by
      unfold Idx32 minInt32 maxInt32 at r1 r2
      unfold W64
      omega
    have hcounts : (DStore.idxRange s.minIndex s.maxIndex).mapM (fun i => rd s.bins (i - s.offset))
        = some ((irange s.minIndex n).map (wt s)) := by
      rw [idxRange_eq, ← hn]
      apply mapM_eq_some_map
      intro i hi
      simp only [irange, List.mem_map, List.mem_range] at hi
      obtain ⟨k, hk, rfl⟩ := hi
      exact DStore.rd_eq _ _ (hin _ (by omega) (by omega))
    have hL : ∀ j, Content.lookup ((irange s.minIndex n).map (fun i => (i, wt s i))) j
        = c.lookup j := by
      intro j
      rw [lookup_irange_map, hlook]
      split
      · rfl
      · rename_i hj
        exact (hd.outside j (by omega)).symm
    have hnn : ∀ p ∈ (irange s.minIndex n).map (fun i => (i, wt s i)), 0 ≤ p.2 := by
      intro p hp
      obtain ⟨i, _, rfl⟩ := List.mem_map.1 hp
      exact hd.nonneg i
    have hkeys : ∀ p ∈ (irange s.minIndex n).map (fun i => (i, wt s i)), Idx32 p.1 := by
      intro p hp
      obtain ⟨i, hi, rfl⟩ := List.mem_map.1 hp
      simp only [irange, List.mem_map, List.mem_range] at hi
      obtain ⟨k, hk, rfl⟩ := hi
      unfold Idx32 at *
      simp only
      omega
    have hwok : ∀ p ∈ (irange s.minIndex n).map (fun i => (i, wt s i)), WOK p.2 := by
      intro p hp
      obtain ⟨i, _, rfl⟩ := List.mem_map.1 hp
      exact hd.wok i
    rcases encodeDense_cases s side hne _ hcounts with he | he
    · -- contiguous layout: zero counts inside the window are written and add nothing
      obtain ⟨b1, b2, b3⟩ := contiguous_block side s.minIndex r1 ((irange s.minIndex n).map (wt s))
        (by rw [List.length_map]; simpa [irange] using hnlt)
        (fun y hy => by obtain ⟨i, _, rfl⟩ := List.mem_map.1 hy; exact hd.wok i)
      refine ⟨_, by simp only [Sketch.encodeStore, he, Option.map_some]; rfl, ?_, ?_⟩
      · intro b hb'
        rw [List.mem_singleton] at hb'
        subst hb'
        exact ⟨b1, b2, _, rfl⟩
      · rw [b3, seqBins_irange]
        exact ⟨_, rfl, hnn, hL⟩
    · -- sparse layout: the non-zero counts, as index deltas from 0
      rw [idxRange_eq, ← hn, zip_irange] at he
      have hsub : ∀ p ∈ ((irange s.minIndex n).map (fun i => (i, wt s i))).filter (fun p => p.2 ≠ 0),
          p ∈ (irange s.minIndex n).map (fun i => (i, wt s i)) := fun p hp => List.mem_of_mem_filter hp
      obtain ⟨b1, b2, b3⟩ := deltasCounts_block side
        (((irange s.minIndex n).map (fun i => (i, wt s i))).filter (fun p => p.2 ≠ 0))
        (by
          have := List.length_filter_le (fun p : Int × Rat => decide (p.2 ≠ 0))
            ((irange s.minIndex n).map (fun i => (i, wt s i)))
          rw [List.length_map] at this
          have h2 : (irange s.minIndex n).length = n := by simp [irange]
          omega)
        (fun p hp => hkeys p (hsub p hp)) (fun p hp => hwok p (hsub p hp))
      refine ⟨_, by simp only [Sketch.encodeStore, he, Option.map_some]; rfl, ?_, ?_⟩
      · intro b hb'
        rw [List.mem_singleton] at hb'
        subst hb'
        exact ⟨b1, b2, _, rfl⟩
      · rw [b3]
        exact ⟨_, rfl, fun p hp => hnn p (hsub p hp), fun j => by rw [lookup_filter_ne_zero, hL]⟩

theorem storeEncodes_dense (s : DStore) (c : Content) (hr : (Store.d s).Refines c)
    (hd : DenseOK s) (side : Side) : StoreEncodes (.d s) side c := by
  obtain ⟨hb, _, hlk⟩ := hd.content_spec
  have hcc : c = DStore.content s := by
    have := hr.bins
    rw [show (Store.d s).binsList = s.binsList from rfl, hb] at this
    exact (Option.some.inj this).symm
  obtain ⟨bl, h1, h2, h3⟩ := encodeDense_denotes s hd c (by rw [hcc]; exact hlk) side
  exact ⟨_, bl, h1, hr, h2, h3⟩

/-! ### the three dense kinds meet `DenseOK` -/

theorem denseOK_of_inv (s : DStore) (h : DStore.Inv s) (hb : DStore.Bounded32 s)
    (hw : ∀ j, WOK (wt s j)) : DenseOK s where
  nonneg := h.wt_nonneg
  outside := h.outside
  window := fun h0 => let ⟨a, b, c, _, _⟩ := h.window h0; ⟨a, b, c⟩
  emptyWin := fun h0 => by
    obtain ⟨_, a, b⟩ := h.empty h0
    rw [a, b]; decide
  range := fun h0 =>
    ⟨hb _ (DStore.tight_min s h hb h0).ne', hb _ (DStore.tight_max s h hb h0).ne'⟩
  wok := hw

theorem denseOK_of_invLow (N : Nat) (s : DStore) (h : DStore.InvLow N s) (ht : DStore.Tight32 s)
    (hw : ∀ j, WOK (wt s j)) : DenseOK s where
  nonneg := h.wt_nonneg
  outside := h.outside
  window := h.window
  emptyWin := fun h0 => by
    obtain ⟨_, a, b, _⟩ := h.empty h0
    rw [a, b]; decide
  range := fun h0 => by
    obtain ⟨_, _, a, b⟩ := ht h0
    obtain ⟨_, c, _⟩ := h.window h0
    unfold Idx32
    exact ⟨⟨a, by omega⟩, ⟨by omega, b⟩⟩
  wok := hw

theorem denseOK_of_invHigh (N : Nat) (s : DStore) (h : DStore.InvHigh N s) (ht : DStore.Tight32 s)
    (hw : ∀ j, WOK (wt s j)) : DenseOK s where
  nonneg := h.wt_nonneg
  outside := h.outside
  window := h.window
  emptyWin := fun h0 => by
    obtain ⟨_, a, b, _⟩ := h.empty h0
    rw [a, b]; decide
  range := fun h0 => by
    obtain ⟨_, _, a, b⟩ := ht h0
    obtain ⟨_, c, _⟩ := h.window h0
    unfold Idx32
    exact ⟨⟨a, by omega⟩, ⟨by omega, b⟩⟩
  wok := hw

/-! ## the paginated store -/

open PStore (compactLoop spanPage spanPage_append units linesOf linesFrom)

/-- compaction only moves buffered entries into pages: what stays buffered was buffered -/
theorem compactLoop_count (fuel : Nat) : ∀ (l kept : List Int) (s s' : PStore) (kept' : List Int),
    compactLoop s fuel l kept = some (s', kept') →
    kept'.length ≤ l.length + kept.length ∧ ∀ j, kept'.count j ≤ l.count j + kept.count j := by
  induction fuel with
  | zero =>
    intro l kept s s' kept' h
    simp only [compactLoop, Option.some.injEq, Prod.mk.injEq] at h
    rw [← h.2]
    exact ⟨by simp, fun j => by simp⟩
  | succ fuel ih =>
    intro l kept s s' kept' h
    cases l with
    | nil =>
      simp only [compactLoop, Option.some.injEq, Prod.mk.injEq] at h
      rw [← h.2]
      exact ⟨by simp, fun j => by simp⟩
    | cons x xs =>
      rcases hsp : spanPage s (s.pageIndex x) (x :: xs) with ⟨grp, rest⟩
      have happ := spanPage_append s (s.pageIndex x) (x :: xs)
      rw [hsp] at happ
      simp only [] at happ
      have hlen : (x :: xs).length = grp.length + rest.length := by
        rw [← happ, List.length_append]
      have hcount : ∀ j, (x :: xs).count j = grp.count j + rest.count j := by
        intro j; rw [← happ, List.count_append]
      rw [compactLoop] at h
      simp only [hsp] at h
      cases hpage : s.page (s.pageIndex x) (decide (grp.length * 64 ≥ s.pageLen * 64)) with
      | none => rw [hpage] at h; simp at h
      | some r =>
        obtain ⟨s₁, k?⟩ := r
        rw [hpage] at h
        cases k? with
        | some k =>
          simp only [] at h
          cases hfold : grp.foldlM (fun acc i => PStore.addAtPage acc k (acc.lineIndex i) 1) s₁ with
          | none => rw [hfold] at h; simp at h
          | some s₂ =>
            rw [hfold] at h
            obtain ⟨a, b⟩ := ih rest kept s₂ s' kept' h
            refine ⟨by omega, fun j => ?_⟩
            have := b j
            have := hcount j
            omega
        | none =>
          simp only [] at h
          obtain ⟨a, b⟩ := ih rest (grp.reverse ++ kept) s₁ s' kept' h
          rw [List.length_append, List.length_reverse] at a
          refine ⟨by omega, fun j => ?_⟩
          have := b j
          rw [List.count_append, List.count_reverse] at this
          have := hcount j
          omega

theorem compact_buffer (s s' : PStore) (h : s.compact = some s') :
    s'.buffer.length ≤ s.buffer.length ∧ ∀ j, s'.buffer.count j ≤ s.buffer.count j := by
  simp only [PStore.compact, Option.bind_eq_bind] at h
  cases hl : compactLoop s ((PStore.sortInts s.buffer).length + 1) (PStore.sortInts s.buffer) [] with
  | none => rw [hl] at h; simp at h
  | some r =>
    obtain ⟨s₁, kept⟩ := r
    rw [hl] at h
    simp only [Option.bind_some, Option.pure_def, Option.some.injEq] at h
    obtain ⟨a, b⟩ := compactLoop_count _ _ _ _ _ _ hl
    rw [← h]
    simp only [List.length_nil, Nat.add_zero, List.count_nil, PStore.length_sortInts] at a b
    refine ⟨a, fun j => ?_⟩
    have := b j
    rw [PStore.count_sortInts] at this
    exact this

theorem refines_pag (s : PStore) (h : PStore.Inv s) : (Store.pg s).Refines (PStore.content s) where
  wf := PStore.content_wf s h
  total := PStore.totalCount_eq s h
  empty := PStore.isEmpty_eq s h
  min := PStore.minIndex?_eq s h
  max := PStore.maxIndex?_eq s h
  bins := rfl
  kar := fun _ r => PStore.keyAtRank_spec s h r

/-- the deltas of the buffer block, from index `prev` -/
def dRec (prev : Int) : List Int → List Int
  | [] => []
  | x :: rest => (x - prev) :: dRec x rest

theorem d_foldl' (l : List Int) (prev : Int) (acc : List Int) :
    (l.foldl (fun (acc : Int × List Int) i => (i, (i - acc.1) :: acc.2)) (prev, acc)).2.reverse
      = acc.reverse ++ dRec prev l := by
  induction l generalizing prev acc with
  | nil => simp [dRec]
  | cons p l ih => simp [List.foldl_cons, ih, dRec]

theorem deltasFrom0_eq (l : List Int) : Sketch.deltasFrom0 l = dRec 0 l := by
  have := d_foldl' l 0 []
  simpa [Sketch.deltasFrom0] using this

theorem dRec_length (prev : Int) (l : List Int) : (dRec prev l).length = l.length := by
  induction l generalizing prev with
  | nil => rfl
  | cons p l ih => simp [dRec, ih]

theorem dBins_dRec (prev : Int) (l : List Int) :
    Sketch.dBins prev (dRec prev l) = finBins (units l) := by
  induction l generalizing prev with
  | nil => rfl
  | cons x l ih =>
    simp only [dRec, Sketch.dBins, units, finBins, List.map_cons] at ih ⊢
    rw [show prev + (x - prev) = x by omega, ih x]
    rfl

theorem dRec_wf (prev : Int) (hp : Idx32 prev) (l : List Int) (hk : ∀ x ∈ l, Idx32 x) :
    ∀ d ∈ dRec prev l, I64 d := by
  induction l generalizing prev with
  | nil => intro d hd; simp [dRec] at hd
  | cons x l ih =>
    intro d hd
    simp only [dRec, List.mem_cons] at hd
    rcases hd with rfl | hd
    · exact i64_sub_of_idx32 _ _ (hk x (by simp)) hp
    · exact ih x (hk x (by simp)) (fun r hr => hk r (by simp [hr])) d hd

/-- the buffer block: unit counts as index deltas -/
theorem deltas_block (side : Side) (l : List Int) (hlen : l.length < W64) (hk : ∀ x ∈ l, Idx32 x) :
    (Block.bins side (.deltas (Sketch.deltasFrom0 l))).WF ∧
    (Block.bins side (.deltas (Sketch.deltasFrom0 l))).FiniteWeights ∧
    sideBins (interp [.bins side (.deltas (Sketch.deltasFrom0 l))]) side = finBins (units l) := by
  have hb : payloadBins (.deltas (Sketch.deltasFrom0 l)) = finBins (units l) := by
    rw [Sketch.payloadBins_d, deltasFrom0_eq, dBins_dRec]
  refine ⟨?_, ?_, ?_⟩
  · show (Sketch.deltasFrom0 l).length < W64 ∧ _
    rw [deltasFrom0_eq, dRec_length]
    exact ⟨hlen, dRec_wf 0 idx32_zero l hk⟩
  · show Sketch.FiniteBins _
    rw [hb]; exact finiteBins_finBins _
  · rw [(interp_single_bins side _).1, hb]

theorem seqBins_linesOf (s : PStore) (p : Int) (ys : List Rat) (m : Nat) :
    seqBins (s.index p m) ys = linesOf s p ys m := by
  induction ys generalizing m with
  | nil => rfl
  | cons y ys ih =>
    rw [PStore.linesOf_cons, seqBins, ← ih (m + 1)]
    congr 2
    simp only [PStore.index]
    omega

/-- the page blocks of `encodeStore`, for the pages `xs` sitting at offsets `n, n+1, …` -/
def pageBlocksFrom (s : PStore) (side : Side) (xs : List (Array Rat)) (n : Nat) : List Block :=
  (xs.zipIdx n).filterMap (fun (pg, off) =>
    if pg.size = 0 then none
    else some (.bins side (.contiguous (s.index (s.minPageIndex + (off : Int)) 0) 1
      (pg.toList.map Sketch.vfBits))))

theorem pageBlocksFrom_spec (s : PStore) (side : Side) (xs : List (Array Rat)) (n : Nat)
    (hsz : ∀ pg ∈ xs, pg.size < W64) (hw : ∀ pg ∈ xs, ∀ c ∈ pg.toList, WOK c)
    (hidx : ∀ q ∈ xs.zipIdx n, q.1.size ≠ 0 → Idx32 (s.index (s.minPageIndex + (q.2 : Int)) 0)) :
    (∀ b ∈ pageBlocksFrom s side xs n, b.WF ∧ b.FiniteWeights ∧ IsBins side b) ∧
    sideBins (interp (pageBlocksFrom s side xs n)) side = finBins (linesFrom s xs n) := by
  induction xs generalizing n with
  | nil =>
    refine ⟨by simp [pageBlocksFrom], ?_⟩
    simp only [pageBlocksFrom, List.zipIdx_nil, List.filterMap_nil, sideBins_nil]
    rfl
  | cons pg xs ih =>
    obtain ⟨i1, i2⟩ := ih (n + 1) (fun q hq => hsz q (by simp [hq]))
      (fun q hq => hw q (by simp [hq]))
      (fun q hq => hidx q (by rw [List.zipIdx_cons]; exact List.mem_cons_of_mem _ hq))
    have hcons : pageBlocksFrom s side (pg :: xs) n =
        (if pg.size = 0 then [] else [.bins side (.contiguous (s.index (s.minPageIndex + (n : Int)) 0) 1
          (pg.toList.map Sketch.vfBits))]) ++ pageBlocksFrom s side xs (n + 1) := by
      simp only [pageBlocksFrom, List.zipIdx_cons, List.filterMap_cons]
      by_cases h0 : pg.size = 0 <;> simp [h0]
    rw [hcons, PStore.linesFrom_cons, finBins_append, sideBins_append, i2]
    by_cases h0 : pg.size = 0
    · have hnil : pg.toList = [] := by
        rw [PStore.array_eq_empty_of_size pg h0]
      simp only [h0, if_true, List.nil_append, hnil, PStore.linesOf_nil, sideBins_nil]
      exact ⟨i1, rfl⟩
    · simp only [h0, if_false]
      obtain ⟨b1, b2, b3⟩ := contiguous_block side (s.index (s.minPageIndex + (n : Int)) 0)
        (hidx (pg, n) (by rw [List.zipIdx_cons]; exact List.mem_cons_self ..) h0) pg.toList
        (by rw [Array.length_toList]; exact hsz pg (by simp)) (hw pg (by simp))
      refine ⟨?_, ?_⟩
      · intro b hb
        rcases List.mem_append.1 hb with hb | hb
        · rw [List.mem_singleton] at hb
          subst hb
          exact ⟨b1, b2, _, rfl⟩
        · exact i1 b hb
      · rw [b3, seqBins_linesOf]

/-- what the encoder needs of a paginated store: the invariant, a buffer whose length fits the
    wire format, and page counts that stay varfloat-exact while compaction moves buffered unit
    entries onto their page line -/
structure PagOK (s : PStore) : Prop where
  inv : PStore.Inv s
  bufLen : s.buffer.length < W64
  wok : ∀ j (k : Nat), k ≤ s.buffer.count j → WOK (s.line j + (k : Rat))

theorem encodeStore_pg_eq (s s' : PStore) (side : Side) (h : s.compact = some s') :
    Sketch.encodeStore (.pg s) side = some (.pg s',
      (if s'.buffer.isEmpty then [] else [.bins side (.deltas (Sketch.deltasFrom0 s'.buffer))])
        ++ pageBlocksFrom s' side s'.pages.toList 0) := by
  simp only [Sketch.encodeStore, h, Option.bind_eq_bind, Option.bind_some, Option.pure_def]
  rfl

theorem storeEncodes_pag (s : PStore) (hp : PagOK s) (side : Side) :
    ∃ s', s.compact = some s' ∧ PStore.Inv s' ∧ PStore.content s' = PStore.content s ∧
      ∃ bl, Sketch.encodeStore (.pg s) side = some (.pg s', bl) ∧
        (∀ b ∈ bl, b.WF ∧ b.FiniteWeights ∧ IsBins side b) ∧
        Denotes (sideBins (interp bl) side) (PStore.content s) := by
  obtain ⟨hI, hlen, hwok⟩ := hp
  obtain ⟨s', hc, hI', hwt⟩ := PStore.compact_ok s hI
  obtain ⟨hbl, hbc⟩ := compact_buffer s s' hc
  have hL' := hI'.pageLen_eq
  have hcont : PStore.content s' = PStore.content s :=
    PStore.content_eq_of_lookup s' hI' _ (PStore.content_wf s hI)
      (fun j => by rw [hwt, PStore.lookup_content s hI])
  -- the lines of the compacted store
  have hline : ∀ j, WOK (s'.line j) := by
    intro j
    have h1 := hwt j
    unfold PStore.wt at h1
    have h2 := hbc j
    have : s'.line j = s.line j + ((s.buffer.count j - s'.buffer.count j : Nat) : Rat) := by
      rw [Nat.cast_sub h2]
      linarith
    rw [this]
    exact hwok j _ (Nat.sub_le _ _)
  have hcells : ∀ pg ∈ s'.pages.toList, ∀ c ∈ pg.toList, WOK c := by
    intro pg hpg c hc'
    obtain ⟨k, hk, rfl⟩ := PStore.mem_pages_toList s' pg hpg
    obtain ⟨l, hl, rfl⟩ := List.getElem_of_mem hc'
    simp only [Array.length_toList] at hl
    have hsz : (s'.pages.getD k #[]).size = s'.pageLen := by
      rcases hI'.pageSizes k with h0 | h0
      · omega
      · exact h0
    have hll : l < s'.pageLen := by omega
    have := hline (s'.index (s'.minPageIndex + (k : Int)) l)
    rw [PStore.scan_line_at s' _ k hk (PStore.pageIndex_index s' hL' _ l hll),
      PStore.lineIndex_index s' hL' _ l hll] at this
    rw [PStore.getD_of_lt _ l hl] at this
    simpa using this
  have hsz : ∀ pg ∈ s'.pages.toList, pg.size < W64 := by
    intro pg hpg
    have := PStore.pages_size_le s' hI' pg hpg
    unfold W64
    omega
  have hidx : ∀ q ∈ s'.pages.toList.zipIdx 0, q.1.size ≠ 0 →
      Idx32 (s'.index (s'.minPageIndex + (q.2 : Int)) 0) := by
    intro q hq hne
    obtain ⟨pg, off⟩ := q
    have hq' := List.mem_zipIdx hq
    simp only [Nat.zero_add, Nat.sub_zero, Nat.zero_le, true_and, Array.length_toList,
      Array.getElem_toList] at hq'
    obtain ⟨h1, h2⟩ := hq'
    have hget : s'.pages.getD off #[] = pg := by
      simp [Array.getD_eq_getD_getElem?, h1, h2]
    have := hI'.pageRange off (by rw [hget]; exact hne)
    apply PStore.idx32_of_pageIdx32 s' hL'
    rw [PStore.pageIndex_index s' hL' _ 0 (by omega)]
    exact this
  obtain ⟨p1, p2⟩ := pageBlocksFrom_spec s' side s'.pages.toList 0 hsz hcells hidx
  -- the weight function of the compacted store, as a raw list of bins
  have hLk : ∀ j, Content.lookup (units s'.buffer ++ s'.pageLines) j = (PStore.content s).lookup j := by
    intro j
    rw [PStore.lookup_append, PStore.lookup_pageLines s' hI', PStore.lookup_content s hI, ← hwt j]
    unfold units PStore.wt
    rw [PStore.lookup_map_const]
    ring
  have hnn : ∀ p ∈ units s'.buffer ++ s'.pageLines, 0 ≤ p.2 := by
    intro p hp'
    rcases List.mem_append.1 hp' with h | h
    · rw [(PStore.mem_units h).2]; norm_num
    · exact PStore.pageLines_nonneg s' hI' p h
  refine ⟨s', hc, hI', hcont, _, encodeStore_pg_eq s s' side hc, ?_, ?_⟩
  · intro b hb
    rcases List.mem_append.1 hb with hb | hb
    · split at hb
      · simp at hb
      · rw [List.mem_singleton] at hb
        subst hb
        obtain ⟨b1, b2, _⟩ := deltas_block side s'.buffer (by omega) hI'.bufRange
        exact ⟨b1, b2, _, rfl⟩
    · exact p1 b hb
  · rw [sideBins_append, p2, ← PStore.pageLines_eq]
    refine ⟨units s'.buffer ++ s'.pageLines, ?_, hnn, hLk⟩
    rw [finBins_append]
    congr 1
    cases hb : s'.buffer with
    | nil => simp [sideBins_nil, units, finBins]
    | cons x xs =>
      simp only [List.isEmpty_cons, Bool.false_eq_true, if_false]
      rw [← hb]
      exact (deltas_block side s'.buffer (by omega) hI'.bufRange).2.2

/-! ## any store kind -/

/-- what the encoder needs of a store, kind by kind -/
def EncOK : Store → Prop
  | .sp c => Keys32 c ∧ ∀ p ∈ c, WOK p.2
  | .d s => DenseOK s
  | .pg s => PagOK s

theorem storeEncodes (st : Store) (c : Content) (hr : st.Refines c) (h : EncOK st) (side : Side) :
    StoreEncodes st side c := by
  cases st with
  | sp c' =>
    have hcc : c' = c := Option.some.inj hr.bins
    subst hcc
    exact storeEncodes_sparse c' hr.wf h.2 h.1 side
  | d s => exact storeEncodes_dense s c hr h side
  | pg s =>
    have hcc : PStore.content s = c := Option.some.inj hr.bins
    obtain ⟨s', _, hI', hcont, bl, h1, h2, h3⟩ := storeEncodes_pag s h side
    refine ⟨.pg s', bl, h1, ?_, h2, hcc ▸ h3⟩
    rw [← hcc, ← hcont]
    exact refines_pag s' hI'

/-! ## the whole sketch -/

/-- `s.encode om` succeeded with `(s', bl)`; `bl` is zero block, mapping block, positive bins,
    negative bins, and the bins denote the two contents -/
def EncodesTo (s : Sketch) (cp cn : Content) (m : MapId) (z : Rat) (om : Bool) (s' : Sketch)
    (bl : List Block) : Prop :=
  ∃ pb nb, bl = sketchBlocks m om z pb nb ∧ s.encode om = some (s', bl) ∧
    s'.Refines cp cn ∧ s'.mapping = some m ∧ s'.zero = .fin z ∧
    (∀ b ∈ pb, b.WF ∧ b.FiniteWeights ∧ IsBins .pos b) ∧
    (∀ b ∈ nb, b.WF ∧ b.FiniteWeights ∧ IsBins .neg b) ∧
    Denotes (sideBins (interp pb) .pos) cp ∧ Denotes (sideBins (interp nb) .neg) cn

theorem encode_ok (s : Sketch) (cp cn : Content) (hs : s.Refines cp cn)
    (hp : EncOK s.pos) (hn : EncOK s.neg) (m : MapId) (hm : s.mapping = some m)
    (z : Rat) (hz : s.zero = .fin z) (om : Bool) :
    ∃ s' bl, EncodesTo s cp cn m z om s' bl := by
  obtain ⟨p, pb, e1, r1, w1, d1⟩ := storeEncodes s.pos cp hs.pos hp .pos
  obtain ⟨n, nb, e2, r2, w2, d2⟩ := storeEncodes s.neg cn hs.neg hn .neg
  exact ⟨_, _, pb, nb, rfl, encode_eq s m z om p n pb nb hm hz e1 e2, ⟨r1, r2⟩, hm, hz, w1, w2, d1, d2⟩

theorem EncodesTo.wf {s cp cn m z om s' bl} (h : EncodesTo s cp cn m z om s' bl) :
    ∀ b ∈ bl, b.WF := by
  obtain ⟨pb, nb, rfl, _, _, _, _, w1, w2, _, _⟩ := h
  exact sketchBlocks_wf m om z pb nb (fun b hb => (w1 b hb).1) (fun b hb => (w2 b hb).1)

theorem EncodesTo.finite {s cp cn m z om s' bl} (h : EncodesTo s cp cn m z om s' bl) :
    ∀ b ∈ bl, b.FiniteWeights := by
  obtain ⟨pb, nb, rfl, _, _, _, _, w1, w2, _, _⟩ := h
  intro b hb
  unfold sketchBlocks zeroBlocks mapBlocks at hb
  simp only [List.mem_append] at hb
  rcases hb with ((hb | hb) | hb) | hb
  · split at hb
    · simp at hb
    · rw [List.mem_singleton] at hb; subst hb; trivial
  · split at hb
    · simp at hb
    · rw [List.mem_singleton] at hb; subst hb; trivial
  · exact (w1 b hb).2.1
  · exact (w2 b hb).2.1

/-- the fold of the encoded blocks over any spec receiver that accepts the mapping -/
theorem EncodesTo.applyBlocks {s cp cn m z om s' bl} (h : EncodesTo s cp cn m z om s' bl)
    (hm : MapOK m) (hz : WOK z) (m0 : Option MapId)
    (hm0 : if om then m0 = some m else Accepts m0 m)
    (a b : Content) (ha : a.WF) (hb : b.WF) (z0 : F64) (aux : DecAux) :
    Sketch.applyBlocks (Sketch.spec m0 a b z0) aux bl =
      some (.ok (Sketch.spec (some m) (a.merge cp) (b.merge cn) (zeroAfter z0 z), aux)) := by
  obtain ⟨pb, nb, rfl, _, r, _, _, w1, w2, d1, d2⟩ := h
  exact applyBlocks_sketchBlocks m hm om z hz pb nb cp cn r.pos.wf r.neg.wf
    (fun b hb => (w1 b hb).2.2) (fun b hb => (w2 b hb).2.2) d1 d2 m0 hm0 a b ha hb z0 aux

/-- decoding the encoded bytes into any spec receiver that accepts the mapping: a merge -/
theorem EncodesTo.decode {s cp cn m z om s' bl} (h : EncodesTo s cp cn m z om s' bl)
    (hm : MapOK m) (hz : WOK z) (m0 : Option MapId)
    (hm0 : if om then m0 = some m else Accepts m0 m)
    (a b : Content) (ha : a.WF) (hb : b.WF) (z0 : F64) :
    Sketch.decodeAndMergeWith (Sketch.spec m0 a b z0) (encBlocks bl) =
      some (.ok (Sketch.spec (some m) (a.merge cp) (b.merge cn) (zeroAfter z0 z))) :=
  decodeAndMergeWith_encBlocks _ _ _ bl h.wf
    (h.applyBlocks hm hz m0 hm0 a b ha hb z0 { stats := none }) rfl

theorem zeroAfter_zero (z : Rat) (hz : WOK z) : zeroAfter (.fin 0) z = .fin z := by
  unfold zeroAfter
  split
  · rename_i h; rw [h]
  · have := F64.add_exact 0 z (by rw [zero_add]; exact hz.1)
    rwa [zero_add] at this

theorem zeroAfter_exact (q0 z : Rat) (h : F64.add (.fin q0) (.fin z) = .fin (q0 + z)) :
    zeroAfter (.fin q0) z = .fin (q0 + z) := by
  unfold zeroAfter
  split
  · rename_i h0; rw [h0, add_zero]
  · exact h

/-! ## concatenation -/

theorem applyBlock_stats_none (s s' : Sketch) (aux aux' : DecAux) (b : Block)
    (ha : aux.stats = none) (h : Sketch.applyBlock s aux b = some (.ok (s', aux'))) :
    aux'.stats = none := by
  cases b with
  | mapping sub g o =>
    simp only [Sketch.applyBlock] at h
    split at h
    · simp at h
    · simp only [Option.some.injEq, Except.ok.injEq, Prod.mk.injEq] at h; rw [← h.2]; exact ha
  | bins side p =>
    cases side <;>
    · simp only [Sketch.applyBlock] at h
      split at h
      · simp at h
      · simp only [Option.some.injEq, Except.ok.injEq, Prod.mk.injEq] at h; rw [← h.2]; exact ha
  | zeroCount x =>
    simp only [Sketch.applyBlock, Option.some.injEq, Except.ok.injEq, Prod.mk.injEq] at h
    rw [← h.2]; exact ha
  | _ =>
    simp only [Sketch.applyBlock, Option.some.injEq, Except.ok.injEq, Prod.mk.injEq] at h
    rw [← h.2]; simp [ha]

theorem applyBlocks_stats_none (bl : List Block) (s s' : Sketch) (aux aux' : DecAux)
    (ha : aux.stats = none) (h : Sketch.applyBlocks s aux bl = some (.ok (s', aux'))) :
    aux'.stats = none := by
  induction bl generalizing s aux with
  | nil =>
    simp only [Sketch.applyBlocks, Option.some.injEq, Except.ok.injEq, Prod.mk.injEq] at h
    rw [← h.2]; exact ha
  | cons b bl ih =>
    simp only [Sketch.applyBlocks] at h
    cases hb : Sketch.applyBlock s aux b with
    | none => rw [hb] at h; simp at h
    | some r =>
      cases r with
      | error e => rw [hb] at h; simp at h
      | ok r =>
        rw [hb] at h
        exact ih r.1 r.2 (applyBlock_stats_none s r.1 aux r.2 b ha hb) h

/-- the loop on the concatenation of two encoded streams: the fold of the second block list started
    from the result of the first (any store kind, any statistics state) -/
theorem decodeLoop_concat (bl₁ bl₂ : List Block) (h₁ : ∀ b ∈ bl₁, b.WF) (h₂ : ∀ b ∈ bl₂, b.WF)
    (fuel : Nat) (hf : bl₁.length + bl₂.length ≤ fuel) (s : Sketch) (aux : DecAux) :
    Sketch.decodeLoop fuel s aux (encBlocks bl₁ ++ encBlocks bl₂) =
      Sketch.andThen (Sketch.applyBlocks s aux bl₁)
        (fun s' aux' => Sketch.applyBlocks s' aux' bl₂) := by
  rw [← encBlocks_append, Sketch.decodeLoop_encBlocks (bl₁ ++ bl₂)
    (fun b hb => (List.mem_append.1 hb).elim (h₁ b) (h₂ b)) fuel
    (by rw [List.length_append]; exact hf), applyBlocks_append]

theorem decodeAndMergeWith_ok_inv (s s₁ : Sketch) (bl : List Block) (hwf : ∀ b ∈ bl, b.WF)
    (h : Sketch.decodeAndMergeWith s (encBlocks bl) = some (.ok s₁)) :
    Sketch.applyBlocks s { stats := none } bl = some (.ok (s₁, { stats := none })) := by
  have hl := encBlocks_length_ge bl
  unfold Sketch.decodeAndMergeWith at h
  rw [Sketch.decodeLoop_encBlocks bl hwf _ (by omega)] at h
  cases ha : Sketch.applyBlocks s { stats := none } bl with
  | none => rw [ha] at h; simp at h
  | some r =>
    cases r with
    | error e => rw [ha] at h; simp at h
    | ok r =>
      obtain ⟨s2, aux2⟩ := r
      rw [ha] at h
      simp only at h
      split at h
      · simp at h
      · simp only [Option.some.injEq, Except.ok.injEq] at h
        subst h
        have := applyBlocks_stats_none bl s s2 _ aux2 rfl ha
        cases aux2
        simp only at this
        rw [this]

/-- decoding a concatenation = decoding the second stream into the result of the first -/
theorem decode_concat (bl₁ bl₂ : List Block) (h₁ : ∀ b ∈ bl₁, b.WF) (h₂ : ∀ b ∈ bl₂, b.WF)
    (s s₁ : Sketch) (hd : Sketch.decodeAndMergeWith s (encBlocks bl₁) = some (.ok s₁)) :
    Sketch.decodeAndMergeWith s (encBlocks bl₁ ++ encBlocks bl₂) =
      Sketch.decodeAndMergeWith s₁ (encBlocks bl₂) := by
  have ha := decodeAndMergeWith_ok_inv s s₁ bl₁ h₁ hd
  have l1 := encBlocks_length_ge bl₁
  have l2 := encBlocks_length_ge bl₂
  unfold Sketch.decodeAndMergeWith
  rw [decodeLoop_concat bl₁ bl₂ h₁ h₂ _ (by rw [List.length_append]; omega), ha,
    Sketch.decodeLoop_encBlocks bl₂ h₂ _ (by omega)]
  rfl

/-! ## the exact-summary variant -/

/-- the statistics blocks `XSketch.encode` puts in front of the sketch blocks -/
def statBlocks (st : Summary) : List Block :=
  (if F64.ne st.count (.fin 0) then [.count (Sketch.vfBitsF st.count)] else []) ++
  (if F64.ne st.getSum (.fin 0) then [.sum st.getSum.toBits.toNat] else []) ++
  (if F64.ne st.min .pinf then [.min st.min.toBits.toNat] else []) ++
  (if F64.ne st.max .ninf then [.max st.max.toBits.toNat] else [])

theorem xencode_eq (x : XSketch) (om : Bool) :
    x.encode om = (x.sk.encode om).map (fun r => ({ x with sk := r.1 }, statBlocks x.st ++ r.2)) := by
  unfold XSketch.encode statBlocks
  cases x.sk.encode om with
  | none => rfl
  | some r => obtain ⟨sk, bl⟩ := r; simp

theorem statBlocks_wf (st : Summary) : ∀ b ∈ statBlocks st, b.WF := by
  intro b hb
  unfold statBlocks at hb
  simp only [List.mem_append] at hb
  rcases hb with ((hb | hb) | hb) | hb <;>
  · split at hb
    · rw [List.mem_singleton] at hb; subst hb
      first | exact vfBitsF_lt _ | exact UInt64.toNat_lt _
    · simp at hb

theorem IsStat_apply (s : Sketch) (aux : DecAux) (ha : aux.stats = none) (b : Block)
    (hb : (∃ x, b = .count x) ∨ (∃ x, b = .sum x) ∨ (∃ x, b = .min x) ∨ (∃ x, b = .max x)) :
    Sketch.applyBlock s aux b = some (.ok (s, aux)) := by
  cases aux with
  | mk st =>
    simp only at ha
    subst ha
    rcases hb with ⟨x, rfl⟩ | ⟨x, rfl⟩ | ⟨x, rfl⟩ | ⟨x, rfl⟩ <;> rfl

/-- the plain decoder skips the statistics blocks -/
theorem applyBlocks_statBlocks_none (st : Summary) (s : Sketch) (bl : List Block) :
    Sketch.applyBlocks s { stats := none } (statBlocks st ++ bl) =
      Sketch.applyBlocks s { stats := none } bl := by
  have key : ∀ l : List Block,
      (∀ b ∈ l, (∃ x, b = .count x) ∨ (∃ x, b = .sum x) ∨ (∃ x, b = .min x) ∨ (∃ x, b = .max x)) →
      Sketch.applyBlocks s { stats := none } (l ++ bl) = Sketch.applyBlocks s { stats := none } bl := by
    intro l hl
    induction l with
    | nil => rfl
    | cons b l ih =>
      simp only [List.cons_append, Sketch.applyBlocks,
        IsStat_apply s { stats := none } rfl b (hl b (by simp))]
      exact ih (fun c hc => hl c (by simp [hc]))
  apply key
  intro b hb
  unfold statBlocks at hb
  simp only [List.mem_append] at hb
  rcases hb with ((hb | hb) | hb) | hb
  · split at hb
    · rw [List.mem_singleton] at hb; exact .inl ⟨_, hb⟩
    · simp at hb
  · split at hb
    · rw [List.mem_singleton] at hb; exact .inr (.inl ⟨_, hb⟩)
    · simp at hb
  · split at hb
    · rw [List.mem_singleton] at hb; exact .inr (.inr (.inl ⟨_, hb⟩))
    · simp at hb
  · split at hb
    · rw [List.mem_singleton] at hb; exact .inr (.inr (.inr ⟨_, hb⟩))
    · simp at hb

theorem plain_skips_stats (st : Summary) (r : Sketch) (bl : List Block) (hwf : ∀ b ∈ bl, b.WF) :
    Sketch.decodeAndMergeWith r (encBlocks (statBlocks st ++ bl)) =
      Sketch.decodeAndMergeWith r (encBlocks bl) := by
  have l1 := encBlocks_length_ge (statBlocks st ++ bl)
  have l2 := encBlocks_length_ge bl
  unfold Sketch.decodeAndMergeWith
  rw [Sketch.decodeLoop_encBlocks _ (fun b hb => (List.mem_append.1 hb).elim (statBlocks_wf st b) (hwf b))
      _ (by omega),
    Sketch.decodeLoop_encBlocks bl hwf _ (by omega), applyBlocks_statBlocks_none]

/-- the summary a fresh exact-summary sketch holds after decoding the four statistics blocks -/
def restored (c S mn mx : Rat) : Summary :=
  { count := .fin c, sum := .fin S, sumCompensation := .fin 0, simpleSum := .fin S,
    min := .fin mn, max := .fin mx }

theorem zero_add_exact (p : Rat) (h : F64.isRep p = true) : F64.add (.fin 0) (.fin p) = .fin p := by
  have := F64.add_exact 0 p (by rwa [zero_add])
  rwa [zero_add] at this

theorem ofBits_toBits_nat (q : Rat) (h : F64.isRep q = true) :
    F64.ofBits (UInt64.ofNat (F64.toBits (.fin q)).toNat) = .fin q := by
  rw [UInt64.ofNat_toNat, F64.toBits_ofBits_rep q h]

/-- the summary after the count block -/
def afterCount (c : Rat) : Summary :=
  { count := .fin c, sum := .fin 0, sumCompensation := .fin 0, simpleSum := .fin 0,
    min := .pinf, max := .ninf }

theorem stat_count (c : Rat) (hc : WOK c) :
    Summary.new.addToCount (vfValue (Sketch.vfBits c)) = afterCount c := by
  rw [vfValue_vfBits c hc]
  simp only [Summary.addToCount, Summary.new, zero_add_exact c hc.1, afterCount]

theorem stat_sum (c S : Rat) (hS : F64.isRep S = true) :
    (afterCount c).addToSum (.fin S)
      = { count := .fin c, sum := .fin S, sumCompensation := .fin 0, simpleSum := .fin S,
          min := .pinf, max := .ninf } := by
  simp only [Summary.addToSum, Summary.sumWithCompensation, afterCount, F64.sub_zero_exact S hS,
    zero_add_exact S hS, F64.sub_self_fin]

theorem stat_min (c S mn : Rat) (hc : F64.isRep c = true) (hS : F64.isRep S = true) :
    ({ count := .fin c, sum := .fin S, sumCompensation := .fin 0, simpleSum := .fin S,
       min := .pinf, max := .ninf } : Summary).add (.fin mn) (.fin 0) = restored c S mn mn := by
  simp only [Summary.add, Summary.addToCount, Summary.addToSum, Summary.sumWithCompensation,
    F64.mul_zero_fin, F64.add_zero_exact c hc, F64.add_zero_exact S hS, F64.sub_self_fin,
    F64.sub_zero_exact 0 F64.isRep_zero, restored]
  simp [F64.lt]

theorem stat_max (c S mn mx : Rat) (hc : F64.isRep c = true) (hS : F64.isRep S = true)
    (hle : mn ≤ mx) :
    (restored c S mn mn).add (.fin mx) (.fin 0) = restored c S mn mx := by
  simp only [Summary.add, Summary.addToCount, Summary.addToSum, Summary.sumWithCompensation,
    F64.mul_zero_fin, F64.add_zero_exact c hc, F64.add_zero_exact S hS, F64.sub_self_fin,
    F64.sub_zero_exact 0 F64.isRep_zero, restored]
  have h1 : F64.lt (.fin mx) (.fin mn) = false := by simp [F64.lt, hle]
  rw [h1]
  simp only [Bool.false_eq_true, if_false]
  by_cases h2 : mn < mx
  · simp [F64.lt, h2]
  · have : mn = mx := le_antisymm hle (not_lt.1 h2)
    subst this
    simp [F64.lt]

/-- the statistics a summary must expose for its four blocks to restore it -/
structure StatsOK (st : Summary) (c S mn mx : Rat) : Prop where
  count : st.count = .fin c
  cw : WOK c
  cpos : 0 < c
  sum : st.getSum = .fin S
  sr : F64.isRep S = true
  min : st.min = .fin mn
  max : st.max = .fin mx
  minr : F64.isRep mn = true
  maxr : F64.isRep mx = true
  le : mn ≤ mx

theorem applyBlocks_statBlocks_some (st : Summary) (c S mn mx : Rat) (h : StatsOK st c S mn mx)
    (s : Sketch) :
    Sketch.applyBlocks s { stats := some Summary.new } (statBlocks st) =
      some (.ok (s, { stats := some (restored c S mn mx) })) := by
  obtain ⟨h1, hcw, hcpos, h2, hsr, h3, h4, hmnr, hmxr, hle⟩ := h
  have e1 : F64.ne (.fin c) (.fin 0) = true := by simp [F64.ne, F64.eq, hcpos.ne']
  have e3 : F64.ne (.fin mn) .pinf = true := rfl
  have e4 : F64.ne (.fin mx) .ninf = true := rfl
  unfold statBlocks
  rw [h1, h2, h3, h4, e1, e3, e4]
  simp only [if_true, vfBitsF_fin]
  by_cases hS0 : S = 0
  · have e2 : F64.ne (.fin S) (.fin 0) = false := by simp [F64.ne, F64.eq, hS0]
    rw [e2]
    have hz : afterCount c
        = { count := .fin c, sum := .fin S, sumCompensation := .fin 0, simpleSum := .fin S,
            min := .pinf, max := .ninf } := by
      rw [hS0]; rfl
    simp only [Bool.false_eq_true, if_false, List.append_nil, List.cons_append, List.nil_append,
      Sketch.applyBlocks, Sketch.applyBlock, Option.map_some, stat_count c hcw,
      ofBits_toBits_nat mn hmnr, ofBits_toBits_nat mx hmxr]
    rw [hz, stat_min c S mn hcw.1 hsr, stat_max c S mn mx hcw.1 hsr hle]
  · have e2 : F64.ne (.fin S) (.fin 0) = true := by simp [F64.ne, F64.eq, hS0]
    rw [e2]
    simp only [if_true, List.cons_append, List.nil_append,
      Sketch.applyBlocks, Sketch.applyBlock, Option.map_some, stat_count c hcw,
      ofBits_toBits_nat S hsr, ofBits_toBits_nat mn hmnr, ofBits_toBits_nat mx hmxr,
      stat_sum c S hsr, stat_min c S mn hcw.1 hsr, stat_max c S mn mx hcw.1 hsr hle]

/-- the exact-summary decoder on the bytes of `XSketch.encode` -/
theorem xdecode_encBlocks (st : Summary) (c S mn mx : Rat) (hst : StatsOK st c S mn mx)
    (r r' : Sketch) (bl : List Block) (hwf : ∀ b ∈ bl, b.WF)
    (h : ∀ aux, Sketch.applyBlocks r aux bl = some (.ok (r', aux)))
    (hm : r'.mapping.isNone = false) :
    XSketch.decodeAndMergeWith { sk := r, st := Summary.new } (encBlocks (statBlocks st ++ bl)) =
      some (.ok { sk := r', st := restored c S mn mx }) := by
  have l1 := encBlocks_length_ge (statBlocks st ++ bl)
  unfold XSketch.decodeAndMergeWith
  simp only
  rw [Sketch.decodeLoop_encBlocks _
      (fun b hb => (List.mem_append.1 hb).elim (statBlocks_wf st b) (hwf b)) _ (by omega),
    applyBlocks_append_ok _ _ _ _ _ _ (applyBlocks_statBlocks_some st c S mn mx hst r), h]
  have hc : F64.eq (restored c S mn mx).count (.fin 0) = false := by
    simp [restored, F64.eq, hst.cpos.ne']
  simp only [hm, Bool.false_eq_true, if_false, Option.getD_some, hc, Bool.false_and]

/-! ## a finite mapping `Equals` itself -/

theorem tol_eq : F64.ofBits 0x3d719799812dea11
    = .fin (4951760157141521 / 4951760157141521099596496896) := by decide +kernel

theorem le_zero_round (x : Rat) (hx : 0 ≤ x) : F64.le (.fin 0) (F64.roundF64 x) = true := by
  have h1 := F64.rv_nonneg hx
  have hp := pow2_pos 1024
  rw [F64.roundF64_eq]
  split
  · rfl
  · rw [if_neg (by linarith)]
    simp only [F64.le, F64.lt, F64.eq, Bool.or_eq_true, decide_eq_true_eq, beq_iff_eq]
    rcases h1.lt_or_eq with h | h
    · exact .inl h
    · exact .inr h

theorem withinTolerance_self (q : Rat) : MapId.withinTolerance (.fin q) (.fin q) = true := by
  by_cases hq : q = 0
  · subst hq; decide +kernel
  · have he : F64.eq (.fin q) (.fin 0) = false := by simp [F64.eq, hq]
    have hf0 : MapId.fabs (.fin 0) = .fin 0 := by decide +kernel
    obtain ⟨a, ha, hfa⟩ : ∃ a : Rat, 0 ≤ a ∧ MapId.fabs (.fin q) = .fin a := by
      unfold MapId.fabs
      by_cases hneg : q < 0
      · exact ⟨-q, by linarith, by simp [F64.lt, hneg, F64.neg]⟩
      · exact ⟨q, not_lt.1 hneg, by simp [F64.lt, hneg]⟩
    have hmax : MapId.fmaxF (.fin a) (.fin a) = .fin a := by
      simp [MapId.fmaxF, F64.isNaN, F64.lt]
    unfold MapId.withinTolerance
    simp only [he, Bool.or_self, Bool.false_eq_true, if_false, F64.sub_self_fin, hf0, hfa, hmax,
      tol_eq]
    exact le_zero_round _ (mul_nonneg (by norm_num) ha)

/-- gamma and offset are finite floats -/
def MapFinite (m : MapId) : Prop := (∃ g, m.gamma = .fin g) ∧ ∃ o, m.indexOffset = .fin o

theorem equals_self (m : MapId) (h : MapFinite m) : m.equals m = true := by
  obtain ⟨⟨g, hg⟩, ⟨o, ho⟩⟩ := h
  unfold MapId.equals
  rw [hg, ho, withinTolerance_self, withinTolerance_self]
  simp

theorem accepts_self (m : MapId) (h : MapFinite m) : Accepts (some m) m :=
  .inr ⟨m, rfl, equals_self m h⟩

/-! ## decidable forms, for concrete instances -/

/-- `Content.WF` as a boolean -/
def wfb : Content → Bool
  | [] => true
  | p :: rest => decide (0 < p.2) && rest.all (fun q => decide (p.1 < q.1)) && wfb rest

theorem wf_of_wfb (c : Content) (h : wfb c = true) : c.WF := by
  induction c with
  | nil => exact Content.wf_nil
  | cons p rest ih =>
    simp only [wfb, Bool.and_eq_true, decide_eq_true_eq, List.all_eq_true] at h
    exact (Content.wf_cons p rest).2 ⟨h.1.1, h.1.2, ih h.2⟩

instance (i : Int) : Decidable (Idx32 i) := by unfold Idx32; infer_instance
instance (c : Content) : Decidable (Keys32 c) := by unfold Keys32; infer_instance

/-! ### concrete dense stores: a window that is exactly the backing array -/

/-- a dense store whose window `[minIndex, maxIndex]` is exactly its backing array, with checks
    that are all decidable on a concrete instance -/
structure ArrayStore (s : DStore) : Prop where
  nn : ∀ x ∈ s.bins.toList, 0 ≤ x
  cnt : s.count = s.bins.toList.sum
  ne : s.count ≠ 0
  size : 0 < s.bins.size
  min : s.minIndex = s.offset
  max : s.maxIndex = s.offset + s.bins.size - 1
  first : 0 < at0 s.bins 0
  last : 0 < at0 s.bins (s.bins.size - 1)
  lo : minInt32 ≤ s.offset
  hi : s.offset + s.bins.size - 1 ≤ maxInt32
  wok : ∀ x ∈ s.bins.toList, WOK x

theorem at0_mem_or (a : Array Rat) (j : Int) : at0 a j = 0 ∨ at0 a j ∈ a.toList := by
  unfold DStore.at0
  split
  · rename_i h
    right
    have hlt : j.toNat < a.size := by omega
    simp [Array.getD_eq_getD_getElem?, hlt]
  · left; rfl

theorem ArrayStore.at0_nonneg {s : DStore} (h : ArrayStore s) (j : Int) : 0 ≤ at0 s.bins j := by
  rcases at0_mem_or s.bins j with h0 | h0
  · rw [h0]
  · exact h.nn _ h0

theorem ArrayStore.outside {s : DStore} (h : ArrayStore s) (i : Int)
    (hi : i < s.minIndex ∨ s.maxIndex < i) : wt s i = 0 := by
  unfold DStore.wt
  apply DStore.at0_out
  have := h.min
  have := h.max
  omega

theorem ArrayStore.wt_wok {s : DStore} (h : ArrayStore s) (j : Int) : WOK (wt s j) := by
  unfold DStore.wt
  rcases at0_mem_or s.bins (j - s.offset) with h0 | h0
  · rw [h0]; exact wOK_zero
  · exact h.wok _ h0

theorem ArrayStore.bounded32 {s : DStore} (h : ArrayStore s) : DStore.Bounded32 s := by
  intro j hj
  have : 0 ≤ j - s.offset ∧ j - s.offset < s.bins.size := by
    apply Classical.byContradiction
    intro hc
    exact hj (DStore.at0_out _ _ hc)
  have := h.lo
  have := h.hi
  omega

theorem ArrayStore.tight32 {s : DStore} (h : ArrayStore s) : DStore.Tight32 s := by
  intro _
  have h1 := h.first
  have h2 := h.last
  have := h.lo
  have := h.hi
  refine ⟨?_, ?_, by rw [h.min]; exact h.lo, by rw [h.max]; exact h.hi⟩
  · unfold DStore.wt; rw [h.min, Int.sub_self]; exact h1
  · unfold DStore.wt; rw [h.max]
    rw [show s.offset + (s.bins.size : Int) - 1 - s.offset = (s.bins.size : Int) - 1 by omega]
    exact h2

theorem ArrayStore.inv {s : DStore} (h : ArrayStore s) (hk : s.kind = .plain) : DStore.Inv s where
  plain := hk
  nonneg := h.at0_nonneg
  countEq := h.cnt
  empty := fun h0 => absurd h0 h.ne
  window := fun _ => by
    have := h.size
    have t := h.tight32 h.ne
    refine ⟨by rw [h.min], by rw [h.min, h.max]; omega,
      by rw [h.max]; unfold DStore.len; omega, .inl t.1, .inl t.2.1⟩
  outside := h.outside

theorem ArrayStore.invLow {s : DStore} (h : ArrayStore s) (N : Nat) (hk : s.kind = .low N)
    (hN : s.bins.size ≤ N) (hc : s.isCollapsed = false) : DStore.InvLow N s where
  kind := hk
  hN := by have := h.size; omega
  nonneg := h.at0_nonneg
  countEq := h.cnt
  empty := fun h0 => absurd h0 h.ne
  window := fun _ => by
    have := h.size
    exact ⟨by rw [h.min], by rw [h.min, h.max]; omega,
      by rw [h.max]; unfold DStore.len; omega⟩
  outside := h.outside
  lenLe := hN
  collapsed := fun hcc => by rw [hc] at hcc; exact absurd hcc (by decide)

theorem ArrayStore.invHigh {s : DStore} (h : ArrayStore s) (N : Nat) (hk : s.kind = .high N)
    (hN : s.bins.size ≤ N) (hc : s.isCollapsed = false) : DStore.InvHigh N s where
  kind := hk
  hN := by have := h.size; omega
  nonneg := h.at0_nonneg
  countEq := h.cnt
  empty := fun h0 => absurd h0 h.ne
  window := fun _ => by
    have := h.size
    exact ⟨by rw [h.min], by rw [h.min, h.max]; omega,
      by rw [h.max]; unfold DStore.len; omega⟩
  outside := h.outside
  lenLe := hN
  collapsed := fun hcc => by rw [hc] at hcc; exact absurd hcc (by decide)

/-- the checks of `ArrayStore`, as one boolean -/
def arrayStoreB (s : DStore) : Bool :=
  s.bins.toList.all (fun x => decide (0 ≤ x)) && decide (s.count = s.bins.toList.sum) &&
  decide (s.count ≠ 0) && decide (0 < s.bins.size) && decide (s.minIndex = s.offset) &&
  decide (s.maxIndex = s.offset + s.bins.size - 1) && decide (0 < at0 s.bins 0) &&
  decide (0 < at0 s.bins (s.bins.size - 1)) && decide (minInt32 ≤ s.offset) &&
  decide (s.offset + s.bins.size - 1 ≤ maxInt32) && s.bins.toList.all (fun x => decide (WOK x))

theorem arrayStore_of_b (s : DStore) (h : arrayStoreB s = true) : ArrayStore s := by
  simp only [arrayStoreB, Bool.and_eq_true, decide_eq_true_eq, List.all_eq_true] at h
  obtain ⟨⟨⟨⟨⟨⟨⟨⟨⟨⟨h1, h2⟩, h3⟩, h4⟩, h5⟩, h6⟩, h7⟩, h8⟩, h9⟩, h10⟩, h11⟩ := h
  exact ⟨h1, h2, h3, h4, h5, h6, h7, h8, h9, h10, h11⟩

/-- the content of an `ArrayStore` is any canonical content with the same pointwise weights -/
theorem ArrayStore.refines {s : DStore} (h : ArrayStore s) (hk : s.kind = .plain) (c : Content)
    (hc : c.WF) (hl : ∀ j, c.lookup j = wt s j) : (Store.d s).Refines c := by
  obtain ⟨c', hr, hl'⟩ := Store.refines_dense s (h.inv hk) h.bounded32
  have : c' = c := Content.ext _ _ hr.wf hc (fun j => by rw [hl', hl])
  rw [← this]; exact hr

/-! ### concrete paginated stores: a buffer and no page -/

theorem line_buffer_only (b : List Int) (t : Nat) (j : Int) :
    ({ PStore.new with buffer := b, trigger := t } : PStore).line j = 0 := by
  unfold PStore.line
  rw [PStore.pageAt_of_allEmpty _ (by intro k; simp [PStore.new])]
  simp

theorem pagOK_buffer_only (b : List Int) (t : Nat) (hb : ∀ x ∈ b, Idx32 x)
    (hlen : b.length < 2 ^ 53) : PagOK { PStore.new with buffer := b, trigger := t } where
  inv := PStore.inv_with_buffer _ PStore.inv_new b t hb
  bufLen := by
    show b.length < W64
    unfold W64; omega
  wok := fun j k hk => by
    rw [line_buffer_only, zero_add]
    apply wOK_nat
    have : List.count j b ≤ b.length := List.count_le_length
    change k ≤ List.count j b at hk
    omega

theorem content_buffer_only (b : List Int) (t : Nat) (hb : ∀ x ∈ b, Idx32 x) :
    PStore.content { PStore.new with buffer := b, trigger := t } = Content.merge [] (units b) := by
  apply PStore.content_eq_of_lookup _ (PStore.inv_with_buffer _ PStore.inv_new b t hb)
  · apply Content.wf_merge_of_nonneg _ _ Content.wf_nil
    intro p hp
    rw [(PStore.mem_units hp).2]; norm_num
  · intro j
    unfold PStore.wt
    rw [line_buffer_only, Content.lookup_merge]
    unfold units
    rw [PStore.lookup_map_const]
    simp

end RoundTrip
end DDS
