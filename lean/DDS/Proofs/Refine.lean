/-
  DDS.Proofs.Refine — stores refine contents (`Store.Refines` of `DDS.Proofs.SketchDefs`).

  * the sparse store IS a content (`refines_sparse`, `sp_add`, `merge_into_sparse`);
  * the plain dense store refines the content read off its weights: from the invariant `DStore.Inv`
    (+ `Bounded32`) of `DDS.Proofs.Dense` to `Refines` (`refines_dense`), kept by `AddWithCount`
    with the spec step `Content.add` (`dense_add`);
  * two stores refining the same content cannot be told apart by any observer of `Refines`, and a
    merge by `ForEach` into the sparse store adds the contents.

  Core Lean only.
-/
import DDS.Proofs.SketchDefs
import DDS.Proofs.Dense

namespace DDS

open DStore (rsum wt Inv Bounded32 GrowthOK)

namespace Content

/-! ### sums of a content over integer windows -/

theorem cumul_eq_rsum (c : Content) (lo k : Int) (h : ∀ p ∈ c, lo ≤ p.1) :
    cumul c k = rsum (lookup c) lo (k - lo + 1).toNat := by
  induction c with
  | nil =>
    rw [cumul_nil]
    exact (DStore.rsum_zero _ _ (fun j _ _ => rfl)).symm
  | cons p rest ih =>
    have hp := h p (List.mem_cons_self ..)
    have hr := ih (fun q hq => h q (List.mem_cons_of_mem _ hq))
    have : lookup (p :: rest) = fun j => (if j = p.1 then p.2 else 0) + lookup rest j := by
      funext j; rw [lookup_cons]; grind
    rw [cumul_cons, this, DStore.rsum_add, DStore.rsum_point, hr]
    by_cases hk : p.1 ≤ k
    · rw [if_pos hk, if_pos (by omega)]
    · rw [if_neg hk, if_neg (by omega)]

theorem total_eq_rsum (c : Content) (lo : Int) (n : Nat) (h : ∀ p ∈ c, lo ≤ p.1 ∧ p.1 < lo + n) :
    total c = rsum (lookup c) lo n := by
  induction c with
  | nil =>
    rw [total_nil]
    exact (DStore.rsum_zero _ _ (fun j _ _ => rfl)).symm
  | cons p rest ih =>
    have hp := h p (List.mem_cons_self ..)
    have hr := ih (fun q hq => h q (List.mem_cons_of_mem _ hq))
    have : lookup (p :: rest) = fun j => (if j = p.1 then p.2 else 0) + lookup rest j := by
      funext j; rw [lookup_cons]; grind
    rw [total_cons, this, DStore.rsum_add, DStore.rsum_point, hr, if_pos hp]

theorem cumul_nonneg (c : Content) (h : ∀ p ∈ c, 0 < p.2) (k : Int) : 0 ≤ cumul c k := by
  induction c with
  | nil => simp
  | cons q rest ih =>
    have hq : 0 < q.2 := h q (List.mem_cons_self ..)
    have := ih (fun p hp => h p (List.mem_cons_of_mem _ hp))
    simp only [cumul_cons]; split <;> grind

theorem cumul_le_total (c : Content) (h : ∀ p ∈ c, 0 < p.2) (k : Int) : cumul c k ≤ total c := by
  induction c with
  | nil => simp
  | cons q rest ih =>
    have hq : 0 < q.2 := h q (List.mem_cons_self ..)
    have := ih (fun p hp => h p (List.mem_cons_of_mem _ hp))
    simp only [cumul_cons, total_cons]; split <;> grind

theorem cumul_mono (c : Content) (h : ∀ p ∈ c, 0 < p.2) (j k : Int) (hjk : j ≤ k) :
    cumul c j ≤ cumul c k := by
  induction c with
  | nil => simp
  | cons q rest ih =>
    have hq : 0 < q.2 := h q (List.mem_cons_self ..)
    have := ih (fun p hp => h p (List.mem_cons_of_mem _ hp))
    simp only [cumul_cons]
    by_cases h1 : q.1 ≤ j
    · rw [if_pos h1, if_pos (by omega)]; grind
    · rw [if_neg h1]; split <;> grind

/-- the cumulative weight jumps exactly at the keys -/
theorem cumul_pred_of_not_key (c : Content) (k : Int) (h : ∀ p ∈ c, p.1 ≠ k) :
    cumul c k = cumul c (k - 1) := by
  induction c with
  | nil => rfl
  | cons q rest ih =>
    have hq := h q (List.mem_cons_self ..)
    rw [cumul_cons, cumul_cons, ih (fun p hp => h p (List.mem_cons_of_mem _ hp))]
    by_cases h1 : q.1 ≤ k
    · rw [if_pos h1, if_pos (by omega)]
    · rw [if_neg h1, if_neg (by omega)]

end Content

namespace Store

/-! ### the sparse store -/

/-- Go's sparse `KeyAtRank` does not clamp negative ranks; on canonical contents (positive
    weights) that makes no difference -/
theorem sp_keyAtRank (c : Content) (h : c.WF) (r : Rat) :
    (Store.sp c).keyAtRank r = c.keyAtRank r := by
  have e : (Store.sp c).keyAtRank r =
      (match c.firstExceeding 0 r with
        | some k => k
        | none => (c.maxIndex?).getD 0) := rfl
  rw [e]
  unfold Content.keyAtRank
  by_cases hr : r < 0
  · rw [if_pos hr]
    cases c with
    | nil => rfl
    | cons p rest =>
      have hp : 0 < p.2 := h.2 p (List.mem_cons_self ..)
      rw [Content.firstExceeding_cons, Content.firstExceeding_cons, if_pos (by grind),
        if_pos (by grind)]
  · rw [if_neg hr]; rfl

theorem refines_sparse (c : Content) (h : c.WF) : (Store.sp c).Refines c where
  wf := h
  total := rfl
  empty := rfl
  min := rfl
  max := rfl
  bins := rfl
  kar := fun _ r => sp_keyAtRank c h r

theorem refines_new_sparse : (Store.new .sparse).Refines [] :=
  refines_sparse [] Content.wf_nil

/-- sparse store: `AddWithCount` is the spec step and keeps the refinement -/
theorem sp_add (c : Content) (h : c.WF) (i : Int) (w : Rat) (hw : 0 ≤ w) :
    (Store.sp c).addWithCount i w = some (.sp (c.add i w)) ∧
      (Store.sp (c.add i w)).Refines (c.add i w) :=
  ⟨rfl, refines_sparse _ (Content.wf_add c i w h hw)⟩

/-- merging any store into the sparse one goes through `ForEach`: contents add up -/
theorem merge_into_sparse (c : Content) (_hc : c.WF) (o : Store) (co : Content)
    (ho : o.Refines co) : (Store.sp c).mergeWith o = some (.sp (c.merge co)) := by
  simp [Store.mergeWith, ho.bins]

/-- … and the result refines the merged content -/
theorem merge_into_sparse_refines (c : Content) (hc : c.WF) (o : Store) (co : Content)
    (ho : o.Refines co) :
    ∃ st, (Store.sp c).mergeWith o = some st ∧ st.Refines (c.merge co) :=
  ⟨_, merge_into_sparse c hc o co ho, refines_sparse _ (Content.wf_merge c co hc ho.wf)⟩

theorem sp_clear (c : Content) : (Store.sp c).clear = .sp [] ∧ (Store.sp c).clear.Refines [] :=
  ⟨rfl, refines_sparse [] Content.wf_nil⟩

theorem sp_reweight (c : Content) (h : c.WF) (w : Rat) (hw : 0 < w) :
    ∃ st, (Store.sp c).reweight w = some (.ok st) ∧ st.Refines (c.scale w) := by
  unfold Store.reweight
  rw [if_neg (by grind)]
  by_cases h1 : w = 1
  · rw [if_pos h1]
    refine ⟨_, rfl, ?_⟩
    have : c.scale w = c := by
      subst h1
      unfold Content.scale
      conv => rhs; rw [← List.map_id c]
      apply List.map_congr_left
      intro p _
      simp [Rat.mul_one]
    rw [this]; exact refines_sparse c h
  · rw [if_neg h1]
    exact ⟨_, rfl, refines_sparse _ (Content.wf_scale c w h hw)⟩

/-- observational equality: two stores refining the same content answer every observer alike -/
theorem refines_obs_eq (a b : Store) (c : Content) (ha : a.Refines c) (hb : b.Refines c) :
    a.totalCount = b.totalCount ∧ a.isEmpty = b.isEmpty ∧ a.minIndex? = b.minIndex? ∧
      a.maxIndex? = b.maxIndex? ∧ a.binsList = b.binsList ∧
      (c ≠ [] → ∀ r, a.keyAtRank r = b.keyAtRank r) :=
  ⟨ha.total.trans hb.total.symm, ha.empty.trans hb.empty.symm, ha.min.trans hb.min.symm,
    ha.max.trans hb.max.symm, ha.bins.trans hb.bins.symm,
    fun hne r => (ha.kar hne r).trans (hb.kar hne r).symm⟩

/-- the refined content is unique -/
theorem refines_unique (a : Store) (c c' : Content) (h : a.Refines c) (h' : a.Refines c') :
    c = c' := by
  have := h.bins.symm.trans h'.bins
  exact Option.some.inj this

/-! ### the plain dense store -/

/-- what `Bins()` returns is canonical and carries exactly the weights -/
theorem dense_bins_lookup (s : DStore) (h : Inv s) (c : Content) (hc : s.binsList = some c) :
    c.WF ∧ ∀ j, c.lookup j = wt s j := by
  obtain ⟨l, hl, hmem, hall, hpw⟩ := DStore.binsList_spec s h
  rw [hl] at hc
  have hlc : l = c := Option.some.inj hc
  clear hc
  subst hlc
  have hwf : Content.WF l := by
    refine ⟨?_, fun p hp => (hmem p hp).1⟩
    clear hl hmem hall
    induction l with
    | nil => trivial
    | cons p rest ih =>
      rw [List.pairwise_cons] at hpw
      rw [Content.sorted_cons]
      exact ⟨hpw.1, ih hpw.2⟩
  refine ⟨hwf, ?_⟩
  intro j
  have hnn := h.wt_nonneg j
  by_cases hj : 0 < wt s j
  · exact Content.lookup_of_mem_sorted l hwf.1 _ (hall j hj)
  · have h0 : wt s j = 0 := by grind
    rw [h0]
    apply Content.lookup_eq_zero_of_not_mem
    intro p hp hpj
    have := hmem p hp
    rw [hpj] at this
    grind

theorem dense_cum_eq (s : DStore) (c : Content) (hl : ∀ j, c.lookup j = wt s j)
    (hpos : ∀ p ∈ c, 0 < p.2) (hs : c.Sorted) (k : Int) : DStore.cum s k = Content.cumul c k := by
  have hkeys : ∀ p ∈ c, s.offset ≤ p.1 := by
    intro p hp
    apply Classical.byContradiction
    intro hlt
    have h1 : wt s p.1 = 0 := DStore.at0_neg _ _ (by omega)
    have h2 := Content.lookup_of_mem_sorted c hs p hp
    have h3 := hpos p hp
    rw [hl] at h2
    grind
  rw [Content.cumul_eq_rsum c s.offset k hkeys]
  unfold DStore.cum
  exact DStore.rsum_congr _ _ (fun j _ _ => (hl j).symm)

/-- dense (plain) store: from the invariant of `DDS.Proofs.Dense` to `Refines` -/
theorem refines_dense (s : DStore) (h : Inv s) (hb : Bounded32 s) :
    ∃ c, (Store.d s).Refines c ∧ ∀ j, c.lookup j = wt s j := by
  obtain ⟨c, hc⟩ : ∃ c : Content, s.binsList = some c := by
    obtain ⟨l, hl, _⟩ := DStore.binsList_spec s h
    exact ⟨l, hl⟩
  obtain ⟨hwf, hl⟩ := dense_bins_lookup s h c hc
  refine ⟨c, ?_, hl⟩
  -- keys of `c` are exactly the indexes of positive weight
  have hkey : ∀ p ∈ c, 0 < wt s p.1 := by
    intro p hp
    rw [← hl, Content.lookup_pos_of_mem c hwf p hp]
    exact hwf.2 p hp
  have hkey' : ∀ j, 0 < wt s j → ∃ w, (j, w) ∈ c := by
    intro j hj
    rw [← Content.lookup_pos_iff c hwf, hl]; exact hj
  have hnil : c = [] ↔ s.count = 0 := by
    rw [DStore.count_zero_iff s h]
    constructor
    · intro hc j; rw [← hl, hc]; rfl
    · intro hz
      cases c with
      | nil => rfl
      | cons p rest =>
        have := hkey p (List.mem_cons_self ..)
        rw [hz] at this
        exact absurd this (by simp)
  have hemp : s.isEmpty = c.isEmpty := by
    by_cases h0 : s.count = 0
    · rw [(DStore.isEmpty_iff_count s).2 h0, hnil.2 h0]; rfl
    · have hne : c ≠ [] := fun hc => h0 (hnil.1 hc)
      have h1 : s.isEmpty = false := by
        cases he : s.isEmpty with
        | false => rfl
        | true => exact absurd ((DStore.isEmpty_iff_count s).1 he) h0
      rw [h1]
      cases c with
      | nil => exact absurd rfl hne
      | cons p rest => rfl
  have hmin : s.minIndex? = c.minIndex? := by
    by_cases h0 : s.count = 0
    · rw [hnil.2 h0]
      unfold DStore.minIndex?
      rw [(DStore.isEmpty_iff_count s).2 h0]; rfl
    · have he : s.isEmpty = false := by
        cases he : s.isEmpty with
        | false => rfl
        | true => exact absurd ((DStore.isEmpty_iff_count s).1 he) h0
      have hk : s.minIndex? = some s.minIndex := by unfold DStore.minIndex?; rw [he]; rfl
      obtain ⟨h1, h2⟩ := DStore.minIndex_spec s h hb _ hk
      rw [hk]
      symm
      apply Content.minIndex?_eq_of c hwf.1 _ (hkey' _ h1)
      intro p hp
      apply Classical.byContradiction
      intro hlt
      have := hkey p hp
      rw [h2 p.1 (by omega)] at this
      exact absurd this (by simp)
  have hmax : s.maxIndex? = c.maxIndex? := by
    by_cases h0 : s.count = 0
    · rw [hnil.2 h0]
      unfold DStore.maxIndex?
      rw [(DStore.isEmpty_iff_count s).2 h0]; rfl
    · have he : s.isEmpty = false := by
        cases he : s.isEmpty with
        | false => rfl
        | true => exact absurd ((DStore.isEmpty_iff_count s).1 he) h0
      have hk : s.maxIndex? = some s.maxIndex := by unfold DStore.maxIndex?; rw [he]; rfl
      obtain ⟨h1, h2⟩ := DStore.maxIndex_spec s h hb _ hk
      rw [hk]
      symm
      apply Content.maxIndex?_eq_of c hwf.1 _ (hkey' _ h1)
      intro p hp
      apply Classical.byContradiction
      intro hlt
      have := hkey p hp
      rw [h2 p.1 (by omega)] at this
      exact absurd this (by simp)
  have htot : s.count = c.total := by
    by_cases h0 : s.count = 0
    · rw [h0, hnil.2 h0]; rfl
    · rw [DStore.count_eq_window s h]
      obtain ⟨w1, w2, w3, _, _⟩ := h.window h0
      rw [Content.total_eq_rsum c s.minIndex (s.maxIndex - s.minIndex + 1).toNat]
      · exact DStore.rsum_congr _ _ (fun j _ _ => (hl j).symm)
      · intro p hp
        have hpos := hkey p hp
        have : ¬ (p.1 < s.minIndex ∨ s.maxIndex < p.1) := by
          intro hc
          rw [h.outside p.1 hc] at hpos
          exact absurd hpos (by simp)
        omega
  have hcum : ∀ k, DStore.cum s k = Content.cumul c k := dense_cum_eq s c hl hwf.2 hwf.1
  refine ⟨hwf, htot, hemp, hmin, hmax, hc, ?_⟩
  intro hne r
  show s.keyAtRank r = c.keyAtRank r
  have h0 : s.count ≠ 0 := fun h0 => hne (hnil.2 h0)
  have hd := DStore.keyAtRank_spec s h r
  have hcs := Content.keyAtRank_spec c hwf hne r
  simp only at hd hcs
  obtain ⟨wc, hwc⟩ := Content.keyAtRank_mem c r hne
  generalize s.keyAtRank r = kd at hd
  generalize c.keyAtRank r = kc at hcs hwc
  generalize (if r < 0 then 0 else r) = r' at hd hcs
  simp only [hcum] at hd
  rcases hd with ⟨d1, d2⟩ | ⟨d1, d2⟩
  · rcases hcs with ⟨c1, c2⟩ | ⟨c1, c2⟩
    · -- both found by the scan: the first index whose cumulative weight exceeds the rank
      rcases Int.lt_trichotomy kd kc with hlt | heq | hgt
      · exfalso
        -- `kd` is a key (the cumulative weight jumps there), so `c2` applies
        have hk : ∃ p ∈ c, p.1 = kd := by
          apply Classical.byContradiction
          intro hn
          have := Content.cumul_pred_of_not_key c kd (fun p hp hpk => hn ⟨p, hp, hpk⟩)
          have := d2 (kd - 1) (by omega)
          grind
        obtain ⟨p, hp, hpk⟩ := hk
        have := c2 p hp (by omega)
        rw [hpk] at this
        grind
      · exact heq
      · exfalso
        have := d2 kc hgt
        grind
    · exfalso
      have := Content.cumul_le_total c hwf.2 kd
      grind
  · rcases hcs with ⟨c1, c2⟩ | ⟨c1, c2⟩
    · exfalso
      have := Content.cumul_le_total c hwf.2 kc
      rw [htot] at d1
      grind
    · have he : s.isEmpty = false := by
        cases he : s.isEmpty with
        | false => rfl
        | true => exact absurd ((DStore.isEmpty_iff_count s).1 he) h0
      have hk : s.maxIndex? = some s.maxIndex := by unfold DStore.maxIndex?; rw [he]; rfl
      rw [hk, c2] at hmax
      rw [d2]
      exact Option.some.inj hmax

/-- dense (plain) store: `AddWithCount` does not panic, keeps invariant and bound, and is the spec
    step on the refined content -/
theorem dense_add (hG : GrowthOK) (s : DStore) (h : Inv s) (hb : Bounded32 s) (c : Content)
    (hc : (Store.d s).Refines c) (i : Int) (hi : minInt32 ≤ i ∧ i ≤ maxInt32) (w : Rat)
    (hw : 0 ≤ w) :
    ∃ s', (Store.d s).addWithCount i w = some (.d s') ∧ Inv s' ∧ Bounded32 s' ∧
      (Store.d s').Refines (c.add i w) := by
  obtain ⟨s', h1, h2, h3, _⟩ := DStore.addWithCount_ok hG s h i w hw
    (DStore.spanOK_of_bounded32 s h hb i i hi hi)
  have hb' := DStore.addWithCount_bounded32 hG s h hb i w hw hi s' h1
  refine ⟨s', by simp [Store.addWithCount, h1], h2, hb', ?_⟩
  obtain ⟨c', hc', hl'⟩ := refines_dense s' h2 hb'
  obtain ⟨_, hl⟩ := dense_bins_lookup s h c hc.bins
  have : c' = c.add i w := by
    apply Content.ext _ _ hc'.wf (Content.wf_add c i w hc.wf hw)
    intro j
    rw [hl', h3, Content.lookup_add, hl]
  rw [← this]; exact hc'

theorem refines_new_dense : (Store.new .dense).Refines [] := by
  obtain ⟨c, hc, hl⟩ := refines_dense (DStore.new .plain) DStore.inv_new DStore.bounded32_new
  have : c = [] := by
    have := hc.bins
    simpa [Store.binsList, DStore.binsList, DStore.new, DStore.idxRange, maxInt32, minInt32] using this.symm
  rw [← this]; exact hc

/-- merging any store into a dense (plain) one, by the `ForEach` fallback or the same-type fast
    path, is covered in `DDS.Proofs.Dense` (`mergeBins_ok`, `mergeSame_ok`); with a sparse
    receiver the two routes coincide with the spec `Content.merge` -/
theorem merge_sparse_dense (c : Content) (hc : c.WF) (s : DStore) (h : Inv s) (hb : Bounded32 s) :
    ∃ co, (Store.d s).Refines co ∧ (Store.sp c).mergeWith (.d s) = some (.sp (c.merge co)) := by
  obtain ⟨co, hco, _⟩ := refines_dense s h hb
  exact ⟨co, hco, merge_into_sparse c hc _ co hco⟩

end Store
end DDS
