/-
  DDS.Proofs.GenDecodeWrap — the REGENERATED per-store decode wrappers, the sparse store's `MergeWith` and the
  default mapping constructor, against the hand-written model.

    DDS/Generated/CodeDenseDecode.lean    `DenseStore / CollapsingLowestDenseStore / CollapsingHighestDenseStore
                                           .DecodeAndMergeWith`   (each: `return DecodeAndMergeWith(s, b, mode)`)
    DDS/Generated/CodeSparseDecode.lean   `SparseStore.DecodeAndMergeWith`                     (the same)
    DDS/Generated/CodeSparseMerge.lean    `SparseStore.MergeWith(store Store)`, argument of any type `[StoreI S]`
    DDS/Generated/CodeMappingCtor.lean    `NewDefaultMapping`

  A. FACTORISATION (`decode_factor`).  For EVERY implementation `S` of `store.Store`, every receiver, input,
     layout and fuel:  `store.DecodeAndMergeWith fuel s b sf = rmap (replay s ·) (decodeCalls fuel b sf)` — the
     generic decoder computes a list of calls (`Add(i)` / `AddWithCount(i, c)`) from the bytes alone (the decoder
     run on the recording store `Log`), then runs them on the receiver.  Three loop lemmas by induction on the
     fuel (`loop1/2/3_factor`); the control flow never looks at the store.
  B. PARAMETRICITY (`decode_param_on`, `decode_param`).  A relation kept by the calls of a class `P` is kept by
     the decoder when the calls of the input are in `P`: same outcome (`.ok/.panic/.nofuel`), same bytes left,
     same error, related receivers (`ResRel`).  Any fuel.
  C. Against `Sketch.decodeStore` for any implementation related to the model's stores (`decode_model_ok`,
     `decode_model_error`, `decode_unknown`), from `GenStoreDecode.DecodeAndMergeWith_ok/_error`: fuel
     `len(b) + 9`, `NoWrap` (no index leaves int64) for the success half only.
  D. THE FOUR WRAPPERS.  The wrappers take instance binders (`[StoreI DenseStore]` …) that the proof side must
     supply; every theorem is stated for EVERY instance `I` whose `AddWithCount` / `Add` run the regenerated
     functions with a fuel computed from the receiver (`DenseAdds`, `LowAdds`, `HighAdds`, `SparseAdds`: panicking
     call or non-finite float = receiver unchanged, the conventions of `instance : StoreI Store`); the other two
     dense-family binders of `CodeDenseDecode` are unused and arbitrary.  Such instances exist: `denseI`
     (`GenDenseSketch.gdStoreI` carried to the raw structure), `lowI`, `highI`, `sparseI`.
       dense      `dense_decode_sim`  (every input, fuel: wrapper on `toGen d` ~ generic decoder on `.d d`, relation
                  `DRel` = image of a plain model store), `dense_decode_ok` (model `some (.ok (st', rest))` ⟹
                  `st' = .d d'`, plain, wrapper `= .ok (toGen d', bn rest, nil)`), `dense_decode_error`.
       lowest     `low_decode_sim / _ok / _error`    (`toLow n`, kind `.low n`; fuel of the adds `len(bins)+n+2`)
       highest    `high_decode_sim / _ok / _error`   (`toHigh n`, kind `.high n`; fuel `extendFuel` at the index)
       sparse     `sparse_decode_sim / _ok` under `NonnegCall` for the calls of the input (every finite weight
                  `≥ 0`: the sparse store's contract, `GenSparse` — a negative weight can leave a phantom zero
                  entry); `sparse_decode_error` unconditional.  No order oracle is involved (adds only).
     Fuel: the decoder's own loops need `len(b) + 9`; the store calls take their fuel from the instance.
  E. `SparseStore.MergeWith`.  The Go method has NO same-kind fast path (`store.ForEach(func … s.AddWithCount …)`),
     so there is no type assertion to translate: the regenerated function is the loop over `StoreI.ForEachList`.
       `sparse_mergeWith_fold`   any `S`, any receiver, finite bins `l`: `= .ok (addAll g l)` (any fuel)
       `sparse_mergeWith_any`    `Rep g c`, weights `≥ 0`: `= .ok ⟨c.merge l⟩` — the model's fold of `Content.add`
       `sparse_mergeWith_model`  argument any model `Store`: `(Store.sp c).mergeWith o = some (.sp g'.counts)`
       `sparse_mergeWith_perm`, `sparse_mergeWith_sparse`   the enumeration order is irrelevant (any lawful `ord`)
       `sparse_mergeWith_dense`, `sparse_mergeWith_pag`     argument = regenerated dense / paginated store
       `sparse_mergeWith_nonfinite`  a non-finite weight in the enumeration: `.panic` (translation artefact: the
                                 weight is read as a rational; Go would store the Inf/NaN) — outside the model.
  F. `NewDefaultMapping`.  The Go function takes the relative accuracy as its PARAMETER (there is no built-in
     `0.01`): `newDefaultMapping_eq` (any `MOps F`): `= NewLogarithmicMapping α`; over the reals
     `newDefaultMapping_ofAlpha` (`= (toGenLog (Mapping.ofAlpha .log α), nil)` for `0 < α < 1`),
     `newDefaultMapping_err`, `newDefaultMapping_params` (`gamma = (1+α)/(1-α)`, offset `0`, multiplier
     `1 / ln gamma`, `RelativeAccuracy() = α`), `newDefaultMapping_one_percent` (`α = 1/100`: `gamma = 101/99`).
  G. kernel-checked runs of the four concrete instances.

  DISAGREEMENTS: none new.  Inherited: the int64 wrap of the running index (`GenStoreDecode.wrap_counterexample`,
  excluded by `NoWrap`), negative weights in the sparse store, non-finite weights (`.panic` in E, ignored in D).
-/
import DDS.Generated.CodeDenseDecode
import DDS.Generated.CodeSparseDecode
import DDS.Generated.CodeSparseMerge
import DDS.Generated.CodeMappingCtor
import DDS.Proofs.GenStoreDecode
import DDS.Proofs.GenDenseSketch
import DDS.Proofs.GenCollapsingLow
import DDS.Proofs.GenCollapsingHigh
import DDS.Proofs.GenSparse
import DDS.Proofs.GenMapping

set_option linter.unusedVariables false

namespace DDS.GenDecodeWrap

open DDS DDS.GoSem DDS.Gen.StoreDecode DDS.Gen.Encoding

/-! ## A. the generic decoder factors through the list of its calls on the store -/

/-- one call of the decoder on its receiver: `AddWithCount(i, c)` (`some c`) or `Add(i)` (`none`) -/
abbrev Call := Int × Option F64

/-- the recording store: the calls received so far, oldest first -/
structure Log where
  calls : List Call

/-- the recording implementation of `store.Store`: `Add` / `AddWithCount` append the call; the other methods
    (never called by the decoder) are inert -/
@[reducible] def logI : StoreI Log where
  Add l i := ⟨l.calls ++ [(i, none)]⟩
  AddWithCount l i c := ⟨l.calls ++ [(i, some c)]⟩
  Copy l := l
  Clear l := l
  IsEmpty _ := true
  MaxIndex _ := (0, GoErr.nil)
  MinIndex _ := (0, GoErr.nil)
  TotalCount _ := .fin 0
  KeyAtRank _ _ := 0
  MergeWith l _ := l
  Reweight l _ := (l, GoErr.nil)
  Encode l b _ := (l, b)
  ForEachList _ := []
  DecodeAndMergeWith l b _ := (l, b, GoErr.nil)

section factor
variable {S : Type} [StoreI S]

/-- run one recorded call on a store -/
def applyCall (s : S) : Call → S
  | (i, some c) => StoreI.AddWithCount s i c
  | (i, none) => StoreI.Add s i

/-- run the recorded calls, oldest first -/
def replay (s : S) (l : List Call) : S := l.foldl applyCall s

@[simp] theorem replay_nil (s : S) : replay s [] = s := rfl

theorem replay_snoc (s : S) (l : List Call) (c : Call) : replay s (l ++ [c]) = applyCall (replay s l) c := by
  unfold replay
  rw [List.foldl_append]; rfl

theorem replay_cons (s : S) (c : Call) (l : List Call) : replay s (c :: l) = replay (applyCall s c) l := rfl

def lmap {σ σ' ρ ρ' : Type} (f : σ → σ') (g : ρ → ρ') : Loop σ ρ → Loop σ' ρ'
  | .done s => .done (f s)
  | .ret r => .ret (g r)
  | .panic => .panic
  | .nofuel => .nofuel

def rmap {α β : Type} (f : α → β) : Res α → Res β
  | .ok a => .ok (f a)
  | .panic => .panic
  | .nofuel => .nofuel

/-- the calls the decoder makes on its receiver for the input `b` and layout `sf` (with the bytes left and the
    error): the decoder run on the recording store -/
def decodeCalls (fuel : Nat) (b : List (BitVec 8)) (sf : SubFlag) : Res (Log × List (BitVec 8) × GoErr) :=
  @DecodeAndMergeWith Log logI fuel ⟨[]⟩ b sf

theorem loop1_factor (s0 : S) (numBins : BitVec 64) : ∀ (fuel : Nat) (b : List (BitVec 8)) (index : BitVec 64)
    (l : Log) (i : BitVec 64),
    DecodeAndMergeWith.loop1 numBins fuel b index (replay s0 l.calls) i
      = lmap (fun p : List (BitVec 8) × BitVec 64 × Log × BitVec 64 => (p.1, p.2.1, replay s0 p.2.2.1.calls, p.2.2.2))
          (fun p : Log × List (BitVec 8) × GoErr => (replay s0 p.1.calls, p.2))
          (@DecodeAndMergeWith.loop1 Log logI numBins fuel b index l i) := by
  intro fuel
  induction fuel with
  | zero => intro b index l i; rfl
  | succ fuel ih =>
    intro b index l i
    simp only [DecodeAndMergeWith.loop1]
    cases hu : BitVec.ult i numBins with
    | false => simp only [Bool.false_eq_true, if_false]; rfl
    | true =>
      simp only [if_true]
      cases hV : DecodeVarint64 fuel b with
      | panic => rfl
      | nofuel => rfl
      | ok p =>
        obtain ⟨b1, d, e1⟩ := p
        simp only [Res.bindL_ok]
        by_cases he1 : (e1 != GoErr.nil) = true
        · simp only [he1, if_true]; rfl
        · simp only [he1, Bool.false_eq_true, if_false]
          cases hF : DecodeVarfloat64 fuel b1 with
          | panic => rfl
          | nofuel => rfl
          | ok q =>
            obtain ⟨b2, c, e2⟩ := q
            simp only [Res.bindL_ok]
            by_cases he2 : (e2 != GoErr.nil) = true
            · simp only [he2, if_true]; rfl
            · simp only [he2, Bool.false_eq_true, if_false]
              have := ih b2 (index + d) ⟨l.calls ++ [((index + d).toInt, some c)]⟩ (i + 1#64)
              simp only [replay_snoc, applyCall] at this
              exact this

theorem loop2_factor (s0 : S) (numBins : BitVec 64) : ∀ (fuel : Nat) (b : List (BitVec 8)) (index : BitVec 64)
    (l : Log) (i : BitVec 64),
    DecodeAndMergeWith.loop2 numBins fuel b index (replay s0 l.calls) i
      = lmap (fun p : List (BitVec 8) × BitVec 64 × Log × BitVec 64 => (p.1, p.2.1, replay s0 p.2.2.1.calls, p.2.2.2))
          (fun p : Log × List (BitVec 8) × GoErr => (replay s0 p.1.calls, p.2))
          (@DecodeAndMergeWith.loop2 Log logI numBins fuel b index l i) := by
  intro fuel
  induction fuel with
  | zero => intro b index l i; rfl
  | succ fuel ih =>
    intro b index l i
    simp only [DecodeAndMergeWith.loop2]
    cases hu : BitVec.ult i numBins with
    | false => simp only [Bool.false_eq_true, if_false]; rfl
    | true =>
      simp only [if_true]
      cases hV : DecodeVarint64 fuel b with
      | panic => rfl
      | nofuel => rfl
      | ok p =>
        obtain ⟨b1, d, e1⟩ := p
        simp only [Res.bindL_ok]
        by_cases he1 : (e1 != GoErr.nil) = true
        · simp only [he1, if_true]; rfl
        · simp only [he1, Bool.false_eq_true, if_false]
          have := ih b1 (index + d) ⟨l.calls ++ [((index + d).toInt, none)]⟩ (i + 1#64)
          simp only [replay_snoc, applyCall] at this
          exact this

theorem loop3_factor (s0 : S) (numBins indexDelta : BitVec 64) : ∀ (fuel : Nat) (b : List (BitVec 8)) (l : Log)
    (index : BitVec 64) (i : BitVec 64),
    DecodeAndMergeWith.loop3 numBins indexDelta fuel b (replay s0 l.calls) index i
      = lmap (fun p : List (BitVec 8) × Log × BitVec 64 × BitVec 64 => (p.1, replay s0 p.2.1.calls, p.2.2))
          (fun p : Log × List (BitVec 8) × GoErr => (replay s0 p.1.calls, p.2))
          (@DecodeAndMergeWith.loop3 Log logI numBins indexDelta fuel b l index i) := by
  intro fuel
  induction fuel with
  | zero => intro b l index i; rfl
  | succ fuel ih =>
    intro b l index i
    simp only [DecodeAndMergeWith.loop3]
    cases hu : BitVec.ult i numBins with
    | false => simp only [Bool.false_eq_true, if_false]; rfl
    | true =>
      simp only [if_true]
      cases hF : DecodeVarfloat64 fuel b with
      | panic => rfl
      | nofuel => rfl
      | ok q =>
        obtain ⟨b2, c, e2⟩ := q
        simp only [Res.bindL_ok]
        by_cases he2 : (e2 != GoErr.nil) = true
        · simp only [he2, if_true]; rfl
        · simp only [he2, Bool.false_eq_true, if_false]
          have := ih b2 ⟨l.calls ++ [(index.toInt, some c)]⟩ (index + indexDelta) (i + 1#64)
          simp only [replay_snoc, applyCall] at this
          exact this

theorem lelim_lmap {σ σ' ρ ρ' : Type} (f : σ → σ') (g : ρ → ρ') (L : Loop σ ρ) (k : σ → Res ρ) (k' : σ' → Res ρ')
    (hk : ∀ x, k' (f x) = rmap g (k x)) :
    Loop.elim (lmap f g L) k' = rmap g (Loop.elim L k) := by
  cases L with
  | done x => exact hk x
  | ret r => rfl
  | panic => rfl
  | nofuel => rfl

/-- **factorisation**: for every implementation `S` of `store.Store`, every receiver, input, layout and fuel,
    the generic decoder is "compute the calls from the bytes alone, then run them on the receiver" -/
theorem decode_factor (fuel : Nat) (s : S) (b : List (BitVec 8)) (sf : SubFlag) :
    DecodeAndMergeWith fuel s b sf
      = rmap (fun p : Log × List (BitVec 8) × GoErr => (replay s p.1.calls, p.2)) (decodeCalls fuel b sf) := by
  unfold decodeCalls
  simp only [DecodeAndMergeWith]
  cases h1 : (sf == BinEncodingIndexDeltasAndCounts) with
  | true =>
    simp only [if_true]
    cases hU : DecodeUvarint64 fuel b with
    | panic => rfl
    | nofuel => rfl
    | ok p =>
      obtain ⟨b1, n, e⟩ := p
      simp only [Res.bind_ok]
      by_cases he : (e != GoErr.nil) = true
      · simp only [he, if_true]; rfl
      · simp only [he, Bool.false_eq_true, if_false]
        have := loop1_factor s n fuel b1 0#64 ⟨[]⟩ 0#64
        simp only [replay_nil] at this
        rw [this]
        exact lelim_lmap _ _ _ _ _ (fun x => rfl)
  | false =>
    simp only [Bool.false_eq_true, if_false]
    cases h2 : (sf == BinEncodingIndexDeltas) with
    | true =>
      simp only [if_true]
      cases hU : DecodeUvarint64 fuel b with
      | panic => rfl
      | nofuel => rfl
      | ok p =>
        obtain ⟨b1, n, e⟩ := p
        simp only [Res.bind_ok]
        by_cases he : (e != GoErr.nil) = true
        · simp only [he, if_true]; rfl
        · simp only [he, Bool.false_eq_true, if_false]
          have := loop2_factor s n fuel b1 0#64 ⟨[]⟩ 0#64
          simp only [replay_nil] at this
          rw [this]
          exact lelim_lmap _ _ _ _ _ (fun x => rfl)
    | false =>
      simp only [Bool.false_eq_true, if_false]
      cases h3 : (sf == BinEncodingContiguousCounts) with
      | false => simp only [Bool.false_eq_true, if_false]; rfl
      | true =>
        simp only [if_true]
        cases hU : DecodeUvarint64 fuel b with
        | panic => rfl
        | nofuel => rfl
        | ok p =>
          obtain ⟨b1, n, e⟩ := p
          simp only [Res.bind_ok]
          by_cases he : (e != GoErr.nil) = true
          · simp only [he, if_true]; rfl
          · simp only [he, Bool.false_eq_true, if_false]
            cases hS : DecodeVarint64 fuel b1 with
            | panic => rfl
            | nofuel => rfl
            | ok p2 =>
              obtain ⟨b2, start, e2⟩ := p2
              simp only [Res.bind_ok]
              by_cases he2 : (e2 != GoErr.nil) = true
              · simp only [he2, if_true]; rfl
              · simp only [he2, Bool.false_eq_true, if_false]
                cases hT : DecodeVarint64 fuel b2 with
                | panic => rfl
                | nofuel => rfl
                | ok p3 =>
                  obtain ⟨b3, stride, e3⟩ := p3
                  simp only [Res.bind_ok]
                  by_cases he3 : (e3 != GoErr.nil) = true
                  · simp only [he3, if_true]; rfl
                  · simp only [he3, Bool.false_eq_true, if_false]
                    have := loop3_factor s n stride fuel b3 ⟨[]⟩ start 0#64
                    simp only [replay_nil] at this
                    rw [this]
                    exact lelim_lmap _ _ _ _ _ (fun x => rfl)

end factor

/-! ## B. parametricity of the generic decoder in the store implementation -/

/-- two outcomes of the decoder agree: the same control outcome, the same bytes left, the same error, and the
    receivers are related -/
def ResRel {S₁ S₂ : Type} (R : S₁ → S₂ → Prop) :
    Res (S₁ × List (BitVec 8) × GoErr) → Res (S₂ × List (BitVec 8) × GoErr) → Prop
  | .ok p, .ok q => R p.1 q.1 ∧ p.2 = q.2
  | .panic, .panic => True
  | .nofuel, .nofuel => True
  | _, _ => False

theorem ResRel.of_ok {S₁ S₂ : Type} {R : S₁ → S₂ → Prop} {r₁ : Res (S₁ × List (BitVec 8) × GoErr)}
    {r₂ : Res (S₂ × List (BitVec 8) × GoErr)} (h : ResRel R r₁ r₂) {st' : S₂} {b' : List (BitVec 8)} {e : GoErr}
    (h2 : r₂ = .ok (st', b', e)) : ∃ x', R x' st' ∧ r₁ = .ok (x', b', e) := by
  subst h2
  cases r₁ with
  | ok p =>
    obtain ⟨x', p2⟩ := p
    obtain ⟨hr, he⟩ := h
    simp only at hr he
    subst he
    exact ⟨x', hr, rfl⟩
  | panic => exact h.elim
  | nofuel => exact h.elim

section param
variable {S₁ S₂ : Type} [StoreI S₁] [StoreI S₂]

theorem replay_rel (R : S₁ → S₂ → Prop) (P : Call → Prop)
    (hstep : ∀ x st c, R x st → P c → R (applyCall x c) (applyCall st c)) :
    ∀ (l : List Call) (x : S₁) (st : S₂), R x st → (∀ c ∈ l, P c) → R (replay x l) (replay st l) := by
  intro l
  induction l with
  | nil => intro x st h _; exact h
  | cons c rest ih =>
    intro x st h hP
    rw [replay_cons, replay_cons]
    exact ih _ _ (hstep x st c h (hP c (List.mem_cons_self ..))) (fun c' hc' => hP c' (List.mem_cons_of_mem _ hc'))

/-- **parametricity, restricted to a class `P` of calls**: if the relation `R` is kept by every call in `P`
    and the calls the bytes give rise to are all in `P`, the two runs agree — any fuel, any input -/
theorem decode_param_on (R : S₁ → S₂ → Prop) (P : Call → Prop)
    (hstep : ∀ x st c, R x st → P c → R (applyCall x c) (applyCall st c))
    (fuel : Nat) (x : S₁) (st : S₂) (b : List (BitVec 8)) (sf : SubFlag) (h : R x st)
    (hP : ∀ l b' e, decodeCalls fuel b sf = .ok (l, b', e) → ∀ c ∈ l.calls, P c) :
    ResRel R (DecodeAndMergeWith fuel x b sf) (DecodeAndMergeWith fuel st b sf) := by
  rw [decode_factor fuel x, decode_factor fuel st]
  cases hc : decodeCalls fuel b sf with
  | panic => trivial
  | nofuel => trivial
  | ok p =>
    obtain ⟨l, b', e⟩ := p
    exact ⟨replay_rel R P hstep l.calls x st h (hP l b' e hc), rfl⟩

/-- **parametricity**: a relation kept by `AddWithCount` (every index, every float) and `Add` (every index) is
    kept by the decoder, with the same bytes left and the same error — any fuel, any input -/
theorem decode_param (R : S₁ → S₂ → Prop)
    (hA : ∀ x st, R x st → ∀ i c, R (StoreI.AddWithCount x i c) (StoreI.AddWithCount st i c))
    (hAdd : ∀ x st, R x st → ∀ i, R (StoreI.Add x i) (StoreI.Add st i))
    (fuel : Nat) (x : S₁) (st : S₂) (b : List (BitVec 8)) (sf : SubFlag) (h : R x st) :
    ResRel R (DecodeAndMergeWith fuel x b sf) (DecodeAndMergeWith fuel st b sf) :=
  decode_param_on R (fun _ => True)
    (fun x st c h _ => by
      obtain ⟨i, oc⟩ := c
      cases oc with
      | some c => exact hA x st h i c
      | none => exact hAdd x st h i)
    fuel x st b sf h (fun _ _ _ _ _ _ => trivial)

end param

/-! ## C. against the model's `Sketch.decodeStore`, for any implementation related to the model's stores -/

section model
open DDS.GenStoreDecode DDS.GenEncoding DDS.Sketch DDS.Codec
variable {S₁ : Type} [StoreI S₁]

/-- an undefined layout, for EVERY implementation: refused, nothing read, receiver untouched -/
theorem decode_unknown (s : S₁) (sub : Nat) (hsub : sub < 64) (hk : ¬ KnownSub sub) (b : List (BitVec 8))
    (fuel : Nat) :
    DecodeAndMergeWith fuel s b (subflag sub) = .ok (s, b, GoErr.named "unknown bin encoding") := by
  unfold KnownSub at hk
  have h1 : sub ≠ Consts.binEncodingIndexDeltasAndCounts := fun h => hk (Or.inl h)
  have h2 : sub ≠ Consts.binEncodingIndexDeltas := fun h => hk (Or.inr (Or.inl h))
  have h3 : sub ≠ Consts.binEncodingContiguousCounts := fun h => hk (Or.inr (Or.inr h))
  obtain ⟨e1, e2, e3⟩ := subflag_beq sub hsub
  simp only [DecodeAndMergeWith, e1, e2, e3, h1, h2, h3, decide_false, Bool.false_eq_true, if_false]

/-- success of the model ⟹ the implementation returns a receiver related to the model's result, the model's
    remaining bytes and a nil error (fuel `len(b) + 9`; `NoWrap`: no index leaves the int64 range, see
    `GenStoreDecode.wrap_counterexample`) -/
theorem decode_model_ok (R : S₁ → Store → Prop) (P : Call → Prop)
    (hstep : ∀ x st c, R x st → P c → R (applyCall x c) (applyCall st c))
    (x : S₁) (st st' : Store) (h : R x st) (sub : Nat) (b : List (BitVec 8)) (rest : Bytes) (fuel : Nat)
    (hf : b.length + 9 ≤ fuel) (hw : NoWrap sub (nb b))
    (hP : ∀ l b' e, decodeCalls fuel b (subflag sub) = .ok (l, b', e) → ∀ c ∈ l.calls, P c)
    (hm : decodeStore st sub (nb b) = some (.ok (st', rest))) :
    ∃ x', R x' st' ∧ DecodeAndMergeWith fuel x b (subflag sub) = .ok (x', bn rest, GoErr.nil) :=
  (decode_param_on R P hstep fuel x st b (subflag sub) h hP).of_ok
    (DecodeAndMergeWith_ok st st' sub b rest fuel hf hw hm)

/-- refusal of the model ⟹ the implementation returns normally with the error of the same class: `io.EOF`
    (truncated input; the receiver has absorbed the bins read before the cut) or "unknown bin encoding"
    (receiver and input untouched).  No hypothesis on indexes. -/
theorem decode_model_error (R : S₁ → Store → Prop) (P : Call → Prop)
    (hstep : ∀ x st c, R x st → P c → R (applyCall x c) (applyCall st c))
    (x : S₁) (st : Store) (h : R x st) (sub : Nat) (hsub : sub < 64) (b : List (BitVec 8)) (e : SkErr)
    (fuel : Nat) (hf : b.length + 9 ≤ fuel)
    (hP : ∀ l b' e, decodeCalls fuel b (subflag sub) = .ok (l, b', e) → ∀ c ∈ l.calls, P c)
    (hm : decodeStore st sub (nb b) = some (.error e)) :
    (KnownSub sub ∧ e = .eof ∧ ∃ x' b', DecodeAndMergeWith fuel x b (subflag sub) = .ok (x', b', GoErr.eof)) ∨
    (¬ KnownSub sub ∧ e = .unknownBinEncoding ∧
      DecodeAndMergeWith fuel x b (subflag sub) = .ok (x, b, GoErr.named "unknown bin encoding")) := by
  rcases DecodeAndMergeWith_error st sub hsub b e fuel hf hm with ⟨hk, he, s', b', hr⟩ | ⟨hk, he, _⟩
  · obtain ⟨x', _, hx⟩ := (decode_param_on R P hstep fuel x st b (subflag sub) h hP).of_ok hr
    exact Or.inl ⟨hk, he, x', b', hx⟩
  · exact Or.inr ⟨hk, he, decode_unknown x sub hsub hk b fuel⟩

end model

/-! ## D. `DenseStore.DecodeAndMergeWith` -/

section dense
open DDS.GenStoreDecode DDS.GenEncoding DDS.Sketch DDS.Codec DDS.GenDense DDS.GenDenseSketch
open DDS.GenPagSketch (okOr okOr_ok)

/-- the three decode wrappers add nothing to the generic decoder -/
theorem bind_ok_triple {α β γ : Type} (r : Res (α × β × γ)) :
    (Res.bind r fun (p : α × β × γ) => match p with | (s, b, t) => Res.ok (s, b, t)) = r := by
  cases r with
  | ok p => obtain ⟨s, b, t⟩ := p; rfl
  | panic => rfl
  | nofuel => rfl

theorem DenseStore_wrapper_eq (I : StoreI GS) (IL : StoreI GLow) (IH : StoreI GHigh) (fuel : Nat) (s : GS)
    (b : List (BitVec 8)) (sf : SubFlag) :
    @Gen.DenseDecode.DenseStore.DecodeAndMergeWith I IL IH fuel s b sf
      = @DecodeAndMergeWith GS I fuel s b sf :=
  bind_ok_triple _

/-- what the theorems need of the `StoreI` instance handed to the wrapper: its `AddWithCount` / `Add` run the
    regenerated `DenseStore.AddWithCount` / `Add` with the fuel `extendFuel` of the state (a panicking call or a
    non-finite float leaves the receiver as it was — the conventions of `GenDenseSketch.gdStoreI`) -/
structure DenseAdds (I : StoreI GS) : Prop where
  addWithCount : ∀ g i c, I.AddWithCount g i c = (gAddWithCount ⟨g⟩ i c).g
  add : ∀ g i, I.Add g i = (gAdd ⟨g⟩ i).g

/-- `GenDenseSketch.gdStoreI` carried from the wrapper type `GDS` to the regenerated structure itself -/
@[reducible] def denseI : StoreI GS where
  Add g i := (gAdd ⟨g⟩ i).g
  AddWithCount g i c := (gAddWithCount ⟨g⟩ i c).g
  Copy g := (gCopy ⟨g⟩).g
  Clear g := (gClear ⟨g⟩).g
  IsEmpty g := gIsEmpty ⟨g⟩
  MaxIndex g := gMaxIndex ⟨g⟩
  MinIndex g := gMinIndex ⟨g⟩
  TotalCount g := gTotalCount ⟨g⟩
  KeyAtRank g r := gKeyAtRank ⟨g⟩ r
  MergeWith g o := (gMergeWith ⟨g⟩ ⟨o⟩).g
  Reweight g w := ((gReweight ⟨g⟩ w).1.g, (gReweight ⟨g⟩ w).2)
  Encode g b t := ((gEncode ⟨g⟩ b t).1.g, (gEncode ⟨g⟩ b t).2)
  ForEachList g := gForEachList ⟨g⟩
  DecodeAndMergeWith g b sf := ((gDecode ⟨g⟩ b sf).1.g, (gDecode ⟨g⟩ b sf).2)

theorem denseI_adds : DenseAdds denseI := ⟨fun _ _ _ => rfl, fun _ _ => rfl⟩

/-- the regenerated store is the image of the plain dense model store -/
def DRel (g : GS) (st : Store) : Prop := ∃ d : DStore, g = toGen d ∧ st = .d d ∧ d.kind = .plain

theorem drel_iff (g : GS) (st : Store) : DRel g st ↔ DSim ⟨g⟩ st := Iff.rfl

theorem drel_step (I : StoreI GS) (hI : DenseAdds I) (g : GS) (st : Store) (c : Call) (h : DRel g st) :
    DRel (@applyCall GS I g c) (applyCall st c) := by
  obtain ⟨i, oc⟩ := c
  cases oc with
  | some c =>
    show DRel (I.AddWithCount g i c) _
    rw [hI.addWithCount]
    exact dsim_addWithCount (x := ⟨g⟩) h i c
  | none =>
    show DRel (I.Add g i) _
    rw [hI.add]
    exact dsim_add (x := ⟨g⟩) h i

/-- **parametricity for the dense store**: the wrapper on the image of a plain dense model store `d` and the
    generic decoder on the model store (`instance : StoreI Store`) agree — same outcome, same bytes, same error,
    the receiver the image of the model's — for EVERY input, layout and fuel -/
theorem dense_decode_sim (I : StoreI GS) (hI : DenseAdds I) (IL : StoreI GLow) (IH : StoreI GHigh)
    (d : DStore) (hk : d.kind = .plain) (fuel : Nat) (b : List (BitVec 8)) (sf : SubFlag) :
    ResRel DRel (@Gen.DenseDecode.DenseStore.DecodeAndMergeWith I IL IH fuel (toGen d) b sf)
      (DecodeAndMergeWith fuel (Store.d d) b sf) := by
  rw [DenseStore_wrapper_eq]
  exact @decode_param_on GS Store I _ DRel (fun _ => True) (fun x st c h _ => drel_step I hI x st c h)
    fuel (toGen d) (.d d) b sf ⟨d, rfl, rfl, hk⟩ (fun _ _ _ _ _ _ => trivial)

/-- **success**: where the model decodes `(st', rest)` (no index leaving int64), the model's result is a plain
    dense store `d'` and the wrapper returns its image, the remaining bytes, nil -/
theorem dense_decode_ok (I : StoreI GS) (hI : DenseAdds I) (IL : StoreI GLow) (IH : StoreI GHigh)
    (d : DStore) (hk : d.kind = .plain) (st' : Store) (sub : Nat) (b : List (BitVec 8)) (rest : Bytes)
    (fuel : Nat) (hf : b.length + 9 ≤ fuel) (hw : NoWrap sub (nb b))
    (hm : decodeStore (.d d) sub (nb b) = some (.ok (st', rest))) :
    ∃ d', st' = .d d' ∧ d'.kind = .plain ∧
      @Gen.DenseDecode.DenseStore.DecodeAndMergeWith I IL IH fuel (toGen d) b (subflag sub)
        = .ok (toGen d', bn rest, GoErr.nil) := by
  obtain ⟨x', ⟨d', rfl, rfl, hk'⟩, hx⟩ := (dense_decode_sim I hI IL IH d hk fuel b (subflag sub)).of_ok
    (DecodeAndMergeWith_ok (.d d) st' sub b rest fuel hf hw hm)
  exact ⟨d', rfl, hk', hx⟩

/-- **refusal**: `io.EOF` or "unknown bin encoding" (receiver and input untouched), as the model -/
theorem dense_decode_error (I : StoreI GS) (hI : DenseAdds I) (IL : StoreI GLow) (IH : StoreI GHigh)
    (d : DStore) (hk : d.kind = .plain) (sub : Nat) (hsub : sub < 64) (b : List (BitVec 8)) (e : SkErr)
    (fuel : Nat) (hf : b.length + 9 ≤ fuel) (hm : decodeStore (.d d) sub (nb b) = some (.error e)) :
    (KnownSub sub ∧ e = .eof ∧ ∃ g' b',
      @Gen.DenseDecode.DenseStore.DecodeAndMergeWith I IL IH fuel (toGen d) b (subflag sub)
        = .ok (g', b', GoErr.eof)) ∨
    (¬ KnownSub sub ∧ e = .unknownBinEncoding ∧
      @Gen.DenseDecode.DenseStore.DecodeAndMergeWith I IL IH fuel (toGen d) b (subflag sub)
        = .ok (toGen d, b, GoErr.named "unknown bin encoding")) := by
  rw [DenseStore_wrapper_eq]
  exact @decode_model_error GS I DRel (fun _ => True) (fun x st c h _ => drel_step I hI x st c h)
    (toGen d) (.d d) ⟨d, rfl, rfl, hk⟩ sub hsub b e fuel hf (fun _ _ _ _ _ _ => trivial) hm

end dense

/-! ## Dlow. `CollapsingLowestDenseStore.DecodeAndMergeWith` -/

section low
open DDS.GenStoreDecode DDS.GenEncoding DDS.Sketch DDS.Codec DDS.GenDense
open DDS.GenPagSketch (okOr okOr_ok)

theorem CollapsingLowestDenseStore_wrapper_eq (I : StoreI GS) (IL : StoreI GLow) (IH : StoreI GHigh) (fuel : Nat) (s : GLow)
    (b : List (BitVec 8)) (sf : SubFlag) :
    @Gen.DenseDecode.CollapsingLowestDenseStore.DecodeAndMergeWith I IL IH fuel s b sf
      = @DecodeAndMergeWith GLow IL fuel s b sf :=
  bind_ok_triple _

/-- the regenerated `AddWithCount` with a fuel computed from the receiver (`len(bins) + maxNumBins + 2`, the bound `GenLow.lowFuel`); a panicking call
    or a non-finite float leaves the receiver as it was -/
def lowAddWithCount (g : GLow) (i : Int) (c : F64) : GLow :=
  match ratOfF64 c with
  | some w => okOr (Gen.Dense.CollapsingLowestDenseStore.AddWithCount (g.DenseStore.bins.length + g.maxNumBins.toNat + 2) g i w) g
  | none => g

def lowAdd (g : GLow) (i : Int) : GLow :=
  okOr (Gen.Dense.CollapsingLowestDenseStore.Add (g.DenseStore.bins.length + g.maxNumBins.toNat + 2) g i) g

/-- what the theorems need of the `StoreI` instance handed to the wrapper -/
structure LowAdds (I : StoreI GLow) : Prop where
  addWithCount : ∀ g i c, I.AddWithCount g i c = lowAddWithCount g i c
  add : ∀ g i, I.Add g i = lowAdd g i

/-- the regenerated store is the image of the model store of kind `low n` -/
def LRel (n : Nat) (g : GLow) (st : Store) : Prop :=
  ∃ d : DStore, g = toLow (n : Int) d ∧ st = .d d ∧ d.kind = .low n

theorem lowAddWithCount_fin (n : Nat) (d : DStore) (hk : d.kind = .low n) (i : Int) (w : Rat) :
    LRel n (lowAddWithCount (toLow (n : Int) d) i (.fin w)) (((Store.d d).addWithCount i w).getD (.d d)) := by
  simp only [lowAddWithCount, ratOfF64, Store.addWithCount]
  rw [GenLow.addWithCount_rel _ n d i w hk (by simp [GenLow.lowFuel])]
  cases hm : d.addWithCount i w with
  | none => exact ⟨d, rfl, rfl, hk⟩
  | some d' => exact ⟨d', rfl, rfl, GenLow.addWithCount_kind d d' n i w hk hm⟩

theorem lowAdd_rel (n : Nat) (d : DStore) (hk : d.kind = .low n) (i : Int) :
    LRel n (lowAdd (toLow (n : Int) d) i) (((Store.d d).addWithCount i 1).getD (.d d)) := by
  simp only [lowAdd, Store.addWithCount]
  rw [GenLow.add_rel _ n d i hk (by simp [GenLow.lowFuel])]
  cases hm : d.addWithCount i 1 with
  | none => exact ⟨d, rfl, rfl, hk⟩
  | some d' => exact ⟨d', rfl, rfl, GenLow.addWithCount_kind d d' n i 1 hk hm⟩

theorem LRel_step (I : StoreI GLow) (hI : LowAdds I) (n : Nat) (g : GLow) (st : Store) (c : Call)
    (h : LRel n g st) : LRel n (@applyCall GLow I g c) (applyCall st c) := by
  obtain ⟨d, rfl, rfl, hk⟩ := id h
  obtain ⟨i, oc⟩ := c
  cases oc with
  | some c =>
    show LRel n (I.AddWithCount _ i c) _
    rw [hI.addWithCount]
    cases c with
    | fin w => exact lowAddWithCount_fin n d hk i w
    | pinf => exact h
    | ninf => exact h
    | nan => exact h
  | none =>
    show LRel n (I.Add _ i) _
    rw [hI.add]
    exact lowAdd_rel n d hk i

/-- **parametricity**: the wrapper on the image of a model store of kind `low n` and the generic decoder on
    the model store agree — every input, layout and fuel -/
theorem low_decode_sim (I : StoreI GS) (IL : StoreI GLow) (IH : StoreI GHigh) (hI : LowAdds IL)
    (n : Nat) (d : DStore) (hk : d.kind = .low n) (fuel : Nat) (b : List (BitVec 8)) (sf : SubFlag) :
    ResRel (LRel n) (@Gen.DenseDecode.CollapsingLowestDenseStore.DecodeAndMergeWith I IL IH fuel (toLow (n : Int) d) b sf)
      (DecodeAndMergeWith fuel (Store.d d) b sf) := by
  rw [CollapsingLowestDenseStore_wrapper_eq]
  exact @decode_param_on GLow Store IL _ (LRel n) (fun _ => True)
    (fun x st c h _ => LRel_step IL hI n x st c h)
    fuel (toLow (n : Int) d) (.d d) b sf ⟨d, rfl, rfl, hk⟩ (fun _ _ _ _ _ _ => trivial)

theorem low_decode_ok (I : StoreI GS) (IL : StoreI GLow) (IH : StoreI GHigh) (hI : LowAdds IL)
    (n : Nat) (d : DStore) (hk : d.kind = .low n) (st' : Store) (sub : Nat) (b : List (BitVec 8)) (rest : Bytes)
    (fuel : Nat) (hf : b.length + 9 ≤ fuel) (hw : NoWrap sub (nb b))
    (hm : decodeStore (.d d) sub (nb b) = some (.ok (st', rest))) :
    ∃ d', st' = .d d' ∧ d'.kind = .low n ∧
      @Gen.DenseDecode.CollapsingLowestDenseStore.DecodeAndMergeWith I IL IH fuel (toLow (n : Int) d) b (subflag sub)
        = .ok (toLow (n : Int) d', bn rest, GoErr.nil) := by
  obtain ⟨x', ⟨d', rfl, rfl, hk'⟩, hx⟩ := (low_decode_sim I IL IH hI n d hk fuel b (subflag sub)).of_ok
    (DecodeAndMergeWith_ok (.d d) st' sub b rest fuel hf hw hm)
  exact ⟨d', rfl, hk', hx⟩

theorem low_decode_error (I : StoreI GS) (IL : StoreI GLow) (IH : StoreI GHigh) (hI : LowAdds IL)
    (n : Nat) (d : DStore) (hk : d.kind = .low n) (sub : Nat) (hsub : sub < 64) (b : List (BitVec 8)) (e : SkErr)
    (fuel : Nat) (hf : b.length + 9 ≤ fuel) (hm : decodeStore (.d d) sub (nb b) = some (.error e)) :
    (KnownSub sub ∧ e = .eof ∧ ∃ g' b',
      @Gen.DenseDecode.CollapsingLowestDenseStore.DecodeAndMergeWith I IL IH fuel (toLow (n : Int) d) b (subflag sub)
        = .ok (g', b', GoErr.eof)) ∨
    (¬ KnownSub sub ∧ e = .unknownBinEncoding ∧
      @Gen.DenseDecode.CollapsingLowestDenseStore.DecodeAndMergeWith I IL IH fuel (toLow (n : Int) d) b (subflag sub)
        = .ok (toLow (n : Int) d, b, GoErr.named "unknown bin encoding")) := by
  rw [CollapsingLowestDenseStore_wrapper_eq]
  exact @decode_model_error GLow IL (LRel n) (fun _ => True)
    (fun x st c h _ => LRel_step IL hI n x st c h)
    (toLow (n : Int) d) (.d d) ⟨d, rfl, rfl, hk⟩ sub hsub b e fuel hf (fun _ _ _ _ _ _ => trivial) hm

/-- an instance meeting `LowAdds` exists (the methods the decoder does not call are inert here) -/
@[reducible] def lowI : StoreI GLow where
  Add := lowAdd
  AddWithCount := lowAddWithCount
  Copy g := g
  Clear g := g
  IsEmpty g := Gen.Dense.DenseStore.IsEmpty g.DenseStore
  MaxIndex g := Gen.Dense.DenseStore.MaxIndex g.DenseStore
  MinIndex g := Gen.Dense.DenseStore.MinIndex g.DenseStore
  TotalCount g := .fin (Gen.Dense.DenseStore.TotalCount g.DenseStore)
  KeyAtRank _ _ := 0
  MergeWith g _ := g
  Reweight g _ := (g, GoErr.nil)
  Encode g b _ := (g, b)
  ForEachList _ := []
  DecodeAndMergeWith g b _ := (g, b, GoErr.nil)

theorem lowI_adds : LowAdds lowI := ⟨fun _ _ _ => rfl, fun _ _ => rfl⟩

end low

/-! ## Dhigh. `CollapsingHighestDenseStore.DecodeAndMergeWith` -/

section high
open DDS.GenStoreDecode DDS.GenEncoding DDS.Sketch DDS.Codec DDS.GenDense
open DDS.GenPagSketch (okOr okOr_ok)

theorem CollapsingHighestDenseStore_wrapper_eq (I : StoreI GS) (IL : StoreI GLow) (IH : StoreI GHigh) (fuel : Nat) (s : GHigh)
    (b : List (BitVec 8)) (sf : SubFlag) :
    @Gen.DenseDecode.CollapsingHighestDenseStore.DecodeAndMergeWith I IL IH fuel s b sf
      = @DecodeAndMergeWith GHigh IH fuel s b sf :=
  bind_ok_triple _

/-- the regenerated `AddWithCount` with a fuel computed from the receiver (`GenDense.extendFuel` at the index); a panicking call
    or a non-finite float leaves the receiver as it was -/
def highAddWithCount (g : GHigh) (i : Int) (c : F64) : GHigh :=
  match ratOfF64 c with
  | some w => okOr (Gen.Dense.CollapsingHighestDenseStore.AddWithCount (extendFuel (ofGen g.DenseStore) i i) g i w) g
  | none => g

def highAdd (g : GHigh) (i : Int) : GHigh :=
  okOr (Gen.Dense.CollapsingHighestDenseStore.Add (extendFuel (ofGen g.DenseStore) i i) g i) g

/-- what the theorems need of the `StoreI` instance handed to the wrapper -/
structure HighAdds (I : StoreI GHigh) : Prop where
  addWithCount : ∀ g i c, I.AddWithCount g i c = highAddWithCount g i c
  add : ∀ g i, I.Add g i = highAdd g i

/-- the regenerated store is the image of the model store of kind `high n` -/
def HRel (n : Nat) (g : GHigh) (st : Store) : Prop :=
  ∃ d : DStore, g = toHigh (n : Int) d ∧ st = .d d ∧ d.kind = .high n

theorem highAddWithCount_fin (n : Nat) (d : DStore) (hk : d.kind = .high n) (i : Int) (w : Rat) :
    HRel n (highAddWithCount (toHigh (n : Int) d) i (.fin w)) (((Store.d d).addWithCount i w).getD (.d d)) := by
  simp only [highAddWithCount, ratOfF64, Store.addWithCount]
  rw [GenHigh.addWithCount_rel (extendFuel (ofGen (toHigh (n : Int) d).DenseStore) i i) n d i w hk (Nat.le_refl _)]
  cases hm : d.addWithCount i w with
  | none => exact ⟨d, rfl, rfl, hk⟩
  | some d' => exact ⟨d', rfl, rfl, GenHigh.addWithCount_kind n d d' i w hk hm⟩

theorem highAdd_rel (n : Nat) (d : DStore) (hk : d.kind = .high n) (i : Int) :
    HRel n (highAdd (toHigh (n : Int) d) i) (((Store.d d).addWithCount i 1).getD (.d d)) := by
  simp only [highAdd, Store.addWithCount]
  rw [GenHigh.add_rel (extendFuel (ofGen (toHigh (n : Int) d).DenseStore) i i) n d i hk (Nat.le_refl _)]
  cases hm : d.addWithCount i 1 with
  | none => exact ⟨d, rfl, rfl, hk⟩
  | some d' => exact ⟨d', rfl, rfl, GenHigh.addWithCount_kind n d d' i 1 hk hm⟩

theorem HRel_step (I : StoreI GHigh) (hI : HighAdds I) (n : Nat) (g : GHigh) (st : Store) (c : Call)
    (h : HRel n g st) : HRel n (@applyCall GHigh I g c) (applyCall st c) := by
  obtain ⟨d, rfl, rfl, hk⟩ := id h
  obtain ⟨i, oc⟩ := c
  cases oc with
  | some c =>
    show HRel n (I.AddWithCount _ i c) _
    rw [hI.addWithCount]
    cases c with
    | fin w => exact highAddWithCount_fin n d hk i w
    | pinf => exact h
    | ninf => exact h
    | nan => exact h
  | none =>
    show HRel n (I.Add _ i) _
    rw [hI.add]
    exact highAdd_rel n d hk i

/-- **parametricity**: the wrapper on the image of a model store of kind `high n` and the generic decoder on
    the model store agree — every input, layout and fuel -/
theorem high_decode_sim (I : StoreI GS) (IL : StoreI GLow) (IH : StoreI GHigh) (hI : HighAdds IH)
    (n : Nat) (d : DStore) (hk : d.kind = .high n) (fuel : Nat) (b : List (BitVec 8)) (sf : SubFlag) :
    ResRel (HRel n) (@Gen.DenseDecode.CollapsingHighestDenseStore.DecodeAndMergeWith I IL IH fuel (toHigh (n : Int) d) b sf)
      (DecodeAndMergeWith fuel (Store.d d) b sf) := by
  rw [CollapsingHighestDenseStore_wrapper_eq]
  exact @decode_param_on GHigh Store IH _ (HRel n) (fun _ => True)
    (fun x st c h _ => HRel_step IH hI n x st c h)
    fuel (toHigh (n : Int) d) (.d d) b sf ⟨d, rfl, rfl, hk⟩ (fun _ _ _ _ _ _ => trivial)

theorem high_decode_ok (I : StoreI GS) (IL : StoreI GLow) (IH : StoreI GHigh) (hI : HighAdds IH)
    (n : Nat) (d : DStore) (hk : d.kind = .high n) (st' : Store) (sub : Nat) (b : List (BitVec 8)) (rest : Bytes)
    (fuel : Nat) (hf : b.length + 9 ≤ fuel) (hw : NoWrap sub (nb b))
    (hm : decodeStore (.d d) sub (nb b) = some (.ok (st', rest))) :
    ∃ d', st' = .d d' ∧ d'.kind = .high n ∧
      @Gen.DenseDecode.CollapsingHighestDenseStore.DecodeAndMergeWith I IL IH fuel (toHigh (n : Int) d) b (subflag sub)
        = .ok (toHigh (n : Int) d', bn rest, GoErr.nil) := by
  obtain ⟨x', ⟨d', rfl, rfl, hk'⟩, hx⟩ := (high_decode_sim I IL IH hI n d hk fuel b (subflag sub)).of_ok
    (DecodeAndMergeWith_ok (.d d) st' sub b rest fuel hf hw hm)
  exact ⟨d', rfl, hk', hx⟩

theorem high_decode_error (I : StoreI GS) (IL : StoreI GLow) (IH : StoreI GHigh) (hI : HighAdds IH)
    (n : Nat) (d : DStore) (hk : d.kind = .high n) (sub : Nat) (hsub : sub < 64) (b : List (BitVec 8)) (e : SkErr)
    (fuel : Nat) (hf : b.length + 9 ≤ fuel) (hm : decodeStore (.d d) sub (nb b) = some (.error e)) :
    (KnownSub sub ∧ e = .eof ∧ ∃ g' b',
      @Gen.DenseDecode.CollapsingHighestDenseStore.DecodeAndMergeWith I IL IH fuel (toHigh (n : Int) d) b (subflag sub)
        = .ok (g', b', GoErr.eof)) ∨
    (¬ KnownSub sub ∧ e = .unknownBinEncoding ∧
      @Gen.DenseDecode.CollapsingHighestDenseStore.DecodeAndMergeWith I IL IH fuel (toHigh (n : Int) d) b (subflag sub)
        = .ok (toHigh (n : Int) d, b, GoErr.named "unknown bin encoding")) := by
  rw [CollapsingHighestDenseStore_wrapper_eq]
  exact @decode_model_error GHigh IH (HRel n) (fun _ => True)
    (fun x st c h _ => HRel_step IH hI n x st c h)
    (toHigh (n : Int) d) (.d d) ⟨d, rfl, rfl, hk⟩ sub hsub b e fuel hf (fun _ _ _ _ _ _ => trivial) hm

/-- an instance meeting `HighAdds` exists (the methods the decoder does not call are inert here) -/
@[reducible] def highI : StoreI GHigh where
  Add := highAdd
  AddWithCount := highAddWithCount
  Copy g := g
  Clear g := g
  IsEmpty g := Gen.Dense.DenseStore.IsEmpty g.DenseStore
  MaxIndex g := Gen.Dense.DenseStore.MaxIndex g.DenseStore
  MinIndex g := Gen.Dense.DenseStore.MinIndex g.DenseStore
  TotalCount g := .fin (Gen.Dense.DenseStore.TotalCount g.DenseStore)
  KeyAtRank _ _ := 0
  MergeWith g _ := g
  Reweight g _ := (g, GoErr.nil)
  Encode g b _ := (g, b)
  ForEachList _ := []
  DecodeAndMergeWith g b _ := (g, b, GoErr.nil)

theorem highI_adds : HighAdds highI := ⟨fun _ _ _ => rfl, fun _ _ => rfl⟩

end high

/-! ## E. `SparseStore.MergeWith(store Store)` for an argument of ANY store type -/

section sparseMerge
open DDS.GenSparse DDS.Gen.Sparse DDS.Gen.SparseMerge

/-- bins with rational weights, as `ForEach` hands them over (`float64`) -/
def finBins (l : List (Int × Rat)) : List (Int × F64) := l.map (fun p => (p.1, F64.fin p.2))

/-- the receiver after `AddWithCount` of every bin, in order -/
def addAll (g : SparseStore) (l : List (Int × Rat)) : SparseStore :=
  l.foldl (fun acc p => acc.AddWithCount p.1 p.2) g

theorem merge_loop {S : Type} [StoreI S] : ∀ (l : List (Int × Rat)) (g : SparseStore),
    SparseStore.MergeWith.loop1 (S := S) (finBins l) g = .done (addAll g l) := by
  intro l
  induction l with
  | nil => intro g; rfl
  | cons p rest ih =>
    intro g
    obtain ⟨i, w⟩ := p
    simp only [finBins, List.map_cons, SparseStore.MergeWith.loop1, ratOfF64, optL_some]
    exact ih _

/-- **the fallback loop, exactly**: for every argument type `S`, every argument whose `ForEach` enumerates the
    finite bins `l`, every receiver (no invariant), every fuel (the loop is structural) -/
theorem sparse_mergeWith_fold {S : Type} [StoreI S] (fuel : Nat) (g : SparseStore) (o : S)
    (l : List (Int × Rat)) (hl : StoreI.ForEachList o = finBins l) :
    SparseStore.MergeWith fuel g o = .ok (addAll g l) := by
  unfold SparseStore.MergeWith
  rw [hl, merge_loop]
  rfl

theorem addAll_rep : ∀ (l : List (Int × Rat)) (g : SparseStore) (c : Content), Rep g c → (∀ p ∈ l, 0 ≤ p.2) →
    Rep (addAll g l) (c.merge l) := by
  intro l
  induction l with
  | nil => intro g c h _; exact h
  | cons p rest ih =>
    intro g c h hp
    rw [Content.merge_cons]
    exact ih _ _ (addWithCount_rep h p.1 p.2 (hp p (List.mem_cons_self ..)))
      (fun q hq => hp q (List.mem_cons_of_mem _ hq))

/-- **merging from any store kind** (C02 / C04): a receiver holding the canonical content `c` ends holding the
    model's `c.merge l` — the fold of `Content.add` over the argument's bins, which is what `Store.mergeWith`
    does for a sparse receiver — whatever the type of the argument; weights `≥ 0` (the sparse store's contract,
    see `GenSparse`) -/
theorem sparse_mergeWith_any {S : Type} [StoreI S] (fuel : Nat) (g : SparseStore) (c : Content) (h : Rep g c)
    (o : S) (l : List (Int × Rat)) (hl : StoreI.ForEachList o = finBins l) (hpos : ∀ p ∈ l, 0 ≤ p.2) :
    SparseStore.MergeWith fuel g o = .ok ⟨c.merge l⟩ ∧ Rep (⟨c.merge l⟩ : SparseStore) (c.merge l) := by
  have hr := addAll_rep l g c h hpos
  rw [sparse_mergeWith_fold fuel g o l hl]
  have : addAll g l = ⟨c.merge l⟩ := by
    cases hg : addAll g l with
    | mk cs => rw [hg] at hr; rw [← hr.1]
  rw [this] at hr ⊢
  exact ⟨rfl, hr⟩

/-- against the model, argument = any model store (dense, collapsing, sparse, paginated) -/
theorem sparse_mergeWith_model (fuel : Nat) (g : SparseStore) (c : Content) (h : Rep g c) (o : Store)
    (l : List (Int × Rat)) (hl : o.binsList = some l) (hpos : ∀ p ∈ l, 0 ≤ p.2) :
    ∃ g', SparseStore.MergeWith fuel g o = .ok g' ∧ Rep g' (c.merge l) ∧
      (Store.sp c).mergeWith o = some (.sp g'.counts) := by
  have hfe : (StoreI.ForEachList o : List (Int × F64)) = finBins l := by
    show (o.binsList.getD []).map _ = _
    rw [hl]; rfl
  obtain ⟨h1, h2⟩ := sparse_mergeWith_any fuel g c h o l hfe hpos
  refine ⟨_, h1, h2, ?_⟩
  cases o <;> simp [Store.mergeWith, hl]

/-- a non-finite weight in the enumeration: the regenerated code stops with `.panic` (the translation reads a
    `float64` weight as a rational; Go would store the `Inf`/`NaN`) — outside the model -/
theorem sparse_mergeWith_nonfinite {S : Type} [StoreI S] (fuel : Nat) (o : S)
    (hx : ∃ p ∈ (StoreI.ForEachList o : List (Int × F64)), ratOfF64 p.2 = none) (g : SparseStore) :
    SparseStore.MergeWith fuel g o = .panic := by
  unfold SparseStore.MergeWith
  have : ∀ (l : List (Int × F64)), (∃ p ∈ l, ratOfF64 p.2 = none) → ∀ g : SparseStore,
      SparseStore.MergeWith.loop1 (S := S) l g = .panic := by
    intro l
    induction l with
    | nil => intro ⟨p, hp, _⟩; cases hp
    | cons q rest ih =>
      intro hx g
      obtain ⟨i, w⟩ := q
      simp only [SparseStore.MergeWith.loop1]
      cases hw : ratOfF64 w with
      | none => rfl
      | some r =>
        simp only [optL_some]
        apply ih
        obtain ⟨p, hp, hn⟩ := hx
        rcases List.mem_cons.1 hp with rfl | hp
        · rw [hw] at hn; cases hn
        · exact ⟨p, hp, hn⟩
  rw [this _ hx]
  rfl

/-! ### the order of the enumeration does not matter; arguments that are regenerated stores -/

/-- merging a permutation of the bins gives the same canonical content -/
theorem merge_perm (c : Content) (l l' : List (Int × Rat)) (hc : c.WF) (hp : l'.Perm l)
    (hpos : ∀ p ∈ l, 0 ≤ p.2) : c.merge l' = c.merge l :=
  Content.ext _ _ (Content.wf_merge_of_nonneg c l' hc (fun p hp' => hpos p (hp.mem_iff.1 hp')))
    (Content.wf_merge_of_nonneg c l hc hpos)
    (fun j => by rw [Content.lookup_merge, Content.lookup_merge, perm_lookup hp j])

/-- the argument may enumerate its bins in any order (Go's `ForEach` over a map has no fixed order) -/
theorem sparse_mergeWith_perm {S : Type} [StoreI S] (fuel : Nat) (g : SparseStore) (c : Content) (h : Rep g c)
    (o : S) (l l' : List (Int × Rat)) (hl : StoreI.ForEachList o = finBins l') (hp : l'.Perm l)
    (hpos : ∀ p ∈ l, 0 ≤ p.2) :
    SparseStore.MergeWith fuel g o = .ok ⟨c.merge l⟩ := by
  rw [(sparse_mergeWith_any fuel g c h o l' hl (fun p hp' => hpos p (hp.mem_iff.1 hp'))).1,
    merge_perm c l l' h.2 hp hpos]

/-- sparse into sparse, the argument ranged over in ANY lawful order `ord` (the instance's `ForEachList` being
    the regenerated `range` over the map): the receiver ends with the merge of the two contents -/
theorem sparse_mergeWith_sparse (I : StoreI SparseStore) (ord : MapOrder) (hord : ord.Lawful)
    (hI : ∀ o : SparseStore, I.ForEachList o = finBins (mrange ord o.counts))
    (fuel : Nat) (g : SparseStore) (c : Content) (h : Rep g c) (o : SparseStore) (co : Content) (ho : Rep o co) :
    @SparseStore.MergeWith SparseStore I fuel g o = .ok ⟨c.merge co⟩ := by
  obtain ⟨rfl, hwf⟩ := ho
  exact @sparse_mergeWith_perm SparseStore I fuel g c h o o.counts (mrange ord o.counts) (hI o)
    (mrange_perm ord hord o.counts hwf.1) (fun p hp => Rat.le_of_lt (hwf.2 p hp))

/-- argument = the regenerated dense store (`GenDenseSketch.GDS`, whose `ForEachList` is the model image's bins) -/
theorem sparse_mergeWith_dense (fuel : Nat) (g : SparseStore) (c : Content) (h : Rep g c)
    (x : GenDenseSketch.GDS) (hpos : ∀ p ∈ (GenDense.ofGen x.g).binsList.getD [], 0 ≤ p.2) :
    SparseStore.MergeWith fuel g x = .ok ⟨c.merge ((GenDense.ofGen x.g).binsList.getD [])⟩ :=
  (sparse_mergeWith_any fuel g c h x _ rfl hpos).1

/-- argument = the regenerated buffered-paginated store (`GenPagSketch.GPS`) -/
theorem sparse_mergeWith_pag (grow : Int → Int → Int) (fuel : Nat) (g : SparseStore) (c : Content) (h : Rep g c)
    (x : GenPagSketch.GPS grow) (hpos : ∀ p ∈ (GenPag.ofGen x.g).binsList, 0 ≤ p.2) :
    SparseStore.MergeWith fuel g x = .ok ⟨c.merge (GenPag.ofGen x.g).binsList⟩ :=
  (sparse_mergeWith_any fuel g c h x _ rfl hpos).1

end sparseMerge

/-! ## Dsparse. `SparseStore.DecodeAndMergeWith` -/

section sparseDecode
open DDS.GenStoreDecode DDS.GenEncoding DDS.Sketch DDS.Codec DDS.GenSparse DDS.Gen.Sparse

theorem SparseStore_wrapper_eq (I : StoreI SparseStore) (fuel : Nat) (s : SparseStore)
    (b : List (BitVec 8)) (sf : SubFlag) :
    @Gen.SparseDecode.SparseStore.DecodeAndMergeWith I fuel s b sf = @DecodeAndMergeWith SparseStore I fuel s b sf :=
  bind_ok_triple _

/-- the regenerated `AddWithCount` on a `float64` weight (no loop, no fuel, no iteration order: the `ord` oracle
    of `GenSparse` is not involved); a non-finite float leaves the receiver as it was -/
def spAddWithCount (g : SparseStore) (i : Int) (c : F64) : SparseStore :=
  match ratOfF64 c with
  | some w => g.AddWithCount i w
  | none => g

/-- what the theorems need of the `StoreI` instance handed to the wrapper -/
structure SparseAdds (I : StoreI SparseStore) : Prop where
  addWithCount : ∀ g i c, I.AddWithCount g i c = spAddWithCount g i c
  add : ∀ g i, I.Add g i = g.Add i

/-- the regenerated map holds the canonical content of the model's sparse store -/
def SRel (g : SparseStore) (st : Store) : Prop := ∃ c : Content, Rep g c ∧ st = .sp c

/-- the calls the sparse store's contract covers: finite weights are `≥ 0` (a negative weight can leave a phantom
    zero entry in the Go map, `GenSparse`) -/
def NonnegCall : Call → Prop
  | (_, some (.fin w)) => 0 ≤ w
  | _ => True

theorem srel_step (I : StoreI SparseStore) (hI : SparseAdds I) (g : SparseStore) (st : Store) (c : Call)
    (h : SRel g st) (hc : NonnegCall c) : SRel (@applyCall SparseStore I g c) (applyCall st c) := by
  obtain ⟨ct, hr, rfl⟩ := id h
  obtain ⟨i, oc⟩ := c
  cases oc with
  | some c =>
    show SRel (I.AddWithCount _ i c) _
    rw [hI.addWithCount]
    cases c with
    | fin w => exact ⟨ct.add i w, addWithCount_rep hr i w hc, rfl⟩
    | pinf => exact h
    | ninf => exact h
    | nan => exact h
  | none =>
    show SRel (I.Add _ i) _
    rw [hI.add]
    exact ⟨ct.add i 1, add_rep hr i, rfl⟩

/-- **parametricity for the sparse store**: if every finite weight the bytes carry is `≥ 0`, the wrapper on a map
    holding the canonical content `c` and the generic decoder on the model store `.sp c` agree — every fuel -/
theorem sparse_decode_sim (I : StoreI SparseStore) (hI : SparseAdds I) (g : SparseStore) (c : Content)
    (h : Rep g c) (fuel : Nat) (b : List (BitVec 8)) (sf : SubFlag)
    (hP : ∀ l b' e, decodeCalls fuel b sf = .ok (l, b', e) → ∀ x ∈ l.calls, NonnegCall x) :
    ResRel SRel (@Gen.SparseDecode.SparseStore.DecodeAndMergeWith I fuel g b sf)
      (DecodeAndMergeWith fuel (Store.sp c) b sf) := by
  rw [SparseStore_wrapper_eq]
  exact @decode_param_on SparseStore Store I _ SRel NonnegCall (fun x st c h hc => srel_step I hI x st c h hc)
    fuel g (.sp c) b sf ⟨c, h, rfl⟩ hP

theorem sparse_decode_ok (I : StoreI SparseStore) (hI : SparseAdds I) (g : SparseStore) (c : Content)
    (h : Rep g c) (st' : Store) (sub : Nat) (b : List (BitVec 8)) (rest : Bytes)
    (fuel : Nat) (hf : b.length + 9 ≤ fuel) (hw : NoWrap sub (nb b))
    (hP : ∀ l b' e, decodeCalls fuel b (subflag sub) = .ok (l, b', e) → ∀ x ∈ l.calls, NonnegCall x)
    (hm : decodeStore (.sp c) sub (nb b) = some (.ok (st', rest))) :
    ∃ c', st' = .sp c' ∧ Rep (⟨c'⟩ : SparseStore) c' ∧
      @Gen.SparseDecode.SparseStore.DecodeAndMergeWith I fuel g b (subflag sub) = .ok (⟨c'⟩, bn rest, GoErr.nil) := by
  obtain ⟨x', ⟨c', hr, rfl⟩, hx⟩ := (sparse_decode_sim I hI g c h fuel b (subflag sub) hP).of_ok
    (DecodeAndMergeWith_ok (.sp c) st' sub b rest fuel hf hw hm)
  obtain ⟨cs⟩ := x'
  have : cs = c' := hr.1
  subst this
  exact ⟨cs, rfl, hr, hx⟩

/-- refusal: no condition on the weights (only the outcome is compared) -/
theorem sparse_decode_error (I : StoreI SparseStore) (g : SparseStore) (st : Store) (sub : Nat) (hsub : sub < 64)
    (b : List (BitVec 8)) (e : SkErr) (fuel : Nat) (hf : b.length + 9 ≤ fuel)
    (hm : decodeStore st sub (nb b) = some (.error e)) :
    (KnownSub sub ∧ e = .eof ∧ ∃ g' b',
      @Gen.SparseDecode.SparseStore.DecodeAndMergeWith I fuel g b (subflag sub) = .ok (g', b', GoErr.eof)) ∨
    (¬ KnownSub sub ∧ e = .unknownBinEncoding ∧
      @Gen.SparseDecode.SparseStore.DecodeAndMergeWith I fuel g b (subflag sub)
        = .ok (g, b, GoErr.named "unknown bin encoding")) := by
  rw [SparseStore_wrapper_eq]
  exact @decode_model_error SparseStore I (fun _ _ => True) (fun _ => True) (fun _ _ _ _ _ => trivial)
    g st trivial sub hsub b e fuel hf (fun _ _ _ _ _ _ => trivial) hm

/-- an instance meeting `SparseAdds` exists (the methods the decoder does not call are inert here) -/
@[reducible] def sparseI : StoreI SparseStore where
  Add g i := g.Add i
  AddWithCount := spAddWithCount
  Copy g := g
  Clear _ := NewSparseStore
  IsEmpty g := g.IsEmpty
  MaxIndex _ := (0, GoErr.nil)
  MinIndex _ := (0, GoErr.nil)
  TotalCount _ := .fin 0
  KeyAtRank _ _ := 0
  MergeWith g _ := g
  Reweight g _ := (g, GoErr.nil)
  Encode g b _ := (g, b)
  ForEachList g := finBins g.counts
  DecodeAndMergeWith g b _ := (g, b, GoErr.nil)

theorem sparseI_adds : SparseAdds sparseI := ⟨fun _ _ _ => rfl, fun _ _ => rfl⟩

end sparseDecode

/-! ## F. `mapping.NewDefaultMapping` -/

section mappingCtor
open DDS.Gen.Mapping DDS.Gen.MappingCtor DDS.GenMapping DDS.RealMap

/-- in the generic `MOps` reading (any number type): the default mapping IS the logarithmic constructor -/
theorem newDefaultMapping_eq {F : Type} [MOps F] (α : F) : NewDefaultMapping α = NewLogarithmicMapping α := rfl

/-- over the reals, `0 < α < 1`: the model's parameters `Mapping.ofAlpha .log α`, nil error -/
theorem newDefaultMapping_ofAlpha (α : ℝ) (h0 : 0 < α) (h1 : α < 1) :
    NewDefaultMapping α = (toGenLog (Mapping.ofAlpha .log α), GoErr.nil) := by
  rw [newDefaultMapping_eq]; exact newLog_ofAlpha α h0 h1

/-- refused outside `(0, 1)` (C13) -/
theorem newDefaultMapping_err (α : ℝ) (h : α ≤ 0 ∨ 1 ≤ α) : (NewDefaultMapping α).2 ≠ GoErr.nil := by
  rw [newDefaultMapping_eq]; exact newLog_ofAlpha_err α h

/-- what the constructor returns: kind logarithmic (the Go type `*LogarithmicMapping`), `gamma = (1+α)/(1-α)`,
    index offset `0`, multiplier `1 / ln gamma`, and its `RelativeAccuracy()` is `α` again -/
theorem newDefaultMapping_params (α : ℝ) (h0 : 0 < α) (h1 : α < 1) :
    (NewDefaultMapping α).1.gamma = (1 + α) / (1 - α) ∧
    (NewDefaultMapping α).1.indexOffset = 0 ∧
    (NewDefaultMapping α).1.multiplier = 1 / Real.log ((1 + α) / (1 - α)) ∧
    LogarithmicMapping.RelativeAccuracy (NewDefaultMapping α).1 = α := by
  rw [newDefaultMapping_ofAlpha α h0 h1]
  refine ⟨?_, ?_, ?_, ?_⟩
  · simp [Mapping.ofAlpha, Mapping.gammaOfAlpha, Mapping.one]
  · simp [Mapping.ofAlpha, Mapping.defaultOffset]
  · simp [Mapping.ofAlpha, Mapping.gammaOfAlpha, Mapping.multiplier, Mapping.one]
  · rw [log_relativeAccuracy _ rfl]; exact relativeAccuracy_ofAlpha .log h0 h1

/-- the documented default of the library's users (`relativeAccuracy = 0.01`): `gamma = 101/99` -/
theorem newDefaultMapping_one_percent :
    (NewDefaultMapping (1 / 100 : ℝ)).2 = GoErr.nil ∧
    (NewDefaultMapping (1 / 100 : ℝ)).1.gamma = 101 / 99 ∧
    (NewDefaultMapping (1 / 100 : ℝ)).1.indexOffset = 0 ∧
    LogarithmicMapping.RelativeAccuracy (NewDefaultMapping (1 / 100 : ℝ)).1 = 1 / 100 := by
  have h0 : (0 : ℝ) < 1 / 100 := by norm_num
  have h1 : (1 / 100 : ℝ) < 1 := by norm_num
  obtain ⟨hg, ho, _, hr⟩ := newDefaultMapping_params (1 / 100) h0 h1
  refine ⟨?_, ?_, ho, hr⟩
  · rw [newDefaultMapping_ofAlpha _ h0 h1]
  · rw [hg]; norm_num

end mappingCtor

/-! ## G. kernel-checked runs (non-vacuity of the instances and hypotheses) -/

section examples
open DDS.Gen.Sparse

/-- the successful result of a run, if any -/
def okOf {α : Type} : Res α → Option α
  | .ok a => some a
  | _ => none

/-- layout "index deltas", 2 bins, deltas `+3, +1` (zig-zag `6, 2`), one byte left over: the calls are
    `Add(3)`, `Add(4)` -/
example : decodeCalls 12 [2#8, 6#8, 2#8, 7#8] BinEncodingIndexDeltas
    = .ok (⟨[(3, none), (4, none)]⟩, [7#8], GoErr.nil) := by rfl

/-- the dense wrapper with `denseI` on `NewDenseStore()`: total 2, window `[3, 4]`, byte `7` left, nil -/
example : (okOf (@Gen.DenseDecode.DenseStore.DecodeAndMergeWith denseI lowI highI 12 Gen.Dense.NewDenseStore
      [2#8, 6#8, 2#8, 7#8] BinEncodingIndexDeltas)).map
        (fun r => (r.1.count, r.1.minIndex, r.1.maxIndex, r.2)) = some (2, 3, 4, [7#8], GoErr.nil) := by
  decide +kernel

/-- the sparse wrapper with `sparseI` on `NewSparseStore()` -/
example : okOf (@Gen.SparseDecode.SparseStore.DecodeAndMergeWith sparseI 12 NewSparseStore
      [2#8, 6#8, 2#8, 7#8] BinEncodingIndexDeltas) = some (⟨[(3, 1), (4, 1)]⟩, [7#8], GoErr.nil) := by
  decide +kernel

/-- `SparseStore.MergeWith` with a regenerated DENSE store as argument (fuel 0: the loop is structural) -/
example : okOf (Gen.SparseMerge.SparseStore.MergeWith 0 (NewSparseStore.AddWithCount 4 2)
      (GenDenseSketch.gAdd (GenDenseSketch.gAdd ⟨Gen.Dense.NewDenseStore⟩ 3) 4))
    = some ⟨[(3, 1), (4, 3)]⟩ := by
  decide +kernel

end examples

end DDS.GenDecodeWrap
