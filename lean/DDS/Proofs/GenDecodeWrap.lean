/-
  DDS.Proofs.GenDecodeWrap — work in progress (header completed at the end of the file's history).
-/
import DDS.Generated.CodeDenseDecode
import DDS.Generated.CodeSparseDecode
import DDS.Generated.CodeSparseMerge
import DDS.Generated.CodeMappingCtor
import DDS.Proofs.GenStoreDecode
import DDS.Proofs.GenDenseSketch
import DDS.Proofs.GenCollapsingLow
import DDS.Proofs.GenCollapsingHigh
import DDS.Proofs.GenSparse
import DDS.Proofs.GenMapping

set_option linter.unusedVariables false

namespace DDS.GenDecodeWrap

open DDS DDS.GoSem DDS.Gen.StoreDecode DDS.Gen.Encoding

/-! ## A. the generic decoder factors through the list of its calls on the store -/

/-- one call of the decoder on its receiver: `AddWithCount(i, c)` (`some c`) or `Add(i)` (`none`) -/
abbrev Call := Int × Option F64

/-- the recording store: the calls received so far, oldest first -/
structure Log where
  calls : List Call

/-- the recording implementation of `store.Store`: `Add` / `AddWithCount` append the call; the other methods
    (never called by the decoder) are inert -/
@[reducible] def logI : StoreI Log where
  Add l i := ⟨l.calls ++ [(i, none)]⟩
  AddWithCount l i c := ⟨l.calls ++ [(i, some c)]⟩
  Copy l := l
  Clear l := l
  IsEmpty _ := true
  MaxIndex _ := (0, GoErr.nil)
  MinIndex _ := (0, GoErr.nil)
  TotalCount _ := .fin 0
  KeyAtRank _ _ := 0
  MergeWith l _ := l
  Reweight l _ := (l, GoErr.nil)
  Encode l b _ := (l, b)
  ForEachList _ := []
  DecodeAndMergeWith l b _ := (l, b, GoErr.nil)

section factor
variable {S : Type} [StoreI S]

/-- run one recorded call on a store -/
def applyCall (s : S) : Call → S
  | (i, some c) => StoreI.AddWithCount s i c
  | (i, none) => StoreI.Add s i

/-- run the recorded calls, oldest first -/
def replay (s : S) (l : List Call) : S := l.foldl applyCall s

@[simp] theorem replay_nil (s : S) : replay s [] = s := rfl

theorem replay_snoc (s : S) (l : List Call) (c : Call) : replay s (l ++ [c]) = applyCall (replay s l) c := by
  unfold replay
  rw [List.foldl_append]; rfl

theorem replay_cons (s : S) (c : Call) (l : List Call) : replay s (c :: l) = replay (applyCall s c) l := rfl

def lmap {σ σ' ρ ρ' : Type} (f : σ → σ') (g : ρ → ρ') : Loop σ ρ → Loop σ' ρ'
  | .done s => .done (f s)
  | .ret r => .ret (g r)
  | .panic => .panic
  | .nofuel => .nofuel

def rmap {α β : Type} (f : α → β) : Res α → Res β
  | .ok a => .ok (f a)
  | .panic => .panic
  | .nofuel => .nofuel

/-- the calls the decoder makes on its receiver for the input `b` and layout `sf` (with the bytes left and the
    error): the decoder run on the recording store -/
def decodeCalls (fuel : Nat) (b : List (BitVec 8)) (sf : SubFlag) : Res (Log × List (BitVec 8) × GoErr) :=
  @DecodeAndMergeWith Log logI fuel ⟨[]⟩ b sf

theorem loop1_factor (s0 : S) (numBins : BitVec 64) : ∀ (fuel : Nat) (b : List (BitVec 8)) (index : BitVec 64)
    (l : Log) (i : BitVec 64),
    DecodeAndMergeWith.loop1 numBins fuel b index (replay s0 l.calls) i
      = lmap (fun p : List (BitVec 8) × BitVec 64 × Log × BitVec 64 => (p.1, p.2.1, replay s0 p.2.2.1.calls, p.2.2.2))
          (fun p : Log × List (BitVec 8) × GoErr => (replay s0 p.1.calls, p.2))
          (@DecodeAndMergeWith.loop1 Log logI numBins fuel b index l i) := by
  intro fuel
  induction fuel with
  | zero => intro b index l i; rfl
  | succ fuel ih =>
    intro b index l i
    simp only [DecodeAndMergeWith.loop1]
    cases hu : BitVec.ult i numBins with
    | false => simp only [Bool.false_eq_true, if_false]; rfl
    | true =>
      simp only [if_true]
      cases hV : DecodeVarint64 fuel b with
      | panic => rfl
      | nofuel => rfl
      | ok p =>
        obtain ⟨b1, d, e1⟩ := p
        simp only [Res.bindL_ok]
        by_cases he1 : (e1 != GoErr.nil) = true
        · simp only [he1, if_true]; rfl
        · simp only [he1, Bool.false_eq_true, if_false]
          cases hF : DecodeVarfloat64 fuel b1 with
          | panic => rfl
          | nofuel => rfl
          | ok q =>
            obtain ⟨b2, c, e2⟩ := q
            simp only [Res.bindL_ok]
            by_cases he2 : (e2 != GoErr.nil) = true
            · simp only [he2, if_true]; rfl
            · simp only [he2, Bool.false_eq_true, if_false]
              have := ih b2 (index + d) ⟨l.calls ++ [((index + d).toInt, some c)]⟩ (i + 1#64)
              simp only [replay_snoc, applyCall] at this
              exact this

theorem loop2_factor (s0 : S) (numBins : BitVec 64) : ∀ (fuel : Nat) (b : List (BitVec 8)) (index : BitVec 64)
    (l : Log) (i : BitVec 64),
    DecodeAndMergeWith.loop2 numBins fuel b index (replay s0 l.calls) i
      = lmap (fun p : List (BitVec 8) × BitVec 64 × Log × BitVec 64 => (p.1, p.2.1, replay s0 p.2.2.1.calls, p.2.2.2))
          (fun p : Log × List (BitVec 8) × GoErr => (replay s0 p.1.calls, p.2))
          (@DecodeAndMergeWith.loop2 Log logI numBins fuel b index l i) := by
  intro fuel
  induction fuel with
  | zero => intro b index l i; rfl
  | succ fuel ih =>
    intro b index l i
    simp only [DecodeAndMergeWith.loop2]
    cases hu : BitVec.ult i numBins with
    | false => simp only [Bool.false_eq_true, if_false]; rfl
    | true =>
      simp only [if_true]
      cases hV : DecodeVarint64 fuel b with
      | panic => rfl
      | nofuel => rfl
      | ok p =>
        obtain ⟨b1, d, e1⟩ := p
        simp only [Res.bindL_ok]
        by_cases he1 : (e1 != GoErr.nil) = true
        · simp only [he1, if_true]; rfl
        · simp only [he1, Bool.false_eq_true, if_false]
          have := ih b1 (index + d) ⟨l.calls ++ [((index + d).toInt, none)]⟩ (i + 1#64)
          simp only [replay_snoc, applyCall] at this
          exact this

theorem loop3_factor (s0 : S) (numBins indexDelta : BitVec 64) : ∀ (fuel : Nat) (b : List (BitVec 8)) (l : Log)
    (index : BitVec 64) (i : BitVec 64),
    DecodeAndMergeWith.loop3 numBins indexDelta fuel b (replay s0 l.calls) index i
      = lmap (fun p : List (BitVec 8) × Log × BitVec 64 × BitVec 64 => (p.1, replay s0 p.2.1.calls, p.2.2))
          (fun p : Log × List (BitVec 8) × GoErr => (replay s0 p.1.calls, p.2))
          (@DecodeAndMergeWith.loop3 Log logI numBins indexDelta fuel b l index i) := by
  intro fuel
  induction fuel with
  | zero => intro b l index i; rfl
  | succ fuel ih =>
    intro b l index i
    simp only [DecodeAndMergeWith.loop3]
    cases hu : BitVec.ult i numBins with
    | false => simp only [Bool.false_eq_true, if_false]; rfl
    | true =>
      simp only [if_true]
      cases hF : DecodeVarfloat64 fuel b with
      | panic => rfl
      | nofuel => rfl
      | ok q =>
        obtain ⟨b2, c, e2⟩ := q
        simp only [Res.bindL_ok]
        by_cases he2 : (e2 != GoErr.nil) = true
        · simp only [he2, if_true]; rfl
        · simp only [he2, Bool.false_eq_true, if_false]
          have := ih b2 ⟨l.calls ++ [(index.toInt, some c)]⟩ (index + indexDelta) (i + 1#64)
          simp only [replay_snoc, applyCall] at this
          exact this

theorem lelim_lmap {σ σ' ρ ρ' : Type} (f : σ → σ') (g : ρ → ρ') (L : Loop σ ρ) (k : σ → Res ρ) (k' : σ' → Res ρ')
    (hk : ∀ x, k' (f x) = rmap g (k x)) :
    Loop.elim (lmap f g L) k' = rmap g (Loop.elim L k) := by
  cases L with
  | done x => exact hk x
  | ret r => rfl
  | panic => rfl
  | nofuel => rfl

/-- **factorisation**: for every implementation `S` of `store.Store`, every receiver, input, layout and fuel,
    the generic decoder is "compute the calls from the bytes alone, then run them on the receiver" -/
theorem decode_factor (fuel : Nat) (s : S) (b : List (BitVec 8)) (sf : SubFlag) :
    DecodeAndMergeWith fuel s b sf
      = rmap (fun p : Log × List (BitVec 8) × GoErr => (replay s p.1.calls, p.2)) (decodeCalls fuel b sf) := by
  unfold decodeCalls
  simp only [DecodeAndMergeWith]
  cases h1 : (sf == BinEncodingIndexDeltasAndCounts) with
  | true =>
    simp only [if_true]
    cases hU : DecodeUvarint64 fuel b with
    | panic => rfl
    | nofuel => rfl
    | ok p =>
      obtain ⟨b1, n, e⟩ := p
      simp only [Res.bind_ok]
      by_cases he : (e != GoErr.nil) = true
      · simp only [he, if_true]; rfl
      · simp only [he, Bool.false_eq_true, if_false]
        have := loop1_factor s n fuel b1 0#64 ⟨[]⟩ 0#64
        simp only [replay_nil] at this
        rw [this]
        exact lelim_lmap _ _ _ _ _ (fun x => rfl)
  | false =>
    simp only [Bool.false_eq_true, if_false]
    cases h2 : (sf == BinEncodingIndexDeltas) with
    | true =>
      simp only [if_true]
      cases hU : DecodeUvarint64 fuel b with
      | panic => rfl
      | nofuel => rfl
      | ok p =>
        obtain ⟨b1, n, e⟩ := p
        simp only [Res.bind_ok]
        by_cases he : (e != GoErr.nil) = true
        · simp only [he, if_true]; rfl
        · simp only [he, Bool.false_eq_true, if_false]
          have := loop2_factor s n fuel b1 0#64 ⟨[]⟩ 0#64
          simp only [replay_nil] at this
          rw [this]
          exact lelim_lmap _ _ _ _ _ (fun x => rfl)
    | false =>
      simp only [Bool.false_eq_true, if_false]
      cases h3 : (sf == BinEncodingContiguousCounts) with
      | false => simp only [Bool.false_eq_true, if_false]; rfl
      | true =>
        simp only [if_true]
        cases hU : DecodeUvarint64 fuel b with
        | panic => rfl
        | nofuel => rfl
        | ok p =>
          obtain ⟨b1, n, e⟩ := p
          simp only [Res.bind_ok]
          by_cases he : (e != GoErr.nil) = true
          · simp only [he, if_true]; rfl
          · simp only [he, Bool.false_eq_true, if_false]
            cases hS : DecodeVarint64 fuel b1 with
            | panic => rfl
            | nofuel => rfl
            | ok p2 =>
              obtain ⟨b2, start, e2⟩ := p2
              simp only [Res.bind_ok]
              by_cases he2 : (e2 != GoErr.nil) = true
              · simp only [he2, if_true]; rfl
              · simp only [he2, Bool.false_eq_true, if_false]
                cases hT : DecodeVarint64 fuel b2 with
                | panic => rfl
                | nofuel => rfl
                | ok p3 =>
                  obtain ⟨b3, stride, e3⟩ := p3
                  simp only [Res.bind_ok]
                  by_cases he3 : (e3 != GoErr.nil) = true
                  · simp only [he3, if_true]; rfl
                  · simp only [he3, Bool.false_eq_true, if_false]
                    have := loop3_factor s n stride fuel b3 ⟨[]⟩ start 0#64
                    simp only [replay_nil] at this
                    rw [this]
                    exact lelim_lmap _ _ _ _ _ (fun x => rfl)

end factor

end DDS.GenDecodeWrap
