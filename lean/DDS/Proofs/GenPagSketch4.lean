/-
  DDS.Proofs.GenPagSketch4 — continuation of `GenPagSketch{,2,3}.lean` (same namespace): the CHAIN
  encode (regenerated `DDSketch.Encode` over the regenerated buffered-paginated stores `GPS grow`) then decode
  (regenerated `DecodeDDSketch` with the provider `NewBufferedPaginatedStore`) for the default sketch, `M := MapEnv`.

  1. `GImg x` (the record is the image `toGen s cap` of a model store), `imageOf a` (the model-store sketch holding the
     images `.pg (ofGen x.g)` of the two regenerated stores), `skSim_image`.
     `Encode_same_bytes`: the regenerated `Encode` over `a` and over a `SkSim`-partner holding the IMAGES of the stores
     of `a` return THE SAME BYTES (the strengthening of `Encode_param`: there the partner was arbitrary and only
     the denotations agreed).
     `Encode_blocks`: under `PagOK` of the two images, `MapOK`, a finite zero count: `Encode` succeeds and appends
     `bn (encBlocks bl)` where `bl` are the blocks of the model's `Sketch.encode` of the image sketch
     (`RoundTrip.EncodesTo`: zero-count block, mapping block, positive bins, negative bins).
  2. `decode_encode_of_goodRun`: the chain, with `GoodRun DecodeOK` for the appended bytes as a hypothesis.
     The decoded sketch `r` has the identity of the original mapping object and, with the original mapping OBJECT
     put back (`{ r with IndexMapping := a.IndexMapping }`; see below), is `SkSim`-related to the image of the
     original sketch: every observer answers alike (`observers_of_common_target`).
     MAPPING OBJECT: the instance `MapI MapEnv` decodes a mapping block into an object that carries the decoded
     IDENTITY only (`GenSketch.mapDecode`: the oracle functions of the result are defaults) — the oracle of a
     mapping is not part of the wire format.  Hence the statement compares after restoring the object; the
     identity (`.id`) of the decoded object is proved equal to the original one.

  3. TOWARDS `GoodRun` for the encoded bytes (NOT finished): `gps_decode_encPayload` (one encoded store block on a
     `Sim` pair under `DecodeOK`: nil error, remaining bytes exactly the tail, receivers related again),
     `goodRun_bins_pos` / `goodRun_bins_neg` (`GoodRun` at an encoded store block = `DecodeOK` of the block and
     `GoodRun` after it; the flag byte is decoded symbolically), `goodRun_nil`.
     Still missing: the same step for the zero-count block and the mapping block, the induction along
     `sketchBlocks`, and `DecodeOK` for the blocks of `pagBlocks` (deltas: `capOK_new`, `len(buffer) < 2^63`,
     buffer entries int32; contiguous: `2·32 ≤ 3·len + 51`, int32 indexes, decoded counts finite `≥ 0`).

  Fuel: encoder `9 ≤ fuel`; decoder `len(out) + 9 ≤ fuel'`.
  Core Lean only.
-/
import DDS.Proofs.GenPagSketch3
import DDS.Proofs.GenSketch4
import DDS.Proofs.GenSketch7
import DDS.Proofs.Lift3

namespace DDS.GenPagSketch

open DDS DDS.GoSem DDS.PStore DDS.GenPag DDS.Gen.Paginated DDS.Gen.Encoding DDS.Codec DDS.GenEncoding
open DDS.Gen.Sketch DDS.RoundTrip

variable {grow : Int → Int → Int}

/-! ### 1. the image of a regenerated sketch; the bytes of `Encode` -/

/-- the record is the image of some model store (true of every value the regenerated functions build from
    `NewBufferedPaginatedStore`) -/
def GImg (x : GPS grow) : Prop := ∃ (s : PStore) (cap : Int), x.g = toGen s cap

theorem gImg_new : GImg (⟨NewBufferedPaginatedStore⟩ : GPS grow) := ⟨PStore.new, 4, new_spec⟩

theorem sim_image {x : GPS grow} (h : GImg x) (hi : Inv (ofGen x.g)) : Sim x (.pg (ofGen x.g)) := by
  obtain ⟨s, cap, hx⟩ := h
  rw [hx, ofGen_toGen] at hi
  exact ⟨s, ofGen x.g, cap, hx, rfl, hi, by rw [hx, ofGen_toGen]; exact hi, by rw [hx, ofGen_toGen]⟩

section image

variable {M : Type} [MapI M] [Inhabited M]

/-- the model-store sketch holding the images of the two regenerated stores -/
def imageOf (a : DDSketch M (GPS grow)) : DDSketch M Store :=
  { IndexMapping := a.IndexMapping, positiveValueStore := .pg (ofGen a.positiveValueStore.g),
    negativeValueStore := .pg (ofGen a.negativeValueStore.g), zeroCount := a.zeroCount }

omit [MapI M] [Inhabited M] in
theorem skSim_image {a : DDSketch M (GPS grow)} (hp : GImg a.positiveValueStore) (hn : GImg a.negativeValueStore)
    (ip : Inv (ofGen a.positiveValueStore.g)) (inn : Inv (ofGen a.negativeValueStore.g)) :
    SkSim a (imageOf a) :=
  ⟨rfl, sim_image hp ip, sim_image hn inn, rfl⟩

/-- **`DDSketch.Encode` over the regenerated stores and over their images: the same bytes** -/
theorem Encode_same_bytes {a : DDSketch M (GPS grow)} {b : DDSketch M Store} (h : SkSim a b)
    (ep : b.positiveValueStore = .pg (ofGen a.positiveValueStore.g))
    (en : b.negativeValueStore = .pg (ofGen a.negativeValueStore.g))
    (hlp : (ofGen a.positiveValueStore.g).buffer.length < 2 ^ 64)
    (hln : (ofGen a.negativeValueStore.g).buffer.length < 2 ^ 64)
    (fuel : Nat) (buf : List (BitVec 8)) (om : Bool) :
    (∃ (a' : DDSketch M (GPS grow)) (b' : DDSketch M Store) (out : List (BitVec 8)),
      DDSketch.Encode fuel a buf om = .ok (a', out) ∧ DDSketch.Encode fuel b buf om = .ok (b', out) ∧
      SkSim a' b') ∨
    (DDSketch.Encode fuel a buf om = .panic ∧ DDSketch.Encode fuel b buf om = .panic) ∨
    (DDSketch.Encode fuel a buf om = .nofuel ∧ DDSketch.Encode fuel b buf om = .nofuel) := by
  cases a with
  | mk ma pa na za =>
  cases b with
  | mk mb pb nb' zb =>
  obtain ⟨hm, hpos, hneg, hz⟩ := h
  simp only at hm hz hpos hneg ep en hlp hln
  subst hm hz ep en
  unfold DDSketch.Encode
  dsimp only
  generalize (if F64.ne za (F64.fin 0) = true then
      (Gen.Encoding.EncodeVarfloat64 fuel (Gen.Encoding.EncodeFlag buf Gen.Encoding.FlagZeroCountVarFloat) za).bind
        fun b => Res.ok b
    else Res.ok buf) = pre
  cases pre with
  | panic => exact Or.inr (Or.inl ⟨rfl, rfl⟩)
  | nofuel => exact Or.inr (Or.inr ⟨rfl, rfl⟩)
  | ok b0 =>
    left
    simp only [Res.bind_ok]
    generalize (if (!om) = true then MapI.Encode ma b0 else b0) = b1
    obtain ⟨s1, s1', cap, bl, bl', e1, e1', hG, hM, hS⟩ :=
      sim_encode hpos .pos Gen.Encoding.FlagTypePositiveStore GenEncoding.FlagTypePositiveStore_side
        flagSide_pos b1 b1 hlp
    rw [e1] at e1'
    have hbl : bl = bl' := (Prod.mk.inj (Option.some.inj e1')).2
    subst hbl
    obtain ⟨s2, s2', cap2, nl, nl', f1, f1', hG2, hM2, hS2⟩ :=
      sim_encode hneg .neg Gen.Encoding.FlagTypeNegativeStore GenEncoding.FlagTypeNegativeStore_side
        flagSide_neg (b1 ++ GenEncoding.bn (Wire.encBlocks bl)) (b1 ++ GenEncoding.bn (Wire.encBlocks bl)) hln
    rw [f1] at f1'
    have hnl : nl = nl' := (Prod.mk.inj (Option.some.inj f1')).2
    subst hnl
    rw [hG, hM] at hS
    rw [hG2, hM2] at hS2
    refine ⟨⟨ma, ⟨toGen s1 cap⟩, ⟨toGen s2 cap2⟩, za⟩, ⟨ma, .pg s1', .pg s2', za⟩,
      b1 ++ bn (Wire.encBlocks bl) ++ bn (Wire.encBlocks nl), ?_, ?_, ⟨rfl, hS, hS2, rfl⟩⟩
    · simp only [hG, hG2]
    · simp only [hM, hM2]

end image

/-! ### 2. `M := MapEnv`: the bytes are those of the model's blocks -/

theorem encBlocks_bytes' (bl : List Block) (h : ∀ b ∈ bl, b.WF) : ∀ x ∈ Wire.encBlocks bl, x < 256 := by
  intro x hx
  unfold Wire.encBlocks at hx
  rw [List.mem_flatMap] at hx
  obtain ⟨b, hb, hx⟩ := hx
  exact Wire.encBlock_bytes b (h b hb) x hx

theorem nb_bn_encBlocks' (bl : List Block) (h : ∀ b ∈ bl, b.WF) : nb (bn (Wire.encBlocks bl)) = Wire.encBlocks bl :=
  nb_bn _ (encBlocks_bytes' bl h)

/-- **`Encode` of a regenerated default sketch appends the bytes of the model's blocks for the image sketch** -/
theorem Encode_blocks (a : DDSketch MapEnv (GPS grow))
    (hp : GImg a.positiveValueStore) (hn : GImg a.negativeValueStore)
    (hpp : PagOK (ofGen a.positiveValueStore.g)) (hpn : PagOK (ofGen a.negativeValueStore.g))
    (z : Rat) (hz : a.zeroCount = .fin z) (om : Bool) (fuel : Nat) (hf : 9 ≤ fuel) (buf : List (BitVec 8)) :
    ∃ (a' : DDSketch MapEnv (GPS grow)) (s' : Sketch) (bl : List Block),
      DDSketch.Encode fuel a buf om = .ok (a', buf ++ bn (Wire.encBlocks bl)) ∧
      SkSim a' (GenSketch.toGen a.IndexMapping s') ∧
      EncodesTo (GenSketch.ofGen (imageOf a)) (content (ofGen a.positiveValueStore.g))
        (content (ofGen a.negativeValueStore.g)) a.IndexMapping.id z om s' bl := by
  have hs := skSim_image hp hn hpp.inv hpn.inv
  have hr : (GenSketch.ofGen (imageOf a)).Refines (content (ofGen a.positiveValueStore.g))
      (content (ofGen a.negativeValueStore.g)) := ⟨refines_pag _ hpp.inv, refines_pag _ hpn.inv⟩
  obtain ⟨s', bl, hE⟩ := encode_ok (GenSketch.ofGen (imageOf a)) _ _ hr hpp hpn a.IndexMapping.id rfl z hz om
  have hE' := hE
  obtain ⟨pb, nb', _, henc, _⟩ := hE'
  have hM := GenSketch.Encode_rel fuel hf a.IndexMapping (GenSketch.ofGen (imageOf a)) buf om (fun _ => rfl) s' bl henc
  rw [show GenSketch.toGen a.IndexMapping (GenSketch.ofGen (imageOf a)) = imageOf a from rfl] at hM
  rcases Encode_same_bytes hs rfl rfl hpp.bufLen hpn.bufLen fuel buf om with
    ⟨a', b', out, h1, h2, h3⟩ | ⟨_, h2⟩ | ⟨_, h2⟩
  · rw [hM] at h2
    obtain ⟨rfl, rfl⟩ := Prod.mk.inj (Res.ok.inj h2)
    exact ⟨a', s', bl, h1, h3, hE⟩
  · rw [hM] at h2; cases h2
  · rw [hM] at h2; cases h2

/-! ### 3. the chain, `GoodRun` as a hypothesis -/

/-- the six observers of the regenerated sketch agree on two sketches -/
def SameAnswers (a b : DDSketch MapEnv (GPS grow)) : Prop :=
  DDSketch.GetCount a = DDSketch.GetCount b ∧ DDSketch.IsEmpty a = DDSketch.IsEmpty b ∧
  DDSketch.GetZeroCount a = DDSketch.GetZeroCount b ∧
  (∀ q, DDSketch.GetValueAtQuantile a q = DDSketch.GetValueAtQuantile b q) ∧
  DDSketch.GetMinValue a = DDSketch.GetMinValue b ∧ DDSketch.GetMaxValue a = DDSketch.GetMaxValue b

/-- **decode after encode, given the side conditions of the decoder run** (`GoodRun DecodeOK`) on the encoded
    bytes `bn (encBlocks bl)` -/
theorem decode_of_encodesTo (a : DDSketch MapEnv (GPS grow))
    (hp : GImg a.positiveValueStore) (hn : GImg a.negativeValueStore)
    (ip : Inv (ofGen a.positiveValueStore.g)) (inn : Inv (ofGen a.negativeValueStore.g))
    (z : Rat) (hz : a.zeroCount = .fin z) (hzw : WOK z) (om : Bool)
    (hmk : MapOK a.IndexMapping.id) (hmf : om = false → MapFinite a.IndexMapping.id)
    (s' : Sketch) (bl : List Block)
    (hE : EncodesTo (GenSketch.ofGen (imageOf a)) (content (ofGen a.positiveValueStore.g))
      (content (ofGen a.negativeValueStore.g)) a.IndexMapping.id z om s' bl)
    (fuel : Nat) (hf : (bn (Wire.encBlocks bl)).length + 9 ≤ fuel)
    (hg : GoodRun DecodeOK (DDSketch.DecodeAndMergeWith.lit1 (M := MapEnv) (S := Store) fuel) fuel
      (bn (Wire.encBlocks bl))
      (NewDDSketch a.IndexMapping (⟨NewBufferedPaginatedStore⟩ : GPS grow) ⟨NewBufferedPaginatedStore⟩)) :
    ∃ r : DDSketch MapEnv (GPS grow),
      Gen.SketchIter.DecodeDDSketch fuel (bn (Wire.encBlocks bl))
        (fun _ => .ok (⟨NewBufferedPaginatedStore⟩ : GPS grow)) a.IndexMapping = .ok (r, GoErr.nil) ∧
      r.IndexMapping.id = a.IndexMapping.id ∧
      SkSim { r with IndexMapping := a.IndexMapping } (imageOf a) ∧
      SameAnswers { r with IndexMapping := a.IndexMapping } a := by
  have h32p := Lift.pag_keys32 _ ip
  have h32n := Lift.pag_keys32 _ inn
  have hm0 : if om then some a.IndexMapping.id = some a.IndexMapping.id
      else Accepts (some a.IndexMapping.id) a.IndexMapping.id := by
    cases om with
    | true => simp
    | false => simpa using accepts_self _ (hmf rfl)
  obtain ⟨t, t1, t2, t3, t4, t5, t6, t7, t8, t9⟩ :=
    Lift.encodesTo_decode_new .pag trivial hE h32p h32n hmk hzw (some a.IndexMapping.id) hm0
  -- the regenerated decoder over the model stores
  have hR := GenSketch7.DecodeDDSketch_relE fuel (bn (Wire.encBlocks bl)) .pag a.IndexMapping hf
  rw [nb_bn_encBlocks' bl hE.wf, t1] at hR
  obtain ⟨g', hg1, hg2⟩ := hR
  -- the regenerated decoder over the regenerated stores
  have hP := DecodeDDSketch_param DecodeOK (fun _ _ b sub hs hok => sim_decode hs b sub hok) fuel
    (bn (Wire.encBlocks bl)) a.IndexMapping hg
  rw [show (fun _ => Res.ok (Store.new .pag) : Unit → Res Store) = GenSketch7.provider .pag from rfl, hg1] at hP
  revert hP
  cases hD : Gen.SketchIter.DecodeDDSketch fuel (bn (Wire.encBlocks bl))
      (fun _ => .ok (⟨NewBufferedPaginatedStore⟩ : GPS grow)) a.IndexMapping with
  | panic => exact fun h => h.elim
  | nofuel => exact fun h => h.elim
  | ok p =>
    obtain ⟨r, e⟩ := p
    rintro ⟨h1, h2⟩
    simp only at h1 h2
    subst h1
    have hs := h2 trivial
    have hid : g'.IndexMapping.id = a.IndexMapping.id := by
      have : (GenSketch.ofGen g').mapping = some a.IndexMapping.id := by rw [hg2]; exact t2
      exact Option.some.inj this
    have hpos : g'.positiveValueStore = t.pos := by rw [← hg2]; rfl
    have hneg : g'.negativeValueStore = t.neg := by rw [← hg2]; rfl
    have hzero : g'.zeroCount = t.zero := by rw [← hg2]; rfl
    have hs2 : SkSim { r with IndexMapping := a.IndexMapping } { g' with IndexMapping := a.IndexMapping } :=
      ⟨rfl, hs.pos, hs.neg, hs.zero⟩
    have hs3 : SkSim { r with IndexMapping := a.IndexMapping } (imageOf a) := by
      refine skSim_retarget hs2 rfl ?_ ?_ ?_ ⟨_, rfl, ip⟩ ⟨_, rfl, inn⟩
      · show g'.zeroCount = a.zeroCount
        rw [hzero, t3, hz]
      · intro p p' e1 e2
        have e1' : t.pos = .pg p := by rw [← hpos]; exact e1
        have e2' : ofGen a.positiveValueStore.g = p' := by
          have : Store.pg (ofGen a.positiveValueStore.g) = Store.pg p' := e2
          exact Store.pg.inj this
        have hc := t8
        rw [e1'] at hc
        rw [← e2']
        exact hc
      · intro p p' e1 e2
        have e1' : t.neg = .pg p := by rw [← hneg]; exact e1
        have e2' : ofGen a.negativeValueStore.g = p' := by
          have : Store.pg (ofGen a.negativeValueStore.g) = Store.pg p' := e2
          exact Store.pg.inj this
        have hc := t9
        rw [e1'] at hc
        rw [← e2']
        exact hc
    refine ⟨r, rfl, ?_, hs3, observers_of_common_target hs3 (skSim_image hp hn ip inn)⟩
    rw [← hid]
    exact congrArg MapEnv.id hs.map

/-! ### 4. one encoded store block on a `Sim` pair (towards `GoodRun` for encoded bytes) -/

/-- **one encoded store block**: when the side conditions `DecodeOK` hold for the bytes `encPayload p ++ R` and the
    model adds the bins of `p` to the partner store, the regenerated store decoder returns nil, consumes exactly the
    payload (the remaining bytes are `R`) and the receivers are related again -/
theorem gps_decode_encPayload {x : GPS grow} {st : Store} (h : Sim x st) (p : BinsPayload) (hp : p.WF)
    (R : Bytes) (hR : ∀ y ∈ R, y < 256) (sub : SubFlag)
    (hsub : Wire.flagSub sub.byte.toNat = Wire.payloadSub p)
    (hok : DecodeOK x (bn (Wire.encPayload p ++ R)) sub)
    (st' : Store) (hadd : Sketch.addBins st (Wire.payloadBins p) = some st') :
    ∃ t : GPS grow, (StoreI.DecodeAndMergeWith x (bn (Wire.encPayload p ++ R)) sub :
        GPS grow × List (BitVec 8) × GoErr) = (t, bn R, GoErr.nil) ∧ Sim t st' := by
  have hbytes : nb (bn (Wire.encPayload p ++ R)) = Wire.encPayload p ++ R :=
    nb_bn _ (fun y hy => (List.mem_append.1 hy).elim (Wire.encPayload_bytes p y) (hR y))
  have hM : (StoreI.DecodeAndMergeWith st (bn (Wire.encPayload p ++ R)) sub : Store × List (BitVec 8) × GoErr) =
      (st', bn R, GoErr.nil) := by
    rw [GenSketch.store_decode]
    unfold GenSketch.storeDecode
    show (match Sketch.decodeStore st (Wire.flagSub sub.byte.toNat) (nb (bn (Wire.encPayload p ++ R))) with
      | some (.ok (st', rest)) => (st', bn rest, GoErr.nil)
      | some (.error e) => (st, bn (Wire.encPayload p ++ R), GenSketch.decErr e)
      | none => (st, bn (Wire.encPayload p ++ R), GoErr.nil)) = _
    rw [hsub, hbytes, Sketch.decodeStore_encPayload st p hp R, hadd]
  obtain ⟨e1, e2⟩ := sim_decode h _ sub hok
  rw [hM] at e1 e2
  obtain ⟨e3, e4⟩ := e2 rfl
  generalize (StoreI.DecodeAndMergeWith x (bn (Wire.encPayload p ++ R)) sub :
    GPS grow × List (BitVec 8) × GoErr) = ra at e1 e3 e4
  obtain ⟨t, b2, e⟩ := ra
  simp only at e1 e3 e4
  subst e1 e3
  exact ⟨t, rfl, e4⟩

section goodRunStep

variable {M : Type} [MapI M] [Inhabited M]

theorem mkFlag_toNat (t sub : Nat) (ht : t < 4) (hs : sub < 64) :
    (BitVec.ofNat 8 (Wire.mkFlag t sub)).toNat = Wire.mkFlag t sub := by
  rw [BitVec.toNat_ofNat]
  apply Nat.mod_eq_of_lt
  unfold Wire.mkFlag
  rw [show Consts.numBitsForType = 2 from rfl]
  omega

omit [Inhabited M] in
/-- **`GoodRun` at an encoded POSITIVE store block**: the side conditions of the block, and `GoodRun` after it -/
theorem goodRun_bins_pos (fb : List (BitVec 8) → Flag → Res (List (BitVec 8) × GoErr)) (fuel : Nat)
    (p : BinsPayload) (T : Bytes) (a : DDSketch M (GPS grow)) (hs : Wire.payloadSub p < 64)
    (hok : DecodeOK a.positiveValueStore (bn (Wire.encPayload p ++ T))
      (GenStoreDecode.subflag (Wire.payloadSub p)))
    (hnext : ∀ t b2, (StoreI.DecodeAndMergeWith a.positiveValueStore (bn (Wire.encPayload p ++ T))
        (GenStoreDecode.subflag (Wire.payloadSub p)) : GPS grow × List (BitVec 8) × GoErr) = (t, b2, GoErr.nil) →
      GoodRun DecodeOK fb fuel b2 { a with positiveValueStore := t }) :
    GoodRun DecodeOK fb (fuel + 1) (bn (Wire.encBlock (.bins .pos p) ++ T)) a := by
  unfold GoodRun
  intro b1 flag hF
  rw [Sketch.encBlock_bins_pos, List.cons_append] at hF
  change DecodeFlag fuel (BitVec.ofNat 8 _ :: bn (Wire.encPayload p ++ T)) = _ at hF
  rw [GenSketch.DecodeFlag_cons] at hF
  obtain ⟨rfl, rfl⟩ : bn (Wire.encPayload p ++ T) = b1 ∧
      (⟨BitVec.ofNat 8 (Wire.mkFlag Consts.flagTypePositiveStore (Wire.payloadSub p))⟩ : Flag) = flag := by
    have := Res.ok.inj hF
    exact ⟨(Prod.mk.inj this).1, (Prod.mk.inj (Prod.mk.inj this).2).1⟩
  have hn := mkFlag_toNat Consts.flagTypePositiveStore (Wire.payloadSub p) (by decide) hs
  obtain ⟨f1, f2⟩ := Wire.flag_mk Consts.flagTypePositiveStore (Wire.payloadSub p) (by decide)
  have hT : (Flag.Type (⟨BitVec.ofNat 8 (Wire.mkFlag Consts.flagTypePositiveStore (Wire.payloadSub p))⟩ : Flag)
      == FlagTypePositiveStore) = true := by
    rw [GenSketch.type_beq, FlagTypePositiveStore_byte, decide_eq_true_eq]
    show Wire.flagType (BitVec.ofNat 8 _).toNat = _
    rw [hn, f1]
  have hS : Flag.SubFlag (⟨BitVec.ofNat 8 (Wire.mkFlag Consts.flagTypePositiveStore (Wire.payloadSub p))⟩ : Flag)
      = GenStoreDecode.subflag (Wire.payloadSub p) := by
    rw [GenStoreDecode.Flag_SubFlag_subflag]
    show GenStoreDecode.subflag (Wire.flagSub (BitVec.ofNat 8 _).toNat) = _
    rw [hn, f2]
  rw [if_pos hT, hS]
  exact ⟨hok, hnext⟩

omit [Inhabited M] in
/-- **`GoodRun` at an encoded NEGATIVE store block** -/
theorem goodRun_bins_neg (fb : List (BitVec 8) → Flag → Res (List (BitVec 8) × GoErr)) (fuel : Nat)
    (p : BinsPayload) (T : Bytes) (a : DDSketch M (GPS grow)) (hs : Wire.payloadSub p < 64)
    (hok : DecodeOK a.negativeValueStore (bn (Wire.encPayload p ++ T))
      (GenStoreDecode.subflag (Wire.payloadSub p)))
    (hnext : ∀ t b2, (StoreI.DecodeAndMergeWith a.negativeValueStore (bn (Wire.encPayload p ++ T))
        (GenStoreDecode.subflag (Wire.payloadSub p)) : GPS grow × List (BitVec 8) × GoErr) = (t, b2, GoErr.nil) →
      GoodRun DecodeOK fb fuel b2 { a with negativeValueStore := t }) :
    GoodRun DecodeOK fb (fuel + 1) (bn (Wire.encBlock (.bins .neg p) ++ T)) a := by
  unfold GoodRun
  intro b1 flag hF
  rw [Sketch.encBlock_bins_neg, List.cons_append] at hF
  change DecodeFlag fuel (BitVec.ofNat 8 _ :: bn (Wire.encPayload p ++ T)) = _ at hF
  rw [GenSketch.DecodeFlag_cons] at hF
  obtain ⟨rfl, rfl⟩ : bn (Wire.encPayload p ++ T) = b1 ∧
      (⟨BitVec.ofNat 8 (Wire.mkFlag Consts.flagTypeNegativeStore (Wire.payloadSub p))⟩ : Flag) = flag := by
    have := Res.ok.inj hF
    exact ⟨(Prod.mk.inj this).1, (Prod.mk.inj (Prod.mk.inj this).2).1⟩
  have hn := mkFlag_toNat Consts.flagTypeNegativeStore (Wire.payloadSub p) (by decide) hs
  obtain ⟨f1, f2⟩ := Wire.flag_mk Consts.flagTypeNegativeStore (Wire.payloadSub p) (by decide)
  have hT0 : (Flag.Type (⟨BitVec.ofNat 8 (Wire.mkFlag Consts.flagTypeNegativeStore (Wire.payloadSub p))⟩ : Flag)
      == FlagTypePositiveStore) = false := by
    rw [GenSketch.type_beq, FlagTypePositiveStore_byte, decide_eq_false_iff_not]
    show ¬ Wire.flagType (BitVec.ofNat 8 _).toNat = _
    rw [hn, f1]; decide
  have hT : (Flag.Type (⟨BitVec.ofNat 8 (Wire.mkFlag Consts.flagTypeNegativeStore (Wire.payloadSub p))⟩ : Flag)
      == FlagTypeNegativeStore) = true := by
    rw [GenSketch.type_beq, FlagTypeNegativeStore_byte, decide_eq_true_eq]
    show Wire.flagType (BitVec.ofNat 8 _).toNat = _
    rw [hn, f1]
  have hS : Flag.SubFlag (⟨BitVec.ofNat 8 (Wire.mkFlag Consts.flagTypeNegativeStore (Wire.payloadSub p))⟩ : Flag)
      = GenStoreDecode.subflag (Wire.payloadSub p) := by
    rw [GenStoreDecode.Flag_SubFlag_subflag]
    show GenStoreDecode.subflag (Wire.flagSub (BitVec.ofNat 8 _).toNat) = _
    rw [hn, f2]
  rw [hT0, if_neg (by decide), if_pos hT, hS]
  exact ⟨hok, hnext⟩

omit [Inhabited M] in
/-- `GoodRun` at the end of the input: nothing is asked -/
theorem goodRun_nil (fb : List (BitVec 8) → Flag → Res (List (BitVec 8) × GoErr)) (fuel : Nat)
    (a : DDSketch M (GPS grow)) : GoodRun DecodeOK fb fuel [] a := by
  cases fuel with
  | zero => exact trivial
  | succ fuel =>
    unfold GoodRun
    intro b1 flag hF
    rw [DecodeFlag_eq] at hF
    exact absurd (Prod.mk.inj (Prod.mk.inj (Res.ok.inj hF)).2).2 (by decide)

end goodRunStep

end DDS.GenPagSketch
