/-
  DDS.Proofs.Bins — machine-checked lemmas about the SPEC stratum `DDS.Content`
  (core Lean only: `grind` supplies the `Rat` arithmetic).
-/
import DDS.Model.Bins

namespace DDS
namespace Content

/-! ## unfolding lemmas -/

@[simp] theorem lookup_nil (j : Int) : lookup [] j = 0 := rfl

@[simp] theorem lookup_cons (p : Int × Rat) (rest : Content) (j : Int) :
    lookup (p :: rest) j = (if p.1 = j then p.2 else 0) + lookup rest j := by
  obtain ⟨k, w⟩ := p
  simp only [lookup]
  split <;> grind

@[simp] theorem total_nil : total [] = 0 := rfl

@[simp] theorem total_cons (p : Int × Rat) (rest : Content) :
    total (p :: rest) = p.2 + total rest := by
  obtain ⟨k, w⟩ := p; rfl

theorem add_nil (i : Int) (w : Rat) : add [] i w = if w = 0 then [] else [(i, w)] := rfl

theorem add_cons (p : Int × Rat) (rest : Content) (i : Int) (w : Rat) :
    add (p :: rest) i w =
      if w = 0 then p :: rest
      else if i < p.1 then (i, w) :: p :: rest
      else if i = p.1 then (if p.2 + w = 0 then rest else (p.1, p.2 + w) :: rest)
      else p :: add rest i w := by
  obtain ⟨k, c⟩ := p; rfl

/-! ## Sorted -/

@[simp] theorem sorted_nil : Sorted [] := trivial

@[simp] theorem sorted_singleton (p : Int × Rat) : Sorted [p] := trivial

theorem sorted_cons_cons (p q : Int × Rat) (rest : Content) :
    Sorted (p :: q :: rest) ↔ p.1 < q.1 ∧ Sorted (q :: rest) := by
  obtain ⟨k₁, w₁⟩ := p; obtain ⟨k₂, w₂⟩ := q; rfl

/-- the workable form of `Sorted`: the head key is below every later key -/
theorem sorted_cons (p : Int × Rat) (rest : Content) :
    Sorted (p :: rest) ↔ (∀ q ∈ rest, p.1 < q.1) ∧ Sorted rest := by
  induction rest generalizing p with
  | nil => simp
  | cons q r ih =>
    rw [sorted_cons_cons, ih q]
    constructor
    · rintro ⟨h1, h2, h3⟩
      refine ⟨?_, h2, h3⟩
      intro x hx
      rcases List.mem_cons.1 hx with rfl | hx
      · exact h1
      · exact Int.lt_trans h1 (h2 x hx)
    · rintro ⟨h1, h2, h3⟩
      exact ⟨h1 q (List.mem_cons_self ..), h2, h3⟩

theorem Sorted.tail {p : Int × Rat} {rest : Content} (h : Sorted (p :: rest)) : Sorted rest :=
  ((sorted_cons p rest).1 h).2

theorem Sorted.head_lt {p : Int × Rat} {rest : Content} (h : Sorted (p :: rest)) :
    ∀ q ∈ rest, p.1 < q.1 := ((sorted_cons p rest).1 h).1

theorem WF.tail {p : Int × Rat} {rest : Content} (h : WF (p :: rest)) : WF rest :=
  ⟨h.1.tail, fun q hq => h.2 q (List.mem_cons_of_mem _ hq)⟩

@[simp] theorem wf_nil : WF [] := ⟨trivial, by simp⟩

theorem wf_cons (p : Int × Rat) (rest : Content) :
    WF (p :: rest) ↔ 0 < p.2 ∧ (∀ q ∈ rest, p.1 < q.1) ∧ WF rest := by
  simp only [WF, sorted_cons, List.mem_cons, forall_eq_or_imp]
  constructor
  · rintro ⟨⟨h1, h2⟩, h3, h4⟩; exact ⟨h3, h1, h2, h4⟩
  · rintro ⟨h3, h1, h2, h4⟩; exact ⟨⟨h1, h2⟩, h3, h4⟩

/-! ## A. add / lookup / total -/

theorem lookup_add (m : Content) (i : Int) (w : Rat) (j : Int) :
    (m.add i w).lookup j = m.lookup j + (if j = i then w else 0) := by
  induction m with
  | nil => rw [add_nil]; split <;> simp <;> grind
  | cons p rest ih =>
    rw [add_cons]
    split
    · grind
    · split
      · simp only [lookup_cons]; grind
      · split
        · split <;> simp only [lookup_cons] <;> grind
        · simp only [lookup_cons, ih]; grind

theorem total_add (m : Content) (i : Int) (w : Rat) : (m.add i w).total = m.total + w := by
  induction m with
  | nil => rw [add_nil]; split <;> simp <;> grind
  | cons p rest ih =>
    rw [add_cons]
    split
    · grind
    · split
      · simp only [total_cons]; grind
      · split
        · split <;> simp only [total_cons] <;> grind
        · simp only [total_cons, ih]; grind

/-- entries of `m.add i w` are old entries or sit at key `i` -/
theorem mem_add {m : Content} {i : Int} {w : Rat} {p : Int × Rat} (hp : p ∈ m.add i w) :
    p ∈ m ∨ p.1 = i := by
  induction m with
  | nil =>
    rw [add_nil] at hp
    split at hp
    · exact Or.inl hp
    · simp at hp; right; rw [hp]
  | cons q rest ih =>
    rw [add_cons] at hp
    split at hp
    · exact Or.inl hp
    · split at hp
      · rcases List.mem_cons.1 hp with rfl | hp
        · exact Or.inr rfl
        · exact Or.inl hp
      · split at hp
        · split at hp
          · exact Or.inl (List.mem_cons_of_mem _ hp)
          · rcases List.mem_cons.1 hp with rfl | hp
            · right; simp_all
            · exact Or.inl (List.mem_cons_of_mem _ hp)
        · rcases List.mem_cons.1 hp with rfl | hp
          · exact Or.inl (List.mem_cons_self ..)
          · rcases ih hp with h | h
            · exact Or.inl (List.mem_cons_of_mem _ h)
            · exact Or.inr h

theorem sorted_add (m : Content) (i : Int) (w : Rat) (h : Sorted m) : Sorted (m.add i w) := by
  induction m with
  | nil => rw [add_nil]; split <;> simp
  | cons p rest ih =>
    have hlt := h.head_lt
    have ht := h.tail
    rw [add_cons]
    split
    · exact h
    · split
      · rw [sorted_cons]
        refine ⟨?_, h⟩
        intro q hq
        rcases List.mem_cons.1 hq with rfl | hq
        · assumption
        · have := hlt q hq; simp only at *; omega
      · split
        · split
          · exact ht
          · rw [sorted_cons]; exact ⟨hlt, ht⟩
        · rw [sorted_cons]
          refine ⟨?_, ih ht⟩
          intro q hq
          rcases mem_add hq with hq | hq
          · exact hlt q hq
          · omega

theorem pos_add (m : Content) (i : Int) (w : Rat) (h : ∀ p ∈ m, 0 < p.2) (hw : 0 ≤ w) :
    ∀ p ∈ m.add i w, 0 < p.2 := by
  induction m with
  | nil =>
    rw [add_nil]; split
    · simp
    · simp; grind
  | cons q rest ih =>
    have hq : 0 < q.2 := h q (List.mem_cons_self ..)
    have hr : ∀ p ∈ rest, 0 < p.2 := fun p hp => h p (List.mem_cons_of_mem _ hp)
    rw [add_cons]
    split
    · exact h
    · split
      · intro p hp
        rcases List.mem_cons.1 hp with rfl | hp
        · simp only; grind
        · exact h p hp
      · split
        · split
          · exact hr
          · intro p hp
            rcases List.mem_cons.1 hp with rfl | hp
            · simp only; grind
            · exact hr p hp
        · intro p hp
          rcases List.mem_cons.1 hp with rfl | hp
          · exact hq
          · exact ih hr p hp

theorem wf_add (m : Content) (i : Int) (w : Rat) (h : WF m) (hw : 0 ≤ w) : WF (m.add i w) :=
  ⟨sorted_add m i w h.1, pos_add m i w h.2 hw⟩

@[simp] theorem add_zero_weight (m : Content) (i : Int) : m.add i 0 = m := by
  cases m with
  | nil => simp [add_nil]
  | cons p rest => simp [add_cons]

theorem lookup_eq_zero_of_not_mem (m : Content) (j : Int) (h : ∀ p ∈ m, p.1 ≠ j) :
    m.lookup j = 0 := by
  induction m with
  | nil => rfl
  | cons q rest ih =>
    have h1 : q.1 ≠ j := h q (List.mem_cons_self ..)
    have h2 := ih (fun p hp => h p (List.mem_cons_of_mem _ hp))
    simp only [lookup_cons, if_neg h1, h2]; grind

theorem lookup_eq_zero_of_lt (m : Content) (j : Int) (h : ∀ p ∈ m, j < p.1) : m.lookup j = 0 :=
  lookup_eq_zero_of_not_mem m j (fun p hp => by have := h p hp; omega)

theorem lookup_of_mem_sorted (m : Content) (h : Sorted m) (p : Int × Rat) (hp : p ∈ m) :
    m.lookup p.1 = p.2 := by
  induction m with
  | nil => simp at hp
  | cons q rest ih =>
    have hlt := h.head_lt
    rcases List.mem_cons.1 hp with rfl | hp
    · simp only [lookup_cons, if_true, lookup_eq_zero_of_lt rest p.1 hlt]; grind
    · have : q.1 ≠ p.1 := by have := hlt p hp; omega
      simp only [lookup_cons, if_neg this, ih h.tail hp]; grind

theorem lookup_pos_of_mem (m : Content) (h : WF m) (p : Int × Rat) (hp : p ∈ m) :
    m.lookup p.1 = p.2 := lookup_of_mem_sorted m h.1 p hp

theorem lookup_nonneg (m : Content) (h : ∀ p ∈ m, 0 < p.2) (j : Int) : 0 ≤ m.lookup j := by
  induction m with
  | nil => simp
  | cons q rest ih =>
    have hq : 0 < q.2 := h q (List.mem_cons_self ..)
    have := ih (fun p hp => h p (List.mem_cons_of_mem _ hp))
    simp only [lookup_cons]; grind

/-- on a canonical content, the keys present are exactly the indexes of positive weight -/
theorem lookup_pos_iff (m : Content) (h : WF m) (j : Int) :
    0 < m.lookup j ↔ ∃ w, (j, w) ∈ m := by
  constructor
  · intro hj
    apply Classical.byContradiction
    intro hn
    have : m.lookup j = 0 := lookup_eq_zero_of_not_mem m j (by
      intro p hp hpj
      exact hn ⟨p.2, by rw [← hpj]; exact hp⟩)
    grind
  · rintro ⟨w, hw⟩
    have := lookup_pos_of_mem m h _ hw
    have := h.2 _ hw
    grind

/-! ## B. canonical-form extensionality -/

theorem ext (a b : Content) (ha : WF a) (hb : WF b) (h : ∀ j, a.lookup j = b.lookup j) :
    a = b := by
  induction a generalizing b with
  | nil =>
    cases b with
    | nil => rfl
    | cons q rb =>
      have := h q.1
      have h1 := lookup_pos_of_mem _ hb q (List.mem_cons_self ..)
      have h2 := hb.2 q (List.mem_cons_self ..)
      simp only [lookup_nil] at this
      grind
  | cons p ra ih =>
    cases b with
    | nil =>
      have := h p.1
      have h1 := lookup_pos_of_mem _ ha p (List.mem_cons_self ..)
      have h2 := ha.2 p (List.mem_cons_self ..)
      simp only [lookup_nil] at this
      grind
    | cons q rb =>
      obtain ⟨hp, hpl, hra⟩ := (wf_cons p ra).1 ha
      obtain ⟨hq, hql, hrb⟩ := (wf_cons q rb).1 hb
      have ha0 := lookup_eq_zero_of_lt ra p.1 hpl
      have hb0 := lookup_eq_zero_of_lt rb q.1 hql
      have hk : p.1 = q.1 := by
        rcases Int.lt_trichotomy p.1 q.1 with hlt | heq | hgt
        · exfalso
          have h1 := h p.1
          have : lookup rb p.1 = 0 :=
            lookup_eq_zero_of_lt rb p.1 (fun x hx => Int.lt_trans hlt (hql x hx))
          have hne : q.1 ≠ p.1 := by omega
          simp only [lookup_cons, if_true, ha0, this, if_neg hne] at h1
          grind
        · exact heq
        · exfalso
          have h1 := h q.1
          have : lookup ra q.1 = 0 :=
            lookup_eq_zero_of_lt ra q.1 (fun x hx => Int.lt_trans hgt (hpl x hx))
          have hne : p.1 ≠ q.1 := by omega
          simp only [lookup_cons, if_true, hb0, this, if_neg hne] at h1
          grind
      have hw : p.2 = q.2 := by
        have h1 := h p.1
        rw [hk] at ha0
        simp only [lookup_cons, hk, if_true, ha0, hb0] at h1
        grind
      have hpq : p = q := Prod.ext hk hw
      subst hpq
      congr 1
      apply ih rb hra hrb
      intro j
      have h1 := h j
      simp only [lookup_cons] at h1
      grind

/-! ## C. merge / scale -/

@[simp] theorem merge_nil_right (a : Content) : a.merge [] = a := rfl

theorem merge_cons (a : Content) (p : Int × Rat) (b : Content) :
    a.merge (p :: b) = (a.add p.1 p.2).merge b := rfl

theorem add_eq_merge_singleton (m : Content) (i : Int) (w : Rat) : m.add i w = m.merge [(i, w)] :=
  rfl

@[simp] theorem lookup_merge (a b : Content) (j : Int) :
    (a.merge b).lookup j = a.lookup j + b.lookup j := by
  induction b generalizing a with
  | nil => simp only [merge_nil_right, lookup_nil]; grind
  | cons p b ih => rw [merge_cons, ih, lookup_add, lookup_cons]; grind

@[simp] theorem total_merge (a b : Content) : (a.merge b).total = a.total + b.total := by
  induction b generalizing a with
  | nil => simp only [merge_nil_right, total_nil]; grind
  | cons p b ih => rw [merge_cons, ih, total_add, total_cons]; grind

/-- entries of a merge come from the left operand or sit at a key of the right operand -/
theorem mem_merge {a b : Content} {p : Int × Rat} (hp : p ∈ a.merge b) :
    p ∈ a ∨ ∃ q ∈ b, q.1 = p.1 := by
  induction b generalizing a with
  | nil => exact Or.inl hp
  | cons q b ih =>
    rw [merge_cons] at hp
    rcases ih hp with h | ⟨x, hx, hxp⟩
    · rcases mem_add h with h | h
      · exact Or.inl h
      · exact Or.inr ⟨q, List.mem_cons_self .., h.symm⟩
    · exact Or.inr ⟨x, List.mem_cons_of_mem _ hx, hxp⟩

theorem wf_merge_of_nonneg (a b : Content) (ha : WF a) (hb : ∀ p ∈ b, 0 ≤ p.2) :
    WF (a.merge b) := by
  induction b generalizing a with
  | nil => exact ha
  | cons q b ih =>
    rw [merge_cons]
    exact ih _ (wf_add a q.1 q.2 ha (hb q (List.mem_cons_self ..)))
      (fun p hp => hb p (List.mem_cons_of_mem _ hp))

theorem wf_merge (a b : Content) (ha : WF a) (hb : WF b) : WF (a.merge b) :=
  wf_merge_of_nonneg a b ha (fun p hp => Rat.le_of_lt (hb.2 p hp))

theorem merge_comm (a b : Content) (ha : WF a) (hb : WF b) : a.merge b = b.merge a := by
  apply ext _ _ (wf_merge a b ha hb) (wf_merge b a hb ha)
  intro j; simp only [lookup_merge]; grind

theorem merge_assoc (a b c : Content) (ha : WF a) (hb : WF b) (hc : WF c) :
    (a.merge b).merge c = a.merge (b.merge c) := by
  apply ext _ _ (wf_merge _ c (wf_merge a b ha hb) hc) (wf_merge a _ ha (wf_merge b c hb hc))
  intro j; simp only [lookup_merge]; grind

theorem merge_nil_left (a : Content) (ha : WF a) : Content.merge [] a = a := by
  apply ext _ _ (wf_merge [] a wf_nil ha) ha
  intro j; simp only [lookup_merge, lookup_nil]; grind

@[simp] theorem scale_nil (w : Rat) : scale [] w = [] := rfl

@[simp] theorem scale_cons (p : Int × Rat) (rest : Content) (w : Rat) :
    scale (p :: rest) w = (p.1, p.2 * w) :: scale rest w := rfl

theorem mem_scale {m : Content} {w : Rat} {q : Int × Rat} (hq : q ∈ m.scale w) :
    ∃ p ∈ m, q = (p.1, p.2 * w) := by
  unfold scale at hq
  obtain ⟨p, hp, rfl⟩ := List.mem_map.1 hq
  exact ⟨p, hp, rfl⟩

@[simp] theorem lookup_scale (m : Content) (w : Rat) (j : Int) :
    (m.scale w).lookup j = m.lookup j * w := by
  induction m with
  | nil => simp only [scale_nil, lookup_nil]; grind
  | cons p rest ih => simp only [scale_cons, lookup_cons, ih]; grind

@[simp] theorem total_scale (m : Content) (w : Rat) : (m.scale w).total = m.total * w := by
  induction m with
  | nil => simp only [scale_nil, total_nil]; grind
  | cons p rest ih => simp only [scale_cons, total_cons, ih]; grind

theorem sorted_scale (m : Content) (w : Rat) (h : Sorted m) : Sorted (m.scale w) := by
  induction m with
  | nil => simp
  | cons p rest ih =>
    rw [scale_cons, sorted_cons]
    refine ⟨?_, ih h.tail⟩
    intro q hq
    obtain ⟨x, hx, rfl⟩ := mem_scale hq
    exact h.head_lt x hx

theorem wf_scale (m : Content) (w : Rat) (h : WF m) (hw : 0 < w) : WF (m.scale w) := by
  refine ⟨sorted_scale m w h.1, ?_⟩
  intro q hq
  obtain ⟨x, hx, rfl⟩ := mem_scale hq
  exact Rat.mul_pos (h.2 x hx) hw

theorem scale_add (m : Content) (i : Int) (c w : Rat) (h : WF m) (hc : 0 ≤ c) (hw : 0 < w) :
    (m.add i c).scale w = (m.scale w).add i (c * w) := by
  have hcw : 0 ≤ c * w := Rat.mul_nonneg hc (Rat.le_of_lt hw)
  apply ext _ _ (wf_scale _ w (wf_add m i c h hc) hw) (wf_add _ i _ (wf_scale m w h hw) hcw)
  intro j
  simp only [lookup_scale, lookup_add]
  split <;> grind

theorem scale_merge (a b : Content) (w : Rat) (ha : WF a) (hb : WF b) (hw : 0 < w) :
    (a.merge b).scale w = (a.scale w).merge (b.scale w) := by
  apply ext _ _ (wf_scale _ w (wf_merge a b ha hb) hw)
    (wf_merge _ _ (wf_scale a w ha hw) (wf_scale b w hb hw))
  intro j
  simp only [lookup_scale, lookup_merge]
  grind

/-! ## D. observers on canonical contents -/

theorem total_nonneg (m : Content) (h : ∀ p ∈ m, 0 < p.2) : 0 ≤ m.total := by
  induction m with
  | nil => simp
  | cons q rest ih =>
    have hq : 0 < q.2 := h q (List.mem_cons_self ..)
    have := ih (fun p hp => h p (List.mem_cons_of_mem _ hp))
    simp only [total_cons]; grind

theorem total_pos (m : Content) (h : ∀ p ∈ m, 0 < p.2) (hne : m ≠ []) : 0 < m.total := by
  cases m with
  | nil => exact absurd rfl hne
  | cons q rest =>
    have hq : 0 < q.2 := h q (List.mem_cons_self ..)
    have := total_nonneg rest (fun p hp => h p (List.mem_cons_of_mem _ hp))
    simp only [total_cons]; grind

theorem isEmpty_iff_total_zero (m : Content) (h : WF m) : m.isEmpty = true ↔ m.total = 0 := by
  cases m with
  | nil => simp [isEmpty]
  | cons p rest =>
    have := total_pos (p :: rest) h.2 (by simp)
    constructor
    · intro h'; simp [isEmpty] at h'
    · intro h'; grind

@[simp] theorem minIndex?_nil : minIndex? [] = none := rfl

@[simp] theorem minIndex?_cons (p : Int × Rat) (rest : Content) :
    minIndex? (p :: rest) = some p.1 := by
  obtain ⟨k, w⟩ := p; rfl

@[simp] theorem maxIndex?_nil : maxIndex? [] = none := rfl

@[simp] theorem maxIndex?_singleton (p : Int × Rat) : maxIndex? [p] = some p.1 := by
  obtain ⟨k, w⟩ := p; rfl

@[simp] theorem maxIndex?_cons_cons (p q : Int × Rat) (rest : Content) :
    maxIndex? (p :: q :: rest) = maxIndex? (q :: rest) := by
  obtain ⟨k, w⟩ := p; rfl

theorem minIndex?_eq_none {m : Content} : m.minIndex? = none ↔ m = [] := by
  cases m <;> simp

theorem maxIndex?_eq_none {m : Content} : m.maxIndex? = none ↔ m = [] := by
  induction m with
  | nil => simp
  | cons p rest ih =>
    cases rest with
    | nil => simp
    | cons q r => rw [maxIndex?_cons_cons]; simp [ih]

theorem maxIndex?_isSome (m : Content) (hne : m ≠ []) : ∃ k, m.maxIndex? = some k := by
  cases h : m.maxIndex? with
  | none => exact absurd (maxIndex?_eq_none.1 h) hne
  | some k => exact ⟨k, rfl⟩

theorem minIndex_le_of_sorted (m : Content) (h : Sorted m) (k : Int) (hk : m.minIndex? = some k) :
    ∀ p ∈ m, k ≤ p.1 := by
  cases m with
  | nil => simp
  | cons q rest =>
    simp only [minIndex?_cons, Option.some.injEq] at hk
    subst hk
    intro p hp
    rcases List.mem_cons.1 hp with rfl | hp
    · exact Int.le_refl _
    · exact Int.le_of_lt (h.head_lt p hp)

theorem minIndex_le (m : Content) (h : WF m) (k : Int) (hk : m.minIndex? = some k) :
    ∀ p ∈ m, k ≤ p.1 := minIndex_le_of_sorted m h.1 k hk

theorem le_maxIndex_of_sorted (m : Content) (h : Sorted m) (k : Int)
    (hk : m.maxIndex? = some k) : ∀ p ∈ m, p.1 ≤ k := by
  induction m with
  | nil => simp
  | cons q rest ih =>
    cases rest with
    | nil =>
      simp only [maxIndex?_singleton, Option.some.injEq] at hk
      subst hk
      intro p hp
      simp only [List.mem_singleton] at hp
      subst hp; exact Int.le_refl _
    | cons q' r =>
      rw [maxIndex?_cons_cons] at hk
      have ih' := ih h.tail hk
      intro p hp
      rcases List.mem_cons.1 hp with rfl | hp
      · have h1 := h.head_lt q' (List.mem_cons_self ..)
        have h2 := ih' q' (List.mem_cons_self ..)
        omega
      · exact ih' p hp

theorem le_maxIndex (m : Content) (h : WF m) (k : Int) (hk : m.maxIndex? = some k) :
    ∀ p ∈ m, p.1 ≤ k := le_maxIndex_of_sorted m h.1 k hk

theorem minIndex_mem (m : Content) (k : Int) (hk : m.minIndex? = some k) : ∃ w, (k, w) ∈ m := by
  cases m with
  | nil => simp at hk
  | cons q rest =>
    simp only [minIndex?_cons, Option.some.injEq] at hk
    subst hk
    exact ⟨q.2, List.mem_cons_self ..⟩

theorem maxIndex_mem (m : Content) (k : Int) (hk : m.maxIndex? = some k) : ∃ w, (k, w) ∈ m := by
  induction m with
  | nil => simp at hk
  | cons q rest ih =>
    cases rest with
    | nil =>
      simp only [maxIndex?_singleton, Option.some.injEq] at hk
      subst hk
      exact ⟨q.2, List.mem_cons_self ..⟩
    | cons q' r =>
      rw [maxIndex?_cons_cons] at hk
      obtain ⟨w, hw⟩ := ih hk
      exact ⟨w, List.mem_cons_of_mem _ hw⟩

/-- a key that is present and dominates all keys is the maximum index -/
theorem maxIndex?_eq_of (m : Content) (h : Sorted m) (k : Int) (hmem : ∃ w, (k, w) ∈ m)
    (hub : ∀ p ∈ m, p.1 ≤ k) : m.maxIndex? = some k := by
  obtain ⟨w, hw⟩ := hmem
  obtain ⟨k', hk'⟩ := maxIndex?_isSome m (List.ne_nil_of_mem hw)
  obtain ⟨w', hw'⟩ := maxIndex_mem m k' hk'
  have h1 := hub _ hw'
  have h2 := le_maxIndex_of_sorted m h k' hk' _ hw
  simp only at h1 h2
  rw [hk']; congr 1; omega

/-- a key that is present and is dominated by all keys is the minimum index -/
theorem minIndex?_eq_of (m : Content) (h : Sorted m) (k : Int) (hmem : ∃ w, (k, w) ∈ m)
    (hlb : ∀ p ∈ m, k ≤ p.1) : m.minIndex? = some k := by
  obtain ⟨w, hw⟩ := hmem
  cases m with
  | nil => simp at hw
  | cons q rest =>
    have h1 := hlb q (List.mem_cons_self ..)
    have h2 := minIndex_le_of_sorted (q :: rest) h q.1 (by simp) _ hw
    simp only at h2
    simp only [minIndex?_cons, Option.some.injEq]; omega

theorem firstExceeding_cons (p : Int × Rat) (rest : Content) (acc r : Rat) :
    firstExceeding (p :: rest) acc r =
      if r < acc + p.2 then some p.1 else firstExceeding rest (acc + p.2) r := by
  obtain ⟨k, w⟩ := p; rfl

theorem firstExceeding_mem (m : Content) (acc r : Rat) (k : Int)
    (hk : firstExceeding m acc r = some k) : ∃ w, (k, w) ∈ m := by
  induction m generalizing acc with
  | nil => simp [firstExceeding] at hk
  | cons q rest ih =>
    rw [firstExceeding_cons] at hk
    split at hk
    · simp only [Option.some.injEq] at hk
      subst hk
      exact ⟨q.2, List.mem_cons_self ..⟩
    · obtain ⟨w, hw⟩ := ih _ hk
      exact ⟨w, List.mem_cons_of_mem _ hw⟩

/-- `keyAtRank` with a running accumulator -/
def karAux (m : Content) (acc r : Rat) : Int :=
  match firstExceeding m acc r with
  | some k => k
  | none => (maxIndex? m).getD 0

theorem keyAtRank_eq_karAux (m : Content) (r : Rat) :
    m.keyAtRank r = karAux m 0 (if r < 0 then 0 else r) := rfl

theorem karAux_singleton (p : Int × Rat) (acc r : Rat) : karAux [p] acc r = p.1 := by
  unfold karAux
  rw [firstExceeding_cons]
  by_cases h : r < acc + p.2 <;> simp [h, firstExceeding]

theorem karAux_cons_cons (p q : Int × Rat) (rest : Content) (acc r : Rat) :
    karAux (p :: q :: rest) acc r =
      if r < acc + p.2 then p.1 else karAux (q :: rest) (acc + p.2) r := by
  unfold karAux
  rw [firstExceeding_cons (p := p), maxIndex?_cons_cons]
  by_cases h : r < acc + p.2 <;> simp [h]

theorem karAux_mem (m : Content) (acc r : Rat) (h : m ≠ []) : ∃ w, (karAux m acc r, w) ∈ m := by
  unfold karAux
  cases hfe : firstExceeding m acc r with
  | some k => exact firstExceeding_mem m acc r k hfe
  | none =>
    obtain ⟨k, hk⟩ := maxIndex?_isSome m h
    simp only [hk, Option.getD_some]
    exact maxIndex_mem m k hk

theorem keyAtRank_mem (m : Content) (r : Rat) (h : m ≠ []) : ∃ w, (m.keyAtRank r, w) ∈ m :=
  karAux_mem m 0 _ h

theorem karAux_mono (m : Content) (h : Sorted m) (acc r₁ r₂ : Rat) (hr : r₁ ≤ r₂) :
    karAux m acc r₁ ≤ karAux m acc r₂ := by
  induction m generalizing acc with
  | nil => exact Int.le_refl _
  | cons p rest ih =>
    cases rest with
    | nil => simp only [karAux_singleton]; exact Int.le_refl _
    | cons q r =>
      simp only [karAux_cons_cons]
      by_cases h2 : r₂ < acc + p.2
      · have h1 : r₁ < acc + p.2 := by grind
        simp only [if_pos h1, if_pos h2]; exact Int.le_refl _
      · simp only [if_neg h2]
        by_cases h1 : r₁ < acc + p.2
        · simp only [if_pos h1]
          obtain ⟨w, hw⟩ := karAux_mem (q :: r) (acc + p.2) r₂ (by simp)
          exact Int.le_of_lt (h.head_lt _ hw)
        · simp only [if_neg h1]
          exact ih h.tail _

theorem keyAtRank_mono_of_sorted (m : Content) (h : Sorted m) (r₁ r₂ : Rat) (hr : r₁ ≤ r₂) :
    m.keyAtRank r₁ ≤ m.keyAtRank r₂ := by
  simp only [keyAtRank_eq_karAux]
  apply karAux_mono m h
  split <;> split <;> grind

theorem keyAtRank_mono (m : Content) (h : WF m) (r₁ r₂ : Rat) (hr : r₁ ≤ r₂) :
    m.keyAtRank r₁ ≤ m.keyAtRank r₂ := keyAtRank_mono_of_sorted m h.1 r₁ r₂ hr

/-- cumulative weight: the sum of the weights of the entries with key `≤ k` -/
def cumul : Content → Int → Rat
  | [], _ => 0
  | p :: rest, k => (if p.1 ≤ k then p.2 else 0) + cumul rest k

@[simp] theorem cumul_nil (k : Int) : cumul [] k = 0 := rfl

@[simp] theorem cumul_cons (p : Int × Rat) (rest : Content) (k : Int) :
    cumul (p :: rest) k = (if p.1 ≤ k then p.2 else 0) + cumul rest k := rfl

theorem cumul_eq_sum (m : Content) (k : Int) :
    cumul m k = ((m.filter (fun p => p.1 ≤ k)).map (·.2)).sum := by
  induction m with
  | nil => rfl
  | cons p rest ih =>
    rw [cumul_cons, ih]
    by_cases hp : p.1 ≤ k
    · simp only [List.filter_cons, hp, decide_true, if_true, List.map_cons, List.sum_cons]
    · simp only [List.filter_cons, hp, decide_false, if_false]; grind

theorem cumul_eq_zero_of_lt (m : Content) (k : Int) (h : ∀ p ∈ m, k < p.1) : cumul m k = 0 := by
  induction m with
  | nil => rfl
  | cons q rest ih =>
    have h1 : ¬ q.1 ≤ k := by have := h q (List.mem_cons_self ..); omega
    have h2 := ih (fun p hp => h p (List.mem_cons_of_mem _ hp))
    simp only [cumul_cons, if_neg h1, h2]; grind

theorem firstExceeding_some_spec (m : Content) (h : Sorted m) (acc r : Rat) (k : Int)
    (hk : firstExceeding m acc r = some k) :
    r < acc + cumul m k ∧ ∀ p ∈ m, p.1 < k → acc + cumul m p.1 ≤ r := by
  induction m generalizing acc with
  | nil => simp [firstExceeding] at hk
  | cons q rest ih =>
    have hlt := h.head_lt
    rw [firstExceeding_cons] at hk
    split at hk
    · simp only [Option.some.injEq] at hk
      subst hk
      have h0 := cumul_eq_zero_of_lt rest q.1 hlt
      constructor
      · simp only [cumul_cons, Int.le_refl, if_true, h0]; grind
      · intro p hp hpk
        exfalso
        rcases List.mem_cons.1 hp with rfl | hp
        · omega
        · have := hlt p hp; omega
    · rename_i hnot
      obtain ⟨w, hw⟩ := firstExceeding_mem _ _ _ _ hk
      have hqk : q.1 < k := hlt _ hw
      obtain ⟨ih1, ih2⟩ := ih h.tail _ hk
      constructor
      · have : q.1 ≤ k := by omega
        simp only [cumul_cons, if_pos this]; grind
      · intro p hp hpk
        rcases List.mem_cons.1 hp with rfl | hp
        · have h0 := cumul_eq_zero_of_lt rest p.1 hlt
          simp only [cumul_cons, Int.le_refl, if_true, h0]; grind
        · have : q.1 ≤ p.1 := Int.le_of_lt (hlt p hp)
          have := ih2 p hp hpk
          simp only [cumul_cons, if_pos ‹q.1 ≤ p.1›]; grind

theorem firstExceeding_none_spec (m : Content) (acc r : Rat) (hacc : acc ≤ r)
    (hk : firstExceeding m acc r = none) : acc + m.total ≤ r := by
  induction m generalizing acc with
  | nil => simp only [total_nil]; grind
  | cons q rest ih =>
    rw [firstExceeding_cons] at hk
    split at hk
    · simp at hk
    · have := ih _ (by grind) hk
      simp only [total_cons]; grind

theorem keyAtRank_spec_of_sorted (m : Content) (h : Sorted m) (hne : m ≠ []) (r : Rat) :
    let k := m.keyAtRank r
    let r' := if r < 0 then 0 else r
    (r' < cumul m k ∧ ∀ p ∈ m, p.1 < k → cumul m p.1 ≤ r') ∨
      (m.total ≤ r' ∧ m.maxIndex? = some k) := by
  intro k r'
  cases hfe : firstExceeding m 0 r' with
  | some k' =>
    have hk : k = k' := by
      show m.keyAtRank r = k'
      unfold keyAtRank
      rw [show (if r < 0 then 0 else r) = r' from rfl, hfe]
    left
    obtain ⟨h1, h2⟩ := firstExceeding_some_spec m h 0 r' k' hfe
    rw [hk]
    refine ⟨by grind, ?_⟩
    intro p hp hpk
    have := h2 p hp hpk
    grind
  | none =>
    obtain ⟨k', hk'⟩ := maxIndex?_isSome m hne
    have hk : k = k' := by
      show m.keyAtRank r = k'
      unfold keyAtRank
      rw [show (if r < 0 then 0 else r) = r' from rfl, hfe, hk']
      rfl
    right
    have hr' : (0 : Rat) ≤ r' := by show (0 : Rat) ≤ if r < 0 then 0 else r; split <;> grind
    have := firstExceeding_none_spec m 0 r' hr' hfe
    rw [hk]
    exact ⟨by grind, hk'⟩

theorem keyAtRank_spec (m : Content) (h : WF m) (hne : m ≠ []) (r : Rat) :
    let k := m.keyAtRank r
    let r' := if r < 0 then 0 else r
    (r' < cumul m k ∧ ∀ p ∈ m, p.1 < k → cumul m p.1 ≤ r') ∨
      (m.total ≤ r' ∧ m.maxIndex? = some k) := keyAtRank_spec_of_sorted m h.1 hne r

/-! ## E. relabel / folding / clamping -/

/-- total weight carried by the keys satisfying `P` (no assumption on the list) -/
def wsum (P : Int → Bool) (m : Content) : Rat := ((m.filter (fun p => P p.1)).map (·.2)).sum

@[simp] theorem wsum_nil (P : Int → Bool) : wsum P [] = 0 := rfl

@[simp] theorem wsum_cons (P : Int → Bool) (p : Int × Rat) (rest : Content) :
    wsum P (p :: rest) = (if P p.1 then p.2 else 0) + wsum P rest := by
  unfold wsum
  by_cases h : P p.1
  · simp only [List.filter_cons, h, if_true, List.map_cons, List.sum_cons]
  · simp only [List.filter_cons, h]; grind

theorem lookup_eq_wsum (m : Content) (j : Int) : m.lookup j = wsum (fun i => decide (i = j)) m := by
  induction m with
  | nil => rfl
  | cons p rest ih => simp only [lookup_cons, wsum_cons, ih, decide_eq_true_eq]

theorem total_eq_wsum (m : Content) : m.total = wsum (fun _ => true) m := by
  induction m with
  | nil => rfl
  | cons p rest ih => simp only [total_cons, wsum_cons, ih, if_true]

theorem wsum_add (P : Int → Bool) (m : Content) (i : Int) (w : Rat) :
    wsum P (m.add i w) = wsum P m + (if P i then w else 0) := by
  induction m with
  | nil => rw [add_nil]; split <;> simp only [wsum_nil, wsum_cons] <;> grind
  | cons p rest ih =>
    rw [add_cons]
    split
    · grind
    · split
      · simp only [wsum_cons]; grind
      · split
        · split <;> simp only [wsum_cons] <;> grind
        · simp only [wsum_cons, ih]; grind

theorem wsum_merge (P : Int → Bool) (a b : Content) :
    wsum P (a.merge b) = wsum P a + wsum P b := by
  induction b generalizing a with
  | nil => simp only [merge_nil_right, wsum_nil]; grind
  | cons p b ih => rw [merge_cons, ih, wsum_add, wsum_cons]; grind

theorem wsum_map_key (P : Int → Bool) (f : Int → Int) (m : Content) :
    wsum P (m.map (fun p => (f p.1, p.2))) = wsum (fun i => P (f i)) m := by
  induction m with
  | nil => rfl
  | cons p rest ih => simp only [List.map_cons, wsum_cons, ih]

theorem wsum_nonneg (P : Int → Bool) (m : Content) (h : ∀ p ∈ m, 0 < p.2) : 0 ≤ wsum P m := by
  induction m with
  | nil => simp
  | cons q rest ih =>
    have hq : 0 < q.2 := h q (List.mem_cons_self ..)
    have := ih (fun p hp => h p (List.mem_cons_of_mem _ hp))
    simp only [wsum_cons]; grind

theorem wsum_pos (P : Int → Bool) (m : Content) (h : ∀ p ∈ m, 0 < p.2)
    (hex : ∃ p ∈ m, P p.1 = true) : 0 < wsum P m := by
  induction m with
  | nil => obtain ⟨p, hp, _⟩ := hex; simp at hp
  | cons q rest ih =>
    have hq : 0 < q.2 := h q (List.mem_cons_self ..)
    have hr : ∀ p ∈ rest, 0 < p.2 := fun p hp => h p (List.mem_cons_of_mem _ hp)
    have hnn := wsum_nonneg P rest hr
    obtain ⟨p, hp, hP⟩ := hex
    rcases List.mem_cons.1 hp with rfl | hp
    · simp only [wsum_cons, hP, if_true]; grind
    · have := ih hr ⟨p, hp, hP⟩
      simp only [wsum_cons]; grind

theorem relabel_eq_merge_map (f : Int → Int) (m : Content) :
    relabel f m = Content.merge [] (m.map (fun p => (f p.1, p.2))) := by
  unfold relabel merge
  rw [List.foldl_map]

@[simp] theorem relabel_nil (f : Int → Int) : relabel f [] = [] := rfl

theorem wsum_relabel (P : Int → Bool) (f : Int → Int) (m : Content) :
    wsum P (relabel f m) = wsum (fun i => P (f i)) m := by
  rw [relabel_eq_merge_map, wsum_merge, wsum_map_key, wsum_nil]; grind

theorem lookup_relabel (f : Int → Int) (m : Content) (j : Int) :
    (relabel f m).lookup j = ((m.filter (fun p => f p.1 = j)).map (·.2)).sum := by
  rw [lookup_eq_wsum, wsum_relabel]; rfl

@[simp] theorem total_relabel (f : Int → Int) (m : Content) : (relabel f m).total = m.total := by
  rw [total_eq_wsum, wsum_relabel, ← total_eq_wsum]

theorem wf_relabel (f : Int → Int) (m : Content) (h : WF m) : WF (relabel f m) := by
  rw [relabel_eq_merge_map]
  apply wf_merge_of_nonneg _ _ wf_nil
  intro p hp
  obtain ⟨q, hq, rfl⟩ := List.mem_map.1 hp
  exact Rat.le_of_lt (h.2 q hq)

theorem relabel_relabel (f g : Int → Int) (m : Content) (h : WF m) :
    relabel g (relabel f m) = relabel (g ∘ f) m := by
  apply ext _ _ (wf_relabel g _ (wf_relabel f m h)) (wf_relabel (g ∘ f) m h)
  intro j
  rw [lookup_eq_wsum, wsum_relabel, wsum_relabel, lookup_eq_wsum, wsum_relabel]
  rfl

theorem relabel_merge (f : Int → Int) (a b : Content) (ha : WF a) (hb : WF b) :
    relabel f (a.merge b) = (relabel f a).merge (relabel f b) := by
  apply ext _ _ (wf_relabel f _ (wf_merge a b ha hb))
    (wf_merge _ _ (wf_relabel f a ha) (wf_relabel f b hb))
  intro j
  rw [lookup_merge, lookup_eq_wsum, wsum_relabel, wsum_merge, lookup_eq_wsum, wsum_relabel,
    lookup_eq_wsum, wsum_relabel]

/-- every entry of `relabel f m` sits at the image of a key of `m` -/
theorem mem_relabel {f : Int → Int} {m : Content} {p : Int × Rat} (hp : p ∈ relabel f m) :
    ∃ q ∈ m, f q.1 = p.1 := by
  rw [relabel_eq_merge_map] at hp
  rcases mem_merge hp with h | ⟨x, hx, hxp⟩
  · simp at h
  · obtain ⟨q, hq, rfl⟩ := List.mem_map.1 hx
    exact ⟨q, hq, hxp⟩

/-- on canonical contents the image of every key is a key of `relabel f m` -/
theorem key_mem_relabel (f : Int → Int) (m : Content) (h : WF m) (q : Int × Rat) (hq : q ∈ m) :
    ∃ w, (f q.1, w) ∈ relabel f m := by
  rw [← lookup_pos_iff _ (wf_relabel f m h), lookup_eq_wsum, wsum_relabel]
  exact wsum_pos _ m h.2 ⟨q, hq, by simp⟩

theorem wf_foldLow (m : Content) (h : WF m) (e : Int) : WF (foldLow m e) := wf_relabel _ m h

theorem wf_foldHigh (m : Content) (h : WF m) (e : Int) : WF (foldHigh m e) := wf_relabel _ m h

theorem foldLow_foldLow (m : Content) (h : WF m) (e₁ e₂ : Int) (he : e₁ ≤ e₂) :
    foldLow (foldLow m e₁) e₂ = foldLow m e₂ := by
  unfold foldLow
  rw [relabel_relabel _ _ m h]
  congr 1
  funext i
  simp only [Function.comp]
  grind

theorem foldHigh_foldHigh (m : Content) (h : WF m) (e₁ e₂ : Int) (he : e₂ ≤ e₁) :
    foldHigh (foldHigh m e₁) e₂ = foldHigh m e₂ := by
  unfold foldHigh
  rw [relabel_relabel _ _ m h]
  congr 1
  funext i
  simp only [Function.comp]
  grind

theorem foldLow_merge (a b : Content) (ha : WF a) (hb : WF b) (e : Int) :
    foldLow (a.merge b) e = (foldLow a e).merge (foldLow b e) := relabel_merge _ a b ha hb

theorem foldHigh_merge (a b : Content) (ha : WF a) (hb : WF b) (e : Int) :
    foldHigh (a.merge b) e = (foldHigh a e).merge (foldHigh b e) := relabel_merge _ a b ha hb

theorem foldLow_keys (m : Content) (h : WF m) (e mx : Int) (he : e ≤ mx)
    (hmx : m.maxIndex? = some mx) :
    (foldLow m e).maxIndex? = some mx ∧ ∀ p ∈ foldLow m e, e ≤ p.1 ∧ p.1 ≤ mx := by
  have hb : ∀ p ∈ foldLow m e, e ≤ p.1 ∧ p.1 ≤ mx := by
    intro p hp
    obtain ⟨q, hq, hqp⟩ := mem_relabel hp
    have := le_maxIndex m h mx hmx q hq
    split at hqp <;> omega
  refine ⟨?_, hb⟩
  apply maxIndex?_eq_of _ (wf_foldLow m h e).1
  · obtain ⟨w, hw⟩ := maxIndex_mem m mx hmx
    have := key_mem_relabel (fun i => if i < e then e else i) m h _ hw
    have hne : ¬ mx < e := by omega
    simp only [if_neg hne] at this
    exact this
  · exact fun p hp => (hb p hp).2

theorem foldHigh_keys (m : Content) (h : WF m) (e mn : Int) (he : mn ≤ e)
    (hmn : m.minIndex? = some mn) :
    (foldHigh m e).minIndex? = some mn ∧ ∀ p ∈ foldHigh m e, mn ≤ p.1 ∧ p.1 ≤ e := by
  have hb : ∀ p ∈ foldHigh m e, mn ≤ p.1 ∧ p.1 ≤ e := by
    intro p hp
    obtain ⟨q, hq, hqp⟩ := mem_relabel hp
    have := minIndex_le m h mn hmn q hq
    split at hqp <;> omega
  refine ⟨?_, hb⟩
  apply minIndex?_eq_of _ (wf_foldHigh m h e).1
  · obtain ⟨w, hw⟩ := minIndex_mem m mn hmn
    have := key_mem_relabel (fun i => if e < i then e else i) m h _ hw
    have hne : ¬ e < mn := by omega
    simp only [if_neg hne] at this
    exact this
  · exact fun p hp => (hb p hp).1

theorem specLow_of_max (N : Nat) (m : Content) (mx : Int) (hmx : m.maxIndex? = some mx) :
    specLow N m = foldLow m (mx - (N : Int) + 1) := by
  unfold specLow; rw [hmx]

theorem specHigh_of_min (N : Nat) (m : Content) (mn : Int) (hmn : m.minIndex? = some mn) :
    specHigh N m = foldHigh m (mn + (N : Int) - 1) := by
  unfold specHigh; rw [hmn]

@[simp] theorem specLow_nil (N : Nat) : specLow N [] = [] := rfl

@[simp] theorem specHigh_nil (N : Nat) : specHigh N [] = [] := rfl

theorem wf_specLow (N : Nat) (m : Content) (h : WF m) : WF (specLow N m) := by
  unfold specLow
  split
  · exact wf_nil
  · exact wf_foldLow m h _

theorem wf_specHigh (N : Nat) (m : Content) (h : WF m) : WF (specHigh N m) := by
  unfold specHigh
  split
  · exact wf_nil
  · exact wf_foldHigh m h _

theorem specLow_keys (N : Nat) (hN : 1 ≤ N) (m : Content) (h : WF m) (mx : Int)
    (hmx : m.maxIndex? = some mx) :
    (specLow N m).maxIndex? = some mx ∧
      ∀ p ∈ specLow N m, mx - (N : Int) + 1 ≤ p.1 ∧ p.1 ≤ mx := by
  rw [specLow_of_max N m mx hmx]
  exact foldLow_keys m h _ mx (by omega) hmx

theorem specHigh_keys (N : Nat) (hN : 1 ≤ N) (m : Content) (h : WF m) (mn : Int)
    (hmn : m.minIndex? = some mn) :
    (specHigh N m).minIndex? = some mn ∧
      ∀ p ∈ specHigh N m, mn ≤ p.1 ∧ p.1 ≤ mn + (N : Int) - 1 := by
  rw [specHigh_of_min N m mn hmn]
  exact foldHigh_keys m h _ mn (by omega) hmn

/-- a strictly increasing list of keys inside a window of `n` integers has at most `n` entries -/
theorem length_le_of_sorted_range (c : Content) (h : Sorted c) (lo : Int) (n : Nat)
    (hr : ∀ p ∈ c, lo ≤ p.1 ∧ p.1 < lo + (n : Int)) : c.length ≤ n := by
  induction c generalizing lo n with
  | nil => simp
  | cons p rest ih =>
    have hp := hr p (List.mem_cons_self ..)
    have := ih h.tail (lo + 1) (n - 1) (by
      intro q hq
      have h1 := h.head_lt q hq
      have h2 := hr q (List.mem_cons_of_mem _ hq)
      omega)
    simp only [List.length_cons]
    omega

theorem specLow_length (N : Nat) (hN : 1 ≤ N) (m : Content) (h : WF m) :
    (specLow N m).length ≤ N := by
  cases hmx : m.maxIndex? with
  | none => rw [maxIndex?_eq_none.1 hmx]; simp
  | some mx =>
    obtain ⟨_, hb⟩ := specLow_keys N hN m h mx hmx
    apply length_le_of_sorted_range _ (wf_specLow N m h).1 (mx - (N : Int) + 1) N
    intro p hp
    have := hb p hp
    omega

theorem specHigh_length (N : Nat) (hN : 1 ≤ N) (m : Content) (h : WF m) :
    (specHigh N m).length ≤ N := by
  cases hmn : m.minIndex? with
  | none => rw [minIndex?_eq_none.1 hmn]; simp
  | some mn =>
    obtain ⟨_, hb⟩ := specHigh_keys N hN m h mn hmn
    apply length_le_of_sorted_range _ (wf_specHigh N m h).1 mn N
    intro p hp
    have := hb p hp
    omega

@[simp] theorem total_specLow (N : Nat) (m : Content) : (specLow N m).total = m.total := by
  cases hmx : m.maxIndex? with
  | none => rw [maxIndex?_eq_none.1 hmx]; rfl
  | some mx => rw [specLow_of_max N m mx hmx]; exact total_relabel _ m

@[simp] theorem total_specHigh (N : Nat) (m : Content) : (specHigh N m).total = m.total := by
  cases hmn : m.minIndex? with
  | none => rw [minIndex?_eq_none.1 hmn]; rfl
  | some mn => rw [specHigh_of_min N m mn hmn]; exact total_relabel _ m

/-- the maximum of `ka` and the keys of `b` -/
def maxWith (ka : Int) (b : Content) : Int :=
  match maxIndex? b with
  | none => ka
  | some kb => if ka ≤ kb then kb else ka

/-- the minimum of `ka` and the keys of `b` -/
def minWith (ka : Int) (b : Content) : Int :=
  match minIndex? b with
  | none => ka
  | some kb => if kb ≤ ka then kb else ka

theorem le_maxWith (ka : Int) (b : Content) : ka ≤ maxWith ka b := by
  unfold maxWith; split
  · exact Int.le_refl _
  · split <;> omega

theorem minWith_le (ka : Int) (b : Content) : minWith ka b ≤ ka := by
  unfold minWith; split
  · exact Int.le_refl _
  · split <;> omega

/-- keys of a merge of canonical contents are keys of one of the operands, and conversely -/
theorem key_mem_merge (a b : Content) (ha : WF a) (hb : WF b) (k : Int) :
    (∃ w, (k, w) ∈ a.merge b) ↔ (∃ w, (k, w) ∈ a) ∨ (∃ w, (k, w) ∈ b) := by
  rw [← lookup_pos_iff _ (wf_merge a b ha hb), ← lookup_pos_iff _ ha, ← lookup_pos_iff _ hb,
    lookup_merge]
  have := lookup_nonneg a ha.2 k
  have := lookup_nonneg b hb.2 k
  grind

theorem maxIndex?_merge (a b : Content) (ha : WF a) (hb : WF b) (ka : Int)
    (hka : a.maxIndex? = some ka) : (a.merge b).maxIndex? = some (maxWith ka b) := by
  unfold maxWith
  cases hkb : b.maxIndex? with
  | none => rw [maxIndex?_eq_none.1 hkb]; exact hka
  | some kb =>
    simp only
    apply maxIndex?_eq_of _ (wf_merge a b ha hb).1
    · rw [key_mem_merge a b ha hb]
      split
      · exact Or.inr (maxIndex_mem b kb hkb)
      · exact Or.inl (maxIndex_mem a ka hka)
    · intro p hp
      have : (∃ w, (p.1, w) ∈ a) ∨ (∃ w, (p.1, w) ∈ b) :=
        (key_mem_merge a b ha hb p.1).1 ⟨p.2, hp⟩
      rcases this with ⟨w, hw⟩ | ⟨w, hw⟩
      · have := le_maxIndex a ha ka hka _ hw
        simp only at this
        split <;> omega
      · have := le_maxIndex b hb kb hkb _ hw
        simp only at this
        split <;> omega

theorem minIndex?_merge (a b : Content) (ha : WF a) (hb : WF b) (ka : Int)
    (hka : a.minIndex? = some ka) : (a.merge b).minIndex? = some (minWith ka b) := by
  unfold minWith
  cases hkb : b.minIndex? with
  | none => rw [minIndex?_eq_none.1 hkb]; exact hka
  | some kb =>
    simp only
    apply minIndex?_eq_of _ (wf_merge a b ha hb).1
    · rw [key_mem_merge a b ha hb]
      split
      · exact Or.inr (minIndex_mem b kb hkb)
      · exact Or.inl (minIndex_mem a ka hka)
    · intro p hp
      have : (∃ w, (p.1, w) ∈ a) ∨ (∃ w, (p.1, w) ∈ b) :=
        (key_mem_merge a b ha hb p.1).1 ⟨p.2, hp⟩
      rcases this with ⟨w, hw⟩ | ⟨w, hw⟩
      · have := minIndex_le a ha ka hka _ hw
        simp only at this
        split <;> omega
      · have := minIndex_le b hb kb hkb _ hw
        simp only at this
        split <;> omega

theorem specLow_merge_specLow (N : Nat) (hN : 1 ≤ N) (a b : Content) (ha : WF a) (hb : WF b) :
    specLow N ((specLow N a).merge b) = specLow N (a.merge b) := by
  cases hmx : a.maxIndex? with
  | none => rw [maxIndex?_eq_none.1 hmx]; rfl
  | some mxa =>
    have hWa' : WF (specLow N a) := wf_specLow N a ha
    obtain ⟨hmx', _⟩ := specLow_keys N hN a ha mxa hmx
    have h1 := maxIndex?_merge (specLow N a) b hWa' hb mxa hmx'
    have h2 := maxIndex?_merge a b ha hb mxa hmx
    have hle := le_maxWith mxa b
    rw [specLow_of_max N _ _ h1, specLow_of_max N _ _ h2, specLow_of_max N a mxa hmx,
      foldLow_merge _ b (wf_foldLow a ha _) hb, foldLow_merge a b ha hb,
      foldLow_foldLow a ha _ _ (by omega)]

theorem specHigh_merge_specHigh (N : Nat) (hN : 1 ≤ N) (a b : Content) (ha : WF a) (hb : WF b) :
    specHigh N ((specHigh N a).merge b) = specHigh N (a.merge b) := by
  cases hmn : a.minIndex? with
  | none => rw [minIndex?_eq_none.1 hmn]; rfl
  | some mna =>
    have hWa' : WF (specHigh N a) := wf_specHigh N a ha
    obtain ⟨hmn', _⟩ := specHigh_keys N hN a ha mna hmn
    have h1 := minIndex?_merge (specHigh N a) b hWa' hb mna hmn'
    have h2 := minIndex?_merge a b ha hb mna hmn
    have hle := minWith_le mna b
    rw [specHigh_of_min N _ _ h1, specHigh_of_min N _ _ h2, specHigh_of_min N a mna hmn,
      foldHigh_merge _ b (wf_foldHigh a ha _) hb, foldHigh_merge a b ha hb,
      foldHigh_foldHigh a ha _ _ (by omega)]

theorem specLow_idem (N : Nat) (hN : 1 ≤ N) (m : Content) (h : WF m) :
    specLow N (specLow N m) = specLow N m :=
  specLow_merge_specLow N hN m [] h wf_nil

theorem specHigh_idem (N : Nat) (hN : 1 ≤ N) (m : Content) (h : WF m) :
    specHigh N (specHigh N m) = specHigh N m :=
  specHigh_merge_specHigh N hN m [] h wf_nil

end Content
end DDS
