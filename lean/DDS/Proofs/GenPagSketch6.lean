/-
  DDS.Proofs.GenPagSketch6 — continuation of `GenPagSketch5.lean` (same namespace): one more piece towards
  `GoodRun DecodeOK` for the bytes written by the regenerated `Encode` of a default sketch.

  `goodRun_zeroFlag`, `goodRun_zero`: `GoodRun` at an encoded zero-count block: the decoder loop takes the `FlagZeroCountVarFloat`
  branch, so `GoodRun` holds there as soon as it holds after whatever `DecodeVarfloat64` returns with a nil error
  (the zero count added to the sketch's).  With `goodRun_bins_pos/_neg`, `goodRun_mapping` and `goodRun_nil` this
  gives one step lemma for each kind of block the regenerated `Encode` writes (`sketchBlocks`).

  Core Lean only.
-/
import DDS.Proofs.GenPagSketch5

namespace DDS.GenPagSketch

open DDS DDS.GoSem DDS.PStore DDS.GenPag DDS.Gen.Paginated DDS.Gen.Encoding DDS.Codec DDS.GenEncoding
open DDS.Gen.Sketch DDS.RoundTrip

variable {grow : Int → Int → Int}

section goodRunStep3

variable {M : Type} [MapI M] [Inhabited M]

omit [Inhabited M] in
/-- `GoodRun` at the zero-count flag followed by any bytes `P` -/
theorem goodRun_zeroFlag (fb : List (BitVec 8) → Flag → Res (List (BitVec 8) × GoErr)) (fuel : Nat)
    (P : Bytes) (a : DDSketch M (GPS grow))
    (hnext : ∀ b2 z, DecodeVarfloat64 fuel (bn P) = .ok (b2, z, GoErr.nil) →
      GoodRun DecodeOK fb fuel b2 { a with zeroCount := F64.add a.zeroCount z }) :
    GoodRun DecodeOK fb (fuel + 1) (bn (Sketch.zeroFlag :: P)) a := by
  unfold GoodRun
  intro b1 flag hF
  have hb : bn (Sketch.zeroFlag :: P) = BitVec.ofNat 8 Sketch.zeroFlag :: bn P := List.map_cons
  rw [hb, GenSketch.DecodeFlag_cons] at hF
  obtain ⟨rfl, rfl⟩ : bn P = b1 ∧ (⟨BitVec.ofNat 8 Sketch.zeroFlag⟩ : Flag) = flag := by
    have := Res.ok.inj hF
    exact ⟨(Prod.mk.inj this).1, (Prod.mk.inj (Prod.mk.inj this).2).1⟩
  rw [zeroFlag_type_pos, if_neg (by decide), zeroFlag_type_neg, if_neg (by decide), zeroFlag_type_map,
    if_neg (by decide), if_pos zeroFlag_is_zero]
  exact hnext

omit [Inhabited M] in
/-- **`GoodRun` at an encoded zero-count block** -/
theorem goodRun_zero (fb : List (BitVec 8) → Flag → Res (List (BitVec 8) × GoErr)) (fuel : Nat)
    (x : Nat) (T : Bytes) (a : DDSketch M (GPS grow))
    (hnext : ∀ b2 z, DecodeVarfloat64 fuel (bn (encVarfloatBits x ++ T)) = .ok (b2, z, GoErr.nil) →
      GoodRun DecodeOK fb fuel b2 { a with zeroCount := F64.add a.zeroCount z }) :
    GoodRun DecodeOK fb (fuel + 1) (bn (Wire.encBlock (.zeroCount x) ++ T)) a := by
  rw [Sketch.encBlock_zeroCount, List.cons_append]
  exact goodRun_zeroFlag fb fuel (encVarfloatBits x ++ T) a hnext

end goodRunStep3

end DDS.GenPagSketch
