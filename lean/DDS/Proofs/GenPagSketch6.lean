/-
  DDS.Proofs.GenPagSketch6 — continuation of `GenPagSketch5.lean` (same namespace): one more piece towards
  `GoodRun DecodeOK` for the bytes written by the regenerated `Encode` of a default sketch.

  `goodRun_zeroFlag`, `goodRun_zero`: `GoodRun` at an encoded zero-count block: the decoder loop takes the `FlagZeroCountVarFloat`
  branch, so `GoodRun` holds there as soon as it holds after whatever `DecodeVarfloat64` returns with a nil error
  (the zero count added to the sketch's).  With `goodRun_bins_pos/_neg`, `goodRun_mapping` and `goodRun_nil` this
  gives one step lemma for each kind of block the regenerated `Encode` writes (`sketchBlocks`).

  `cntOf`, `decVarfloat64_of_bits`, `decVarfloat64_enc`, `ccCounts_step`, `ccCounts_enc`: the model's count trace
  `ccCounts` on the bytes of an encoded count list is the list of decoded counts.  Each step is stated over abstract
  bytes first (`decVarfloat64_of_bits`, `ccCounts_step`) and instantiated last, which keeps the kernel from unfolding
  the codec on an open term (the direct statement ran into its recursion limit).

  `decodeOK_contiguous`: `DecodeOK` for an encoded contiguous-counts payload (the second layout the paginated encoder
  writes; `decodeOK_deltas` is the first), given int32 indexes and `NonnegFin (cntOf b)` for each pattern written.

  `cntOf_eq_vfValue`, `nonnegFin_cntOf_vfBits`: the pattern `Sketch.vfBits w` written for a weight with `WOK w`, `0 ≤ w`
  meets the count hypothesis of `decodeOK_contiguous`.

  Core Lean only.
-/
import DDS.Proofs.GenPagSketch5

namespace DDS.GenPagSketch

open DDS DDS.GoSem DDS.PStore DDS.GenPag DDS.Gen.Paginated DDS.Gen.Encoding DDS.Codec DDS.GenEncoding
open DDS.Gen.Sketch DDS.RoundTrip
open DDS.GenStoreDecode (dTrace storeIndexes NoWrap subflag)

variable {grow : Int → Int → Int}

section goodRunStep3

variable {M : Type} [MapI M] [Inhabited M]

omit [Inhabited M] in
/-- `GoodRun` at the zero-count flag followed by any bytes `P` -/
theorem goodRun_zeroFlag (fb : List (BitVec 8) → Flag → Res (List (BitVec 8) × GoErr)) (fuel : Nat)
    (P : Bytes) (a : DDSketch M (GPS grow))
    (hnext : ∀ b2 z, DecodeVarfloat64 fuel (bn P) = .ok (b2, z, GoErr.nil) →
      GoodRun DecodeOK fb fuel b2 { a with zeroCount := F64.add a.zeroCount z }) :
    GoodRun DecodeOK fb (fuel + 1) (bn (Sketch.zeroFlag :: P)) a := by
  unfold GoodRun
  intro b1 flag hF
  have hb : bn (Sketch.zeroFlag :: P) = BitVec.ofNat 8 Sketch.zeroFlag :: bn P := List.map_cons
  rw [hb, GenSketch.DecodeFlag_cons] at hF
  obtain ⟨rfl, rfl⟩ : bn P = b1 ∧ (⟨BitVec.ofNat 8 Sketch.zeroFlag⟩ : Flag) = flag := by
    have := Res.ok.inj hF
    exact ⟨(Prod.mk.inj this).1, (Prod.mk.inj (Prod.mk.inj this).2).1⟩
  rw [zeroFlag_type_pos, if_neg (by decide), zeroFlag_type_neg, if_neg (by decide), zeroFlag_type_map,
    if_neg (by decide), if_pos zeroFlag_is_zero]
  exact hnext

omit [Inhabited M] in
/-- **`GoodRun` at an encoded zero-count block** -/
theorem goodRun_zero (fb : List (BitVec 8) → Flag → Res (List (BitVec 8) × GoErr)) (fuel : Nat)
    (x : Nat) (T : Bytes) (a : DDSketch M (GPS grow))
    (hnext : ∀ b2 z, DecodeVarfloat64 fuel (bn (encVarfloatBits x ++ T)) = .ok (b2, z, GoErr.nil) →
      GoodRun DecodeOK fb fuel b2 { a with zeroCount := F64.add a.zeroCount z }) :
    GoodRun DecodeOK fb (fuel + 1) (bn (Wire.encBlock (.zeroCount x) ++ T)) a := by
  rw [Sketch.encBlock_zeroCount, List.cons_append]
  exact goodRun_zeroFlag fb fuel (encVarfloatBits x ++ T) a hnext

end goodRunStep3

/-! ### the counts of an encoded contiguous block -/

/-- the count a varfloat bit pattern `b` decodes to (`float64frombits(b) - 1`) -/
def cntOf (b : Nat) : F64 := F64.sub (F64.ofBits (UInt64.ofNat b)) F64.one

theorem decVarfloat64_of_bits (bs : Bytes) (b : Nat) (R : Bytes) (h : decVarfloatBits bs = .ok (b, R)) :
    decVarfloat64 bs = .ok (cntOf b, R) := by
  unfold decVarfloat64
  rw [h]
  rfl

theorem decVarfloat64_enc (b : Nat) (hb : b < W64) (R : Bytes) :
    decVarfloat64 (encVarfloatBits b ++ R) = .ok (cntOf b, R) :=
  decVarfloat64_of_bits _ b R (decVarfloatBits_encVarfloatBits b hb R)

theorem ccCounts_step (n : Nat) (bs : Bytes) (c : F64) (R : Bytes) (h : decVarfloat64 bs = .ok (c, R)) :
    ccCounts (n + 1) bs = c :: ccCounts n R := by
  simp only [ccCounts, h]

/-- **the model's count trace on an encoded count list**: one count per pattern, in order -/
theorem ccCounts_enc (R : Bytes) : ∀ (bs : List Nat), (∀ b ∈ bs, b < W64) →
    ccCounts bs.length (bs.flatMap encVarfloatBits ++ R) = bs.map cntOf := by
  intro bs
  induction bs with
  | nil => intro _; rfl
  | cons b bs ih =>
    intro h
    have e : (b :: bs).flatMap encVarfloatBits ++ R =
        encVarfloatBits b ++ (bs.flatMap encVarfloatBits ++ R) := by
      simp only [List.flatMap_cons, List.append_assoc]
    rw [e, List.length_cons,
      ccCounts_step _ _ _ _ (decVarfloat64_enc b (h b (List.mem_cons_self ..)) _),
      ih (fun x hx => h x (List.mem_cons_of_mem _ hx)), List.map_cons]
/-- **`DecodeOK` for an encoded contiguous-counts payload**: patterns `counts` (64-bit, each decoding to a finite
    non-negative count), int32 indexes `start + j·stride` — any store -/
theorem decodeOK_contiguous (x : GPS grow) (start stride : Int) (counts : List Nat)
    (hs : I64 start) (ht : I64 stride) (hlen : counts.length < W64) (hW : ∀ b ∈ counts, b < W64)
    (hidx : ∀ j : Nat, j < counts.length → Idx32 (start + (j : Int) * stride))
    (hc : ∀ b ∈ counts, NonnegFin (cntOf b)) (R : Bytes) (hR : ∀ y ∈ R, y < 256) :
    DecodeOK x (bn (Wire.encPayload (.contiguous start stride counts) ++ R))
      (subflag (Wire.payloadSub (.contiguous start stride counts))) := by
  have hbytes : nb (bn (Wire.encPayload (.contiguous start stride counts) ++ R)) =
      Wire.encPayload (.contiguous start stride counts) ++ R :=
    nb_bn _ (fun y hy => (List.mem_append.1 hy).elim (Wire.encPayload_bytes _ y) (hR y))
  have e : Wire.encPayload (.contiguous start stride counts) ++ R =
      encUvarint64 counts.length ++ (encVarint64 start ++ (encVarint64 stride ++
        (counts.flatMap encVarfloatBits ++ R))) := by
    show (encUvarint64 counts.length ++ encVarint64 start ++ encVarint64 stride ++
      counts.flatMap encVarfloatBits) ++ R = _
    simp only [List.append_assoc]
  right; left
  refine ⟨subflag_cc, ?_⟩
  intro v r0 st r1 sd r2 h0 h1 h2
  rw [hbytes, e, decUvarint64_encUvarint64 _ hlen] at h0
  obtain ⟨rfl, rfl⟩ := Prod.mk.inj (Except.ok.inj h0)
  rw [decVarint64_encVarint64 _ hs.1 hs.2] at h1
  obtain ⟨rfl, rfl⟩ := Prod.mk.inj (Except.ok.inj h1)
  rw [decVarint64_encVarint64 _ ht.1 ht.2] at h2
  obtain ⟨rfl, rfl⟩ := Prod.mk.inj (Except.ok.inj h2)
  refine ⟨?_, hidx, ?_⟩
  · have h1 := length_le_flatMap_enc counts
    have h2 : (bn (Wire.encPayload (.contiguous start stride counts) ++ R)).length =
        (Wire.encPayload (.contiguous start stride counts) ++ R).length := List.length_map _
    rw [h2, e]
    simp only [List.length_append]
    omega
  · intro c hc'
    rw [ccCounts_enc R counts hW] at hc'
    obtain ⟨b, hb, rfl⟩ := List.mem_map.1 hc'
    exact hc b hb
/-- `cntOf` is the hand model's `Wire.vfValue` -/
theorem cntOf_eq_vfValue (b : Nat) : cntOf b = Wire.vfValue b := rfl

/-- the pattern the encoder writes for a weight `w` with `WOK w`, `0 ≤ w`, decodes to a finite non-negative count -/
theorem nonnegFin_cntOf_vfBits (w : Rat) (h : WOK w) (h0 : 0 ≤ w) : NonnegFin (cntOf (Sketch.vfBits w)) :=
  ⟨w, by rw [cntOf_eq_vfValue]; exact RoundTrip.vfValue_vfBits w h, h0⟩
end DDS.GenPagSketch
