/-
  DDS.Proofs.GenSketch5 — the REGENERATED sketch DECODER (`DDSketch.decodeAndMergeWith` with its loop
  `decodeAndMergeWith.loop1`, the lifted function literal `DDSketch.DecodeAndMergeWith.lit1` and the plain
  `DDSketch.DecodeAndMergeWith` of `DDS/Generated/CodeSketch.lean`, translated from
  `/repo/ddsketch/ddsketch.go:418-470` on every run) against the hand-written model
  `Sketch.decodeLoop` / `Sketch.fallback` / `Sketch.decodeAndMergeWith` (`DDS/Model/Sketch.lean`).

  How the two are tied together
  * the stores are the model's (`StoreI Store`, `DDS/Proofs/GenSketch.lean`): `DecodeAndMergeWith := storeDecode`
    goes through the model's `Sketch.decodeStore` (that the REGENERATED generic bin decoder equals
    `decodeStore` is `DDS/Proofs/GenStoreDecode.lean`, independent of this instance).  The sketch decoder hands
    the store `flag.SubFlag()`, whose bits stay IN PLACE (`flag & 0xFC`): `storeDecode` reads the sub-flag
    number as `Wire.flagSub` of that byte (`flagSub_SubFlag`).
  * the mapping type `M` is ANY type with a `MapI` instance that meets `MapLaw idOf` for a reading
    `idOf : M → Option MapId` of its identity: `isNil m ↔ idOf m = none`, `Equals` is `MapId.equals` on the
    identities, `Decode` reads the same bytes and returns the same error as the instance's `mapDecode`
    (`DDS/Proofs/GenSketch.lean`, through `Codec.decF64LE` and `MapId.ofBlock`) and, on success, an object
    with the decoded identity.  Two instances: `M := MapEnv` (`mapEnv_law`; the receiver always holds a
    mapping object, `isNil` is `false`) and `M := Option MapEnv` (`optMapEnv_law`, instance in this file,
    `isNil := Option.isNone`; the receiver of `DecodeDDSketch(b, provider, nil)` — "missing index mapping").
  * `ofGenI idOf g` is the model sketch a generated structure stands for (`ofGen` for `MapEnv`, `ofGenO` for
    `Option MapEnv`); `decErr e` (`DDS/Proofs/GenSketch.lean`) is the Go error VALUE of each refusal of the
    model: `.eof ↦ io.EOF`, `.unknownFlag ↦ errUnknownFlag`, `.mismatch ↦ "index mapping mismatch"`,
    `.unknownMapping ↦ "unknown mapping"`, `.badGamma ↦ "Gamma must be greater than 1."`,
    `.unknownBinEncoding ↦ "unknown bin encoding"`, `.missingMapping ↦ "missing index mapping"`; never nil
    (`decErr_ne_nil`).

  Theorems
  1. `lit1_rel` (`9 ≤ fuel`): the lifted fallback literal meets `FbSpec`, i.e. against
     `Sketch.fallback { stats := none }` for EVERY flag byte and input: a refusal `e` of the model is
     `.ok (b, decErr e)` with the input untouched; a success is a nil error and a slice whose bytes are exactly
     the model's remaining bytes; the auxiliary state keeps carrying no statistics.  (`fallback_plain`: the
     model's fallback by flag byte.)
  2. `loop1_rel` (any `fallbackDecode` that meets `FbSpec`; model fuel `≥ len b`, generated fuel `≥ len b + 9`):
     `LoopRel` — block by block the generated loop does what `Sketch.decodeLoop` does.
  3. `decodeAndMergeWith_rel_gen`, `DecodeAndMergeWith_rel_gen` (fuel `≥ len b + 9`): `DecRel` —
       model `some (.ok s')`    ⇒ generated `.ok (g', nil)` with `ofGenI idOf g' = s'`;
       model `some (.error e)`  ⇒ generated `.ok (g', decErr e)` (returns normally: neither `.panic` nor
                                  `.nofuel`; error not nil, of the same class — in fact the same VALUE);
       model `none` (a store operation of the model panics) ⇒ nothing claimed.
     On a refusal nothing is claimed about the returned structure `g'` (in Go the receiver keeps what was merged
     before the error; the model does not expose that state).
  4. `DecodeAndMergeWith_rel` / `_ok` / `_error` for `M := MapEnv` on `toGen env s` (`s.mapping = some env.id`),
     through `ofGen`; `DecodeAndMergeWith_relO`, `DecodeAndMergeWith_missing` for `M := Option MapEnv` on
     `toGenO m s` (`s.mapping = m.map (·.id)`), through `ofGenO`.
  5. `DecodeAndMergeWith_unknown_flag`: on the generated code alone, ANY instances: an undefined feature flag
     byte at the head of the input gives `errUnknownFlag` and the receiver untouched.

  Fuel: every iteration consumes one unit and at least the flag byte; the varfloat64 decoders inside need 9
  (`GenStoreDecode.DecodeVarfloat64_eq`); the literal is handed the caller's whole fuel.  `len b + 9` suffices.

  DISAGREEMENTS between the generated decoder and the model: NONE found — same dispatch order (store types,
  mapping, zero count, fallback), same error precedence in the mapping block (unknown sub-flag before the
  payload is read; `io.EOF` for a short payload; then the constructor's errors; then the mismatch test), same
  bytes consumed by every block, same state on success, "missing index mapping" exactly when no mapping is
  held after the loop.  One defect of the hand-written GLUE was found and repaired while proving this: the
  instance's `storeDecode` passed `sub.byte.toNat` (the in-place sub-flag, a multiple of 4) to
  `Sketch.decodeStore`, which expects the sub-flag NUMBER — every store block would have been
  "unknown bin encoding"; it now passes `Wire.flagSub sub.byte.toNat`.

  Core Lean only.
-/
import DDS.Proofs.GenSketch4
import DDS.Proofs.GenStoreDecode

set_option linter.unusedVariables false
set_option linter.unusedSectionVars false

namespace DDS.GenSketch

open DDS DDS.GoSem DDS.Gen.Sketch DDS.Gen.Encoding DDS.GenEncoding DDS.Codec

/-! ### bytes: what a suffix of the model's input is on the Go side -/

theorem nb_bn_suffix {b : List (BitVec 8)} {r : Bytes} (h : r <:+ nb b) : nb (bn r) = r :=
  nb_bn r (fun x hx => nb_lt b x (h.subset hx))

theorem bn_suffix_length {b : List (BitVec 8)} {r : Bytes} (h : r <:+ nb b) : (bn r).length ≤ b.length := by
  rw [bn_length, ← nb_length b]; exact h.length_le

theorem bn_drop (b : List (BitVec 8)) (k : Nat) : bn ((nb b).drop k) = b.drop k := by
  rw [← nb_drop, bn_nb]

/-! ### the store decoder of the model returns a suffix of its input (any store kind) -/

theorem decItems_suffix (item : Store → Int → Bytes → Option (Except SkErr (Store × Int × Bytes)))
    (hitem : ∀ st idx bs st' idx' bs', item st idx bs = some (.ok (st', idx', bs')) → bs' <:+ bs) :
    ∀ (n : Nat) (st : Store) (idx : Int) (bs : Bytes) (st' : Store) (bs' : Bytes),
      Sketch.decItems item n st idx bs = some (.ok (st', bs')) → bs' <:+ bs := by
  intro n
  induction n with
  | zero =>
    intro st idx bs st' bs' h
    simp only [Sketch.decItems, Option.some.injEq, Except.ok.injEq, Prod.mk.injEq] at h
    rw [← h.2]
  | succ n ih =>
    intro st idx bs st' bs' h
    simp only [Sketch.decItems] at h
    cases hi : item st idx bs with
    | none => simp [hi] at h
    | some r =>
      cases r with
      | error e => rw [hi] at h; simp at h
      | ok r =>
        obtain ⟨st1, idx1, bs1⟩ := r
        rw [hi] at h
        exact (ih st1 idx1 bs1 st' bs' h).trans (hitem _ _ _ _ _ _ hi)

theorem dcItem_suffix (st : Store) (idx : Int) (bs : Bytes) (st' : Store) (idx' : Int) (bs' : Bytes)
    (h : Sketch.dcItem st idx bs = some (.ok (st', idx', bs'))) : bs' <:+ bs := by
  unfold Sketch.dcItem at h
  cases h1 : Sketch.liftDec (decVarint64 bs) with
  | error e => rw [h1] at h; simp at h
  | ok r1 =>
    obtain ⟨d, bs1⟩ := r1
    rw [h1] at h
    simp only at h
    cases h2 : Sketch.liftDec (decVarfloat64 bs1) with
    | error e => rw [h2] at h; simp at h
    | ok r2 =>
      obtain ⟨c, bs2⟩ := r2
      rw [h2] at h
      simp only [Option.map_eq_some_iff, Except.ok.injEq, Prod.mk.injEq] at h
      obtain ⟨_, _, _, _, rfl⟩ := h
      exact (Sketch.varfloat_suffix _ _ _ (Sketch.liftDec_ok_inv _ _ h2)).trans
        (Sketch.varint_suffix _ _ _ (Sketch.liftDec_ok_inv _ _ h1))

theorem dItem_suffix (st : Store) (idx : Int) (bs : Bytes) (st' : Store) (idx' : Int) (bs' : Bytes)
    (h : Sketch.dItem st idx bs = some (.ok (st', idx', bs'))) : bs' <:+ bs := by
  unfold Sketch.dItem at h
  cases h1 : Sketch.liftDec (decVarint64 bs) with
  | error e => rw [h1] at h; simp at h
  | ok r1 =>
    obtain ⟨d, bs1⟩ := r1
    rw [h1] at h
    simp only [Option.map_eq_some_iff, Except.ok.injEq, Prod.mk.injEq] at h
    obtain ⟨_, _, _, _, rfl⟩ := h
    exact Sketch.varint_suffix _ _ _ (Sketch.liftDec_ok_inv _ _ h1)

theorem ccItem_suffix (stride : Int) (st : Store) (idx : Int) (bs : Bytes) (st' : Store) (idx' : Int)
    (bs' : Bytes) (h : Sketch.ccItem stride st idx bs = some (.ok (st', idx', bs'))) : bs' <:+ bs := by
  unfold Sketch.ccItem at h
  cases h1 : Sketch.liftDec (decVarfloat64 bs) with
  | error e => rw [h1] at h; simp at h
  | ok r1 =>
    obtain ⟨c, bs1⟩ := r1
    rw [h1] at h
    simp only [Option.map_eq_some_iff, Except.ok.injEq, Prod.mk.injEq] at h
    obtain ⟨_, _, _, _, rfl⟩ := h
    exact Sketch.varfloat_suffix _ _ _ (Sketch.liftDec_ok_inv _ _ h1)

/-- **the model's store decoder consumes a prefix**: what it hands back is a suffix of its input -/
theorem decodeStore_suffix (st : Store) (sub : Nat) (bs : Bytes) (st' : Store) (rest : Bytes)
    (h : Sketch.decodeStore st sub bs = some (.ok (st', rest))) : rest <:+ bs := by
  rw [Sketch.decodeStore_eq] at h
  split at h
  · cases h1 : Sketch.liftDec (decUvarint64 bs) with
    | error e => rw [h1] at h; simp at h
    | ok r1 =>
      obtain ⟨n, bs1⟩ := r1
      rw [h1] at h
      exact (decItems_suffix _ dcItem_suffix _ _ _ _ _ _ h).trans
        (Sketch.uvarint_suffix _ _ _ (Sketch.liftDec_ok_inv _ _ h1))
  split at h
  · cases h1 : Sketch.liftDec (decUvarint64 bs) with
    | error e => rw [h1] at h; simp at h
    | ok r1 =>
      obtain ⟨n, bs1⟩ := r1
      rw [h1] at h
      exact (decItems_suffix _ dItem_suffix _ _ _ _ _ _ h).trans
        (Sketch.uvarint_suffix _ _ _ (Sketch.liftDec_ok_inv _ _ h1))
  split at h
  · cases h1 : Sketch.liftDec (decUvarint64 bs) with
    | error e => rw [h1] at h; simp at h
    | ok r1 =>
      obtain ⟨n, bs1⟩ := r1
      rw [h1] at h
      simp only at h
      cases h2 : Sketch.liftDec (decVarint64 bs1) with
      | error e => rw [h2] at h; simp at h
      | ok r2 =>
        obtain ⟨start, bs2⟩ := r2
        rw [h2] at h
        simp only at h
        cases h3 : Sketch.liftDec (decVarint64 bs2) with
        | error e => rw [h3] at h; simp at h
        | ok r3 =>
          obtain ⟨stride, bs3⟩ := r3
          rw [h3] at h
          exact ((decItems_suffix _ (ccItem_suffix stride) _ _ _ _ _ _ h).trans
            (Sketch.varint_suffix _ _ _ (Sketch.liftDec_ok_inv _ _ h3))).trans
            ((Sketch.varint_suffix _ _ _ (Sketch.liftDec_ok_inv _ _ h2)).trans
              (Sketch.uvarint_suffix _ _ _ (Sketch.liftDec_ok_inv _ _ h1)))
  · simp at h

/-! ### Go error values of the decoding errors -/

theorem decErr_ne_nil (e : SkErr) : (decErr e != GoErr.nil) = true := by
  cases e <;> decide

theorem decErr_ne_nil' (e : SkErr) : decErr e ≠ GoErr.nil := by
  cases e <;> decide

theorem liftDec_error {α} (x : Except DecErr α) (e : SkErr) (h : Sketch.liftDec x = .error e) :
    e = .eof := by
  cases x with
  | ok a => simp [Sketch.liftDec] at h
  | error d => simp only [Sketch.liftDec, Except.error.injEq] at h; exact h.symm

/-! ### flags -/

theorem type_beq (f : Flag) (t : FlagType) :
    (f.Type == t) = decide (Wire.flagType f.byte.toNat = t.byte.toNat) := by
  rw [Bool.eq_iff_iff, beq_iff_eq, decide_eq_true_eq]; exact Flag_Type_eq f t

theorem flag_beq (f g : Flag) : (f == g) = decide (f.byte.toNat = g.byte.toNat) := by
  rw [Bool.eq_iff_iff, beq_iff_eq, decide_eq_true_eq]
  constructor
  · intro h; rw [h]
  · intro h
    cases f; cases g
    simp only at h
    rw [BitVec.eq_of_toNat_eq h]

theorem flagSub_SubFlag (f : Flag) : Wire.flagSub f.SubFlag.byte.toNat = Wire.flagSub f.byte.toNat := by
  rw [Flag_SubFlag f]
  unfold Wire.flagSub
  rw [Nat.mul_div_cancel _ (by decide)]

/-! ### 1. the lifted fallback literal of the plain decoder -/

/-- what the plain decoder's `fallbackDecode` has to do, against the model's `Sketch.fallback` with no
    statistics in the auxiliary state: a refusal of the model is the Go error `decErr e`, THE INPUT UNTOUCHED;
    a success is a nil error and a slice whose bytes are exactly the model's remaining bytes (the same number
    of bytes consumed); the auxiliary state still carries no statistics -/
def FbSpec (fb : List (BitVec 8) → Flag → Res (List (BitVec 8) × GoErr)) : Prop :=
  ∀ (b : List (BitVec 8)) (flag : Flag),
    match Sketch.fallback { stats := none } flag.byte.toNat (nb b) with
    | .error e => fb b flag = .ok (b, decErr e)
    | .ok (aux', rest) => aux' = { stats := none } ∧
        ∃ b', fb b flag = .ok (b', GoErr.nil) ∧ nb b' = rest ∧ b'.length ≤ b.length

theorem flag_split (f : Nat) : f = Wire.flagType f + Wire.flagSub f * 4 ∧ Wire.flagType f < 4 := by
  unfold Wire.flagType Wire.flagSub
  rw [show Consts.numBitsForType = 2 from rfl]
  omega

/-- the model's fallback without statistics, by flag byte: `0xA0` (count) skips a varfloat64, `0x84/0x88/0x8C`
    (sum / min / max) skip 8 bytes, every other byte is an unknown flag -/
theorem fallback_plain (f : Nat) (bs : Bytes) :
    Sketch.fallback { stats := none } f bs =
      if f = 160 then
        (match Sketch.liftDec (decVarfloat64 bs) with
         | .error e => .error e
         | .ok (_, r) => .ok ({ stats := none }, r))
      else if f = 132 ∨ f = 136 ∨ f = 140 then
        (match Sketch.liftDec (decF64LE bs) with
         | .error e => .error e
         | .ok (_, r) => .ok ({ stats := none }, r))
      else .error .unknownFlag := by
  by_cases h160 : f = 160
  · subst h160
    rw [if_pos rfl]
    exact Sketch.fallback_count _ bs
  by_cases h132 : f = 132
  · subst h132
    rw [if_neg (by decide), if_pos (by decide)]
    exact Sketch.fallback_sum _ bs
  by_cases h136 : f = 136
  · subst h136
    rw [if_neg (by decide), if_pos (by decide)]
    exact Sketch.fallback_min _ bs
  by_cases h140 : f = 140
  · subst h140
    rw [if_neg (by decide), if_pos (by decide)]
    exact Sketch.fallback_max _ bs
  rw [if_neg h160, if_neg (by omega)]
  obtain ⟨hf, ht⟩ := flag_split f
  unfold Sketch.fallback
  simp only [show Consts.flagTypeSketchFeatures = 0 from rfl, show Consts.subFlagCount = 40 from rfl,
    show Consts.subFlagSum = 33 from rfl, show Consts.subFlagMin = 34 from rfl,
    show Consts.subFlagMax = 35 from rfl]
  by_cases h0 : Wire.flagType f = 0
  · rw [if_neg (by omega), if_neg (by omega), if_neg (by omega), if_neg (by omega)]
  · rw [if_pos h0]

theorem FlagCount_nat : FlagCount.byte.toNat = 160 := by decide
theorem FlagSum_nat : FlagSum.byte.toNat = 132 := by decide
theorem FlagMin_nat : FlagMin.byte.toNat = 136 := by decide
theorem FlagMax_nat : FlagMax.byte.toNat = 140 := by decide

theorem len_lt_8 (b : List (BitVec 8)) : decide (GoSem.len b < (8 : Int)) = decide (b.length < 8) := by
  unfold GoSem.len
  rw [Bool.eq_iff_iff, decide_eq_true_eq, decide_eq_true_eq]
  omega

/-- **`lit1_rel`**: the lifted function literal of `DDSketch.DecodeAndMergeWith` (ddsketch.go:419) is the
    model's `Sketch.fallback` without statistics, for every flag and every input, fuel `≥ 9` (the varfloat64
    loop of the skipped count). -/
theorem lit1_rel {M S : Type} [MapI M] [StoreI S] [Inhabited M] [Inhabited S] (fuel : Nat) (hf : 9 ≤ fuel) :
    FbSpec (DDSketch.DecodeAndMergeWith.lit1 (M := M) (S := S) fuel) := by
  intro b flag
  rw [fallback_plain]
  unfold DDSketch.DecodeAndMergeWith.lit1
  simp only [flag_beq, FlagCount_nat, FlagSum_nat, FlagMin_nat, FlagMax_nat]
  by_cases h160 : flag.byte.toNat = 160
  · simp only [h160, if_true, decide_true]
    cases hd : decVarfloat64 (nb b) with
    | error e =>
      rw [GenStoreDecode.F_err fuel hf b e hd]
      simp only [Sketch.liftDec, Res.bind_ok]
      rfl
    | ok p =>
      obtain ⟨c, rest⟩ := p
      obtain ⟨b', h1, h2, h3⟩ := GenStoreDecode.F_ok fuel hf b c rest hd
      rw [h1]
      simp only [Sketch.liftDec, Res.bind_ok]
      exact ⟨trivial, b', rfl, h2, by omega⟩
  · simp only [h160, if_false, decide_false, Bool.false_eq_true]
    by_cases hs : flag.byte.toNat = 132 ∨ flag.byte.toNat = 136 ∨ flag.byte.toNat = 140
    · have hs' : (decide (flag.byte.toNat = 132) || decide (flag.byte.toNat = 136)
          || decide (flag.byte.toNat = 140)) = true := by
        rw [Bool.or_eq_true, Bool.or_eq_true, decide_eq_true_eq, decide_eq_true_eq, decide_eq_true_eq]
        omega
      simp only [hs, hs', if_true, len_lt_8]
      unfold decF64LE
      rw [nb_length]
      by_cases hl : b.length < 8
      · simp only [hl, if_true, decide_true, Sketch.liftDec]
        rfl
      · simp only [hl, if_false, decide_false, Bool.false_eq_true, Sketch.liftDec]
        rw [show (8 : Int) = ((8 : Nat) : Int) from rfl, sliceFrom_nat b 8 (by omega), optR_some]
        exact ⟨trivial, b.drop 8, rfl, nb_drop b 8, by simp⟩
    · have hs' : (decide (flag.byte.toNat = 132) || decide (flag.byte.toNat = 136)
          || decide (flag.byte.toNat = 140)) = false := by
        rw [Bool.or_eq_false_iff, Bool.or_eq_false_iff, decide_eq_false_iff_not, decide_eq_false_iff_not,
          decide_eq_false_iff_not]
        omega
      simp only [hs, hs', if_false, Bool.false_eq_true]
      rfl

/-! ### 2. the decoder loop -/

theorem DecodeFlag_cons (fuel : Nat) (x : BitVec 8) (tl : List (BitVec 8)) :
    DecodeFlag fuel (x :: tl) = .ok (tl, ⟨x⟩, GoErr.nil) := by
  rw [DecodeFlag_eq]

theorem store_decode (st : Store) (b : List (BitVec 8)) (sub : SubFlag) :
    StoreI.DecodeAndMergeWith st b sub = storeDecode st b sub := rfl

theorem storeDecode_ok (st st' : Store) (b : List (BitVec 8)) (f : Flag) (rest : Bytes)
    (h : Sketch.decodeStore st (Wire.flagSub f.byte.toNat) (nb b) = some (.ok (st', rest))) :
    StoreI.DecodeAndMergeWith st b f.SubFlag = (st', bn rest, GoErr.nil) := by
  rw [store_decode]
  unfold storeDecode
  rw [flagSub_SubFlag]
  show (match Sketch.decodeStore st (Wire.flagSub f.byte.toNat) (nb b) with
    | some (.ok (st', rest)) => (st', bn rest, GoErr.nil)
    | some (.error e) => (st, b, decErr e)
    | none => (st, b, GoErr.nil)) = _
  rw [h]

theorem storeDecode_err (st : Store) (b : List (BitVec 8)) (f : Flag) (e : SkErr)
    (h : Sketch.decodeStore st (Wire.flagSub f.byte.toNat) (nb b) = some (.error e)) :
    StoreI.DecodeAndMergeWith st b f.SubFlag = (st, b, decErr e) := by
  rw [store_decode]
  unfold storeDecode
  rw [flagSub_SubFlag]
  show (match Sketch.decodeStore st (Wire.flagSub f.byte.toNat) (nb b) with
    | some (.ok (st', rest)) => (st', bn rest, GoErr.nil)
    | some (.error e) => (st, b, decErr e)
    | none => (st, b, GoErr.nil)) = _
  rw [h]

/-! #### `mapping.Decode` of the instance against the mapping branch of the model -/

theorem mapDecode_unknown (b : List (BitVec 8)) (flag : Flag)
    (hk : ¬ Sketch.KnownMapping (Wire.flagSub flag.byte.toNat)) :
    mapDecode b flag = (b, default, errUnknownMapping) := by
  unfold mapDecode
  unfold Sketch.KnownMapping at hk
  simp only []
  rw [if_pos hk]

theorem mapDecode_known (b : List (BitVec 8)) (flag : Flag)
    (hk : Sketch.KnownMapping (Wire.flagSub flag.byte.toNat)) :
    mapDecode b flag =
      match decF64LE (nb b) with
      | .error _ => (b, default, GoErr.eof)
      | .ok (g, bs1) =>
        match decF64LE bs1 with
        | .error _ => (bn bs1, default, GoErr.eof)
        | .ok (o, bs2) =>
          match MapId.ofBlock (Wire.flagSub flag.byte.toNat) g o with
          | .ok id => (bn bs2, { (default : MapEnv) with id := id }, GoErr.nil)
          | .error .unknownMapping => (bn bs2, default, errUnknownMapping)
          | .error .gammaTooSmall => (bn bs2, default, errBadGamma) := by
  unfold mapDecode
  unfold Sketch.KnownMapping at hk
  simp only []
  rw [if_neg (not_not.mpr hk)]
  rfl

section Loop
variable {M : Type} [MapI M] [Inhabited M]

/-- the model sketch a generated structure stands for, given how a mapping object of type `M` shows its
    identity (`none`: the nil interface value) -/
def ofGenI (idOf : M → Option MapId) (g : DDSketch M Store) : Sketch :=
  { mapping := idOf g.IndexMapping, pos := g.positiveValueStore, neg := g.negativeValueStore,
    zero := g.zeroCount }

/-- what the decoder needs from the mapping interface: `isNil` is "no identity", `Equals` compares identities
    with the model's `MapId.equals`, `Decode` is the instance's `mapDecode` (same bytes, same error) and on
    success hands back an object with the decoded identity -/
structure MapLaw (idOf : M → Option MapId) : Prop where
  isNil_eq : ∀ m : M, MapI.isNil m = (idOf m).isNone
  equals_eq : ∀ (m m' : M) (a b : MapId), idOf m = some a → idOf m' = some b →
    MapI.Equals m m' = a.equals b
  decode_eq : ∀ (b : List (BitVec 8)) (flag : Flag), ∃ m : M,
    MapI.Decode b flag = ((mapDecode b flag).1, m, (mapDecode b flag).2.2) ∧
    ((mapDecode b flag).2.2 = GoErr.nil → idOf m = some (mapDecode b flag).2.1.id)

/-- one iteration on a mapping block: either the model refuses with `e` and `mapping.Decode` returns
    `decErr e`, or both read the same 16 bytes and the decoded object has the model's decoded identity -/
theorem mapping_block_step {idOf : M → Option MapId} (law : MapLaw idOf) (tl : List (BitVec 8)) (flag : Flag)
    (n : Nat) (s : Sketch) (aux : Sketch.DecAux)
    (ht : Wire.flagType flag.byte.toNat = Consts.flagTypeIndexMapping) :
    (∃ e b' m, Sketch.decodeLoop (n + 1) s aux (flag.byte.toNat :: nb tl) = some (.error e) ∧
        MapI.Decode (M := M) tl flag = (b', m, decErr e)) ∨
    (∃ id bs2 m, bs2 <:+ nb tl ∧ bs2.length < (nb tl).length + 1 ∧
        MapI.Decode (M := M) tl flag = (bn bs2, m, GoErr.nil) ∧ idOf m = some id ∧
        Sketch.decodeLoop (n + 1) s aux (flag.byte.toNat :: nb tl) =
          (match s.mapping with
           | some cur => if cur.equals id then Sketch.decodeLoop n { s with mapping := some id } aux bs2
               else some (.error .mismatch)
           | none => Sketch.decodeLoop n { s with mapping := some id } aux bs2)) := by
  obtain ⟨m, hm, hid⟩ := law.decode_eq tl flag
  rw [Sketch.loop_map n s aux _ _ ht]
  by_cases hk : Sketch.KnownMapping (Wire.flagSub flag.byte.toNat)
  · rw [mapDecode_known tl flag hk] at hm hid
    cases hd1 : decF64LE (nb tl) with
    | error e1 =>
      rw [hd1] at hm hid
      refine Or.inl ⟨.eof, _, m, ?_, hm⟩
      simp only [Sketch.liftDec, hk, if_true]
    | ok p1 =>
      obtain ⟨gm, bs1⟩ := p1
      rw [hd1] at hm hid
      simp only [Sketch.liftDec, hk, not_true_eq_false, if_false] at hm hid ⊢
      cases hd2 : decF64LE bs1 with
      | error e2 =>
        rw [hd2] at hm hid
        exact Or.inl ⟨.eof, _, m, rfl, hm⟩
      | ok p2 =>
        obtain ⟨o, bs2⟩ := p2
        rw [hd2] at hm hid
        simp only at hm hid ⊢
        have hsuf : bs2 <:+ nb tl :=
          (Sketch.f64le_suffix _ _ _ hd2).trans (Sketch.f64le_suffix _ _ _ hd1)
        cases hob : MapId.ofBlock (Wire.flagSub flag.byte.toNat) gm o with
        | error me =>
          rw [hob] at hm hid
          cases me with
          | unknownMapping => exact Or.inl ⟨.unknownMapping, _, m, rfl, hm⟩
          | gammaTooSmall => exact Or.inl ⟨.badGamma, _, m, rfl, hm⟩
        | ok id =>
          rw [hob] at hm hid
          exact Or.inr ⟨id, bs2, m, hsuf, by have := hsuf.length_le; omega, hm, hid rfl, rfl⟩
  · rw [mapDecode_unknown tl flag hk] at hm hid
    refine Or.inl ⟨.unknownMapping, _, m, ?_, hm⟩
    cases Sketch.liftDec (decF64LE (nb tl)) with
    | error e => simp only [hk, if_false]
    | ok p => simp only [hk, not_false_eq_true, if_true]

/-- the loop of the model against the generated loop: `none` (a store operation of the model panics): nothing
    claimed; a refusal `e`: the generated loop RETURNS the Go error `decErr e`; success: the generated loop falls
    out with the whole input consumed and a structure that stands for the model's sketch -/
def LoopRel (idOf : M → Option MapId) :
    Option (Except SkErr (Sketch × Sketch.DecAux)) →
    Loop (List (BitVec 8) × DDSketch M Store) (DDSketch M Store × GoErr) → Prop
  | none, _ => True
  | some (.error e), r => ∃ g', r = .ret (g', decErr e)
  | some (.ok (s', _)), r => ∃ g', r = .done ([], g') ∧ ofGenI idOf g' = s'

theorem loop1_nil (fb : List (BitVec 8) → Flag → Res (List (BitVec 8) × GoErr)) (fuel : Nat)
    (g : DDSketch M Store) :
    DDSketch.decodeAndMergeWith.loop1 fb (fuel + 1) [] g = .done ([], g) := rfl

/-- **`loop1_rel`**: the generated decoder loop is the model's `Sketch.decodeLoop` (plain decoder: no
    statistics in the auxiliary state), block by block, for every input, model fuel `≥ len(b)`, generated fuel
    `≥ len(b) + 9` (one unit per block, each block consumes at least its flag byte; 9 for the varfloat64 loop). -/
theorem loop1_rel {idOf : M → Option MapId} (law : MapLaw idOf)
    (fb : List (BitVec 8) → Flag → Res (List (BitVec 8) × GoErr)) (hfb : FbSpec fb) :
    ∀ (n fuel : Nat) (b : List (BitVec 8)) (g : DDSketch M Store), b.length ≤ n → b.length + 9 ≤ fuel →
      LoopRel idOf (Sketch.decodeLoop n (ofGenI idOf g) { stats := none } (nb b))
        (DDSketch.decodeAndMergeWith.loop1 fb fuel b g) := by
  intro n
  induction n with
  | zero =>
    intro fuel b g hn hf
    have : b = [] := List.length_eq_zero_iff.mp (by omega)
    subst this
    obtain ⟨fuel, rfl⟩ : ∃ k, fuel = k + 1 := ⟨fuel - 1, by omega⟩
    rw [nb_nil, Sketch.decodeLoop_nil, loop1_nil]
    exact ⟨g, rfl, rfl⟩
  | succ n ih =>
    intro fuel b g hn hf
    obtain ⟨fuel, rfl⟩ : ∃ k, fuel = k + 1 := ⟨fuel - 1, by omega⟩
    cases b with
    | nil =>
      rw [nb_nil, Sketch.decodeLoop_nil, loop1_nil]
      exact ⟨g, rfl, rfl⟩
    | cons x tl =>
      simp only [List.length_cons] at hn hf
      have hf9 : 9 ≤ fuel := by omega
      have hlen : decide ((0 : Int) < GoSem.len (x :: tl)) = true := by
        rw [decide_eq_true_eq]; unfold GoSem.len; rw [List.length_cons]; omega
      rw [nb_cons]
      simp only [DDSketch.decodeAndMergeWith.loop1, hlen, if_true, DecodeFlag_cons, Res.bindL_ok,
        nil_bne_nil, Bool.false_eq_true, if_false, type_beq, flag_beq, FlagTypePositiveStore_byte,
        FlagTypeNegativeStore_byte, FlagTypeIndexMapping_byte, FlagZeroCountVarFloat_byte]
      by_cases h1 : Wire.flagType x.toNat = Consts.flagTypePositiveStore
      · -- positive store
        simp only [h1, decide_true, if_true]
        rw [Sketch.loop_pos n _ _ _ _ h1]
        cases hd : Sketch.decodeStore (ofGenI idOf g).pos (Wire.flagSub x.toNat) (nb tl) with
        | none => trivial
        | some r =>
          cases r with
          | error e =>
            rw [storeDecode_err g.positiveValueStore tl ⟨x⟩ e hd]
            simp only [decErr_ne_nil, if_true]
            exact ⟨_, rfl⟩
          | ok r =>
            obtain ⟨p, rest⟩ := r
            have hsuf := decodeStore_suffix _ _ _ _ _ hd
            rw [storeDecode_ok g.positiveValueStore p tl ⟨x⟩ rest hd]
            simp only [nil_bne_nil, Bool.false_eq_true, if_false]
            have hl := bn_suffix_length hsuf
            have := ih fuel (bn rest) { g with positiveValueStore := p } (by omega) (by omega)
            rw [nb_bn_suffix hsuf] at this
            exact this
      · simp only [h1, decide_false, Bool.false_eq_true, if_false]
        by_cases h2 : Wire.flagType x.toNat = Consts.flagTypeNegativeStore
        · -- negative store
          simp only [h2, decide_true, if_true]
          rw [Sketch.loop_neg n _ _ _ _ h2]
          cases hd : Sketch.decodeStore (ofGenI idOf g).neg (Wire.flagSub x.toNat) (nb tl) with
          | none => trivial
          | some r =>
            cases r with
            | error e =>
              rw [storeDecode_err g.negativeValueStore tl ⟨x⟩ e hd]
              simp only [decErr_ne_nil, if_true]
              exact ⟨_, rfl⟩
            | ok r =>
              obtain ⟨p, rest⟩ := r
              have hsuf := decodeStore_suffix _ _ _ _ _ hd
              rw [storeDecode_ok g.negativeValueStore p tl ⟨x⟩ rest hd]
              simp only [nil_bne_nil, Bool.false_eq_true, if_false]
              have hl := bn_suffix_length hsuf
              have := ih fuel (bn rest) { g with negativeValueStore := p } (by omega) (by omega)
              rw [nb_bn_suffix hsuf] at this
              exact this
        · simp only [h2, decide_false, Bool.false_eq_true, if_false]
          by_cases h3 : Wire.flagType x.toNat = Consts.flagTypeIndexMapping
          · -- index mapping
            simp only [h3, decide_true, if_true]
            rcases mapping_block_step law tl ⟨x⟩ n (ofGenI idOf g) { stats := none } h3 with
              ⟨e, b', m, hmod, hdec⟩ | ⟨id, bs2, m, hsuf, hlt, hdec, hid, hmod⟩
            · rw [hmod, hdec]
              simp only [decErr_ne_nil, if_true]
              exact ⟨_, rfl⟩
            · rw [hmod, hdec]
              simp only [nil_bne_nil, Bool.false_eq_true, if_false, law.isNil_eq]
              have hl := bn_suffix_length hsuf
              have e1 : ofGenI idOf { g with IndexMapping := m }
                  = { ofGenI idOf g with mapping := some id } := by
                unfold ofGenI; simp only [hid]
              have hrec := ih fuel (bn bs2) { g with IndexMapping := m } (by omega) (by omega)
              rw [nb_bn_suffix hsuf, e1] at hrec
              have hs : (ofGenI idOf g).mapping = idOf g.IndexMapping := rfl
              rw [hs]
              cases hcur : idOf g.IndexMapping with
              | none =>
                simp only [Option.isNone_none, Bool.not_true, Bool.false_and, Bool.false_eq_true, if_false]
                exact hrec
              | some cur =>
                rw [law.equals_eq g.IndexMapping m cur id hcur hid]
                simp only [Option.isNone_some, Bool.not_false, Bool.true_and]
                by_cases heq : cur.equals id = true
                · simp only [heq, Bool.not_true, Bool.false_eq_true, if_false, if_true]
                  exact hrec
                · simp only [heq, Bool.not_false, if_true]
                  exact ⟨_, rfl⟩
          · simp only [h3, decide_false, Bool.false_eq_true, if_false]
            have h0 : Wire.flagType x.toNat = Consts.flagTypeSketchFeatures := by
              have := (flag_split x.toNat).2
              revert h1 h2 h3
              simp only [show Consts.flagTypePositiveStore = 1 from rfl,
                show Consts.flagTypeNegativeStore = 3 from rfl, show Consts.flagTypeIndexMapping = 2 from rfl,
                show Consts.flagTypeSketchFeatures = 0 from rfl]
              omega
            by_cases h4 : x.toNat = Sketch.zeroFlag
            · -- zero count
              have h4' : x.toNat = Wire.mkFlag Consts.flagTypeSketchFeatures Consts.subFlagZeroCountVarFloat := h4
              simp only [h4', decide_true, if_true]
              rw [show Wire.mkFlag Consts.flagTypeSketchFeatures Consts.subFlagZeroCountVarFloat
                = Sketch.zeroFlag from rfl, Sketch.loop_zero]
              cases hd : decVarfloat64 (nb tl) with
              | error e =>
                rw [GenStoreDecode.F_err fuel hf9 tl e hd]
                simp only [Sketch.liftDec, Res.bindL_ok, GenStoreDecode.heof, if_true]
                exact ⟨_, rfl⟩
              | ok r =>
                obtain ⟨z, rest⟩ := r
                obtain ⟨b', hb1, hb2, hb3⟩ := GenStoreDecode.F_ok fuel hf9 tl z rest hd
                rw [hb1]
                simp only [Sketch.liftDec, Res.bindL_ok, nil_bne_nil, Bool.false_eq_true, if_false]
                have hrec := ih fuel b' { g with zeroCount := F64.add g.zeroCount z } (by omega) (by omega)
                rw [hb2] at hrec
                exact hrec
            · -- anything else: the fallback
              have h4' : ¬ x.toNat = Wire.mkFlag Consts.flagTypeSketchFeatures Consts.subFlagZeroCountVarFloat := h4
              simp only [h4', decide_false, Bool.false_eq_true, if_false]
              rw [Sketch.loop_fallback n _ _ _ _ h0 h4]
              have hspec := hfb tl ⟨x⟩
              cases hfm : Sketch.fallback { stats := none } x.toNat (nb tl) with
              | error e =>
                have hfm' : Sketch.fallback { stats := none } (⟨x⟩ : Flag).byte.toNat (nb tl) = .error e := hfm
                rw [hfm'] at hspec
                simp only at hspec
                rw [hspec]
                simp only [Res.bindL_ok, decErr_ne_nil, if_true]
                exact ⟨_, rfl⟩
              | ok r =>
                obtain ⟨aux', rest⟩ := r
                have hfm' : Sketch.fallback { stats := none } (⟨x⟩ : Flag).byte.toNat (nb tl)
                    = .ok (aux', rest) := hfm
                rw [hfm'] at hspec
                simp only at hspec
                obtain ⟨haux, b', hb1, hb2, hb3⟩ := hspec
                subst haux
                rw [hb1]
                simp only [Res.bindL_ok, nil_bne_nil, Bool.false_eq_true, if_false]
                have hrec := ih fuel b' g (by omega) (by omega)
                rw [hb2] at hrec
                exact hrec

/-! ### 3. the whole decoder -/

/-- model `Option (Except SkErr Sketch)` vs the generated decoder's `Res (sketch × error)`: `none` (a store
    operation of the model panics): nothing claimed; a refusal `e`: the generated decoder returns normally
    (neither `.panic` nor `.nofuel`) with the Go error `decErr e` (never nil, `decErr_ne_nil`); success: a nil
    error and a structure that stands for the model's result -/
def DecRel (idOf : M → Option MapId) :
    Option (Except SkErr Sketch) → Res (DDSketch M Store × GoErr) → Prop
  | none, _ => True
  | some (.error e), r => ∃ g', r = .ok (g', decErr e)
  | some (.ok s'), r => ∃ g', r = .ok (g', GoErr.nil) ∧ ofGenI idOf g' = s'

/-- `decodeAndMergeWith` (ddsketch.go:438) with any fallback that meets `FbSpec`, fuel `≥ len(b) + 9` -/
theorem decodeAndMergeWith_rel_gen {idOf : M → Option MapId} (law : MapLaw idOf)
    (fb : List (BitVec 8) → Flag → Res (List (BitVec 8) × GoErr)) (hfb : FbSpec fb)
    (fuel : Nat) (g : DDSketch M Store) (b : List (BitVec 8)) (hf : b.length + 9 ≤ fuel) :
    DecRel idOf ((ofGenI idOf g).decodeAndMergeWith (nb b)) (DDSketch.decodeAndMergeWith fuel g b fb) := by
  have h := loop1_rel law fb hfb ((nb b).length + 1) fuel b g (by rw [nb_length]; omega) hf
  unfold Sketch.decodeAndMergeWith DDSketch.decodeAndMergeWith
  cases hm : Sketch.decodeLoop ((nb b).length + 1) (ofGenI idOf g) { stats := none } (nb b) with
  | none => trivial
  | some r =>
    rw [hm] at h
    cases r with
    | error e =>
      obtain ⟨g', hg⟩ := h
      simp only [hg, Loop.elim_ret]
      exact ⟨g', rfl⟩
    | ok r =>
      obtain ⟨s', aux'⟩ := r
      obtain ⟨g', hg, hs⟩ := h
      simp only [hg, Loop.elim_done, law.isNil_eq]
      have hmap : s'.mapping = idOf g'.IndexMapping := by rw [← hs]; rfl
      rw [hmap]
      cases hi : (idOf g'.IndexMapping).isNone with
      | true => simp only [if_true]; exact ⟨g', rfl⟩
      | false => simp only [Bool.false_eq_true, if_false]; exact ⟨g', rfl, hs⟩

theorem bind_pair_id {α β} (x : Res (α × β)) : Res.bind x (fun (a, b) => .ok (a, b)) = x := by
  cases x with
  | ok p => cases p; rfl
  | panic => rfl
  | nofuel => rfl

/-- **the plain `DecodeAndMergeWith`** (ddsketch.go:418), any mapping type that meets `MapLaw` -/
theorem DecodeAndMergeWith_rel_gen {idOf : M → Option MapId} (law : MapLaw idOf)
    (fuel : Nat) (g : DDSketch M Store) (b : List (BitVec 8)) (hf : b.length + 9 ≤ fuel) :
    DecRel idOf ((ofGenI idOf g).decodeAndMergeWith (nb b)) (DDSketch.DecodeAndMergeWith fuel g b) := by
  unfold DDSketch.DecodeAndMergeWith
  rw [bind_pair_id]
  exact decodeAndMergeWith_rel_gen law _ (lit1_rel fuel (by omega)) fuel g b hf

theorem DecRel.ok {idOf : M → Option MapId} {m : Option (Except SkErr Sketch)}
    {r : Res (DDSketch M Store × GoErr)} {s' : Sketch} (h : DecRel idOf m r) (hm : m = some (.ok s')) :
    ∃ g', r = .ok (g', GoErr.nil) ∧ ofGenI idOf g' = s' := by subst hm; exact h

theorem DecRel.error {idOf : M → Option MapId} {m : Option (Except SkErr Sketch)}
    {r : Res (DDSketch M Store × GoErr)} {e : SkErr} (h : DecRel idOf m r) (hm : m = some (.error e)) :
    ∃ g', r = .ok (g', decErr e) ∧ decErr e ≠ GoErr.nil := by
  subst hm; obtain ⟨g', hg⟩ := h; exact ⟨g', hg, decErr_ne_nil' e⟩

end Loop

/-! ### 4. the receiver with a mapping object: `M := MapEnv` -/

theorem mapEnv_law : MapLaw (M := MapEnv) (fun e => some e.id) where
  isNil_eq _ := rfl
  equals_eq m m' a b ha hb := by cases ha; cases hb; rfl
  decode_eq b flag := ⟨(mapDecode b flag).2.1, rfl, fun _ => rfl⟩

theorem ofGenI_mapEnv (g : DDSketch MapEnv Store) : ofGenI (fun e => some e.id) g = ofGen g := rfl

/-- the relation of `DecodeAndMergeWith_rel`: `DecRel` read through `ofGen` -/
def DecRelE : Option (Except SkErr Sketch) → Res (DDSketch MapEnv Store × GoErr) → Prop
  | none, _ => True
  | some (.error e), r => ∃ g', r = .ok (g', decErr e)
  | some (.ok s'), r => ∃ g', r = .ok (g', GoErr.nil) ∧ ofGen g' = s'

/-- **`DecodeAndMergeWith_rel`**: the regenerated plain decoder on `toGen env s` (a receiver that holds the
    mapping object `env`, `s.mapping = some env.id`) against the model's `Sketch.decodeAndMergeWith`, every
    input, fuel `≥ len(b) + 9`. -/
theorem DecodeAndMergeWith_rel (env : MapEnv) (s : Sketch) (hm : s.mapping = some env.id)
    (fuel : Nat) (b : List (BitVec 8)) (hf : b.length + 9 ≤ fuel) :
    DecRelE (s.decodeAndMergeWith (nb b)) (DDSketch.DecodeAndMergeWith fuel (toGen env s) b) := by
  have h := DecodeAndMergeWith_rel_gen mapEnv_law fuel (toGen env s) b hf
  rw [ofGenI_mapEnv, ofGen_toGen env s hm] at h
  cases hd : s.decodeAndMergeWith (nb b) with
  | none => trivial
  | some r =>
    rw [hd] at h
    cases r with
    | error e => exact h
    | ok s' => exact h

/-- success: nil error, and the returned structure stands for the model's sketch (its mapping object is a
    `MapEnv` whose `id` is the decoded identity; `ofGen` reads only `.id`) -/
theorem DecodeAndMergeWith_ok (env : MapEnv) (s s' : Sketch) (hm : s.mapping = some env.id)
    (fuel : Nat) (b : List (BitVec 8)) (hf : b.length + 9 ≤ fuel)
    (h : s.decodeAndMergeWith (nb b) = some (.ok s')) :
    ∃ g', DDSketch.DecodeAndMergeWith fuel (toGen env s) b = .ok (g', GoErr.nil) ∧ ofGen g' = s' := by
  have := DecodeAndMergeWith_rel env s hm fuel b hf
  rw [h] at this; exact this

/-- refusal: the generated decoder returns normally with the non-nil Go error of the same class -/
theorem DecodeAndMergeWith_error (env : MapEnv) (s : Sketch) (e : SkErr) (hm : s.mapping = some env.id)
    (fuel : Nat) (b : List (BitVec 8)) (hf : b.length + 9 ≤ fuel)
    (h : s.decodeAndMergeWith (nb b) = some (.error e)) :
    ∃ g', DDSketch.DecodeAndMergeWith fuel (toGen env s) b = .ok (g', decErr e) ∧ decErr e ≠ GoErr.nil := by
  have := DecodeAndMergeWith_rel env s hm fuel b hf
  rw [h] at this
  obtain ⟨g', hg⟩ := this
  exact ⟨g', hg, decErr_ne_nil' e⟩

/-- with a mapping object in the receiver the model never reports a missing mapping -/
theorem decodeLoop_mapping_some (n : Nat) : ∀ (s : Sketch) (aux : Sketch.DecAux) (bs : Bytes) (s' : Sketch)
    (aux' : Sketch.DecAux), s.mapping.isSome = true →
    Sketch.decodeLoop n s aux bs = some (.ok (s', aux')) → s'.mapping.isSome = true := by
  induction n with
  | zero =>
    intro s aux bs s' aux' hs h
    cases bs with
    | nil =>
      rw [Sketch.decodeLoop_nil] at h
      simp only [Option.some.injEq, Except.ok.injEq, Prod.mk.injEq] at h
      rw [← h.1]; exact hs
    | cons f bs => simp [Sketch.decodeLoop] at h
  | succ n ih =>
    intro s aux bs s' aux' hs h
    cases bs with
    | nil =>
      rw [Sketch.decodeLoop_nil] at h
      simp only [Option.some.injEq, Except.ok.injEq, Prod.mk.injEq] at h
      rw [← h.1]; exact hs
    | cons f bs =>
      by_cases h1 : Wire.flagType f = Consts.flagTypePositiveStore
      · rw [Sketch.loop_pos n _ _ _ _ h1] at h
        split at h
        · cases h
        · cases h
        · exact ih _ _ _ _ _ (by exact hs) h
      by_cases h2 : Wire.flagType f = Consts.flagTypeNegativeStore
      · rw [Sketch.loop_neg n _ _ _ _ h2] at h
        split at h
        · cases h
        · cases h
        · exact ih _ _ _ _ _ (by exact hs) h
      by_cases h3 : Wire.flagType f = Consts.flagTypeIndexMapping
      · rw [Sketch.loop_map n _ _ _ _ h3] at h
        split at h
        · cases h
        · split at h
          · cases h
          · split at h
            · cases h
            · split at h
              · cases h
              · cases h
              · split at h
                · split at h
                  · exact ih _ _ _ _ _ rfl h
                  · cases h
                · exact ih _ _ _ _ _ rfl h
      have h0 : Wire.flagType f = Consts.flagTypeSketchFeatures := by
        have := (flag_split f).2
        revert h1 h2 h3
        simp only [show Consts.flagTypePositiveStore = 1 from rfl,
          show Consts.flagTypeNegativeStore = 3 from rfl, show Consts.flagTypeIndexMapping = 2 from rfl,
          show Consts.flagTypeSketchFeatures = 0 from rfl]
        omega
      by_cases h4 : f = Sketch.zeroFlag
      · subst h4
        rw [Sketch.loop_zero] at h
        split at h
        · cases h
        · exact ih _ _ _ _ _ (by exact hs) h
      · rw [Sketch.loop_fallback n _ _ _ _ h0 h4] at h
        split at h
        · cases h
        · exact ih _ _ _ _ _ (by exact hs) h

/-! ### 5. the receiver WITHOUT a mapping object: `M := Option MapEnv`

  `DecodeDDSketch(b, storeProvider, nil)` builds its receiver with a nil `IndexMapping`; the stream must then
  carry a mapping block, otherwise `decodeAndMergeWith` returns "missing index mapping".  The generated
  structure instantiated with `M := Option MapEnv` (`none`: the nil interface value) covers that receiver. -/

instance : MapI (Option MapEnv) where
  Equals a b := match a, b with
    | some a, some b => a.id.equals b.id
    | _, _ => false
  Index o v := (o.getD default).index v
  Value o i := (o.getD default).value i
  LowerBound o i := (o.getD default).lowerBound i
  RelativeAccuracy o := (o.getD default).relAcc
  MinIndexableValue o := (o.getD default).minIndexable
  MaxIndexableValue o := (o.getD default).maxIndexable
  Encode o b := match o with
    | some e => MapI.Encode e b
    | none => b
  isNil := Option.isNone
  Decode b flag :=
    let r := mapDecode b flag
    (r.1, if r.2.2 = GoErr.nil then some r.2.1 else none, r.2.2)

theorem optMapEnv_law : MapLaw (M := Option MapEnv) (fun o => o.map (fun e => e.id)) where
  isNil_eq o := by cases o <;> rfl
  equals_eq m m' a b ha hb := by
    cases m with
    | none => simp at ha
    | some x =>
      cases m' with
      | none => simp at hb
      | some y =>
        simp only [Option.map_some, Option.some.injEq] at ha hb
        subst ha; subst hb; rfl
  decode_eq b flag := ⟨if (mapDecode b flag).2.2 = GoErr.nil then some (mapDecode b flag).2.1 else none, rfl,
    fun h => by rw [if_pos h]; rfl⟩

/-- the generated structure whose mapping may be nil -/
def toGenO (m : Option MapEnv) (s : Sketch) : DDSketch (Option MapEnv) Store :=
  { IndexMapping := m, positiveValueStore := s.pos, negativeValueStore := s.neg, zeroCount := s.zero }

def ofGenO (g : DDSketch (Option MapEnv) Store) : Sketch :=
  { mapping := g.IndexMapping.map (fun e => e.id), pos := g.positiveValueStore,
    neg := g.negativeValueStore, zero := g.zeroCount }

theorem ofGenO_toGenO (m : Option MapEnv) (s : Sketch) (h : s.mapping = m.map (fun e => e.id)) :
    ofGenO (toGenO m s) = s := by
  cases s; simp only [ofGenO, toGenO] at *; simp [h]

def DecRelO : Option (Except SkErr Sketch) → Res (DDSketch (Option MapEnv) Store × GoErr) → Prop
  | none, _ => True
  | some (.error e), r => ∃ g', r = .ok (g', decErr e)
  | some (.ok s'), r => ∃ g', r = .ok (g', GoErr.nil) ∧ ofGenO g' = s'

/-- **`DecodeAndMergeWith_relO`**: the same for a receiver whose mapping is `m : Option MapEnv` (`none`: nil),
    in particular the fresh receiver of `DecodeDDSketch` with a nil mapping: "missing index mapping" when the
    stream carries none, the embedded mapping adopted when it does. -/
theorem DecodeAndMergeWith_relO (m : Option MapEnv) (s : Sketch) (hm : s.mapping = m.map (fun e => e.id))
    (fuel : Nat) (b : List (BitVec 8)) (hf : b.length + 9 ≤ fuel) :
    DecRelO (s.decodeAndMergeWith (nb b)) (DDSketch.DecodeAndMergeWith fuel (toGenO m s) b) := by
  have h := DecodeAndMergeWith_rel_gen optMapEnv_law fuel (toGenO m s) b hf
  have e : ofGenI (fun o : Option MapEnv => o.map (fun e => e.id)) (toGenO m s) = s :=
    ofGenO_toGenO m s hm
  rw [e] at h
  cases hd : s.decodeAndMergeWith (nb b) with
  | none => trivial
  | some r =>
    rw [hd] at h
    cases r with
    | error e => exact h
    | ok s' => exact h

/-- no mapping in the receiver, none in the stream: both report the missing mapping -/
theorem DecodeAndMergeWith_missing (s : Sketch) (hm : s.mapping = none)
    (fuel : Nat) (b : List (BitVec 8)) (hf : b.length + 9 ≤ fuel)
    (h : s.decodeAndMergeWith (nb b) = some (.error .missingMapping)) :
    ∃ g', DDSketch.DecodeAndMergeWith fuel (toGenO none s) b
      = .ok (g', GoErr.named "missing index mapping") := by
  have := DecodeAndMergeWith_relO none s hm fuel b hf
  rw [h] at this
  exact this

/-! ### 6. an undefined flag byte, on the generated code alone (ANY instances) -/

/-- a flag byte of type "sketch features" that is none of zero count / count / sum / min / max: the plain
    decoder returns `errUnknownFlag` and the receiver as it is, whatever follows, for any instances of the two
    interfaces (no store or mapping method is called), any fuel `≥ 1` -/
theorem DecodeAndMergeWith_unknown_flag {M S : Type} [MapI M] [StoreI S] [Inhabited M] [Inhabited S]
    (fuel : Nat) (g : DDSketch M S) (x : BitVec 8) (tl : List (BitVec 8))
    (ht : Wire.flagType x.toNat = Consts.flagTypeSketchFeatures)
    (hx : x.toNat ≠ 4 ∧ x.toNat ≠ 160 ∧ x.toNat ≠ 132 ∧ x.toNat ≠ 136 ∧ x.toNat ≠ 140) :
    DDSketch.DecodeAndMergeWith (fuel + 1) g (x :: tl) = .ok (g, errUnknownFlag) := by
  have hlen : decide ((0 : Int) < GoSem.len (x :: tl)) = true := by
    rw [decide_eq_true_eq]; unfold GoSem.len; rw [List.length_cons]; omega
  have h1 : ¬ Wire.flagType x.toNat = Consts.flagTypePositiveStore := by rw [ht]; decide
  have h2 : ¬ Wire.flagType x.toNat = Consts.flagTypeNegativeStore := by rw [ht]; decide
  have h3 : ¬ Wire.flagType x.toNat = Consts.flagTypeIndexMapping := by rw [ht]; decide
  have h4 : ¬ x.toNat = Wire.mkFlag Consts.flagTypeSketchFeatures Consts.subFlagZeroCountVarFloat := hx.1
  have hs' : (decide (x.toNat = 132) || decide (x.toNat = 136) || decide (x.toNat = 140)) = false := by
    rw [Bool.or_eq_false_iff, Bool.or_eq_false_iff, decide_eq_false_iff_not, decide_eq_false_iff_not,
      decide_eq_false_iff_not]
    omega
  unfold DDSketch.DecodeAndMergeWith DDSketch.decodeAndMergeWith
  simp only [DDSketch.decodeAndMergeWith.loop1, hlen, if_true, DecodeFlag_cons, Res.bindL_ok,
    nil_bne_nil, Bool.false_eq_true, if_false, type_beq, flag_beq, FlagTypePositiveStore_byte,
    FlagTypeNegativeStore_byte, FlagTypeIndexMapping_byte, FlagZeroCountVarFloat_byte, h1, h2, h3, h4,
    decide_false, DDSketch.DecodeAndMergeWith.lit1, FlagCount_nat, FlagSum_nat, FlagMin_nat, FlagMax_nat,
    hx.2.1, hs']
  rfl

/-! ### 7. the theorems are not vacuous: three small inputs -/

/-- a zero-count flag with nothing behind it: `io.EOF` -/
example (env : MapEnv) (s : Sketch) (hm : s.mapping = some env.id) :
    ∃ g', DDSketch.DecodeAndMergeWith 10 (toGen env s) [4#8] = .ok (g', GoErr.eof) :=
  (DecodeAndMergeWith_error env s .eof hm 10 [4#8] (by decide) (by rfl)).imp fun _ h => h.1

/-- a store block with an undefined bin layout (`0x11`: positive store, sub-flag 4): "unknown bin encoding" -/
example (env : MapEnv) (s : Sketch) (hm : s.mapping = some env.id) :
    ∃ g', DDSketch.DecodeAndMergeWith 11 (toGen env s) [17#8, 0#8]
      = .ok (g', GoErr.named "unknown bin encoding") :=
  (DecodeAndMergeWith_error env s .unknownBinEncoding hm 11 [17#8, 0#8] (by decide) (by rfl)).imp
    fun _ h => h.1

/-- the empty input on a receiver without a mapping: "missing index mapping" -/
example (s : Sketch) (hm : s.mapping = none) :
    ∃ g', DDSketch.DecodeAndMergeWith 9 (toGenO none s) [] = .ok (g', GoErr.named "missing index mapping") :=
  DecodeAndMergeWith_missing s hm 9 [] (by decide)
    (by simp [Sketch.decodeAndMergeWith, Sketch.decodeLoop_nil, hm])

end DDS.GenSketch
