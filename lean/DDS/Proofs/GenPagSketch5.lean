/-
  DDS.Proofs.GenPagSketch5 — continuation of `GenPagSketch4.lean` (same namespace): pieces towards `GoodRun DecodeOK`
  for the bytes written by the regenerated `Encode` of a default sketch.

  1. `zeroFlag_type_pos/_neg/_map`, `zeroFlag_is_zero`: the branch taken by the decoder loop at the zero-count flag.
     `goodRun_mapping`: `GoodRun` at an encoded mapping block (any `M`): `GoodRun` after whatever `MapI.Decode`
     returns with a nil error.
  2. `decodeOK_deltas`: `DecodeOK` for an encoded index-delta payload `deltasFrom0 l` on a store with `CapOK`
     (`l.length < 2^63`, entries int32).
     `length_le_flatMap_enc`: every encoded count takes at least one byte (for `2·v ≤ 3·len + 51` of the contiguous
     layout).

  Core Lean only.
-/
import DDS.Proofs.GenPagSketch4

namespace DDS.GenPagSketch

open DDS DDS.GoSem DDS.PStore DDS.GenPag DDS.Gen.Paginated DDS.Gen.Encoding DDS.Codec DDS.GenEncoding
open DDS.Gen.Sketch DDS.RoundTrip
open DDS.GenStoreDecode (dTrace storeIndexes NoWrap subflag)

variable {grow : Int → Int → Int}

section goodRunStep2

variable {M : Type} [MapI M] [Inhabited M]

theorem zeroFlag_type_pos :
    (Flag.Type (⟨BitVec.ofNat 8 Sketch.zeroFlag⟩ : Flag) == FlagTypePositiveStore) = false := by decide
theorem zeroFlag_type_neg :
    (Flag.Type (⟨BitVec.ofNat 8 Sketch.zeroFlag⟩ : Flag) == FlagTypeNegativeStore) = false := by decide
theorem zeroFlag_type_map :
    (Flag.Type (⟨BitVec.ofNat 8 Sketch.zeroFlag⟩ : Flag) == FlagTypeIndexMapping) = false := by decide
theorem zeroFlag_is_zero :
    ((⟨BitVec.ofNat 8 Sketch.zeroFlag⟩ : Flag) == FlagZeroCountVarFloat) = true := by decide

omit [Inhabited M] in
/-- **`GoodRun` at an encoded mapping block** -/
theorem goodRun_mapping (fb : List (BitVec 8) → Flag → Res (List (BitVec 8) × GoErr)) (fuel : Nat)
    (sub g o : Nat) (hsub : sub < 64) (T : Bytes) (a : DDSketch M (GPS grow))
    (hnext : ∀ b2 m, MapI.Decode (M := M) (bn ((encF64LE g ++ encF64LE o) ++ T))
        (⟨BitVec.ofNat 8 (Wire.mkFlag Consts.flagTypeIndexMapping sub)⟩ : Flag) = (b2, m, GoErr.nil) →
      GoodRun DecodeOK fb fuel b2 { a with IndexMapping := m }) :
    GoodRun DecodeOK fb (fuel + 1) (bn (Wire.encBlock (.mapping sub g o) ++ T)) a := by
  unfold GoodRun
  intro b1 flag hF
  rw [Sketch.encBlock_mapping, List.cons_append] at hF
  change DecodeFlag fuel (BitVec.ofNat 8 _ :: bn ((encF64LE g ++ encF64LE o) ++ T)) = _ at hF
  rw [GenSketch.DecodeFlag_cons] at hF
  obtain ⟨rfl, rfl⟩ : bn ((encF64LE g ++ encF64LE o) ++ T) = b1 ∧
      (⟨BitVec.ofNat 8 (Wire.mkFlag Consts.flagTypeIndexMapping sub)⟩ : Flag) = flag := by
    have := Res.ok.inj hF
    exact ⟨(Prod.mk.inj this).1, (Prod.mk.inj (Prod.mk.inj this).2).1⟩
  have hn := mkFlag_toNat Consts.flagTypeIndexMapping sub (by decide) hsub
  obtain ⟨f1, _⟩ := Wire.flag_mk Consts.flagTypeIndexMapping sub (by decide)
  have hT0 : (Flag.Type (⟨BitVec.ofNat 8 (Wire.mkFlag Consts.flagTypeIndexMapping sub)⟩ : Flag)
      == FlagTypePositiveStore) = false := by
    rw [GenSketch.type_beq, FlagTypePositiveStore_byte, decide_eq_false_iff_not]
    show ¬ Wire.flagType (BitVec.ofNat 8 _).toNat = _
    rw [hn, f1]; decide
  have hT1 : (Flag.Type (⟨BitVec.ofNat 8 (Wire.mkFlag Consts.flagTypeIndexMapping sub)⟩ : Flag)
      == FlagTypeNegativeStore) = false := by
    rw [GenSketch.type_beq, FlagTypeNegativeStore_byte, decide_eq_false_iff_not]
    show ¬ Wire.flagType (BitVec.ofNat 8 _).toNat = _
    rw [hn, f1]; decide
  have hT : (Flag.Type (⟨BitVec.ofNat 8 (Wire.mkFlag Consts.flagTypeIndexMapping sub)⟩ : Flag)
      == FlagTypeIndexMapping) = true := by
    rw [GenSketch.type_beq, FlagTypeIndexMapping_byte, decide_eq_true_eq]
    show Wire.flagType (BitVec.ofNat 8 _).toNat = _
    rw [hn, f1]
  rw [hT0, if_neg (by decide), hT1, if_neg (by decide), if_pos hT]
  exact hnext

end goodRunStep2

/-! ### 2. `DecodeOK` for the two layouts the paginated encoder writes -/

theorem subflag_deltas : subflag Consts.binEncodingIndexDeltas = BinEncodingIndexDeltas := by decide
theorem subflag_cc : subflag Consts.binEncodingContiguousCounts = BinEncodingContiguousCounts := by decide

/-- the model's index trace on an encoded delta list: the original list -/
theorem dTrace_enc (R : Bytes) : ∀ (l : List Int) (prev : Int), (∀ d ∈ dRec prev l, I64 d) →
    dTrace l.length prev ((dRec prev l).flatMap encVarint64 ++ R) = l := by
  intro l
  induction l with
  | nil => intro prev _; rfl
  | cons x l ih =>
    intro prev h
    have hx : I64 (x - prev) := h _ (by simp [dRec])
    have e : ((dRec prev (x :: l)).flatMap encVarint64 ++ R) =
        encVarint64 (x - prev) ++ ((dRec x l).flatMap encVarint64 ++ R) := by
      simp only [dRec, List.flatMap_cons, List.append_assoc]
    rw [e, List.length_cons]
    simp only [dTrace, decVarint64_encVarint64 _ hx.1 hx.2]
    rw [show prev + (x - prev) = x by omega, ih x (fun d hd => h d (by simp [dRec, hd]))]

/-- differences of int32 values are int64 values -/
theorem dRec_i64 : ∀ (l : List Int) (prev : Int), Idx32 prev → (∀ u ∈ l, Idx32 u) → ∀ d ∈ dRec prev l, I64 d := by
  intro l
  induction l with
  | nil => intro prev _ _ d hd; simp [dRec] at hd
  | cons x l ih =>
    intro prev hp h d hd
    have hx : Idx32 x := h x (List.mem_cons_self ..)
    simp only [dRec, List.mem_cons] at hd
    rcases hd with rfl | hd
    · unfold Idx32 minInt32 maxInt32 at hp hx
      unfold I64
      omega
    · exact ih x hx (fun u hu => h u (List.mem_cons_of_mem _ hu)) d hd

/-- **`DecodeOK` for an encoded index-delta payload** (`deltasFrom0 l`, `l` int32, shorter than `2^63`) on a store
    with `CapOK` -/
theorem decodeOK_deltas (x : GPS grow) (hcap : CapOK x.g) (l : List Int) (hlen : l.length < 2 ^ 63)
    (h32 : ∀ u ∈ l, Idx32 u) (R : Bytes) (hR : ∀ y ∈ R, y < 256) :
    DecodeOK x (bn (Wire.encPayload (.deltas (Sketch.deltasFrom0 l)) ++ R))
      (subflag (Wire.payloadSub (.deltas (Sketch.deltasFrom0 l)))) := by
  have hbytes : nb (bn (Wire.encPayload (.deltas (Sketch.deltasFrom0 l)) ++ R)) =
      Wire.encPayload (.deltas (Sketch.deltasFrom0 l)) ++ R :=
    nb_bn _ (fun y hy => (List.mem_append.1 hy).elim (Wire.encPayload_bytes _ y) (hR y))
  have hd : ∀ d ∈ dRec 0 l, I64 d :=
    dRec_i64 l 0 (by unfold Idx32 minInt32 maxInt32; omega) h32
  have hdec : decUvarint64 (Wire.encPayload (.deltas (Sketch.deltasFrom0 l)) ++ R) =
      .ok (l.length, (dRec 0 l).flatMap encVarint64 ++ R) := by
    show decUvarint64 ((encUvarint64 (Sketch.deltasFrom0 l).length ++ (Sketch.deltasFrom0 l).flatMap encVarint64)
      ++ R) = _
    rw [deltasFrom0_eq, dRec_length, List.append_assoc,
      decUvarint64_encUvarint64 _ (by unfold W64; omega)]
  left
  refine ⟨subflag_deltas, hcap, ?_, ?_⟩
  · intro v rest hv
    rw [hbytes, hdec] at hv
    have := (Prod.mk.inj (Except.ok.inj hv)).1
    omega
  · intro u hu
    rw [hbytes] at hu
    simp only [storeIndexes, hdec,
      show Consts.binEncodingIndexDeltas ≠ Consts.binEncodingIndexDeltasAndCounts by decide, if_false, if_true] at hu
    rw [dTrace_enc R l 0 hd] at hu
    exact h32 u hu

/-- every encoded count takes at least one byte -/
theorem length_le_flatMap_enc : ∀ (bs : List Nat), bs.length ≤ (bs.flatMap encVarfloatBits).length := by
  intro bs
  induction bs with
  | nil => exact Nat.le_refl _
  | cons b bs ih =>
    have h1 : 1 ≤ (encVarfloatBits b).length := by unfold encVarfloatBits; exact encVF_length_pos _ _
    simp only [List.flatMap_cons, List.length_append, List.length_cons]
    omega

end DDS.GenPagSketch
