import DDS.Generated.CodeEncoding
import DDS.Props.C18Bits
import DDS.Model.Wire

namespace DDS.GenEncoding
open DDS DDS.GoSem DDS.Gen.Encoding DDS.Codec DDS.Props.C18Bits

/-! ### bridge between `List (BitVec 8)` and the model's `List Nat` -/

def nb (l : List (BitVec 8)) : List Nat := l.map BitVec.toNat
def bn (l : List Nat) : List (BitVec 8) := l.map (BitVec.ofNat 8)

@[simp] theorem nb_nil : nb [] = [] := rfl
@[simp] theorem nb_cons (x : BitVec 8) (l) : nb (x :: l) = x.toNat :: nb l := rfl
@[simp] theorem nb_append (a b) : nb (a ++ b) = nb a ++ nb b := by simp [nb]
@[simp] theorem nb_length (a) : (nb a).length = a.length := by simp [nb]
theorem nb_drop (a) (k : Nat) : nb (a.drop k) = (nb a).drop k := by simp [nb, List.map_drop]
theorem nb_take (a) (k : Nat) : nb (a.take k) = (nb a).take k := by simp [nb, List.map_take]
@[simp] theorem bn_length (a) : (bn a).length = a.length := by simp [bn]

theorem bn_nb (l : List (BitVec 8)) : bn (nb l) = l := by
  induction l with
  | nil => rfl
  | cons x l ih =>
    show BitVec.ofNat 8 x.toNat :: bn (nb l) = x :: l
    rw [ih, BitVec.ofNat_toNat, BitVec.setWidth_eq]

theorem nb_bn (l : List Nat) (h : ∀ x ∈ l, x < 256) : nb (bn l) = l := by
  induction l with
  | nil => rfl
  | cons x l ih =>
    show (BitVec.ofNat 8 x).toNat :: nb (bn l) = x :: l
    rw [ih (fun y hy => h y (List.mem_cons_of_mem _ hy)), BitVec.toNat_ofNat]
    have := h x (List.mem_cons_self ..)
    congr 1
    omega

theorem nb_lt (l : List (BitVec 8)) : ∀ x ∈ nb l, x < 256 := by
  intro x hx
  simp only [nb, List.mem_map] at hx
  obtain ⟨y, _, rfl⟩ := hx
  exact y.isLt

theorem nb_inj {a b : List (BitVec 8)} (h : nb a = nb b) : a = b := by
  rw [← bn_nb a, ← bn_nb b, h]

theorem eq_bn_of_nb {a : List (BitVec 8)} {l : List Nat} (h : nb a = l) : a = bn l := by
  rw [← h, bn_nb]

/-- the suffix of `b` that corresponds to the model's remaining bytes `rest` -/
def suffixOf (b : List (BitVec 8)) (rest : Bytes) : List (BitVec 8) := b.drop (b.length - rest.length)

theorem nb_suffixOf_drop (b : List (BitVec 8)) (k : Nat) :
    nb (suffixOf b ((nb b).drop k)) = (nb b).drop k := by
  unfold suffixOf
  rw [nb_drop, List.length_drop, nb_length]
  by_cases h : k ≤ b.length
  · rw [show b.length - (b.length - k) = k by omega]
  · rw [show b.length - (b.length - k) = b.length by omega]
    rw [List.drop_of_length_le (by simp), List.drop_of_length_le (by simp; omega)]

theorem suffixOf_drop (b : List (BitVec 8)) (k : Nat) (h : k ≤ b.length) :
    suffixOf b (nb (b.drop k)) = b.drop k := by
  unfold suffixOf
  rw [nb_length, List.length_drop, show b.length - (b.length - k) = k by omega]

/-! ### 1. EncodeUvarint64 -/

theorem setWidth8_toNat (v : BitVec 64) : (BitVec.setWidth 8 v).toNat = v.toNat % 256 := by
  rw [BitVec.toNat_setWidth]

theorem single_bn (x : BitVec 8) (n : Nat) (h : x.toNat = n) : [x] = bn [n] :=
  eq_bn_of_nb (by simp only [nb_cons, nb_nil, h])

theorem cons_bn (x : BitVec 8) (n : Nat) (l : List Nat) (h : x.toNat = n) :
    x :: bn l = bn (n :: l) := by
  show _ = BitVec.ofNat 8 n :: bn l
  rw [← h, BitVec.ofNat_toNat, BitVec.setWidth_eq]

theorem encUvarint64_loop (k : Nat) : ∀ (fuel : Nat) (b : List (BitVec 8)) (v : BitVec 64) (i : Int),
    i = 8 - (k : Int) → k + 1 ≤ fuel →
    Loop.elim (EncodeUvarint64.loop1 fuel b v i)
        (fun (b, v, _) => .ok (b ++ [BitVec.setWidth 8 v]))
      = .ok (b ++ bn (encU k v.toNat)) := by
  induction k with
  | zero =>
    intro fuel b v i hi hf
    obtain ⟨fuel, rfl⟩ : ∃ f, fuel = f + 1 := ⟨fuel - 1, by omega⟩
    have h8 : ¬ (i < 8) := by omega
    simp only [EncodeUvarint64.loop1, h8, decide_false, Bool.false_eq_true, if_false,
      Loop.elim_done, encU]
    rw [single_bn _ _ (setWidth8_toNat v)]
  | succ k ih =>
    intro fuel b v i hi hf
    obtain ⟨fuel, rfl⟩ : ∃ f, fuel = f + 1 := ⟨fuel - 1, by omega⟩
    have h8 : i < 8 := by omega
    simp only [EncodeUvarint64.loop1, h8, decide_true, if_true]
    by_cases hv : v.toNat < 128
    · have hu : BitVec.ult v 128#64 = true := by
        rw [BitVec.ult_eq_decide]; simpa using hv
      simp only [hu, if_true, Loop.elim_done, encU, hv]
      rw [single_bn _ v.toNat (by rw [setWidth8_toNat]; omega)]
    · have hu : BitVec.ult v 128#64 = false := by
        rw [BitVec.ult_eq_decide]; simpa using hv
      simp only [hu, Bool.false_eq_true, if_false]
      rw [ih fuel _ _ (i + 1) (by omega) (by omega)]
      have hs := uvarint_step_bits v
      simp only [encU, hv, if_false, List.append_assoc, List.singleton_append]
      rw [hs.2, cons_bn _ _ _ hs.1]

/-- **1.** `EncodeUvarint64` appends the model's encoding. -/
theorem EncodeUvarint64_eq (fuel : Nat) (hf : 9 ≤ fuel) (b : List (BitVec 8)) (v : BitVec 64) :
    EncodeUvarint64 fuel b v = .ok (b ++ bn (encUvarint64 v.toNat)) := by
  rw [encUvarint64_eq]
  exact encUvarint64_loop 8 fuel b v 0 (by decide) hf

theorem nb_bn_encUvarint64 (n : Nat) : nb (bn (encUvarint64 n)) = encUvarint64 n :=
  nb_bn _ (encU_bytes _ _)

/-- **1.** in the `∃ bs` form. -/
theorem EncodeUvarint64_spec (fuel : Nat) (hf : 9 ≤ fuel) (b : List (BitVec 8)) (v : BitVec 64) :
    ∃ bs, EncodeUvarint64 fuel b v = .ok (b ++ bs) ∧ nb bs = encUvarint64 v.toNat :=
  ⟨_, EncodeUvarint64_eq fuel hf b v, nb_bn_encUvarint64 _⟩


/-! ### 2. DecodeUvarint64 -/

/-- what the generated decoders return, given the model's result -/
def decRes {α β} (b : List (BitVec 8)) (zero : β) (f : α → β) :
    Except DecErr (α × Bytes) → Res (List (BitVec 8) × β × GoErr)
  | .error _ => .ok (b, zero, GoErr.eof)
  | .ok (v, rest) => .ok (suffixOf b rest, f v, GoErr.nil)

theorem idx_drop {α} (b : List α) (j : Nat) (n : α) (tl : List α) (h : b.drop j = n :: tl) :
    GoSem.idx b (j : Int) = some n ∧ j < b.length ∧ tl = b.drop (j + 1) := by
  have hj : j < b.length := by
    apply Decidable.byContradiction
    intro hc
    rw [List.drop_of_length_le (by omega)] at h
    cases h
  refine ⟨?_, hj, ?_⟩
  · unfold GoSem.idx
    have : ¬ ((j : Int) < 0) := by omega
    rw [if_neg this, Int.toNat_natCast, List.getElem?_eq_getElem hj]
    rw [List.drop_eq_getElem_cons hj] at h
    injection h with h1 _
    rw [h1]
  · rw [List.drop_eq_getElem_cons hj] at h
    injection h with _ h2
    exact h2.symm

theorem sliceFrom_nat {α} (b : List α) (j : Nat) (h : j ≤ b.length) :
    GoSem.sliceFrom b (j : Int) = some (b.drop j) := by
  unfold GoSem.sliceFrom
  have : ¬ ((j : Int) < 0 ∨ (b.length : Int) < j) := by omega
  rw [if_neg this, Int.toNat_natCast]

theorem and127_toNat (n : BitVec 8) : (BitVec.setWidth 64 (n &&& 127#8)).toNat = n.toNat % 128 := by
  rw [BitVec.toNat_setWidth, BitVec.toNat_and]
  have h : (127#8).toNat = 2 ^ 7 - 1 := by decide
  rw [h, Nat.and_two_pow_sub_one_eq_mod]
  have := n.isLt
  omega

theorem setWidth64_toNat (n : BitVec 8) : (BitVec.setWidth 64 n).toNat = n.toNat := by
  rw [BitVec.toNat_setWidth]
  have := n.isLt
  omega

theorem decUvarint64_loop (k : Nat) : ∀ (fuel : Nat) (b : List (BitVec 8)) (x : BitVec 64) (j : Nat),
    j + k = 8 → k + 1 ≤ fuel → x.toNat < 2 ^ (7 * j) →
    DecodeUvarint64.loop1 fuel b x (BitVec.ofNat 64 (7 * j)) (j : Int)
      = match decU k (7 * j) x.toNat (nb (b.drop j)) with
        | .error _ => .ret (b, 0#64, GoErr.eof)
        | .ok (v, rest) => .ret (suffixOf b rest, BitVec.ofNat 64 v, GoErr.nil) := by
  induction k with
  | zero =>
    intro fuel b x j hj hf hx
    obtain ⟨fuel, rfl⟩ : ∃ f, fuel = f + 1 := ⟨fuel - 1, by omega⟩
    have hj8 : j = 8 := by omega
    subst hj8
    unfold DecodeUvarint64.loop1
    cases hd : b.drop 8 with
    | nil =>
      have hl : b.length ≤ 8 := List.drop_eq_nil_iff.mp hd
      have : GoSem.len b ≤ ((8 : Nat) : Int) := by unfold GoSem.len; omega
      simp only [this, decide_true, if_true, nb_nil, decU]
    | cons n tl =>
      obtain ⟨hidx, hlt, htl⟩ := idx_drop b 8 n tl hd
      have : ¬ (GoSem.len b ≤ ((8 : Nat) : Int)) := by unfold GoSem.len; omega
      simp only [this, decide_false, Bool.false_eq_true, if_false, hidx, optL_some, nb_cons, decU]
      have h8 : (((8 : Nat) : Int) == (8 : Int)) = true := by decide
      simp only [h8, Bool.or_true, if_true]
      rw [show ((8 : Nat) : Int) + 1 = ((9 : Nat) : Int) by rfl, sliceFrom_nat b 9 (by omega), optL_some]
      rw [htl, suffixOf_drop b 9 (by omega)]
      congr 3
      apply BitVec.eq_of_toNat_eq
      rw [BitVec.shiftLeft_eq', BitVec.toNat_ofNat, BitVec.toNat_ofNat,
        Nat.mod_eq_of_lt (show 7 * 8 < 2 ^ 64 by decide), acc_or_bits _ _ _ hx, setWidth64_toNat]
      rfl
  | succ k ih =>
    intro fuel b x j hj hf hx
    obtain ⟨fuel, rfl⟩ : ∃ f, fuel = f + 1 := ⟨fuel - 1, by omega⟩
    unfold DecodeUvarint64.loop1
    cases hd : b.drop j with
    | nil =>
      have hl : b.length ≤ j := List.drop_eq_nil_iff.mp hd
      have : GoSem.len b ≤ (j : Int) := by unfold GoSem.len; omega
      simp only [this, decide_true, if_true, nb_nil, decU]
    | cons n tl =>
      obtain ⟨hidx, hlt, htl⟩ := idx_drop b j n tl hd
      have : ¬ (GoSem.len b ≤ (j : Int)) := by unfold GoSem.len; omega
      simp only [this, decide_false, Bool.false_eq_true, if_false, hidx, optL_some, nb_cons, decU]
      have h8 : ((j : Int) == (8 : Int)) = false := by
        rw [beq_eq_false_iff_ne]; omega
      have hs7 : (BitVec.ofNat 64 (7 * j)).toNat = 7 * j := by
        rw [BitVec.toNat_ofNat]; omega
      by_cases hn : n.toNat < 128
      · have hu : BitVec.ult n 128#8 = true := by
          rw [BitVec.ult_eq_decide]; simpa using hn
        simp only [hu, Bool.true_or, if_true, hn]
        rw [show (j : Int) + 1 = ((j + 1 : Nat) : Int) by omega, sliceFrom_nat b (j + 1) (by omega),
          optL_some, htl, suffixOf_drop b (j + 1) (by omega)]
        congr 3
        apply BitVec.eq_of_toNat_eq
        rw [BitVec.shiftLeft_eq', hs7, acc_or_bits _ _ _ hx, setWidth64_toNat, BitVec.toNat_ofNat]
        rfl
      · have hu : BitVec.ult n 128#8 = false := by
          rw [BitVec.ult_eq_decide]; simpa using hn
        simp only [hu, h8, Bool.or_false, Bool.false_eq_true, if_false, hn]
        have hx' : (x ||| BitVec.setWidth 64 (n &&& 127#8) <<< BitVec.ofNat 64 (7 * j)).toNat
            = x.toNat + n.toNat % 128 * 2 ^ (7 * j) := by
          rw [BitVec.shiftLeft_eq', hs7, acc_or_bits _ _ _ hx, and127_toNat]
          apply Nat.mod_eq_of_lt
          have h1 : (n.toNat % 128 + 1) * 2 ^ (7 * j) ≤ 128 * 2 ^ (7 * j) :=
            Nat.mul_le_mul_right _ (by omega)
          have h2 : 128 * 2 ^ (7 * j) = 2 ^ (7 * j + 7) := by
            rw [Nat.pow_add]; omega
          have h3 : 2 ^ (7 * j + 7) ≤ 2 ^ 56 := Nat.pow_le_pow_right (by decide) (by omega)
          rw [Nat.add_mul] at h1
          unfold W64
          omega
        have hsn : BitVec.ofNat 64 (7 * j) + 7#64 = BitVec.ofNat 64 (7 * (j + 1)) := by
          apply BitVec.eq_of_toNat_eq
          rw [BitVec.toNat_add, hs7, BitVec.toNat_ofNat, BitVec.toNat_ofNat]
          omega
        rw [hsn, show (j : Int) + 1 = ((j + 1 : Nat) : Int) by omega]
        have hb : x.toNat + n.toNat % 128 * 2 ^ (7 * j) < 2 ^ (7 * (j + 1)) := by
          have h1 : (n.toNat % 128 + 1) * 2 ^ (7 * j) ≤ 128 * 2 ^ (7 * j) :=
            Nat.mul_le_mul_right _ (by omega)
          have h2 : 128 * 2 ^ (7 * j) = 2 ^ (7 * (j + 1)) := by
            rw [show 7 * (j + 1) = 7 * j + 7 by omega, Nat.pow_add]; omega
          rw [Nat.add_mul] at h1
          omega
        rw [ih fuel b _ (j + 1) (by omega) (by omega) (by rw [hx']; exact hb), hx', htl,
          show 7 * (j + 1) = 7 * j + 7 by omega]

/-- **2.** `DecodeUvarint64` is the model's decoder: eof leaves the input untouched, success returns
    the value and the corresponding suffix of the input.  In particular never `.panic`/`.nofuel`. -/
theorem DecodeUvarint64_eq (fuel : Nat) (hf : 9 ≤ fuel) (b : List (BitVec 8)) :
    DecodeUvarint64 fuel b = decRes b 0#64 (BitVec.ofNat 64) (decUvarint64 (nb b)) := by
  unfold DecodeUvarint64
  have h := decUvarint64_loop 8 fuel b 0#64 0 (by decide) hf (by decide)
  simp only [Nat.mul_zero, Int.natCast_zero, List.drop_zero, BitVec.toNat_ofNat, Nat.zero_mod] at h
  show Loop.elim (DecodeUvarint64.loop1 fuel b 0#64 0#64 0) _ = _
  rw [h]
  unfold decUvarint64
  rw [maxVarLen64_pred]
  cases hd : decU 8 0 0 (nb b) with
  | error e => simp only [Loop.elim_ret, decRes]
  | ok p =>
    obtain ⟨v, rest⟩ := p
    simp only [Loop.elim_ret, decRes]
    congr 3
    apply BitVec.eq_of_toNat_eq
    simp only [BitVec.toNat_ofNat, W64, Nat.mod_mod]


/-- **2.** (eof case) -/
theorem DecodeUvarint64_eof (fuel : Nat) (hf : 9 ≤ fuel) (b : List (BitVec 8)) (e : DecErr)
    (h : decUvarint64 (nb b) = .error e) :
    DecodeUvarint64 fuel b = .ok (b, 0#64, GoErr.eof) := by
  rw [DecodeUvarint64_eq fuel hf, h]; rfl

/-- **2.** (success case) the returned slice is a suffix of `b` whose bytes are the model's `rest`. -/
theorem DecodeUvarint64_ok (fuel : Nat) (hf : 9 ≤ fuel) (b : List (BitVec 8)) (v : Nat) (rest : Bytes)
    (h : decUvarint64 (nb b) = .ok (v, rest)) :
    ∃ b', DecodeUvarint64 fuel b = .ok (b', BitVec.ofNat 64 v, GoErr.nil) ∧ nb b' = rest ∧
      ∃ k, 1 ≤ k ∧ k ≤ 9 ∧ b' = b.drop k := by
  refine ⟨suffixOf b rest, by rw [DecodeUvarint64_eq fuel hf, h]; rfl, ?_⟩
  obtain ⟨k, h1, h2, h3, _⟩ := decUvarint64_ok _ _ _ h
  subst h3
  refine ⟨nb_suffixOf_drop b k, ?_⟩
  by_cases hk : k ≤ b.length
  · exact ⟨k, h1, h2, by rw [← nb_drop, suffixOf_drop b k hk]⟩
  · refine ⟨k, h1, h2, ?_⟩
    unfold suffixOf
    rw [List.drop_of_length_le (by simp; omega), List.drop_of_length_le (by omega)]

/-- the only error of the model's uvarint decoder is `eof` -/
theorem decU_error (f s a : Nat) (bs : Bytes) (e : DecErr) (h : decU f s a bs = .error e) : e = .eof := by
  induction f generalizing s a bs with
  | zero => cases bs <;> simp [decU] at h; exact h.symm
  | succ f ih =>
    cases bs with
    | nil => simp [decU] at h; exact h.symm
    | cons n tl =>
      simp only [decU] at h
      split at h
      · cases h
      · exact ih _ _ _ h

/-! ### 3. zig-zag varints -/

/-- **3.** `EncodeVarint64` (the `int64` argument is the `BitVec 64` read as signed). -/
theorem EncodeVarint64_eq (fuel : Nat) (hf : 9 ≤ fuel) (b : List (BitVec 8)) (v : BitVec 64) :
    EncodeVarint64 fuel b v = .ok (b ++ bn (encVarint64 v.toInt)) := by
  unfold EncodeVarint64
  rw [EncodeUvarint64_eq fuel hf, Res.bind_ok, zigzag_bits]
  rfl

theorem EncodeVarint64_spec (fuel : Nat) (hf : 9 ≤ fuel) (b : List (BitVec 8)) (v : BitVec 64) :
    ∃ bs, EncodeVarint64 fuel b v = .ok (b ++ bs) ∧ nb bs = encVarint64 v.toInt :=
  ⟨_, EncodeVarint64_eq fuel hf b v, nb_bn_encUvarint64 _⟩

/-- for every `int64` value `i`: encoding its two's complement word -/
theorem EncodeVarint64_ofInt (fuel : Nat) (hf : 9 ≤ fuel) (b : List (BitVec 8)) (i : Int)
    (h1 : -(2:Int)^63 ≤ i) (h2 : i < (2:Int)^63) :
    EncodeVarint64 fuel b (BitVec.ofInt 64 i) = .ok (b ++ bn (encVarint64 i)) := by
  rw [EncodeVarint64_eq fuel hf, BitVec.toInt_ofInt]
  congr 4
  simp only [Int.bmod]
  omega

theorem unzigzag_range (u : Nat) (hu : u < W64) :
    -(2:Int)^63 ≤ unzigzag u ∧ unzigzag u < (2:Int)^63 := by
  unfold unzigzag W64 at *
  split <;> omega

theorem unzigzag_ofNat (u : Nat) :
    ((BitVec.ofNat 64 u >>> 1) ^^^ -(BitVec.ofNat 64 u &&& 1#64)) = BitVec.ofInt 64 (unzigzag (u % W64)) := by
  have h := unzigzag_bits (BitVec.ofNat 64 u)
  rw [BitVec.toNat_ofNat] at h
  rw [show W64 = 2 ^ 64 from rfl, ← h, BitVec.ofInt_toInt]

/-- **3.** `DecodeVarint64`: value `BitVec.ofInt 64` of the model's `Int`; on eof `(b, 0, eof)`. -/
theorem DecodeVarint64_eq (fuel : Nat) (hf : 9 ≤ fuel) (b : List (BitVec 8)) :
    DecodeVarint64 fuel b = decRes b 0#64 (BitVec.ofInt 64) (decVarint64 (nb b)) := by
  unfold DecodeVarint64
  rw [DecodeUvarint64_eq fuel hf]
  unfold decVarint64
  cases hd : decUvarint64 (nb b) with
  | error e => rfl
  | ok p =>
    obtain ⟨u, rest⟩ := p
    obtain ⟨_, _, _, _, hu⟩ := decUvarint64_ok _ _ _ hd
    simp only [decRes, Res.bind_ok]
    rw [unzigzag_ofNat, Nat.mod_eq_of_lt hu]

theorem decVarint64_range (bs : Bytes) (v : Int) (rest : Bytes) (h : decVarint64 bs = .ok (v, rest)) :
    -(2:Int)^63 ≤ v ∧ v < (2:Int)^63 := by
  unfold decVarint64 at h
  cases hd : decUvarint64 bs with
  | error e => rw [hd] at h; cases h
  | ok p =>
    obtain ⟨u, r⟩ := p
    obtain ⟨_, _, _, _, hu⟩ := decUvarint64_ok _ _ _ hd
    rw [hd] at h
    simp only [Except.ok.injEq, Prod.mk.injEq] at h
    rw [← h.1]
    exact unzigzag_range u hu

/-- **3.** `DecodeVarint32`.  On overflow Go has already advanced the slice: the generated function
    returns the *advanced* slice together with `errVarint32Overflow` (the model returns
    `.error .overflow32` and, by convention, leaves the caller's input alone). -/
theorem DecodeVarint32_eq (fuel : Nat) (hf : 9 ≤ fuel) (b : List (BitVec 8)) :
    DecodeVarint32 fuel b =
      match decVarint64 (nb b) with
      | .error _ => .ok (b, 0#32, GoErr.eof)
      | .ok (v, rest) =>
        if v > 2147483647 ∨ v < -2147483648 then .ok (suffixOf b rest, 0#32, errVarint32Overflow)
        else .ok (suffixOf b rest, BitVec.ofInt 32 v, GoErr.nil) := by
  unfold DecodeVarint32
  rw [DecodeVarint64_eq fuel hf]
  cases hd : decVarint64 (nb b) with
  | error e => rfl
  | ok p =>
    obtain ⟨v, rest⟩ := p
    obtain ⟨h1, h2⟩ := decVarint64_range _ _ _ hd
    have hnil : (GoErr.nil != GoErr.nil) = false := by decide
    simp only [decRes, Res.bind_ok, hnil, Bool.false_eq_true, if_false]
    have hv : (BitVec.ofInt 64 v).toInt = v := by
      rw [BitVec.toInt_ofInt]; simp only [Int.bmod]; omega
    have hmax : (2147483647#64).toInt = 2147483647 := by decide
    have hmin : (BitVec.ofInt 64 (-2147483648)).toInt = -2147483648 := by decide
    have hc : (BitVec.slt 2147483647#64 (BitVec.ofInt 64 v) ||
        BitVec.slt (BitVec.ofInt 64 v) (BitVec.ofInt 64 (-2147483648)))
        = decide (v > 2147483647 ∨ v < -2147483648) := by
      rw [BitVec.slt_eq_decide, BitVec.slt_eq_decide, hv, hmax, hmin]
      simp only [gt_iff_lt, Bool.decide_or]
    rw [hc]
    by_cases hov : v > 2147483647 ∨ v < -2147483648
    · simp only [hov, decide_true, if_true]
    · simp only [hov, decide_false, Bool.false_eq_true, if_false]
      congr 3
      apply BitVec.eq_of_toNat_eq
      rw [BitVec.toNat_setWidth, BitVec.toNat_ofInt, BitVec.toNat_ofInt]
      omega

/-- **3.** `DecodeVarint32` against `decVarint32`, success case -/
theorem DecodeVarint32_ok (fuel : Nat) (hf : 9 ≤ fuel) (b : List (BitVec 8)) (v : Int) (rest : Bytes)
    (h : decVarint32 (nb b) = .ok (v, rest)) :
    DecodeVarint32 fuel b = .ok (suffixOf b rest, BitVec.ofInt 32 v, GoErr.nil) := by
  rw [DecodeVarint32_eq fuel hf]
  unfold decVarint32 at h
  cases hd : decVarint64 (nb b) with
  | error e => rw [hd] at h; cases h
  | ok p =>
    obtain ⟨w, r⟩ := p
    rw [hd] at h
    simp only at h ⊢
    split at h
    · cases h
    · rename_i hov
      simp only [Except.ok.injEq, Prod.mk.injEq] at h
      rw [if_neg hov, h.1, h.2]

/-- **3.** overflow case: error `errVarint32Overflow`, value 0, slice ADVANCED past the varint -/
theorem DecodeVarint32_overflow (fuel : Nat) (hf : 9 ≤ fuel) (b : List (BitVec 8))
    (h : decVarint32 (nb b) = .error .overflow32) :
    ∃ v rest, decVarint64 (nb b) = .ok (v, rest) ∧
      DecodeVarint32 fuel b = .ok (suffixOf b rest, 0#32, errVarint32Overflow) := by
  rw [DecodeVarint32_eq fuel hf]
  unfold decVarint32 at h
  cases hd : decVarint64 (nb b) with
  | error e =>
    rw [hd] at h
    simp only [Except.error.injEq] at h
    unfold decVarint64 decUvarint64 at hd
    cases hu : decU (Consts.maxVarLen64 - 1) 0 0 (nb b) with
    | error e' =>
      rw [hu] at hd
      simp only [Except.error.injEq] at hd
      have := decU_error _ _ _ _ _ hu
      subst this; subst hd; cases h
    | ok p => rw [hu] at hd; cases hd
  | ok p =>
    obtain ⟨w, r⟩ := p
    rw [hd] at h
    simp only at h ⊢
    split at h
    · rename_i hov
      exact ⟨w, r, rfl, by rw [if_pos hov]⟩
    · cases h

/-- **3.** eof case: input untouched -/
theorem DecodeVarint32_eof (fuel : Nat) (hf : 9 ≤ fuel) (b : List (BitVec 8))
    (h : decVarint32 (nb b) = .error .eof) :
    DecodeVarint32 fuel b = .ok (b, 0#32, GoErr.eof) := by
  rw [DecodeVarint32_eq fuel hf]
  unfold decVarint32 at h
  cases hd : decVarint64 (nb b) with
  | error e => rfl
  | ok p =>
    obtain ⟨w, r⟩ := p
    rw [hd] at h
    simp only at h
    split at h <;> cases h


/-! ### 7. flags (flag.go) against `Wire.mkFlag` / `Wire.flagType` / `Wire.flagSub` -/

open DDS.Wire in
/-- `NewFlag t (newSubFlag s)` is the model's `mkFlag t s` (2-bit type, 6-bit sub-flag). -/
theorem NewFlag_newSubFlag (t s : BitVec 8) (ht : t.toNat < 4) (hs : s.toNat < 64) :
    (NewFlag ⟨t⟩ (newSubFlag s)).byte.toNat = Wire.mkFlag t.toNat s.toNat := by
  show (t ||| s <<< 2).toNat = t.toNat + s.toNat * 2 ^ Consts.numBitsForType
  rw [BitVec.toNat_or, BitVec.toNat_shiftLeft, show Consts.numBitsForType = 2 from rfl,
    Nat.or_comm, Nat.shiftLeft_eq, Nat.mod_eq_of_lt (by omega), ← Nat.shiftLeft_eq,
    ← Nat.shiftLeft_add_eq_or_of_lt (by omega), Nat.shiftLeft_eq]
  omega

example : ∃ t s : BitVec 8, t.toNat < 4 ∧ s.toNat < 64 := ⟨3#8, 40#8, by decide, by decide⟩

/-- `newSubFlag s` alone is the flag byte with type 0 -/
theorem newSubFlag_byte (s : BitVec 8) (hs : s.toNat < 64) :
    (newSubFlag s).byte.toNat = Wire.mkFlag 0 s.toNat := by
  show (s <<< 2).toNat = 0 + s.toNat * 2 ^ Consts.numBitsForType
  rw [BitVec.toNat_shiftLeft, show Consts.numBitsForType = 2 from rfl, Nat.shiftLeft_eq,
    Nat.mod_eq_of_lt (by omega)]
  omega

/-- `Flag.Type` is the model's `flagType` -/
theorem Flag_Type (f : Flag) : f.Type.byte.toNat = Wire.flagType f.byte.toNat := by
  show (f.byte &&& 3#8).toNat = f.byte.toNat % 2 ^ Consts.numBitsForType
  rw [BitVec.toNat_and, show (3#8).toNat = 2 ^ 2 - 1 by decide, Nat.and_two_pow_sub_one_eq_mod]
  rfl

theorem and252 : ∀ n, n < 256 → n &&& 252 = n / 4 * 4 := by
  set_option maxRecDepth 8192 in decide

/-- `Flag.SubFlag` keeps the sub-flag bits in place: it is `flagSub` shifted back -/
theorem Flag_SubFlag (f : Flag) :
    f.SubFlag.byte.toNat = Wire.flagSub f.byte.toNat * 2 ^ Consts.numBitsForType := by
  show (f.byte &&& 252#8).toNat = f.byte.toNat / 2 ^ Consts.numBitsForType * 2 ^ Consts.numBitsForType
  rw [BitVec.toNat_and, show (252#8).toNat = 252 by decide, and252 _ f.byte.isLt]
  rfl

/-- `f.SubFlag() == newSubFlag s` is how the decoder dispatches: it is `flagSub f = s` -/
theorem Flag_SubFlag_eq (f : Flag) (s : BitVec 8) (hs : s.toNat < 64) :
    f.SubFlag = newSubFlag s ↔ Wire.flagSub f.byte.toNat = s.toNat := by
  have h1 := Flag_SubFlag f
  have h2 := newSubFlag_byte s hs
  unfold Wire.mkFlag at h2
  rw [show Consts.numBitsForType = 2 from rfl] at h1 h2
  constructor
  · intro h; rw [h] at h1; omega
  · intro h
    have : f.SubFlag.byte = (newSubFlag s).byte := BitVec.eq_of_toNat_eq (by omega)
    cases hf : f.SubFlag; cases hn : newSubFlag s
    rw [hf, hn] at this
    simpa using this

theorem Flag_Type_eq (f : Flag) (t : FlagType) :
    f.Type = t ↔ Wire.flagType f.byte.toNat = t.byte.toNat := by
  rw [← Flag_Type]
  constructor
  · intro h; rw [h]
  · intro h
    have : f.Type.byte = t.byte := BitVec.eq_of_toNat_eq h
    cases hf : f.Type; cases t
    rw [hf] at this
    simpa using this

/-- `Type`/`SubFlag` of a built flag give the parts back (what the Go tests call round trip) -/
theorem mkFlag_parts (t s : BitVec 8) (ht : t.toNat < 4) (hs : s.toNat < 64) :
    (NewFlag ⟨t⟩ (newSubFlag s)).Type = ⟨t⟩ ∧ (NewFlag ⟨t⟩ (newSubFlag s)).SubFlag = newSubFlag s := by
  have hb := NewFlag_newSubFlag t s ht hs
  unfold Wire.mkFlag at hb
  rw [show Consts.numBitsForType = 2 from rfl] at hb
  constructor
  · rw [Flag_Type_eq]
    unfold Wire.flagType
    rw [hb, show Consts.numBitsForType = 2 from rfl]
    show _ = t.toNat
    omega
  · rw [Flag_SubFlag_eq _ _ hs]
    unfold Wire.flagSub
    rw [hb, show Consts.numBitsForType = 2 from rfl]
    omega

/-! the package-level flag values -/

theorem flagTypeSketchFeatures_byte : flagTypeSketchFeatures.byte.toNat = Consts.flagTypeSketchFeatures := by decide
theorem FlagTypeIndexMapping_byte : FlagTypeIndexMapping.byte.toNat = Consts.flagTypeIndexMapping := by decide
theorem FlagTypePositiveStore_byte : FlagTypePositiveStore.byte.toNat = Consts.flagTypePositiveStore := by decide
theorem FlagTypeNegativeStore_byte : FlagTypeNegativeStore.byte.toNat = Consts.flagTypeNegativeStore := by decide
theorem FlagTypePositiveStore_side : FlagTypePositiveStore.byte.toNat = Wire.sideType .pos := by decide
theorem FlagTypeNegativeStore_side : FlagTypeNegativeStore.byte.toNat = Wire.sideType .neg := by decide

theorem FlagZeroCountVarFloat_byte : FlagZeroCountVarFloat.byte.toNat
    = Wire.mkFlag Consts.flagTypeSketchFeatures Consts.subFlagZeroCountVarFloat := by decide
theorem FlagCount_byte : FlagCount.byte.toNat
    = Wire.mkFlag Consts.flagTypeSketchFeatures Consts.subFlagCount := by decide
theorem FlagSum_byte : FlagSum.byte.toNat
    = Wire.mkFlag Consts.flagTypeSketchFeatures Consts.subFlagSum := by decide
theorem FlagMin_byte : FlagMin.byte.toNat
    = Wire.mkFlag Consts.flagTypeSketchFeatures Consts.subFlagMin := by decide
theorem FlagMax_byte : FlagMax.byte.toNat
    = Wire.mkFlag Consts.flagTypeSketchFeatures Consts.subFlagMax := by decide
theorem FlagIndexMappingBaseLogarithmic_byte : FlagIndexMappingBaseLogarithmic.byte.toNat
    = Wire.mkFlag Consts.flagTypeIndexMapping Consts.subFlagIndexMappingBaseLogarithmic := by decide
theorem FlagIndexMappingBaseLinear_byte : FlagIndexMappingBaseLinear.byte.toNat
    = Wire.mkFlag Consts.flagTypeIndexMapping Consts.subFlagIndexMappingBaseLinear := by decide
theorem FlagIndexMappingBaseQuadratic_byte : FlagIndexMappingBaseQuadratic.byte.toNat
    = Wire.mkFlag Consts.flagTypeIndexMapping Consts.subFlagIndexMappingBaseQuadratic := by decide
theorem FlagIndexMappingBaseCubic_byte : FlagIndexMappingBaseCubic.byte.toNat
    = Wire.mkFlag Consts.flagTypeIndexMapping Consts.subFlagIndexMappingBaseCubic := by decide
theorem FlagIndexMappingBaseQuartic_byte : FlagIndexMappingBaseQuartic.byte.toNat
    = Wire.mkFlag Consts.flagTypeIndexMapping Consts.subFlagIndexMappingBaseQuartic := by decide

/-- the bins sub-flags are `newSubFlag` of the model's constants … -/
theorem BinEncodingIndexDeltasAndCounts_byte : BinEncodingIndexDeltasAndCounts.byte.toNat
    = Wire.mkFlag 0 Consts.binEncodingIndexDeltasAndCounts := by decide
theorem BinEncodingIndexDeltas_byte : BinEncodingIndexDeltas.byte.toNat
    = Wire.mkFlag 0 Consts.binEncodingIndexDeltas := by decide
theorem BinEncodingContiguousCounts_byte : BinEncodingContiguousCounts.byte.toNat
    = Wire.mkFlag 0 Consts.binEncodingContiguousCounts := by decide

/-- … so that the store flags `NewFlag storeFlagType binEncoding` are the bytes `encBlock` writes -/
theorem storeFlag_bytes :
    (∀ side (t : FlagType), t.byte.toNat = Wire.sideType side →
      (NewFlag t BinEncodingIndexDeltasAndCounts).byte.toNat
          = Wire.mkFlag (Wire.sideType side) (Wire.payloadSub (.deltasCounts [])) ∧
      (NewFlag t BinEncodingIndexDeltas).byte.toNat
          = Wire.mkFlag (Wire.sideType side) (Wire.payloadSub (.deltas [])) ∧
      (NewFlag t BinEncodingContiguousCounts).byte.toNat
          = Wire.mkFlag (Wire.sideType side) (Wire.payloadSub (.contiguous 0 0 []))) := by
  intro side t ht
  have hlt : t.byte.toNat < 4 := by rw [ht]; cases side <;> decide
  cases t with
  | mk tb =>
    simp only at ht hlt
    refine ⟨?_, ?_, ?_⟩
    · rw [← ht]; exact NewFlag_newSubFlag tb 1#8 hlt (by decide)
    · rw [← ht]; exact NewFlag_newSubFlag tb 2#8 hlt (by decide)
    · rw [← ht]; exact NewFlag_newSubFlag tb 3#8 hlt (by decide)

/-- **7.** `EncodeFlag` appends the flag byte (the model conses it in front of the payload) -/
theorem EncodeFlag_eq (b : List (BitVec 8)) (f : Flag) :
    nb (EncodeFlag b f) = nb b ++ [f.byte.toNat] := by
  simp only [EncodeFlag, nb_append, nb_cons, nb_nil]

/-- **7.** `DecodeFlag`: eof on empty input (input untouched), otherwise first byte and tail —
    exactly the `[]` / `f :: bs` match of `Wire.parseBlock`. -/
theorem DecodeFlag_eq (fuel : Nat) (b : List (BitVec 8)) :
    DecodeFlag fuel b = match b with
      | [] => .ok ([], ⟨0#8⟩, GoErr.eof)
      | n :: tl => .ok (tl, ⟨n⟩, GoErr.nil) := by
  cases b with
  | nil => rfl
  | cons n tl =>
    unfold DecodeFlag
    have h0 : (GoSem.len (n :: tl) == (0 : Int)) = false := by
      rw [beq_eq_false_iff_ne]; unfold GoSem.len; simp only [List.length_cons]; omega
    simp only [h0, Bool.false_eq_true, if_false]
    have h1 : GoSem.idx (n :: tl) 0 = some n := by simp [GoSem.idx]
    have h2 : GoSem.sliceFrom (n :: tl) 1 = some tl := by
      have := sliceFrom_nat (n :: tl) 1 (by simp)
      simpa using this
    rw [h1, optR_some, h2, optR_some]

/-- the same against the model's bytes -/
theorem DecodeFlag_nb (fuel : Nat) (b : List (BitVec 8)) :
    (nb b = [] → DecodeFlag fuel b = .ok (b, ⟨0#8⟩, GoErr.eof)) ∧
    (∀ f bs, nb b = f :: bs → ∃ b', DecodeFlag fuel b = .ok (b', ⟨BitVec.ofNat 8 f⟩, GoErr.nil) ∧ nb b' = bs) := by
  rw [DecodeFlag_eq]
  cases b with
  | nil => exact ⟨fun _ => rfl, fun f bs h => (by cases h)⟩
  | cons n tl =>
    refine ⟨fun h => (by cases h), fun f bs h => ?_⟩
    simp only [nb_cons, List.cons.injEq] at h
    refine ⟨tl, ?_, h.2⟩
    rw [← h.1, BitVec.ofNat_toNat, BitVec.setWidth_eq]

end DDS.GenEncoding
