/-
  DDS.Proofs.GenStoreSim — parametricity of the regenerated sketch (`DDS/Generated/CodeSketch.lean`, generic over
  the interface classes `MapI`, `StoreI`) in the store implementation, proved ONCE for every pair of `StoreI`
  instances related by a simulation.

  1. `StoreSim S₁ S₂` (for two types with `StoreI` instances): a relation `R : S₁ → S₂ → Prop`, an admissibility
     predicate `Adm : Int → Prop` on the indexes handed to `Add`/`AddWithCount`, and the method lemmas as fields:
     related receivers give equal observations (`IsEmpty`, `TotalCount`, `MinIndex`, `MaxIndex`, `KeyAtRank` at
     every float rank) and related receivers again (`Add` and `AddWithCount` at an admissible index — finite counts
     `≥ 0`, non-finite counts unrestricted —, `Clear`, `Copy`, `MergeWith` of related arguments, `Reweight` by any
     float with the same error).  `Encode`, `DecodeAndMergeWith`, `ForEachList` are NOT part of the interface of a
     simulation (the sketch functions below do not call them).
  2. For any `T : StoreSim S₁ S₂` and ANY mapping implementation `M`: `SkSimG T a b` (same mapping object, same zero
     count, stores in `T.R`), `skSimG_new`, and the parametricity theorems `GetCount_paramG`, `GetZeroCount_paramG`,
     `IsEmpty_paramG`, `GetValueAtQuantile_paramG`, `GetMaxValue_paramG`, `GetMinValue_paramG` (equal results),
     `Clear_paramG`, `Copy_paramG`, `AddWithCount_paramG`, `Add_paramG` (same error, related receivers; side
     condition `RoutedG`: the index of the side the value is routed to is admissible), `MergeWith_paramG`,
     `Reweight_paramG`, `runAdds_paramG` (histories of `AddWithCount` calls, refused calls included),
     `history_observers_paramG` (from `NewDDSketch m p n` on related stores: same errors, same observers).
     The proofs are those of `DDS/Proofs/GenPagSketch.lean` with the `sim_*` lemmas replaced by the fields.
  3. `pagStoreSim grow : StoreSim (GPS grow) Store`: the regenerated buffered-paginated store against the model
     stores (relation `GenPagSketch.Sim`, admissible = int32 index), from the existing `sim_*` lemmas;
     `pag_history_observers` re-derives `GenPagSketch.history_observers_param` from the generic theorem.
  4. `StoreSim.refl`, `StoreSim.trans`: simulations compose (the admissible indexes are those of both).

  No fuel hypothesis anywhere (the instances compute their fuel).  Core Lean only.
-/
import DDS.Proofs.GenPagSketch

namespace DDS.GenStoreSim

open DDS DDS.GoSem DDS.Gen.Sketch DDS.GenPagSketch

/-- a simulation between two implementations of the Go interface `store.Store` -/
structure StoreSim (S₁ S₂ : Type) [StoreI S₁] [StoreI S₂] where
  /-- the relation between the receivers -/
  R : S₁ → S₂ → Prop
  /-- the indexes `Add`/`AddWithCount` may be called with -/
  Adm : Int → Prop
  isEmpty : ∀ {x : S₁} {st : S₂}, R x st → (StoreI.IsEmpty x : Bool) = StoreI.IsEmpty st
  totalCount : ∀ {x : S₁} {st : S₂}, R x st → (StoreI.TotalCount x : F64) = StoreI.TotalCount st
  minIndex : ∀ {x : S₁} {st : S₂}, R x st → (StoreI.MinIndex x : Int × GoErr) = StoreI.MinIndex st
  maxIndex : ∀ {x : S₁} {st : S₂}, R x st → (StoreI.MaxIndex x : Int × GoErr) = StoreI.MaxIndex st
  keyAtRank : ∀ {x : S₁} {st : S₂}, R x st → ∀ r : F64, (StoreI.KeyAtRank x r : Int) = StoreI.KeyAtRank st r
  addWithCount : ∀ {x : S₁} {st : S₂}, R x st → ∀ i : Int, Adm i → ∀ c : F64, (∀ w, c = .fin w → 0 ≤ w) →
    R (StoreI.AddWithCount x i c) (StoreI.AddWithCount st i c)
  add : ∀ {x : S₁} {st : S₂}, R x st → ∀ i : Int, Adm i → R (StoreI.Add x i) (StoreI.Add st i)
  clear : ∀ {x : S₁} {st : S₂}, R x st → R (StoreI.Clear x) (StoreI.Clear st)
  copy : ∀ {x : S₁} {st : S₂}, R x st → R (StoreI.Copy x) (StoreI.Copy st)
  mergeWith : ∀ {x y : S₁} {st so : S₂}, R x st → R y so → R (StoreI.MergeWith x y) (StoreI.MergeWith st so)
  reweight : ∀ {x : S₁} {st : S₂}, R x st → ∀ w : F64,
    (StoreI.Reweight x w).2 = (StoreI.Reweight st w).2 ∧ R (StoreI.Reweight x w).1 (StoreI.Reweight st w).1

section sketch

variable {M : Type} [MapI M] [Inhabited M]
variable {S₁ S₂ : Type} [StoreI S₁] [StoreI S₂] [Inhabited S₁] [Inhabited S₂]
variable (T : StoreSim S₁ S₂)

/-- same mapping object, same zero count, stores in simulation -/
structure SkSimG (a : DDSketch M S₁) (b : DDSketch M S₂) : Prop where
  map : a.IndexMapping = b.IndexMapping
  pos : T.R a.positiveValueStore b.positiveValueStore
  neg : T.R a.negativeValueStore b.negativeValueStore
  zero : a.zeroCount = b.zeroCount

theorem GetCount_paramG {a : DDSketch M S₁} {b : DDSketch M S₂} (h : SkSimG T a b) :
    DDSketch.GetCount a = DDSketch.GetCount b := by
  unfold DDSketch.GetCount
  rw [T.totalCount h.pos, T.totalCount h.neg, h.zero]

theorem GetZeroCount_paramG {a : DDSketch M S₁} {b : DDSketch M S₂} (h : SkSimG T a b) :
    DDSketch.GetZeroCount a = DDSketch.GetZeroCount b := h.zero

theorem IsEmpty_paramG {a : DDSketch M S₁} {b : DDSketch M S₂} (h : SkSimG T a b) :
    DDSketch.IsEmpty a = DDSketch.IsEmpty b := by
  unfold DDSketch.IsEmpty
  rw [T.isEmpty h.pos, T.isEmpty h.neg, h.zero]

/-- `GetValueAtQuantile`: the same answer (value and error), for every argument -/
theorem GetValueAtQuantile_paramG {a : DDSketch M S₁} {b : DDSketch M S₂} (h : SkSimG T a b) (q : F64) :
    DDSketch.GetValueAtQuantile a q = DDSketch.GetValueAtQuantile b q := by
  unfold DDSketch.GetValueAtQuantile
  rw [GetCount_paramG T h]
  simp only [T.totalCount h.neg, T.keyAtRank h.pos, T.keyAtRank h.neg, h.zero, h.map]

theorem GetMaxValue_paramG {a : DDSketch M S₁} {b : DDSketch M S₂} (h : SkSimG T a b) :
    DDSketch.GetMaxValue a = DDSketch.GetMaxValue b := by
  unfold DDSketch.GetMaxValue
  simp only [T.isEmpty h.pos, T.maxIndex h.pos, T.minIndex h.neg, h.zero, h.map]

theorem GetMinValue_paramG {a : DDSketch M S₁} {b : DDSketch M S₂} (h : SkSimG T a b) :
    DDSketch.GetMinValue a = DDSketch.GetMinValue b := by
  unfold DDSketch.GetMinValue
  simp only [T.isEmpty h.neg, T.maxIndex h.neg, T.minIndex h.pos, h.zero, h.map]

theorem Clear_paramG {a : DDSketch M S₁} {b : DDSketch M S₂} (h : SkSimG T a b) :
    SkSimG T (DDSketch.Clear a) (DDSketch.Clear b) :=
  ⟨h.map, T.clear h.pos, T.clear h.neg, rfl⟩

theorem Copy_paramG {a : DDSketch M S₁} {b : DDSketch M S₂} (h : SkSimG T a b) :
    SkSimG T (DDSketch.Copy a) (DDSketch.Copy b) :=
  ⟨h.map, T.copy h.pos, T.copy h.neg, h.zero⟩

/-- `AddWithCount(value, count)`: the same error, and the receivers are related again.  Side conditions: the
    index the mapping assigns on the side the value is routed to is an int32. -/
theorem AddWithCount_paramG {a : DDSketch M S₁} {b : DDSketch M S₂} (h : SkSimG T a b) (v c : F64)
    (hp : F64.lt (MapI.MinIndexableValue b.IndexMapping) v = true → T.Adm (MapI.Index b.IndexMapping v))
    (hn : F64.lt v (F64.neg (MapI.MinIndexableValue b.IndexMapping)) = true →
      T.Adm (MapI.Index b.IndexMapping (F64.neg v))) :
    (DDSketch.AddWithCount a v c).2 = (DDSketch.AddWithCount b v c).2 ∧
      SkSimG T (DDSketch.AddWithCount a v c).1 (DDSketch.AddWithCount b v c).1 := by
  cases a with
  | mk ma pa na za =>
  cases b with
  | mk mb pb nb zb =>
  obtain ⟨hm, hpos, hneg, hz⟩ := h
  simp only at hm hz hpos hneg hp hn
  subst hm hz
  unfold DDSketch.AddWithCount
  dsimp only
  by_cases h0 : F64.lt c (.fin 0) = true
  · simp only [h0, if_true]
    exact ⟨trivial, ⟨rfl, hpos, hneg, rfl⟩⟩
  · have hc := nonneg_of_not_lt_zero c (by simpa using h0)
    simp only [h0, Bool.false_eq_true, if_false]
    by_cases h1 : F64.lt (MapI.MinIndexableValue ma) v = true
    · simp only [h1, if_true]
      by_cases h2 : F64.lt (MapI.MaxIndexableValue ma) v = true
      · simp only [h2, if_true]
        exact ⟨trivial, ⟨rfl, hpos, hneg, rfl⟩⟩
      · simp only [h2, Bool.false_eq_true, if_false]
        exact ⟨trivial, ⟨rfl, T.addWithCount hpos _ (hp h1) c hc, hneg, rfl⟩⟩
    · simp only [h1, Bool.false_eq_true, if_false]
      by_cases h3 : F64.lt v (F64.neg (MapI.MinIndexableValue ma)) = true
      · simp only [h3, if_true]
        by_cases h4 : F64.lt v (F64.neg (MapI.MaxIndexableValue ma)) = true
        · simp only [h4, if_true]
          exact ⟨trivial, ⟨rfl, hpos, hneg, rfl⟩⟩
        · simp only [h4, Bool.false_eq_true, if_false]
          exact ⟨trivial, ⟨rfl, hpos, T.addWithCount hneg _ (hn h3) c hc, rfl⟩⟩
      · simp only [h3, Bool.false_eq_true, if_false]
        by_cases h5 : F64.isNaN v = true
        · simp only [h5, if_true]
          exact ⟨trivial, ⟨rfl, hpos, hneg, rfl⟩⟩
        · simp only [h5, Bool.false_eq_true, if_false]
          exact ⟨trivial, ⟨rfl, hpos, hneg, rfl⟩⟩

theorem Add_paramG {a : DDSketch M S₁} {b : DDSketch M S₂} (h : SkSimG T a b) (v : F64)
    (hp : F64.lt (MapI.MinIndexableValue b.IndexMapping) v = true → T.Adm (MapI.Index b.IndexMapping v))
    (hn : F64.lt v (F64.neg (MapI.MinIndexableValue b.IndexMapping)) = true →
      T.Adm (MapI.Index b.IndexMapping (F64.neg v))) :
    (DDSketch.Add a v).2 = (DDSketch.Add b v).2 ∧ SkSimG T (DDSketch.Add a v).1 (DDSketch.Add b v).1 := by
  rw [Add_eq_AddWithCount, Add_eq_AddWithCount]
  exact AddWithCount_paramG T h v (.fin 1) hp hn


/-- `MergeWith`: same error (mapping mismatch or nil), related receivers -/
theorem MergeWith_paramG {a a' : DDSketch M S₁} {b b' : DDSketch M S₂} (h : SkSimG T a b)
    (h' : SkSimG T a' b') :
    (DDSketch.MergeWith a a').2 = (DDSketch.MergeWith b b').2 ∧
      SkSimG T (DDSketch.MergeWith a a').1 (DDSketch.MergeWith b b').1 := by
  unfold DDSketch.MergeWith
  rw [h.map, h'.map]
  by_cases he : (!(MapI.Equals b.IndexMapping b'.IndexMapping)) = true
  · simp only [he, if_true]
    exact ⟨trivial, h⟩
  · simp only [he, Bool.false_eq_true, if_false]
    refine ⟨trivial, ⟨rfl, T.mergeWith h.pos h'.pos, T.mergeWith h.neg h'.neg, ?_⟩⟩
    show F64.add a.zeroCount a'.zeroCount = F64.add b.zeroCount b'.zeroCount
    rw [h.zero, h'.zero]

/-- `Reweight`: same error, related receivers, for every float factor -/
theorem Reweight_paramG {a : DDSketch M S₁} {b : DDSketch M S₂} (h : SkSimG T a b) (w : F64) :
    (DDSketch.Reweight a w).2 = (DDSketch.Reweight b w).2 ∧
      SkSimG T (DDSketch.Reweight a w).1 (DDSketch.Reweight b w).1 := by
  cases a with
  | mk ma pa na za =>
  cases b with
  | mk mb pb nb zb =>
  obtain ⟨hm, hpos, hneg, hz⟩ := h
  simp only at hm hz hpos hneg
  subst hm hz
  unfold DDSketch.Reweight
  dsimp only
  by_cases h0 : F64.le w (.fin 0) = true
  · simp only [h0, if_true]
    exact ⟨trivial, ⟨rfl, hpos, hneg, rfl⟩⟩
  · simp only [h0, Bool.false_eq_true, if_false]
    by_cases h1 : F64.eq w (.fin 1) = true
    · simp only [h1, if_true]
      exact ⟨trivial, ⟨rfl, hpos, hneg, rfl⟩⟩
    · simp only [h1, Bool.false_eq_true, if_false]
      obtain ⟨e1, s1⟩ := T.reweight hpos w
      obtain ⟨e2, s2⟩ := T.reweight hneg w
      generalize (StoreI.Reweight pa w : S₁ × GoErr) = ra at e1 s1
      generalize (StoreI.Reweight pb w : S₂ × GoErr) = rb at e1 s1
      generalize (StoreI.Reweight na w : S₁ × GoErr) = rna at e2 s2
      generalize (StoreI.Reweight nb w : S₂ × GoErr) = rnb at e2 s2
      obtain ⟨ta, ea⟩ := ra
      obtain ⟨tb, eb⟩ := rb
      obtain ⟨tna, ena⟩ := rna
      obtain ⟨tnb, enb⟩ := rnb
      simp only at e1 s1 e2 s2
      subst e1 e2
      dsimp only
      by_cases h2 : (ea != GoErr.nil) = true
      · simp only [h2, if_true]
        exact ⟨trivial, ⟨rfl, s1, hneg, rfl⟩⟩
      · simp only [h2, Bool.false_eq_true, if_false]
        by_cases h3 : (ena != GoErr.nil) = true
        · simp only [h3, if_true]
          exact ⟨trivial, ⟨rfl, s1, s2, rfl⟩⟩
        · simp only [h3, Bool.false_eq_true, if_false]
          exact ⟨trivial, ⟨rfl, s1, s2, rfl⟩⟩

/-- the index condition of `AddWithCount_paramG T` for the mapping object `m` and the value `v` -/
def RoutedG (m : M) (v : F64) : Prop :=
  (F64.lt (MapI.MinIndexableValue m) v = true → T.Adm (MapI.Index m v)) ∧
  (F64.lt v (F64.neg (MapI.MinIndexableValue m)) = true → T.Adm (MapI.Index m (F64.neg v)))

/-- **histories**: every sequence of `AddWithCount` calls (any values, any counts — refused calls included) whose
    routed indexes are int32 returns the same errors on the regenerated store as on the model store, and ends in
    related sketches -/
theorem runAdds_paramG (l : List (F64 × F64)) :
    ∀ {a : DDSketch M S₁} {b : DDSketch M S₂}, SkSimG T a b →
      (∀ p ∈ l, RoutedG T b.IndexMapping p.1) →
      (runAdds a l).2 = (runAdds b l).2 ∧ SkSimG T (runAdds a l).1 (runAdds b l).1 := by
  induction l with
  | nil => intro a b h _; exact ⟨rfl, h⟩
  | cons p rest ih =>
    intro a b h hl
    obtain ⟨v, c⟩ := p
    have hv := hl (v, c) (List.mem_cons_self ..)
    obtain ⟨e1, s1⟩ := AddWithCount_paramG T h v c hv.1 hv.2
    obtain ⟨e2, s2⟩ := ih s1 (fun q hq => by
      rw [AddWithCount_mapping]; exact hl q (List.mem_cons_of_mem _ hq))
    refine ⟨?_, s2⟩
    show (DDSketch.AddWithCount a v c).2 :: _ = (DDSketch.AddWithCount b v c).2 :: _
    rw [e1, e2]

/-- `NewDDSketch(m, p, n)` on related stores -/
theorem skSimG_new (m : M) {p₁ n₁ : S₁} {p₂ n₂ : S₂} (hp : T.R p₁ p₂) (hn : T.R n₁ n₂) :
    SkSimG T (NewDDSketch m p₁ n₁) (NewDDSketch m p₂ n₂) :=
  ⟨rfl, hp, hn, rfl⟩

/-- the payoff: after any history of `AddWithCount` calls with admissible routed indexes from `NewDDSketch` on
    related stores, the errors returned and every observer agree -/
theorem history_observers_paramG (m : M) {p₁ n₁ : S₁} {p₂ n₂ : S₂} (hp : T.R p₁ p₂) (hn : T.R n₁ n₂)
    (l : List (F64 × F64)) (hl : ∀ p ∈ l, RoutedG T m p.1) :
    let a := runAdds (NewDDSketch m p₁ n₁) l
    let b := runAdds (NewDDSketch m p₂ n₂) l
    a.2 = b.2 ∧ DDSketch.GetCount a.1 = DDSketch.GetCount b.1 ∧ DDSketch.IsEmpty a.1 = DDSketch.IsEmpty b.1 ∧
    (∀ q, DDSketch.GetValueAtQuantile a.1 q = DDSketch.GetValueAtQuantile b.1 q) ∧
    DDSketch.GetMinValue a.1 = DDSketch.GetMinValue b.1 ∧ DDSketch.GetMaxValue a.1 = DDSketch.GetMaxValue b.1 := by
  intro a b
  obtain ⟨he, hs⟩ := runAdds_paramG T l (skSimG_new T m hp hn) hl
  exact ⟨he, GetCount_paramG T hs, IsEmpty_paramG T hs, fun q => GetValueAtQuantile_paramG T hs q,
    GetMinValue_paramG T hs, GetMaxValue_paramG T hs⟩

end sketch

/-! ### the paginated instance -/

/-- the regenerated buffered-paginated store simulates the model stores (`GenPagSketch.Sim`; int32 indexes) -/
def pagStoreSim (grow : Int → Int → Int) : StoreSim (GPS grow) Store where
  R := Sim
  Adm := PStore.Idx32
  isEmpty := sim_isEmpty
  totalCount := sim_totalCount
  minIndex := sim_minIndex
  maxIndex := sim_maxIndex
  keyAtRank := sim_keyAtRank
  addWithCount := sim_addWithCount
  add := sim_add
  clear := sim_clear
  copy := sim_copy
  mergeWith := sim_mergeWith
  reweight := sim_reweight

theorem pag_routed {M : Type} [MapI M] (grow : Int → Int → Int) (m : M) (v : F64) :
    RoutedG (pagStoreSim grow) m v ↔ Routed32 m v := Iff.rfl

/-- `GenPagSketch.history_observers_param` as an instance of the generic theorem -/
theorem pag_history_observers {M : Type} [MapI M] [Inhabited M] (grow : Int → Int → Int) (m : M)
    (l : List (F64 × F64)) (hl : ∀ p ∈ l, Routed32 m p.1) :
    let a := runAdds (NewDDSketch m (⟨Gen.Paginated.NewBufferedPaginatedStore⟩ : GPS grow)
      ⟨Gen.Paginated.NewBufferedPaginatedStore⟩) l
    let b := runAdds (NewDDSketch m (Store.new .pag) (Store.new .pag)) l
    a.2 = b.2 ∧ DDSketch.GetCount a.1 = DDSketch.GetCount b.1 ∧ DDSketch.IsEmpty a.1 = DDSketch.IsEmpty b.1 ∧
    (∀ q, DDSketch.GetValueAtQuantile a.1 q = DDSketch.GetValueAtQuantile b.1 q) ∧
    DDSketch.GetMinValue a.1 = DDSketch.GetMinValue b.1 ∧ DDSketch.GetMaxValue a.1 = DDSketch.GetMaxValue b.1 :=
  history_observers_paramG (pagStoreSim grow) m sim_new sim_new l hl

/-! ### simulations compose -/

/-- every implementation simulates itself -/
def StoreSim.refl (S : Type) [StoreI S] : StoreSim S S where
  R := Eq
  Adm := fun _ => True
  isEmpty := fun h => by rw [h]
  totalCount := fun h => by rw [h]
  minIndex := fun h => by rw [h]
  maxIndex := fun h => by rw [h]
  keyAtRank := fun h _ => by rw [h]
  addWithCount := fun h _ _ _ _ => by rw [h]
  add := fun h _ _ => by rw [h]
  clear := fun h => by rw [h]
  copy := fun h => by rw [h]
  mergeWith := fun h h' => by rw [h, h']
  reweight := fun h _ => by rw [h]; exact ⟨rfl, rfl⟩

/-- composition: the middle receiver is existentially quantified -/
def StoreSim.trans {S₁ S₂ S₃ : Type} [StoreI S₁] [StoreI S₂] [StoreI S₃] (T : StoreSim S₁ S₂)
    (U : StoreSim S₂ S₃) : StoreSim S₁ S₃ where
  R := fun x z => ∃ y, T.R x y ∧ U.R y z
  Adm := fun i => T.Adm i ∧ U.Adm i
  isEmpty := fun ⟨_, h, h'⟩ => (T.isEmpty h).trans (U.isEmpty h')
  totalCount := fun ⟨_, h, h'⟩ => (T.totalCount h).trans (U.totalCount h')
  minIndex := fun ⟨_, h, h'⟩ => (T.minIndex h).trans (U.minIndex h')
  maxIndex := fun ⟨_, h, h'⟩ => (T.maxIndex h).trans (U.maxIndex h')
  keyAtRank := fun ⟨_, h, h'⟩ r => (T.keyAtRank h r).trans (U.keyAtRank h' r)
  addWithCount := fun ⟨_, h, h'⟩ i hi c hc => ⟨_, T.addWithCount h i hi.1 c hc, U.addWithCount h' i hi.2 c hc⟩
  add := fun ⟨_, h, h'⟩ i hi => ⟨_, T.add h i hi.1, U.add h' i hi.2⟩
  clear := fun ⟨_, h, h'⟩ => ⟨_, T.clear h, U.clear h'⟩
  copy := fun ⟨_, h, h'⟩ => ⟨_, T.copy h, U.copy h'⟩
  mergeWith := fun ⟨_, h, h'⟩ ⟨_, k, k'⟩ => ⟨_, T.mergeWith h k, U.mergeWith h' k'⟩
  reweight := fun ⟨_, h, h'⟩ w =>
    ⟨(T.reweight h w).1.trans (U.reweight h' w).1, _, (T.reweight h w).2, (U.reweight h' w).2⟩

end DDS.GenStoreSim
