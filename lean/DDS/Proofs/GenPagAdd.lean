/-
  DDS.Proofs.GenPagAdd — the mutators of the REGENERATED buffered-paginated store
  (`DDS/Generated/CodePaginated.lean`, namespace `DDS.Gen.Paginated`) equal the hand-written model
  `DDS.PStore` (`DDS/Model/Paginated.lean`).  Everything is stated for ALL model stores `s`, all buffer
  capacities `cap`, all `grow` oracles; no store invariant is assumed anywhere.  `page` enters through the
  interface hypothesis `PageSpec` (proved in `GenPagBase.page_spec`).

  PROVED
  * `sortBuffer_eq`      : `sortBuffer (toGen s cap) = toGen { s with buffer := sortInts s.buffer } cap` (by `rfl`).
  * `compact_spec`       : `PageSpec → CompactSpec compactFuel`.  Inner loops: `compact_loop2_eq` (the page group goes
                           to the lines of its page = `foldlM addAtPage`), `compact_loop3_eq` (end of the group =
                           `spanPage`), `compact_loop1_eq` (outer loop = `compactLoop`; loop invariant: generated
                           buffer = `kept.reverse ++ remaining`, `bufferPos = kept.length`; `copyWithin` + re-slice
                           removes the group: `copyWithin_group`, `sliceTo_group`).
  * `add_spec`           : `PageSpec → AddSpec addFuel`
  * `addWithCount_spec`  : `PageSpec → AddWithCountSpec addFuel`;  `addBin_spec`.
  * `addWithCount_weight`: for a count other than 0 and 1 `AddWithCount` is an EQUATION (`toRes`, the capacity is kept,
                           the model's compaction bit is irrelevant — `addWithCount_bit_irrelevant`).
  * `reweight_nonpos`, `reweight_one`, `reweight_spec`: `Reweight` returns the error and the unchanged store for `w ≤ 0`,
                           the unchanged store for `w = 1`, and otherwise equals the model's `reweight` (an equation,
                           the capacity is kept).
  * model facts that need no invariant: `page_setBuf` (`page` ignores the buffer), `page_props` (`page` keeps
    `pageLenLog2`; a slot answer `some k` is the slot of the page, in range, holding a non-empty page),
    `compactLoop_log2`.

  FUEL (all bounds are plain functions of the store, hence satisfiable)
  * `compactFuel s = loopFuel s (len + 1) (sortInts s.buffer)`: the trace of the model's loop — per page group one
    unit plus the maximum of the group length (`loop3`), `pageFuel` of the group's page in the current store (`page`)
    and the fuel of the rest.
  * `addFuel s i = max (compactFuel s) (pageFuel s (s.pageIndex i))`.
  * `reweightFuel s w`: maximum of `pageFuel` over the re-inserted buffer entries along the model's run.

  DISAGREEMENTS: none found.  `compact`, `Add`, `AddWithCount`, `AddBin`, `Reweight` agree with the model on all inputs,
  including the runs that end in a Go panic (`none` ↔ `.panic`).
-/
import DDS.Proofs.GenPagBase
import DDS.Proofs.PagCompact
import DDS.Proofs.Paginated

namespace DDS.GenPag

open DDS DDS.GoSem DDS.GenDense DDS.PStore
open DDS.Gen.Paginated

theorem elimL_done {σ σ' ρ : Type} (s : σ) (k : σ → Loop σ' ρ) : Loop.elimL (.done s) k = k s := rfl
theorem elimL_panic {σ σ' ρ : Type} (k : σ → Loop σ' ρ) : Loop.elimL (.panic : Loop σ ρ) k = .panic := rfl

/-! ### `sortBuffer` -/

theorem sortBuffer_eq (s : PStore) (cap : Int) :
    BufferedPaginatedStore.sortBuffer (toGen s cap)
      = toGen { s with buffer := PStore.sortInts s.buffer } cap := rfl

/-! ### the model with another buffer -/

/-- replace the buffer -/
def setBuf (s : PStore) (B : List Int) : PStore := { s with buffer := B }
@[simp] theorem setBuf_pages (s : PStore) (B : List Int) : (setBuf s B).pages = s.pages := rfl
@[simp] theorem setBuf_minPageIndex (s : PStore) (B : List Int) : (setBuf s B).minPageIndex = s.minPageIndex := rfl

@[simp] theorem setBuf_buffer (s : PStore) (B : List Int) : (setBuf s B).buffer = B := rfl
@[simp] theorem setBuf_trigger (s : PStore) (B : List Int) : (setBuf s B).trigger = s.trigger := rfl
@[simp] theorem setBuf_pageLenLog2 (s : PStore) (B : List Int) : (setBuf s B).pageLenLog2 = s.pageLenLog2 := rfl
@[simp] theorem setBuf_pageLen (s : PStore) (B : List Int) : (setBuf s B).pageLen = s.pageLen := rfl
@[simp] theorem setBuf_pageIndex (s : PStore) (B : List Int) (i : Int) : (setBuf s B).pageIndex i = s.pageIndex i := rfl
@[simp] theorem setBuf_lineIndex (s : PStore) (B : List Int) (i : Int) : (setBuf s B).lineIndex i = s.lineIndex i := rfl
@[simp] theorem setBuf_setBuf (s : PStore) (B B' : List Int) : setBuf (setBuf s B) B' = setBuf s B' := rfl
@[simp] theorem setBuf_self (s : PStore) : setBuf s s.buffer = s := rfl

theorem slot?_setBuf (s : PStore) (B : List Int) (p : Int) : (setBuf s B).slot? p = s.slot? p := rfl
theorem materialize_setBuf (s : PStore) (B : List Int) (k : Nat) :
    (setBuf s B).materialize k = setBuf (s.materialize k) B := by
  unfold PStore.materialize
  by_cases h : (s.pages.getD k #[]).size = 0
  · rw [if_pos h, if_pos (by exact h)]; rfl
  · rw [if_neg h, if_neg (by exact h)]

theorem extend_setBuf (s : PStore) (B : List Int) (p : Int) :
    PStore.extend (setBuf s B) p = (PStore.extend s p).map (fun r => setBuf r B) := by
  obtain ⟨buf, trig, pages, m, l⟩ := s
  unfold PStore.extend setBuf
  dsimp only
  by_cases h1 : p < m
  · simp only [if_pos h1]
    by_cases h2 : m = maxInt
    · simp only [if_pos h2]
      by_cases h3 : pages.size = 0
      · simp only [if_pos h3, Option.map_some]
      · simp only [if_neg h3, Option.map_some]
    · simp only [if_neg h2]
      split
      · rfl
      · rfl
  · simp only [if_neg h1]
    split
    · rfl
    · rfl

theorem page_setBuf (s : PStore) (B : List Int) (p : Int) (e : Bool) :
    (setBuf s B).page p e = (s.page p e).map (fun r => (setBuf r.1 B, r.2)) := by
  cases hs : s.slot? p with
  | some k =>
    unfold PStore.page
    rw [slot?_setBuf, hs]
    cases e
    · rfl
    · simp only [if_true, materialize_setBuf, Option.map_some, setBuf_pages]
  | none =>
    cases e
    · unfold PStore.page
      rw [slot?_setBuf, hs]
      rfl
    · rw [page_of_slot_none _ _ hs, page_of_slot_none _ _ (by rw [slot?_setBuf]; exact hs), extend_setBuf]
      cases PStore.extend s p with
      | none => rfl
      | some s1 =>
        simp only [Option.map_some, setBuf_minPageIndex, setBuf_pages, materialize_setBuf]
        split <;> rfl
/-! ### frame properties of the model's `page` (no invariant needed) -/

theorem extend_log2 (s s1 : PStore) (p : Int) (h : PStore.extend s p = some s1) :
    s1.pageLenLog2 = s.pageLenLog2 := by
  obtain ⟨buf, trig, pages, m, l⟩ := s
  unfold PStore.extend at h
  dsimp only at h
  split at h
  · split at h
    · cases h; dsimp only; split <;> rfl
    · split at h
      · cases h
      · cases h; rfl
  · split at h
    · cases h
    · cases h; rfl

theorem materialize_getD_size (s : PStore) (k : Nat) (hk : k < s.pages.size) :
    0 < ((s.materialize k).pages.getD k #[]).size := by
  unfold PStore.materialize
  by_cases h : (s.pages.getD k #[]).size = 0
  · rw [if_pos h]
    dsimp only
    rw [PStore.getD_setIfInBounds, if_pos ⟨rfl, hk⟩, PStore.zeroPage_size]
    exact pageLen_pos s
  · rw [if_neg h]; omega

/-- what `page` returns: same `pageLenLog2`; a slot answer `some k` is the slot of page `p`, inside the
    table, holding a materialised page -/
theorem page_props (s s' : PStore) (p : Int) (e : Bool) (k? : Option Nat) (h : s.page p e = some (s', k?)) :
    s'.pageLenLog2 = s.pageLenLog2 ∧
      ∀ k, k? = some k → k < s'.pages.size ∧ 0 < (s'.pages.getD k #[]).size ∧ (k : Int) = p - s'.minPageIndex := by
  cases hs : s.slot? p with
  | some k0 =>
    unfold PStore.page at h
    rw [hs] at h
    simp only [Option.some.injEq, Prod.mk.injEq] at h
    obtain ⟨h1, h2⟩ := h
    rw [PStore.slot?_eq_some] at hs
    have hfr : s'.minPageIndex = s.minPageIndex ∧ s'.pageLenLog2 = s.pageLenLog2 ∧ s'.pages.size = s.pages.size := by
      rw [← h1]; split
      · exact PagCompact.materialize_frame s k0
      · exact ⟨rfl, rfl, rfl⟩
    refine ⟨hfr.2.1, ?_⟩
    intro k hk
    rw [h1, hk] at h2
    split at h2
    · cases h2
    · rename_i hsz
      simp only [Option.some.injEq] at h2
      subst h2
      refine ⟨by omega, by omega, by omega⟩
  | none =>
    cases e with
    | false =>
      unfold PStore.page at h
      rw [hs] at h
      simp only [Bool.not_false, if_true, Option.some.injEq, Prod.mk.injEq] at h
      obtain ⟨rfl, rfl⟩ := h
      exact ⟨rfl, fun k hk => by cases hk⟩
    | true =>
      rw [PStore.page_of_slot_none _ _ hs] at h
      cases he : PStore.extend s p with
      | none => rw [he] at h; cases h
      | some s1 =>
        rw [he] at h
        dsimp only at h
        split at h
        · rename_i hk
          simp only [Option.some.injEq, Prod.mk.injEq] at h
          obtain ⟨rfl, rfl⟩ := h
          obtain ⟨f1, f2, f3⟩ := PagCompact.materialize_frame s1 (p - s1.minPageIndex).toNat
          refine ⟨by rw [f2, extend_log2 s s1 p he], ?_⟩
          intro k hk'
          simp only [Option.some.injEq] at hk'
          subst hk'
          refine ⟨by omega, materialize_getD_size _ _ (by omega), by omega⟩
        · cases h

/-! ### `compact`: the inner loops -/

/-- `s.pages[k] = page` on the generated page table -/
theorem set_pagesL_nat (s : PStore) (k : Nat) (a : Array Rat) :
    GoSem.set (pagesL s) (k : Int) a.toList
      = if k < s.pages.size then some (pagesL { s with pages := s.pages.setIfInBounds k a }) else none := by
  unfold GoSem.set pagesL
  by_cases h : k < s.pages.size
  · rw [if_neg (by simp; omega), if_pos h]
    simp [List.map_set]
  · rw [if_pos (by simp; omega), if_neg h]

@[simp] theorem pagesL_setBuf (s : PStore) (B : List Int) : pagesL (setBuf s B) = pagesL s := rfl

/-- the model step of loop2 -/
def addLine (k : Nat) (acc : PStore) (i : Int) : Option PStore := addAtPage acc k (acc.lineIndex i) 1

/-- loop2 of `compact`: the entries of one page group go to the lines of their page; `newPage` aliases
    `s.pages[k]` -/
theorem compact_loop2_eq (cap : Int) (k : Nat) (B : List Int) : ∀ (grp : List Int) (s : PStore),
    BufferedPaginatedStore.compact.loop2 (k : Int) grp (s.pages.getD k #[]).toList (toGen (setBuf s B) cap)
      = match grp.foldlM (addLine k) s with
        | none => .panic
        | some s2 => .done ((s2.pages.getD k #[]).toList, toGen (setBuf s2 B) cap) := by
  intro grp
  induction grp with
  | nil => intro s; rfl
  | cons i grp ih =>
    intro s
    unfold BufferedPaginatedStore.compact.loop2
    rw [gen_lineIndex, setBuf_lineIndex, addAt_toList_L]
    simp only [List.foldlM_cons, addLine, PStore.addAtPage]
    by_cases h1 : s.lineIndex i < (s.pages.getD k #[]).size
    · have ha : DStore.addAt (s.pages.getD k #[]) (s.lineIndex i : Int) 1
          = some ((s.pages.getD k #[]).setIfInBounds (s.lineIndex i) ((s.pages.getD k #[]).getD (s.lineIndex i) 0 + 1)) := by
        unfold DStore.addAt; rw [if_pos (by omega)]; simp
      rw [ha]
      simp only [Option.map_some, optL_some, toGen_pages, pagesL_setBuf, set_pagesL_nat]
      by_cases h2 : k < s.pages.size
      · rw [if_pos h2, if_pos ⟨h2, h1⟩]
        simp only [optL_some, Option.bind_eq_bind, Option.bind_some]
        have := ih { s with pages := s.pages.setIfInBounds k ((s.pages.getD k #[]).setIfInBounds (s.lineIndex i) ((s.pages.getD k #[]).getD (s.lineIndex i) 0 + 1)) }
        simp only [PStore.getD_setIfInBounds, true_and, if_pos h2] at this
        exact this
      · rw [if_neg h2, if_neg (fun h => h2 h.1)]
        rfl
    · have ha : DStore.addAt (s.pages.getD k #[]) (s.lineIndex i : Int) 1 = none := by
        unfold DStore.addAt; rw [if_neg (by omega)]
      rw [ha, if_neg (fun h => h1 h.2)]
      rfl

theorem idx_append_cons {α : Type} (pre : List α) (x : α) (xs : List α) :
    GoSem.idx (pre ++ x :: xs) (pre.length : Int) = some x := by
  unfold GoSem.idx
  rw [if_neg (by omega)]
  simp

theorem spanPage_cons_pos (s : PStore) (p x : Int) (xs : List Int) (h : s.pageIndex x = p) :
    s.spanPage p (x :: xs) = (x :: (s.spanPage p xs).1, (s.spanPage p xs).2) := by
  rw [PStore.spanPage, if_pos h]

theorem spanPage_cons_neg (s : PStore) (p x : Int) (xs : List Int) (h : ¬ s.pageIndex x = p) :
    s.spanPage p (x :: xs) = ([], x :: xs) := by
  rw [PStore.spanPage, if_neg h]

/-- loop3 of `compact`: the end of the group of entries on page `p` -/
theorem compact_loop3_eq (cap : Int) (s : PStore) (p : Int) : ∀ (l pre : List Int) (fuel : Nat),
    (s.spanPage p l).1.length + 1 ≤ fuel →
    BufferedPaginatedStore.compact.loop3 (toGen (setBuf s (pre ++ l)) cap) p fuel (pre.length : Int)
      = .done ((pre.length : Int) + ((s.spanPage p l).1.length : Int)) := by
  intro l
  induction l with
  | nil =>
    intro pre fuel hf
    obtain ⟨f, rfl⟩ : ∃ f, fuel = f + 1 := ⟨fuel - 1, by omega⟩
    unfold BufferedPaginatedStore.compact.loop3
    simp [GoSem.len, PStore.spanPage]
  | cons x xs ih =>
    intro pre fuel hf
    obtain ⟨f, rfl⟩ : ∃ f, fuel = f + 1 := ⟨fuel - 1, by omega⟩
    unfold BufferedPaginatedStore.compact.loop3
    have hlt : (pre.length : Int) < GoSem.len (pre ++ x :: xs) := by
      simp [GoSem.len]
    simp only [toGen_buffer, setBuf_buffer, hlt, decide_true, if_true, idx_append_cons, optL_some,
      gen_pageIndex, setBuf_pageIndex]
    by_cases hp : s.pageIndex x = p
    · rw [spanPage_cons_pos s p x xs hp] at hf ⊢
      simp only [List.length_cons] at hf
      have := ih (pre ++ [x]) f (by omega)
      simp only [List.append_assoc, List.singleton_append, List.length_append, List.length_cons,
        List.length_nil] at this
      rw [if_pos (by simpa using hp)]
      simp only [List.length_cons]
      rw [show ((pre.length : Int) + 1) = ((pre.length + (0 + 1) : Nat) : Int) by omega, this]
      congr 1; omega
    · rw [spanPage_cons_neg s p x xs hp]
      rw [if_neg (by simpa using hp)]
      simp

/-! ### `compact`: removing a group from the buffer -/

theorem slice_group (A G R : List Int) :
    GoSem.slice (A ++ (G ++ R)) (A.length : Int) ((A.length + G.length : Nat) : Int) = some G := by
  unfold GoSem.slice
  rw [if_neg (by simp only [List.length_append]; omega)]
  simp only [Int.toNat_natCast]
  rw [← List.append_assoc, List.take_left' (by simp), List.drop_left]

theorem copyWithin_group (A G R : List Int) :
    GoSem.copyWithin (A ++ (G ++ R)) (A.length : Int) ((A.length + G.length : Nat) : Int)
        (GoSem.len (A ++ (G ++ R)))
      = some (A ++ R ++ (G ++ R).drop R.length) := by
  unfold GoSem.copyWithin GoSem.len
  rw [if_neg (by simp only [List.length_append]; omega)]
  simp only [Int.toNat_natCast, List.length_append]
  rw [show min (A.length + (G.length + R.length) - A.length)
      (A.length + (G.length + R.length) - (A.length + G.length)) = R.length by omega]
  have h1 : List.drop (A.length + G.length) (A ++ (G ++ R)) = R := by
    rw [← List.append_assoc, List.drop_left' (by simp)]
  have h2 : List.drop (A.length + R.length) (A ++ (G ++ R)) = List.drop R.length (G ++ R) := by
    rw [← List.drop_drop, List.drop_left]
  rw [List.take_left, h1, h2, List.take_length]

theorem sliceTo_group (A R J : List Int) (g : Nat) (hJ : J.length = g) :
    GoSem.sliceTo (A ++ R ++ J) (GoSem.len (A ++ R ++ J) + (A.length : Int) - ((A.length + g : Nat) : Int))
      = some (A ++ R) := by
  unfold GoSem.sliceTo GoSem.len
  rw [if_neg (by simp only [List.length_append]; omega)]
  have : ((((A ++ R ++ J).length : Nat) : Int) + (A.length : Int) - ((A.length + g : Nat) : Int)).toNat
      = (A ++ R).length := by simp only [List.length_append]; omega
  rw [this, List.take_left]

/-! ### `compact`: the outer loop -/

theorem foldlM_addLine_eq (k : Nat) (grp : List Int) (s : PStore) :
    grp.foldlM (fun acc i => addAtPage acc k (acc.lineIndex i) 1) s = grp.foldlM (addLine k) s := rfl

theorem addLine_log2 (k : Nat) (s s' : PStore) (i : Int) (h : addLine k s i = some s') :
    s'.pageLenLog2 = s.pageLenLog2 := by
  unfold addLine PStore.addAtPage at h
  simp only at h
  split at h
  · cases h; rfl
  · cases h

theorem foldlM_addLine_log2 (k : Nat) : ∀ (grp : List Int) (s s' : PStore),
    grp.foldlM (addLine k) s = some s' → s'.pageLenLog2 = s.pageLenLog2 := by
  intro grp
  induction grp with
  | nil => intro s s' h; cases h; rfl
  | cons i grp ih =>
    intro s s' h
    simp only [List.foldlM_cons, Option.bind_eq_bind, Option.bind_eq_some_iff] at h
    obtain ⟨s1, h1, h2⟩ := h
    rw [ih s1 s' h2, addLine_log2 k s s1 i h1]

/-- fuel for the outer loop of `compact`, following the model's `compactLoop`: one unit per group, plus what
    the group scan (`loop3`) and `page` need inside the iteration -/
def loopFuel : PStore → Nat → List Int → Nat
  | _, 0, _ => 1
  | _, _ + 1, [] => 1
  | s, n + 1, x :: xs =>
    max (max (s.spanPage (s.pageIndex x) (x :: xs)).1.length (pageFuel s (s.pageIndex x)))
      (match s.page (s.pageIndex x)
          (decide ((s.spanPage (s.pageIndex x) (x :: xs)).1.length * 64 ≥ s.pageLen * 64)) with
        | none => 0
        | some (s', some k) =>
          match (s.spanPage (s.pageIndex x) (x :: xs)).1.foldlM (addLine k) s' with
          | none => 0
          | some s'' => loopFuel s'' n (s.spanPage (s.pageIndex x) (x :: xs)).2
        | some (s', none) => loopFuel s' n (s.spanPage (s.pageIndex x) (x :: xs)).2) + 1

theorem compact_loop1_nil (cap : Int) (L : Int) (sm : PStore) (kept : List Int) (fuel : Nat) (hf : 1 ≤ fuel) :
    BufferedPaginatedStore.compact.loop1 L fuel (kept.length : Int) (toGen (setBuf sm (kept.reverse ++ [])) cap)
      = .done ((kept.reverse.length : Int), toGen (setBuf sm kept.reverse) cap) := by
  obtain ⟨f, rfl⟩ : ∃ f, fuel = f + 1 := ⟨fuel - 1, by omega⟩
  unfold BufferedPaginatedStore.compact.loop1
  simp [GoSem.len]

theorem compact_loop1_eq (hpage : PageSpec) (cap : Int) : ∀ (n : Nat) (l : List Int) (sm : PStore)
    (kept : List Int) (fuel : Nat), l.length ≤ n → loopFuel sm n l ≤ fuel →
    BufferedPaginatedStore.compact.loop1 ((sm.pageLen : Nat) : Int) fuel (kept.length : Int)
        (toGen (setBuf sm (kept.reverse ++ l)) cap)
      = match sm.compactLoop n l kept with
        | none => .panic
        | some r => .done ((r.2.length : Int), toGen (setBuf r.1 r.2) cap) := by
  intro n
  induction n with
  | zero =>
    intro l sm kept fuel hl hf
    have : l = [] := List.eq_nil_of_length_eq_zero (by omega)
    subst this
    rw [compact_loop1_nil cap _ sm kept fuel (by simpa [loopFuel] using hf)]
    rfl
  | succ n ih =>
    intro l sm kept fuel hl hf
    cases l with
    | nil =>
      rw [compact_loop1_nil cap _ sm kept fuel (by simpa [loopFuel] using hf)]
      rfl
    | cons x xs =>
      obtain ⟨A, hA⟩ : ∃ A, A = kept.reverse := ⟨_, rfl⟩
      have hAl : (kept.length : Int) = (A.length : Int) := by rw [hA, List.length_reverse]
      have hab := (PagCompact.spanPage_spec sm (sm.pageIndex x) xs).1
      rw [loopFuel] at hf
      unfold PStore.compactLoop
      dsimp only
      rw [spanPage_cons_pos sm _ x xs rfl] at hf ⊢
      generalize hsp : sm.spanPage (sm.pageIndex x) xs = ab at hab hf ⊢
      obtain ⟨a, b⟩ := ab
      simp only at hab hf ⊢
      subst hab
      obtain ⟨f, rfl⟩ : ∃ f, fuel = f + 1 := ⟨fuel - 1, by omega⟩
      rw [← hA, hAl]
      unfold BufferedPaginatedStore.compact.loop1
      have hlt : (A.length : Int) < GoSem.len (A ++ x :: (a ++ b)) := by
        simp only [GoSem.len, List.length_append, List.length_cons]; omega
      simp only [List.length_cons] at hf hl
      have hl3 := compact_loop3_eq cap sm (sm.pageIndex x) (a ++ b) (A ++ [x]) f (by rw [hsp]; simp only; omega)
      rw [hsp] at hl3
      simp only [List.append_assoc, List.singleton_append, List.length_append, List.length_cons,
        List.length_nil, Nat.zero_add] at hl3
      push_cast at hl3
      simp only [toGen_buffer, setBuf_buffer, hlt, decide_true, if_true, idx_append_cons, optL_some,
        gen_pageIndex, setBuf_pageIndex, hl3, elimL_done]
      have hE : decide ((sm.pageLen : Int) * 64 ≤ ((A.length : Int) + 1 + (a.length : Int) - (A.length : Int)) * 64)
          = decide ((a.length + 1) * 64 ≥ sm.pageLen * 64) := by
        rw [decide_eq_decide]; omega
      rw [hE]
      generalize decide ((a.length + 1) * 64 ≥ sm.pageLen * 64) = e at hf ⊢
      rw [hpage (setBuf sm _) cap _ e f (by show pageFuel sm _ ≤ f; omega), page_setBuf]
      cases hpg : sm.page (sm.pageIndex x) e with
      | none => rfl
      | some r =>
        obtain ⟨s1, k?⟩ := r
        rw [hpg] at hf
        obtain ⟨hlog, hslot⟩ := page_props sm s1 _ e k? hpg
        have hpl : s1.pageLen = sm.pageLen := PStore.pageLen_congr hlog
        simp only [Option.map_some, toRes_some, Res.bindL_ok]
        cases k? with
        | none =>
          simp only at hf
          have h0 : ¬ ((0 : Int) < GoSem.len (pageOf (setBuf s1 (A ++ x :: (a ++ b))) none)) := by
            simp [pageOf, GoSem.len]
          simp only [h0, decide_false, Bool.false_eq_true, if_false]
          have := ih b s1 ((x :: a).reverse ++ kept) f (by simp only [List.length_append] at hl ⊢; omega) (by omega)
          rw [hpl] at this
          have e1 : ((x :: a).reverse ++ kept).reverse ++ b = A ++ x :: (a ++ b) := by simp [hA]
          have e2 : (((x :: a).reverse ++ kept).length : Int) = ↑A.length + 1 + ↑a.length := by
            simp only [List.length_append, List.length_reverse, List.length_cons]; omega
          rw [e1, e2] at this
          exact this
        | some k =>
          simp only at hf
          obtain ⟨hk1, hk2, hk3⟩ := hslot k rfl
          have hpo : pageOf (setBuf s1 (A ++ x :: (a ++ b))) (some k) = (s1.pages.getD k #[]).toList := rfl
          have h0 : (0 : Int) < GoSem.len (s1.pages.getD k #[]).toList := by
            simp only [GoSem.len, Array.length_toList]; omega
          have hend : (A.length : Int) + 1 + (a.length : Int) = ((A.length + (x :: a).length : Nat) : Int) := by
            simp only [List.length_cons]; omega
          have hsl := slice_group A (x :: a) b
          have hcw := copyWithin_group A (x :: a) b
          have hst := sliceTo_group A b ((x :: a ++ b).drop b.length) (x :: a).length (by
            simp only [List.length_drop, List.length_append]; omega)
          simp only [List.cons_append] at hsl hcw hst
          simp only [hpo, h0, decide_true, if_true, toGen_buffer, setBuf_buffer, toGen_minPageIndex,
            setBuf_minPageIndex, hend, hsl, optL_some, ← hk3]
          rw [compact_loop2_eq cap k _ (x :: a) s1, foldlM_addLine_eq]
          cases hfold : List.foldlM (addLine k) s1 (x :: a) with
          | none => rfl
          | some s2 =>
            rw [hfold] at hf
            simp only at hf
            simp only [elimL_done, toGen_buffer, setBuf_buffer, hcw, optL_some, hst]
            have hpl2 : s2.pageLen = sm.pageLen :=
              PStore.pageLen_congr (by rw [foldlM_addLine_log2 k _ s1 s2 hfold, hlog])
            have := ih b s2 kept f (by simp only [List.length_append] at hl ⊢; omega) (by omega)
            rw [hpl2, ← hA, hAl] at this
            exact this

/-- `compactLoop` keeps `pageLenLog2` (no invariant needed) -/
theorem compactLoop_log2 : ∀ (n : Nat) (l : List Int) (sm : PStore) (kept : List Int) (r : PStore × List Int),
    sm.compactLoop n l kept = some r → r.1.pageLenLog2 = sm.pageLenLog2 := by
  intro n
  induction n with
  | zero =>
    intro l sm kept r h
    unfold PStore.compactLoop at h
    cases h; rfl
  | succ n ih =>
    intro l sm kept r h
    cases l with
    | nil => unfold PStore.compactLoop at h; cases h; rfl
    | cons x xs =>
      unfold PStore.compactLoop at h
      dsimp only at h
      generalize sm.spanPage (sm.pageIndex x) (x :: xs) = gr at h
      obtain ⟨grp, rest⟩ := gr
      simp only at h
      split at h
      · cases h
      · rename_i s1 k hpg
        have hlog := (page_props sm s1 _ _ _ hpg).1
        rw [foldlM_addLine_eq] at h
        split at h
        · cases h
        · rename_i s2 hfold
          rw [ih _ _ _ _ h, foldlM_addLine_log2 k _ s1 s2 hfold, hlog]
      · rename_i s1 hpg
        rw [ih _ _ _ _ h, (page_props sm s1 _ _ _ hpg).1]

/-! ### `compact` -/

/-- fuel that `compact` needs: the trace of the model's loop over the sorted buffer (one unit per page group,
    plus the length of the group and `pageFuel` of its page inside the iteration) -/
def compactFuel (s : PStore) : Nat :=
  loopFuel s ((PStore.sortInts s.buffer).length + 1) (PStore.sortInts s.buffer)

theorem compact_spec (hpage : PageSpec) : CompactSpec compactFuel := by
  intro s cap fuel hf
  unfold BufferedPaginatedStore.compact PStore.compact
  have h1 := compact_loop1_eq hpage cap ((PStore.sortInts s.buffer).length + 1) (PStore.sortInts s.buffer) s []
    fuel (by omega) hf
  simp only [List.length_nil, List.reverse_nil, List.nil_append] at h1
  push_cast at h1
  simp only [gen_pageLen, sortBuffer_eq]
  show Loop.elim (BufferedPaginatedStore.compact.loop1 (↑s.pageLen) fuel 0 (toGen (setBuf s (PStore.sortInts s.buffer)) cap)) _ = _
  rw [h1]
  cases hc : s.compactLoop ((PStore.sortInts s.buffer).length + 1) (PStore.sortInts s.buffer) [] with
  | none => rfl
  | some r =>
    obtain ⟨s', kept⟩ := r
    have hlog := compactLoop_log2 _ _ _ _ _ hc
    have hpl : s'.pageLen = s.pageLen := PStore.pageLen_congr hlog
    simp only [Loop.elim_done, Option.bind_eq_bind, Option.bind_some, Option.pure_def, toRes_some]
    simp only [toGen, setBuf, GoSem.len, hpl]
    push_cast
    rfl

/-! ### `Add` -/

/-- the buffered path of the generated `Add` (it occurs twice in the generated code): compact when the buffer
    is full and long enough, grow the capacity when the buffer is full, append -/
def genBuf (fuel : Nat) (grow : Int → Int → Int) (s : GP) (index : Int) : Res GP :=
  Res.bind (if (((GoSem.len (s).buffer) == (s).bufferCap) && (decide ((s).bufferCompactionTriggerLen ≤ (GoSem.len (s).buffer)))) then
    Res.bind (BufferedPaginatedStore.compact fuel s) (fun s => .ok s)
    else .ok s) (fun s =>
  let s := if ((GoSem.len (s).buffer) == (s).bufferCap) then
    let s := { s with bufferCap := (grow (s).bufferCap ((GoSem.len (s).buffer) + (1 : Int))) }
    s
    else s
  let s := { s with buffer := ((s).buffer ++ [index]) }
  .ok s)

/-- the buffered path of the model's `addUnit` -/
def modelBuf (s : PStore) (i : Int) (b : Bool) : Option PStore := do
  let s ← if b ∧ s.buffer.length ≥ s.trigger then s.compact else pure s
  pure { s with buffer := s.buffer ++ [i] }

/-- the append (with the capacity growth of the runtime, whatever it is) -/
theorem genBuf_tail (grow : Int → Int → Int) (s : PStore) (cap : Int) (i : Int) :
    ∃ cap' : Int,
      (let g := if ((GoSem.len (toGen s cap).buffer) == (toGen s cap).bufferCap) then
          { toGen s cap with bufferCap := (grow (toGen s cap).bufferCap ((GoSem.len (toGen s cap).buffer) + (1 : Int))) }
        else toGen s cap
       ({ g with buffer := g.buffer ++ [i] } : GP)) = toGen { s with buffer := s.buffer ++ [i] } cap' := by
  by_cases h : (GoSem.len (toGen s cap).buffer == (toGen s cap).bufferCap) = true
  · exact ⟨grow cap ((s.buffer.length : Int) + 1), by simp only [h, if_true]; rfl⟩
  · exact ⟨cap, by simp only [h]; rfl⟩

theorem genBuf_spec (hpage : PageSpec) (s : PStore) (cap : Int) (grow : Int → Int → Int) (i : Int) (fuel : Nat)
    (hf : compactFuel s ≤ fuel) :
    ROk (genBuf fuel grow (toGen s cap) i) (modelBuf s i (decide ((s.buffer.length : Int) = cap))) := by
  unfold genBuf modelBuf
  by_cases hc : ((s.buffer.length : Int) = cap) ∧ s.buffer.length ≥ s.trigger
  · have hg : ((GoSem.len (toGen s cap).buffer == (toGen s cap).bufferCap) &&
        decide ((toGen s cap).bufferCompactionTriggerLen ≤ GoSem.len (toGen s cap).buffer)) = true := by
      simp only [toGen_buffer, toGen_bufferCap, toGen_trigger, GoSem.len, Bool.and_eq_true, beq_iff_eq]
      exact ⟨hc.1, decide_eq_true (by omega)⟩
    rw [if_pos hg, if_pos (by simpa using hc), compact_spec hpage s cap fuel hf]
    cases s.compact with
    | none => rfl
    | some s' =>
      obtain ⟨cap', hcap'⟩ := genBuf_tail grow s' cap i
      exact ⟨_, rfl, cap', hcap'⟩
  · have hg : ¬ (((GoSem.len (toGen s cap).buffer == (toGen s cap).bufferCap) &&
        decide ((toGen s cap).bufferCompactionTriggerLen ≤ GoSem.len (toGen s cap).buffer)) = true) := by
      simp only [toGen_buffer, toGen_bufferCap, toGen_trigger, GoSem.len, Bool.and_eq_true, beq_iff_eq]
      intro h
      have := of_decide_eq_true h.2
      exact hc ⟨h.1, by omega⟩
    rw [if_neg hg, if_neg (by simpa using hc)]
    obtain ⟨cap', hcap'⟩ := genBuf_tail grow s cap i
    exact ⟨_, rfl, cap', hcap'⟩

theorem addUnit_eq (s : PStore) (i : Int) (b : Bool) :
    s.addUnit i b =
      match s.slot? (s.pageIndex i) with
      | some k => if (s.pages.getD k #[]).size > 0 then addAtPage s k (s.lineIndex i) 1 else modelBuf s i b
      | none => modelBuf s i b := by
  unfold PStore.addUnit modelBuf
  cases s.slot? (s.pageIndex i) with
  | none => rfl
  | some k =>
    simp only
    by_cases hz : (s.pages.getD k #[]).size > 0
    · simp only [if_pos hz]
    · simp only [if_neg hz]

/-- fuel for `Add` / `AddWithCount`: what a compaction of the current buffer needs (and `page`, for a count ≠ 1) -/
def addFuel (s : PStore) (i : Int) : Nat := max (compactFuel s) (pageFuel s (s.pageIndex i))

theorem add_spec (hpage : PageSpec) : AddSpec addFuel := by
  intro s cap grow i fuel hf
  have hf1 : compactFuel s ≤ fuel := by unfold addFuel at hf; omega
  rw [addUnit_eq]
  unfold BufferedPaginatedStore.Add
  simp only [gen_pageIndex, gen_lineIndex, toGen_minPageIndex, toGen_pages, len_pagesL]
  by_cases hin : s.minPageIndex ≤ s.pageIndex i ∧ s.pageIndex i < s.minPageIndex + (s.pages.size : Int)
  · have hslot : s.slot? (s.pageIndex i) = some (s.pageIndex i - s.minPageIndex).toNat := by
      rw [PStore.slot?_eq_some]; exact ⟨hin.1, hin.2, rfl⟩
    rw [hslot]
    simp only [hin.1, hin.2, decide_true, Bool.and_self, if_true]
    rw [idx_pagesL s _ (by omega) (by omega)]
    simp only [optR_some]
    generalize hk : (s.pageIndex i - s.minPageIndex).toNat = k
    have hkI : s.pageIndex i - s.minPageIndex = (k : Int) := by omega
    have hks : k < s.pages.size := by omega
    by_cases hz : (s.pages.getD k #[]).size > 0
    · have h0 : (0 : Int) < GoSem.len (s.pages.getD k #[]).toList := by
        simp only [GoSem.len, Array.length_toList]; omega
      simp only [h0, decide_true, if_true, if_pos hz]
      rw [addAt_toList]
      unfold PStore.addAtPage DStore.addAt
      by_cases hl : s.lineIndex i < (s.pages.getD k #[]).size
      · rw [if_pos (by omega), if_pos ⟨hks, hl⟩]
        simp only [Option.map_some, optR_some, hkI, Int.toNat_natCast]
        rw [set_pagesL s k _ (by omega) (by omega)]
        exact ⟨_, rfl, cap, rfl⟩
      · rw [if_neg (by omega), if_neg (fun h => hl h.2)]
        rfl
    · have h0 : ¬ ((0 : Int) < GoSem.len (s.pages.getD k #[]).toList) := by
        simp only [GoSem.len, Array.length_toList]; omega
      simp only [h0, decide_false, Bool.false_eq_true, if_false, if_neg hz]
      exact genBuf_spec hpage s cap grow i fuel hf1
  · have hslot : s.slot? (s.pageIndex i) = none := by
      rw [PStore.slot?_eq_none]; exact hin
    rw [hslot]
    have hc : ((decide (s.minPageIndex ≤ s.pageIndex i)) &&
        (decide (s.pageIndex i < s.minPageIndex + (s.pages.size : Int)))) = false := by
      rw [Bool.and_eq_false_iff]; simp only [decide_eq_false_iff_not]; omega
    simp only [hc, Bool.false_eq_true, if_false]
    exact genBuf_spec hpage s cap grow i fuel hf1

/-! ### `AddWithCount`, `AddBin` -/

theorem ROk_of_toRes (cap : Int) (r : Res GP) (m : Option PStore)
    (h : r = toRes (fun s' => toGen s' cap) m) : ROk r m := by
  subst h
  cases m with
  | none => rfl
  | some s' => exact ⟨_, rfl, cap, rfl⟩

/-- `pages[k][line] += c` in the generated code (the page read through its alias, written back) -/
theorem addAtPage_gen (s : PStore) (cap : Int) (k line : Nat) (c : Rat) (hk : k < s.pages.size) :
    optR (GoSem.idx (s.pages.getD k #[]).toList (line : Int)) (fun t =>
      optR (GoSem.set (s.pages.getD k #[]).toList (line : Int) (t + c)) (fun pg =>
        optR (GoSem.set (toGen s cap).pages (k : Int) pg) (fun t2 =>
          .ok ({ buffer := (toGen s cap).buffer, bufferCap := (toGen s cap).bufferCap,
                 bufferCompactionTriggerLen := (toGen s cap).bufferCompactionTriggerLen, pages := t2,
                 minPageIndex := (toGen s cap).minPageIndex, pageLenLog2 := (toGen s cap).pageLenLog2,
                 pageLenMask := (toGen s cap).pageLenMask } : GP))))
      = toRes (fun s' => toGen s' cap) (s.addAtPage k line c) := by
  rw [addAt_toList]
  unfold PStore.addAtPage DStore.addAt
  by_cases hl : line < (s.pages.getD k #[]).size
  · rw [if_pos (by omega), if_pos ⟨hk, hl⟩]
    simp only [Option.map_some, optR_some, Int.toNat_natCast, toGen_pages]
    rw [set_pagesL s k _ (by omega) (by omega)]
    rfl
  · rw [if_neg (by omega), if_neg (fun h => hl h.2)]
    rfl

theorem addWithCount_spec (hpage : PageSpec) : AddWithCountSpec addFuel := by
  intro s cap grow i c fuel hf
  unfold BufferedPaginatedStore.AddWithCount PStore.addWithCount
  by_cases h0 : c = 0
  · simp only [h0, beq_self_eq_true, if_true]
    exact ⟨_, rfl, cap, rfl⟩
  · rw [if_neg (by simpa using h0), if_neg h0]
    by_cases h1 : c = 1
    · rw [if_pos (by simpa using h1), if_pos h1]
      have := add_spec hpage s cap grow i fuel hf
      cases hm : s.addUnit i (decide ((s.buffer.length : Int) = cap)) with
      | none =>
        rw [hm] at this
        have hp : BufferedPaginatedStore.Add fuel grow (toGen s cap) i = .panic := this
        rw [hp]; rfl
      | some s' =>
        rw [hm] at this
        obtain ⟨g', hg, hrel⟩ := this
        rw [hg]
        exact ⟨g', rfl, hrel⟩
    · rw [if_neg (by simpa using h1), if_neg h1]
      have hf2 : pageFuel s (s.pageIndex i) ≤ fuel := by unfold addFuel at hf; omega
      rw [gen_pageIndex]
      dsimp only
      rw [hpage s cap _ true fuel hf2]
      cases hpg : s.page (s.pageIndex i) true with
      | none => rfl
      | some r =>
        obtain ⟨s1, k?⟩ := r
        obtain ⟨hlog, hslot⟩ := page_props s s1 _ true k? hpg
        simp only [toRes_some, Res.bind_ok, gen_lineIndex]
        cases k? with
        | none =>
          have : GoSem.idx (pageOf s1 none) ((s1.lineIndex i : Nat) : Int) = none := by
            unfold GoSem.idx pageOf; rw [if_neg (by omega)]; rfl
          rw [this]
          rfl
        | some k =>
          obtain ⟨hk1, hk2, hk3⟩ := hslot k rfl
          have hpo : pageOf s1 (some k) = (s1.pages.getD k #[]).toList := rfl
          have hk3' : s.pageIndex i - (toGen s1 cap).minPageIndex = (k : Int) := by
            rw [toGen_minPageIndex]; omega
          rw [hpo, hk3', addAtPage_gen s1 cap k _ c hk1]
          simp only [Option.bind_eq_bind, Option.bind_some]
          cases s1.addAtPage k (s1.lineIndex i) c with
          | none => rfl
          | some s2 => exact ⟨_, rfl, cap, rfl⟩

/-- `AddBin` is `AddWithCount` on the fields of the bin -/
theorem addBin_spec (hpage : PageSpec) (s : PStore) (cap : Int) (grow : Int → Int → Int) (bin : Bin)
    (fuel : Nat) (hf : addFuel s bin.index ≤ fuel) :
    ROk (BufferedPaginatedStore.AddBin fuel grow (toGen s cap) bin)
      (s.addWithCount bin.index bin.count (decide ((s.buffer.length : Int) = cap))) := by
  unfold BufferedPaginatedStore.AddBin Bin.Index Bin.Count
  have := addWithCount_spec hpage s cap grow bin.index bin.count fuel hf
  cases hm : s.addWithCount bin.index bin.count (decide ((s.buffer.length : Int) = cap)) with
  | none =>
    rw [hm] at this
    have hp : BufferedPaginatedStore.AddWithCount fuel grow (toGen s cap) bin.index bin.count = .panic := this
    rw [hp]; rfl
  | some s' =>
    rw [hm] at this
    obtain ⟨g', hg, hrel⟩ := this
    rw [hg]
    exact ⟨g', rfl, hrel⟩

/-! ### `Reweight` -/

/-- `AddWithCount` with a count other than 0 and 1 never touches the buffer: an equation, the capacity is kept,
    the compaction bit of the model is irrelevant, and only `page` needs fuel -/
theorem addWithCount_weight (hpage : PageSpec) (s : PStore) (cap : Int) (grow : Int → Int → Int) (i : Int)
    (c : Rat) (b : Bool) (fuel : Nat) (h0 : c ≠ 0) (h1 : c ≠ 1) (hf2 : pageFuel s (s.pageIndex i) ≤ fuel) :
    BufferedPaginatedStore.AddWithCount fuel grow (toGen s cap) i c
      = toRes (fun s' => toGen s' cap) (s.addWithCount i c b) := by
  unfold BufferedPaginatedStore.AddWithCount PStore.addWithCount
  rw [if_neg (by simpa using h0), if_neg h0, if_neg (by simpa using h1), if_neg h1]
  rw [gen_pageIndex]
  dsimp only
  rw [hpage s cap _ true fuel hf2]
  cases hpg : s.page (s.pageIndex i) true with
  | none => rfl
  | some r =>
    obtain ⟨s1, k?⟩ := r
    obtain ⟨hlog, hslot⟩ := page_props s s1 _ true k? hpg
    simp only [toRes_some, Res.bind_ok, gen_lineIndex]
    cases k? with
    | none =>
      have : GoSem.idx (pageOf s1 none) ((s1.lineIndex i : Nat) : Int) = none := by
        unfold GoSem.idx pageOf; rw [if_neg (by omega)]; rfl
      rw [this]
      rfl
    | some k =>
      obtain ⟨hk1, hk2, hk3⟩ := hslot k rfl
      have hpo : pageOf s1 (some k) = (s1.pages.getD k #[]).toList := rfl
      have hk3' : s.pageIndex i - (toGen s1 cap).minPageIndex = (k : Int) := by
        rw [toGen_minPageIndex]; omega
      rw [hpo, hk3', addAtPage_gen s1 cap k _ c hk1]
      simp only [Option.bind_eq_bind, Option.bind_some]
      cases s1.addAtPage k (s1.lineIndex i) c with
      | none => rfl
      | some s2 => rfl

/-- the compaction bit only matters for a unit count -/
theorem addWithCount_bit_irrelevant (s : PStore) (i : Int) (c : Rat) (b₁ b₂ : Bool) (h1 : c ≠ 1) :
    s.addWithCount i c b₁ = s.addWithCount i c b₂ := by
  unfold PStore.addWithCount
  rw [if_neg h1, if_neg h1]

/-- fuel for the re-insertion loop of `Reweight`: `page` for every buffered entry, along the model's run -/
def reweightLoopFuel (w : Rat) : List Int → PStore → Nat
  | [], _ => 0
  | i :: rest, s =>
    max (pageFuel s (s.pageIndex i))
      (match s.addWithCount i w with
        | none => 0
        | some s' => reweightLoopFuel w rest s')

theorem reweight_loop1_eq (hpage : PageSpec) (w : Rat) (h0 : w ≠ 0) (h1 : w ≠ 1) (cap : Int)
    (grow : Int → Int → Int) (fuel : Nat) : ∀ (l : List Int) (s : PStore), reweightLoopFuel w l s ≤ fuel →
    BufferedPaginatedStore.Reweight.loop1 fuel grow w l (toGen s cap)
      = match l.foldlM (fun acc i => acc.addWithCount i w) s with
        | none => .panic
        | some s' => .done (toGen s' cap) := by
  intro l
  induction l with
  | nil => intro s _; rfl
  | cons i rest ih =>
    intro s hf
    rw [reweightLoopFuel] at hf
    unfold BufferedPaginatedStore.Reweight.loop1
    rw [addWithCount_weight hpage s cap grow i w true fuel h0 h1 (by omega)]
    simp only [List.foldlM_cons, Option.bind_eq_bind]
    cases hm : s.addWithCount i w true with
    | none => rfl
    | some s' =>
      rw [hm] at hf
      simp only [toRes_some, Res.bindL_ok, Option.bind_some]
      exact ih s' (by simp only at hf; omega)

theorem set_append_cons {α : Type} (pre : List α) (x y : α) (post : List α) :
    GoSem.set (pre ++ x :: post) (pre.length : Int) y = some (pre ++ y :: post) := by
  unfold GoSem.set
  rw [if_neg (by simp only [List.length_append, List.length_cons]; omega)]
  simp

/-- loop3 of `Reweight`: one page, line by line (`p` aliases `s.pages[pIdx]`) -/
theorem reweight_loop3_eq (w : Rat) (pre post : List (List Rat)) : ∀ (rng done todo : List Rat) (cur : List Rat) (g : GP),
    rng.length = todo.length → g.pages = pre ++ cur :: post →
    BufferedPaginatedStore.Reweight.loop3 w (pre.length : Int) rng (done.length : Int) (done ++ todo) g
      = .done (done ++ todo.map (· * w),
          if rng = [] then g else { g with pages := pre ++ (done ++ todo.map (· * w)) :: post }) := by
  intro rng
  induction rng with
  | nil =>
    intro done todo cur g hl hg
    have : todo = [] := List.eq_nil_of_length_eq_zero hl.symm
    subst this
    rfl
  | cons r rng ih =>
    intro done todo cur g hl hg
    cases todo with
    | nil => simp at hl
    | cons t todo =>
      unfold BufferedPaginatedStore.Reweight.loop3
      rw [idx_append_cons, optL_some, set_append_cons, optL_some, hg, set_append_cons, optL_some]
      have := ih (done ++ [t * w]) todo (done ++ t * w :: todo)
        { g with pages := pre ++ (done ++ t * w :: todo) :: post } (by simpa using hl) rfl
      simp only [List.append_assoc, List.singleton_append, List.length_append, List.length_cons,
        List.length_nil, Nat.zero_add] at this
      push_cast at this
      rw [this]
      simp only [List.map_cons, reduceCtorEq, if_false]
      split
      · rename_i hr
        subst hr
        have : todo = [] := List.eq_nil_of_length_eq_zero (by simpa using hl.symm)
        subst this
        rfl
      · rfl

/-- loop2 of `Reweight`: all pages -/
theorem reweight_loop2_eq (w : Rat) : ∀ (post pre : List (List Rat)) (g : GP), g.pages = pre ++ post →
    BufferedPaginatedStore.Reweight.loop2 w post (pre.length : Int) g
      = .done { g with pages := pre ++ post.map (fun pg => pg.map (· * w)) } := by
  intro post
  induction post with
  | nil =>
    intro pre g hg
    unfold BufferedPaginatedStore.Reweight.loop2
    simp only [List.map_nil, ← hg]
  | cons p post ih =>
    intro pre g hg
    unfold BufferedPaginatedStore.Reweight.loop2
    have h3 := reweight_loop3_eq w pre post p [] p p g rfl hg
    simp only [List.length_nil, List.nil_append] at h3
    rw [show ((0 : Nat) : Int) = 0 from rfl] at h3
    rw [h3, elimL_done]
    by_cases hp : p = []
    · subst hp
      simp only [if_true, List.map_nil]
      have := ih (pre ++ [[]]) g (by simp [hg])
      simp only [List.length_append, List.length_cons, List.length_nil, Nat.zero_add] at this
      push_cast at this
      rw [this]
      simp
    · simp only [if_neg hp]
      have := ih (pre ++ [p.map (· * w)]) { g with pages := pre ++ p.map (· * w) :: post } (by simp)
      simp only [List.length_append, List.length_cons, List.length_nil, Nat.zero_add] at this
      push_cast at this
      rw [this]
      simp

/-- the store `Reweight` re-inserts the buffered entries into: empty buffer, scaled pages -/
def scaled (s : PStore) (w : Rat) : PStore :=
  { s with buffer := [], pages := s.pages.map (fun pg => pg.map (· * w)) }

theorem reweight_eq_fold (s : PStore) (w : Rat) :
    s.reweight w = s.buffer.foldlM (fun acc i => acc.addWithCount i w) (scaled s w) := rfl

theorem pagesL_scaled (s : PStore) (w : Rat) :
    pagesL (scaled s w) = (pagesL s).map (fun pg => pg.map (· * w)) := by
  simp [pagesL, scaled]

/-- fuel for `Reweight` (`w > 0`, `w ≠ 1`): `page` for every buffered entry, along the model's run -/
def reweightFuel (s : PStore) (w : Rat) : Nat := reweightLoopFuel w s.buffer (scaled s w)

/-- `Reweight` by a non-positive factor: the error, the store unchanged -/
theorem reweight_nonpos (fuel : Nat) (grow : Int → Int → Int) (g : GP) (w : Rat) (hw : w ≤ 0) :
    BufferedPaginatedStore.Reweight fuel grow g w
      = .ok (g, GoErr.named "can't reweight by a negative factor") := by
  unfold BufferedPaginatedStore.Reweight
  rw [if_pos (by simpa using hw)]

/-- `Reweight` by 1: nothing to do -/
theorem reweight_one (fuel : Nat) (grow : Int → Int → Int) (g : GP) :
    BufferedPaginatedStore.Reweight fuel grow g 1 = .ok (g, GoErr.nil) := by
  unfold BufferedPaginatedStore.Reweight
  rw [if_neg (by decide), if_pos (by decide)]

/-- `Reweight` by `w > 0`, `w ≠ 1`: the model's `reweight` (the capacity is kept: the buffer is emptied by a
    re-slice and no entry goes back to it) -/
theorem reweight_spec (hpage : PageSpec) (s : PStore) (cap : Int) (grow : Int → Int → Int) (w : Rat)
    (fuel : Nat) (hw : 0 < w) (h1 : w ≠ 1) (hf : reweightFuel s w ≤ fuel) :
    BufferedPaginatedStore.Reweight fuel grow (toGen s cap) w
      = toRes (fun s' => (toGen s' cap, GoErr.nil)) (s.reweight w) := by
  have h0 : w ≠ 0 := by intro h; rw [h] at hw; exact absurd hw (by decide)
  have hnle : ¬ w ≤ 0 := Rat.not_le.mpr hw
  unfold BufferedPaginatedStore.Reweight
  rw [if_neg (by simpa using hnle), if_neg (by simpa using h1)]
  have hsl : GoSem.sliceTo (toGen s cap).buffer 0 = some [] := by
    unfold GoSem.sliceTo; rw [if_neg (by omega)]; rfl
  simp only [hsl, optR_some, toGen_pages]
  have h2 := reweight_loop2_eq w (pagesL s) []
    ({ toGen s cap with buffer := [] } : GP) rfl
  simp only [List.length_nil, List.nil_append, toGen_pages] at h2
  rw [show ((0 : Nat) : Int) = 0 from rfl] at h2
  rw [h2, Loop.elim_done, ← pagesL_scaled]
  show Loop.elim (BufferedPaginatedStore.Reweight.loop1 fuel grow w s.buffer (toGen (scaled s w) cap)) _ = _
  rw [reweight_loop1_eq hpage w h0 h1 cap grow fuel s.buffer (scaled s w) hf, reweight_eq_fold]
  cases s.buffer.foldlM (fun acc i => acc.addWithCount i w) (scaled s w) with
  | none => rfl
  | some s' => rfl

/-! ### the interfaces instantiated with `GenPagBase.page_spec` -/

theorem compactSpec : CompactSpec compactFuel := compact_spec page_spec
theorem addSpec : AddSpec addFuel := add_spec page_spec
theorem addWithCountSpec : AddWithCountSpec addFuel := addWithCount_spec page_spec

end DDS.GenPag
