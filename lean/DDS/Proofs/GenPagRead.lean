/-
  DDS.Proofs.GenPagRead — the read-only queries of the REGENERATED buffered-paginated store
  (`DDS/Generated/CodePaginated.lean`, namespace `DDS.Gen.Paginated`) equal those of the hand-written model
  `DDS.PStore` (`DDS/Model/Paginated.lean`), on `toGen s cap` for EVERY model store `s` and capacity `cap`.

  Main results (namespace `DDS.GenPag`; auxiliary loop lemmas live in `DDS.GenPag.Read`):

  * `MinIndex_eq`  : `MinIndex fuel (toGen s cap) = .ok (match s.minIndex? with | some m => (m, nil) | none => (0, errUndefinedMinIndex))`
      for `minFuel s = pages.size + pageLen + 1 ≤ fuel`, under `PagesFull s` (every page is empty or has at least
      `pageLen` lines; `PStore.Inv` implies it: `PagesFull_of_inv`, `MinIndex_eq_of_inv`).
      The hypothesis is needed: the Go/generated line loop of `MinIndex` runs up to `pageLen` (or `lineIndex(minIndex)`)
      with a CHECKED read `page[lineIndex]`, the model reads missing lines as 0.  DISAGREEMENT outside the invariant,
      proved: `MinIndex_short_page_gen` (generated code panics) vs `MinIndex_short_page_model` (model says `none`) on a
      store with a one-line page and `pageLen = 2`.  Unreachable from `NewBufferedPaginatedStore` (pages are made by
      `make([]float64, pageLen)`).
  * `MaxIndex_eq`  : likewise with `s.maxIndex?`, for ALL stores (its line loop starts at `len(page)-1`, so every read is
      in range), `maxFuel s = pages.size + maxPageSize s + 1 ≤ fuel` (`maxPageSize` = largest page; `≤ pageLen` under
      the invariant: `maxFuel_le_of_inv`).
  * `minIndexWithCumulCount_eq` : with the predicate `fun c => .ok (decide (rank < c))` the generated function returns
      the store with SORTED buffer and `firstExceeding s.pageLines (sortInts s.buffer) 0 rank` (`none` ↦ the
      "never verified" error), for all stores, `cumFuel s = buffer.length + 1 ≤ fuel`.
  * `KeyAtRank_eq` : `KeyAtRank fuel (toGen s cap) rank = .ok (toGen {s with buffer := sortInts s.buffer} cap, s.keyAtRank rank)`
      for all stores and ranks, `keyFuel s = max (cumFuel s) (maxFuel s) ≤ fuel`.  The fallback calls `MaxIndex` on the
      sorted store; `Read.maxIndex?_sorted` (from `Read.listMax?_perm`: `listMax?` is permutation-invariant) brings it
      back to `s.maxIndex?`.

  All fuel bounds are functions of the store, hence satisfiable (`fuel := minFuel s` …).
  The sentinel: with `minPageIndex = maxInt` Go's `minPageIndex + len(pages)` wraps and the page loop does not run;
  the generated code and the model both use unbounded integers and therefore agree with EACH OTHER on such stores
  (which is what is proved; no sentinel hypothesis appears).  The page arithmetic helpers (`gen_pageIndex`,
  `gen_lineIndex`, `gen_index_nat`) come from `GenPagBase`.
-/
import DDS.Proofs.GenPagBase
import DDS.Proofs.Paginated

namespace DDS.GenPag

open DDS DDS.GoSem DDS.GenDense
open DDS.Gen.Paginated

namespace Read

/-! ## page arithmetic: the helper equations of `GenPagBase` under the names used below -/

theorem pageLen_cast (s : PStore) : ((s.pageLen : Nat) : Int) = (2 : Int) ^ s.pageLenLog2 := cast_pageLen s

theorem rd_pageIndex (s : PStore) (cap : Int) (i : Int) :
    BufferedPaginatedStore.pageIndex (toGen s cap) i = s.pageIndex i := gen_pageIndex s cap i

theorem rd_index (s : PStore) (cap : Int) (p : Int) (l : Nat) :
    BufferedPaginatedStore.index (toGen s cap) p (l : Int) = s.index p l := gen_index_nat s cap p l

theorem rd_lineIndex (s : PStore) (cap : Int) (i : Int) :
    BufferedPaginatedStore.lineIndex (toGen s cap) i = ((s.lineIndex i : Nat) : Int) := gen_lineIndex s cap i

/-! ## access to the page table -/

theorem idx_nat_toList (a : Array Rat) (l : Nat) (h : l < a.size) :
    GoSem.idx a.toList (l : Int) = some (a.getD l 0) := by
  unfold GoSem.idx
  rw [if_neg (by omega)]
  simp [h]

theorem pages_idx (s : PStore) (k : Nat) (hk : k < s.pages.size) :
    GoSem.idx (pagesL s) (k : Int) = some (s.pages.getD k #[]).toList := by
  unfold GoSem.idx pagesL
  rw [if_neg (by omega)]
  simp [hk]

end Read
open Read

/-- every allocated page is empty or holds at least `pageLen` lines (part of `PStore.Inv`: `pageSizes`) -/
def PagesFull (s : PStore) : Prop :=
  ∀ k, (s.pages.getD k #[]).size = 0 ∨ s.pageLen ≤ (s.pages.getD k #[]).size

namespace Read

/-! ## MinIndex -/

def minOut (r : Option Int) : Int × GoErr :=
  match r with
  | some m => (m, GoErr.nil)
  | none => (0, errUndefinedMinIndex)

theorem min_loop3_false (l : List Int) (m : Int) :
    BufferedPaginatedStore.MinIndex.loop3 l false m = .done (false, l.foldl min m) := by
  induction l generalizing m with
  | nil => rfl
  | cons x xs ih =>
    unfold BufferedPaginatedStore.MinIndex.loop3
    simp only [Bool.false_or, List.foldl_cons]
    by_cases h : x < m
    · simp only [h, decide_true, if_true]; rw [ih, Int.min_eq_right (by omega)]
    · simp only [h, decide_false]; rw [Int.min_eq_left (by omega)]; exact ih m

theorem min_loop3 (l : List Int) :
    BufferedPaginatedStore.MinIndex.loop3 l true 0
      = .done ((PStore.listMin? l).isNone, (PStore.listMin? l).getD 0) := by
  cases l with
  | nil => rfl
  | cons x xs =>
    unfold BufferedPaginatedStore.MinIndex.loop3
    simp only [Bool.true_or, if_true]
    rw [min_loop3_false]; rfl

theorem min_loop2 (g : GP) (p : Int) (pg : Array Rat) (e : Nat) (he : e ≤ pg.size) :
    ∀ (n l fuel : Nat), l + n = e → n + 1 ≤ fuel →
      BufferedPaginatedStore.MinIndex.loop2 (e : Int) pg.toList g p fuel (l : Int) =
        match (List.range' l n).find? (fun l => pg.getD l 0 > 0) with
        | some l' => .ret (BufferedPaginatedStore.index g p (l' : Int), GoErr.nil)
        | none => .done (e : Int) := by
  intro n
  induction n with
  | zero =>
    intro l fuel hl hf
    obtain ⟨f, rfl⟩ : ∃ f, fuel = f + 1 := ⟨fuel - 1, by omega⟩
    unfold BufferedPaginatedStore.MinIndex.loop2
    have : l = e := by omega
    subst this
    simp
  | succ n ih =>
    intro l fuel hl hf
    obtain ⟨f, rfl⟩ : ∃ f, fuel = f + 1 := ⟨fuel - 1, by omega⟩
    unfold BufferedPaginatedStore.MinIndex.loop2
    have hlt : (l : Int) < (e : Int) := by omega
    rw [if_pos (by simpa using hlt), idx_nat_toList pg l (by omega)]
    simp only [GoSem.optL_some, List.range'_succ, List.find?_cons, gt_iff_lt]
    by_cases hpos : (0 : Rat) < pg.getD l 0
    · simp only [hpos, decide_true, if_true]
    · simp only [hpos, decide_false]
      have := ih (l + 1) f (by omega) (by omega)
      simp only [Int.natCast_add, Int.cast_ofNat_Int, gt_iff_lt] at this
      exact this


/-- what `MinIndex` returns after the page loop -/
def minK (bmin : Option Int) : Int → Res (Int × GoErr) := fun _ =>
  if bmin.isNone then .ok ((0 : Int), errUndefinedMinIndex) else .ok (bmin.getD 0, GoErr.nil)

theorem minK_eq (bmin : Option Int) (x : Int) : minK bmin x = .ok (minOut bmin) := by
  cases bmin <;> rfl

theorem min_page (s : PStore) (cap : Int) (pg : Array Rat) (p : Int) (f : Nat) (E : Nat) (Eg : Int)
    (hEg : Eg = (E : Int)) (hpg : pg.size = 0 ∨ E ≤ pg.size) (hf : E + 1 ≤ f)
    (X : Loop Int (Int × GoErr)) (K : Int → Res (Int × GoErr)) (R : Option Int)
    (hnext : Loop.elim X K = .ok (minOut R)) :
    Loop.elim (if (GoSem.len pg.toList == 0) = true then X
        else Loop.elimL (BufferedPaginatedStore.MinIndex.loop2 Eg pg.toList (toGen s cap) p f 0) (fun _ => X)) K
      = .ok (minOut (if pg.size = 0 then R
          else match (List.range E).find? (fun l => decide (pg.getD l 0 > 0)) with
            | some l => some (s.index p l)
            | none => R)) := by
  subst hEg
  have hlen : (GoSem.len pg.toList == 0) = decide (pg.size = 0) := by
    by_cases hz : pg.size = 0
    · simp [GoSem.len, hz]
    · simp only [GoSem.len, Array.length_toList, hz, decide_false, beq_eq_false_iff_ne, ne_eq]; omega
  rw [hlen]
  by_cases hz : pg.size = 0
  · simp only [hz, decide_true, if_true]
    exact hnext
  · simp only [hz, decide_false, Bool.false_eq_true, if_false]
    have hsz : E ≤ pg.size := by omega
    have h2 := min_loop2 (toGen s cap) p pg E hsz E 0 f (by omega) (by omega)
    simp only [Int.cast_ofNat_Int] at h2
    rw [h2, List.range_eq_range']
    cases List.find? (fun l => decide (pg.getD l 0 > 0)) (List.range' 0 E) with
    | none =>
      simp only [Loop.elimL]
      exact hnext
    | some l =>
      simp only [Loop.elimL, Loop.elim_ret, rd_index]
      rfl

theorem min_loop1 (s : PStore) (cap : Int) (hfull : PagesFull s) (bmin : Option Int) :
    ∀ (d k fuel : Nat), k + d = s.pages.size → d + s.pageLen + 1 ≤ fuel →
      Loop.elim (BufferedPaginatedStore.MinIndex.loop1 (toGen s cap) bmin.isNone (bmin.getD 0) fuel
          (s.minPageIndex + (k : Int))) (minK bmin)
        = .ok (minOut (PStore.minIndex?.scan s bmin (List.range' k d))) := by
  intro d
  induction d with
  | zero =>
    intro k fuel hk hf
    obtain ⟨f, rfl⟩ : ∃ f, fuel = f + 1 := ⟨fuel - 1, by omega⟩
    unfold BufferedPaginatedStore.MinIndex.loop1
    have : ¬ (s.minPageIndex + (k : Int) < s.minPageIndex + (s.pages.size : Int)) := by omega
    simp only [toGen_minPageIndex, toGen_pages, len_pagesL, this, decide_false, Bool.false_and]
    simp only [Bool.false_eq_true, if_false, Loop.elim_done, List.range'_zero]
    unfold PStore.minIndex?.scan
    exact minK_eq _ _
  | succ d ih =>
    intro k fuel hk hf
    obtain ⟨f, rfl⟩ : ∃ f, fuel = f + 1 := ⟨fuel - 1, by omega⟩
    have hklt : k < s.pages.size := by omega
    have hnext := ih (k + 1) f (by omega) (by omega)
    rw [Int.natCast_add, ← Int.add_assoc] at hnext
    simp only [Int.cast_ofNat_Int] at hnext
    unfold BufferedPaginatedStore.MinIndex.loop1
    rw [List.range'_succ]
    unfold PStore.minIndex?.scan
    have h1 : (s.minPageIndex + (k : Int) < s.minPageIndex + (s.pages.size : Int)) := by omega
    simp only [toGen_minPageIndex, toGen_pages, len_pagesL, h1, decide_true, Bool.true_and,
      rd_pageIndex]
    have hidx : GoSem.idx (pagesL s) (s.minPageIndex + (k : Int) - s.minPageIndex)
        = some (s.pages.getD k #[]).toList := by
      rw [show s.minPageIndex + (k : Int) - s.minPageIndex = (k : Int) by omega]
      exact pages_idx s k hklt
    rw [hidx]
    have hpg := hfull k
    generalize s.pages.getD k #[] = pg at hpg ⊢
    cases bmin with
    | none =>
      simp only [Option.isNone_none, Bool.true_or, if_true, GoSem.optL_some, Bool.not_true,
        Bool.false_and, Bool.false_eq_true, if_false] at hnext ⊢
      exact min_page s cap pg _ f s.pageLen _ (by simp [pageLen_cast]) hpg (by omega) _ _ _ hnext
    | some m =>
      simp only [Option.isNone_some, Bool.false_or, Bool.not_false, Bool.true_and,
        Option.getD_some] at hnext ⊢
      by_cases hcont : s.minPageIndex + (k : Int) ≤ s.pageIndex m
      · simp only [hcont, decide_true, if_true, GoSem.optL_some, Bool.not_true,
          Bool.false_eq_true, if_false]
        by_cases hp : s.minPageIndex + (k : Int) = s.pageIndex m
        · simp only [hp, beq_self_eq_true, if_true]
          rw [hp] at hnext
          exact min_page s cap pg _ f (s.lineIndex m) _ (rd_lineIndex s cap m)
            (by have := lineIndex_lt s m; omega) (by have := lineIndex_lt s m; omega) _ _ _ hnext
        · have hp' : (s.minPageIndex + (k : Int) == s.pageIndex m) = false := by simpa using hp
          simp only [hp, hp', Bool.false_eq_true, if_false]
          exact min_page s cap pg _ f s.pageLen _ (by simp [pageLen_cast]) hpg (by omega) _ _ _ hnext
      · simp only [hcont, decide_false, Bool.false_eq_true, if_false, Loop.elim_done, Bool.not_false,
          if_true]
        exact minK_eq _ _

end Read
open Read

/-- fuel for `MinIndex`: one unit per allocated page slot, plus one scan of a page -/
def minFuel (s : PStore) : Nat := s.pages.size + s.pageLen + 1

/-- **MinIndex**: the generated code computes the model's `minIndex?` (on stores whose materialised pages are full) -/
theorem MinIndex_eq (s : PStore) (cap : Int) (fuel : Nat) (hfull : PagesFull s) (hf : minFuel s ≤ fuel) :
    BufferedPaginatedStore.MinIndex fuel (toGen s cap)
      = .ok (match s.minIndex? with
             | some m => (m, GoErr.nil)
             | none => ((0 : Int), errUndefinedMinIndex)) := by
  unfold BufferedPaginatedStore.MinIndex
  simp only [toGen_buffer, min_loop3, Loop.elim_done, toGen_minPageIndex]
  have h := min_loop1 s cap hfull (PStore.listMin? s.buffer) s.pages.size 0 fuel (by omega)
    (by unfold minFuel at hf; omega)
  simp only [Int.natCast_zero, Int.add_zero] at h
  rw [← List.range_eq_range'] at h
  exact h

namespace Read

/-! ## MaxIndex -/

def maxOut (r : Option Int) : Int × GoErr :=
  match r with
  | some m => (m, GoErr.nil)
  | none => (0, errUndefinedMaxIndex)

theorem max_loop3_false (l : List Int) (m : Int) :
    BufferedPaginatedStore.MaxIndex.loop3 l false m = .done (false, l.foldl max m) := by
  induction l generalizing m with
  | nil => rfl
  | cons x xs ih =>
    unfold BufferedPaginatedStore.MaxIndex.loop3
    simp only [Bool.false_or, List.foldl_cons]
    by_cases h : m < x
    · simp only [h, decide_true, if_true]; rw [ih, Int.max_eq_right (by omega)]
    · simp only [h, decide_false]; rw [Int.max_eq_left (by omega)]; exact ih m

theorem max_loop3 (l : List Int) :
    BufferedPaginatedStore.MaxIndex.loop3 l true 0
      = .done ((PStore.listMax? l).isNone, (PStore.listMax? l).getD 0) := by
  cases l with
  | nil => rfl
  | cons x xs =>
    unfold BufferedPaginatedStore.MaxIndex.loop3
    simp only [Bool.true_or, if_true]
    rw [max_loop3_false]; rfl

theorem max_loop2 (g : GP) (p : Int) (pg : Array Rat) (ls : Nat) (X : Loop Int (Int × GoErr)) :
    ∀ (n fuel : Nat), n ≤ pg.size → n + 1 ≤ fuel →
      Loop.elimL (BufferedPaginatedStore.MaxIndex.loop2 (ls : Int) pg.toList g p fuel ((n : Int) - 1)) (fun _ => X) =
        match ((List.range n).reverse.filter (fun l => decide (l ≥ ls))).find? (fun l => pg.getD l 0 > 0) with
        | some l' => .ret (BufferedPaginatedStore.index g p (l' : Int), GoErr.nil)
        | none => X := by
  intro n
  induction n with
  | zero =>
    intro fuel hn hf
    obtain ⟨f, rfl⟩ : ∃ f, fuel = f + 1 := ⟨fuel - 1, by omega⟩
    unfold BufferedPaginatedStore.MaxIndex.loop2
    rw [if_neg (by simp only [decide_eq_true_eq]; omega)]
    rfl
  | succ n ih =>
    intro fuel hn hf
    obtain ⟨f, rfl⟩ : ∃ f, fuel = f + 1 := ⟨fuel - 1, by omega⟩
    unfold BufferedPaginatedStore.MaxIndex.loop2
    rw [show (((n + 1 : Nat) : Int) - 1) = (n : Int) by omega]
    rw [List.range_succ, List.reverse_append, List.reverse_singleton, List.singleton_append,
      List.filter_cons]
    by_cases hls : ls ≤ n
    · rw [if_pos (by simp only [decide_eq_true_eq]; omega), idx_nat_toList pg n (by omega)]
      simp only [GoSem.optL_some, ge_iff_le, hls, decide_true, if_true, List.find?_cons, gt_iff_lt]
      by_cases hpos : (0 : Rat) < pg.getD n 0
      · simp only [hpos, decide_true, if_true]; rfl
      · simp only [hpos, decide_false]
        exact ih f (by omega) (by omega)
    · rw [if_neg (by simp only [decide_eq_true_eq]; omega)]
      have hnil : List.filter (fun l => decide (l ≥ ls)) (List.range n).reverse = [] := by
        rw [List.filter_eq_nil_iff]
        intro a ha
        have : a < n := by simpa using ha
        simp only [ge_iff_le, decide_eq_true_eq]; omega
      simp only [ge_iff_le, hls, decide_false, hnil]
      rfl

end Read
open Read

/-- the largest page size (bounds the line loop of `MaxIndex`, which starts at `len(page)-1`) -/
def maxPageSize (s : PStore) : Nat := (s.pages.toList.map Array.size).foldr max 0

namespace Read

theorem le_foldr_max (l : List Nat) (a : Nat) (h : a ∈ l) : a ≤ l.foldr max 0 := by
  induction l with
  | nil => cases h
  | cons x xs ih =>
    simp only [List.foldr_cons]
    rcases List.mem_cons.1 h with rfl | h
    · exact Nat.le_max_left _ _
    · exact Nat.le_trans (ih h) (Nat.le_max_right _ _)

theorem size_le_maxPageSize (s : PStore) (k : Nat) : (s.pages.getD k #[]).size ≤ maxPageSize s := by
  by_cases hk : k < s.pages.size
  · apply le_foldr_max
    simp only [List.mem_map, Array.mem_toList_iff]
    exact ⟨s.pages.getD k #[], by simp [hk], rfl⟩
  · simp [hk]

theorem max_page (s : PStore) (cap : Int) (pg : Array Rat) (p : Int) (f : Nat) (ls : Nat) (lg : Int)
    (hlg : lg = (ls : Int)) (hf : pg.size + 1 ≤ f)
    (X : Loop Int (Int × GoErr)) (K : Int → Res (Int × GoErr)) (R : Option Int)
    (hnext : Loop.elim X K = .ok (maxOut R)) :
    Loop.elim (if (GoSem.len pg.toList == 0) = true then X
        else Loop.elimL (BufferedPaginatedStore.MaxIndex.loop2 lg pg.toList (toGen s cap) p f
          (GoSem.len pg.toList - 1)) (fun _ => X)) K
      = .ok (maxOut (if pg.size = 0 then R
          else match ((List.range pg.size).reverse.filter (fun l => decide (l ≥ ls))).find?
                (fun l => decide (pg.getD l 0 > 0)) with
            | some l => some (s.index p l)
            | none => R)) := by
  subst hlg
  have hlen : (GoSem.len pg.toList == 0) = decide (pg.size = 0) := by
    by_cases hz : pg.size = 0
    · simp [GoSem.len, hz]
    · simp only [GoSem.len, Array.length_toList, hz, decide_false, beq_eq_false_iff_ne, ne_eq]; omega
  rw [hlen]
  by_cases hz : pg.size = 0
  · simp only [hz, decide_true, if_true]
    exact hnext
  · simp only [hz, decide_false, Bool.false_eq_true, if_false]
    have h2 := max_loop2 (toGen s cap) p pg ls X pg.size f (Nat.le_refl _) hf
    rw [len_toList, h2]
    cases List.find? (fun l => decide (pg.getD l 0 > 0))
        (List.filter (fun l => decide (l ≥ ls)) (List.range pg.size).reverse) with
    | none => exact hnext
    | some l =>
      simp only [Loop.elim_ret, rd_index]
      rfl

/-- what `MaxIndex` returns after the page loop -/
def maxK (bmax : Option Int) : Int → Res (Int × GoErr) := fun _ =>
  if bmax.isNone then .ok ((0 : Int), errUndefinedMaxIndex) else .ok (bmax.getD 0, GoErr.nil)

theorem maxK_eq (bmax : Option Int) (x : Int) : maxK bmax x = .ok (maxOut bmax) := by
  cases bmax <;> rfl

theorem max_loop1 (s : PStore) (cap : Int) (bmax : Option Int) :
    ∀ (k fuel : Nat), k ≤ s.pages.size → k + maxPageSize s + 1 ≤ fuel →
      Loop.elim (BufferedPaginatedStore.MaxIndex.loop1 (toGen s cap) bmax.isNone (bmax.getD 0) fuel
          (s.minPageIndex + (k : Int) - 1)) (maxK bmax)
        = .ok (maxOut (PStore.maxIndex?.scan s bmax (List.range k).reverse)) := by
  intro k
  induction k with
  | zero =>
    intro fuel hk hf
    obtain ⟨f, rfl⟩ : ∃ f, fuel = f + 1 := ⟨fuel - 1, by omega⟩
    unfold BufferedPaginatedStore.MaxIndex.loop1
    have : ¬ (s.minPageIndex ≤ s.minPageIndex + ((0 : Nat) : Int) - 1) := by omega
    simp only [toGen_minPageIndex, this, decide_false, Bool.false_and]
    simp only [Bool.false_eq_true, if_false, Loop.elim_done, List.range_zero, List.reverse_nil]
    unfold PStore.maxIndex?.scan
    exact maxK_eq _ _
  | succ k ih =>
    intro fuel hk hf
    obtain ⟨f, rfl⟩ : ∃ f, fuel = f + 1 := ⟨fuel - 1, by omega⟩
    have hklt : k < s.pages.size := by omega
    have hnext := ih f (by omega) (by omega)
    unfold BufferedPaginatedStore.MaxIndex.loop1
    rw [List.range_succ, List.reverse_append, List.reverse_singleton, List.singleton_append]
    unfold PStore.maxIndex?.scan
    rw [show s.minPageIndex + ((k + 1 : Nat) : Int) - 1 = s.minPageIndex + (k : Int) by omega]
    have h1 : s.minPageIndex ≤ s.minPageIndex + (k : Int) := by omega
    simp only [toGen_minPageIndex, toGen_pages, h1, decide_true, Bool.true_and, rd_pageIndex]
    have hidx : GoSem.idx (pagesL s) (s.minPageIndex + (k : Int) - s.minPageIndex)
        = some (s.pages.getD k #[]).toList := by
      rw [show s.minPageIndex + (k : Int) - s.minPageIndex = (k : Int) by omega]
      exact pages_idx s k hklt
    rw [hidx]
    have hpg := size_le_maxPageSize s k
    generalize s.pages.getD k #[] = pg at hpg ⊢
    cases bmax with
    | none =>
      simp only [Option.isNone_none, Bool.true_or, if_true, GoSem.optL_some, Bool.not_true,
        Bool.false_and, Bool.false_eq_true, if_false] at hnext ⊢
      exact max_page s cap pg _ f 0 _ rfl (by omega) _ _ _ hnext
    | some m =>
      simp only [Option.isNone_some, Bool.false_or, Bool.not_false, Bool.true_and,
        Option.getD_some] at hnext ⊢
      by_cases hcont : s.pageIndex m ≤ s.minPageIndex + (k : Int)
      · simp only [ge_iff_le, hcont, decide_true, if_true, GoSem.optL_some, Bool.not_true,
          Bool.false_eq_true, if_false]
        by_cases hp : s.minPageIndex + (k : Int) = s.pageIndex m
        · simp only [hp, beq_self_eq_true, if_true]
          rw [hp] at hnext
          exact max_page s cap pg _ f (s.lineIndex m) _ (rd_lineIndex s cap m) (by omega) _ _ _ hnext
        · have hp' : (s.minPageIndex + (k : Int) == s.pageIndex m) = false := by simpa using hp
          simp only [hp, hp', Bool.false_eq_true, if_false]
          exact max_page s cap pg _ f 0 _ rfl (by omega) _ _ _ hnext
      · simp only [ge_iff_le, hcont, decide_false, Bool.false_eq_true, if_false, Loop.elim_done,
          Bool.not_false, if_true]
        exact maxK_eq _ _

end Read
open Read

/-- fuel for `MaxIndex`: one unit per allocated page slot, plus one scan of the largest page -/
def maxFuel (s : PStore) : Nat := s.pages.size + maxPageSize s + 1

/-- **MaxIndex**: the generated code computes the model's `maxIndex?`, for every store -/
theorem MaxIndex_eq (s : PStore) (cap : Int) (fuel : Nat) (hf : maxFuel s ≤ fuel) :
    BufferedPaginatedStore.MaxIndex fuel (toGen s cap)
      = .ok (match s.maxIndex? with
             | some m => (m, GoErr.nil)
             | none => ((0 : Int), errUndefinedMaxIndex)) := by
  unfold BufferedPaginatedStore.MaxIndex
  simp only [toGen_buffer, max_loop3, Loop.elim_done, toGen_minPageIndex, toGen_pages, len_pagesL]
  exact max_loop1 s cap (PStore.listMax? s.buffer) s.pages.size fuel (Nat.le_refl _)
    (by unfold maxFuel at hf; omega)

namespace Read

/-! ## minIndexWithCumulCount (predicate `cumulCount > rank`) and KeyAtRank -/

/-- the predicate `KeyAtRank` passes -/
def rankPred (rank : Rat) : Rat → Res Bool := fun cumulCount => .ok (decide (rank < cumulCount))

def notFoundErr : GoErr := GoErr.named "the predicate on the cumulative count is never verified"

/-- result of `minIndexWithCumulCount` on the (already sorted) store `g` -/
def feOut (g : GP) (r : Option Int) : Res (GP × Int × GoErr) :=
  match r with
  | some k => .ok (g, k, GoErr.nil)
  | none => .ok (g, (0 : Int), notFoundErr)

theorem drop_cons_inv {α : Type} (B : List α) (pos : Nat) (x : α) (xs : List α) (h : B.drop pos = x :: xs) :
    pos < B.length ∧ B[pos]? = some x ∧ B.drop (pos + 1) = xs := by
  have hlt : pos < B.length := by
    apply Nat.lt_of_not_le
    intro hle
    rw [List.drop_eq_nil_of_le hle] at h
    cases h
  rw [List.drop_eq_getElem_cons hlt] at h
  injection h with h1 h2
  exact ⟨hlt, by simp [hlt, h1], h2⟩

theorem cum_loop4 (s : PStore) (cap : Int) (idx : Int) (rank : Rat) :
    ∀ (b : List Int) (pos : Nat) (acc : Rat) (fuel mf : Nat),
      s.buffer.drop pos = b → b.length + 1 ≤ fuel → b.length ≤ mf →
      (∀ k b' a', PStore.firstExceeding.drain rank idx b acc mf = (some k, b', a') →
        BufferedPaginatedStore.minIndexWithCumulCount.loop4 (toGen s cap) idx (rankPred rank) fuel acc (pos : Int)
          = .ret (toGen s cap, k, GoErr.nil)) ∧
      (∀ b' a', PStore.firstExceeding.drain rank idx b acc mf = (none, b', a') →
        ∃ pos' : Nat, s.buffer.drop pos' = b' ∧
          BufferedPaginatedStore.minIndexWithCumulCount.loop4 (toGen s cap) idx (rankPred rank) fuel acc (pos : Int)
            = .done (a', (pos' : Int))) := by
  intro b
  induction b with
  | nil =>
    intro pos acc fuel mf hb hf hmf
    obtain ⟨f, rfl⟩ : ∃ f, fuel = f + 1 := ⟨fuel - 1, by omega⟩
    have hd : PStore.firstExceeding.drain rank idx [] acc mf = (none, [], acc) := by
      cases mf <;> rfl
    have hle : s.buffer.length ≤ pos := List.drop_eq_nil_iff.1 hb
    rw [hd]
    refine ⟨fun k b' a' h => (by cases h), fun b' a' h => ?_⟩
    injection h with _ h; injection h with h1 h2
    subst h1; subst h2
    refine ⟨pos, hb, ?_⟩
    unfold BufferedPaginatedStore.minIndexWithCumulCount.loop4
    have hc : ¬ (decide ((pos : Int) < GoSem.len (toGen s cap).buffer) = true) := by
      rw [decide_eq_true_eq]; simp only [toGen_buffer, GoSem.len]; omega
    rw [if_neg hc]
  | cons x xs ih =>
    intro pos acc fuel mf hb hf hmf
    obtain ⟨f, rfl⟩ : ∃ f, fuel = f + 1 := ⟨fuel - 1, by simp at hf; omega⟩
    obtain ⟨m, rfl⟩ : ∃ m, mf = m + 1 := ⟨mf - 1, by simp at hmf; omega⟩
    obtain ⟨hlt, hget, hdrop⟩ := drop_cons_inv _ _ _ _ hb
    have hidx : GoSem.idx (toGen s cap).buffer (pos : Int) = some x := by
      unfold GoSem.idx
      rw [if_neg (by omega)]
      simpa using hget
    have hcond : decide ((pos : Int) < GoSem.len (toGen s cap).buffer) = true := by
      apply decide_eq_true
      simp only [toGen_buffer, GoSem.len]; omega
    have hstep : BufferedPaginatedStore.minIndexWithCumulCount.loop4 (toGen s cap) idx (rankPred rank) (f + 1) acc (pos : Int)
        = if x < idx then
            (if rank < acc + 1 then .ret (toGen s cap, x, GoErr.nil)
             else BufferedPaginatedStore.minIndexWithCumulCount.loop4 (toGen s cap) idx (rankPred rank) f (acc + 1) ((pos + 1 : Nat) : Int))
          else .done (acc, (pos : Int)) := by
      rw [BufferedPaginatedStore.minIndexWithCumulCount.loop4]
      rw [if_pos hcond, hidx]
      simp only [GoSem.optL_some, rankPred, Res.bindL_ok, decide_eq_true_eq]
      rfl
    have hdr : PStore.firstExceeding.drain rank idx (x :: xs) acc (m + 1)
        = if x < idx then
            (if acc + 1 > rank then (some x, xs, acc + 1) else PStore.firstExceeding.drain rank idx xs (acc + 1) m)
          else (none, x :: xs, acc) := by
      rw [PStore.firstExceeding.drain]
    rw [hstep, hdr]
    by_cases hx : x < idx
    · simp only [hx, if_true, gt_iff_lt]
      by_cases hr : rank < acc + 1
      · simp only [hr, if_true]
        refine ⟨fun k b' a' h => ?_, fun b' a' h => by cases h⟩
        injection h with h _; injection h with h; subst h; rfl
      · simp only [hr, if_false]
        exact ih (pos + 1) (acc + 1) f m hdrop (by simp at hf; omega) (by simp at hmf; omega)
    · simp only [hx, if_false]
      refine ⟨fun k b' a' h => (by cases h), fun b' a' h => ?_⟩
      injection h with _ h; injection h with h1 h2
      subst h1; subst h2
      exact ⟨pos, hb, rfl⟩

theorem cum_loop1 (s : PStore) (cap : Int) (rank : Rat)
    (K : Rat × Int → Res (GP × Int × GoErr)) (hK : ∀ x, K x = .ok (toGen s cap, (0 : Int), notFoundErr)) :
    ∀ (b : List Int) (pos : Nat) (acc : Rat) (fuel : Nat),
      s.buffer.drop pos = b → b.length + 1 ≤ fuel →
      Loop.elim (BufferedPaginatedStore.minIndexWithCumulCount.loop1 (toGen s cap) (rankPred rank) fuel acc (pos : Int)) K
        = feOut (toGen s cap) (PStore.firstExceeding.rest rank b acc) := by
  intro b
  induction b with
  | nil =>
    intro pos acc fuel hb hf
    obtain ⟨f, rfl⟩ : ∃ f, fuel = f + 1 := ⟨fuel - 1, by omega⟩
    have hle : s.buffer.length ≤ pos := List.drop_eq_nil_iff.1 hb
    unfold BufferedPaginatedStore.minIndexWithCumulCount.loop1
    have hc : ¬ (decide ((pos : Int) < GoSem.len (toGen s cap).buffer) = true) := by
      rw [decide_eq_true_eq]; simp only [toGen_buffer, GoSem.len]; omega
    rw [if_neg hc, Loop.elim_done, hK, PStore.firstExceeding.rest]
    rfl
  | cons x xs ih =>
    intro pos acc fuel hb hf
    obtain ⟨f, rfl⟩ : ∃ f, fuel = f + 1 := ⟨fuel - 1, by simp at hf; omega⟩
    obtain ⟨hlt, hget, hdrop⟩ := drop_cons_inv _ _ _ _ hb
    have hidx : GoSem.idx (toGen s cap).buffer (pos : Int) = some x := by
      unfold GoSem.idx
      rw [if_neg (by omega)]
      simpa using hget
    have hcond : decide ((pos : Int) < GoSem.len (toGen s cap).buffer) = true := by
      apply decide_eq_true
      simp only [toGen_buffer, GoSem.len]; omega
    rw [BufferedPaginatedStore.minIndexWithCumulCount.loop1, if_pos hcond, PStore.firstExceeding.rest]
    simp only [rankPred, Res.bindL_ok, decide_eq_true_eq, hidx, GoSem.optL_some, gt_iff_lt]
    by_cases hr : rank < acc + 1
    · simp only [hr, if_true, Loop.elim_ret]; rfl
    · simp only [hr, if_false]
      exact ih (pos + 1) (acc + 1) f hdrop (by simp at hf; omega)

/-- the lines of one page from line `li` on, as `(index, count)` pairs -/
def linesOf (s : PStore) (p : Int) (li : Nat) (cs : List Rat) : List (Int × Rat) :=
  (cs.zipIdx li).map (fun cl => (s.index p cl.2, cl.1))

/-- the lines of the pages `pgs` sitting at offsets `off, off+1, …` -/
def pagesLines (s : PStore) (off : Nat) (pgs : List (Array Rat)) : List (Int × Rat) :=
  (pgs.zipIdx off).flatMap (fun po => linesOf s (s.minPageIndex + (po.2 : Int)) 0 po.1.toList)

theorem pageLines_eq (s : PStore) : s.pageLines = pagesLines s 0 s.pages.toList := rfl

theorem cum_loop3 (s : PStore) (cap : Int) (rank : Rat) (off : Nat) (fuel : Nat)
    (hf : s.buffer.length + 1 ≤ fuel) (k1 : Int × Rat → Res (GP × Int × GoErr)) :
    ∀ (cs : List Rat) (li pos : Nat) (acc : Rat)
      (K : Int × Rat → Loop (Int × Rat) (GP × Int × GoErr)) (more : List (Int × Rat)),
      (∀ (pos' : Nat) (acc' : Rat), Loop.elim (K ((pos' : Int), acc')) k1
          = feOut (toGen s cap) (PStore.firstExceeding more (s.buffer.drop pos') acc' rank)) →
      Loop.elim (Loop.elimL (BufferedPaginatedStore.minIndexWithCumulCount.loop3 fuel (toGen s cap) (off : Int)
          (rankPred rank) cs (li : Int) (pos : Int) acc) K) k1
        = feOut (toGen s cap) (PStore.firstExceeding (linesOf s (s.minPageIndex + (off : Int)) li cs ++ more)
            (s.buffer.drop pos) acc rank) := by
  intro cs
  induction cs with
  | nil =>
    intro li pos acc K more hK
    rw [BufferedPaginatedStore.minIndexWithCumulCount.loop3]
    simp only [Loop.elimL, linesOf, List.zipIdx_nil, List.map_nil, List.nil_append]
    exact hK pos acc
  | cons c cs ih =>
    intro li pos acc K more hK
    rw [BufferedPaginatedStore.minIndexWithCumulCount.loop3]
    simp only [toGen_minPageIndex, rd_index]
    have hlines : linesOf s (s.minPageIndex + (off : Int)) li (c :: cs)
        = (s.index (s.minPageIndex + (off : Int)) li, c) :: linesOf s (s.minPageIndex + (off : Int)) (li + 1) cs := by
      simp only [linesOf, List.zipIdx_cons, List.map_cons]
    rw [hlines, List.cons_append, PStore.firstExceeding.eq_2]
    have hlen : (s.buffer.drop pos).length + 1 ≤ fuel := by
      simp only [List.length_drop]; omega
    have h4 := cum_loop4 s cap (s.index (s.minPageIndex + (off : Int)) li) rank (s.buffer.drop pos) pos acc fuel
      (s.buffer.drop pos).length rfl hlen (Nat.le_refl _)
    rcases hd : PStore.firstExceeding.drain rank (s.index (s.minPageIndex + (off : Int)) li) (s.buffer.drop pos) acc
      (s.buffer.drop pos).length with ⟨o, b', a'⟩
    cases o with
    | some k =>
      rw [h4.1 k b' a' hd]
      simp only [Loop.elimL, Loop.elim_ret]
      rfl
    | none =>
      obtain ⟨pos', hdrop', hl4⟩ := h4.2 b' a' hd
      rw [hl4]
      simp only [Loop.elimL, rankPred, Res.bindL_ok, decide_eq_true_eq, gt_iff_lt]
      by_cases hr : rank < a' + c
      · simp only [hr, if_true, Loop.elim_ret]; rfl
      · simp only [hr, if_false]
        have := ih (li + 1) pos' (a' + c) K more hK
        rw [hdrop'] at this
        rw [← this]
        simp only [Int.natCast_add, Int.cast_ofNat_Int]
        rfl

theorem cum_loop2 (s : PStore) (cap : Int) (rank : Rat) (fuel : Nat)
    (hf : s.buffer.length + 1 ≤ fuel) (k1 : Int × Rat → Res (GP × Int × GoErr))
    (hk1 : ∀ (pos : Nat) (acc : Rat), k1 ((pos : Int), acc)
        = feOut (toGen s cap) (PStore.firstExceeding.rest rank (s.buffer.drop pos) acc)) :
    ∀ (pgs : List (Array Rat)) (off pos : Nat) (acc : Rat),
      Loop.elim (BufferedPaginatedStore.minIndexWithCumulCount.loop2 fuel (toGen s cap) (rankPred rank)
          (pgs.map Array.toList) (off : Int) (pos : Int) acc) k1
        = feOut (toGen s cap) (PStore.firstExceeding (pagesLines s off pgs) (s.buffer.drop pos) acc rank) := by
  intro pgs
  induction pgs with
  | nil =>
    intro off pos acc
    rw [List.map_nil, BufferedPaginatedStore.minIndexWithCumulCount.loop2, Loop.elim_done, hk1]
    simp only [pagesLines, List.zipIdx_nil, List.flatMap_nil, PStore.firstExceeding.eq_1]
  | cons pg pgs ih =>
    intro off pos acc
    rw [List.map_cons, BufferedPaginatedStore.minIndexWithCumulCount.loop2]
    have hpl : pagesLines s off (pg :: pgs)
        = linesOf s (s.minPageIndex + (off : Int)) 0 pg.toList ++ pagesLines s (off + 1) pgs := by
      simp only [pagesLines, List.zipIdx_cons, List.flatMap_cons]
    rw [hpl]
    have h3 := cum_loop3 s cap rank off fuel hf k1 pg.toList 0 pos acc
      (fun x => BufferedPaginatedStore.minIndexWithCumulCount.loop2 fuel (toGen s cap) (rankPred rank)
        (pgs.map Array.toList) ((off : Int) + 1) x.1 x.2)
      (pagesLines s (off + 1) pgs)
      (by
        intro pos' acc'
        have := ih (off + 1) pos' acc'
        simp only [Int.natCast_add, Int.cast_ofNat_Int] at this
        exact this)
    simp only [Int.cast_ofNat_Int] at h3
    exact h3

end Read
open Read

/-- fuel for `minIndexWithCumulCount`: each buffer-draining loop runs at most `len(buffer)` times -/
def cumFuel (s : PStore) : Nat := s.buffer.length + 1

namespace Read

theorem sortBuffer_toGen (s : PStore) (cap : Int) :
    BufferedPaginatedStore.sortBuffer (toGen s cap) = toGen { s with buffer := PStore.sortInts s.buffer } cap := rfl

end Read
open Read

/-- **minIndexWithCumulCount** with the predicate `cumulCount > rank`: the buffer is sorted in place, and the
    answer is the model's `firstExceeding` over the page lines and the sorted buffer -/
theorem minIndexWithCumulCount_eq (s : PStore) (cap : Int) (rank : Rat) (fuel : Nat) (hf : cumFuel s ≤ fuel) :
    BufferedPaginatedStore.minIndexWithCumulCount fuel (toGen s cap) (fun c => .ok (decide (rank < c)))
      = .ok (match PStore.firstExceeding s.pageLines (PStore.sortInts s.buffer) 0 rank with
             | some k => (toGen { s with buffer := PStore.sortInts s.buffer } cap, k, GoErr.nil)
             | none => (toGen { s with buffer := PStore.sortInts s.buffer } cap, (0 : Int),
                 GoErr.named "the predicate on the cumulative count is never verified")) := by
  unfold BufferedPaginatedStore.minIndexWithCumulCount
  simp only [sortBuffer_toGen]
  generalize hs' : ({ s with buffer := PStore.sortInts s.buffer } : PStore) = s'
  have hlen : s'.buffer.length + 1 ≤ fuel := by
    subst hs'
    simp only [PStore.sortInts, List.length_mergeSort]
    exact hf
  have h2 := cum_loop2 s' cap rank fuel hlen
    (fun x => Loop.elim (BufferedPaginatedStore.minIndexWithCumulCount.loop1 (toGen s' cap) (rankPred rank) fuel x.2 x.1)
      (fun _ => .ok (toGen s' cap, (0 : Int), notFoundErr)))
    (by
      intro pos acc
      exact cum_loop1 s' cap rank _ (fun _ => rfl) (s'.buffer.drop pos) pos acc fuel rfl
        (by simp only [List.length_drop]; omega))
    s'.pages.toList 0 0 0
  simp only [Int.cast_ofNat_Int, List.drop_zero, ← pageLines_eq] at h2
  have hpl : s'.pageLines = s.pageLines := by subst hs'; rfl
  have hbuf : s'.buffer = PStore.sortInts s.buffer := by subst hs'; rfl
  rw [hpl, hbuf] at h2
  refine Eq.trans ?_ (h2.trans ?_)
  · rfl
  · cases PStore.firstExceeding s.pageLines (PStore.sortInts s.buffer) 0 rank <;> rfl

namespace Read

/-! ### `maxIndex?` does not see the order of the buffer -/

theorem foldl_max_spec (xs : List Int) (x : Int) :
    (xs.foldl max x = x ∨ xs.foldl max x ∈ xs) ∧ x ≤ xs.foldl max x ∧ ∀ y ∈ xs, y ≤ xs.foldl max x := by
  induction xs generalizing x with
  | nil => simp
  | cons a xs ih =>
    obtain ⟨h1, h2, h3⟩ := ih (max x a)
    simp only [List.foldl_cons, List.mem_cons, forall_eq_or_imp]
    refine ⟨?_, by omega, by omega, h3⟩
    rcases h1 with h1 | h1
    · rw [h1]; omega
    · exact Or.inr (Or.inr h1)

theorem listMax?_spec (l : List Int) (m : Int) (h : PStore.listMax? l = some m) :
    m ∈ l ∧ ∀ y ∈ l, y ≤ m := by
  cases l with
  | nil => simp [PStore.listMax?] at h
  | cons x xs =>
    simp only [PStore.listMax?, Option.some.injEq] at h
    obtain ⟨h1, h2, h3⟩ := foldl_max_spec xs x
    rw [h] at h1 h2 h3
    refine ⟨?_, ?_⟩
    · rcases h1 with h1 | h1
      · rw [h1]; exact List.mem_cons_self ..
      · exact List.mem_cons_of_mem _ h1
    · intro y hy
      rcases List.mem_cons.1 hy with rfl | hy
      · exact h2
      · exact h3 y hy

/-- `listMax?` is invariant under permutation -/
theorem listMax?_perm {l₁ l₂ : List Int} (h : l₁.Perm l₂) :
    PStore.listMax? l₁ = PStore.listMax? l₂ := by
  cases h1 : PStore.listMax? l₁ with
  | none =>
    cases l₁ with
    | nil => rw [← h.nil_eq]; rfl
    | cons x xs => simp [PStore.listMax?] at h1
  | some m =>
    cases h2 : PStore.listMax? l₂ with
    | none =>
      cases l₂ with
      | nil => rw [h.eq_nil] at h1; simp [PStore.listMax?] at h1
      | cons x xs => simp [PStore.listMax?] at h2
    | some m' =>
      obtain ⟨a1, a2⟩ := listMax?_spec l₁ m h1
      obtain ⟨b1, b2⟩ := listMax?_spec l₂ m' h2
      have := a2 m' (h.mem_iff.2 b1)
      have := b2 m (h.mem_iff.1 a1)
      congr 1; omega

theorem maxScan_buffer (s : PStore) (b : List Int) (bmax : Option Int) (offs : List Nat) :
    PStore.maxIndex?.scan { s with buffer := b } bmax offs = PStore.maxIndex?.scan s bmax offs := by
  induction offs with
  | nil => rfl
  | cons off rest ih =>
    unfold PStore.maxIndex?.scan
    rw [ih]
    rfl

/-- sorting the buffer (what `KeyAtRank` does in place) does not change `maxIndex?` -/
theorem maxIndex?_sorted (s : PStore) :
    ({ s with buffer := PStore.sortInts s.buffer } : PStore).maxIndex? = s.maxIndex? := by
  unfold PStore.maxIndex?
  rw [maxScan_buffer]
  show PStore.maxIndex?.scan s (PStore.listMax? (PStore.sortInts s.buffer)) _ = _
  have hp : (PStore.sortInts s.buffer).Perm s.buffer := List.mergeSort_perm s.buffer _
  rw [listMax?_perm hp]

end Read
open Read

/-- fuel for `KeyAtRank`: the cumulative-count loops, and `MaxIndex` for the fallback -/
def keyFuel (s : PStore) : Nat := max (cumFuel s) (maxFuel s)

/-- **KeyAtRank**: the generated code sorts the buffer and returns the model's `keyAtRank`, for every store -/
theorem KeyAtRank_eq (s : PStore) (cap : Int) (rank : Rat) (fuel : Nat) (hf : keyFuel s ≤ fuel) :
    BufferedPaginatedStore.KeyAtRank fuel (toGen s cap) rank
      = .ok (toGen { s with buffer := PStore.sortInts s.buffer } cap, s.keyAtRank rank) := by
  have hf1 : cumFuel s ≤ fuel := Nat.le_trans (Nat.le_max_left _ _) hf
  have hf2 : maxFuel ({ s with buffer := PStore.sortInts s.buffer } : PStore) ≤ fuel :=
    Nat.le_trans (Nat.le_max_right (cumFuel s) (maxFuel s)) hf
  unfold BufferedPaginatedStore.KeyAtRank PStore.keyAtRank
  simp only [decide_eq_true_eq]
  rw [minIndexWithCumulCount_eq s cap _ fuel hf1]
  cases PStore.firstExceeding s.pageLines (PStore.sortInts s.buffer) 0 (if rank < 0 then 0 else rank) with
  | some k => rfl
  | none =>
    simp only [Res.bind_ok]
    rw [if_pos (by decide), MaxIndex_eq _ cap fuel hf2, maxIndex?_sorted]
    cases s.maxIndex? <;> rfl

/-! ## the hypothesis of `MinIndex_eq`, fuel under the invariant, and the disagreement without it -/

/-- the store invariant gives `PagesFull` (materialised pages have exactly `pageLen` lines) -/
theorem PagesFull_of_inv (s : PStore) (h : PStore.Inv s) : PagesFull s := by
  intro k
  rcases h.pageSizes k with h0 | h1
  · exact Or.inl h0
  · exact Or.inr (Nat.le_of_eq h1.symm)

theorem foldr_max_le (l : List Nat) (n : Nat) (h : ∀ a ∈ l, a ≤ n) : l.foldr max 0 ≤ n := by
  induction l with
  | nil => exact Nat.zero_le _
  | cons x xs ih =>
    simp only [List.foldr_cons]
    exact Nat.max_le.2 ⟨h x (List.mem_cons_self ..), ih (fun a ha => h a (List.mem_cons_of_mem _ ha))⟩

/-- under the invariant every page has at most `pageLen` lines, so `pages.size + pageLen + 1` is enough fuel for
    `MaxIndex` too -/
theorem maxFuel_le_of_inv (s : PStore) (h : PStore.Inv s) : maxFuel s ≤ s.pages.size + s.pageLen + 1 := by
  have : maxPageSize s ≤ s.pageLen := by
    apply foldr_max_le
    intro a ha
    simp only [List.mem_map, Array.mem_toList_iff] at ha
    obtain ⟨pg, hpg, rfl⟩ := ha
    obtain ⟨k, hk, rfl⟩ := Array.mem_iff_getElem.1 hpg
    have := h.pageSizes k
    simp only [Array.getD_eq_getD_getElem?, hk, Array.getElem?_eq_getElem, Option.getD_some] at this
    omega
  unfold maxFuel; omega

/-- `MinIndex` under the store invariant -/
theorem MinIndex_eq_of_inv (s : PStore) (cap : Int) (fuel : Nat) (h : PStore.Inv s) (hf : minFuel s ≤ fuel) :
    BufferedPaginatedStore.MinIndex fuel (toGen s cap)
      = .ok (match s.minIndex? with
             | some m => (m, GoErr.nil)
             | none => ((0 : Int), errUndefinedMinIndex)) :=
  MinIndex_eq s cap fuel (PagesFull_of_inv s h) hf

/-- a store outside the invariant: one materialised page with a single line although `pageLen = 2` -/
def shortPageStore : PStore :=
  { buffer := [], trigger := 4, pages := #[#[0]], minPageIndex := 0, pageLenLog2 := 1 }

/-- DISAGREEMENT without `PagesFull`: the generated `MinIndex` reads `page[1]` of the one-line page and panics,
    the model reads out-of-range lines as 0 and answers "empty" -/
theorem MinIndex_short_page_gen :
    BufferedPaginatedStore.MinIndex (minFuel shortPageStore) (toGen shortPageStore 4) = .panic := by
  rfl

theorem MinIndex_short_page_model : shortPageStore.minIndex? = none := by
  rfl

end DDS.GenPag
