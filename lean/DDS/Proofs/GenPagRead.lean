/-
  DDS.Proofs.GenPagRead — the read-only queries of the REGENERATED buffered-paginated store
  (`DDS/Generated/CodePaginated.lean`) equal those of the hand-written model `DDS.PStore`.
  (header completed at the end of the file's development; see the theorems `MinIndex_eq`, `MaxIndex_eq`,
  `minIndexWithCumulCount_eq`, `KeyAtRank_eq`)
-/
import DDS.Proofs.GenPagDefs

namespace DDS.GenPag

open DDS DDS.GoSem DDS.GenDense
open DDS.Gen.Paginated

/-! ## local helper equations (page arithmetic) -/

theorem pageLen_cast (s : PStore) : ((s.pageLen : Nat) : Int) = (2 : Int) ^ s.pageLenLog2 := by
  unfold PStore.pageLen; simp

theorem rd_pageIndex (s : PStore) (cap : Int) (i : Int) :
    BufferedPaginatedStore.pageIndex (toGen s cap) i = s.pageIndex i := by
  unfold BufferedPaginatedStore.pageIndex PStore.pageIndex GoSem.shrInt
  simp [pageLen_cast]

theorem rd_index (s : PStore) (cap : Int) (p : Int) (l : Nat) :
    BufferedPaginatedStore.index (toGen s cap) p (l : Int) = s.index p l := by
  unfold BufferedPaginatedStore.index PStore.index
  simp [pageLen_cast]

theorem andInt_mask (i : Int) (k : Nat) : GoSem.andInt i ((2 : Int) ^ k - 1) = i % (2 : Int) ^ k := by
  have hpos : 0 < 2 ^ k := Nat.two_pow_pos k
  have e : (2 : Int) ^ k = ((2 ^ k : Nat) : Int) := by simp
  have hm : ((2 : Int) ^ k - 1) = Int.ofNat (2 ^ k - 1) := by
    simp only [Int.ofNat_eq_natCast]
    rw [Int.natCast_sub hpos]; simp
  rw [hm]
  cases i with
  | ofNat a =>
    simp only [GoSem.andInt, Nat.and_two_pow_sub_one_eq_mod]
    simp
  | negSucc a =>
    simp only [GoSem.andInt]
    rw [Nat.and_comm, Nat.and_two_pow_sub_one_eq_mod, e]
    rw [Int.negSucc_emod a (by exact_mod_cast hpos)]
    have : a % 2 ^ k < 2 ^ k := Nat.mod_lt _ hpos
    generalize 2 ^ k = m at *
    omega

theorem rd_lineIndex (s : PStore) (cap : Int) (i : Int) :
    BufferedPaginatedStore.lineIndex (toGen s cap) i = ((s.lineIndex i : Nat) : Int) := by
  unfold BufferedPaginatedStore.lineIndex PStore.lineIndex
  simp only [toGen_pageLenMask, andInt_mask, pageLen_cast]
  have : 0 ≤ i % (2 : Int) ^ s.pageLenLog2 := Int.emod_nonneg _ (by
    have : (0 : Int) < 2 ^ s.pageLenLog2 := Int.pow_pos (by decide)
    omega)
  omega


/-! ## access to the page table -/

theorem idx_nat_toList (a : Array Rat) (l : Nat) (h : l < a.size) :
    GoSem.idx a.toList (l : Int) = some (a.getD l 0) := by
  unfold GoSem.idx
  rw [if_neg (by omega)]
  simp [h]

theorem pages_idx (s : PStore) (k : Nat) (hk : k < s.pages.size) :
    GoSem.idx (pagesL s) (k : Int) = some (s.pages.getD k #[]).toList := by
  unfold GoSem.idx pagesL
  rw [if_neg (by omega)]
  simp [hk]

theorem len_pagesL (s : PStore) : GoSem.len (pagesL s) = (s.pages.size : Int) := by
  simp [GoSem.len, pagesL]

/-- every allocated page is empty or holds at least `pageLen` lines (part of `PStore.Inv`: `pageSizes`) -/
def PagesFull (s : PStore) : Prop :=
  ∀ k, (s.pages.getD k #[]).size = 0 ∨ s.pageLen ≤ (s.pages.getD k #[]).size

theorem lineIndex_lt (s : PStore) (i : Int) : s.lineIndex i < s.pageLen := by
  unfold PStore.lineIndex
  have hp : (0 : Int) < (s.pageLen : Int) := by
    rw [pageLen_cast]; exact Int.pow_pos (by decide)
  have h1 := Int.emod_lt_of_pos i hp
  have h2 := Int.emod_nonneg i (Int.ne_of_gt hp)
  omega

/-! ## MinIndex -/

def minOut (r : Option Int) : Int × GoErr :=
  match r with
  | some m => (m, GoErr.nil)
  | none => (0, errUndefinedMinIndex)

theorem min_loop3_false (l : List Int) (m : Int) :
    BufferedPaginatedStore.MinIndex.loop3 l false m = .done (false, l.foldl min m) := by
  induction l generalizing m with
  | nil => rfl
  | cons x xs ih =>
    unfold BufferedPaginatedStore.MinIndex.loop3
    simp only [Bool.false_or, List.foldl_cons]
    by_cases h : x < m
    · simp only [h, decide_true, if_true]; rw [ih, Int.min_eq_right (by omega)]
    · simp only [h, decide_false]; rw [Int.min_eq_left (by omega)]; exact ih m

theorem min_loop3 (l : List Int) :
    BufferedPaginatedStore.MinIndex.loop3 l true 0
      = .done ((PStore.listMin? l).isNone, (PStore.listMin? l).getD 0) := by
  cases l with
  | nil => rfl
  | cons x xs =>
    unfold BufferedPaginatedStore.MinIndex.loop3
    simp only [Bool.true_or, if_true]
    rw [min_loop3_false]; rfl

theorem min_loop2 (g : GP) (p : Int) (pg : Array Rat) (e : Nat) (he : e ≤ pg.size) :
    ∀ (n l fuel : Nat), l + n = e → n + 1 ≤ fuel →
      BufferedPaginatedStore.MinIndex.loop2 (e : Int) pg.toList g p fuel (l : Int) =
        match (List.range' l n).find? (fun l => pg.getD l 0 > 0) with
        | some l' => .ret (BufferedPaginatedStore.index g p (l' : Int), GoErr.nil)
        | none => .done (e : Int) := by
  intro n
  induction n with
  | zero =>
    intro l fuel hl hf
    obtain ⟨f, rfl⟩ : ∃ f, fuel = f + 1 := ⟨fuel - 1, by omega⟩
    unfold BufferedPaginatedStore.MinIndex.loop2
    have : l = e := by omega
    subst this
    simp
  | succ n ih =>
    intro l fuel hl hf
    obtain ⟨f, rfl⟩ : ∃ f, fuel = f + 1 := ⟨fuel - 1, by omega⟩
    unfold BufferedPaginatedStore.MinIndex.loop2
    have hlt : (l : Int) < (e : Int) := by omega
    rw [if_pos (by simpa using hlt), idx_nat_toList pg l (by omega)]
    simp only [GoSem.optL_some, List.range'_succ, List.find?_cons, gt_iff_lt]
    by_cases hpos : (0 : Rat) < pg.getD l 0
    · simp only [hpos, decide_true, if_true]
    · simp only [hpos, decide_false]
      have := ih (l + 1) f (by omega) (by omega)
      simp only [Int.natCast_add, Int.cast_ofNat_Int, gt_iff_lt] at this
      exact this


/-- what `MinIndex` returns after the page loop -/
def minK (bmin : Option Int) : Int → Res (Int × GoErr) := fun _ =>
  if bmin.isNone then .ok ((0 : Int), errUndefinedMinIndex) else .ok (bmin.getD 0, GoErr.nil)

theorem minK_eq (bmin : Option Int) (x : Int) : minK bmin x = .ok (minOut bmin) := by
  cases bmin <;> rfl

theorem min_page (s : PStore) (cap : Int) (pg : Array Rat) (p : Int) (f : Nat) (E : Nat) (Eg : Int)
    (hEg : Eg = (E : Int)) (hpg : pg.size = 0 ∨ E ≤ pg.size) (hf : E + 1 ≤ f)
    (X : Loop Int (Int × GoErr)) (K : Int → Res (Int × GoErr)) (R : Option Int)
    (hnext : Loop.elim X K = .ok (minOut R)) :
    Loop.elim (if (GoSem.len pg.toList == 0) = true then X
        else Loop.elimL (BufferedPaginatedStore.MinIndex.loop2 Eg pg.toList (toGen s cap) p f 0) (fun _ => X)) K
      = .ok (minOut (if pg.size = 0 then R
          else match (List.range E).find? (fun l => decide (pg.getD l 0 > 0)) with
            | some l => some (s.index p l)
            | none => R)) := by
  subst hEg
  have hlen : (GoSem.len pg.toList == 0) = decide (pg.size = 0) := by
    by_cases hz : pg.size = 0
    · simp [GoSem.len, hz]
    · simp only [GoSem.len, Array.length_toList, hz, decide_false, beq_eq_false_iff_ne, ne_eq]; omega
  rw [hlen]
  by_cases hz : pg.size = 0
  · simp only [hz, decide_true, if_true]
    exact hnext
  · simp only [hz, decide_false, Bool.false_eq_true, if_false]
    have hsz : E ≤ pg.size := by omega
    have h2 := min_loop2 (toGen s cap) p pg E hsz E 0 f (by omega) (by omega)
    simp only [Int.cast_ofNat_Int] at h2
    rw [h2, List.range_eq_range']
    cases List.find? (fun l => decide (pg.getD l 0 > 0)) (List.range' 0 E) with
    | none =>
      simp only [Loop.elimL]
      exact hnext
    | some l =>
      simp only [Loop.elimL, Loop.elim_ret, rd_index]
      rfl

theorem min_loop1 (s : PStore) (cap : Int) (hfull : PagesFull s) (bmin : Option Int) :
    ∀ (d k fuel : Nat), k + d = s.pages.size → d + s.pageLen + 1 ≤ fuel →
      Loop.elim (BufferedPaginatedStore.MinIndex.loop1 (toGen s cap) bmin.isNone (bmin.getD 0) fuel
          (s.minPageIndex + (k : Int))) (minK bmin)
        = .ok (minOut (PStore.minIndex?.scan s bmin (List.range' k d))) := by
  intro d
  induction d with
  | zero =>
    intro k fuel hk hf
    obtain ⟨f, rfl⟩ : ∃ f, fuel = f + 1 := ⟨fuel - 1, by omega⟩
    unfold BufferedPaginatedStore.MinIndex.loop1
    have : ¬ (s.minPageIndex + (k : Int) < s.minPageIndex + (s.pages.size : Int)) := by omega
    simp only [toGen_minPageIndex, toGen_pages, len_pagesL, this, decide_false, Bool.false_and]
    simp only [Bool.false_eq_true, if_false, Loop.elim_done, List.range'_zero]
    unfold PStore.minIndex?.scan
    exact minK_eq _ _
  | succ d ih =>
    intro k fuel hk hf
    obtain ⟨f, rfl⟩ : ∃ f, fuel = f + 1 := ⟨fuel - 1, by omega⟩
    have hklt : k < s.pages.size := by omega
    have hnext := ih (k + 1) f (by omega) (by omega)
    rw [Int.natCast_add, ← Int.add_assoc] at hnext
    simp only [Int.cast_ofNat_Int] at hnext
    unfold BufferedPaginatedStore.MinIndex.loop1
    rw [List.range'_succ]
    unfold PStore.minIndex?.scan
    have h1 : (s.minPageIndex + (k : Int) < s.minPageIndex + (s.pages.size : Int)) := by omega
    simp only [toGen_minPageIndex, toGen_pages, len_pagesL, h1, decide_true, Bool.true_and,
      rd_pageIndex]
    have hidx : GoSem.idx (pagesL s) (s.minPageIndex + (k : Int) - s.minPageIndex)
        = some (s.pages.getD k #[]).toList := by
      rw [show s.minPageIndex + (k : Int) - s.minPageIndex = (k : Int) by omega]
      exact pages_idx s k hklt
    rw [hidx]
    have hpg := hfull k
    generalize s.pages.getD k #[] = pg at hpg ⊢
    cases bmin with
    | none =>
      simp only [Option.isNone_none, Bool.true_or, if_true, GoSem.optL_some, Bool.not_true,
        Bool.false_and, Bool.false_eq_true, if_false] at hnext ⊢
      exact min_page s cap pg _ f s.pageLen _ (by simp [pageLen_cast]) hpg (by omega) _ _ _ hnext
    | some m =>
      simp only [Option.isNone_some, Bool.false_or, Bool.not_false, Bool.true_and,
        Option.getD_some] at hnext ⊢
      by_cases hcont : s.minPageIndex + (k : Int) ≤ s.pageIndex m
      · simp only [hcont, decide_true, if_true, GoSem.optL_some, Bool.not_true,
          Bool.false_eq_true, if_false]
        by_cases hp : s.minPageIndex + (k : Int) = s.pageIndex m
        · simp only [hp, beq_self_eq_true, if_true]
          rw [hp] at hnext
          exact min_page s cap pg _ f (s.lineIndex m) _ (rd_lineIndex s cap m)
            (by have := lineIndex_lt s m; omega) (by have := lineIndex_lt s m; omega) _ _ _ hnext
        · have hp' : (s.minPageIndex + (k : Int) == s.pageIndex m) = false := by simpa using hp
          simp only [hp, hp', Bool.false_eq_true, if_false]
          exact min_page s cap pg _ f s.pageLen _ (by simp [pageLen_cast]) hpg (by omega) _ _ _ hnext
      · simp only [hcont, decide_false, Bool.false_eq_true, if_false, Loop.elim_done, Bool.not_false,
          if_true]
        exact minK_eq _ _

/-- fuel for `MinIndex`: one unit per allocated page slot, plus one scan of a page -/
def minFuel (s : PStore) : Nat := s.pages.size + s.pageLen + 1

/-- **MinIndex**: the generated code computes the model's `minIndex?` (on stores whose materialised pages are full) -/
theorem MinIndex_eq (s : PStore) (cap : Int) (fuel : Nat) (hfull : PagesFull s) (hf : minFuel s ≤ fuel) :
    BufferedPaginatedStore.MinIndex fuel (toGen s cap)
      = .ok (match s.minIndex? with
             | some m => (m, GoErr.nil)
             | none => ((0 : Int), errUndefinedMinIndex)) := by
  unfold BufferedPaginatedStore.MinIndex
  simp only [toGen_buffer, min_loop3, Loop.elim_done, toGen_minPageIndex]
  have h := min_loop1 s cap hfull (PStore.listMin? s.buffer) s.pages.size 0 fuel (by omega)
    (by unfold minFuel at hf; omega)
  simp only [Int.natCast_zero, Int.add_zero] at h
  rw [← List.range_eq_range'] at h
  exact h

/-! ## MaxIndex -/

def maxOut (r : Option Int) : Int × GoErr :=
  match r with
  | some m => (m, GoErr.nil)
  | none => (0, errUndefinedMaxIndex)

theorem max_loop3_false (l : List Int) (m : Int) :
    BufferedPaginatedStore.MaxIndex.loop3 l false m = .done (false, l.foldl max m) := by
  induction l generalizing m with
  | nil => rfl
  | cons x xs ih =>
    unfold BufferedPaginatedStore.MaxIndex.loop3
    simp only [Bool.false_or, List.foldl_cons]
    by_cases h : m < x
    · simp only [h, decide_true, if_true]; rw [ih, Int.max_eq_right (by omega)]
    · simp only [h, decide_false]; rw [Int.max_eq_left (by omega)]; exact ih m

theorem max_loop3 (l : List Int) :
    BufferedPaginatedStore.MaxIndex.loop3 l true 0
      = .done ((PStore.listMax? l).isNone, (PStore.listMax? l).getD 0) := by
  cases l with
  | nil => rfl
  | cons x xs =>
    unfold BufferedPaginatedStore.MaxIndex.loop3
    simp only [Bool.true_or, if_true]
    rw [max_loop3_false]; rfl

theorem max_loop2 (g : GP) (p : Int) (pg : Array Rat) (ls : Nat) (X : Loop Int (Int × GoErr)) :
    ∀ (n fuel : Nat), n ≤ pg.size → n + 1 ≤ fuel →
      Loop.elimL (BufferedPaginatedStore.MaxIndex.loop2 (ls : Int) pg.toList g p fuel ((n : Int) - 1)) (fun _ => X) =
        match ((List.range n).reverse.filter (fun l => decide (l ≥ ls))).find? (fun l => pg.getD l 0 > 0) with
        | some l' => .ret (BufferedPaginatedStore.index g p (l' : Int), GoErr.nil)
        | none => X := by
  intro n
  induction n with
  | zero =>
    intro fuel hn hf
    obtain ⟨f, rfl⟩ : ∃ f, fuel = f + 1 := ⟨fuel - 1, by omega⟩
    unfold BufferedPaginatedStore.MaxIndex.loop2
    rw [if_neg (by simp only [decide_eq_true_eq]; omega)]
    rfl
  | succ n ih =>
    intro fuel hn hf
    obtain ⟨f, rfl⟩ : ∃ f, fuel = f + 1 := ⟨fuel - 1, by omega⟩
    unfold BufferedPaginatedStore.MaxIndex.loop2
    rw [show (((n + 1 : Nat) : Int) - 1) = (n : Int) by omega]
    rw [List.range_succ, List.reverse_append, List.reverse_singleton, List.singleton_append,
      List.filter_cons]
    by_cases hls : ls ≤ n
    · rw [if_pos (by simp only [decide_eq_true_eq]; omega), idx_nat_toList pg n (by omega)]
      simp only [GoSem.optL_some, ge_iff_le, hls, decide_true, if_true, List.find?_cons, gt_iff_lt]
      by_cases hpos : (0 : Rat) < pg.getD n 0
      · simp only [hpos, decide_true, if_true]; rfl
      · simp only [hpos, decide_false]
        exact ih f (by omega) (by omega)
    · rw [if_neg (by simp only [decide_eq_true_eq]; omega)]
      have hnil : List.filter (fun l => decide (l ≥ ls)) (List.range n).reverse = [] := by
        rw [List.filter_eq_nil_iff]
        intro a ha
        have : a < n := by simpa using ha
        simp only [ge_iff_le, decide_eq_true_eq]; omega
      simp only [ge_iff_le, hls, decide_false, hnil]
      rfl

/-- the largest page size (bounds the line loop of `MaxIndex`, which starts at `len(page)-1`) -/
def maxPageSize (s : PStore) : Nat := (s.pages.toList.map Array.size).foldr max 0

theorem le_foldr_max (l : List Nat) (a : Nat) (h : a ∈ l) : a ≤ l.foldr max 0 := by
  induction l with
  | nil => cases h
  | cons x xs ih =>
    simp only [List.foldr_cons]
    rcases List.mem_cons.1 h with rfl | h
    · exact Nat.le_max_left _ _
    · exact Nat.le_trans (ih h) (Nat.le_max_right _ _)

theorem size_le_maxPageSize (s : PStore) (k : Nat) : (s.pages.getD k #[]).size ≤ maxPageSize s := by
  by_cases hk : k < s.pages.size
  · apply le_foldr_max
    simp only [List.mem_map, Array.mem_toList_iff]
    exact ⟨s.pages.getD k #[], by simp [hk], rfl⟩
  · simp [hk]

theorem max_page (s : PStore) (cap : Int) (pg : Array Rat) (p : Int) (f : Nat) (ls : Nat) (lg : Int)
    (hlg : lg = (ls : Int)) (hf : pg.size + 1 ≤ f)
    (X : Loop Int (Int × GoErr)) (K : Int → Res (Int × GoErr)) (R : Option Int)
    (hnext : Loop.elim X K = .ok (maxOut R)) :
    Loop.elim (if (GoSem.len pg.toList == 0) = true then X
        else Loop.elimL (BufferedPaginatedStore.MaxIndex.loop2 lg pg.toList (toGen s cap) p f
          (GoSem.len pg.toList - 1)) (fun _ => X)) K
      = .ok (maxOut (if pg.size = 0 then R
          else match ((List.range pg.size).reverse.filter (fun l => decide (l ≥ ls))).find?
                (fun l => decide (pg.getD l 0 > 0)) with
            | some l => some (s.index p l)
            | none => R)) := by
  subst hlg
  have hlen : (GoSem.len pg.toList == 0) = decide (pg.size = 0) := by
    by_cases hz : pg.size = 0
    · simp [GoSem.len, hz]
    · simp only [GoSem.len, Array.length_toList, hz, decide_false, beq_eq_false_iff_ne, ne_eq]; omega
  rw [hlen]
  by_cases hz : pg.size = 0
  · simp only [hz, decide_true, if_true]
    exact hnext
  · simp only [hz, decide_false, Bool.false_eq_true, if_false]
    have h2 := max_loop2 (toGen s cap) p pg ls X pg.size f (Nat.le_refl _) hf
    rw [len_toList, h2]
    cases List.find? (fun l => decide (pg.getD l 0 > 0))
        (List.filter (fun l => decide (l ≥ ls)) (List.range pg.size).reverse) with
    | none => exact hnext
    | some l =>
      simp only [Loop.elim_ret, rd_index]
      rfl

/-- what `MaxIndex` returns after the page loop -/
def maxK (bmax : Option Int) : Int → Res (Int × GoErr) := fun _ =>
  if bmax.isNone then .ok ((0 : Int), errUndefinedMaxIndex) else .ok (bmax.getD 0, GoErr.nil)

theorem maxK_eq (bmax : Option Int) (x : Int) : maxK bmax x = .ok (maxOut bmax) := by
  cases bmax <;> rfl

theorem max_loop1 (s : PStore) (cap : Int) (bmax : Option Int) :
    ∀ (k fuel : Nat), k ≤ s.pages.size → k + maxPageSize s + 1 ≤ fuel →
      Loop.elim (BufferedPaginatedStore.MaxIndex.loop1 (toGen s cap) bmax.isNone (bmax.getD 0) fuel
          (s.minPageIndex + (k : Int) - 1)) (maxK bmax)
        = .ok (maxOut (PStore.maxIndex?.scan s bmax (List.range k).reverse)) := by
  intro k
  induction k with
  | zero =>
    intro fuel hk hf
    obtain ⟨f, rfl⟩ : ∃ f, fuel = f + 1 := ⟨fuel - 1, by omega⟩
    unfold BufferedPaginatedStore.MaxIndex.loop1
    have : ¬ (s.minPageIndex ≤ s.minPageIndex + ((0 : Nat) : Int) - 1) := by omega
    simp only [toGen_minPageIndex, this, decide_false, Bool.false_and]
    simp only [Bool.false_eq_true, if_false, Loop.elim_done, List.range_zero, List.reverse_nil]
    unfold PStore.maxIndex?.scan
    exact maxK_eq _ _
  | succ k ih =>
    intro fuel hk hf
    obtain ⟨f, rfl⟩ : ∃ f, fuel = f + 1 := ⟨fuel - 1, by omega⟩
    have hklt : k < s.pages.size := by omega
    have hnext := ih f (by omega) (by omega)
    unfold BufferedPaginatedStore.MaxIndex.loop1
    rw [List.range_succ, List.reverse_append, List.reverse_singleton, List.singleton_append]
    unfold PStore.maxIndex?.scan
    rw [show s.minPageIndex + ((k + 1 : Nat) : Int) - 1 = s.minPageIndex + (k : Int) by omega]
    have h1 : s.minPageIndex ≤ s.minPageIndex + (k : Int) := by omega
    simp only [toGen_minPageIndex, toGen_pages, h1, decide_true, Bool.true_and, rd_pageIndex]
    have hidx : GoSem.idx (pagesL s) (s.minPageIndex + (k : Int) - s.minPageIndex)
        = some (s.pages.getD k #[]).toList := by
      rw [show s.minPageIndex + (k : Int) - s.minPageIndex = (k : Int) by omega]
      exact pages_idx s k hklt
    rw [hidx]
    have hpg := size_le_maxPageSize s k
    generalize s.pages.getD k #[] = pg at hpg ⊢
    cases bmax with
    | none =>
      simp only [Option.isNone_none, Bool.true_or, if_true, GoSem.optL_some, Bool.not_true,
        Bool.false_and, Bool.false_eq_true, if_false] at hnext ⊢
      exact max_page s cap pg _ f 0 _ rfl (by omega) _ _ _ hnext
    | some m =>
      simp only [Option.isNone_some, Bool.false_or, Bool.not_false, Bool.true_and,
        Option.getD_some] at hnext ⊢
      by_cases hcont : s.pageIndex m ≤ s.minPageIndex + (k : Int)
      · simp only [ge_iff_le, hcont, decide_true, if_true, GoSem.optL_some, Bool.not_true,
          Bool.false_eq_true, if_false]
        by_cases hp : s.minPageIndex + (k : Int) = s.pageIndex m
        · simp only [hp, beq_self_eq_true, if_true]
          rw [hp] at hnext
          exact max_page s cap pg _ f (s.lineIndex m) _ (rd_lineIndex s cap m) (by omega) _ _ _ hnext
        · have hp' : (s.minPageIndex + (k : Int) == s.pageIndex m) = false := by simpa using hp
          simp only [hp, hp', Bool.false_eq_true, if_false]
          exact max_page s cap pg _ f 0 _ rfl (by omega) _ _ _ hnext
      · simp only [ge_iff_le, hcont, decide_false, Bool.false_eq_true, if_false, Loop.elim_done,
          Bool.not_false, if_true]
        exact maxK_eq _ _

/-- fuel for `MaxIndex`: one unit per allocated page slot, plus one scan of the largest page -/
def maxFuel (s : PStore) : Nat := s.pages.size + maxPageSize s + 1

/-- **MaxIndex**: the generated code computes the model's `maxIndex?`, for every store -/
theorem MaxIndex_eq (s : PStore) (cap : Int) (fuel : Nat) (hf : maxFuel s ≤ fuel) :
    BufferedPaginatedStore.MaxIndex fuel (toGen s cap)
      = .ok (match s.maxIndex? with
             | some m => (m, GoErr.nil)
             | none => ((0 : Int), errUndefinedMaxIndex)) := by
  unfold BufferedPaginatedStore.MaxIndex
  simp only [toGen_buffer, max_loop3, Loop.elim_done, toGen_minPageIndex, toGen_pages, len_pagesL]
  exact max_loop1 s cap (PStore.listMax? s.buffer) s.pages.size fuel (Nat.le_refl _)
    (by unfold maxFuel at hf; omega)

end DDS.GenPag
