/-
  DDS.Proofs.GenStoreDecode — the REGENERATED generic bin decoder of the stores
  (`DDS/Generated/CodeStoreDecode.lean`, translated from `store.DecodeAndMergeWith`,
  /repo/ddsketch/store/store.go:90, on every run; three loops over the regenerated codecs of
  `DDS/Generated/CodeEncoding.lean`) agrees with the HAND-WRITTEN model `DDS.Sketch.decodeStore`
  (`DDS/Model/Sketch.lean`), for all inputs, with explicit fuel.

  Conventions (as in `GenEncoding`): the generated code works on `b : List (BitVec 8)`, the model on
  `nb b : List Nat`; a model remainder `rest` comes back as `bn rest`.  The model's sub-flag number `sub`
  (`Wire.flagSub` of the flag byte, `< 64`) is Go's `subflag sub = newSubFlag sub`
  (`Flag_SubFlag_subflag`: `f.SubFlag() = subflag (flagSub f)`).  The store is the model's `Store` through
  `instance : StoreI Store` of `GenSketch`.

  §1  `DecodeVarfloat64_eq` (fuel ≥ 9): the regenerated varfloat decoder IS `Codec.decVarfloat64` (was
      missing from `GenEncoding`); never `.panic` / `.nofuel`.
  §3  `storeIndexes sub bs` — the indexes the model hands to the store; `NoWrap sub bs` — all of them in
      `[-2^63, 2^63)`.
  §4  `loop1_spec / loop2_spec / loop3_spec` — the three loops against `decItems dcItem / dItem / ccItem`.
  §6  main theorems, all with fuel `len(b) + 9` (every item consumes ≥ 1 byte or fails, so the loop ends by
      `io.EOF` after ≤ `len(b) + 1` iterations even when `numBins` is `2^64 − 1`):
        `DecodeAndMergeWith_ok`        model `some (.ok (st', rest))` ∧ `NoWrap` ⟹ `.ok (st', bn rest, nil)`
        `DecodeAndMergeWith_ok_bytes`  … without `NoWrap`: still `.ok (_, bn rest, nil)` (same bytes consumed)
        `DecodeAndMergeWith_error`     model `some (.error e)` ⟹ `.ok (_, _, io.EOF)` with `e = .eof` (defined
                                       layout), or `.ok (st, b, "unknown bin encoding")` with
                                       `e = .unknownBinEncoding`; no hypothesis on the indexes
        `DecodeAndMergeWith_unknown`, `DecodeAndMergeWith_agrees` (the two halves in one statement)
      model `none` (a store operation of the model panics, or a count is not finite): nothing claimed,
      except §8.
  §7  THE DOCUMENTED DIFFERENCE, `wrap_counterexample`: Go accumulates the index in `int64` with wrap-around,
      the model in `Int`.  Two deltas of `2^62`: the model adds bins `2^62, 2^63`, the Go code `2^62, −2^63`.
      `NoWrap` is exactly what excludes this (`BitVec.ofInt 64 idx` is Go's index unconditionally).
      Observation `eof_after_partial_merge_example`: on `io.EOF` the Go store has already absorbed the bins
      read before the cut (the model's error carries no store, so this is not a disagreement).
  §8  `DecodeAndMergeWith_total`: for EVERY `StoreI` implementation and every input the generated decoder
      returns normally with fuel `len(b) + 9`; the error is nil, `io.EOF` or "unknown bin encoding".

  Property-level corollaries (C07 / C08 on the generated decoder): `DDS/Props/C07Gen.lean`.
  No other disagreement was found: same success/failure, same bytes consumed, same error class.
-/
import DDS.Generated.CodeStoreDecode
import DDS.Proofs.GenEncoding
import DDS.Proofs.GenSketch
import DDS.Proofs.Wire

set_option linter.unusedVariables false

namespace DDS.GenStoreDecode

open DDS DDS.GoSem DDS.Gen.Encoding DDS.Gen.StoreDecode DDS.Codec DDS.GenEncoding DDS.Props.C18Bits

/-! ## 1. `DecodeVarfloat64` is the model's `decVarfloat64` -/

theorem or_disjoint_nat (a b k : Nat) (ha : 2 ^ k ∣ a) (hb : b < 2 ^ k) : a ||| b = a + b := by
  obtain ⟨q, rfl⟩ := ha
  rw [Nat.mul_comm, ← Nat.shiftLeft_eq]
  exact (Nat.shiftLeft_add_eq_or_of_lt hb q).symm

/-- `x | m << s` is an addition when `x` only has bits from `s + w` upwards and `m` has `w` bits
    (the varfloat decoder fills the word from the top) -/
theorem or_shift_hi_toNat (x m : BitVec 64) (s w : Nat) (hsw : s + w ≤ 64)
    (hx : 2 ^ (s + w) ∣ x.toNat) (hm : m.toNat < 2 ^ w) :
    (x ||| m <<< s).toNat = x.toNat + m.toNat * 2 ^ s := by
  have hms : m.toNat * 2 ^ s < 2 ^ (s + w) := by
    rw [Nat.pow_add, Nat.mul_comm]
    exact Nat.mul_lt_mul_of_pos_left hm (Nat.pow_pos (by decide))
  have h64 : 2 ^ (s + w) ≤ 2 ^ 64 := Nat.pow_le_pow_right (by decide) hsw
  have hy : (m <<< s).toNat = m.toNat * 2 ^ s := by
    rw [BitVec.toNat_shiftLeft, Nat.shiftLeft_eq, Nat.mod_eq_of_lt (by omega)]
  rw [BitVec.toNat_or, hy, or_disjoint_nat _ _ _ hx hms]

theorem or_shift_hi (x m : BitVec 64) (s w : Nat) (hsw : s + w ≤ 64)
    (hx : 2 ^ (s + w) ∣ x.toNat) (hm : m.toNat < 2 ^ w) :
    x ||| m <<< s = BitVec.ofNat 64 (x.toNat + m.toNat * 2 ^ s) := by
  have hor := or_shift_hi_toNat x m s w hsw hx hm
  apply BitVec.eq_of_toNat_eq
  rw [hor, BitVec.toNat_ofNat, Nat.mod_eq_of_lt]
  rw [← hor]
  exact (x ||| m <<< s).isLt

theorem and127_lt (n : BitVec 8) : (BitVec.setWidth 64 (n &&& 127#8)).toNat < 2 ^ 7 := by
  rw [and127_toNat]; omega

theorem decVarfloat64_loop (G : BitVec 64 → F64) (k : Nat) :
    ∀ (fuel : Nat) (b : List (BitVec 8)) (x : BitVec 64) (j : Nat),
    j + k = 8 → k + 1 ≤ fuel → 2 ^ (57 - 7 * j + 7) ∣ x.toNat →
    Loop.elim (DecodeVarfloat64.loop1 b fuel x (j : Int) (BitVec.ofNat 64 (57 - 7 * j)))
        (fun (x, i, s) => GoSem.optR (GoSem.sliceFrom b (i + (1 : Int))) (fun t1 =>
          .ok (t1, G x, GoErr.nil)))
      = match decVF k (57 - 7 * j) x.toNat (nb (b.drop j)) with
        | .error _ => .ok (b, F64.fin (0 : Rat), GoErr.eof)
        | .ok (v, rest) => .ok (suffixOf b rest, G (BitVec.ofNat 64 v), GoErr.nil) := by
  induction k with
  | zero =>
    intro fuel b x j hj hf hx
    obtain ⟨fuel, rfl⟩ : ∃ f, fuel = f + 1 := ⟨fuel - 1, by omega⟩
    have hj8 : j = 8 := by omega
    subst hj8
    unfold DecodeVarfloat64.loop1
    cases hd : b.drop 8 with
    | nil =>
      have hl : b.length ≤ 8 := List.drop_eq_nil_iff.mp hd
      have : GoSem.len b ≤ ((8 : Nat) : Int) := by unfold GoSem.len; omega
      simp only [this, decide_true, if_true, nb_nil, decVF, Loop.elim_ret]
    | cons n tl =>
      obtain ⟨hidx, hlt, htl⟩ := idx_drop b 8 n tl hd
      have : ¬ (GoSem.len b ≤ ((8 : Nat) : Int)) := by unfold GoSem.len; omega
      have h8 : (((8 : Nat) : Int) == (8 : Int)) = true := by decide
      simp only [this, decide_false, Bool.false_eq_true, if_false, hidx, optL_some, nb_cons, decVF,
        h8, if_true, Loop.elim_done]
      rw [show ((8 : Nat) : Int) + 1 = ((9 : Nat) : Int) by rfl, sliceFrom_nat b 9 (by omega), optR_some]
      rw [htl, suffixOf_drop b 9 (by omega)]
      have h := or_shift_hi x (BitVec.setWidth 64 n) 0 8 (by decide) hx
        (by rw [setWidth64_toNat]; exact n.isLt)
      rw [BitVec.shiftLeft_zero, setWidth64_toNat, Nat.pow_zero, Nat.mul_one] at h
      rw [h]
  | succ k ih =>
    intro fuel b x j hj hf hx
    obtain ⟨fuel, rfl⟩ : ∃ f, fuel = f + 1 := ⟨fuel - 1, by omega⟩
    unfold DecodeVarfloat64.loop1
    cases hd : b.drop j with
    | nil =>
      have hl : b.length ≤ j := List.drop_eq_nil_iff.mp hd
      have : GoSem.len b ≤ (j : Int) := by unfold GoSem.len; omega
      simp only [this, decide_true, if_true, nb_nil, decVF, Loop.elim_ret]
    | cons n tl =>
      obtain ⟨hidx, hlt, htl⟩ := idx_drop b j n tl hd
      have : ¬ (GoSem.len b ≤ (j : Int)) := by unfold GoSem.len; omega
      have h8 : ((j : Int) == (8 : Int)) = false := by
        rw [beq_eq_false_iff_ne]; omega
      have hs7 : (BitVec.ofNat 64 (57 - 7 * j)).toNat = 57 - 7 * j := by
        rw [BitVec.toNat_ofNat]; omega
      simp only [this, decide_false, Bool.false_eq_true, if_false, hidx, optL_some, nb_cons, decVF, h8]
      by_cases hn : n.toNat < 128
      · have hu : BitVec.ult n 128#8 = true := by
          rw [BitVec.ult_eq_decide]; simpa using hn
        simp only [hu, if_true, hn, Loop.elim_done]
        rw [show (j : Int) + 1 = ((j + 1 : Nat) : Int) by omega, sliceFrom_nat b (j + 1) (by omega),
          optR_some, htl, suffixOf_drop b (j + 1) (by omega)]
        rw [BitVec.shiftLeft_eq', hs7,
          or_shift_hi x (BitVec.setWidth 64 n) (57 - 7 * j) 7 (by omega) hx
            (by rw [setWidth64_toNat]; exact hn), setWidth64_toNat]
      · have hu : BitVec.ult n 128#8 = false := by
          rw [BitVec.ult_eq_decide]; simpa using hn
        simp only [hu, Bool.false_eq_true, if_false, hn]
        have hx' := or_shift_hi_toNat x (BitVec.setWidth 64 (n &&& 127#8)) (57 - 7 * j) 7 (by omega) hx
          (and127_lt n)
        rw [and127_toNat] at hx'
        have hsn : BitVec.ofNat 64 (57 - 7 * j) - 7#64 = BitVec.ofNat 64 (57 - 7 * (j + 1)) := by
          apply BitVec.eq_of_toNat_eq
          rw [BitVec.toNat_sub, hs7, BitVec.toNat_ofNat, BitVec.toNat_ofNat]
          omega
        have hdv : 2 ^ (57 - 7 * (j + 1) + 7) ∣
            (x ||| BitVec.setWidth 64 (n &&& 127#8) <<< (57 - 7 * j)).toNat := by
          rw [hx', show 57 - 7 * (j + 1) + 7 = 57 - 7 * j by omega]
          apply Nat.dvd_add
          · exact Nat.dvd_trans (Nat.pow_dvd_pow 2 (by omega)) hx
          · exact Nat.dvd_mul_left _ _
        rw [BitVec.shiftLeft_eq', hs7, hsn, show (j : Int) + 1 = ((j + 1 : Nat) : Int) by omega,
          ih fuel b _ (j + 1) (by omega) (by omega) hdv, hx', htl,
          show 57 - 7 * (j + 1) = 57 - 7 * j - 7 by omega]

theorem ofNat_toNat_u64 (y : BitVec 64) : UInt64.ofNat y.toNat = UInt64.ofBitVec y := by
  show UInt64.ofBitVec (BitVec.ofNat 64 y.toNat) = _
  rw [BitVec.ofNat_toNat, BitVec.setWidth_eq]

theorem float64bits_one : GoSem.float64bits (F64.fin (1 : Rat)) = BitVec.ofNat 64 oneBits := by
  decide +kernel

theorem rotateLeft64_neg6 (x : BitVec 64) : GoSem.rotateLeft64 x (-6 : Int) = x.rotateRight 6 := by
  unfold GoSem.rotateLeft64
  show x.rotateLeft 58 = _
  apply BitVec.eq_of_getLsbD_eq
  intro i hi
  simp [BitVec.getLsbD_rotateLeft, BitVec.getLsbD_rotateRight]

/-- the float the Go decoder builds from the accumulated word is the model's -/
theorem varfloat_value (v : Nat) :
    F64.sub (GoSem.float64frombits ((GoSem.rotateLeft64 (BitVec.ofNat 64 v) (-6 : Int))
        + (GoSem.float64bits (F64.fin (1 : Rat))))) (F64.fin (1 : Rat))
      = F64.sub (F64.ofBits (UInt64.ofNat (vfUnword (v % W64)))) F64.one := by
  rw [rotateLeft64_neg6, float64bits_one]
  have h := vfUnword_bits (BitVec.ofNat 64 v)
  rw [BitVec.toNat_ofNat] at h
  rw [show W64 = 2 ^ 64 from rfl, ← h, ofNat_toNat_u64]
  rfl

/-- the value the generated decoder builds from the accumulated word (kept folded: unfolding it in
    `simp` makes Lean evaluate `float64bits 1` symbolically) -/
def vfG (x : BitVec 64) : F64 := F64.sub (GoSem.float64frombits ((GoSem.rotateLeft64 x (-6 : Int))
        + (GoSem.float64bits (F64.fin (1 : Rat))))) (F64.fin (1 : Rat))

theorem vfG_eq (v : Nat) : vfG (BitVec.ofNat 64 v) = Wire.vfValue (vfUnword (v % W64)) :=
  varfloat_value v

theorem DecodeVarfloat64_loop_eq (fuel : Nat) (hf : 9 ≤ fuel) (b : List (BitVec 8)) :
    DecodeVarfloat64 fuel b = match decVF 8 57 0 (nb b) with
        | .error _ => .ok (b, F64.fin (0 : Rat), GoErr.eof)
        | .ok (v, rest) => .ok (suffixOf b rest, vfG (BitVec.ofNat 64 v), GoErr.nil) := by
  have h := decVarfloat64_loop vfG 8 fuel b 0#64 0 (by decide) hf (Nat.dvd_zero _)
  exact h

/-- **`DecodeVarfloat64`** is the model's decoder `Codec.decVarfloat64`: eof leaves the input untouched
    (value 0), success returns the model's float and the corresponding suffix of the input.
    Never `.panic` / `.nofuel`. -/
theorem DecodeVarfloat64_eq (fuel : Nat) (hf : 9 ≤ fuel) (b : List (BitVec 8)) :
    DecodeVarfloat64 fuel b = match decVarfloat64 (nb b) with
      | .error _ => .ok (b, F64.fin (0 : Rat), GoErr.eof)
      | .ok (c, rest) => .ok (suffixOf b rest, c, GoErr.nil) := by
  rw [DecodeVarfloat64_loop_eq fuel hf]
  cases hd : decVF 8 57 0 (nb b) with
  | error e =>
    rw [DDS.Sketch.decVarfloat64_of_error _ _ (decVarfloatBits_of_error _ _ hd)]
  | ok p =>
    obtain ⟨v, rest⟩ := p
    rw [DDS.Sketch.decVarfloat64_of_ok _ _ _ (decVarfloatBits_of_ok _ _ _ hd)]
    show Res.ok (suffixOf b rest, vfG (BitVec.ofNat 64 v), GoErr.nil)
      = Res.ok (suffixOf b rest, Wire.vfValue _, GoErr.nil)
    rw [vfG_eq]

/-! ## 2. the three codecs, in the form the loops use them

  success: the generated decoder returns a slice `b'` whose bytes are the model's rest, strictly shorter
  than its input; failure: `(input, zero value, io.EOF)`. -/

open DDS.Sketch

theorem strict_drop (b : List (BitVec 8)) (rest : Bytes) (k : Nat) (hk : 1 ≤ k)
    (hr : rest = (nb b).drop k) (hne : b ≠ []) :
    nb (suffixOf b rest) = rest ∧ (suffixOf b rest).length < b.length := by
  subst hr
  have h1 := nb_suffixOf_drop b k
  refine ⟨h1, ?_⟩
  have h2 : (suffixOf b ((nb b).drop k)).length = ((nb b).drop k).length := by
    rw [← nb_length, h1]
  rw [h2, List.length_drop, nb_length]
  have := List.length_pos_iff.mpr hne
  omega

theorem U_ok (fuel : Nat) (hf : 9 ≤ fuel) (b : List (BitVec 8)) (v : Nat) (rest : Bytes)
    (h : decUvarint64 (nb b) = .ok (v, rest)) :
    ∃ b', DecodeUvarint64 fuel b = .ok (b', BitVec.ofNat 64 v, GoErr.nil) ∧ nb b' = rest ∧
      b'.length < b.length ∧ v < W64 := by
  obtain ⟨k, hk1, _, hk3, hv⟩ := decUvarint64_ok _ _ _ h
  have hne : b ≠ [] := by
    rintro rfl
    simp [decUvarint64, decU] at h
  obtain ⟨h1, h2⟩ := strict_drop b rest k hk1 hk3 hne
  refine ⟨suffixOf b rest, ?_, h1, h2, hv⟩
  rw [DecodeUvarint64_eq fuel hf, h]; rfl

theorem U_err (fuel : Nat) (hf : 9 ≤ fuel) (b : List (BitVec 8)) (e : DecErr)
    (h : decUvarint64 (nb b) = .error e) :
    DecodeUvarint64 fuel b = .ok (b, 0#64, GoErr.eof) := DecodeUvarint64_eof fuel hf b e h

theorem decVarint64_inv (bs : Bytes) (d : Int) (rest : Bytes) (h : decVarint64 bs = .ok (d, rest)) :
    ∃ u, decUvarint64 bs = .ok (u, rest) := by
  unfold decVarint64 at h
  cases hd : decUvarint64 bs with
  | error e => rw [hd] at h; cases h
  | ok p =>
    obtain ⟨u, r⟩ := p
    rw [hd] at h
    simp only [Except.ok.injEq, Prod.mk.injEq] at h
    exact ⟨u, by rw [h.2]⟩

theorem V_ok (fuel : Nat) (hf : 9 ≤ fuel) (b : List (BitVec 8)) (d : Int) (rest : Bytes)
    (h : decVarint64 (nb b) = .ok (d, rest)) :
    ∃ b', DecodeVarint64 fuel b = .ok (b', BitVec.ofInt 64 d, GoErr.nil) ∧ nb b' = rest ∧
      b'.length < b.length ∧ I64 d := by
  obtain ⟨u, hu⟩ := decVarint64_inv _ _ _ h
  obtain ⟨k, hk1, _, hk3, _⟩ := decUvarint64_ok _ _ _ hu
  have hne : b ≠ [] := by
    rintro rfl
    simp [decUvarint64, decU] at hu
  obtain ⟨h1, h2⟩ := strict_drop b rest k hk1 hk3 hne
  refine ⟨suffixOf b rest, ?_, h1, h2, decVarint64_range _ _ _ h⟩
  rw [DecodeVarint64_eq fuel hf, h]; rfl

theorem V_err (fuel : Nat) (hf : 9 ≤ fuel) (b : List (BitVec 8)) (e : DecErr)
    (h : decVarint64 (nb b) = .error e) :
    DecodeVarint64 fuel b = .ok (b, 0#64, GoErr.eof) := by
  rw [DecodeVarint64_eq fuel hf, h]; rfl

theorem decVarfloat64_inv (bs : Bytes) (c : F64) (rest : Bytes) (h : decVarfloat64 bs = .ok (c, rest)) :
    ∃ k, 1 ≤ k ∧ rest = bs.drop k := by
  unfold decVarfloat64 at h
  split at h
  · rename_i u r heq
    simp only [Except.ok.injEq, Prod.mk.injEq] at h
    obtain ⟨k, hk, _, hr⟩ := decVarfloatBits_ok _ _ _ heq
    exact ⟨k, hk, by rw [← h.2, hr]⟩
  · simp at h

theorem F_ok (fuel : Nat) (hf : 9 ≤ fuel) (b : List (BitVec 8)) (c : F64) (rest : Bytes)
    (h : decVarfloat64 (nb b) = .ok (c, rest)) :
    ∃ b', DecodeVarfloat64 fuel b = .ok (b', c, GoErr.nil) ∧ nb b' = rest ∧ b'.length < b.length := by
  obtain ⟨k, hk1, hk3⟩ := decVarfloat64_inv _ _ _ h
  have hne : b ≠ [] := by
    rintro rfl
    simp [decVarfloat64, decVarfloatBits, decVF] at h
  obtain ⟨h1, h2⟩ := strict_drop b rest k hk1 hk3 hne
  refine ⟨suffixOf b rest, ?_, h1, h2⟩
  rw [DecodeVarfloat64_eq fuel hf, h]

theorem F_err (fuel : Nat) (hf : 9 ≤ fuel) (b : List (BitVec 8)) (e : DecErr)
    (h : decVarfloat64 (nb b) = .error e) :
    DecodeVarfloat64 fuel b = .ok (b, F64.fin (0 : Rat), GoErr.eof) := by
  rw [DecodeVarfloat64_eq fuel hf, h]

/-! ## 3. the indexes handed to the store, and the no-wrap hypothesis

  The Go code keeps the running index in an `int64` (`index += indexDelta`, wrap-around) and hands
  `int(index)` to the store; the model adds in unbounded `Int`.  `BitVec.ofInt 64` of the model's index IS
  the Go index at every step (unconditionally); the value handed to the store is the same integer exactly
  when the model's index lies in the int64 range. -/

/-- layout "index deltas and counts": the indexes the model passes to the store, in order, until the
    items or the parsable input run out -/
def dcTrace : Nat → Int → Bytes → List Int
  | 0, _, _ => []
  | n + 1, idx, bs =>
    match decVarint64 bs with
    | .error _ => []
    | .ok (d, bs1) =>
      match decVarfloat64 bs1 with
      | .error _ => []
      | .ok (_, bs2) => (idx + d) :: dcTrace n (idx + d) bs2

/-- layout "index deltas" -/
def dTrace : Nat → Int → Bytes → List Int
  | 0, _, _ => []
  | n + 1, idx, bs =>
    match decVarint64 bs with
    | .error _ => []
    | .ok (d, bs1) => (idx + d) :: dTrace n (idx + d) bs1

/-- layout "contiguous counts" -/
def ccTrace (stride : Int) : Nat → Int → Bytes → List Int
  | 0, _, _ => []
  | n + 1, idx, bs =>
    match decVarfloat64 bs with
    | .error _ => []
    | .ok (_, bs1) => idx :: ccTrace stride n (idx + stride) bs1

/-- every index `decodeStore st sub bs` passes to the store (independent of the store) -/
def storeIndexes (sub : Nat) (bs : Bytes) : List Int :=
  if sub = Consts.binEncodingIndexDeltasAndCounts then
    match decUvarint64 bs with
    | .error _ => []
    | .ok (n, bs) => dcTrace n 0 bs
  else if sub = Consts.binEncodingIndexDeltas then
    match decUvarint64 bs with
    | .error _ => []
    | .ok (n, bs) => dTrace n 0 bs
  else if sub = Consts.binEncodingContiguousCounts then
    match decUvarint64 bs with
    | .error _ => []
    | .ok (n, bs) =>
      match decVarint64 bs with
      | .error _ => []
      | .ok (start, bs) =>
        match decVarint64 bs with
        | .error _ => []
        | .ok (stride, bs) => ccTrace stride n start bs
  else []

/-- **the hypothesis under which Go's `int64` running index and the model's `Int` agree**: every index
    handed to the store (every partial sum of the deltas; `start + k·stride` for the contiguous layout)
    lies in `[-2^63, 2^63)` -/
def NoWrap (sub : Nat) (bs : Bytes) : Prop := ∀ u ∈ storeIndexes sub bs, I64 u

theorem toInt_ofInt_I64 (i : Int) (h : I64 i) : (BitVec.ofInt 64 i).toInt = i := by
  obtain ⟨h1, h2⟩ := h
  rw [BitVec.toInt_ofInt]
  simp only [Int.bmod]
  omega

theorem decItems_err {item} (n : Nat) (st : Store) (idx : Int) (bs : Bytes) (e : SkErr)
    (h : item st idx bs = some (.error e)) : decItems item (n + 1) st idx bs = some (.error e) := by
  simp only [decItems, h]

theorem decItems_none {item} (n : Nat) (st : Store) (idx : Int) (bs : Bytes)
    (h : item st idx bs = none) : decItems item (n + 1) st idx bs = none := by
  simp only [decItems, h]

theorem decItems_ok {item} (n : Nat) (st : Store) (idx : Int) (bs : Bytes) (st' : Store) (idx' : Int)
    (bs' : Bytes) (h : item st idx bs = some (.ok (st', idx', bs'))) :
    decItems item (n + 1) st idx bs = decItems item n st' idx' bs' := by
  simp only [decItems, h]

theorem hnil : (GoErr.nil != GoErr.nil) = false := by decide
theorem heof : (GoErr.eof != GoErr.nil) = true := by decide

theorem ult_of_lt (i n : BitVec 64) (h : i.toNat < n.toNat) : BitVec.ult i n = true := by
  rw [BitVec.ult_eq_decide]; simpa using h
theorem ult_of_eq (i n : BitVec 64) (h : n.toNat = i.toNat) : BitVec.ult i n = false := by
  rw [BitVec.ult_eq_decide]; simp [h]

theorem toNat_succ (i n : BitVec 64) (k : Nat) (h : n.toNat = i.toNat + (k + 1)) :
    n.toNat = (i + 1#64).toNat + k := by
  have := n.isLt
  rw [BitVec.toNat_add]
  simp only [BitVec.toNat_ofNat]
  omega

/-! ## 4. the three loops -/

/-- loop of the layout "index deltas and counts" against `decItems dcItem`.  The control flow and the bytes
    depend on the input only (any store `s`, any `index`); the resulting store is the model's when the loop
    starts from the model's store and index and no index handed to the store wraps. -/
theorem loop1_spec (numBins : BitVec 64) : ∀ (n fuel : Nat) (b : List (BitVec 8)) (index : BitVec 64)
    (s : Store) (i : BitVec 64) (st : Store) (idx : Int),
    numBins.toNat = i.toNat + n → b.length + 10 ≤ fuel →
    (∀ e, decItems dcItem n st idx (nb b) = some (.error e) →
      e = .eof ∧ ∃ s' b', DecodeAndMergeWith.loop1 numBins fuel b index s i = .ret (s', b', GoErr.eof)) ∧
    (∀ st' rest, decItems dcItem n st idx (nb b) = some (.ok (st', rest)) →
      ∃ s' index' i', DecodeAndMergeWith.loop1 numBins fuel b index s i = .done (bn rest, index', s', i') ∧
        (s = st → index = BitVec.ofInt 64 idx → (∀ u ∈ dcTrace n idx (nb b), I64 u) → s' = st')) := by
  intro n
  induction n with
  | zero =>
    intro fuel b index s i st idx hn hf
    obtain ⟨fuel, rfl⟩ : ∃ f, fuel = f + 1 := ⟨fuel - 1, by omega⟩
    have hu := ult_of_eq i numBins (by omega)
    refine ⟨fun e h => ?_, fun st' rest h => ?_⟩
    · simp [decItems] at h
    · simp only [decItems, Option.some.injEq, Except.ok.injEq, Prod.mk.injEq] at h
      refine ⟨s, index, i, ?_, fun hs _ _ => by rw [hs, h.1]⟩
      simp only [DecodeAndMergeWith.loop1, hu, Bool.false_eq_true, if_false]
      rw [← h.2, bn_nb]
  | succ n ih =>
    intro fuel b index s i st idx hn hf
    obtain ⟨fuel, rfl⟩ : ∃ f, fuel = f + 1 := ⟨fuel - 1, by omega⟩
    have hf9 : 9 ≤ fuel := by omega
    have hu := ult_of_lt i numBins (by omega)
    cases hV : decVarint64 (nb b) with
    | error e1 =>
      have hm := decItems_err n st idx (nb b) _
        (dcItem_of_err1 st idx (nb b) _ (sk_liftDec_of_error _ _ hV))
      have hl : DecodeAndMergeWith.loop1 numBins (fuel + 1) b index s i = .ret (s, b, GoErr.eof) := by
        simp only [DecodeAndMergeWith.loop1, hu, if_true, V_err fuel hf9 b e1 hV, Res.bindL_ok, heof]
      rw [hm]
      refine ⟨fun e h => ?_, fun st' rest h => by simp at h⟩
      simp only [Option.some.injEq, Except.error.injEq] at h
      exact ⟨h.symm, s, b, hl⟩
    | ok p1 =>
      obtain ⟨d, r1⟩ := p1
      obtain ⟨b1, hV1, hb1, hl1, hd⟩ := V_ok fuel hf9 b d r1 hV
      cases hF : decVarfloat64 r1 with
      | error e2 =>
        have hm := decItems_err n st idx (nb b) _
          (dcItem_of_err2 st idx (nb b) r1 d _ (sk_liftDec_of_ok _ _ hV) (sk_liftDec_of_error _ _ hF))
        have hl : DecodeAndMergeWith.loop1 numBins (fuel + 1) b index s i = .ret (s, b1, GoErr.eof) := by
          simp only [DecodeAndMergeWith.loop1, hu, if_true, hV1, Res.bindL_ok, hnil, Bool.false_eq_true,
            if_false, F_err fuel hf9 b1 e2 (by rw [hb1]; exact hF), heof]
        rw [hm]
        refine ⟨fun e h => ?_, fun st' rest h => by simp at h⟩
        simp only [Option.some.injEq, Except.error.injEq] at h
        exact ⟨h.symm, s, b1, hl⟩
      | ok p2 =>
        obtain ⟨c, r2⟩ := p2
        obtain ⟨b2, hF1, hb2, hl2⟩ := F_ok fuel hf9 b1 c r2 (by rw [hb1]; exact hF)
        have hit := dcItem_of_ok st idx (nb b) r1 r2 d c (sk_liftDec_of_ok _ _ hV) (sk_liftDec_of_ok _ _ hF)
        have hl : DecodeAndMergeWith.loop1 numBins (fuel + 1) b index s i
            = DecodeAndMergeWith.loop1 numBins fuel b2 (index + BitVec.ofInt 64 d)
                (StoreI.AddWithCount s (BitVec.toInt (index + BitVec.ofInt 64 d)) c) (i + 1#64) := by
          simp only [DecodeAndMergeWith.loop1, hu, if_true, hV1, Res.bindL_ok, hnil, Bool.false_eq_true,
            if_false, hF1]
        cases hadd : addF st (idx + d) c with
        | none =>
          rw [hadd] at hit
          rw [decItems_none n st idx (nb b) hit]
          exact ⟨fun e h => by simp at h, fun st' rest h => by simp at h⟩
        | some st1 =>
          rw [hadd] at hit
          rw [decItems_ok n st idx (nb b) st1 (idx + d) r2 hit, hl, ← hb2]
          obtain ⟨ih1, ih2⟩ := ih fuel b2 (index + BitVec.ofInt 64 d)
            (StoreI.AddWithCount s (BitVec.toInt (index + BitVec.ofInt 64 d)) c) (i + 1#64) st1 (idx + d)
            (toNat_succ i numBins n hn) (by omega)
          refine ⟨ih1, fun st' rest h => ?_⟩
          obtain ⟨s', index', i', h1, h2⟩ := ih2 st' rest h
          refine ⟨s', index', i', h1, fun hs hi ht => ?_⟩
          have htr : dcTrace (n + 1) idx (nb b) = (idx + d) :: dcTrace n (idx + d) (nb b2) := by
            simp only [dcTrace, hV, hF, hb2]
          rw [htr] at ht
          have hi' : index + BitVec.ofInt 64 d = BitVec.ofInt 64 (idx + d) := by
            rw [hi, BitVec.ofInt_add]
          apply h2
          · rw [hi', toInt_ofInt_I64 _ (ht _ (List.mem_cons_self ..)), hs]
            exact GenSketch.store_addF_some st st1 (idx + d) c hadd
          · exact hi'
          · exact fun u hu => ht u (List.mem_cons_of_mem _ hu)

/-- loop of the layout "index deltas" against `decItems dItem` -/
theorem loop2_spec (numBins : BitVec 64) : ∀ (n fuel : Nat) (b : List (BitVec 8)) (index : BitVec 64)
    (s : Store) (i : BitVec 64) (st : Store) (idx : Int),
    numBins.toNat = i.toNat + n → b.length + 10 ≤ fuel →
    (∀ e, decItems dItem n st idx (nb b) = some (.error e) →
      e = .eof ∧ ∃ s' b', DecodeAndMergeWith.loop2 numBins fuel b index s i = .ret (s', b', GoErr.eof)) ∧
    (∀ st' rest, decItems dItem n st idx (nb b) = some (.ok (st', rest)) →
      ∃ s' index' i', DecodeAndMergeWith.loop2 numBins fuel b index s i = .done (bn rest, index', s', i') ∧
        (s = st → index = BitVec.ofInt 64 idx → (∀ u ∈ dTrace n idx (nb b), I64 u) → s' = st')) := by
  intro n
  induction n with
  | zero =>
    intro fuel b index s i st idx hn hf
    obtain ⟨fuel, rfl⟩ : ∃ f, fuel = f + 1 := ⟨fuel - 1, by omega⟩
    have hu := ult_of_eq i numBins (by omega)
    refine ⟨fun e h => ?_, fun st' rest h => ?_⟩
    · simp [decItems] at h
    · simp only [decItems, Option.some.injEq, Except.ok.injEq, Prod.mk.injEq] at h
      refine ⟨s, index, i, ?_, fun hs _ _ => by rw [hs, h.1]⟩
      simp only [DecodeAndMergeWith.loop2, hu, Bool.false_eq_true, if_false]
      rw [← h.2, bn_nb]
  | succ n ih =>
    intro fuel b index s i st idx hn hf
    obtain ⟨fuel, rfl⟩ : ∃ f, fuel = f + 1 := ⟨fuel - 1, by omega⟩
    have hf9 : 9 ≤ fuel := by omega
    have hu := ult_of_lt i numBins (by omega)
    cases hV : decVarint64 (nb b) with
    | error e1 =>
      have hm := decItems_err n st idx (nb b) _
        (dItem_of_err st idx (nb b) _ (sk_liftDec_of_error _ _ hV))
      have hl : DecodeAndMergeWith.loop2 numBins (fuel + 1) b index s i = .ret (s, b, GoErr.eof) := by
        simp only [DecodeAndMergeWith.loop2, hu, if_true, V_err fuel hf9 b e1 hV, Res.bindL_ok, heof]
      rw [hm]
      refine ⟨fun e h => ?_, fun st' rest h => by simp at h⟩
      simp only [Option.some.injEq, Except.error.injEq] at h
      exact ⟨h.symm, s, b, hl⟩
    | ok p1 =>
      obtain ⟨d, r1⟩ := p1
      obtain ⟨b1, hV1, hb1, hl1, hd⟩ := V_ok fuel hf9 b d r1 hV
      have hit := dItem_of_ok st idx (nb b) r1 d (sk_liftDec_of_ok _ _ hV)
      have hl : DecodeAndMergeWith.loop2 numBins (fuel + 1) b index s i
          = DecodeAndMergeWith.loop2 numBins fuel b1 (index + BitVec.ofInt 64 d)
              (StoreI.Add s (BitVec.toInt (index + BitVec.ofInt 64 d))) (i + 1#64) := by
        simp only [DecodeAndMergeWith.loop2, hu, if_true, hV1, Res.bindL_ok, hnil, Bool.false_eq_true,
          if_false]
      cases hadd : st.addWithCount (idx + d) 1 with
      | none =>
        rw [hadd] at hit
        rw [decItems_none n st idx (nb b) hit]
        exact ⟨fun e h => by simp at h, fun st' rest h => by simp at h⟩
      | some st1 =>
        rw [hadd] at hit
        rw [decItems_ok n st idx (nb b) st1 (idx + d) r1 hit, hl, ← hb1]
        obtain ⟨ih1, ih2⟩ := ih fuel b1 (index + BitVec.ofInt 64 d)
          (StoreI.Add s (BitVec.toInt (index + BitVec.ofInt 64 d))) (i + 1#64) st1 (idx + d)
          (toNat_succ i numBins n hn) (by omega)
        refine ⟨ih1, fun st' rest h => ?_⟩
        obtain ⟨s', index', i', h1, h2⟩ := ih2 st' rest h
        refine ⟨s', index', i', h1, fun hs hi ht => ?_⟩
        have htr : dTrace (n + 1) idx (nb b) = (idx + d) :: dTrace n (idx + d) (nb b1) := by
          simp only [dTrace, hV, hb1]
        rw [htr] at ht
        have hi' : index + BitVec.ofInt 64 d = BitVec.ofInt 64 (idx + d) := by
          rw [hi, BitVec.ofInt_add]
        apply h2
        · rw [hi', toInt_ofInt_I64 _ (ht _ (List.mem_cons_self ..)), hs]
          exact GenSketch.store_add_some st st1 (idx + d) hadd
        · exact hi'
        · exact fun u hu => ht u (List.mem_cons_of_mem _ hu)

/-- loop of the layout "contiguous counts" against `decItems (ccItem stride)`: the index is used first and
    incremented afterwards, so the increment past the last bin may wrap without being seen -/
theorem loop3_spec (numBins : BitVec 64) (indexDelta : BitVec 64) (stride : Int) :
    ∀ (n fuel : Nat) (b : List (BitVec 8)) (s : Store) (index : BitVec 64)
    (i : BitVec 64) (st : Store) (idx : Int),
    numBins.toNat = i.toNat + n → b.length + 10 ≤ fuel →
    (∀ e, decItems (ccItem stride) n st idx (nb b) = some (.error e) →
      e = .eof ∧ ∃ s' b',
        DecodeAndMergeWith.loop3 numBins indexDelta fuel b s index i = .ret (s', b', GoErr.eof)) ∧
    (∀ st' rest, decItems (ccItem stride) n st idx (nb b) = some (.ok (st', rest)) →
      ∃ s' index' i',
        DecodeAndMergeWith.loop3 numBins indexDelta fuel b s index i = .done (bn rest, s', index', i') ∧
        (s = st → index = BitVec.ofInt 64 idx → indexDelta = BitVec.ofInt 64 stride →
          (∀ u ∈ ccTrace stride n idx (nb b), I64 u) → s' = st')) := by
  intro n
  induction n with
  | zero =>
    intro fuel b s index i st idx hn hf
    obtain ⟨fuel, rfl⟩ : ∃ f, fuel = f + 1 := ⟨fuel - 1, by omega⟩
    have hu := ult_of_eq i numBins (by omega)
    refine ⟨fun e h => ?_, fun st' rest h => ?_⟩
    · simp [decItems] at h
    · simp only [decItems, Option.some.injEq, Except.ok.injEq, Prod.mk.injEq] at h
      refine ⟨s, index, i, ?_, fun hs _ _ _ => by rw [hs, h.1]⟩
      simp only [DecodeAndMergeWith.loop3, hu, Bool.false_eq_true, if_false]
      rw [← h.2, bn_nb]
  | succ n ih =>
    intro fuel b s index i st idx hn hf
    obtain ⟨fuel, rfl⟩ : ∃ f, fuel = f + 1 := ⟨fuel - 1, by omega⟩
    have hf9 : 9 ≤ fuel := by omega
    have hu := ult_of_lt i numBins (by omega)
    cases hF : decVarfloat64 (nb b) with
    | error e1 =>
      have hm := decItems_err n st idx (nb b) _
        (ccItem_of_err stride st idx (nb b) _ (sk_liftDec_of_error _ _ hF))
      have hl : DecodeAndMergeWith.loop3 numBins indexDelta (fuel + 1) b s index i
          = .ret (s, b, GoErr.eof) := by
        simp only [DecodeAndMergeWith.loop3, hu, if_true, F_err fuel hf9 b e1 hF, Res.bindL_ok, heof]
      rw [hm]
      refine ⟨fun e h => ?_, fun st' rest h => by simp at h⟩
      simp only [Option.some.injEq, Except.error.injEq] at h
      exact ⟨h.symm, s, b, hl⟩
    | ok p1 =>
      obtain ⟨c, r1⟩ := p1
      obtain ⟨b1, hF1, hb1, hl1⟩ := F_ok fuel hf9 b c r1 hF
      have hit := ccItem_of_ok stride st idx (nb b) r1 c (sk_liftDec_of_ok _ _ hF)
      have hl : DecodeAndMergeWith.loop3 numBins indexDelta (fuel + 1) b s index i
          = DecodeAndMergeWith.loop3 numBins indexDelta fuel b1
              (StoreI.AddWithCount s (BitVec.toInt index) c) (index + indexDelta) (i + 1#64) := by
        simp only [DecodeAndMergeWith.loop3, hu, if_true, hF1, Res.bindL_ok, hnil, Bool.false_eq_true,
          if_false]
      cases hadd : addF st idx c with
      | none =>
        rw [hadd] at hit
        rw [decItems_none n st idx (nb b) hit]
        exact ⟨fun e h => by simp at h, fun st' rest h => by simp at h⟩
      | some st1 =>
        rw [hadd] at hit
        rw [decItems_ok n st idx (nb b) st1 (idx + stride) r1 hit, hl, ← hb1]
        obtain ⟨ih1, ih2⟩ := ih fuel b1 (StoreI.AddWithCount s (BitVec.toInt index) c)
          (index + indexDelta) (i + 1#64) st1 (idx + stride)
          (toNat_succ i numBins n hn) (by omega)
        refine ⟨ih1, fun st' rest h => ?_⟩
        obtain ⟨s', index', i', h1, h2⟩ := ih2 st' rest h
        refine ⟨s', index', i', h1, fun hs hi hdl ht => ?_⟩
        have htr : ccTrace stride (n + 1) idx (nb b) = idx :: ccTrace stride n (idx + stride) (nb b1) := by
          simp only [ccTrace, hF, hb1]
        rw [htr] at ht
        apply h2
        · rw [hi, toInt_ofInt_I64 _ (ht _ (List.mem_cons_self ..)), hs]
          exact GenSketch.store_addF_some st st1 idx c hadd
        · rw [hi, hdl, BitVec.ofInt_add]
        · exact hdl
        · exact fun u hu => ht u (List.mem_cons_of_mem _ hu)

/-! ## 5. `DecodeAndMergeWith`, layout by layout -/

theorem ofNat64_toNat (n : Nat) (h : n < W64) : (BitVec.ofNat 64 n).toNat = (0#64).toNat + n := by
  rw [BitVec.toNat_ofNat, Nat.mod_eq_of_lt (show n < 2 ^ 64 from h)]; simp

theorem beq11 : (BinEncodingIndexDeltasAndCounts == BinEncodingIndexDeltasAndCounts) = true := by decide
theorem beq21 : (BinEncodingIndexDeltas == BinEncodingIndexDeltasAndCounts) = false := by decide
theorem beq22 : (BinEncodingIndexDeltas == BinEncodingIndexDeltas) = true := by decide
theorem beq31 : (BinEncodingContiguousCounts == BinEncodingIndexDeltasAndCounts) = false := by decide
theorem beq32 : (BinEncodingContiguousCounts == BinEncodingIndexDeltas) = false := by decide
theorem beq33 : (BinEncodingContiguousCounts == BinEncodingContiguousCounts) = true := by decide

/-- what the three layout theorems say: an error of the model is `io.EOF` in the generated code (whatever
    the store did meanwhile); a success of the model is a success of the generated code on the same bytes,
    with the model's store provided no index wrapped -/
def Agrees (st : Store) (sub : Nat) (b : List (BitVec 8))
    (r : Res (Store × List (BitVec 8) × GoErr)) : Prop :=
  (∀ e, decodeStore st sub (nb b) = some (.error e) → e = .eof ∧ ∃ s' b', r = .ok (s', b', GoErr.eof)) ∧
  (∀ st' rest, decodeStore st sub (nb b) = some (.ok (st', rest)) →
    ∃ s', r = .ok (s', bn rest, GoErr.nil) ∧ (NoWrap sub (nb b) → s' = st'))

theorem layout1 (st : Store) (b : List (BitVec 8)) (fuel : Nat) (hf : b.length + 9 ≤ fuel) :
    Agrees st Consts.binEncodingIndexDeltasAndCounts b
      (DecodeAndMergeWith fuel st b BinEncodingIndexDeltasAndCounts) := by
  have hf9 : 9 ≤ fuel := by omega
  cases hU : decUvarint64 (nb b) with
  | error e1 =>
    have hm := decodeStore_err1 st (.deltasCounts []) (nb b) _ (sk_liftDec_of_error _ _ hU)
    refine ⟨fun e h => ?_, fun st' rest h => ?_⟩
    · rw [show Consts.binEncodingIndexDeltasAndCounts = Wire.payloadSub (.deltasCounts []) from rfl, hm] at h
      simp only [Option.some.injEq, Except.error.injEq] at h
      refine ⟨h.symm, st, b, ?_⟩
      simp only [DecodeAndMergeWith, beq11, if_true, U_err fuel hf9 b e1 hU, Res.bind_ok, heof]
    · rw [show Consts.binEncodingIndexDeltasAndCounts = Wire.payloadSub (.deltasCounts []) from rfl, hm] at h
      simp at h
  | ok p =>
    obtain ⟨n, r⟩ := p
    obtain ⟨b1, hU1, hb1, hl1, hv⟩ := U_ok fuel hf9 b n r hU
    have hm := decodeStore_dc_ok st (nb b) r n (sk_liftDec_of_ok _ _ hU)
    obtain ⟨l1, l2⟩ := loop1_spec (BitVec.ofNat 64 n) n fuel b1 0#64 st 0#64 st 0
      (ofNat64_toNat n hv) (by omega)
    rw [hb1] at l1 l2
    refine ⟨fun e h => ?_, fun st' rest h => ?_⟩
    · rw [hm] at h
      obtain ⟨he, s', b', hl⟩ := l1 e h
      refine ⟨he, s', b', ?_⟩
      simp only [DecodeAndMergeWith, beq11, if_true, hU1, Res.bind_ok, hnil, Bool.false_eq_true, if_false,
        hl, Loop.elim_ret]
    · rw [hm] at h
      obtain ⟨s', index', i', hl, hc⟩ := l2 st' rest h
      refine ⟨s', ?_, fun hw => hc rfl rfl ?_⟩
      · simp only [DecodeAndMergeWith, beq11, if_true, hU1, Res.bind_ok, hnil, Bool.false_eq_true, if_false,
          hl, Loop.elim_done]
      · have : storeIndexes Consts.binEncodingIndexDeltasAndCounts (nb b) = dcTrace n 0 r := by
          simp only [storeIndexes, if_true, hU]
        unfold NoWrap at hw
        rw [this] at hw
        exact hw

theorem layout2 (st : Store) (b : List (BitVec 8)) (fuel : Nat) (hf : b.length + 9 ≤ fuel) :
    Agrees st Consts.binEncodingIndexDeltas b
      (DecodeAndMergeWith fuel st b BinEncodingIndexDeltas) := by
  have hf9 : 9 ≤ fuel := by omega
  cases hU : decUvarint64 (nb b) with
  | error e1 =>
    have hm := decodeStore_err1 st (.deltas []) (nb b) _ (sk_liftDec_of_error _ _ hU)
    refine ⟨fun e h => ?_, fun st' rest h => ?_⟩
    · rw [show Consts.binEncodingIndexDeltas = Wire.payloadSub (.deltas []) from rfl, hm] at h
      simp only [Option.some.injEq, Except.error.injEq] at h
      refine ⟨h.symm, st, b, ?_⟩
      simp only [DecodeAndMergeWith, beq21, beq22, Bool.false_eq_true, if_false, if_true,
        U_err fuel hf9 b e1 hU, Res.bind_ok, heof]
    · rw [show Consts.binEncodingIndexDeltas = Wire.payloadSub (.deltas []) from rfl, hm] at h
      simp at h
  | ok p =>
    obtain ⟨n, r⟩ := p
    obtain ⟨b1, hU1, hb1, hl1, hv⟩ := U_ok fuel hf9 b n r hU
    have hm := decodeStore_d_ok st (nb b) r n (sk_liftDec_of_ok _ _ hU)
    obtain ⟨l1, l2⟩ := loop2_spec (BitVec.ofNat 64 n) n fuel b1 0#64 st 0#64 st 0
      (ofNat64_toNat n hv) (by omega)
    rw [hb1] at l1 l2
    refine ⟨fun e h => ?_, fun st' rest h => ?_⟩
    · rw [hm] at h
      obtain ⟨he, s', b', hl⟩ := l1 e h
      refine ⟨he, s', b', ?_⟩
      simp only [DecodeAndMergeWith, beq21, beq22, if_true, hU1, Res.bind_ok, hnil, Bool.false_eq_true,
        if_false, hl, Loop.elim_ret]
    · rw [hm] at h
      obtain ⟨s', index', i', hl, hc⟩ := l2 st' rest h
      refine ⟨s', ?_, fun hw => hc rfl rfl ?_⟩
      · simp only [DecodeAndMergeWith, beq21, beq22, if_true, hU1, Res.bind_ok, hnil, Bool.false_eq_true,
          if_false, hl, Loop.elim_done]
      · have : storeIndexes Consts.binEncodingIndexDeltas (nb b) = dTrace n 0 r := by
          simp only [storeIndexes, if_neg Wire.subs_ne.1, if_true, hU]
        unfold NoWrap at hw
        rw [this] at hw
        exact hw

theorem layout3 (st : Store) (b : List (BitVec 8)) (fuel : Nat) (hf : b.length + 9 ≤ fuel) :
    Agrees st Consts.binEncodingContiguousCounts b
      (DecodeAndMergeWith fuel st b BinEncodingContiguousCounts) := by
  have hf9 : 9 ≤ fuel := by omega
  have hsub : Consts.binEncodingContiguousCounts = Wire.payloadSub (.contiguous 0 0 []) := rfl
  cases hU : decUvarint64 (nb b) with
  | error e1 =>
    have hm := decodeStore_err1 st (.contiguous 0 0 []) (nb b) _ (sk_liftDec_of_error _ _ hU)
    refine ⟨fun e h => ?_, fun st' rest h => ?_⟩
    · rw [hsub, hm] at h
      simp only [Option.some.injEq, Except.error.injEq] at h
      refine ⟨h.symm, st, b, ?_⟩
      simp only [DecodeAndMergeWith, beq31, beq32, beq33, Bool.false_eq_true, if_false, if_true,
        U_err fuel hf9 b e1 hU, Res.bind_ok, heof]
    · rw [hsub, hm] at h
      simp at h
  | ok p =>
    obtain ⟨n, r⟩ := p
    obtain ⟨b1, hU1, hb1, hl1, hv⟩ := U_ok fuel hf9 b n r hU
    cases hS : decVarint64 r with
    | error e2 =>
      have hm := decodeStore_cc_err2 st (nb b) r n _ (sk_liftDec_of_ok _ _ hU) (sk_liftDec_of_error _ _ hS)
      refine ⟨fun e h => ?_, fun st' rest h => ?_⟩
      · rw [hm] at h
        simp only [Option.some.injEq, Except.error.injEq] at h
        refine ⟨h.symm, st, b1, ?_⟩
        simp only [DecodeAndMergeWith, beq31, beq32, beq33, Bool.false_eq_true, if_false, if_true,
          hU1, Res.bind_ok, hnil, V_err fuel hf9 b1 e2 (by rw [hb1]; exact hS), heof]
      · rw [hm] at h
        simp at h
    | ok p2 =>
      obtain ⟨start, r2⟩ := p2
      obtain ⟨b2, hS1, hb2, hl2, _⟩ := V_ok fuel hf9 b1 start r2 (by rw [hb1]; exact hS)
      cases hT : decVarint64 r2 with
      | error e3 =>
        have hm := decodeStore_cc_err3 st (nb b) r r2 n start _ (sk_liftDec_of_ok _ _ hU)
          (sk_liftDec_of_ok _ _ hS) (sk_liftDec_of_error _ _ hT)
        refine ⟨fun e h => ?_, fun st' rest h => ?_⟩
        · rw [hm] at h
          simp only [Option.some.injEq, Except.error.injEq] at h
          refine ⟨h.symm, st, b2, ?_⟩
          simp only [DecodeAndMergeWith, beq31, beq32, beq33, Bool.false_eq_true, if_false, if_true,
            hU1, Res.bind_ok, hnil, hS1, V_err fuel hf9 b2 e3 (by rw [hb2]; exact hT), heof]
        · rw [hm] at h
          simp at h
      | ok p3 =>
        obtain ⟨stride, r3⟩ := p3
        obtain ⟨b3, hT1, hb3, hl3, _⟩ := V_ok fuel hf9 b2 stride r3 (by rw [hb2]; exact hT)
        have hm := decodeStore_cc_ok st (nb b) r r2 r3 n start stride (sk_liftDec_of_ok _ _ hU)
          (sk_liftDec_of_ok _ _ hS) (sk_liftDec_of_ok _ _ hT)
        obtain ⟨l1, l2⟩ := loop3_spec (BitVec.ofNat 64 n) (BitVec.ofInt 64 stride) stride n fuel b3 st
          (BitVec.ofInt 64 start) 0#64 st start (ofNat64_toNat n hv) (by omega)
        rw [hb3] at l1 l2
        refine ⟨fun e h => ?_, fun st' rest h => ?_⟩
        · rw [hm] at h
          obtain ⟨he, s', b', hl⟩ := l1 e h
          refine ⟨he, s', b', ?_⟩
          simp only [DecodeAndMergeWith, beq31, beq32, beq33, if_true, hU1, Res.bind_ok, hnil,
            Bool.false_eq_true, if_false, hS1, hT1, hl, Loop.elim_ret]
        · rw [hm] at h
          obtain ⟨s', index', i', hl, hc⟩ := l2 st' rest h
          refine ⟨s', ?_, fun hw => hc rfl rfl rfl ?_⟩
          · simp only [DecodeAndMergeWith, beq31, beq32, beq33, if_true, hU1, Res.bind_ok, hnil,
              Bool.false_eq_true, if_false, hS1, hT1, hl, Loop.elim_done]
          · have : storeIndexes Consts.binEncodingContiguousCounts (nb b) = ccTrace stride n start r3 := by
              simp only [storeIndexes, if_neg Wire.subs_ne.2.1, if_neg Wire.subs_ne.2.2, if_true, hU, hS, hT]
            unfold NoWrap at hw
            rw [this] at hw
            exact hw

/-! ## 6. main theorems -/

/-- the Go `SubFlag` of a model sub-flag number (`Wire.flagSub` of the flag byte, `< 64`) -/
def subflag (sub : Nat) : SubFlag := newSubFlag (BitVec.ofNat 8 sub)

theorem subflag_beq : ∀ sub, sub < 64 →
    (subflag sub == BinEncodingIndexDeltasAndCounts) = decide (sub = Consts.binEncodingIndexDeltasAndCounts) ∧
    (subflag sub == BinEncodingIndexDeltas) = decide (sub = Consts.binEncodingIndexDeltas) ∧
    (subflag sub == BinEncodingContiguousCounts) = decide (sub = Consts.binEncodingContiguousCounts) := by
  decide

/-- `f.SubFlag()` of a decoded flag byte is `subflag (Wire.flagSub f)` -/
theorem Flag_SubFlag_subflag (f : Flag) : f.SubFlag = subflag (Wire.flagSub f.byte.toNat) := by
  have hlt : Wire.flagSub f.byte.toNat < 64 := by
    unfold Wire.flagSub
    rw [show Consts.numBitsForType = 2 from rfl]
    have := f.byte.isLt
    omega
  unfold subflag
  rw [Flag_SubFlag_eq f _ (by rw [BitVec.toNat_ofNat]; omega), BitVec.toNat_ofNat]
  omega

def KnownSub (sub : Nat) : Prop :=
  sub = Consts.binEncodingIndexDeltasAndCounts ∨ sub = Consts.binEncodingIndexDeltas ∨
    sub = Consts.binEncodingContiguousCounts

/-- **A.** a defined layout: the generated decoder `Agrees` with the model (for every input, every store of
    the model, fuel `len(b) + 9`) -/
theorem DecodeAndMergeWith_agrees (st : Store) (sub : Nat) (hk : KnownSub sub) (b : List (BitVec 8))
    (fuel : Nat) (hf : b.length + 9 ≤ fuel) :
    Agrees st sub b (DecodeAndMergeWith fuel st b (subflag sub)) := by
  rcases hk with rfl | rfl | rfl
  · exact layout1 st b fuel hf
  · exact layout2 st b fuel hf
  · exact layout3 st b fuel hf

/-- **B.** an undefined layout: both refuse, nothing is read, the store is untouched -/
theorem DecodeAndMergeWith_unknown (st : Store) (sub : Nat) (hsub : sub < 64) (hk : ¬ KnownSub sub)
    (b : List (BitVec 8)) (fuel : Nat) :
    decodeStore st sub (nb b) = some (.error .unknownBinEncoding) ∧
    DecodeAndMergeWith fuel st b (subflag sub) = .ok (st, b, GoErr.named "unknown bin encoding") := by
  unfold KnownSub at hk
  have h1 : sub ≠ Consts.binEncodingIndexDeltasAndCounts := fun h => hk (Or.inl h)
  have h2 : sub ≠ Consts.binEncodingIndexDeltas := fun h => hk (Or.inr (Or.inl h))
  have h3 : sub ≠ Consts.binEncodingContiguousCounts := fun h => hk (Or.inr (Or.inr h))
  obtain ⟨e1, e2, e3⟩ := subflag_beq sub hsub
  constructor
  · rw [decodeStore_eq, if_neg h1, if_neg h2, if_neg h3]
  · simp only [DecodeAndMergeWith, e1, e2, e3, h1, h2, h3, decide_false, Bool.false_eq_true, if_false]

/-- **1. success.** If the model decodes `(st', rest)` and no index handed to the store leaves the int64
    range, the generated code returns exactly the model's store, the remaining bytes, and a nil error. -/
theorem DecodeAndMergeWith_ok (st st' : Store) (sub : Nat) (b : List (BitVec 8)) (rest : Bytes)
    (fuel : Nat) (hf : b.length + 9 ≤ fuel) (hw : NoWrap sub (nb b))
    (h : decodeStore st sub (nb b) = some (.ok (st', rest))) :
    DecodeAndMergeWith fuel st b (subflag sub) = .ok (st', bn rest, GoErr.nil) := by
  have hk : KnownSub sub := by
    apply Classical.byContradiction
    intro hk
    unfold KnownSub at hk
    rw [decodeStore_eq, if_neg (fun h => hk (Or.inl h)), if_neg (fun h => hk (Or.inr (Or.inl h))),
      if_neg (fun h => hk (Or.inr (Or.inr h)))] at h
    simp at h
  obtain ⟨s', h1, h2⟩ := (DecodeAndMergeWith_agrees st sub hk b fuel hf).2 st' rest h
  rw [h1, h2 hw]

/-- **1'. success, without the no-wrap hypothesis**: still a success on exactly the same bytes (only the
    store may differ, see `wrap_counterexample`) -/
theorem DecodeAndMergeWith_ok_bytes (st st' : Store) (sub : Nat) (b : List (BitVec 8)) (rest : Bytes)
    (fuel : Nat) (hf : b.length + 9 ≤ fuel)
    (h : decodeStore st sub (nb b) = some (.ok (st', rest))) :
    ∃ s', DecodeAndMergeWith fuel st b (subflag sub) = .ok (s', bn rest, GoErr.nil) := by
  have hk : KnownSub sub := by
    apply Classical.byContradiction
    intro hk
    unfold KnownSub at hk
    rw [decodeStore_eq, if_neg (fun h => hk (Or.inl h)), if_neg (fun h => hk (Or.inr (Or.inl h))),
      if_neg (fun h => hk (Or.inr (Or.inr h)))] at h
    simp at h
  obtain ⟨s', h1, _⟩ := (DecodeAndMergeWith_agrees st sub hk b fuel hf).2 st' rest h
  exact ⟨s', h1⟩

/-- **2. error.** If the model refuses, the generated code returns normally (never `.panic` / `.nofuel`)
    with a non-nil error of the same class: `io.EOF` for truncated input, "unknown bin encoding"
    (store and input untouched) for an undefined layout.  No hypothesis on the indexes. -/
theorem DecodeAndMergeWith_error (st : Store) (sub : Nat) (hsub : sub < 64) (b : List (BitVec 8))
    (e : SkErr) (fuel : Nat) (hf : b.length + 9 ≤ fuel)
    (h : decodeStore st sub (nb b) = some (.error e)) :
    (KnownSub sub ∧ e = .eof ∧ ∃ s' b', DecodeAndMergeWith fuel st b (subflag sub) = .ok (s', b', GoErr.eof)) ∨
    (¬ KnownSub sub ∧ e = .unknownBinEncoding ∧
      DecodeAndMergeWith fuel st b (subflag sub) = .ok (st, b, GoErr.named "unknown bin encoding")) := by
  by_cases hk : KnownSub sub
  · obtain ⟨he, hr⟩ := (DecodeAndMergeWith_agrees st sub hk b fuel hf).1 e h
    exact Or.inl ⟨hk, he, hr⟩
  · obtain ⟨h1, h2⟩ := DecodeAndMergeWith_unknown st sub hsub hk b fuel
    rw [h1] at h
    simp only [Option.some.injEq, Except.error.injEq] at h
    exact Or.inr ⟨hk, h.symm, h2⟩

/-- **2'.** in particular the error is not nil -/
theorem DecodeAndMergeWith_error_ne_nil (st : Store) (sub : Nat) (hsub : sub < 64) (b : List (BitVec 8))
    (e : SkErr) (fuel : Nat) (hf : b.length + 9 ≤ fuel)
    (h : decodeStore st sub (nb b) = some (.error e)) :
    ∃ s' b' err, DecodeAndMergeWith fuel st b (subflag sub) = .ok (s', b', err) ∧ err ≠ GoErr.nil := by
  rcases DecodeAndMergeWith_error st sub hsub b e fuel hf h with ⟨_, _, s', b', hr⟩ | ⟨_, _, hr⟩
  · exact ⟨s', b', _, hr, by decide⟩
  · exact ⟨st, b, _, hr, by decide⟩

/-- **1, on the model's bytes**: for a byte list of the model (all `< 256`) -/
theorem DecodeAndMergeWith_ok_model (st st' : Store) (sub : Nat) (bs rest : Bytes)
    (hb : ∀ x ∈ bs, x < 256) (fuel : Nat) (hf : bs.length + 9 ≤ fuel) (hw : NoWrap sub bs)
    (h : decodeStore st sub bs = some (.ok (st', rest))) :
    DecodeAndMergeWith fuel st (bn bs) (subflag sub) = .ok (st', bn rest, GoErr.nil) := by
  have hnb := nb_bn bs hb
  exact DecodeAndMergeWith_ok st st' sub (bn bs) rest fuel (by rw [bn_length]; exact hf)
    (by rw [hnb]; exact hw) (by rw [hnb]; exact h)

/-! ## 7. the documented difference: `int64` wrap-around of the running index

  Input: layout "index deltas", 2 bins, two deltas of `2^62` (each the 9-byte varint `80 80 80 80 80 80 80 80 80`
  of the zig-zag value `2^63`).  The model's indexes are `2^62, 2^63`; Go's `int64` index wraps to `-2^63`
  at the second bin.  Both succeed and consume all 19 bytes; the stores differ. -/

def wrapInput : List (BitVec 8) := 2#8 :: List.replicate 18 128#8

def isSp (r : Option (Except SkErr (Store × Bytes))) (c : Content) : Bool :=
  match r with
  | some (.ok (.sp c', rest)) => c' == c && rest == []
  | _ => false

def isSpG (r : Res (Store × List (BitVec 8) × GoErr)) (c : Content) : Bool :=
  match r with
  | .ok (.sp c', rest, err) => c' == c && rest == [] && err == GoErr.nil
  | _ => false

theorem isSp_eq (r : Option (Except SkErr (Store × Bytes))) (c : Content) (h : isSp r c = true) :
    r = some (.ok (.sp c, [])) := by
  unfold isSp at h
  split at h
  · simp only [Bool.and_eq_true, beq_iff_eq] at h
    rw [h.1, h.2]
  · cases h

theorem isSpG_eq (r : Res (Store × List (BitVec 8) × GoErr)) (c : Content) (h : isSpG r c = true) :
    r = .ok (.sp c, [], GoErr.nil) := by
  unfold isSpG at h
  split at h
  · simp only [Bool.and_eq_true, beq_iff_eq] at h
    rw [h.1.1, h.1.2, h.2]
  · cases h

/-- **the wrap-around counterexample** (evaluated by the kernel): on `wrapInput` the model adds the bins
    `2^62` and `2^63`, the generated Go code the bins `2^62` and `-2^63`; `NoWrap` fails, as it must. -/
theorem wrap_counterexample :
    decodeStore (Store.sp []) Consts.binEncodingIndexDeltas (nb wrapInput)
      = some (.ok (Store.sp [(2 ^ 62, 1), (2 ^ 63, 1)], [])) ∧
    DecodeAndMergeWith 28 (Store.sp []) wrapInput (subflag Consts.binEncodingIndexDeltas)
      = .ok (Store.sp [(-2 ^ 63, 1), (2 ^ 62, 1)], [], GoErr.nil) ∧
    storeIndexes Consts.binEncodingIndexDeltas (nb wrapInput) = [2 ^ 62, 2 ^ 63] ∧
    ¬ NoWrap Consts.binEncodingIndexDeltas (nb wrapInput) := by
  have htr : storeIndexes Consts.binEncodingIndexDeltas (nb wrapInput) = [2 ^ 62, 2 ^ 63] := by
    decide +kernel
  refine ⟨isSp_eq _ _ (by decide +kernel), isSpG_eq _ _ (by decide +kernel), htr, ?_⟩
  intro hw
  have := (hw (2 ^ 63) (by rw [htr]; simp)).2
  omega

/-- the two resulting stores are different stores (maximum index `2^63` — not even an `int` of Go — against
    `2^62`) -/
theorem wrap_counterexample_stores_differ :
    (Store.sp [(2 ^ 62, 1), (2 ^ 63, 1)]).maxIndex? = some (2 ^ 63) ∧
    (Store.sp [(-2 ^ 63, 1), (2 ^ 62, 1)]).maxIndex? = some (2 ^ 62) ∧
    (Store.sp [(-2 ^ 63, 1), (2 ^ 62, 1)]).minIndex? = some (-2 ^ 63) := by
  refine ⟨rfl, rfl, rfl⟩

/-! ### an observation on the error path (no disagreement: the model's error carries no store)

  When the input ends inside a payload, the bins read before the cut HAVE ALREADY been merged into the Go
  store (a pointer receiver): the `s'` of `DecodeAndMergeWith_error` is in general not the store the call
  started with.  Example: 2 bins announced, one delta `5` present. -/

theorem eof_after_partial_merge_example :
    decodeStore (Store.sp []) Consts.binEncodingIndexDeltas (nb [2#8, 10#8]) = some (.error .eof) ∧
    DecodeAndMergeWith 11 (Store.sp []) [2#8, 10#8] (subflag Consts.binEncodingIndexDeltas)
      = .ok (Store.sp [(5, 1)], [], GoErr.eof) := by
  constructor
  · have h : (match decodeStore (Store.sp []) Consts.binEncodingIndexDeltas (nb [2#8, 10#8]) with
        | some (.error e) => e == SkErr.eof
        | _ => false) = true := by decide +kernel
    split at h
    · rename_i e he
      rw [he, beq_iff_eq.mp h]
    · cases h
  · have h : (match DecodeAndMergeWith 11 (Store.sp []) [2#8, 10#8] (subflag Consts.binEncodingIndexDeltas) with
        | .ok (.sp c', rest, err) => c' == [(5, 1)] && rest == [] && err == GoErr.eof
        | _ => false) = true := by decide +kernel
    split at h
    · rename_i c' rest err he
      simp only [Bool.and_eq_true, beq_iff_eq] at h
      rw [he, h.1.1, h.1.2, h.2]
    · cases h

/-! ## 8. totality, for every implementation of the store interface

  Independently of the model (so also where the model says `none`): with fuel `len(b) + 9` the generated
  decoder returns normally on every input — also when `numBins` is far larger than the input (up to
  `2^64 − 1`): every item consumes at least one byte, so the loop ends by `io.EOF` after at most
  `len(b) + 1` iterations. -/

section total
variable {S : Type} [StoreI S]

theorem loop1_total (numBins : BitVec 64) : ∀ (fuel : Nat) (b : List (BitVec 8)) (index : BitVec 64)
    (s : S) (i : BitVec 64), b.length + 10 ≤ fuel →
    (∃ s' b', DecodeAndMergeWith.loop1 numBins fuel b index s i = .ret (s', b', GoErr.eof)) ∨
    (∃ b' index' s' i', DecodeAndMergeWith.loop1 numBins fuel b index s i = .done (b', index', s', i')) := by
  intro fuel
  induction fuel with
  | zero => intro b index s i hf; omega
  | succ fuel ih =>
    intro b index s i hf
    have hf9 : 9 ≤ fuel := by omega
    cases hu : BitVec.ult i numBins with
    | false =>
      exact Or.inr ⟨b, index, s, i, by simp only [DecodeAndMergeWith.loop1, hu, Bool.false_eq_true, if_false]⟩
    | true =>
      cases hV : decVarint64 (nb b) with
      | error e1 =>
        exact Or.inl ⟨s, b, by
          simp only [DecodeAndMergeWith.loop1, hu, if_true, V_err fuel hf9 b e1 hV, Res.bindL_ok, heof]⟩
      | ok p1 =>
        obtain ⟨d, r1⟩ := p1
        obtain ⟨b1, hV1, hb1, hl1, _⟩ := V_ok fuel hf9 b d r1 hV
        cases hF : decVarfloat64 (nb b1) with
        | error e2 =>
          exact Or.inl ⟨s, b1, by
            simp only [DecodeAndMergeWith.loop1, hu, if_true, hV1, Res.bindL_ok, hnil, Bool.false_eq_true,
              if_false, F_err fuel hf9 b1 e2 hF, heof]⟩
        | ok p2 =>
          obtain ⟨c, r2⟩ := p2
          obtain ⟨b2, hF1, hb2, hl2⟩ := F_ok fuel hf9 b1 c r2 hF
          have hl : DecodeAndMergeWith.loop1 numBins (fuel + 1) b index s i
              = DecodeAndMergeWith.loop1 numBins fuel b2 (index + BitVec.ofInt 64 d)
                  (StoreI.AddWithCount s (BitVec.toInt (index + BitVec.ofInt 64 d)) c) (i + 1#64) := by
            simp only [DecodeAndMergeWith.loop1, hu, if_true, hV1, Res.bindL_ok, hnil, Bool.false_eq_true,
              if_false, hF1]
          rw [hl]
          exact ih b2 _ _ _ (by omega)

theorem loop2_total (numBins : BitVec 64) : ∀ (fuel : Nat) (b : List (BitVec 8)) (index : BitVec 64)
    (s : S) (i : BitVec 64), b.length + 10 ≤ fuel →
    (∃ s' b', DecodeAndMergeWith.loop2 numBins fuel b index s i = .ret (s', b', GoErr.eof)) ∨
    (∃ b' index' s' i', DecodeAndMergeWith.loop2 numBins fuel b index s i = .done (b', index', s', i')) := by
  intro fuel
  induction fuel with
  | zero => intro b index s i hf; omega
  | succ fuel ih =>
    intro b index s i hf
    have hf9 : 9 ≤ fuel := by omega
    cases hu : BitVec.ult i numBins with
    | false =>
      exact Or.inr ⟨b, index, s, i, by simp only [DecodeAndMergeWith.loop2, hu, Bool.false_eq_true, if_false]⟩
    | true =>
      cases hV : decVarint64 (nb b) with
      | error e1 =>
        exact Or.inl ⟨s, b, by
          simp only [DecodeAndMergeWith.loop2, hu, if_true, V_err fuel hf9 b e1 hV, Res.bindL_ok, heof]⟩
      | ok p1 =>
        obtain ⟨d, r1⟩ := p1
        obtain ⟨b1, hV1, hb1, hl1, _⟩ := V_ok fuel hf9 b d r1 hV
        have hl : DecodeAndMergeWith.loop2 numBins (fuel + 1) b index s i
            = DecodeAndMergeWith.loop2 numBins fuel b1 (index + BitVec.ofInt 64 d)
                (StoreI.Add s (BitVec.toInt (index + BitVec.ofInt 64 d))) (i + 1#64) := by
          simp only [DecodeAndMergeWith.loop2, hu, if_true, hV1, Res.bindL_ok, hnil, Bool.false_eq_true,
            if_false]
        rw [hl]
        exact ih b1 _ _ _ (by omega)

theorem loop3_total (numBins indexDelta : BitVec 64) : ∀ (fuel : Nat) (b : List (BitVec 8)) (s : S)
    (index : BitVec 64) (i : BitVec 64), b.length + 10 ≤ fuel →
    (∃ s' b', DecodeAndMergeWith.loop3 numBins indexDelta fuel b s index i = .ret (s', b', GoErr.eof)) ∨
    (∃ b' s' index' i',
      DecodeAndMergeWith.loop3 numBins indexDelta fuel b s index i = .done (b', s', index', i')) := by
  intro fuel
  induction fuel with
  | zero => intro b s index i hf; omega
  | succ fuel ih =>
    intro b s index i hf
    have hf9 : 9 ≤ fuel := by omega
    cases hu : BitVec.ult i numBins with
    | false =>
      exact Or.inr ⟨b, s, index, i, by simp only [DecodeAndMergeWith.loop3, hu, Bool.false_eq_true, if_false]⟩
    | true =>
      cases hF : decVarfloat64 (nb b) with
      | error e1 =>
        exact Or.inl ⟨s, b, by
          simp only [DecodeAndMergeWith.loop3, hu, if_true, F_err fuel hf9 b e1 hF, Res.bindL_ok, heof]⟩
      | ok p1 =>
        obtain ⟨c, r1⟩ := p1
        obtain ⟨b1, hF1, hb1, hl1⟩ := F_ok fuel hf9 b c r1 hF
        have hl : DecodeAndMergeWith.loop3 numBins indexDelta (fuel + 1) b s index i
            = DecodeAndMergeWith.loop3 numBins indexDelta fuel b1
                (StoreI.AddWithCount s (BitVec.toInt index) c) (index + indexDelta) (i + 1#64) := by
          simp only [DecodeAndMergeWith.loop3, hu, if_true, hF1, Res.bindL_ok, hnil, Bool.false_eq_true,
            if_false]
        rw [hl]
        exact ih b1 _ _ _ (by omega)

/-- **3. totality**: for every store implementation, every input, every sub-flag: the generated decoder
    returns normally with fuel `len(b) + 9`, and its error is nil, `io.EOF` or "unknown bin encoding". -/
theorem DecodeAndMergeWith_total (s : S) (b : List (BitVec 8)) (sf : SubFlag) (fuel : Nat)
    (hf : b.length + 9 ≤ fuel) :
    ∃ s' b' err, DecodeAndMergeWith fuel s b sf = .ok (s', b', err) ∧
      (err = GoErr.nil ∨ err = GoErr.eof ∨ err = GoErr.named "unknown bin encoding") := by
  have hf9 : 9 ≤ fuel := by omega
  cases h1 : (sf == BinEncodingIndexDeltasAndCounts) with
  | true =>
    cases hU : decUvarint64 (nb b) with
    | error e1 =>
      exact ⟨s, b, GoErr.eof, by
        simp only [DecodeAndMergeWith, h1, if_true, U_err fuel hf9 b e1 hU, Res.bind_ok, heof],
        Or.inr (Or.inl rfl)⟩
    | ok p =>
      obtain ⟨n, r⟩ := p
      obtain ⟨b1, hU1, hb1, hl1, hv⟩ := U_ok fuel hf9 b n r hU
      rcases loop1_total (BitVec.ofNat 64 n) fuel b1 0#64 s 0#64 (by omega) with
        ⟨s', b', hl⟩ | ⟨b', index', s', i', hl⟩
      · exact ⟨s', b', GoErr.eof, by
          simp only [DecodeAndMergeWith, h1, if_true, hU1, Res.bind_ok, hnil, Bool.false_eq_true, if_false,
            hl, Loop.elim_ret], Or.inr (Or.inl rfl)⟩
      · exact ⟨s', b', GoErr.nil, by
          simp only [DecodeAndMergeWith, h1, if_true, hU1, Res.bind_ok, hnil, Bool.false_eq_true, if_false,
            hl, Loop.elim_done], Or.inl rfl⟩
  | false =>
    cases h2 : (sf == BinEncodingIndexDeltas) with
    | true =>
      cases hU : decUvarint64 (nb b) with
      | error e1 =>
        exact ⟨s, b, GoErr.eof, by
          simp only [DecodeAndMergeWith, h1, h2, Bool.false_eq_true, if_false, if_true,
            U_err fuel hf9 b e1 hU, Res.bind_ok, heof], Or.inr (Or.inl rfl)⟩
      | ok p =>
        obtain ⟨n, r⟩ := p
        obtain ⟨b1, hU1, hb1, hl1, hv⟩ := U_ok fuel hf9 b n r hU
        rcases loop2_total (BitVec.ofNat 64 n) fuel b1 0#64 s 0#64 (by omega) with
          ⟨s', b', hl⟩ | ⟨b', index', s', i', hl⟩
        · exact ⟨s', b', GoErr.eof, by
            simp only [DecodeAndMergeWith, h1, h2, if_true, hU1, Res.bind_ok, hnil, Bool.false_eq_true,
              if_false, hl, Loop.elim_ret], Or.inr (Or.inl rfl)⟩
        · exact ⟨s', b', GoErr.nil, by
            simp only [DecodeAndMergeWith, h1, h2, if_true, hU1, Res.bind_ok, hnil, Bool.false_eq_true,
              if_false, hl, Loop.elim_done], Or.inl rfl⟩
    | false =>
      cases h3 : (sf == BinEncodingContiguousCounts) with
      | false =>
        exact ⟨s, b, _, by
          simp only [DecodeAndMergeWith, h1, h2, h3, Bool.false_eq_true, if_false], Or.inr (Or.inr rfl)⟩
      | true =>
        cases hU : decUvarint64 (nb b) with
        | error e1 =>
          exact ⟨s, b, GoErr.eof, by
            simp only [DecodeAndMergeWith, h1, h2, h3, Bool.false_eq_true, if_false, if_true,
              U_err fuel hf9 b e1 hU, Res.bind_ok, heof], Or.inr (Or.inl rfl)⟩
        | ok p =>
          obtain ⟨n, r⟩ := p
          obtain ⟨b1, hU1, hb1, hl1, hv⟩ := U_ok fuel hf9 b n r hU
          cases hS : decVarint64 (nb b1) with
          | error e2 =>
            exact ⟨s, b1, GoErr.eof, by
              simp only [DecodeAndMergeWith, h1, h2, h3, Bool.false_eq_true, if_false, if_true,
                hU1, Res.bind_ok, hnil, V_err fuel hf9 b1 e2 hS, heof], Or.inr (Or.inl rfl)⟩
          | ok p2 =>
            obtain ⟨start, r2⟩ := p2
            obtain ⟨b2, hS1, hb2, hl2, _⟩ := V_ok fuel hf9 b1 start r2 hS
            cases hT : decVarint64 (nb b2) with
            | error e3 =>
              exact ⟨s, b2, GoErr.eof, by
                simp only [DecodeAndMergeWith, h1, h2, h3, Bool.false_eq_true, if_false, if_true,
                  hU1, Res.bind_ok, hnil, hS1, V_err fuel hf9 b2 e3 hT, heof], Or.inr (Or.inl rfl)⟩
            | ok p3 =>
              obtain ⟨stride, r3⟩ := p3
              obtain ⟨b3, hT1, hb3, hl3, _⟩ := V_ok fuel hf9 b2 stride r3 hT
              rcases loop3_total (BitVec.ofNat 64 n) (BitVec.ofInt 64 stride) fuel b3 s
                  (BitVec.ofInt 64 start) 0#64 (by omega) with
                ⟨s', b', hl⟩ | ⟨b', s', index', i', hl⟩
              · exact ⟨s', b', GoErr.eof, by
                  simp only [DecodeAndMergeWith, h1, h2, h3, if_true, hU1, Res.bind_ok, hnil,
                    Bool.false_eq_true, if_false, hS1, hT1, hl, Loop.elim_ret], Or.inr (Or.inl rfl)⟩
              · exact ⟨s', b', GoErr.nil, by
                  simp only [DecodeAndMergeWith, h1, h2, h3, if_true, hU1, Res.bind_ok, hnil,
                    Bool.false_eq_true, if_false, hS1, hT1, hl, Loop.elim_done], Or.inl rfl⟩

end total

end DDS.GenStoreDecode
