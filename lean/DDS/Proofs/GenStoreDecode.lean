/-
  DDS.Proofs.GenStoreDecode — the REGENERATED generic bin decoder of the stores
  (`DDS/Generated/CodeStoreDecode.lean`, translated from `store.DecodeAndMergeWith`,
  /repo/ddsketch/store/store.go:90, on every run) agrees with the HAND-WRITTEN model
  `DDS.Sketch.decodeStore` (`DDS/Model/Sketch.lean`), for all inputs, with explicit fuel.
-/
import DDS.Generated.CodeStoreDecode
import DDS.Proofs.GenEncoding
import DDS.Proofs.GenSketch
import DDS.Proofs.Wire

set_option linter.unusedVariables false

namespace DDS.GenStoreDecode

open DDS DDS.GoSem DDS.Gen.Encoding DDS.Gen.StoreDecode DDS.Codec DDS.GenEncoding DDS.Props.C18Bits

/-! ## 1. `DecodeVarfloat64` is the model's `decVarfloat64` -/

theorem or_disjoint_nat (a b k : Nat) (ha : 2 ^ k ∣ a) (hb : b < 2 ^ k) : a ||| b = a + b := by
  obtain ⟨q, rfl⟩ := ha
  rw [Nat.mul_comm, ← Nat.shiftLeft_eq]
  exact (Nat.shiftLeft_add_eq_or_of_lt hb q).symm

/-- `x | m << s` is an addition when `x` only has bits from `s + w` upwards and `m` has `w` bits
    (the varfloat decoder fills the word from the top) -/
theorem or_shift_hi_toNat (x m : BitVec 64) (s w : Nat) (hsw : s + w ≤ 64)
    (hx : 2 ^ (s + w) ∣ x.toNat) (hm : m.toNat < 2 ^ w) :
    (x ||| m <<< s).toNat = x.toNat + m.toNat * 2 ^ s := by
  have hms : m.toNat * 2 ^ s < 2 ^ (s + w) := by
    rw [Nat.pow_add, Nat.mul_comm]
    exact Nat.mul_lt_mul_of_pos_left hm (Nat.pow_pos (by decide))
  have h64 : 2 ^ (s + w) ≤ 2 ^ 64 := Nat.pow_le_pow_right (by decide) hsw
  have hy : (m <<< s).toNat = m.toNat * 2 ^ s := by
    rw [BitVec.toNat_shiftLeft, Nat.shiftLeft_eq, Nat.mod_eq_of_lt (by omega)]
  rw [BitVec.toNat_or, hy, or_disjoint_nat _ _ _ hx hms]

theorem or_shift_hi (x m : BitVec 64) (s w : Nat) (hsw : s + w ≤ 64)
    (hx : 2 ^ (s + w) ∣ x.toNat) (hm : m.toNat < 2 ^ w) :
    x ||| m <<< s = BitVec.ofNat 64 (x.toNat + m.toNat * 2 ^ s) := by
  have hor := or_shift_hi_toNat x m s w hsw hx hm
  apply BitVec.eq_of_toNat_eq
  rw [hor, BitVec.toNat_ofNat, Nat.mod_eq_of_lt]
  rw [← hor]
  exact (x ||| m <<< s).isLt

theorem and127_lt (n : BitVec 8) : (BitVec.setWidth 64 (n &&& 127#8)).toNat < 2 ^ 7 := by
  rw [and127_toNat]; omega

theorem decVarfloat64_loop (G : BitVec 64 → F64) (k : Nat) :
    ∀ (fuel : Nat) (b : List (BitVec 8)) (x : BitVec 64) (j : Nat),
    j + k = 8 → k + 1 ≤ fuel → 2 ^ (57 - 7 * j + 7) ∣ x.toNat →
    Loop.elim (DecodeVarfloat64.loop1 b fuel x (j : Int) (BitVec.ofNat 64 (57 - 7 * j)))
        (fun (x, i, s) => GoSem.optR (GoSem.sliceFrom b (i + (1 : Int))) (fun t1 =>
          .ok (t1, G x, GoErr.nil)))
      = match decVF k (57 - 7 * j) x.toNat (nb (b.drop j)) with
        | .error _ => .ok (b, F64.fin (0 : Rat), GoErr.eof)
        | .ok (v, rest) => .ok (suffixOf b rest, G (BitVec.ofNat 64 v), GoErr.nil) := by
  induction k with
  | zero =>
    intro fuel b x j hj hf hx
    obtain ⟨fuel, rfl⟩ : ∃ f, fuel = f + 1 := ⟨fuel - 1, by omega⟩
    have hj8 : j = 8 := by omega
    subst hj8
    unfold DecodeVarfloat64.loop1
    cases hd : b.drop 8 with
    | nil =>
      have hl : b.length ≤ 8 := List.drop_eq_nil_iff.mp hd
      have : GoSem.len b ≤ ((8 : Nat) : Int) := by unfold GoSem.len; omega
      simp only [this, decide_true, if_true, nb_nil, decVF, Loop.elim_ret]
    | cons n tl =>
      obtain ⟨hidx, hlt, htl⟩ := idx_drop b 8 n tl hd
      have : ¬ (GoSem.len b ≤ ((8 : Nat) : Int)) := by unfold GoSem.len; omega
      have h8 : (((8 : Nat) : Int) == (8 : Int)) = true := by decide
      simp only [this, decide_false, Bool.false_eq_true, if_false, hidx, optL_some, nb_cons, decVF,
        h8, if_true, Loop.elim_done]
      rw [show ((8 : Nat) : Int) + 1 = ((9 : Nat) : Int) by rfl, sliceFrom_nat b 9 (by omega), optR_some]
      rw [htl, suffixOf_drop b 9 (by omega)]
      have h := or_shift_hi x (BitVec.setWidth 64 n) 0 8 (by decide) hx
        (by rw [setWidth64_toNat]; exact n.isLt)
      rw [BitVec.shiftLeft_zero, setWidth64_toNat, Nat.pow_zero, Nat.mul_one] at h
      rw [h]
  | succ k ih =>
    intro fuel b x j hj hf hx
    obtain ⟨fuel, rfl⟩ : ∃ f, fuel = f + 1 := ⟨fuel - 1, by omega⟩
    unfold DecodeVarfloat64.loop1
    cases hd : b.drop j with
    | nil =>
      have hl : b.length ≤ j := List.drop_eq_nil_iff.mp hd
      have : GoSem.len b ≤ (j : Int) := by unfold GoSem.len; omega
      simp only [this, decide_true, if_true, nb_nil, decVF, Loop.elim_ret]
    | cons n tl =>
      obtain ⟨hidx, hlt, htl⟩ := idx_drop b j n tl hd
      have : ¬ (GoSem.len b ≤ (j : Int)) := by unfold GoSem.len; omega
      have h8 : ((j : Int) == (8 : Int)) = false := by
        rw [beq_eq_false_iff_ne]; omega
      have hs7 : (BitVec.ofNat 64 (57 - 7 * j)).toNat = 57 - 7 * j := by
        rw [BitVec.toNat_ofNat]; omega
      simp only [this, decide_false, Bool.false_eq_true, if_false, hidx, optL_some, nb_cons, decVF, h8]
      by_cases hn : n.toNat < 128
      · have hu : BitVec.ult n 128#8 = true := by
          rw [BitVec.ult_eq_decide]; simpa using hn
        simp only [hu, if_true, hn, Loop.elim_done]
        rw [show (j : Int) + 1 = ((j + 1 : Nat) : Int) by omega, sliceFrom_nat b (j + 1) (by omega),
          optR_some, htl, suffixOf_drop b (j + 1) (by omega)]
        rw [BitVec.shiftLeft_eq', hs7,
          or_shift_hi x (BitVec.setWidth 64 n) (57 - 7 * j) 7 (by omega) hx
            (by rw [setWidth64_toNat]; exact hn), setWidth64_toNat]
      · have hu : BitVec.ult n 128#8 = false := by
          rw [BitVec.ult_eq_decide]; simpa using hn
        simp only [hu, Bool.false_eq_true, if_false, hn]
        have hx' := or_shift_hi_toNat x (BitVec.setWidth 64 (n &&& 127#8)) (57 - 7 * j) 7 (by omega) hx
          (and127_lt n)
        rw [and127_toNat] at hx'
        have hsn : BitVec.ofNat 64 (57 - 7 * j) - 7#64 = BitVec.ofNat 64 (57 - 7 * (j + 1)) := by
          apply BitVec.eq_of_toNat_eq
          rw [BitVec.toNat_sub, hs7, BitVec.toNat_ofNat, BitVec.toNat_ofNat]
          omega
        have hdv : 2 ^ (57 - 7 * (j + 1) + 7) ∣
            (x ||| BitVec.setWidth 64 (n &&& 127#8) <<< (57 - 7 * j)).toNat := by
          rw [hx', show 57 - 7 * (j + 1) + 7 = 57 - 7 * j by omega]
          apply Nat.dvd_add
          · exact Nat.dvd_trans (Nat.pow_dvd_pow 2 (by omega)) hx
          · exact Nat.dvd_mul_left _ _
        rw [BitVec.shiftLeft_eq', hs7, hsn, show (j : Int) + 1 = ((j + 1 : Nat) : Int) by omega,
          ih fuel b _ (j + 1) (by omega) (by omega) hdv, hx', htl,
          show 57 - 7 * (j + 1) = 57 - 7 * j - 7 by omega]

theorem ofNat_toNat_u64 (y : BitVec 64) : UInt64.ofNat y.toNat = UInt64.ofBitVec y := by
  show UInt64.ofBitVec (BitVec.ofNat 64 y.toNat) = _
  rw [BitVec.ofNat_toNat, BitVec.setWidth_eq]

theorem float64bits_one : GoSem.float64bits (F64.fin (1 : Rat)) = BitVec.ofNat 64 oneBits := by
  decide +kernel

theorem rotateLeft64_neg6 (x : BitVec 64) : GoSem.rotateLeft64 x (-6 : Int) = x.rotateRight 6 := by
  unfold GoSem.rotateLeft64
  show x.rotateLeft 58 = _
  apply BitVec.eq_of_getLsbD_eq
  intro i hi
  simp [BitVec.getLsbD_rotateLeft, BitVec.getLsbD_rotateRight]

/-- the float the Go decoder builds from the accumulated word is the model's -/
theorem varfloat_value (v : Nat) :
    F64.sub (GoSem.float64frombits ((GoSem.rotateLeft64 (BitVec.ofNat 64 v) (-6 : Int))
        + (GoSem.float64bits (F64.fin (1 : Rat))))) (F64.fin (1 : Rat))
      = F64.sub (F64.ofBits (UInt64.ofNat (vfUnword (v % W64)))) F64.one := by
  rw [rotateLeft64_neg6, float64bits_one]
  have h := vfUnword_bits (BitVec.ofNat 64 v)
  rw [BitVec.toNat_ofNat] at h
  rw [show W64 = 2 ^ 64 from rfl, ← h, ofNat_toNat_u64]
  rfl

/-- **`DecodeVarfloat64`** is the model's decoder: eof leaves the input untouched (value 0), success
    returns the model's float and the corresponding suffix.  Never `.panic` / `.nofuel`. -/
theorem DecodeVarfloat64_eq (fuel : Nat) (hf : 9 ≤ fuel) (b : List (BitVec 8)) :
    DecodeVarfloat64 fuel b = decRes b (F64.fin (0 : Rat)) id (decVarfloat64 (nb b)) := by
  unfold DecodeVarfloat64
  have h := decVarfloat64_loop
    (fun x => F64.sub (GoSem.float64frombits ((GoSem.rotateLeft64 x (-6 : Int))
        + (GoSem.float64bits (F64.fin (1 : Rat))))) (F64.fin (1 : Rat)))
    8 fuel b 0#64 0 (by decide) hf (by simp)
  simp only [Nat.mul_zero, Int.natCast_zero, List.drop_zero, BitVec.toNat_ofNat, Nat.zero_mod,
    Nat.sub_zero] at h
  show Loop.elim (DecodeVarfloat64.loop1 b fuel 0#64 0 57#64) _ = _
  rw [h]
  unfold decVarfloat64 decVarfloatBits
  rw [maxVarLen64_pred]
  cases hd : decVF 8 57 0 (nb b) with
  | error e => rfl
  | ok p =>
    obtain ⟨v, rest⟩ := p
    simp only [decRes, id]
    rw [varfloat_value]

end DDS.GenStoreDecode
