/-
  DDS.Proofs.GenSparse — the REGENERATED sparse store (`DDS.Gen.Sparse.SparseStore` in
  `DDS/Generated/CodeSparse.lean`, translated from `/repo/ddsketch/store/sparse.go` on every run) is
  the HAND-WRITTEN model `Store.sp c` (`DDS/Model/Store.lean`, a canonical `Content`), FOR EVERY LAWFUL
  ITERATION ORDER of Go's `range` over the map (`GoSem.MapOrder.Lawful`: the oracle returns a
  permutation of the keys).  Order independence is proved, not assumed: the single lemma behind it is
  `mrange_perm` (a lawful `range` visits every entry exactly once), and each loop is shown to compute
  something invariant under permutation (a sum; a max/min; a sorted list; a sorted insertion of
  distinct keys; deletions; pointwise rewrites of distinct keys).

  REPRESENTATION.  `GoMap Rat` and `Content` are the same type (`List (Int × Rat)`).
  * `Rep g c  := g.counts = c ∧ c.WF`      (strictly increasing keys, weights `> 0`)
  * `RepS g c := g.counts = c ∧ c.Sorted`  (strictly increasing keys only)
  Every observer theorem needs `RepS` only — it also holds of a map carrying zero or negative entries,
  against the model functions run on that same (non-canonical) list.  `Rep` is needed exactly where a
  canonical content is: `AddWithCount` (below) and the denotation of the encoding.
  `Rep` is preserved by `NewSparseStore` (`rep_new`), `Add` / `AddWithCount` / `AddBin` with a weight
  `≥ 0` (`add_rep`, `addWithCount_rep`, `addBin_rep`; weight `0` is Go's early return and
  `Content.add _ _ 0 = id`), `Copy` (`copy_rep`), `Clear` (`clear_rep`), `Reweight` with `w > 0`
  (`reweight_rep`).
  WHY `0 ≤ w`: with a negative weight the Go map can hold an entry of weight `0` or below (it never
  deletes on `+=`), which a canonical `Content` cannot: `Content.add` drops an entry that becomes 0.
  The exact condition is "the touched entry does not become exactly 0" (`addWithCount_eq_of_sorted`);
  the kernel-checked `example` after `addBin_rep` shows the two sides parting outside it.

  THEOREMS (any `fuel` — the range loops are structural — and every lawful `ord`, unless said):
  * `new_eq`, `isEmpty_eq`
  * `addWithCount_eq`, `add_eq`, `addBin_eq`   `(g.AddWithCount i w).counts = c.add i w`  (`0 ≤ w`)
  * `totalCount_eq`     `TotalCount = .ok c.total`
  * `maxIndex_eq`, `minIndex_eq`   `= .ok (k, nil)` for `maxIndex? / minIndex? = some k`, and
                        `.ok (0, errUndefinedMaxIndex / errUndefinedMinIndex)` on the empty store
  * `orderedBins_eq`    `orderedBins = .ok (c.map toBin)`: the content's entries, ascending
  * `keyAtRank_eq`      `KeyAtRank r = .ok (Store.keyAtRank (.sp c) r)`, EVERY rational `r`
  * `reweight_nonpos`, `reweight_one`, `reweight_scale`, `reweight_eq` (the three cases vs `Store.reweight`)
  * `clear_eq`          `Clear = .ok NewSparseStore`
  * `copy_eq`           `Copy = .ok ⟨c⟩`
  * `encode_any_order`  (fuel `≥ 9`, `KeyRange c`) the bytes are those of ONE `deltasCounts` block listing
                        the entries in the order the oracle picked
  * `encode_ascending`  (+ `_pos`, `_neg`) with `ord = MapOrder.ascending`:
                        `Encode fuel ord g b t = .ok (b ++ bn (Wire.encBlocks blocks))` for the `blocks`
                        of `Sketch.encodeStore (.sp c) side`
  * `encode_any_order_denotes`  (`Rep`, `int32` keys, `WOK` weights — the hypotheses of the model's
                        `RoundTrip.encodeStore_sparse`) for ANY lawful order the bytes written parse
                        with `Wire.parseBlocks` to well-formed bins blocks of that side which denote
                        `c` (`Denotes`, hence `Wire.contentOf … = some c`): every iteration order is a
                        valid encoding of the same content (C07).

  SIDE CONDITIONS ON KEYS (all artefacts of `GoSem`'s unbounded `int`; true of every Go `int`/`int32`):
  * `MaxIndex`, `KeyAtRank`: no key below `minInt = -2^63` (the scan starts there);
    `MinIndex`: no key above `maxInt = 2^63 - 1`.  Kernel-checked `example`s at the end show the
    results parting for the keys `-2^63 - 1` and `2^63`.
  * `Encode`: `KeyRange c` — every key and every difference of two keys is an `int64`
    (`int64(index - previousIndex)`; the model's `encVarint64` takes the unbounded integer).  Implied
    by `int32` keys (`keyRange_of_keys32`).  Fuel `≥ 9` for the varint codecs called from the loop.

  DISAGREEMENTS between generated code and model within these hypotheses: NONE.  In particular
  * negative rank: neither `SparseStore.KeyAtRank` nor `Store.keyAtRank (.sp c)` clamps; equal for every
    `r` (on canonical contents both equal the clamping `Content.keyAtRank`: `Store.sp_keyAtRank`);
  * empty store: `KeyAtRank` is `0` on both sides (Go's FIXME branch), `MinIndex/MaxIndex` give the
    error values, `Encode` writes nothing;
  * phantom zero entries arise only from negative weights, outside the model's contract (see above);
  * the BYTES of `Encode` do depend on the iteration order (`example`s at the end: ascending
    `[5,2,6,2,8,3]`, descending `[5,2,14,3,7,2]` for `{3 ↦ 1, 7 ↦ 2}`); the model writes the ascending
    ones; any order denotes the same content (`encode_any_order_denotes`).
-/
import DDS.Generated.CodeSparse
import DDS.Proofs.Refine
import DDS.Proofs.GenDenseEncode

namespace DDS.GenSparse

open DDS DDS.GoSem DDS.Gen.Sparse DDS.Gen.Encoding DDS.Codec DDS.GenEncoding
open DDS.RoundTrip (deltaRec deltaRec_length)

/-! ### 0. the representation relation -/

/-- the generated store holds exactly the canonical content `c` (a Go `map[int]float64` in `GoSem`
    is a key-sorted association list: the same type as `Content`) -/
def Rep (g : SparseStore) (c : Content) : Prop := g.counts = c ∧ c.WF

/-- the part of `Rep` that every observer except `AddWithCount` needs: strictly increasing keys
    (weights unconstrained — zero or negative entries allowed) -/
def RepS (g : SparseStore) (c : Content) : Prop := g.counts = c ∧ c.Sorted

theorem Rep.repS {g : SparseStore} {c : Content} (h : Rep g c) : RepS g c := ⟨h.1, h.2.1⟩

/-! ### 1. key-sorted association lists: `mget`, `mset`, `mdelete`, `mrange` -/

/-- the keys of a map, in storage (ascending) order -/
def keys (m : List (Int × Rat)) : List Int := m.map Prod.fst

@[simp] theorem keys_nil : keys [] = [] := rfl
@[simp] theorem keys_cons (p : Int × Rat) (m : List (Int × Rat)) : keys (p :: m) = p.1 :: keys m := rfl

theorem mem_keys {m : List (Int × Rat)} {k : Int} : k ∈ keys m ↔ ∃ p ∈ m, p.1 = k := by
  unfold keys
  simp only [List.mem_map]

theorem mem_keys_of_mem {m : List (Int × Rat)} {p : Int × Rat} (h : p ∈ m) : p.1 ∈ keys m :=
  mem_keys.2 ⟨p, h, rfl⟩

theorem sorted_iff_pairwise (m : Content) : m.Sorted ↔ m.Pairwise (fun a b => a.1 < b.1) := by
  induction m with
  | nil => simp
  | cons p rest ih => rw [Content.sorted_cons, List.pairwise_cons, ih]

theorem sorted_iff_keys (m : Content) : m.Sorted ↔ (keys m).Pairwise (· < ·) := by
  rw [sorted_iff_pairwise, keys, List.pairwise_map]

theorem keys_nodup {m : Content} (h : m.Sorted) : (keys m).Nodup := by
  have := (sorted_iff_keys m).1 h
  exact this.imp (fun hab => Int.ne_of_lt hab)

/-- in a key-sorted list an entry is determined by its key -/
theorem eq_of_key_eq {m : Content} (h : m.Sorted) {p q : Int × Rat} (hp : p ∈ m) (hq : q ∈ m)
    (hk : p.1 = q.1) : p = q := by
  have h1 := Content.lookup_of_mem_sorted m h p hp
  have h2 := Content.lookup_of_mem_sorted m h q hq
  rw [hk, h2] at h1
  exact Prod.ext hk h1.symm

/-- two key-sorted lists with the same entries are equal -/
theorem eq_of_perm_sorted {a b : Content} (hp : a.Perm b) (ha : a.Sorted) (hb : b.Sorted) : a = b :=
  List.Perm.eq_of_pairwise (le := fun x y => x.1 < y.1)
    (fun x y _ _ h1 h2 => by omega) ((sorted_iff_pairwise a).1 ha) ((sorted_iff_pairwise b).1 hb) hp

theorem find_of_mem {m : Content} (hs : m.Sorted) {p : Int × Rat} (hp : p ∈ m) :
    m.find? (fun q => q.1 == p.1) = some p := by
  induction m with
  | nil => simp at hp
  | cons q rest ih =>
    rw [List.find?_cons]
    rcases List.mem_cons.1 hp with rfl | hp'
    · simp
    · have hlt := hs.head_lt p hp'
      have : (q.1 == p.1) = false := by simp; omega
      rw [this]
      exact ih hs.tail hp'

theorem mget_nil (k : Int) (z : Rat) : mget ([] : GoMap Rat) k z = z := rfl

theorem mget_cons (p : Int × Rat) (m : GoMap Rat) (k : Int) (z : Rat) :
    mget (p :: m) k z = if p.1 = k then p.2 else mget m k z := by
  unfold mget
  rw [List.find?_cons]
  by_cases h : p.1 = k
  · simp [h]
  · have : (p.1 == k) = false := by simp [h]
    rw [this, if_neg h]

theorem mget_of_not_mem (m : GoMap Rat) (k : Int) (z : Rat) (h : ∀ p ∈ m, p.1 ≠ k) :
    mget m k z = z := by
  induction m with
  | nil => rfl
  | cons p rest ih =>
    rw [mget_cons, if_neg (h p (List.mem_cons_self ..))]
    exact ih (fun q hq => h q (List.mem_cons_of_mem _ hq))

/-- `m[k]` with zero value `0` is the content's `lookup` (sorted keys) -/
theorem mget_eq_lookup (m : Content) (hs : m.Sorted) (k : Int) : mget m k 0 = m.lookup k := by
  induction m with
  | nil => rfl
  | cons p rest ih =>
    rw [mget_cons, Content.lookup_cons]
    by_cases h : p.1 = k
    · rw [if_pos h, if_pos h, Content.lookup_eq_zero_of_lt rest k (by rw [← h]; exact hs.head_lt)]
      grind
    · rw [if_neg h, if_neg h, ih hs.tail]; grind

theorem mset_nil (k : Int) (v : Rat) : mset ([] : GoMap Rat) k v = [(k, v)] := rfl

theorem mset_cons (p : Int × Rat) (m : GoMap Rat) (k : Int) (v : Rat) :
    mset (p :: m) k v =
      if k < p.1 then (k, v) :: p :: m else if k = p.1 then (k, v) :: m else p :: mset m k v := by
  obtain ⟨k', v'⟩ := p; rfl

theorem mem_mset {m : GoMap Rat} {k : Int} {v : Rat} {q : Int × Rat} (h : q ∈ mset m k v) :
    q = (k, v) ∨ q ∈ m := by
  induction m with
  | nil => rw [mset_nil] at h; simpa using h
  | cons p rest ih =>
    rw [mset_cons] at h
    split at h
    · rcases List.mem_cons.1 h with h | h
      · exact .inl h
      · exact .inr h
    · split at h
      · rcases List.mem_cons.1 h with h | h
        · exact .inl h
        · exact .inr (List.mem_cons_of_mem _ h)
      · rcases List.mem_cons.1 h with h | h
        · exact .inr (h ▸ List.mem_cons_self ..)
        · rcases ih h with h | h
          · exact .inl h
          · exact .inr (List.mem_cons_of_mem _ h)

theorem mset_sorted (m : Content) (hs : m.Sorted) (k : Int) (v : Rat) :
    Content.Sorted (mset m k v) := by
  induction m with
  | nil => rw [mset_nil]; trivial
  | cons p rest ih =>
    rw [mset_cons]
    split
    · rw [Content.sorted_cons_cons]; exact ⟨by assumption, hs⟩
    · split
      · rename_i h1 h2
        rw [Content.sorted_cons]
        exact ⟨fun q hq => by have := hs.head_lt q hq; simp only; omega, hs.tail⟩
      · rename_i h1 h2
        rw [Content.sorted_cons]
        refine ⟨fun q hq => ?_, ih hs.tail⟩
        rcases mem_mset hq with rfl | hq
        · simp only; omega
        · exact hs.head_lt q hq

/-- writing a NEW key is a sorted insertion -/
theorem mset_perm (m : GoMap Rat) (k : Int) (v : Rat) (hk : ∀ p ∈ m, p.1 ≠ k) :
    (mset m k v).Perm ((k, v) :: m) := by
  induction m with
  | nil => rw [mset_nil]
  | cons p rest ih =>
    rw [mset_cons]
    split
    · exact List.Perm.refl _
    · split
      · rename_i h1 h2
        exact absurd h2.symm (hk p (List.mem_cons_self ..))
      · exact ((ih (fun q hq => hk q (List.mem_cons_of_mem _ hq))).cons p).trans (List.Perm.swap ..)

/-- **order independence, the one lemma**: whatever lawful order the oracle picks, `range` visits
    every entry of a (key-sorted) map exactly once -/
theorem mrange_perm (ord : MapOrder) (hl : ord.Lawful) (m : Content) (hs : m.Sorted) :
    (mrange ord m).Perm m := by
  unfold mrange
  refine ((hl (m.map Prod.fst)).filterMap _).trans ?_
  rw [List.filterMap_map]
  have : List.filterMap ((fun k => (m.find? (fun p => p.1 == k)).map (fun p => (k, p.2))) ∘ Prod.fst) m
      = List.filterMap some m := by
    apply List.filterMap_congr
    intro p hp
    simp only [Function.comp, find_of_mem hs hp, Option.map_some]
  rw [this, List.filterMap_some]

/-- the ascending oracle visits the entries in storage order -/
theorem mrange_ascending (m : Content) (hs : m.Sorted) : mrange MapOrder.ascending m = m := by
  unfold mrange MapOrder.ascending
  simp only [id]
  rw [List.filterMap_map]
  have : List.filterMap ((fun k => (m.find? (fun p => p.1 == k)).map (fun p => (k, p.2))) ∘ Prod.fst) m
      = List.filterMap some m := by
    apply List.filterMap_congr
    intro p hp
    simp only [Function.comp, find_of_mem hs hp, Option.map_some]
  rw [this, List.filterMap_some]

theorem ascending_lawful : MapOrder.ascending.Lawful := fun l => List.Perm.refl l

/-- the reversed order is lawful too (used to show that the bytes DO depend on the order) -/
def descending : MapOrder := ⟨List.reverse⟩
theorem descending_lawful : descending.Lawful := fun l => List.reverse_perm l

theorem perm_total {a b : Content} (h : a.Perm b) : a.total = b.total := by
  induction h with
  | nil => rfl
  | cons x _ ih => simp only [Content.total_cons, ih]
  | swap x y l => simp only [Content.total_cons]; grind
  | trans _ _ ih1 ih2 => exact ih1.trans ih2

theorem perm_lookup {a b : Content} (h : a.Perm b) (j : Int) : a.lookup j = b.lookup j := by
  induction h with
  | nil => rfl
  | cons x _ ih => simp only [Content.lookup_cons, ih]
  | swap x y l => simp only [Content.lookup_cons]; grind
  | trans _ _ ih1 ih2 => exact ih1.trans ih2

/-! ### 2. `NewSparseStore`, `IsEmpty` -/

theorem new_eq : NewSparseStore = ⟨([] : Content)⟩ := rfl

theorem rep_new : Rep NewSparseStore [] := ⟨rfl, Content.wf_nil⟩

theorem isEmpty_eq_counts (g : SparseStore) : g.IsEmpty = Content.isEmpty g.counts := by
  unfold SparseStore.IsEmpty GoSem.len Content.isEmpty
  cases g.counts with
  | nil => rfl
  | cons p rest =>
    simp only [List.length_cons, List.isEmpty_cons]
    have : ((rest.length + 1 : Nat) : Int) ≠ 0 := by omega
    simpa using this

theorem isEmpty_eq {g : SparseStore} {c : Content} (h : RepS g c) :
    g.IsEmpty = (Store.sp c).isEmpty := by
  rw [isEmpty_eq_counts, h.1]; rfl

/-! ### 3. `Add`, `AddWithCount`, `AddBin` -/

/-- `m[i] += w` is `Content.add`, provided the entry does not become zero (then `Content.add`
    drops the key, the Go map keeps it with weight 0) and `w ≠ 0` -/
theorem mset_mget_add (c : Content) (hs : c.Sorted) (i : Int) (w : Rat) (hw : w ≠ 0)
    (hne : ∀ v, (i, v) ∈ c → v + w ≠ 0) :
    mset c i (mget c i 0 + w) = c.add i w := by
  induction c with
  | nil =>
    rw [mget_nil, mset_nil, Content.add_nil, if_neg hw, Rat.zero_add]
  | cons p rest ih =>
    rw [mset_cons, Content.add_cons, if_neg hw, mget_cons]
    by_cases h1 : i < p.1
    · rw [if_pos h1, if_pos h1, if_neg (by omega),
        mget_of_not_mem rest i 0 (fun q hq => by have := hs.head_lt q hq; omega), Rat.zero_add]
    · rw [if_neg h1, if_neg h1]
      by_cases h2 : i = p.1
      · have hp : p.2 + w ≠ 0 := hne p.2 (by rw [h2]; exact List.mem_cons_self ..)
        rw [if_pos h2, if_pos h2, if_pos h2.symm, if_neg hp, h2]
      · rw [if_neg h2, if_neg h2, if_neg (fun h => h2 h.symm),
          ih hs.tail (fun v hv => hne v (List.mem_cons_of_mem _ hv))]

/-- `AddWithCount` in its most general true form: sorted keys, and the touched entry does not
    become exactly zero -/
theorem addWithCount_eq_of_sorted (g : SparseStore) (i : Int) (w : Rat) (hs : Content.Sorted g.counts)
    (hne : w ≠ 0 → ∀ v, (i, v) ∈ g.counts → v + w ≠ 0) :
    (g.AddWithCount i w).counts = Content.add g.counts i w := by
  unfold SparseStore.AddWithCount
  by_cases hw : w = 0
  · subst hw
    simp only [beq_self_eq_true, if_true]
    exact (Content.add_zero_weight _ _).symm
  · have : (w == (0 : Rat)) = false := by simp [hw]
    simp only [this, Bool.false_eq_true, if_false]
    exact mset_mget_add _ hs i w hw (hne hw)

theorem addWithCount_eq {g : SparseStore} {c : Content} (h : Rep g c) (i : Int) (w : Rat) (hw : 0 ≤ w) :
    (g.AddWithCount i w).counts = c.add i w := by
  obtain ⟨rfl, hwf⟩ := h
  apply addWithCount_eq_of_sorted g i w hwf.1
  intro _ v hv
  have := hwf.2 _ hv
  simp only at this
  grind

/-- `AddWithCount` is the model's `Store.addWithCount` on the sparse store, and keeps `Rep` -/
theorem addWithCount_rep {g : SparseStore} {c : Content} (h : Rep g c) (i : Int) (w : Rat) (hw : 0 ≤ w) :
    Rep (g.AddWithCount i w) (c.add i w) :=
  ⟨addWithCount_eq h i w hw, Content.wf_add c i w h.2 hw⟩

theorem addWithCount_model {g : SparseStore} {c : Content} (h : Rep g c) (i : Int) (w : Rat) (hw : 0 ≤ w) :
    (Store.sp c).addWithCount i w = some (.sp (g.AddWithCount i w).counts) := by
  rw [addWithCount_eq h i w hw]; rfl

theorem add_eq_addWithCount (g : SparseStore) (i : Int) : g.Add i = g.AddWithCount i 1 := by
  unfold SparseStore.Add SparseStore.AddWithCount
  have : ((1 : Rat) == (0 : Rat)) = false := by decide
  simp only [this, Bool.false_eq_true, if_false]

theorem add_eq {g : SparseStore} {c : Content} (h : Rep g c) (i : Int) :
    (g.Add i).counts = c.add i 1 := by
  rw [add_eq_addWithCount]; exact addWithCount_eq h i 1 (by decide)

theorem add_rep {g : SparseStore} {c : Content} (h : Rep g c) (i : Int) : Rep (g.Add i) (c.add i 1) := by
  rw [add_eq_addWithCount]; exact addWithCount_rep h i 1 (by decide)

theorem addBin_eq {g : SparseStore} {c : Content} (h : Rep g c) (bin : Bin) (hw : 0 ≤ bin.count) :
    (g.AddBin bin).counts = c.add bin.index bin.count :=
  addWithCount_eq h _ _ hw

theorem addBin_rep {g : SparseStore} {c : Content} (h : Rep g c) (bin : Bin) (hw : 0 ≤ bin.count) :
    Rep (g.AddBin bin) (c.add bin.index bin.count) :=
  addWithCount_rep h _ _ hw

/-- WHY the weight must not cancel an entry: adding `-1` to a store holding `{5 ↦ 1}` leaves the Go
    map with the phantom entry `5 ↦ 0` (`IsEmpty` false, `MinIndex = 5`), where the canonical content
    is empty.  Outside the hypothesis (`0 ≤ w`) of every theorem above; the model is specified for
    non-negative weights only. -/
example : ((NewSparseStore.AddWithCount 5 1).AddWithCount 5 (-1)).counts = [(5, 0)] ∧
    (Content.add (Content.add [] 5 1) 5 (-1)) = [] := by decide +kernel

/-! ### 4. `TotalCount` -/

theorem totalCount_loop (l : List (Int × Rat)) (acc : Rat) :
    SparseStore.TotalCount.loop1 l acc = .done (acc + Content.total l) := by
  induction l generalizing acc with
  | nil => simp only [SparseStore.TotalCount.loop1, Content.total_nil, Rat.add_zero]
  | cons p rest ih =>
    obtain ⟨i, c⟩ := p
    simp only [SparseStore.TotalCount.loop1, ih, Content.total_cons, Rat.add_assoc]

/-- `TotalCount` is the content's total, whatever the iteration order -/
theorem totalCount_eq {g : SparseStore} {c : Content} (h : RepS g c) (fuel : Nat) (ord : MapOrder)
    (hl : ord.Lawful) : g.TotalCount fuel ord = .ok (Store.sp c).totalCount := by
  obtain ⟨rfl, hs⟩ := h
  unfold SparseStore.TotalCount
  simp only [totalCount_loop, Loop.elim_done, Rat.zero_add, perm_total (mrange_perm ord hl _ hs)]
  rfl

/-! ### 5. `MaxIndex`, `MinIndex` -/

theorem maxIndex_loop (l : List (Int × Rat)) (init : Int) :
    ∃ r, SparseStore.MaxIndex.loop1 l init = .done r ∧ init ≤ r ∧ (∀ p ∈ l, p.1 ≤ r) ∧
      (r = init ∨ ∃ p ∈ l, p.1 = r) := by
  induction l generalizing init with
  | nil => exact ⟨init, rfl, Int.le_refl _, by simp, .inl rfl⟩
  | cons p rest ih =>
    obtain ⟨i, c⟩ := p
    simp only [SparseStore.MaxIndex.loop1]
    obtain ⟨r, h1, h2, h3, h4⟩ := ih (if decide (init < i) = true then i else init)
    refine ⟨r, h1, ?_, ?_, ?_⟩
    · split at h2
      · rename_i hd; have := of_decide_eq_true hd; omega
      · rename_i hd; have : ¬ init < i := fun h => hd (decide_eq_true h); omega
    · intro p hp
      rcases List.mem_cons.1 hp with rfl | hp
      · show i ≤ r
        split at h2
        · rename_i hd; have := of_decide_eq_true hd; omega
        · rename_i hd; have : ¬ init < i := fun h => hd (decide_eq_true h); omega
      · exact h3 p hp
    · rcases h4 with h4 | ⟨p, hp, h4⟩
      · split at h4
        · exact .inr ⟨(i, c), List.mem_cons_self .., h4.symm⟩
        · exact .inl h4
      · exact .inr ⟨p, List.mem_cons_of_mem _ hp, h4⟩

theorem minIndex_loop (l : List (Int × Rat)) (init : Int) :
    ∃ r, SparseStore.MinIndex.loop1 l init = .done r ∧ r ≤ init ∧ (∀ p ∈ l, r ≤ p.1) ∧
      (r = init ∨ ∃ p ∈ l, p.1 = r) := by
  induction l generalizing init with
  | nil => exact ⟨init, rfl, Int.le_refl _, by simp, .inl rfl⟩
  | cons p rest ih =>
    obtain ⟨i, c⟩ := p
    simp only [SparseStore.MinIndex.loop1]
    obtain ⟨r, h1, h2, h3, h4⟩ := ih (if decide (i < init) = true then i else init)
    refine ⟨r, h1, ?_, ?_, ?_⟩
    · split at h2
      · rename_i hd; have := of_decide_eq_true hd; omega
      · rename_i hd; have : ¬ i < init := fun h => hd (decide_eq_true h); omega
    · intro p hp
      rcases List.mem_cons.1 hp with rfl | hp
      · show r ≤ i
        split at h2
        · rename_i hd; have := of_decide_eq_true hd; omega
        · rename_i hd; have : ¬ i < init := fun h => hd (decide_eq_true h); omega
      · exact h3 p hp
    · rcases h4 with h4 | ⟨p, hp, h4⟩
      · split at h4
        · exact .inr ⟨(i, c), List.mem_cons_self .., h4.symm⟩
        · exact .inl h4
      · exact .inr ⟨p, List.mem_cons_of_mem _ hp, h4⟩

/-- what the Go pair `(index, error)` is for an optional index of the model -/
def idxRes (e : GoErr) : Option Int → Int × GoErr
  | some k => (k, GoErr.nil)
  | none => (0, e)

theorem isEmpty_cons (g : SparseStore) (p : Int × Rat) (rest : Content) (h : g.counts = p :: rest) :
    g.IsEmpty = false := by
  rw [isEmpty_eq_counts, h]; rfl

theorem isEmpty_nil (g : SparseStore) (h : g.counts = []) : g.IsEmpty = true := by
  rw [isEmpty_eq_counts, h]; rfl

/-- `MaxIndex`: the model's `maxIndex?` (error `errUndefinedMaxIndex` on the empty store), for every
    lawful order.  The scan starts from `minInt = -2^63`, hence the hypothesis that the keys are not
    below it (true of every Go `int`; `GoSem` models `int` as an unbounded `Int`). -/
theorem maxIndex_eq {g : SparseStore} {c : Content} (h : RepS g c) (fuel : Nat) (ord : MapOrder)
    (hl : ord.Lawful) (hk : ∀ p ∈ c, -(2:Int)^63 ≤ p.1) :
    g.MaxIndex fuel ord = .ok (idxRes errUndefinedMaxIndex (Store.sp c).maxIndex?) := by
  obtain ⟨rfl, hs⟩ := h
  unfold SparseStore.MaxIndex
  cases hc : g.counts with
  | nil => rw [isEmpty_nil g hc]; rfl
  | cons p rest =>
    rw [isEmpty_cons g p rest hc]
    simp only [Bool.false_eq_true, if_false]
    rw [← hc]
    obtain ⟨r, h1, h2, h3, h4⟩ := maxIndex_loop (mrange ord g.counts) (-9223372036854775808)
    rw [h1, Loop.elim_done]
    obtain ⟨k, hk'⟩ := Content.maxIndex?_isSome g.counts (by rw [hc]; simp)
    show _ = Res.ok (idxRes errUndefinedMaxIndex (Content.maxIndex? g.counts))
    rw [hk']
    obtain ⟨w, hw⟩ := Content.maxIndex_mem _ k hk'
    have hle := Content.le_maxIndex_of_sorted _ hs k hk'
    have hperm := mrange_perm ord hl _ hs
    have e : r = k := by
      have a1 : k ≤ r := h3 (k, w) (hperm.mem_iff.2 hw)
      rcases h4 with h4 | ⟨p, hp, h4⟩
      · have := hk (k, w) hw
        simp only at this
        omega
      · have := hle p (hperm.mem_iff.1 hp)
        omega
    rw [e]; rfl

/-- `MinIndex`, symmetric: the scan starts from `maxInt = 2^63 - 1` -/
theorem minIndex_eq {g : SparseStore} {c : Content} (h : RepS g c) (fuel : Nat) (ord : MapOrder)
    (hl : ord.Lawful) (hk : ∀ p ∈ c, p.1 < (2:Int)^63) :
    g.MinIndex fuel ord = .ok (idxRes errUndefinedMinIndex (Store.sp c).minIndex?) := by
  obtain ⟨rfl, hs⟩ := h
  unfold SparseStore.MinIndex
  cases hc : g.counts with
  | nil => rw [isEmpty_nil g hc]; rfl
  | cons p rest =>
    rw [isEmpty_cons g p rest hc]
    simp only [Bool.false_eq_true, if_false]
    rw [← hc]
    obtain ⟨r, h1, h2, h3, h4⟩ := minIndex_loop (mrange ord g.counts) 9223372036854775807
    rw [h1, Loop.elim_done]
    have hk' : Content.minIndex? g.counts = some p.1 := by rw [hc]; obtain ⟨a, b⟩ := p; rfl
    show _ = Res.ok (idxRes errUndefinedMinIndex (Content.minIndex? g.counts))
    rw [hk']
    obtain ⟨w, hw⟩ := Content.minIndex_mem _ _ hk'
    have hle := Content.minIndex_le_of_sorted _ hs _ hk'
    have hperm := mrange_perm ord hl _ hs
    have e : r = p.1 := by
      have a1 : r ≤ p.1 := h3 (p.1, w) (hperm.mem_iff.2 hw)
      rcases h4 with h4 | ⟨q, hq, h4⟩
      · have := hk (p.1, w) hw
        simp only at this
        omega
      · have := hle q (hperm.mem_iff.1 hq)
        omega
    rw [e]; rfl

/-! ### 6. `orderedBins` (what `Bins()` enumerates) -/

def toBin (p : Int × Rat) : Bin := ⟨p.1, p.2⟩

theorem orderedBins_loop (l : List (Int × Rat)) (bins : List Bin) :
    SparseStore.orderedBins.loop1 l bins = .done (bins ++ l.map toBin) := by
  induction l generalizing bins with
  | nil => simp only [SparseStore.orderedBins.loop1, List.map_nil, List.append_nil]
  | cons p rest ih =>
    obtain ⟨i, c⟩ := p
    simp only [SparseStore.orderedBins.loop1, ih, List.map_cons, List.append_assoc, List.singleton_append]
    rfl

theorem toBin_injective {p q : Int × Rat} (h : toBin p = toBin q) : p = q := by
  unfold toBin at h
  injection h with h1 h2
  exact Prod.ext h1 h2

/-- sorting by index ANY permutation of a key-sorted content gives the content back -/
theorem sortOn_perm (c : Content) (hs : c.Sorted) (l : List (Int × Rat)) (hp : l.Perm c) :
    GoSem.sortOn (fun e : Bin => e.index) (l.map toBin) = c.map toBin := by
  unfold GoSem.sortOn
  have hpw : (c.map toBin).Pairwise (fun a b => decide (a.index ≤ b.index) = true) := by
    rw [List.pairwise_map]
    refine ((sorted_iff_pairwise c).1 hs).imp ?_
    intro a b hab
    exact decide_eq_true (by show a.1 ≤ b.1; omega)
  have hsorted := List.pairwise_mergeSort (le := fun a b : Bin => decide (a.index ≤ b.index))
    (fun a b c h1 h2 => by simp only [decide_eq_true_eq] at *; omega)
    (fun a b => by simp only [Bool.or_eq_true, decide_eq_true_eq]; omega) (l.map toBin)
  have hperm : ((l.map toBin).mergeSort (fun a b => decide (a.index ≤ b.index))).Perm (c.map toBin) :=
    (List.mergeSort_perm _ _).trans (hp.map toBin)
  refine List.Perm.eq_of_pairwise (le := fun a b : Bin => decide (a.index ≤ b.index) = true)
    ?_ hsorted hpw hperm
  intro a b ha hb h1 h2
  have ha' := hperm.mem_iff.1 ha
  obtain ⟨p, hp1, rfl⟩ := List.mem_map.1 ha'
  obtain ⟨q, hq1, rfl⟩ := List.mem_map.1 hb
  have h1 : p.1 ≤ q.1 := of_decide_eq_true h1
  have h2 : q.1 ≤ p.1 := of_decide_eq_true h2
  rw [eq_of_key_eq hs hp1 hq1 (by omega)]

/-- `orderedBins`: the entries of the content in ascending index order, whatever the order -/
theorem orderedBins_eq {g : SparseStore} {c : Content} (h : RepS g c) (fuel : Nat) (ord : MapOrder)
    (hl : ord.Lawful) : g.orderedBins fuel ord = .ok (c.map toBin) := by
  obtain ⟨rfl, hs⟩ := h
  unfold SparseStore.orderedBins
  simp only [orderedBins_loop, Loop.elim_done, List.nil_append,
    sortOn_perm _ hs _ (mrange_perm ord hl _ hs)]

/-- in the vocabulary of the model: `Store.binsList (.sp c) = some c` -/
theorem orderedBins_model {g : SparseStore} {c : Content} (h : RepS g c) (fuel : Nat) (ord : MapOrder)
    (hl : ord.Lawful) :
    ∃ bins, g.orderedBins fuel ord = .ok bins ∧
      (Store.sp c).binsList = some (bins.map (fun b => (b.index, b.count))) := by
  refine ⟨_, orderedBins_eq h fuel ord hl, ?_⟩
  show some c = _
  have : (fun b : Bin => (b.index, b.count)) ∘ toBin = id := by funext p; rfl
  rw [List.map_map, this, List.map_id]

/-! ### 7. `KeyAtRank` -/

theorem keyAtRank_loop (rank : Rat) (c : Content) (acc : Rat) :
    SparseStore.KeyAtRank.loop1 rank (c.map toBin) acc =
      match c.firstExceeding acc rank with
      | some k => .ret k
      | none => .done (acc + c.total) := by
  induction c generalizing acc with
  | nil => simp only [List.map_nil, SparseStore.KeyAtRank.loop1, Content.firstExceeding,
      Content.total_nil, Rat.add_zero]
  | cons p rest ih =>
    obtain ⟨i, w⟩ := p
    simp only [List.map_cons, SparseStore.KeyAtRank.loop1, toBin, Content.firstExceeding]
    by_cases hlt : rank < acc + w
    · simp only [hlt, decide_true, if_true]
    · simp only [hlt, decide_false, Bool.false_eq_true, if_false]
      rw [ih]
      cases Content.firstExceeding rest (acc + w) rank with
      | some k => rfl
      | none => simp only [Content.total_cons, Rat.add_assoc]

theorem errMax_ne_nil : (errUndefinedMaxIndex == GoErr.nil) = false := by decide

/-- `KeyAtRank` is the model's `Store.keyAtRank` on the sparse store — for every rank (negative
    ones included: neither side clamps), every lawful order, the empty store included (both give 0) -/
theorem keyAtRank_eq {g : SparseStore} {c : Content} (h : RepS g c) (fuel : Nat) (ord : MapOrder)
    (hl : ord.Lawful) (hk : ∀ p ∈ c, -(2:Int)^63 ≤ p.1) (r : Rat) :
    g.KeyAtRank fuel ord r = .ok ((Store.sp c).keyAtRank r) := by
  unfold SparseStore.KeyAtRank
  rw [orderedBins_eq h fuel ord hl, Res.bind_ok]
  dsimp only
  rw [keyAtRank_loop, maxIndex_eq h fuel ord hl hk]
  show _ = Res.ok (match c.firstExceeding 0 r with
    | some k => k
    | none => (c.maxIndex?).getD 0)
  cases c.firstExceeding 0 r with
  | some k => rfl
  | none =>
    simp only [Loop.elim_done, Res.bind_ok]
    show (match idxRes errUndefinedMaxIndex (Content.maxIndex? c) with
      | (maxIndex, err) => if (err == GoErr.nil) = true then Res.ok maxIndex else Res.ok 0) = _
    cases Content.maxIndex? c with
    | none => simp only [idxRes, errMax_ne_nil, Bool.false_eq_true, if_false, Option.getD_none]
    | some k => simp only [idxRes, beq_self_eq_true, if_true, Option.getD_some]

/-! ### 8. `Copy` -/

theorem copy_loop (l : List (Int × Rat)) (acc : Content) (hs : acc.Sorted)
    (hnd : (keys (acc ++ l)).Nodup) :
    ∃ r, SparseStore.Copy.loop1 l acc = .done r ∧ Content.Sorted r ∧ List.Perm r (acc ++ l) := by
  induction l generalizing acc with
  | nil => exact ⟨acc, rfl, hs, by simp⟩
  | cons p rest ih =>
    obtain ⟨k, v⟩ := p
    simp only [SparseStore.Copy.loop1]
    have hk : ∀ q ∈ acc, q.1 ≠ k := by
      intro q hq hqk
      unfold keys at hnd
      rw [List.map_append, List.map_cons, List.nodup_append] at hnd
      exact hnd.2.2 q.1 (List.mem_map.2 ⟨q, hq, rfl⟩) k (List.mem_cons_self ..) hqk
    have hperm : (mset acc k v ++ rest).Perm (acc ++ (k, v) :: rest) :=
      ((mset_perm acc k v hk).append_right rest).trans List.perm_middle.symm
    obtain ⟨r, h1, h2, h3⟩ := ih (mset acc k v) (mset_sorted acc hs k v)
      ((hperm.map Prod.fst).nodup_iff.2 hnd)
    exact ⟨r, h1, h2, h3.trans hperm⟩

/-- `Copy` returns a store with the same content, whatever the order -/
theorem copy_eq {g : SparseStore} {c : Content} (h : RepS g c) (fuel : Nat) (ord : MapOrder)
    (hl : ord.Lawful) : g.Copy fuel ord = .ok ⟨c⟩ := by
  obtain ⟨rfl, hs⟩ := h
  unfold SparseStore.Copy
  have hperm := mrange_perm ord hl _ hs
  obtain ⟨r, h1, h2, h3⟩ := copy_loop (mrange ord g.counts) [] trivial (by
    rw [List.nil_append]
    exact (hperm.map Prod.fst).nodup_iff.2 (keys_nodup hs))
  simp only [h1, Loop.elim_done]
  rw [eq_of_perm_sorted (h3.trans (by rw [List.nil_append]; exact hperm)) h2 hs]

theorem copy_rep {g : SparseStore} {c : Content} (h : Rep g c) (fuel : Nat) (ord : MapOrder)
    (hl : ord.Lawful) : ∃ g', g.Copy fuel ord = .ok g' ∧ Rep g' c ∧ g' = g :=
  ⟨⟨c⟩, copy_eq h.repS fuel ord hl, ⟨rfl, h.2⟩, by rw [← h.1]⟩

/-! ### 9. `Clear` -/

theorem clear_loop (l : List (Int × Rat)) (s : SparseStore) :
    ∃ r, SparseStore.Clear.loop1 l s = .done r ∧
      ∀ p, p ∈ r.counts ↔ p ∈ s.counts ∧ p.1 ∉ keys l := by
  induction l generalizing s with
  | nil => exact ⟨s, rfl, fun p => by simp⟩
  | cons q rest ih =>
    obtain ⟨k, v⟩ := q
    simp only [SparseStore.Clear.loop1]
    obtain ⟨r, h1, h2⟩ := ih { s with counts := mdelete s.counts k }
    refine ⟨r, h1, fun p => ?_⟩
    rw [h2 p]
    simp only [mdelete, List.mem_filter, bne_iff_ne, ne_eq, keys_cons, List.mem_cons, not_or]
    constructor
    · rintro ⟨⟨a, b⟩, c⟩; exact ⟨a, b, c⟩
    · rintro ⟨a, b, c⟩; exact ⟨⟨a, b⟩, c⟩

/-- `Clear` empties the map (deleting during the iteration, in any order) -/
theorem clear_eq {g : SparseStore} {c : Content} (h : RepS g c) (fuel : Nat) (ord : MapOrder)
    (hl : ord.Lawful) : g.Clear fuel ord = .ok NewSparseStore := by
  obtain ⟨rfl, hs⟩ := h
  unfold SparseStore.Clear
  obtain ⟨r, h1, h2⟩ := clear_loop (mrange ord g.counts) g
  simp only [h1, Loop.elim_done]
  have : r.counts = [] := by
    apply List.eq_nil_iff_forall_not_mem.2
    intro p hp
    have := (h2 p).1 hp
    exact this.2 (mem_keys_of_mem ((mrange_perm ord hl _ hs).mem_iff.2 this.1))
  obtain ⟨rc⟩ := r
  simp only at this
  rw [this]; rfl

theorem clear_rep {g : SparseStore} {c : Content} (h : Rep g c) (fuel : Nat) (ord : MapOrder)
    (hl : ord.Lawful) :
    ∃ g', g.Clear fuel ord = .ok g' ∧ Rep g' [] ∧ Store.sp g'.counts = (Store.sp c).clear :=
  ⟨_, clear_eq h.repS fuel ord hl, rep_new, rfl⟩

/-! ### 10. `Reweight` -/

theorem keys_map_if (m : Content) (P : Int → Prop) [DecidablePred P] (w : Rat) :
    keys (m.map (fun p => if P p.1 then (p.1, p.2 * w) else p)) = keys m := by
  unfold keys
  rw [List.map_map]
  apply List.map_congr_left
  intro p _
  simp only [Function.comp]
  split <;> rfl

/-- `m[k] *= w` on a present key rewrites that one entry -/
theorem mset_mget_scale (m : Content) (hs : m.Sorted) (k : Int) (w : Rat) (hk : k ∈ keys m) :
    mset m k (mget m k 0 * w) = m.map (fun p => if p.1 = k then (p.1, p.2 * w) else p) := by
  induction m with
  | nil => simp at hk
  | cons p rest ih =>
    rw [mset_cons, mget_cons, List.map_cons]
    by_cases h : p.1 = k
    · rw [if_pos h, if_neg (by omega), if_pos h.symm, if_pos h, h]
      congr 1
      conv => lhs; rw [← List.map_id rest]
      apply List.map_congr_left
      intro q hq
      have := hs.head_lt q hq
      rw [if_neg (by omega)]; rfl
    · have hk' : k ∈ keys rest := by
        rcases List.mem_cons.1 hk with hk | hk
        · exact absurd hk.symm h
        · exact hk
      obtain ⟨q, hq, hqk⟩ := mem_keys.1 hk'
      have := hs.head_lt q hq
      rw [if_neg h, if_neg (by omega), if_neg (by omega), if_neg h, ih hs.tail hk']

theorem reweight_loop (w : Rat) (l : List (Int × Rat)) (s : SparseStore) (hs : Content.Sorted s.counts)
    (hnd : (keys l).Nodup) (hsub : ∀ k ∈ keys l, k ∈ keys s.counts) :
    SparseStore.Reweight.loop1 w l s =
      .done ⟨s.counts.map (fun p => if p.1 ∈ keys l then (p.1, p.2 * w) else p)⟩ := by
  induction l generalizing s with
  | nil =>
    simp only [SparseStore.Reweight.loop1, keys_nil, List.not_mem_nil, if_false, List.map_id']
  | cons q rest ih =>
    obtain ⟨k, v⟩ := q
    simp only [SparseStore.Reweight.loop1]
    rw [keys_cons, List.nodup_cons] at hnd
    have hkm : k ∈ keys s.counts := hsub k (List.mem_cons_self ..)
    rw [mset_mget_scale _ hs k w hkm]
    have hkeys := keys_map_if s.counts (fun i => i = k) w
    rw [ih _ (by rw [sorted_iff_keys, hkeys, ← sorted_iff_keys]; exact hs) hnd.2
      (fun j hj => by rw [hkeys]; exact hsub j (List.mem_cons_of_mem _ hj))]
    simp only [List.map_map]
    congr 2
    apply List.map_congr_left
    intro p _
    simp only [Function.comp, keys_cons, List.mem_cons]
    by_cases h : p.1 = k
    · have : p.1 ∉ keys rest := by rw [h]; exact hnd.1
      simp only [h, if_true, true_or]
      rw [if_neg hnd.1]
    · simp only [h, if_false, false_or]

/-- `Reweight(w)`, `w ≤ 0`: the error, store unchanged (the model: `some (.error .nonPositive)`) -/
theorem reweight_nonpos (g : SparseStore) (fuel : Nat) (ord : MapOrder) (w : Rat) (hw : w ≤ 0) :
    g.Reweight fuel ord w = .ok (g, GoErr.named "can't reweight by a negative factor") := by
  unfold SparseStore.Reweight
  simp only [hw, decide_true, if_true]

/-- `Reweight(1)`: nothing happens -/
theorem reweight_one (g : SparseStore) (fuel : Nat) (ord : MapOrder) :
    g.Reweight fuel ord 1 = .ok (g, GoErr.nil) := by
  unfold SparseStore.Reweight
  have : ¬ ((1 : Rat) ≤ 0) := by decide
  simp only [this, decide_false, Bool.false_eq_true, if_false, beq_self_eq_true, if_true]

/-- `Reweight(w)`, `0 < w ≠ 1`: every weight multiplied by `w`, whatever the order -/
theorem reweight_scale {g : SparseStore} {c : Content} (h : RepS g c) (fuel : Nat) (ord : MapOrder)
    (hl : ord.Lawful) (w : Rat) (hw : 0 < w) (hw1 : w ≠ 1) :
    g.Reweight fuel ord w = .ok (⟨c.scale w⟩, GoErr.nil) := by
  obtain ⟨rfl, hs⟩ := h
  unfold SparseStore.Reweight
  have h0 : ¬ (w ≤ 0) := by grind
  have h1 : (w == (1 : Rat)) = false := by simp [hw1]
  simp only [h0, decide_false, Bool.false_eq_true, if_false, h1]
  have hperm := mrange_perm ord hl _ hs
  have hkp : (keys (mrange ord g.counts)).Perm (keys g.counts) := hperm.map Prod.fst
  rw [reweight_loop w _ g hs (hkp.nodup_iff.2 (keys_nodup hs)) (fun k hk => hkp.mem_iff.1 hk)]
  simp only [Loop.elim_done]
  congr 3
  unfold Content.scale
  apply List.map_congr_left
  intro p hp
  rw [if_pos (hkp.mem_iff.2 (mem_keys_of_mem hp))]

/-- the three cases together, against the model's `Store.reweight` -/
theorem reweight_eq {g : SparseStore} {c : Content} (h : RepS g c) (fuel : Nat) (ord : MapOrder)
    (hl : ord.Lawful) (w : Rat) :
    (w ≤ 0 → (Store.sp c).reweight w = some (.error .nonPositive) ∧
      g.Reweight fuel ord w = .ok (g, GoErr.named "can't reweight by a negative factor")) ∧
    (0 < w → ∃ c', (Store.sp c).reweight w = some (.ok (.sp c')) ∧
      g.Reweight fuel ord w = .ok (⟨c'⟩, GoErr.nil) ∧ (w = 1 → c' = c) ∧ (w ≠ 1 → c' = c.scale w)) := by
  refine ⟨fun hw => ⟨by unfold Store.reweight; rw [if_pos hw], reweight_nonpos g fuel ord w hw⟩, fun hw => ?_⟩
  have h0 : ¬ (w ≤ 0) := by grind
  by_cases h1 : w = 1
  · refine ⟨c, by unfold Store.reweight; rw [if_neg h0, if_pos h1], ?_, fun _ => rfl, fun h => absurd h1 h⟩
    rw [h1, reweight_one, ← h.1]
  · exact ⟨c.scale w, by unfold Store.reweight; rw [if_neg h0, if_neg h1],
      reweight_scale h fuel ord hl w hw h1, fun h => absurd h h1, fun _ => rfl⟩

theorem reweight_rep {g : SparseStore} {c : Content} (h : Rep g c) (fuel : Nat) (ord : MapOrder)
    (hl : ord.Lawful) (w : Rat) (hw : 0 < w) :
    ∃ g', g.Reweight fuel ord w = .ok (g', GoErr.nil) ∧ Rep g' (c.scale w) := by
  by_cases h1 : w = 1
  · refine ⟨g, by rw [h1, reweight_one], ?_⟩
    have : c.scale w = c := by
      subst h1
      unfold Content.scale
      conv => rhs; rw [← List.map_id c]
      apply List.map_congr_left
      intro p _
      simp
    rw [this]; exact h
  · exact ⟨_, reweight_scale h.repS fuel ord hl w hw h1, rfl, Content.wf_scale c w h.2 hw⟩

/-! ### 11. `Encode` -/

open DDS.GenDenseEncode (itemBytes bn_append block_bytes EncodeVarfloat64_fin bins_block_bytes)
open DDS.RoundTrip (Keys32 sideBins Denotes finBins IsBins)
open DDS.PStore (Idx32)

/-- every index delta the loop writes, starting from `prev`, is an `int64` (Go converts with
    `int64(index - previousIndex)`; the model's `encVarint64` takes the unbounded integer) -/
def DeltasOK : Int → List (Int × Rat) → Prop
  | _, [] => True
  | prev, p :: rest => -(2:Int)^63 ≤ p.1 - prev ∧ p.1 - prev < (2:Int)^63 ∧ DeltasOK p.1 rest

theorem encode_loop (fuel : Nat) (hf : 9 ≤ fuel) (l : List (Int × Rat)) (b : List (BitVec 8))
    (prev : Int) (hd : DeltasOK prev l) :
    ∃ last, SparseStore.Encode.loop1 fuel l b prev =
      .done (b ++ bn ((deltaRec prev l).flatMap itemBytes), last) := by
  induction l generalizing b prev with
  | nil =>
    refine ⟨prev, ?_⟩
    simp only [SparseStore.Encode.loop1, deltaRec, List.flatMap_nil]
    rw [show bn [] = [] from rfl, List.append_nil]
  | cons p rest ih =>
    obtain ⟨i, c⟩ := p
    obtain ⟨h1, h2, h3⟩ := hd
    simp only [SparseStore.Encode.loop1]
    rw [EncodeVarint64_ofInt fuel hf b (i - prev) h1 h2, Res.bindL_ok,
      EncodeVarfloat64_fin fuel hf, Res.bindL_ok]
    obtain ⟨last, hl⟩ := ih (b ++ bn (encVarint64 (i - prev)) ++ bn (encVarfloatBits (Sketch.vfBits c))) i h3
    refine ⟨last, ?_⟩
    rw [hl]
    simp only [deltaRec, List.flatMap_cons, itemBytes, bn_append, List.append_assoc]

theorem len_toNat (m : List (Int × Rat)) (h : m.length < 2 ^ 64) :
    (BitVec.ofInt 64 (GoSem.len m)).toNat = m.length := by
  unfold GoSem.len
  rw [BitVec.ofInt_natCast, BitVec.toNat_ofNat]
  omega

/-- the empty store writes nothing -/
theorem encode_empty (g : SparseStore) (hc : g.counts = []) (fuel : Nat) (ord : MapOrder)
    (b : List (BitVec 8)) (t : FlagType) : g.Encode fuel ord b t = .ok b := by
  unfold SparseStore.Encode
  rw [isEmpty_nil g hc]
  simp only [if_true]

/-- **the bytes for an arbitrary order**: one `deltasCounts` block whose items are the entries in
    the order the oracle picked (deltas from the previous VISITED index, starting at 0) -/
theorem encode_order {g : SparseStore} {c : Content} (h : RepS g c) (fuel : Nat) (hf : 9 ≤ fuel)
    (ord : MapOrder) (hl : ord.Lawful) (b : List (BitVec 8)) (t : FlagType) (side : Side)
    (ht : t.byte.toNat = Wire.sideType side) (hne : c ≠ []) (hlen : c.length < 2 ^ 64)
    (hd : DeltasOK 0 (mrange ord c)) :
    g.Encode fuel ord b t =
      .ok (b ++ bn (Wire.encBlock (.bins side (.deltasCounts (deltaRec 0 (mrange ord c)))))) := by
  obtain ⟨rfl, hs⟩ := h
  unfold SparseStore.Encode
  cases hc : g.counts with
  | nil => exact absurd hc hne
  | cons p rest =>
    rw [isEmpty_cons g p rest hc]
    simp only [Bool.false_eq_true, if_false]
    rw [← hc, EncodeUvarint64_eq fuel hf, Res.bind_ok]
    obtain ⟨last, hloop⟩ := encode_loop fuel hf (mrange ord g.counts)
      (EncodeFlag b (NewFlag t BinEncodingIndexDeltasAndCounts) ++
        bn (encUvarint64 (BitVec.ofInt 64 (GoSem.len g.counts)).toNat)) 0 hd
    rw [hloop]
    simp only [Loop.elim_done, EncodeFlag, Wire.encBlock, Wire.encPayload, List.append_assoc]
    rw [← bn_append, ← List.append_assoc b, block_bytes b _ _ ((storeFlag_bytes side t ht).1),
      len_toNat _ hlen, deltaRec_length, (mrange_perm ord hl _ hs).length_eq]
    rfl

/-- the `int64` side conditions, on the content: every key is an `int64`, and so is every
    difference of two keys (what `int64(index - previousIndex)` needs whatever the order) -/
structure KeyRange (c : Content) : Prop where
  lo : ∀ p ∈ c, -(2:Int)^63 ≤ p.1
  hi : ∀ p ∈ c, p.1 < (2:Int)^63
  span : ∀ p ∈ c, ∀ q ∈ c, q.1 - p.1 < (2:Int)^63

theorem deltasOK_of_range (l : List (Int × Rat)) (prev : Int)
    (h0 : ∀ p ∈ l, -(2:Int)^63 ≤ p.1 - prev ∧ p.1 - prev < (2:Int)^63)
    (hp : ∀ p ∈ l, ∀ q ∈ l, q.1 - p.1 < (2:Int)^63) : DeltasOK prev l := by
  induction l generalizing prev with
  | nil => trivial
  | cons p rest ih =>
    refine ⟨(h0 p (List.mem_cons_self ..)).1, (h0 p (List.mem_cons_self ..)).2, ih p.1 ?_ ?_⟩
    · intro q hq
      have a := hp p (List.mem_cons_self ..) q (List.mem_cons_of_mem _ hq)
      have b := hp q (List.mem_cons_of_mem _ hq) p (List.mem_cons_self ..)
      omega
    · exact fun a ha b hb => hp a (List.mem_cons_of_mem _ ha) b (List.mem_cons_of_mem _ hb)

theorem deltasOK_mrange {c : Content} (hs : c.Sorted) (hr : KeyRange c) (ord : MapOrder)
    (hl : ord.Lawful) : DeltasOK 0 (mrange ord c) := by
  have hperm := mrange_perm ord hl c hs
  apply deltasOK_of_range
  · intro p hp
    have a := hr.lo p (hperm.mem_iff.1 hp)
    have b := hr.hi p (hperm.mem_iff.1 hp)
    omega
  · exact fun p hp q hq => hr.span p (hperm.mem_iff.1 hp) q (hperm.mem_iff.1 hq)

theorem length_lt_of_range {c : Content} (hs : c.Sorted) (hr : KeyRange c) : c.length < 2 ^ 64 := by
  cases c with
  | nil => simp
  | cons p rest =>
    have := Content.length_le_of_sorted_range (p :: rest) hs p.1 (2 ^ 63) (by
      intro q hq
      have a := hr.span p (List.mem_cons_self ..) q hq
      have b : p.1 ≤ q.1 := Content.minIndex_le_of_sorted (p :: rest) hs p.1 (by obtain ⟨x, y⟩ := p; rfl) q hq
      refine ⟨b, ?_⟩
      have : ((2 ^ 63 : Nat) : Int) = (2:Int) ^ 63 := by norm_cast
      omega)
    omega

theorem keyRange_of_keys32 {c : Content} (hk : Keys32 c) : KeyRange c := by
  refine ⟨fun p hp => ?_, fun p hp => ?_, fun p hp q hq => ?_⟩
  · have := hk p hp; unfold Idx32 minInt32 maxInt32 at this; omega
  · have := hk p hp; unfold Idx32 minInt32 maxInt32 at this; omega
  · have a := hk p hp; have b := hk q hq; unfold Idx32 minInt32 maxInt32 at a b; omega

/-- for ANY lawful order: the bytes of the block listing the entries in that order -/
theorem encode_any_order {g : SparseStore} {c : Content} (h : RepS g c) (fuel : Nat) (hf : 9 ≤ fuel)
    (ord : MapOrder) (hl : ord.Lawful) (b : List (BitVec 8)) (t : FlagType) (side : Side)
    (ht : t.byte.toNat = Wire.sideType side) (hr : KeyRange c) :
    g.Encode fuel ord b t = .ok (b ++ bn (Wire.encBlocks
      (if c = [] then [] else [.bins side (.deltasCounts (deltaRec 0 (mrange ord c)))]))) := by
  by_cases hne : c = []
  · rw [if_pos hne, encode_empty g (h.1.trans hne)]
    simp [Wire.encBlocks, bn]
  · rw [if_neg hne, encode_order h fuel hf ord hl b t side ht hne (length_lt_of_range h.2 hr)
      (deltasOK_mrange h.2 hr ord hl)]
    simp [Wire.encBlocks]

/-- **`encode_ascending`**: with the ascending oracle the generated encoder writes exactly the bytes
    of the blocks of the hand-written `Sketch.encodeStore (.sp c) side` -/
theorem encode_ascending {g : SparseStore} {c : Content} (h : RepS g c) (fuel : Nat) (hf : 9 ≤ fuel)
    (b : List (BitVec 8)) (t : FlagType) (side : Side) (ht : t.byte.toNat = Wire.sideType side)
    (hr : KeyRange c) (st : Store) (blocks : List Block)
    (hm : Sketch.encodeStore (.sp c) side = some (st, blocks)) :
    st = .sp c ∧ g.Encode fuel MapOrder.ascending b t = .ok (b ++ bn (Wire.encBlocks blocks)) := by
  rw [encode_any_order h fuel hf _ ascending_lawful b t side ht hr, mrange_ascending c h.2]
  cases c with
  | nil =>
    rw [RoundTrip.encodeStore_sp_nil] at hm
    injection hm with hm
    injection hm with h1 h2
    subst h1 h2
    exact ⟨rfl, rfl⟩
  | cons p rest =>
    rw [RoundTrip.encodeStore_sp_cons] at hm
    injection hm with hm
    injection hm with h1 h2
    subst h1 h2
    exact ⟨rfl, by rw [if_neg (by simp)]⟩

/-- the two flag types -/
theorem encode_ascending_pos {g : SparseStore} {c : Content} (h : RepS g c) (fuel : Nat) (hf : 9 ≤ fuel)
    (b : List (BitVec 8)) (hr : KeyRange c) :
    ∃ blocks, Sketch.encodeStore (.sp c) .pos = some (.sp c, blocks) ∧
      g.Encode fuel MapOrder.ascending b FlagTypePositiveStore = .ok (b ++ bn (Wire.encBlocks blocks)) := by
  cases c with
  | nil =>
    exact ⟨_, RoundTrip.encodeStore_sp_nil _, (encode_ascending h fuel hf b _ .pos
      FlagTypePositiveStore_side hr _ _ (RoundTrip.encodeStore_sp_nil _)).2⟩
  | cons p rest =>
    exact ⟨_, RoundTrip.encodeStore_sp_cons p rest _, (encode_ascending h fuel hf b _ .pos
      FlagTypePositiveStore_side hr _ _ (RoundTrip.encodeStore_sp_cons p rest _)).2⟩

theorem encode_ascending_neg {g : SparseStore} {c : Content} (h : RepS g c) (fuel : Nat) (hf : 9 ≤ fuel)
    (b : List (BitVec 8)) (hr : KeyRange c) :
    ∃ blocks, Sketch.encodeStore (.sp c) .neg = some (.sp c, blocks) ∧
      g.Encode fuel MapOrder.ascending b FlagTypeNegativeStore = .ok (b ++ bn (Wire.encBlocks blocks)) := by
  cases c with
  | nil =>
    exact ⟨_, RoundTrip.encodeStore_sp_nil _, (encode_ascending h fuel hf b _ .neg
      FlagTypeNegativeStore_side hr _ _ (RoundTrip.encodeStore_sp_nil _)).2⟩
  | cons p rest =>
    exact ⟨_, RoundTrip.encodeStore_sp_cons p rest _, (encode_ascending h fuel hf b _ .neg
      FlagTypeNegativeStore_side hr _ _ (RoundTrip.encodeStore_sp_cons p rest _)).2⟩

/-- **`encode_any_order_denotes`** (the C07 statement for the generated sparse encoder): for EVERY
    lawful iteration order the bytes written parse, with the decoder written from the documentation,
    to well-formed bins blocks of the right side whose bins denote exactly the content `c`.
    Hypotheses as in the model's `RoundTrip.encodeStore_sparse`: `int32` keys, weights `w` such that
    `w` and `w + 1` are exactly representable (`WOK`). -/
theorem encode_any_order_denotes {g : SparseStore} {c : Content} (h : Rep g c) (fuel : Nat)
    (hf : 9 ≤ fuel) (ord : MapOrder) (hl : ord.Lawful) (b : List (BitVec 8)) (t : FlagType)
    (side : Side) (ht : t.byte.toNat = Wire.sideType side) (hk : Keys32 c) (hw : ∀ p ∈ c, WOK p.2) :
    ∃ bytes blocks, g.Encode fuel ord b t = .ok (b ++ bytes) ∧
      Wire.parseBlocks (nb bytes) = .ok blocks ∧
      (∀ blk ∈ blocks, blk.WF ∧ blk.FiniteWeights ∧ IsBins side blk) ∧
      Denotes (sideBins (Wire.interp blocks) side) c ∧
      Wire.contentOf (sideBins (Wire.interp blocks) side) = some c := by
  have hs := h.2.1
  have henc := encode_any_order h.repS fuel hf ord hl b t side ht (keyRange_of_keys32 hk)
  by_cases hne : c = []
  · rw [if_pos hne] at henc
    refine ⟨_, [], henc, rfl, by simp, ?_, ?_⟩
    · rw [hne, RoundTrip.sideBins_nil]; exact Denotes.nil
    · rw [hne, RoundTrip.sideBins_nil]; rfl
  · rw [if_neg hne] at henc
    have hperm := mrange_perm ord hl c hs
    obtain ⟨b1, b2, b3⟩ := RoundTrip.deltasCounts_block side (mrange ord c)
      (by rw [hperm.length_eq]; exact RoundTrip.length_lt_of_keys32 c hs hk)
      (fun p hp => hk p (hperm.mem_iff.1 hp)) (fun p hp => hw p (hperm.mem_iff.1 hp))
    have hden : Denotes (sideBins (Wire.interp [.bins side (.deltasCounts (deltaRec 0 (mrange ord c)))]) side) c := by
      rw [b3]
      exact ⟨mrange ord c, rfl, fun q hq => (h.2.2 q (hperm.mem_iff.1 hq)).le, perm_lookup hperm⟩
    refine ⟨_, _, henc, ?_, ?_, hden, hden.contentOf h.2⟩
    · have hbytes : ∀ x ∈ Wire.encBlocks [.bins side (.deltasCounts (deltaRec 0 (mrange ord c)))], x < 256 := by
        intro x hx
        simp only [Wire.encBlocks, List.flatMap_cons, List.flatMap_nil, List.append_nil] at hx
        exact bins_block_bytes side _ x hx
      rw [nb_bn _ hbytes]
      exact Wire.parseBlocks_encBlocks _ (by
        intro blk hb
        rw [List.mem_singleton] at hb
        subst hb; exact b1)
    · intro blk hb
      rw [List.mem_singleton] at hb
      subst hb
      exact ⟨b1, b2, _, rfl⟩

/-! ### 12. kernel-checked examples: the order matters for the bytes; the key-range hypotheses are needed -/

def exStore : SparseStore := (NewSparseStore.AddWithCount 3 1).AddWithCount 7 2

def okBytes : Res (List (BitVec 8)) → List Nat
  | .ok l => nb l
  | _ => []

example : exStore.counts = [(3, 1), (7, 2)] := by decide +kernel
example : okBytes (exStore.Encode 9 MapOrder.ascending [] FlagTypePositiveStore) = [5, 2, 6, 2, 8, 3] := by
  decide +kernel
example : okBytes (exStore.Encode 9 descending [] FlagTypePositiveStore) = [5, 2, 14, 3, 7, 2] := by
  decide +kernel
example : (Sketch.encodeStore (.sp exStore.counts) .pos).map (fun r => Wire.encBlocks r.2)
    = some [5, 2, 6, 2, 8, 3] := by decide +kernel
-- the descending bytes parse to a block with a NEGATIVE delta: a valid encoding of the same content
example : Wire.parseBlocks [5, 2, 14, 3, 7, 2]
    = .ok [.bins .pos (.deltasCounts [(7, 0x4008000000000000), (-4, 0x4000000000000000)])] := by
  decide +kernel

-- outside the key range (`GoSem`'s `int` is unbounded; no Go `int` is): the scans start from
-- `minInt` / `maxInt` and never see a key beyond them
example : (⟨[(-9223372036854775809, 1)]⟩ : SparseStore).MaxIndex 0 MapOrder.ascending
    = .ok (-9223372036854775808, GoErr.nil) := by rfl
example : (Store.sp [(-9223372036854775809, 1)]).maxIndex? = some (-9223372036854775809) := by rfl
example : (⟨[(9223372036854775808, 1)]⟩ : SparseStore).MinIndex 0 MapOrder.ascending
    = .ok (9223372036854775807, GoErr.nil) := by rfl
example : (Store.sp [(9223372036854775808, 1)]).minIndex? = some 9223372036854775808 := by rfl

end DDS.GenSparse
