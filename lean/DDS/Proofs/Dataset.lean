/-
  DDS.Proofs.Dataset — lemmas about the in-memory ground-truth helper `DDS.Dataset`
  (`dataset/dataset.go`): the invariant, sorting, the float rank, observational equality.
-/
import DDS.Proofs.Num
import DDS.Model.Dataset

set_option linter.unusedVariables false

namespace DDS
namespace Dataset

/-! ## definitions used by the statements -/

/-- `Add` every element of a list to a fresh dataset -/
def ofList (xs : List Rat) : Dataset := xs.foldl Dataset.add Dataset.new

/-- the values in ascending order (what `sort()` leaves in the slice) -/
def sortedVals (l : List Rat) : List Rat := l.mergeSort (fun a b => decide (a ≤ b))

/-- `Count` is the number of values, and the sort flag does not lie -/
def Inv (d : Dataset) : Prop :=
  d.count = .fin (d.values.length : Rat) ∧ (d.sorted = true → d.values.Pairwise (· ≤ ·))

/-- two datasets no sequence of calls can tell apart: same multiset of values, same `Count`,
    honest sort flags -/
def ObsEq (a b : Dataset) : Prop :=
  a.values.Perm b.values ∧ a.count = b.count ∧
    (a.sorted = true → a.values.Pairwise (· ≤ ·)) ∧ (b.sorted = true → b.values.Pairwise (· ≤ ·))

/-- the calls of the API (except `Sum`, which is a float fold in insertion order) -/
inductive Op where
  | add (v : Rat)
  | lower (q : F64)
  | upper (q : F64)
  | min
  | max
  | merge (o : Dataset)

/-- one call: the new state and the answer (if the call has one) -/
def step (d : Dataset) : Op → Dataset × Option QRes
  | .add v => (d.add v, none)
  | .lower q => ((d.lowerQuantile q).1, some (d.lowerQuantile q).2)
  | .upper q => ((d.upperQuantile q).1, some (d.upperQuantile q).2)
  | .min => (d.min.1, some d.min.2)
  | .max => (d.max.1, some d.max.2)
  | .merge o => (d.merge o, none)

/-- a sequence of calls: final state and the answers in order -/
def run (d : Dataset) : List Op → Dataset × List (Option QRes)
  | [] => (d, [])
  | op :: ops => ((run (step d op).1 ops).1, (step d op).2 :: (run (step d op).1 ops).2)

/-- `Count` after `n` increments -/
def addN (c : F64) : Nat → F64
  | 0 => c
  | n + 1 => addN (F64.add c F64.one) n

/-! ## sorting -/

theorem leB_trans (a b c : Rat) :
    decide (a ≤ b) = true → decide (b ≤ c) = true → decide (a ≤ c) = true := by
  simp only [decide_eq_true_eq]; exact le_trans

theorem leB_total (a b : Rat) : (decide (a ≤ b) || decide (b ≤ a)) = true := by
  simp only [Bool.or_eq_true, decide_eq_true_eq]; exact le_total a b

theorem sortedVals_pairwise (l : List Rat) : (sortedVals l).Pairwise (· ≤ ·) := by
  have := List.pairwise_mergeSort (le := fun a b : Rat => decide (a ≤ b)) leB_trans leB_total l
  simpa [sortedVals] using this

theorem sortedVals_perm (l : List Rat) : (sortedVals l).Perm l := List.mergeSort_perm _ _

theorem sortedVals_length (l : List Rat) : (sortedVals l).length = l.length :=
  (sortedVals_perm l).length_eq

theorem sortedVals_of_pairwise {l : List Rat} (h : l.Pairwise (· ≤ ·)) : sortedVals l = l :=
  List.mergeSort_of_pairwise (by simpa using h)

theorem pairwise_perm_eq {l₁ l₂ : List Rat} (h1 : l₁.Pairwise (· ≤ ·)) (h2 : l₂.Pairwise (· ≤ ·))
    (hp : l₁.Perm l₂) : l₁ = l₂ :=
  List.Perm.eq_of_pairwise (fun a b _ _ hab hba => le_antisymm hab hba) h1 h2 hp

/-- the sorted slice depends on the multiset of values only -/
theorem sortedVals_congr {l₁ l₂ : List Rat} (hp : l₁.Perm l₂) : sortedVals l₁ = sortedVals l₂ :=
  pairwise_perm_eq (sortedVals_pairwise _) (sortedVals_pairwise _)
    ((sortedVals_perm l₁).trans (hp.trans (sortedVals_perm l₂).symm))

theorem sortedVals_idem (l : List Rat) : sortedVals (sortedVals l) = sortedVals l :=
  sortedVals_of_pairwise (sortedVals_pairwise l)

theorem pairwise_getElem_le {l : List Rat} (h : l.Pairwise (· ≤ ·)) {i j : Nat} (hij : i ≤ j)
    (hj : j < l.length) : l[i]'(by omega) ≤ l[j] := by
  rcases Nat.lt_or_eq_of_le hij with hlt | rfl
  · exact List.pairwise_iff_getElem.mp h i j (by omega) hj hlt
  · exact le_refl _

theorem sort_count (d : Dataset) : d.sort.count = d.count := by
  unfold sort; split <;> rfl

theorem sort_sorted (d : Dataset) : d.sort.sorted = true := by
  unfold sort; split
  · assumption
  · rfl

theorem sort_values (d : Dataset) :
    d.sort.values = if d.sorted then d.values else sortedVals d.values := by
  unfold sort; split <;> rfl

theorem sort_of_sorted {d : Dataset} (h : d.sorted = true) : d.sort = d := by
  unfold sort; rw [if_pos h]

/-- with an honest flag, `sort()` leaves the ascending arrangement of the values -/
theorem sort_values_of_honest {d : Dataset} (h : d.sorted = true → d.values.Pairwise (· ≤ ·)) :
    d.sort.values = sortedVals d.values := by
  rw [sort_values]
  split
  · rename_i hs; exact (sortedVals_of_pairwise (h hs)).symm
  · rfl

theorem sort_eq_of_honest {d : Dataset} (h : d.sorted = true → d.values.Pairwise (· ≤ ·)) :
    d.sort = { values := sortedVals d.values, count := d.count, sorted := true } := by
  have h1 := sort_values_of_honest h
  have h2 := sort_count d
  have h3 := sort_sorted d
  cases hd : d.sort
  simp only [hd] at h1 h2 h3
  subst h1 h2 h3; rfl

theorem sort_values_pairwise (d : Dataset) (h : d.sorted = true → d.values.Pairwise (· ≤ ·)) :
    d.sort.values.Pairwise (· ≤ ·) := by
  rw [sort_values_of_honest h]; exact sortedVals_pairwise _

theorem sort_values_perm (d : Dataset) : d.sort.values.Perm d.values := by
  rw [sort_values]; split
  · exact List.Perm.refl _
  · exact sortedVals_perm _

theorem rank_sort (d : Dataset) (q : F64) : d.sort.rank q = d.rank q := by
  unfold rank; rw [sort_count]

theorem rejects_sort (d : Dataset) (q : F64) : d.sort.rejects q = d.rejects q := by
  unfold rejects; rw [sort_count]

/-! ## the invariant -/

theorem inv_new : Inv new := ⟨rfl, by intro h; cases h⟩

theorem count_add_nat (n : Nat) (hn : n + 1 ≤ 2 ^ 53) :
    F64.add (.fin (n : Rat)) F64.one = .fin ((n + 1 : Nat) : Rat) := by
  show F64.roundF64 ((n : Rat) + 1) = _
  have := F64.roundF64_nat (n + 1) hn
  rwa [Nat.cast_add, Nat.cast_one] at this ⊢

theorem inv_add {d : Dataset} (h : Inv d) (v : Rat) (hlen : d.values.length + 1 ≤ 2 ^ 53) :
    Inv (d.add v) := by
  refine ⟨?_, by intro hs; cases hs⟩
  show F64.add d.count F64.one = .fin ((d.values ++ [v]).length : Rat)
  rw [h.1, count_add_nat _ hlen]; simp

theorem inv_sort {d : Dataset} (h : Inv d) : Inv d.sort := by
  refine ⟨?_, fun _ => sort_values_pairwise d h.2⟩
  rw [sort_count, h.1, (sort_values_perm d).length_eq]

theorem values_foldl_add (l : List Rat) (d : Dataset) : (l.foldl add d).values = d.values ++ l := by
  induction l generalizing d with
  | nil => simp
  | cons x l ih => rw [List.foldl_cons, ih]; simp [add]

theorem count_foldl_add (l : List Rat) (d : Dataset) :
    (l.foldl add d).count = addN d.count l.length := by
  induction l generalizing d with
  | nil => rfl
  | cons x l ih => rw [List.foldl_cons, ih]; rfl

theorem sorted_foldl_add (l : List Rat) (d : Dataset) (hl : l ≠ []) :
    (l.foldl add d).sorted = false := by
  induction l generalizing d with
  | nil => exact absurd rfl hl
  | cons x l ih =>
    rw [List.foldl_cons]
    by_cases h : l = []
    · subst h; rfl
    · exact ih _ h

theorem inv_foldl_add (l : List Rat) {d : Dataset} (h : Inv d)
    (hlen : d.values.length + l.length ≤ 2 ^ 53) : Inv (l.foldl add d) := by
  induction l generalizing d with
  | nil => exact h
  | cons x l ih =>
    rw [List.foldl_cons]
    simp only [List.length_cons] at hlen
    apply ih (inv_add h x (by omega))
    simp only [add, List.length_append, List.length_cons, List.length_nil]; omega

theorem ofList_values (xs : List Rat) : (ofList xs).values = xs := by
  unfold ofList; rw [values_foldl_add]; rfl

theorem ofList_count (xs : List Rat) : (ofList xs).count = addN (.fin 0) xs.length := by
  unfold ofList; rw [count_foldl_add]; rfl

theorem ofList_sorted (xs : List Rat) : (ofList xs).sorted = false := by
  by_cases h : xs = []
  · subst h; rfl
  · exact sorted_foldl_add xs _ h

theorem inv_ofList (xs : List Rat) (h : xs.length ≤ 2 ^ 53) : Inv (ofList xs) :=
  inv_foldl_add xs inv_new (by simpa [new] using h)

theorem merge_values (d o : Dataset) : (d.merge o).values = d.values ++ o.values :=
  values_foldl_add _ _

theorem inv_merge {d : Dataset} (h : Inv d) (o : Dataset)
    (hlen : d.values.length + o.values.length ≤ 2 ^ 53) : Inv (d.merge o) :=
  inv_foldl_add _ h hlen

/-! ## the guard -/

theorem rejects_fin (d : Dataset) (n : Nat) (hc : d.count = .fin (n : Rat)) (q : Rat) :
    d.rejects (.fin q) = false ↔ 0 ≤ q ∧ q ≤ 1 ∧ 0 < n := by
  unfold rejects
  rw [hc]
  simp only [F64.isNaN, F64.lt, F64.gt, F64.eq, Bool.false_or, Bool.or_eq_false_iff,
    decide_eq_false_iff_not, not_lt, beq_eq_false_iff_ne, ne_eq, Nat.cast_eq_zero]
  constructor
  · rintro ⟨⟨h1, h2⟩, h3⟩; exact ⟨h1, h2, Nat.pos_of_ne_zero h3⟩
  · rintro ⟨h1, h2, h3⟩; exact ⟨⟨h1, h2⟩, Nat.pos_iff_ne_zero.mp h3⟩

theorem rejects_nonfin (d : Dataset) (q : F64) (hq : ∀ r, q ≠ .fin r) : d.rejects q = true := by
  unfold rejects
  cases q with
  | fin r => exact absurd rfl (hq r)
  | pinf => simp [F64.isNaN, F64.lt, F64.gt]
  | ninf => simp [F64.isNaN, F64.lt, F64.gt]
  | nan => simp [F64.isNaN]

theorem lowerQuantile_rejected (d : Dataset) (q : F64) (h : d.rejects q = true) :
    d.lowerQuantile q = (d, .nan) := by
  unfold lowerQuantile; rw [if_pos h]

theorem upperQuantile_rejected (d : Dataset) (q : F64) (h : d.rejects q = true) :
    d.upperQuantile q = (d, .nan) := by
  unfold upperQuantile; rw [if_pos h]

theorem lowerQuantile_of_rank (d : Dataset) (q : F64) (r : Rat) (hrej : d.rejects q = false)
    (hr : d.rank q = .fin r) :
    d.lowerQuantile q =
      (d.sort, match at? d.sort.values r.floor with | some v => .val v | none => .panic) := by
  unfold lowerQuantile
  rw [if_neg (by rw [hrej]; exact Bool.false_ne_true)]
  simp only [rank_sort, hr]
  rfl

theorem upperQuantile_of_rank (d : Dataset) (q : F64) (r : Rat) (hrej : d.rejects q = false)
    (hr : d.rank q = .fin r) :
    d.upperQuantile q =
      (d.sort, match at? d.sort.values r.ceil with | some v => .val v | none => .panic) := by
  unfold upperQuantile
  rw [if_neg (by rw [hrej]; exact Bool.false_ne_true)]
  simp only [rank_sort, hr]
  rfl

theorem at?_of_lt (l : List Rat) (i : Int) (h0 : 0 ≤ i) (h1 : i.toNat < l.length) :
    at? l i = some (l[i.toNat]!) := by
  unfold at?
  rw [if_pos h0, List.getElem?_eq_getElem h1, getElem!_pos l _ h1]

/-! ## the float rank -/

/-- `q * (Count - 1)` in float arithmetic lies between the neighbouring integers of the exact
    product -/
theorem rank_spec (d : Dataset) (n : Nat) (hc : d.count = .fin (n : Rat)) (hn : 0 < n)
    (hlen : n ≤ 2 ^ 53) (q : Rat) (hq0 : 0 ≤ q) (hq1 : q ≤ 1) :
    ∃ r : Rat, d.rank (.fin q) = .fin r ∧
      ((⌊q * ((n : Rat) - 1)⌋ : Int) : Rat) ≤ r ∧ r ≤ ((⌈q * ((n : Rat) - 1)⌉ : Int) : Rat) := by
  have hsub : F64.sub (.fin (n : Rat)) F64.one = .fin (((n : Int) - 1 : Int) : Rat) := by
    show F64.roundF64 ((n : Rat) + -(1 : Rat)) = _
    have : (n : Rat) + -(1 : Rat) = (((n : Int) - 1 : Int) : Rat) := by push_cast; ring
    rw [this]
    exact F64.roundF64_int' _ (by omega) (by omega)
  obtain ⟨r, hr, h1, h2⟩ :=
    F64.mul_between_floor_ceil q ((n : Int) - 1) hq0 hq1 (by omega) (by omega)
  refine ⟨r, ?_, ?_, ?_⟩
  · unfold rank; rw [hc, hsub]; exact hr
  · have : (((n : Int) - 1 : Int) : Rat) = (n : Rat) - 1 := by push_cast; ring
    rwa [this] at h1
  · have : (((n : Int) - 1 : Int) : Rat) = (n : Rat) - 1 := by push_cast; ring
    rwa [this] at h2

/-- floor and ceiling of a number squeezed between `⌊t⌋` and `⌈t⌉`, `0 ≤ t ≤ m` -/
theorem squeeze_floor_ceil (t r : Rat) (m : Int) (ht0 : 0 ≤ t) (htm : t ≤ (m : Rat))
    (h1 : ((⌊t⌋ : Int) : Rat) ≤ r) (h2 : r ≤ ((⌈t⌉ : Int) : Rat)) :
    0 ≤ ⌊r⌋ ∧ ⌊r⌋ ≤ ⌈r⌉ ∧ ⌈r⌉ ≤ m ∧ (⌊r⌋ = ⌊t⌋ ∨ ⌊r⌋ = ⌈t⌉) ∧ (⌈r⌉ = ⌊t⌋ ∨ ⌈r⌉ = ⌈t⌉) := by
  have a1 : ⌊t⌋ ≤ ⌊r⌋ := Int.le_floor.mpr h1
  have a2 : ⌊r⌋ ≤ ⌈t⌉ := by
    have : ((⌊r⌋ : Int) : Rat) ≤ ((⌈t⌉ : Int) : Rat) := le_trans (Int.floor_le r) h2
    exact_mod_cast this
  have a3 : ⌈t⌉ ≤ ⌊t⌋ + 1 := Int.ceil_le_floor_add_one t
  have a4 : ⌊t⌋ ≤ ⌈r⌉ := by
    have : ((⌊t⌋ : Int) : Rat) ≤ ((⌈r⌉ : Int) : Rat) := le_trans h1 (Int.le_ceil r)
    exact_mod_cast this
  have a5 : ⌈r⌉ ≤ ⌈t⌉ := Int.ceil_le.mpr h2
  have a6 : 0 ≤ ⌊t⌋ := Int.floor_nonneg.mpr ht0
  have a7 : ⌈t⌉ ≤ m := Int.ceil_le.mpr htm
  have a8 : ⌊r⌋ ≤ ⌈r⌉ := Int.floor_le_ceil r
  refine ⟨by omega, a8, by omega, by omega, by omega⟩

/-- both quantile queries, with the float rank made explicit -/
theorem quantile_core (d : Dataset) (h : Inv d) (hn : 0 < d.values.length)
    (hlen : d.values.length ≤ 2 ^ 53) (q : Rat) (hq0 : 0 ≤ q) (hq1 : q ≤ 1) :
    ∃ r : Rat, d.rank (.fin q) = .fin r ∧
      ((⌊q * ((d.values.length : Rat) - 1)⌋ : Int) : Rat) ≤ r ∧
      r ≤ ((⌈q * ((d.values.length : Rat) - 1)⌉ : Int) : Rat) ∧
      0 ≤ ⌊r⌋ ∧ ⌊r⌋ ≤ ⌈r⌉ ∧ ⌈r⌉.toNat < d.values.length ∧
      d.lowerQuantile (.fin q) = (d.sort, .val ((sortedVals d.values)[⌊r⌋.toNat]!)) ∧
      d.upperQuantile (.fin q) = (d.sort, .val ((sortedVals d.values)[⌈r⌉.toNat]!)) := by
  obtain ⟨r, hr, h1, h2⟩ := rank_spec d _ h.1 hn hlen q hq0 hq1
  have hnr : (1 : Rat) ≤ (d.values.length : Rat) := by exact_mod_cast hn
  have ht0 : 0 ≤ q * ((d.values.length : Rat) - 1) := mul_nonneg hq0 (by linarith)
  have htm : q * ((d.values.length : Rat) - 1) ≤ (((d.values.length : Int) - 1 : Int) : Rat) := by
    push_cast
    calc q * ((d.values.length : Rat) - 1) ≤ 1 * ((d.values.length : Rat) - 1) :=
          mul_le_mul_of_nonneg_right hq1 (by linarith)
      _ = _ := one_mul _
  obtain ⟨b1, b2, b3, b4, b5⟩ := squeeze_floor_ceil _ r _ ht0 htm h1 h2
  have hrej : d.rejects (.fin q) = false := (rejects_fin d _ h.1 q).mpr ⟨hq0, hq1, hn⟩
  have hsv : d.sort.values = sortedVals d.values := sort_values_of_honest h.2
  have hlen' : (sortedVals d.values).length = d.values.length := sortedVals_length _
  refine ⟨r, hr, h1, h2, b1, b2, by omega, ?_, ?_⟩
  · rw [lowerQuantile_of_rank d _ r hrej hr, hsv]
    have : at? (sortedVals d.values) r.floor = some ((sortedVals d.values)[⌊r⌋.toNat]!) :=
      at?_of_lt _ _ b1 (by rw [hlen']; show (⌊r⌋).toNat < _; omega)
    rw [this]
  · rw [upperQuantile_of_rank d _ r hrej hr, hsv, F64.rat_ceil_eq]
    have : at? (sortedVals d.values) ⌈r⌉ = some ((sortedVals d.values)[⌈r⌉.toNat]!) :=
      at?_of_lt _ _ (by omega) (by rw [hlen']; omega)
    rw [this]

/-! ## minimum and maximum -/

theorem min_eq (d : Dataset) :
    d.min = (d.sort, match d.sort.values.head? with | some v => .val v | none => .panic) := rfl

theorem max_eq (d : Dataset) :
    d.max = (d.sort, match d.sort.values.getLast? with | some v => .val v | none => .panic) := rfl

theorem min_core (d : Dataset) (h : d.sorted = true → d.values.Pairwise (· ≤ ·))
    (hn : 0 < d.values.length) :
    ∃ m, d.min = (d.sort, .val m) ∧ m ∈ d.values ∧ ∀ x ∈ d.values, m ≤ x := by
  rw [min_eq, sort_values_of_honest h]
  have hp := sortedVals_perm d.values
  have hs := sortedVals_pairwise d.values
  have hl := sortedVals_length d.values
  cases hsv : sortedVals d.values with
  | nil => rw [hsv] at hl; simp at hl; omega
  | cons a t =>
    rw [hsv] at hp hs
    refine ⟨a, rfl, hp.mem_iff.mp (List.mem_cons_self ..), ?_⟩
    intro x hx
    rcases List.mem_cons.mp (hp.mem_iff.mpr hx) with rfl | hx'
    · exact le_refl _
    · exact (List.pairwise_cons.mp hs).1 x hx'

theorem max_core (d : Dataset) (h : d.sorted = true → d.values.Pairwise (· ≤ ·))
    (hn : 0 < d.values.length) :
    ∃ m, d.max = (d.sort, .val m) ∧ m ∈ d.values ∧ ∀ x ∈ d.values, x ≤ m := by
  rw [max_eq, sort_values_of_honest h]
  have hp := sortedVals_perm d.values
  have hs := sortedVals_pairwise d.values
  have hl := sortedVals_length d.values
  rcases List.eq_nil_or_concat (sortedVals d.values) with hsv | ⟨t, a, hsv⟩
  · rw [hsv] at hl; simp at hl; omega
  · rw [List.concat_eq_append] at hsv
    rw [hsv] at hp hs ⊢
    refine ⟨a, by simp, hp.mem_iff.mp (by simp), ?_⟩
    intro x hx
    rcases List.mem_append.mp (hp.mem_iff.mpr hx) with hx' | hx'
    · exact (List.pairwise_append.mp hs).2.2 x hx' a (by simp)
    · simp at hx'; rw [hx']

theorem min_empty (d : Dataset) (h : d.values = []) : d.min.2 = .panic := by
  rw [min_eq]
  have : d.sort.values = [] := List.Perm.eq_nil (h ▸ sort_values_perm d)
  rw [this]; rfl

theorem max_empty (d : Dataset) (h : d.values = []) : d.max.2 = .panic := by
  rw [max_eq]
  have : d.sort.values = [] := List.Perm.eq_nil (h ▸ sort_values_perm d)
  rw [this]; rfl

/-! ## observational equality -/

theorem ObsEq.refl' {d : Dataset} (h : d.sorted = true → d.values.Pairwise (· ≤ ·)) : ObsEq d d :=
  ⟨List.Perm.refl _, rfl, h, h⟩

theorem ObsEq.symm {a b : Dataset} (h : ObsEq a b) : ObsEq b a :=
  ⟨h.1.symm, h.2.1.symm, h.2.2.2, h.2.2.1⟩

theorem ObsEq.trans {a b c : Dataset} (h1 : ObsEq a b) (h2 : ObsEq b c) : ObsEq a c :=
  ⟨h1.1.trans h2.1, h1.2.1.trans h2.2.1, h1.2.2.1, h2.2.2.2⟩

theorem ObsEq.sort_eq {a b : Dataset} (h : ObsEq a b) : a.sort = b.sort := by
  rw [sort_eq_of_honest h.2.2.1, sort_eq_of_honest h.2.2.2, sortedVals_congr h.1, h.2.1]

theorem obsEq_sort_self (d : Dataset) (h : d.sorted = true → d.values.Pairwise (· ≤ ·)) :
    ObsEq d.sort d.sort :=
  ObsEq.refl' (fun _ => sort_values_pairwise d h)

theorem ObsEq.sort_left {d : Dataset} (h : d.sorted = true → d.values.Pairwise (· ≤ ·)) :
    ObsEq d.sort d :=
  ⟨sort_values_perm d, sort_count d, fun _ => sort_values_pairwise d h, h⟩

theorem ObsEq.rejects_eq {a b : Dataset} (h : ObsEq a b) (q : F64) : a.rejects q = b.rejects q := by
  unfold rejects; rw [h.2.1]

theorem lowerQuantile_fst (d : Dataset) (q : F64) (h : d.rejects q = false) :
    (d.lowerQuantile q).1 = d.sort := by
  unfold lowerQuantile
  rw [if_neg (by rw [h]; exact Bool.false_ne_true)]
  dsimp only
  split <;> rfl

theorem upperQuantile_fst (d : Dataset) (q : F64) (h : d.rejects q = false) :
    (d.upperQuantile q).1 = d.sort := by
  unfold upperQuantile
  rw [if_neg (by rw [h]; exact Bool.false_ne_true)]
  dsimp only
  split <;> rfl

/-- an accepted query is a query on the sorted dataset -/
theorem lowerQuantile_sort (d : Dataset) (q : F64) (h : d.rejects q = false) :
    d.lowerQuantile q = d.sort.lowerQuantile q := by
  have h' : ¬ d.rejects q = true := by rw [h]; exact Bool.false_ne_true
  have h'' : ¬ d.sort.rejects q = true := by rw [rejects_sort]; exact h'
  unfold lowerQuantile
  rw [if_neg h', if_neg h'', sort_of_sorted (sort_sorted d)]

theorem upperQuantile_sort (d : Dataset) (q : F64) (h : d.rejects q = false) :
    d.upperQuantile q = d.sort.upperQuantile q := by
  have h' : ¬ d.rejects q = true := by rw [h]; exact Bool.false_ne_true
  have h'' : ¬ d.sort.rejects q = true := by rw [rejects_sort]; exact h'
  unfold upperQuantile
  rw [if_neg h', if_neg h'', sort_of_sorted (sort_sorted d)]

theorem ObsEq.lower {a b : Dataset} (h : ObsEq a b) (q : F64) :
    (a.lowerQuantile q).2 = (b.lowerQuantile q).2 ∧
      ObsEq (a.lowerQuantile q).1 (b.lowerQuantile q).1 := by
  have hr := h.rejects_eq q
  cases hrej : a.rejects q with
  | true =>
    rw [lowerQuantile_rejected a q hrej, lowerQuantile_rejected b q (hr ▸ hrej)]
    exact ⟨rfl, h⟩
  | false =>
    have hb : b.rejects q = false := hr ▸ hrej
    have : a.lowerQuantile q = b.lowerQuantile q := by
      rw [lowerQuantile_sort a q hrej, lowerQuantile_sort b q hb, h.sort_eq]
    refine ⟨by rw [this], ?_⟩
    rw [← this, lowerQuantile_fst a q hrej]
    exact obsEq_sort_self a h.2.2.1

theorem ObsEq.upper {a b : Dataset} (h : ObsEq a b) (q : F64) :
    (a.upperQuantile q).2 = (b.upperQuantile q).2 ∧
      ObsEq (a.upperQuantile q).1 (b.upperQuantile q).1 := by
  have hr := h.rejects_eq q
  cases hrej : a.rejects q with
  | true =>
    rw [upperQuantile_rejected a q hrej, upperQuantile_rejected b q (hr ▸ hrej)]
    exact ⟨rfl, h⟩
  | false =>
    have hb : b.rejects q = false := hr ▸ hrej
    have : a.upperQuantile q = b.upperQuantile q := by
      rw [upperQuantile_sort a q hrej, upperQuantile_sort b q hb, h.sort_eq]
    refine ⟨by rw [this], ?_⟩
    rw [← this, upperQuantile_fst a q hrej]
    exact obsEq_sort_self a h.2.2.1

theorem ObsEq.min {a b : Dataset} (h : ObsEq a b) :
    a.min.2 = b.min.2 ∧ ObsEq a.min.1 b.min.1 := by
  rw [min_eq, min_eq, ← h.sort_eq]
  exact ⟨rfl, obsEq_sort_self a h.2.2.1⟩

theorem ObsEq.max {a b : Dataset} (h : ObsEq a b) :
    a.max.2 = b.max.2 ∧ ObsEq a.max.1 b.max.1 := by
  rw [max_eq, max_eq, ← h.sort_eq]
  exact ⟨rfl, obsEq_sort_self a h.2.2.1⟩

theorem ObsEq.add {a b : Dataset} (h : ObsEq a b) (v : Rat) : ObsEq (a.add v) (b.add v) := by
  refine ⟨?_, ?_, ?_, ?_⟩
  · show (a.values ++ [v]).Perm (b.values ++ [v])
    exact h.1.append_right _
  · show F64.add a.count F64.one = F64.add b.count F64.one
    rw [h.2.1]
  · intro hs; cases hs
  · intro hs; cases hs

theorem ObsEq.foldl_add {a b : Dataset} (h : ObsEq a b) (l : List Rat) :
    ObsEq (l.foldl Dataset.add a) (l.foldl Dataset.add b) := by
  induction l generalizing a b with
  | nil => exact h
  | cons x l ih => exact ih (h.add x)

theorem ObsEq.merge {a b : Dataset} (h : ObsEq a b) (o : Dataset) :
    ObsEq (a.merge o) (b.merge o) := h.foldl_add _

theorem ObsEq.step {a b : Dataset} (h : ObsEq a b) (op : Op) :
    (Dataset.step a op).2 = (Dataset.step b op).2 ∧ ObsEq (Dataset.step a op).1 (Dataset.step b op).1 := by
  cases op with
  | add v => exact ⟨rfl, h.add v⟩
  | lower q => exact ⟨congrArg some (h.lower q).1, (h.lower q).2⟩
  | upper q => exact ⟨congrArg some (h.upper q).1, (h.upper q).2⟩
  | min => exact ⟨congrArg some h.min.1, h.min.2⟩
  | max => exact ⟨congrArg some h.max.1, h.max.2⟩
  | merge o => exact ⟨rfl, h.merge o⟩

/-- observationally equal datasets give the same answers to every sequence of calls -/
theorem ObsEq.run {a b : Dataset} (h : ObsEq a b) (ops : List Op) :
    (Dataset.run a ops).2 = (Dataset.run b ops).2 ∧ ObsEq (Dataset.run a ops).1 (Dataset.run b ops).1 := by
  induction ops generalizing a b with
  | nil => exact ⟨rfl, h⟩
  | cons op ops ih =>
    obtain ⟨h1, h2⟩ := h.step op
    obtain ⟨h3, h4⟩ := ih h2
    refine ⟨?_, h4⟩
    show (Dataset.step a op).2 :: _ = (Dataset.step b op).2 :: _
    rw [h1, h3]

theorem obsEq_ofList {xs ys : List Rat} (h : xs.Perm ys) : ObsEq (ofList xs) (ofList ys) := by
  refine ⟨?_, ?_, ?_, ?_⟩
  · rw [ofList_values, ofList_values]; exact h
  · rw [ofList_count, ofList_count, h.length_eq]
  · rw [ofList_sorted]; intro hs; cases hs
  · rw [ofList_sorted]; intro hs; cases hs

/-! ## further facts used by the property file -/

theorem lowerQuantile_fst_cases (d : Dataset) (q : F64) :
    (d.lowerQuantile q).1 = d ∨ (d.lowerQuantile q).1 = d.sort := by
  cases hrej : d.rejects q with
  | true => left; rw [lowerQuantile_rejected d q hrej]
  | false => right; exact lowerQuantile_fst d q hrej

theorem upperQuantile_fst_cases (d : Dataset) (q : F64) :
    (d.upperQuantile q).1 = d ∨ (d.upperQuantile q).1 = d.sort := by
  cases hrej : d.rejects q with
  | true => left; rw [upperQuantile_rejected d q hrej]
  | false => right; exact upperQuantile_fst d q hrej

/-- the rank is the float product of `q` and the exact `n - 1` -/
theorem rank_eq_mul (d : Dataset) (n : Nat) (hc : d.count = .fin (n : Rat)) (hn : 0 < n)
    (hlen : n ≤ 2 ^ 53) (q : F64) :
    d.rank q = F64.mul q (.fin ((n : Rat) - 1)) := by
  have hsub : F64.sub (.fin (n : Rat)) F64.one = .fin ((n : Rat) - 1) := by
    show F64.roundF64 ((n : Rat) + -(1 : Rat)) = _
    have : (n : Rat) + -(1 : Rat) = (((n : Int) - 1 : Int) : Rat) := by push_cast; ring
    rw [this, F64.roundF64_int' _ (by omega) (by omega)]
    push_cast; rfl
  unfold rank; rw [hc, hsub]

theorem addN_nat (k n : Nat) (h : k + n ≤ 2 ^ 53) :
    addN (.fin (k : Rat)) n = .fin ((k + n : Nat) : Rat) := by
  induction n generalizing k with
  | zero => rfl
  | succ n ih =>
    show addN (F64.add (.fin (k : Rat)) F64.one) n = _
    rw [count_add_nat k (by omega), ih (k + 1) (by omega)]
    congr 2; omega

/-! ## evaluating on concrete data (the kernel does not unfold `mergeSort`) -/

theorem sortedVals_eq_of {l s : List Rat} (hs : s.Pairwise (· ≤ ·)) (hp : s.Perm l) :
    sortedVals l = s :=
  pairwise_perm_eq (sortedVals_pairwise l) hs ((sortedVals_perm l).trans hp.symm)

theorem lowerQuantile_eval (d : Dataset) (h : d.sorted = true → d.values.Pairwise (· ≤ ·))
    (s : List Rat) (hs : s.Pairwise (· ≤ ·)) (hp : s.Perm d.values) (q : F64) (r v : Rat)
    (hrej : d.rejects q = false) (hr : d.rank q = .fin r) (hv : at? s r.floor = some v) :
    (d.lowerQuantile q).2 = .val v := by
  rw [lowerQuantile_of_rank d q r hrej hr, sort_values_of_honest h, sortedVals_eq_of hs hp, hv]

theorem upperQuantile_eval (d : Dataset) (h : d.sorted = true → d.values.Pairwise (· ≤ ·))
    (s : List Rat) (hs : s.Pairwise (· ≤ ·)) (hp : s.Perm d.values) (q : F64) (r v : Rat)
    (hrej : d.rejects q = false) (hr : d.rank q = .fin r) (hv : at? s r.ceil = some v) :
    (d.upperQuantile q).2 = .val v := by
  rw [upperQuantile_of_rank d q r hrej hr, sort_values_of_honest h, sortedVals_eq_of hs hp, hv]

end Dataset
end DDS
