/-
  DDS.Proofs.GenProtoSketch — the REGENERATED protobuf conversions
  (`DDS/Generated/CodeMappingProto.lean`, `CodeMappingFromProto.lean`, `CodeSketchProto.lean`, translated on every
  run from `ToProto` of the three mappings, `mapping.FromProto`, `DDSketch.ToProto` and
  `FromProtoWithStoreProvider`) against the hand-written protobuf model `DDS/Model/Proto.lean`.

  PART 1 — mappings.
  (a) for EVERY float type `F` with `[MOps F]` (nothing is assumed about the operations):
      `log_toProto / lin_toProto / cub_toProto` — the message is `(gamma, indexOffset, NONE | LINEAR | CUBIC)`;
      the decision table of `FromProto`, for every fuel (no loop, never `.panic`, never `.nofuel`):
        `FromProto_nil`          nil message                  → error "cannot create IndexMapping from nil …",
        `FromProto_none/_linear/_cubic`  tag 0 / 1 / 3        → the `…WithGamma(Gamma, IndexOffset)` constructor,
        `FromProto_unsupported`  any other tag (QUADRATIC = 2: `FromProto_quadratic`) → "interpolation not supported",
        `FromProto_*_gamma_le_one`  `Gamma <= 1`              → "Gamma must be greater than 1." (C13/C19);
      `ctor*_gamma/_indexOffset` — an accepted constructor stores its two arguments unchanged;
      round trip `log_roundtrip / lin_roundtrip / cub_roundtrip`: for `m` with `¬ m.gamma <= 1`,
        `FromProto (some (ToProto m))` is the constructor on `(m.gamma, m.indexOffset)`, error nil, SAME KIND;
      `log_roundtrip_ctor / …`: for every mapping the constructor itself built, `FromProto (some (ToProto m)) = m`
        exactly (all five fields), for every `F`.
  (b) over the real numbers (`DDS.Proofs.RealInst`, as `GenMapping` / `C03Gen`): `log_roundtrip_real / …` —
      `FromProto (some (ToProto (toGenLog ⟨.log, γ, o⟩))) = (toGenLog ⟨.log, γ, o⟩, nil)` for `1 < γ`, and
      `FromProto_*_real_err` for `γ ≤ 1`.
  (c) over the exact float model `F64`.  The project has no instance `MOps F64` (the transcendental functions are
      not modelled); the statements hold for EVERY instance `[MOps F64]` whose guard `gamma <= 1` is the model's
      (`LeOne`: `MOps.le x (MOps.ofInt 1) = F64.le x (.fin 1)`), nothing else is assumed.  `pbOfGo` projects a Go
      message to the model's `Proto.PbMapping` (bit patterns); `idOf` reads the identity `(kind, gamma,
      indexOffset)` off a result of `FromProto`.
        `log_toProto_model / …`: `pbOfGo (ToProto m) = Proto.mappingToProto (idLog m)`;
        `FromProto_model`: the generated `FromProto` and the model's `Proto.mappingFromProto` take the same branch
           on every message whose two floats survive `toBits/ofBits` (every Go float does): same refusal
           (`errOf`), or error nil and the identity of the result is the model's `MapId`.

  PART 2 — sketch level (`DDSketch.ToProto`, `FromProtoWithStoreProvider`; generic over the interfaces, the
  protobuf side of which are the classes `GoPb.MapPbI`, `GoPb.StorePbI`).
  * instances defined HERE from the model: `instMapPbI : MapPbI MapEnv` (`ToProto` = `Proto.mappingToProto` of the
    identity, embedded; `FromProto` = `Proto.mappingFromProto` on the projected message, the errors through `errOf`,
    the resulting object `envOf id` — defaults but the identity, the convention of `GenSketch.mapDecode`),
    `instStorePbI : StorePbI Store` (`Proto.storeToProto`, embedded; the empty message where the model panics).
    `goOfPb*` embed the model's messages (bit patterns) into the Go messages, `pb*OfGo` project back.
    `instance_FromProto_agrees / instance_ToProto_agrees`: these class methods agree with the REGENERATED
    `mapping.FromProto` / `ToProto` of Part 1 (same error, same identity; same message).
  * `ToProto_fields` (any instances): three non-nil sub-messages and the zero count.
    `ToProto_model`: `DDSketch.ToProto (toGen env s) = goOfPbSketch m` when `Proto.toProto s = some m`,
    `s.mapping = some env.id`, and `s.zero` survives `toBits/ofBits`; `ToProto_zero_bits` without that hypothesis.
  * `FromProto_eq` (any instances, any provider, oracle, fuel): provider, positive message, provider, negative
    message, mapping — `store.MergeWithProto` (generic, `GenProtoStore.mergeWithProto_eq_fold`) cannot fail, the
    only error is the one of `mapping.FromProto` (returned AFTER both stores are built, with the nil sketch), the
    only panic the provider's (`FromProto_panic`); no fuel is consumed.
  * `MergeWithProto_model`: the generic `MergeWithProto` on a store of the model (`instance : StoreI Store`) with the
    ASCENDING oracle = the model's `Proto.mergeWithProto` on the projected message, wherever the model answers
    `some` (message `WF`, floats surviving `toBits/ofBits`), every fuel.  The model enumerates `binCounts` by
    ascending key; Go's `range` order is unspecified: for another oracle the two stores hold the same bins
    (`Props/C09`, `Lift3`) but need not be the same structure — not claimed here.
  * `FromProto_sketch_model`: `FromProtoWithStoreProvider … pb (provider k)` against `Proto.fromProto k` on the
    projected message, under `MsgOK pb`: model `none` nothing claimed / model refusal `x` ⇒ `(nilSketch, errOf x)` /
    model `s` ⇒ `(toGen (envOf id) s, nil)`.  `exMsg_run`: a run through the `.ok` branch.
  * NIL SUB-MESSAGES.  `FromProto_nil_stores`: a nil `PositiveValues` / `NegativeValues` is skipped — no error, no
    panic, the store is the provider's fresh store; the model does the same (`modelSide k none`): NO disagreement.
    `FromProto_nil_mapping`: a nil `Mapping` is the error "cannot create IndexMapping from nil protobuf index
    mapping", model `.nilMapping`: no disagreement.  No fuel bound anywhere in this file (no `for` with a condition).
-/
import DDS.Generated.CodeMappingProto
import DDS.Generated.CodeMappingFromProto
import DDS.Generated.CodeSketchProto
import DDS.Proofs.GenMapping
import DDS.Proofs.GenMapId
import DDS.Proofs.GenSketch7
import DDS.Proofs.Proto
import DDS.Proofs.GenProtoStore

set_option linter.unusedVariables false

namespace DDS.GenProtoSketch

open DDS DDS.GoSem DDS.Gen.Mapping DDS.Gen.MappingProto DDS.Gen.MappingFromProto

/-! ## Part 1 (a): every `F` -/

section generic
variable {F : Type} [MOps F]

/-- Go error values of `mapping.FromProto` and of the constructors it calls -/
def errNilMapping : GoErr := GoErr.named "cannot create IndexMapping from nil protobuf index mapping"
def errInterpolation : GoErr := GoErr.named "interpolation not supported: %d"
def errGamma : GoErr := GoErr.named "Gamma must be greater than 1."

theorem log_toProto (m : LogarithmicMapping F) :
    LogarithmicMapping.ToProto m =
      { Gamma := m.gamma, IndexOffset := m.indexOffset, Interpolation := GoPb.IndexMapping_NONE } := rfl

theorem lin_toProto (m : LinearlyInterpolatedMapping F) :
    LinearlyInterpolatedMapping.ToProto m =
      { Gamma := m.gamma, IndexOffset := m.indexOffset, Interpolation := GoPb.IndexMapping_LINEAR } := rfl

theorem cub_toProto (m : CubicallyInterpolatedMapping F) :
    CubicallyInterpolatedMapping.ToProto m =
      { Gamma := m.gamma, IndexOffset := m.indexOffset, Interpolation := GoPb.IndexMapping_CUBIC } := rfl

/-! ### decision table of `FromProto` -/

/-- nil message: an error, the nil interface value; for every fuel -/
theorem FromProto_nil (fuel : Nat) :
    FromProto (F := F) fuel none = .ok (IndexMapping.nil, errNilMapping) := rfl

/-- tag NONE: `NewLogarithmicMappingWithGamma(m.Gamma, m.IndexOffset)` -/
theorem FromProto_none (fuel : Nat) (pm : GoPb.IndexMapping F) (h : pm.Interpolation = GoPb.IndexMapping_NONE) :
    FromProto fuel (some pm) =
      .ok (IndexMapping.LogarithmicMapping (NewLogarithmicMappingWithGamma pm.Gamma pm.IndexOffset).1,
           (NewLogarithmicMappingWithGamma pm.Gamma pm.IndexOffset).2) := by
  unfold FromProto
  simp [h, GoPb.IndexMapping_NONE]

/-- tag LINEAR: `NewLinearlyInterpolatedMappingWithGamma(m.Gamma, m.IndexOffset)` -/
theorem FromProto_linear (fuel : Nat) (pm : GoPb.IndexMapping F)
    (h : pm.Interpolation = GoPb.IndexMapping_LINEAR) :
    FromProto fuel (some pm) =
      .ok (IndexMapping.LinearlyInterpolatedMapping
             (NewLinearlyInterpolatedMappingWithGamma pm.Gamma pm.IndexOffset).1,
           (NewLinearlyInterpolatedMappingWithGamma pm.Gamma pm.IndexOffset).2) := by
  unfold FromProto
  simp [h, GoPb.IndexMapping_LINEAR]

/-- tag CUBIC: `NewCubicallyInterpolatedMappingWithGamma(m.Gamma, m.IndexOffset)` -/
theorem FromProto_cubic (fuel : Nat) (pm : GoPb.IndexMapping F)
    (h : pm.Interpolation = GoPb.IndexMapping_CUBIC) :
    FromProto fuel (some pm) =
      .ok (IndexMapping.CubicallyInterpolatedMapping
             (NewCubicallyInterpolatedMappingWithGamma pm.Gamma pm.IndexOffset).1,
           (NewCubicallyInterpolatedMappingWithGamma pm.Gamma pm.IndexOffset).2) := by
  unfold FromProto
  simp [h, GoPb.IndexMapping_CUBIC]

/-- every other tag (the enum is an `int32`: QUADRATIC and all undeclared values): an error, the nil interface
    value, whatever gamma and the offset are -/
theorem FromProto_unsupported (fuel : Nat) (pm : GoPb.IndexMapping F)
    (h0 : pm.Interpolation ≠ GoPb.IndexMapping_NONE) (h1 : pm.Interpolation ≠ GoPb.IndexMapping_LINEAR)
    (h3 : pm.Interpolation ≠ GoPb.IndexMapping_CUBIC) :
    FromProto fuel (some pm) = .ok (IndexMapping.nil, errInterpolation) := by
  unfold FromProto
  simp only [GoPb.IndexMapping_NONE, GoPb.IndexMapping_LINEAR, GoPb.IndexMapping_CUBIC] at h0 h1 h3
  simp [h0, h1, h3, errInterpolation]

/-- QUADRATIC is declared in the `.proto` file and refused -/
theorem FromProto_quadratic (fuel : Nat) (g o : F) :
    FromProto fuel (some { Gamma := g, IndexOffset := o, Interpolation := GoPb.IndexMapping_QUADRATIC }) =
      .ok (IndexMapping.nil, errInterpolation) :=
  FromProto_unsupported fuel _
    (show GoPb.IndexMapping_QUADRATIC ≠ GoPb.IndexMapping_NONE by decide)
    (show GoPb.IndexMapping_QUADRATIC ≠ GoPb.IndexMapping_LINEAR by decide)
    (show GoPb.IndexMapping_QUADRATIC ≠ GoPb.IndexMapping_CUBIC by decide)

/-- the five cases are exhaustive and exclusive: `FromProto` never panics and never runs out of fuel -/
theorem FromProto_total (fuel : Nat) (pm? : Option (GoPb.IndexMapping F)) :
    ∃ r e, FromProto fuel pm? = .ok (r, e) := by
  cases pm? with
  | none => exact ⟨_, _, FromProto_nil fuel⟩
  | some pm =>
    by_cases h0 : pm.Interpolation = GoPb.IndexMapping_NONE
    · exact ⟨_, _, FromProto_none fuel pm h0⟩
    by_cases h1 : pm.Interpolation = GoPb.IndexMapping_LINEAR
    · exact ⟨_, _, FromProto_linear fuel pm h1⟩
    by_cases h3 : pm.Interpolation = GoPb.IndexMapping_CUBIC
    · exact ⟨_, _, FromProto_cubic fuel pm h3⟩
    exact ⟨_, _, FromProto_unsupported fuel pm h0 h1 h3⟩

/-- the fuel argument is not used -/
theorem FromProto_fuel (fuel fuel' : Nat) (pm? : Option (GoPb.IndexMapping F)) :
    FromProto fuel pm? = FromProto fuel' pm? := rfl

/-! ### the `…WithGamma` constructors: refusal, and what an accepted call stores -/

theorem ctorLog_err (g o : F) (h : MOps.le g (MOps.ofInt 1 : F) = true) :
    (NewLogarithmicMappingWithGamma g o).2 = errGamma := by
  unfold NewLogarithmicMappingWithGamma; rw [if_pos h]; rfl

theorem ctorLin_err (g o : F) (h : MOps.le g (MOps.ofInt 1 : F) = true) :
    (NewLinearlyInterpolatedMappingWithGamma g o).2 = errGamma := by
  unfold NewLinearlyInterpolatedMappingWithGamma; rw [if_pos h]; rfl

theorem ctorCub_err (g o : F) (h : MOps.le g (MOps.ofInt 1 : F) = true) :
    (NewCubicallyInterpolatedMappingWithGamma g o).2 = errGamma := by
  unfold NewCubicallyInterpolatedMappingWithGamma; rw [if_pos h]; rfl

theorem ctorLog_ok (g o : F) (h : MOps.le g (MOps.ofInt 1 : F) = false) :
    (NewLogarithmicMappingWithGamma g o).2 = GoErr.nil ∧
    (NewLogarithmicMappingWithGamma g o).1.gamma = g ∧
    (NewLogarithmicMappingWithGamma g o).1.indexOffset = o := by
  unfold NewLogarithmicMappingWithGamma
  rw [if_neg (by simp [h])]
  exact ⟨rfl, rfl, rfl⟩

theorem ctorLin_ok (g o : F) (h : MOps.le g (MOps.ofInt 1 : F) = false) :
    (NewLinearlyInterpolatedMappingWithGamma g o).2 = GoErr.nil ∧
    (NewLinearlyInterpolatedMappingWithGamma g o).1.gamma = g ∧
    (NewLinearlyInterpolatedMappingWithGamma g o).1.indexOffset = o := by
  unfold NewLinearlyInterpolatedMappingWithGamma
  rw [if_neg (by simp [h])]
  exact ⟨rfl, rfl, rfl⟩

theorem ctorCub_ok (g o : F) (h : MOps.le g (MOps.ofInt 1 : F) = false) :
    (NewCubicallyInterpolatedMappingWithGamma g o).2 = GoErr.nil ∧
    (NewCubicallyInterpolatedMappingWithGamma g o).1.gamma = g ∧
    (NewCubicallyInterpolatedMappingWithGamma g o).1.indexOffset = o := by
  unfold NewCubicallyInterpolatedMappingWithGamma
  rw [if_neg (by simp [h])]
  exact ⟨rfl, rfl, rfl⟩

/-- `Gamma <= 1` is refused for each of the three supported tags (C13 / C19) -/
theorem FromProto_gamma_le_one (fuel : Nat) (pm : GoPb.IndexMapping F)
    (ht : pm.Interpolation = GoPb.IndexMapping_NONE ∨ pm.Interpolation = GoPb.IndexMapping_LINEAR ∨
      pm.Interpolation = GoPb.IndexMapping_CUBIC)
    (h : MOps.le pm.Gamma (MOps.ofInt 1 : F) = true) :
    ∃ r, FromProto fuel (some pm) = .ok (r, errGamma) := by
  rcases ht with ht | ht | ht
  · exact ⟨_, by rw [FromProto_none fuel pm ht, ctorLog_err _ _ h]⟩
  · exact ⟨_, by rw [FromProto_linear fuel pm ht, ctorLin_err _ _ h]⟩
  · exact ⟨_, by rw [FromProto_cubic fuel pm ht, ctorCub_err _ _ h]⟩

/-! ### round trip, every `F` -/

/-- **logarithmic**: `FromProto (ToProto m)` is a logarithmic mapping again, error nil, same `gamma`, same
    `indexOffset`; the three derived fields are recomputed by the constructor -/
theorem log_roundtrip (fuel : Nat) (m : LogarithmicMapping F) (h : MOps.le m.gamma (MOps.ofInt 1 : F) = false) :
    ∃ m', FromProto fuel (some (LogarithmicMapping.ToProto m)) = .ok (IndexMapping.LogarithmicMapping m', GoErr.nil) ∧
      m' = (NewLogarithmicMappingWithGamma m.gamma m.indexOffset).1 ∧
      m'.gamma = m.gamma ∧ m'.indexOffset = m.indexOffset := by
  obtain ⟨he, hg, ho⟩ := ctorLog_ok m.gamma m.indexOffset h
  refine ⟨_, ?_, rfl, hg, ho⟩
  rw [FromProto_none fuel _ rfl]
  show Res.ok (_, (NewLogarithmicMappingWithGamma m.gamma m.indexOffset).2) = _
  rw [he]
  rfl

theorem lin_roundtrip (fuel : Nat) (m : LinearlyInterpolatedMapping F)
    (h : MOps.le m.gamma (MOps.ofInt 1 : F) = false) :
    ∃ m', FromProto fuel (some (LinearlyInterpolatedMapping.ToProto m)) =
        .ok (IndexMapping.LinearlyInterpolatedMapping m', GoErr.nil) ∧
      m' = (NewLinearlyInterpolatedMappingWithGamma m.gamma m.indexOffset).1 ∧
      m'.gamma = m.gamma ∧ m'.indexOffset = m.indexOffset := by
  obtain ⟨he, hg, ho⟩ := ctorLin_ok m.gamma m.indexOffset h
  refine ⟨_, ?_, rfl, hg, ho⟩
  rw [FromProto_linear fuel _ rfl]
  show Res.ok (_, (NewLinearlyInterpolatedMappingWithGamma m.gamma m.indexOffset).2) = _
  rw [he]
  rfl

theorem cub_roundtrip (fuel : Nat) (m : CubicallyInterpolatedMapping F)
    (h : MOps.le m.gamma (MOps.ofInt 1 : F) = false) :
    ∃ m', FromProto fuel (some (CubicallyInterpolatedMapping.ToProto m)) =
        .ok (IndexMapping.CubicallyInterpolatedMapping m', GoErr.nil) ∧
      m' = (NewCubicallyInterpolatedMappingWithGamma m.gamma m.indexOffset).1 ∧
      m'.gamma = m.gamma ∧ m'.indexOffset = m.indexOffset := by
  obtain ⟨he, hg, ho⟩ := ctorCub_ok m.gamma m.indexOffset h
  refine ⟨_, ?_, rfl, hg, ho⟩
  rw [FromProto_cubic fuel _ rfl]
  show Res.ok (_, (NewCubicallyInterpolatedMappingWithGamma m.gamma m.indexOffset).2) = _
  rw [he]
  rfl

/-- **exact round trip of every mapping the constructor built** (all five fields), for every `F`: the message
    carries the two arguments of the constructor, and the constructor is a function -/
theorem log_roundtrip_ctor (fuel : Nat) (g o : F) (h : MOps.le g (MOps.ofInt 1 : F) = false) :
    FromProto fuel (some (LogarithmicMapping.ToProto (NewLogarithmicMappingWithGamma g o).1)) =
      .ok (IndexMapping.LogarithmicMapping (NewLogarithmicMappingWithGamma g o).1, GoErr.nil) := by
  obtain ⟨he, hg, ho⟩ := ctorLog_ok g o h
  rw [FromProto_none fuel _ rfl]
  show Res.ok (IndexMapping.LogarithmicMapping (NewLogarithmicMappingWithGamma
    (NewLogarithmicMappingWithGamma g o).1.gamma (NewLogarithmicMappingWithGamma g o).1.indexOffset).1,
    (NewLogarithmicMappingWithGamma
    (NewLogarithmicMappingWithGamma g o).1.gamma (NewLogarithmicMappingWithGamma g o).1.indexOffset).2) = _
  rw [hg, ho, he]

theorem lin_roundtrip_ctor (fuel : Nat) (g o : F) (h : MOps.le g (MOps.ofInt 1 : F) = false) :
    FromProto fuel (some (LinearlyInterpolatedMapping.ToProto (NewLinearlyInterpolatedMappingWithGamma g o).1)) =
      .ok (IndexMapping.LinearlyInterpolatedMapping (NewLinearlyInterpolatedMappingWithGamma g o).1, GoErr.nil) := by
  obtain ⟨he, hg, ho⟩ := ctorLin_ok g o h
  rw [FromProto_linear fuel _ rfl]
  show Res.ok (IndexMapping.LinearlyInterpolatedMapping (NewLinearlyInterpolatedMappingWithGamma
    (NewLinearlyInterpolatedMappingWithGamma g o).1.gamma
    (NewLinearlyInterpolatedMappingWithGamma g o).1.indexOffset).1,
    (NewLinearlyInterpolatedMappingWithGamma
    (NewLinearlyInterpolatedMappingWithGamma g o).1.gamma
    (NewLinearlyInterpolatedMappingWithGamma g o).1.indexOffset).2) = _
  rw [hg, ho, he]

theorem cub_roundtrip_ctor (fuel : Nat) (g o : F) (h : MOps.le g (MOps.ofInt 1 : F) = false) :
    FromProto fuel (some (CubicallyInterpolatedMapping.ToProto (NewCubicallyInterpolatedMappingWithGamma g o).1)) =
      .ok (IndexMapping.CubicallyInterpolatedMapping (NewCubicallyInterpolatedMappingWithGamma g o).1, GoErr.nil) := by
  obtain ⟨he, hg, ho⟩ := ctorCub_ok g o h
  rw [FromProto_cubic fuel _ rfl]
  show Res.ok (IndexMapping.CubicallyInterpolatedMapping (NewCubicallyInterpolatedMappingWithGamma
    (NewCubicallyInterpolatedMappingWithGamma g o).1.gamma
    (NewCubicallyInterpolatedMappingWithGamma g o).1.indexOffset).1,
    (NewCubicallyInterpolatedMappingWithGamma
    (NewCubicallyInterpolatedMappingWithGamma g o).1.gamma
    (NewCubicallyInterpolatedMappingWithGamma g o).1.indexOffset).2) = _
  rw [hg, ho, he]

end generic

/-! ## Part 1 (b): over the real numbers -/

section real
open DDS.GenMapping DDS.RealMap

theorem log_roundtrip_real (fuel : Nat) (γ o : ℝ) (h : 1 < γ) :
    FromProto fuel (some (LogarithmicMapping.ToProto (toGenLog ⟨.log, γ, o⟩))) =
      .ok (IndexMapping.LogarithmicMapping (toGenLog ⟨.log, γ, o⟩), GoErr.nil) := by
  rw [FromProto_none fuel _ rfl]
  show Res.ok (IndexMapping.LogarithmicMapping (NewLogarithmicMappingWithGamma γ o).1,
    (NewLogarithmicMappingWithGamma γ o).2) = _
  rw [newLog_withGamma γ o h]

theorem lin_roundtrip_real (fuel : Nat) (γ o : ℝ) (h : 1 < γ) :
    FromProto fuel (some (LinearlyInterpolatedMapping.ToProto (toGenLinear ⟨.linear, γ, o⟩))) =
      .ok (IndexMapping.LinearlyInterpolatedMapping (toGenLinear ⟨.linear, γ, o⟩), GoErr.nil) := by
  rw [FromProto_linear fuel _ rfl]
  show Res.ok (IndexMapping.LinearlyInterpolatedMapping (NewLinearlyInterpolatedMappingWithGamma γ o).1,
    (NewLinearlyInterpolatedMappingWithGamma γ o).2) = _
  rw [newLinear_withGamma γ o h]

theorem cub_roundtrip_real (fuel : Nat) (γ o : ℝ) (h : 1 < γ) :
    FromProto fuel (some (CubicallyInterpolatedMapping.ToProto (toGenCubic ⟨.cubic, γ, o⟩))) =
      .ok (IndexMapping.CubicallyInterpolatedMapping (toGenCubic ⟨.cubic, γ, o⟩), GoErr.nil) := by
  rw [FromProto_cubic fuel _ rfl]
  show Res.ok (IndexMapping.CubicallyInterpolatedMapping (NewCubicallyInterpolatedMappingWithGamma γ o).1,
    (NewCubicallyInterpolatedMappingWithGamma γ o).2) = _
  rw [newCubic_withGamma γ o h]

/-- over `ℝ` the refusal is exactly `γ ≤ 1`, for the three supported tags -/
theorem FromProto_real_err (fuel : Nat) (pm : GoPb.IndexMapping ℝ)
    (ht : pm.Interpolation = GoPb.IndexMapping_NONE ∨ pm.Interpolation = GoPb.IndexMapping_LINEAR ∨
      pm.Interpolation = GoPb.IndexMapping_CUBIC)
    (h : pm.Gamma ≤ 1) : ∃ r, FromProto fuel (some pm) = .ok (r, errGamma) :=
  FromProto_gamma_le_one fuel pm ht (by rw [gammaGuard]; exact decide_eq_true h)

/-- … and an accepted message yields a mapping with the message's parameters -/
theorem FromProto_real_ok (fuel : Nat) (γ o : ℝ) (h : 1 < γ) :
    FromProto fuel (some { Gamma := γ, IndexOffset := o, Interpolation := GoPb.IndexMapping_NONE }) =
      .ok (IndexMapping.LogarithmicMapping (toGenLog ⟨.log, γ, o⟩), GoErr.nil) ∧
    FromProto fuel (some { Gamma := γ, IndexOffset := o, Interpolation := GoPb.IndexMapping_LINEAR }) =
      .ok (IndexMapping.LinearlyInterpolatedMapping (toGenLinear ⟨.linear, γ, o⟩), GoErr.nil) ∧
    FromProto fuel (some { Gamma := γ, IndexOffset := o, Interpolation := GoPb.IndexMapping_CUBIC }) =
      .ok (IndexMapping.CubicallyInterpolatedMapping (toGenCubic ⟨.cubic, γ, o⟩), GoErr.nil) :=
  ⟨log_roundtrip_real fuel γ o h, lin_roundtrip_real fuel γ o h, cub_roundtrip_real fuel γ o h⟩

example (fuel : Nat) (o : ℝ) :
    FromProto fuel (some (CubicallyInterpolatedMapping.ToProto (toGenCubic ⟨.cubic, 2, o⟩))) =
      .ok (IndexMapping.CubicallyInterpolatedMapping (toGenCubic ⟨.cubic, 2, o⟩), GoErr.nil) :=
  cub_roundtrip_real fuel 2 o (by norm_num)

example (fuel : Nat) (o : ℝ) :
    ∃ r, FromProto fuel (some { Gamma := (1 : ℝ), IndexOffset := o, Interpolation := GoPb.IndexMapping_LINEAR }) =
      .ok (r, errGamma) :=
  FromProto_real_err fuel _ (Or.inr (Or.inl rfl)) (le_refl (1 : ℝ))

end real

/-! ## Part 1 (c): over the exact float model, for every instance of the operations -/

/-- the identity of a generated mapping (the kind is the type) -/
def idLog (m : LogarithmicMapping F64) : MapId := { kind := .log, gamma := m.gamma, indexOffset := m.indexOffset }
def idLin (m : LinearlyInterpolatedMapping F64) : MapId :=
  { kind := .linear, gamma := m.gamma, indexOffset := m.indexOffset }
def idCub (m : CubicallyInterpolatedMapping F64) : MapId :=
  { kind := .cubic, gamma := m.gamma, indexOffset := m.indexOffset }

/-- the identity of a value of the interface (`none` for the nil interface value) -/
def idOf : IndexMapping F64 → Option MapId
  | .nil => none
  | .LogarithmicMapping v => some (idLog v)
  | .LinearlyInterpolatedMapping v => some (idLin v)
  | .CubicallyInterpolatedMapping v => some (idCub v)

/-- a Go `IndexMapping` message as a message of the model (floats as bit patterns, the enum as its number) -/
def pbOfGo (m : GoPb.IndexMapping F64) : Proto.PbMapping :=
  { gamma := Proto.f64bits m.Gamma, indexOffset := Proto.f64bits m.IndexOffset,
    interpolation := m.Interpolation.toNat }

/-- the Go error value of each refusal of the model's `mappingFromProto` -/
def errOf : Proto.FromErr → GoErr
  | .nilMapping => errNilMapping
  | .badInterpolation => errInterpolation
  | .badGamma => errGamma

theorem errOf_ne_nil (x : Proto.FromErr) : errOf x ≠ GoErr.nil := by cases x <;> decide

section f64
variable [MOps F64]

/-- the only thing asked of the instance: its guard `x <= 1` is the model's -/
def LeOne : Prop := ∀ x : F64, MOps.le x (MOps.ofInt 1 : F64) = F64.le x (.fin 1)

theorem log_toProto_model (m : LogarithmicMapping F64) :
    pbOfGo (LogarithmicMapping.ToProto m) = Proto.mappingToProto (idLog m) := rfl
theorem lin_toProto_model (m : LinearlyInterpolatedMapping F64) :
    pbOfGo (LinearlyInterpolatedMapping.ToProto m) = Proto.mappingToProto (idLin m) := rfl
theorem cub_toProto_model (m : CubicallyInterpolatedMapping F64) :
    pbOfGo (CubicallyInterpolatedMapping.ToProto m) = Proto.mappingToProto (idCub m) := rfl

omit [MOps F64] in
/-- the model's `mappingFromProto` on a projected Go message with a supported tag -/
theorem model_supported (pm : GoPb.IndexMapping F64) (k : MKind)
    (hk : pm.Interpolation.toNat = Proto.interpolationOf k)
    (hg : F64.ofBits (F64.toBits pm.Gamma) = pm.Gamma)
    (ho : F64.ofBits (F64.toBits pm.IndexOffset) = pm.IndexOffset) :
    Proto.mappingFromProto (some (pbOfGo pm)) =
      if F64.le pm.Gamma (.fin 1) then .error .badGamma
      else .ok { kind := k, gamma := pm.Gamma, indexOffset := pm.IndexOffset } := by
  unfold Proto.mappingFromProto pbOfGo Proto.f64bits
  simp only [hk, MapId.kind_of_interpolation, MapId.ofNat_toBits, hg, ho]

omit [MOps F64] in
theorem model_unsupported (pm : GoPb.IndexMapping F64)
    (h0 : pm.Interpolation ≠ GoPb.IndexMapping_NONE) (h1 : pm.Interpolation ≠ GoPb.IndexMapping_LINEAR)
    (h3 : pm.Interpolation ≠ GoPb.IndexMapping_CUBIC) :
    Proto.mappingFromProto (some (pbOfGo pm)) = .error .badInterpolation := by
  have t0 : pm.Interpolation.toNat ≠ 0 := fun h => h0 (BitVec.eq_of_toNat_eq h)
  have t1 : pm.Interpolation.toNat ≠ 1 := fun h => h1 (BitVec.eq_of_toNat_eq h)
  have t3 : pm.Interpolation.toNat ≠ 3 := fun h => h3 (BitVec.eq_of_toNat_eq h)
  unfold Proto.mappingFromProto pbOfGo
  simp only [if_neg t0, if_neg t1, if_neg t3]

/-- **the generated `FromProto` and the model's `mappingFromProto` take the same branch** on every message whose
    floats survive `toBits / ofBits`: the same refusal, or no error and the identity `(kind, gamma, indexOffset)`
    of the resulting mapping is the model's -/
theorem FromProto_model (hle : LeOne) (fuel : Nat) (pm? : Option (GoPb.IndexMapping F64))
    (hb : ∀ pm, pm? = some pm → F64.ofBits (F64.toBits pm.Gamma) = pm.Gamma ∧
      F64.ofBits (F64.toBits pm.IndexOffset) = pm.IndexOffset) :
    ∃ r e, FromProto fuel pm? = .ok (r, e) ∧
      (match Proto.mappingFromProto (pm?.map pbOfGo) with
        | .error x => e = errOf x
        | .ok id => e = GoErr.nil ∧ idOf r = some id) := by
  cases pm? with
  | none => exact ⟨_, _, FromProto_nil fuel, rfl⟩
  | some pm =>
    obtain ⟨hg, ho⟩ := hb pm rfl
    rw [Option.map_some]
    by_cases h0 : pm.Interpolation = GoPb.IndexMapping_NONE
    · refine ⟨_, _, FromProto_none fuel pm h0, ?_⟩
      rw [model_supported pm .log (by rw [h0]; rfl) hg ho]
      cases hc : F64.le pm.Gamma (.fin 1)
      · obtain ⟨he, hg', ho'⟩ := ctorLog_ok pm.Gamma pm.IndexOffset (by rw [hle, hc])
        simp only [Bool.false_eq_true, if_false]
        exact ⟨he, by simp only [idOf, idLog, hg', ho']⟩
      · simp only [if_true]
        exact ctorLog_err _ _ (by rw [hle, hc])
    by_cases h1 : pm.Interpolation = GoPb.IndexMapping_LINEAR
    · refine ⟨_, _, FromProto_linear fuel pm h1, ?_⟩
      rw [model_supported pm .linear (by rw [h1]; rfl) hg ho]
      cases hc : F64.le pm.Gamma (.fin 1)
      · obtain ⟨he, hg', ho'⟩ := ctorLin_ok pm.Gamma pm.IndexOffset (by rw [hle, hc])
        simp only [Bool.false_eq_true, if_false]
        exact ⟨he, by simp only [idOf, idLin, hg', ho']⟩
      · simp only [if_true]
        exact ctorLin_err _ _ (by rw [hle, hc])
    by_cases h3 : pm.Interpolation = GoPb.IndexMapping_CUBIC
    · refine ⟨_, _, FromProto_cubic fuel pm h3, ?_⟩
      rw [model_supported pm .cubic (by rw [h3]; rfl) hg ho]
      cases hc : F64.le pm.Gamma (.fin 1)
      · obtain ⟨he, hg', ho'⟩ := ctorCub_ok pm.Gamma pm.IndexOffset (by rw [hle, hc])
        simp only [Bool.false_eq_true, if_false]
        exact ⟨he, by simp only [idOf, idCub, hg', ho']⟩
      · simp only [if_true]
        exact ctorCub_err _ _ (by rw [hle, hc])
    · refine ⟨_, _, FromProto_unsupported fuel pm h0 h1 h3, ?_⟩
      rw [model_unsupported pm h0 h1 h3]
      rfl

/-- the error of the generated `FromProto` is nil exactly when the model accepts the message -/
theorem FromProto_err_nil_iff (hle : LeOne) (fuel : Nat) (pm? : Option (GoPb.IndexMapping F64))
    (hb : ∀ pm, pm? = some pm → F64.ofBits (F64.toBits pm.Gamma) = pm.Gamma ∧
      F64.ofBits (F64.toBits pm.IndexOffset) = pm.IndexOffset) (r : IndexMapping F64) (e : GoErr)
    (h : FromProto fuel pm? = .ok (r, e)) :
    e = GoErr.nil ↔ ∃ id, Proto.mappingFromProto (pm?.map pbOfGo) = .ok id := by
  obtain ⟨r', e', h', hm⟩ := FromProto_model hle fuel pm? hb
  rw [h] at h'
  injection h' with h'
  injection h' with hr he
  subst hr; subst he
  cases hx : Proto.mappingFromProto (pm?.map pbOfGo) with
  | error x =>
    rw [hx] at hm
    simp only at hm
    constructor
    · intro hn; exact absurd (hm ▸ hn) (errOf_ne_nil x)
    · rintro ⟨id, hid⟩; cases hid
  | ok id =>
    rw [hx] at hm
    exact ⟨fun _ => ⟨id, rfl⟩, fun _ => hm.1⟩

end f64

/-! ## Part 2: the sketch level -/

section sketch
open DDS.GenSketch DDS.GenSketch7 DDS.Gen.SketchProto DDS.Gen.Sketch
open DDS.GenProtoStore (msgCalls wrap32 wrap32_of_I32 mergeWithProto_eq_fold)

/-- a binary64 bit pattern as a float -/
def bitsF (b : Nat) : F64 := F64.ofBits (UInt64.ofNat b)

theorem bitsF_f64bits (x : F64) (h : F64.ofBits (F64.toBits x) = x) : bitsF (Proto.f64bits x) = x := by
  unfold bitsF Proto.f64bits; rw [MapId.ofNat_toBits, h]

/-! ### messages of the model ↦ Go messages, and back -/

def goOfPbMapping (p : Proto.PbMapping) : GoPb.IndexMapping F64 :=
  { Gamma := bitsF p.gamma, IndexOffset := bitsF p.indexOffset, Interpolation := BitVec.ofNat 32 p.interpolation }

/-- `binCounts` in arrival order, later entries for a key win: `m[k] = v` entry by entry -/
def goOfPbStore (p : Proto.PbStore) : GoPb.Store F64 :=
  { BinCounts := p.binCounts.foldl (fun m e => mset m e.1 (bitsF e.2)) [],
    ContiguousBinCounts := p.contiguous.map bitsF,
    ContiguousBinIndexOffset := BitVec.ofInt 32 p.contiguousOffset }

def goOfPbSketch (p : Proto.PbSketch) : GoPb.DDSketch F64 :=
  { Mapping := p.mapping.map goOfPbMapping, PositiveValues := p.pos.map goOfPbStore,
    NegativeValues := p.neg.map goOfPbStore, ZeroCount := bitsF p.zero }

def pbStoreOfGo (m : GoPb.Store F64) : Proto.PbStore :=
  { binCounts := m.BinCounts.map (fun p => (p.1, Proto.f64bits p.2)),
    contiguous := m.ContiguousBinCounts.map Proto.f64bits,
    contiguousOffset := m.ContiguousBinIndexOffset.toInt }

def pbSketchOfGo (m : GoPb.DDSketch F64) : Proto.PbSketch :=
  { mapping := m.Mapping.map pbOfGo, pos := m.PositiveValues.map pbStoreOfGo,
    neg := m.NegativeValues.map pbStoreOfGo, zero := Proto.f64bits m.ZeroCount }

/-! ### the protobuf side of the two interfaces, implemented by the model -/

/-- `mapping.FromProto` through the model's `mappingFromProto` (the oracle functions of the resulting `MapEnv` are
    defaults: only the identity is in the message — the convention of `GenSketch.mapDecode`) -/
def mapFromProto (pm? : Option (GoPb.IndexMapping F64)) : MapEnv × GoErr :=
  match Proto.mappingFromProto (pm?.map pbOfGo) with
  | .ok id => ({ (default : MapEnv) with id := id }, GoErr.nil)
  | .error x => (default, errOf x)

instance instMapPbI : GoPb.MapPbI MapEnv where
  ToProto e := goOfPbMapping (Proto.mappingToProto e.id)
  FromProto := mapFromProto

/-- `Store.ToProto` through the model's `storeToProto`; where the model panics the empty message (nothing is
    claimed there) -/
instance instStorePbI : GoPb.StorePbI Store where
  ToProto st := goOfPbStore ((Proto.storeToProto st).getD {})

/-! ### `DDSketch.ToProto` -/

/-- for ANY instances: the three sub-messages are never nil, the zero count is the field -/
theorem ToProto_fields {M S : Type} [MapI M] [StoreI S] [Inhabited M] [Inhabited S] [GoPb.MapPbI M]
    [GoPb.StorePbI S] (g : DDSketch M S) :
    DDSketch.ToProto g =
      { Mapping := some (GoPb.MapPbI.ToProto g.IndexMapping),
        PositiveValues := some (GoPb.StorePbI.ToProto g.positiveValueStore),
        NegativeValues := some (GoPb.StorePbI.ToProto g.negativeValueStore),
        ZeroCount := g.zeroCount } := rfl

/-- **`DDSketch.ToProto (toGen env s)` is the model's `Proto.toProto s`**, embedded (`s.zero` a float that survives
    `toBits / ofBits`, as every Go float does) -/
theorem ToProto_model (env : MapEnv) (s : Sketch) (hm : s.mapping = some env.id) (m : Proto.PbSketch)
    (h : Proto.toProto s = some m) (hz : F64.ofBits (F64.toBits s.zero) = s.zero) :
    DDSketch.ToProto (toGen env s) = goOfPbSketch m := by
  unfold Proto.toProto at h
  cases hp : Proto.storeToProto s.pos with
  | none => rw [hp] at h; cases h
  | some p =>
    cases hn : Proto.storeToProto s.neg with
    | none => rw [hp, hn] at h; cases h
    | some n =>
      rw [hp, hn] at h
      simp only [Option.pure_def, Option.bind_eq_bind, Option.bind_some, Option.some.injEq] at h
      subst h
      have e : ∀ st : Store, GoPb.StorePbI.ToProto st = goOfPbStore ((Proto.storeToProto st).getD {}) :=
        fun _ => rfl
      rw [ToProto_fields]
      simp only [goOfPbSketch, toGen_mapping, toGen_pos, toGen_neg, toGen_zero, Option.map_some,
        bitsF_f64bits _ hz, e, hp, hn, hm, Option.getD_some]
      rfl

/-- whatever the zero count: the bits of the generated message's zero count are the model's -/
theorem ToProto_zero_bits (env : MapEnv) (s : Sketch) (m : Proto.PbSketch) (h : Proto.toProto s = some m) :
    Proto.f64bits (DDSketch.ToProto (toGen env s)).ZeroCount = m.zero := by
  unfold Proto.toProto at h
  cases hp : Proto.storeToProto s.pos with
  | none => rw [hp] at h; cases h
  | some p =>
    cases hn : Proto.storeToProto s.neg with
    | none => rw [hp, hn] at h; cases h
    | some n =>
      rw [hp, hn] at h
      simp only [Option.pure_def, Option.bind_eq_bind, Option.bind_some, Option.some.injEq] at h
      subst h
      rfl

/-! ### `FromProtoWithStoreProvider`, any instances -/

section any
variable {M S : Type} [MapI M] [StoreI S] [Inhabited M] [Inhabited S] [GoPb.MapPbI M] [GoPb.StorePbI S]

/-- a store after an optional `Store` message: a nil sub-message is skipped (no error, no panic) -/
def mergeOpt (ord : MapOrder) (st : S) : Option (GoPb.Store F64) → S
  | some m => GenProtoStore.addAll st (msgCalls ord m)
  | none => st

omit [Inhabited S] [GoPb.StorePbI S] in
theorem mergeStep (fuel : Nat) (ord : MapOrder) (st : S) (m? : Option (GoPb.Store F64)) :
    (if Option.isSome m? then
        GoSem.optR m? (fun t => Res.bind (Gen.StoreProto.MergeWithProto fuel ord st t) (fun st => .ok st))
      else .ok st) = .ok (mergeOpt ord st m?) := by
  cases m? with
  | none => rfl
  | some m =>
    simp only [Option.isSome_some, if_true, optR_some, mergeWithProto_eq_fold, Res.bind_ok]
    rfl

/-- what the function returns next to an error of `mapping.FromProto` (Go: the nil pointer) -/
def nilSketch : DDSketch M S :=
  { IndexMapping := default, positiveValueStore := default, negativeValueStore := default, zeroCount := F64.fin 0 }

/-- the function, step by step: provider, positive message, provider, negative message, mapping; the only error
    is the one of `mapping.FromProto`, the only panic the provider's; no fuel is consumed -/
theorem FromProto_eq (fuel : Nat) (ord : MapOrder) (pb : GoPb.DDSketch F64) (p : Unit → Res S) :
    FromProtoWithStoreProvider (M := M) fuel ord pb p =
      Res.bind (p ()) (fun a => Res.bind (p ()) (fun b =>
        if (GoPb.MapPbI.FromProto (M := M) pb.Mapping).2 != GoErr.nil then
          .ok (nilSketch, (GoPb.MapPbI.FromProto (M := M) pb.Mapping).2)
        else
          .ok ({ IndexMapping := (GoPb.MapPbI.FromProto (M := M) pb.Mapping).1,
                 positiveValueStore := mergeOpt ord a pb.PositiveValues,
                 negativeValueStore := mergeOpt ord b pb.NegativeValues,
                 zeroCount := pb.ZeroCount }, GoErr.nil))) := by
  unfold FromProtoWithStoreProvider
  cases hp : p () with
  | ok a =>
    simp only [Res.bind_ok, mergeStep]
    rfl
  | panic => rfl
  | nofuel => rfl

end any

/-! ### the generic `MergeWithProto` on the model's stores is the model's `mergeWithProto` -/

/-- every float of the message survives `toBits / ofBits` (every Go float does; `F64.fin q` with `q` off the
    binary64 grid does not) -/
def StoreBitsOK (pb : GoPb.Store F64) : Prop :=
  (∀ p ∈ pb.BinCounts, F64.ofBits (F64.toBits p.2) = p.2) ∧
  ∀ c ∈ pb.ContiguousBinCounts, F64.ofBits (F64.toBits c) = c

theorem foldlM_some_foldl {α σ : Type} (f : σ → α → Option σ) (g : σ → α → σ) :
    ∀ (l : List α) (hfg : ∀ x ∈ l, ∀ s s', f s x = some s' → g s x = s') (s s' : σ),
      l.foldlM f s = some s' → l.foldl g s = s' := by
  intro l
  induction l with
  | nil => intro _ s s' h; simpa using h
  | cons x l ih =>
    intro hfg s s' h
    rw [List.foldlM_cons] at h
    cases hx : f s x with
    | none => rw [hx] at h; cases h
    | some s1 =>
      rw [hx] at h
      rw [List.foldl_cons, hfg x (List.mem_cons_self ..) s s1 hx]
      exact ih (fun y hy => hfg y (List.mem_cons_of_mem _ hy)) s1 s' h

/-- the weight a float count stands for in the model's stores (`none`: not finite) -/
def finOf : F64 → Option Rat
  | .fin q => some q
  | _ => none

theorem weightOf_f64bits (c : F64) (h : F64.ofBits (F64.toBits c) = c) :
    Proto.weightOf (Proto.f64bits c) = finOf c := by
  unfold Proto.weightOf Proto.f64bits
  rw [MapId.ofNat_toBits]
  have h' := h
  generalize F64.ofBits c.toBits = y at h' ⊢
  subst h'
  cases y <;> rfl

/-- one call: where the model adds, the instance's `AddWithCount` returns the model's store -/
theorem add_step (s s' : Store) (k : Int) (c : F64) (hc : F64.ofBits (F64.toBits c) = c)
    (h : (Proto.weightOf (Proto.f64bits c)).bind (fun w => s.addWithCount k w) = some s') :
    StoreI.AddWithCount s k c = s' := by
  rw [weightOf_f64bits c hc] at h
  cases c with
  | fin q => exact store_addWithCount_some s s' k q h
  | pinf => simp [finOf] at h
  | ninf => simp [finOf] at h
  | nan => simp [finOf] at h

theorem find_of_mem_pairwise {V : Type} : ∀ (m : GoMap V) (hs : List.Pairwise (fun a b => a < b) (m.map Prod.fst))
    (p : Int × V), p ∈ m → m.find? (fun q => q.1 == p.1) = some p := by
  intro m
  induction m with
  | nil => intro _ p hp; cases hp
  | cons q m ih =>
    intro hs p hp
    rw [List.map_cons, List.pairwise_cons] at hs
    rcases List.mem_cons.mp hp with rfl | hp
    · simp
    · have hlt : q.1 < p.1 := hs.1 p.1 (List.mem_map_of_mem hp)
      have : (q.1 == p.1) = false := by simp; omega
      rw [List.find?_cons, this]
      exact ih hs.2 p hp

/-- the ascending oracle visits a map in storage order -/
theorem mrange_ascending' {V : Type} (m : GoMap V) (hs : List.Pairwise (fun a b => a < b) (m.map Prod.fst)) :
    mrange MapOrder.ascending m = m := by
  unfold mrange MapOrder.ascending
  simp only [id]
  rw [List.filterMap_map]
  have : List.filterMap ((fun k => (m.find? (fun p => p.1 == k)).map (fun p => (k, p.2))) ∘ Prod.fst) m
      = List.filterMap some m := by
    apply List.filterMap_congr
    intro p hp
    simp only [Function.comp, find_of_mem_pairwise m hs p hp, Option.map_some]
  rw [this, List.filterMap_some]

/-- **the regenerated generic `MergeWithProto`, run on a store of the model with the ascending oracle, is the model's
    `mergeWithProto`** on the projected message, wherever the model does not answer `none` (panic / weight outside
    the model); message well formed (`GoPb.Store.WF`: keys are `int32` values, increasing), floats surviving
    `toBits / ofBits`; every fuel -/
theorem MergeWithProto_model (fuel : Nat) (st st' : Store) (pb : GoPb.Store F64) (hwf : pb.WF)
    (hb : StoreBitsOK pb) (h : Proto.mergeWithProto st (pbStoreOfGo pb) = some st') :
    Gen.StoreProto.MergeWithProto fuel MapOrder.ascending st pb = .ok st' := by
  rw [mergeWithProto_eq_fold]
  congr 1
  rw [Proto.mergeWithProto_eq] at h
  have hinc : (pbStoreOfGo pb).binCounts.Pairwise (fun a b => a.1 < b.1) := by
    have := hwf.2
    unfold pbStoreOfGo
    simp only [List.pairwise_map] at this ⊢
    exact this
  rw [Proto.normBinCounts_of_increasing _ hinc] at h
  cases h1 : List.foldlM Proto.binStep st (pbStoreOfGo pb).binCounts with
  | none => rw [h1] at h; cases h
  | some s1 =>
    rw [h1] at h
    simp only [Option.bind_eq_bind, Option.bind_some] at h
    unfold msgCalls
    rw [GenProtoStore.addAll_append, mrange_ascending' _ hwf.2]
    -- the sparse part
    have e1 : GenProtoStore.addAll st (pb.BinCounts.map (fun p => (wrap32 p.1, p.2))) = s1 := by
      unfold GenProtoStore.addAll
      rw [List.foldl_map]
      unfold pbStoreOfGo at h1
      simp only [List.foldlM_map] at h1
      refine foldlM_some_foldl _ _ pb.BinCounts ?_ st s1 h1
      intro x hx s s' hs
      rw [wrap32_of_I32 x.1 (hwf.1 x hx)]
      exact add_step s s' x.1 x.2 (hb.1 x hx) hs
    rw [e1]
    -- the contiguous part
    unfold GenProtoStore.addAll
    rw [List.foldl_map]
    unfold pbStoreOfGo at h
    simp only [List.zipIdx_map, List.foldlM_map] at h
    refine foldlM_some_foldl _ _ pb.ContiguousBinCounts.zipIdx ?_ s1 st' h
    intro x hx s s' hs
    exact add_step s s' _ x.1 (hb.2 x.1 (List.fst_mem_of_mem_zipIdx hx)) hs

/-- the core of `MergeWithProto_model`, on the fold -/
theorem addAll_model (st st' : Store) (pb : GoPb.Store F64) (hwf : pb.WF) (hb : StoreBitsOK pb)
    (h : Proto.mergeWithProto st (pbStoreOfGo pb) = some st') :
    GenProtoStore.addAll st (msgCalls MapOrder.ascending pb) = st' := by
  have := MergeWithProto_model 0 st st' pb hwf hb h
  rw [mergeWithProto_eq_fold] at this
  injection this

/-! ### `FromProtoWithStoreProvider` on the model's instances is the model's `fromProto` -/

/-- one side of the model's `fromProto`: a fresh store, the sub-message merged into it if there is one -/
def modelSide (k : StoreKind) : Option Proto.PbStore → Option Store
  | some pb => Proto.mergeWithProto (Store.new k) pb
  | none => some (Store.new k)

theorem fromProto_eq (k : StoreKind) (m : Proto.PbSketch) :
    Proto.fromProto k m =
      (modelSide k m.pos).bind (fun p => (modelSide k m.neg).bind (fun n =>
        match Proto.mappingFromProto m.mapping with
        | .error e => some (.error e)
        | .ok id => some (.ok { mapping := some id, pos := p, neg := n, zero := bitsF m.zero }))) := by
  unfold Proto.fromProto modelSide
  cases m.pos <;> cases m.neg <;> rfl

/-- the hypotheses on a sketch message: sub-messages well formed, floats surviving `toBits / ofBits` (nothing is
    asked of the mapping sub-message) -/
structure MsgOK (pb : GoPb.DDSketch F64) : Prop where
  pos : ∀ m, pb.PositiveValues = some m → m.WF ∧ StoreBitsOK m
  neg : ∀ m, pb.NegativeValues = some m → m.WF ∧ StoreBitsOK m
  zero : F64.ofBits (F64.toBits pb.ZeroCount) = pb.ZeroCount

theorem mergeOpt_model (k : StoreKind) (m? : Option (GoPb.Store F64))
    (hok : ∀ m, m? = some m → m.WF ∧ StoreBitsOK m) (st' : Store)
    (h : modelSide k (m?.map pbStoreOfGo) = some st') :
    mergeOpt MapOrder.ascending (Store.new k) m? = st' := by
  cases m? with
  | none => injection h
  | some m => exact addAll_model _ _ m (hok m rfl).1 (hok m rfl).2 h

/-- the mapping object `FromProto` of the instance builds for an identity -/
def envOf (id : MapId) : MapEnv := { (default : MapEnv) with id := id }

/-- **`FromProtoWithStoreProvider` (generated, over the model's instances, provider of kind `k`, ascending oracle)
    is the model's `Proto.fromProto k`** on the projected message, for every fuel:
      model `none` (a store panics / a weight is not finite): nothing claimed;
      model refusal `x` (nil mapping, unsupported interpolation, `gamma ≤ 1`): the nil sketch and the error `errOf x`
        — AFTER both stores have been built, as in Go;
      model `s`: exactly `toGen (envOf id) s`, error nil.
    A nil `PositiveValues` / `NegativeValues` is NOT an error and not a panic, on both sides: the store stays empty. -/
theorem FromProto_sketch_model (fuel : Nat) (k : StoreKind) (pb : GoPb.DDSketch F64) (hok : MsgOK pb) :
    match Proto.fromProto k (pbSketchOfGo pb) with
    | none => True
    | some (.error x) =>
        FromProtoWithStoreProvider (M := MapEnv) fuel MapOrder.ascending pb (provider k) = .ok (nilSketch, errOf x)
    | some (.ok s) => ∃ id, s.mapping = some id ∧
        FromProtoWithStoreProvider (M := MapEnv) fuel MapOrder.ascending pb (provider k) =
          .ok (toGen (envOf id) s, GoErr.nil) := by
  rw [fromProto_eq, FromProto_eq]
  simp only [provider, Res.bind_ok]
  have hP : (pbSketchOfGo pb).pos = pb.PositiveValues.map pbStoreOfGo := rfl
  have hN : (pbSketchOfGo pb).neg = pb.NegativeValues.map pbStoreOfGo := rfl
  have hM : (pbSketchOfGo pb).mapping = pb.Mapping.map pbOfGo := rfl
  have hI : GoPb.MapPbI.FromProto (M := MapEnv) pb.Mapping = mapFromProto pb.Mapping := rfl
  rw [hP, hN, hM, hI]
  cases hp : modelSide k (pb.PositiveValues.map pbStoreOfGo) with
  | none => trivial
  | some p =>
    cases hn : modelSide k (pb.NegativeValues.map pbStoreOfGo) with
    | none => trivial
    | some n =>
      simp only [Option.bind_some]
      rw [mergeOpt_model k _ hok.pos p hp, mergeOpt_model k _ hok.neg n hn]
      unfold mapFromProto
      cases hmf : Proto.mappingFromProto (pb.Mapping.map pbOfGo) with
      | error x =>
        have : (errOf x != GoErr.nil) = true := by simpa using errOf_ne_nil x
        simp only [this, if_true]
      | ok id =>
        refine ⟨id, rfl, ?_⟩
        have : (GoErr.nil != GoErr.nil) = false := by decide
        simp only [this, Bool.false_eq_true, if_false]
        have hz : bitsF (pbSketchOfGo pb).zero = pb.ZeroCount := bitsF_f64bits _ hok.zero
        rw [hz]
        rfl

/-- **nil store sub-messages**: with `PositiveValues = nil` and `NegativeValues = nil` the generated function
    neither fails nor panics; both stores are the provider's fresh stores (any instances, any provider that
    answers, any oracle, any fuel) — the model's `fromProto` does the same (`modelSide k none = some (Store.new k)`) -/
theorem FromProto_nil_stores {M S : Type} [MapI M] [StoreI S] [Inhabited M] [Inhabited S] [GoPb.MapPbI M]
    [GoPb.StorePbI S] (fuel : Nat) (ord : MapOrder) (mp : Option (GoPb.IndexMapping F64)) (z : F64)
    (p : Unit → Res S) (a : S) (hp : p () = .ok a) (he : (GoPb.MapPbI.FromProto (M := M) mp).2 = GoErr.nil) :
    FromProtoWithStoreProvider (M := M) fuel ord
        { Mapping := mp, PositiveValues := none, NegativeValues := none, ZeroCount := z } p =
      .ok ({ IndexMapping := (GoPb.MapPbI.FromProto (M := M) mp).1, positiveValueStore := a,
             negativeValueStore := a, zeroCount := z }, GoErr.nil) := by
  rw [FromProto_eq, hp]
  simp only [Res.bind_ok, he]
  rfl

/-- **nil mapping sub-message**: the error of `mapping.FromProto`, the nil sketch — whatever the store
    sub-messages hold (they are merged first, and `MergeWithProto` cannot fail) -/
theorem FromProto_nil_mapping (fuel : Nat) (ord : MapOrder) (k : StoreKind)
    (pos neg : Option (GoPb.Store F64)) (z : F64) :
    FromProtoWithStoreProvider (M := MapEnv) fuel ord
        { Mapping := none, PositiveValues := pos, NegativeValues := neg, ZeroCount := z } (provider k) =
      .ok (nilSketch, errNilMapping) := by
  rw [FromProto_eq]
  rfl

/-- a panicking provider is the only panic -/
theorem FromProto_panic {M S : Type} [MapI M] [StoreI S] [Inhabited M] [Inhabited S] [GoPb.MapPbI M]
    [GoPb.StorePbI S] (fuel : Nat) (ord : MapOrder) (pb : GoPb.DDSketch F64) (p : Unit → Res S)
    (hp : p () = .panic) : FromProtoWithStoreProvider (M := M) fuel ord pb p = .panic := by
  rw [FromProto_eq, hp]; rfl

/-! ### the instance's `FromProto` against the regenerated `mapping.FromProto` -/

/-- the class method `MapPbI.FromProto` of `MapEnv` (defined from the model) and the REGENERATED `mapping.FromProto`
    return the same error, and on success the same identity — for every instance of the float operations with the
    model's guard, every message whose floats survive `toBits / ofBits` -/
theorem instance_FromProto_agrees [MOps F64] (hle : LeOne) (fuel : Nat) (pm? : Option (GoPb.IndexMapping F64))
    (hb : ∀ pm, pm? = some pm → F64.ofBits (F64.toBits pm.Gamma) = pm.Gamma ∧
      F64.ofBits (F64.toBits pm.IndexOffset) = pm.IndexOffset) :
    ∃ r, FromProto fuel pm? = .ok (r, (GoPb.MapPbI.FromProto (M := MapEnv) pm?).2) ∧
      ((GoPb.MapPbI.FromProto (M := MapEnv) pm?).2 = GoErr.nil →
        idOf r = some (GoPb.MapPbI.FromProto (M := MapEnv) pm?).1.id) := by
  obtain ⟨r, e, h, hm⟩ := FromProto_model hle fuel pm? hb
  have hI : GoPb.MapPbI.FromProto (M := MapEnv) pm? = mapFromProto pm? := rfl
  rw [hI]
  unfold mapFromProto
  cases hx : Proto.mappingFromProto (pm?.map pbOfGo) with
  | error x =>
    rw [hx] at hm
    simp only at hm
    subst hm
    exact ⟨r, h, fun hn => absurd hn (errOf_ne_nil x)⟩
  | ok id =>
    rw [hx] at hm
    obtain ⟨he, hid⟩ := hm
    subst he
    exact ⟨r, h, fun _ => hid⟩

/-- the class method `MapPbI.ToProto` of `MapEnv` and the regenerated `ToProto` of the mapping of the same
    identity: the same message (parameters surviving `toBits / ofBits`) -/
theorem instance_ToProto_agrees [MOps F64] (e : MapEnv)
    (hg : F64.ofBits (F64.toBits e.id.gamma) = e.id.gamma)
    (ho : F64.ofBits (F64.toBits e.id.indexOffset) = e.id.indexOffset) :
    (∀ m : LogarithmicMapping F64, idLog m = e.id → LogarithmicMapping.ToProto m = GoPb.MapPbI.ToProto e) ∧
    (∀ m : LinearlyInterpolatedMapping F64, idLin m = e.id →
      LinearlyInterpolatedMapping.ToProto m = GoPb.MapPbI.ToProto e) ∧
    (∀ m : CubicallyInterpolatedMapping F64, idCub m = e.id →
      CubicallyInterpolatedMapping.ToProto m = GoPb.MapPbI.ToProto e) := by
  have hI : GoPb.MapPbI.ToProto e = goOfPbMapping (Proto.mappingToProto e.id) := rfl
  rw [hI]
  refine ⟨fun m h => ?_, fun m h => ?_, fun m h => ?_⟩ <;>
  · rw [← h] at hg ho ⊢
    simp only [goOfPbMapping, Proto.mappingToProto, bitsF_f64bits _ hg, bitsF_f64bits _ ho]
    rfl

/-! ### the hypothesis `LeOne` is satisfiable -/

/-- an instance of the operations with the model's comparison (the functions that play no role here are
    placeholders) -/
@[reducible] def witnessOps : MOps F64 where
  add := F64.add
  sub := F64.sub
  mul := F64.mul
  div := F64.div
  neg := F64.neg
  ofInt n := .fin n
  ofRat q := .fin q
  lt := F64.lt
  le := F64.le
  log := id
  exp := id
  log2 := id
  exp2 := id
  pow a _ := a
  cbrt := id
  sqrt := id
  floor := id
  trunc _ := 0
  exponentOf := id
  significandPlusOne := id
  buildFloat _ x := x
  ln2 := .fin 1
  expOverflow := .fin 1
  minNormal := .fin 1

example : @LeOne witnessOps := fun _ => rfl

/-! ### a run through the `.ok` branch -/

/-- a message with a cubic mapping of `gamma = 2`, no store sub-messages -/
def exMsg : GoPb.DDSketch F64 :=
  { Mapping := some { Gamma := .fin 2, IndexOffset := .fin 0, Interpolation := GoPb.IndexMapping_CUBIC },
    PositiveValues := none, NegativeValues := none, ZeroCount := .fin 0 }

def exSketch : Sketch := { mapping := some ⟨.cubic, .fin 2, .fin 0⟩, pos := .sp [], neg := .sp [], zero := .fin 0 }

theorem bits_two : F64.ofBits (F64.toBits (.fin 2)) = .fin 2 := F64.toBits_ofBits_rep 2 (by decide +kernel)
theorem bits_zero : F64.ofBits (F64.toBits (.fin 0)) = .fin 0 := F64.toBits_ofBits_rep 0 (by decide +kernel)

theorem exMsg_ok : MsgOK exMsg := ⟨fun _ h => (by cases h), fun _ h => (by cases h), bits_zero⟩

theorem exMsg_model : Proto.fromProto .sparse (pbSketchOfGo exMsg) = some (.ok exSketch) := by
  rw [fromProto_eq]
  have hm : Proto.mappingFromProto (pbSketchOfGo exMsg).mapping = .ok ⟨.cubic, .fin 2, .fin 0⟩ := by
    show Proto.mappingFromProto (some (pbOfGo _)) = _
    rw [model_supported _ .cubic rfl bits_two bits_zero]
    show (if F64.le (.fin 2) (.fin 1) = true then _ else _) = _
    rw [MapId.le_fin]
    rfl
  have hz : bitsF (pbSketchOfGo exMsg).zero = .fin 0 := bitsF_f64bits _ bits_zero
  rw [hm, hz]
  rfl

/-- the generated function on that message, for every fuel: the model's sketch -/
theorem exMsg_run (fuel : Nat) :
    FromProtoWithStoreProvider (M := MapEnv) fuel MapOrder.ascending exMsg (provider .sparse) =
      .ok (toGen (envOf ⟨.cubic, .fin 2, .fin 0⟩) exSketch, GoErr.nil) := by
  have := FromProto_sketch_model fuel .sparse exMsg exMsg_ok
  rw [exMsg_model] at this
  obtain ⟨id, hid, h⟩ := this
  injection hid with hid
  subst hid
  exact h

end sketch

end DDS.GenProtoSketch
