/-
  DDS.Proofs.GenProtoSketch — the REGENERATED protobuf conversions
  (`DDS/Generated/CodeMappingProto.lean`, `CodeMappingFromProto.lean`, `CodeSketchProto.lean`, translated on every
  run from `ToProto` of the three mappings, `mapping.FromProto`, `DDSketch.ToProto` and
  `FromProtoWithStoreProvider`) against the hand-written protobuf model `DDS/Model/Proto.lean`.

  PART 1 — mappings.
  (a) for EVERY float type `F` with `[MOps F]` (nothing is assumed about the operations):
      `log_toProto / lin_toProto / cub_toProto` — the message is `(gamma, indexOffset, NONE | LINEAR | CUBIC)`;
      the decision table of `FromProto`, for every fuel (no loop, never `.panic`, never `.nofuel`):
        `FromProto_nil`          nil message                  → error "cannot create IndexMapping from nil …",
        `FromProto_none/_linear/_cubic`  tag 0 / 1 / 3        → the `…WithGamma(Gamma, IndexOffset)` constructor,
        `FromProto_unsupported`  any other tag (QUADRATIC = 2: `FromProto_quadratic`) → "interpolation not supported",
        `FromProto_*_gamma_le_one`  `Gamma <= 1`              → "Gamma must be greater than 1." (C13/C19);
      `ctor*_gamma/_indexOffset` — an accepted constructor stores its two arguments unchanged;
      round trip `log_roundtrip / lin_roundtrip / cub_roundtrip`: for `m` with `¬ m.gamma <= 1`,
        `FromProto (some (ToProto m))` is the constructor on `(m.gamma, m.indexOffset)`, error nil, SAME KIND;
      `log_roundtrip_ctor / …`: for every mapping the constructor itself built, `FromProto (some (ToProto m)) = m`
        exactly (all five fields), for every `F`.
  (b) over the real numbers (`DDS.Proofs.RealInst`, as `GenMapping` / `C03Gen`): `log_roundtrip_real / …` —
      `FromProto (some (ToProto (toGenLog ⟨.log, γ, o⟩))) = (toGenLog ⟨.log, γ, o⟩, nil)` for `1 < γ`, and
      `FromProto_*_real_err` for `γ ≤ 1`.
  (c) over the exact float model `F64`.  The project has no instance `MOps F64` (the transcendental functions are
      not modelled); the statements hold for EVERY instance `[MOps F64]` whose guard `gamma <= 1` is the model's
      (`LeOne`: `MOps.le x (MOps.ofInt 1) = F64.le x (.fin 1)`), nothing else is assumed.  `pbOfGo` projects a Go
      message to the model's `Proto.PbMapping` (bit patterns); `idOf` reads the identity `(kind, gamma,
      indexOffset)` off a result of `FromProto`.
        `log_toProto_model / …`: `pbOfGo (ToProto m) = Proto.mappingToProto (idLog m)`;
        `FromProto_model`: the generated `FromProto` and the model's `Proto.mappingFromProto` take the same branch
           on every message whose two floats survive `toBits/ofBits` (every Go float does): same refusal
           (`errOf`), or error nil and the identity of the result is the model's `MapId`.

  PART 2 — sketch level: see the second half of the file.
-/
import DDS.Generated.CodeMappingProto
import DDS.Generated.CodeMappingFromProto
import DDS.Generated.CodeSketchProto
import DDS.Proofs.GenMapping
import DDS.Proofs.GenMapId
import DDS.Proofs.GenSketch7
import DDS.Proofs.Proto

set_option linter.unusedVariables false

namespace DDS.GenProtoSketch

open DDS DDS.GoSem DDS.Gen.Mapping DDS.Gen.MappingProto DDS.Gen.MappingFromProto

/-! ## Part 1 (a): every `F` -/

section generic
variable {F : Type} [MOps F]

/-- Go error values of `mapping.FromProto` and of the constructors it calls -/
def errNilMapping : GoErr := GoErr.named "cannot create IndexMapping from nil protobuf index mapping"
def errInterpolation : GoErr := GoErr.named "interpolation not supported: %d"
def errGamma : GoErr := GoErr.named "Gamma must be greater than 1."

theorem log_toProto (m : LogarithmicMapping F) :
    LogarithmicMapping.ToProto m =
      { Gamma := m.gamma, IndexOffset := m.indexOffset, Interpolation := GoPb.IndexMapping_NONE } := rfl

theorem lin_toProto (m : LinearlyInterpolatedMapping F) :
    LinearlyInterpolatedMapping.ToProto m =
      { Gamma := m.gamma, IndexOffset := m.indexOffset, Interpolation := GoPb.IndexMapping_LINEAR } := rfl

theorem cub_toProto (m : CubicallyInterpolatedMapping F) :
    CubicallyInterpolatedMapping.ToProto m =
      { Gamma := m.gamma, IndexOffset := m.indexOffset, Interpolation := GoPb.IndexMapping_CUBIC } := rfl

/-! ### decision table of `FromProto` -/

/-- nil message: an error, the nil interface value; for every fuel -/
theorem FromProto_nil (fuel : Nat) :
    FromProto (F := F) fuel none = .ok (IndexMapping.nil, errNilMapping) := rfl

/-- tag NONE: `NewLogarithmicMappingWithGamma(m.Gamma, m.IndexOffset)` -/
theorem FromProto_none (fuel : Nat) (pm : GoPb.IndexMapping F) (h : pm.Interpolation = GoPb.IndexMapping_NONE) :
    FromProto fuel (some pm) =
      .ok (IndexMapping.LogarithmicMapping (NewLogarithmicMappingWithGamma pm.Gamma pm.IndexOffset).1,
           (NewLogarithmicMappingWithGamma pm.Gamma pm.IndexOffset).2) := by
  unfold FromProto
  simp [h, GoPb.IndexMapping_NONE]

/-- tag LINEAR: `NewLinearlyInterpolatedMappingWithGamma(m.Gamma, m.IndexOffset)` -/
theorem FromProto_linear (fuel : Nat) (pm : GoPb.IndexMapping F)
    (h : pm.Interpolation = GoPb.IndexMapping_LINEAR) :
    FromProto fuel (some pm) =
      .ok (IndexMapping.LinearlyInterpolatedMapping
             (NewLinearlyInterpolatedMappingWithGamma pm.Gamma pm.IndexOffset).1,
           (NewLinearlyInterpolatedMappingWithGamma pm.Gamma pm.IndexOffset).2) := by
  unfold FromProto
  simp [h, GoPb.IndexMapping_LINEAR]

/-- tag CUBIC: `NewCubicallyInterpolatedMappingWithGamma(m.Gamma, m.IndexOffset)` -/
theorem FromProto_cubic (fuel : Nat) (pm : GoPb.IndexMapping F)
    (h : pm.Interpolation = GoPb.IndexMapping_CUBIC) :
    FromProto fuel (some pm) =
      .ok (IndexMapping.CubicallyInterpolatedMapping
             (NewCubicallyInterpolatedMappingWithGamma pm.Gamma pm.IndexOffset).1,
           (NewCubicallyInterpolatedMappingWithGamma pm.Gamma pm.IndexOffset).2) := by
  unfold FromProto
  simp [h, GoPb.IndexMapping_CUBIC]

/-- every other tag (the enum is an `int32`: QUADRATIC and all undeclared values): an error, the nil interface
    value, whatever gamma and the offset are -/
theorem FromProto_unsupported (fuel : Nat) (pm : GoPb.IndexMapping F)
    (h0 : pm.Interpolation ≠ GoPb.IndexMapping_NONE) (h1 : pm.Interpolation ≠ GoPb.IndexMapping_LINEAR)
    (h3 : pm.Interpolation ≠ GoPb.IndexMapping_CUBIC) :
    FromProto fuel (some pm) = .ok (IndexMapping.nil, errInterpolation) := by
  unfold FromProto
  simp only [GoPb.IndexMapping_NONE, GoPb.IndexMapping_LINEAR, GoPb.IndexMapping_CUBIC] at h0 h1 h3
  simp [h0, h1, h3, errInterpolation]

/-- QUADRATIC is declared in the `.proto` file and refused -/
theorem FromProto_quadratic (fuel : Nat) (g o : F) :
    FromProto fuel (some { Gamma := g, IndexOffset := o, Interpolation := GoPb.IndexMapping_QUADRATIC }) =
      .ok (IndexMapping.nil, errInterpolation) :=
  FromProto_unsupported fuel _
    (show GoPb.IndexMapping_QUADRATIC ≠ GoPb.IndexMapping_NONE by decide)
    (show GoPb.IndexMapping_QUADRATIC ≠ GoPb.IndexMapping_LINEAR by decide)
    (show GoPb.IndexMapping_QUADRATIC ≠ GoPb.IndexMapping_CUBIC by decide)

/-- the five cases are exhaustive and exclusive: `FromProto` never panics and never runs out of fuel -/
theorem FromProto_total (fuel : Nat) (pm? : Option (GoPb.IndexMapping F)) :
    ∃ r e, FromProto fuel pm? = .ok (r, e) := by
  cases pm? with
  | none => exact ⟨_, _, FromProto_nil fuel⟩
  | some pm =>
    by_cases h0 : pm.Interpolation = GoPb.IndexMapping_NONE
    · exact ⟨_, _, FromProto_none fuel pm h0⟩
    by_cases h1 : pm.Interpolation = GoPb.IndexMapping_LINEAR
    · exact ⟨_, _, FromProto_linear fuel pm h1⟩
    by_cases h3 : pm.Interpolation = GoPb.IndexMapping_CUBIC
    · exact ⟨_, _, FromProto_cubic fuel pm h3⟩
    exact ⟨_, _, FromProto_unsupported fuel pm h0 h1 h3⟩

/-- the fuel argument is not used -/
theorem FromProto_fuel (fuel fuel' : Nat) (pm? : Option (GoPb.IndexMapping F)) :
    FromProto fuel pm? = FromProto fuel' pm? := rfl

/-! ### the `…WithGamma` constructors: refusal, and what an accepted call stores -/

theorem ctorLog_err (g o : F) (h : MOps.le g (MOps.ofInt 1 : F) = true) :
    (NewLogarithmicMappingWithGamma g o).2 = errGamma := by
  unfold NewLogarithmicMappingWithGamma; rw [if_pos h]; rfl

theorem ctorLin_err (g o : F) (h : MOps.le g (MOps.ofInt 1 : F) = true) :
    (NewLinearlyInterpolatedMappingWithGamma g o).2 = errGamma := by
  unfold NewLinearlyInterpolatedMappingWithGamma; rw [if_pos h]; rfl

theorem ctorCub_err (g o : F) (h : MOps.le g (MOps.ofInt 1 : F) = true) :
    (NewCubicallyInterpolatedMappingWithGamma g o).2 = errGamma := by
  unfold NewCubicallyInterpolatedMappingWithGamma; rw [if_pos h]; rfl

theorem ctorLog_ok (g o : F) (h : MOps.le g (MOps.ofInt 1 : F) = false) :
    (NewLogarithmicMappingWithGamma g o).2 = GoErr.nil ∧
    (NewLogarithmicMappingWithGamma g o).1.gamma = g ∧
    (NewLogarithmicMappingWithGamma g o).1.indexOffset = o := by
  unfold NewLogarithmicMappingWithGamma
  rw [if_neg (by simp [h])]
  exact ⟨rfl, rfl, rfl⟩

theorem ctorLin_ok (g o : F) (h : MOps.le g (MOps.ofInt 1 : F) = false) :
    (NewLinearlyInterpolatedMappingWithGamma g o).2 = GoErr.nil ∧
    (NewLinearlyInterpolatedMappingWithGamma g o).1.gamma = g ∧
    (NewLinearlyInterpolatedMappingWithGamma g o).1.indexOffset = o := by
  unfold NewLinearlyInterpolatedMappingWithGamma
  rw [if_neg (by simp [h])]
  exact ⟨rfl, rfl, rfl⟩

theorem ctorCub_ok (g o : F) (h : MOps.le g (MOps.ofInt 1 : F) = false) :
    (NewCubicallyInterpolatedMappingWithGamma g o).2 = GoErr.nil ∧
    (NewCubicallyInterpolatedMappingWithGamma g o).1.gamma = g ∧
    (NewCubicallyInterpolatedMappingWithGamma g o).1.indexOffset = o := by
  unfold NewCubicallyInterpolatedMappingWithGamma
  rw [if_neg (by simp [h])]
  exact ⟨rfl, rfl, rfl⟩

/-- `Gamma <= 1` is refused for each of the three supported tags (C13 / C19) -/
theorem FromProto_gamma_le_one (fuel : Nat) (pm : GoPb.IndexMapping F)
    (ht : pm.Interpolation = GoPb.IndexMapping_NONE ∨ pm.Interpolation = GoPb.IndexMapping_LINEAR ∨
      pm.Interpolation = GoPb.IndexMapping_CUBIC)
    (h : MOps.le pm.Gamma (MOps.ofInt 1 : F) = true) :
    ∃ r, FromProto fuel (some pm) = .ok (r, errGamma) := by
  rcases ht with ht | ht | ht
  · exact ⟨_, by rw [FromProto_none fuel pm ht, ctorLog_err _ _ h]⟩
  · exact ⟨_, by rw [FromProto_linear fuel pm ht, ctorLin_err _ _ h]⟩
  · exact ⟨_, by rw [FromProto_cubic fuel pm ht, ctorCub_err _ _ h]⟩

/-! ### round trip, every `F` -/

/-- **logarithmic**: `FromProto (ToProto m)` is a logarithmic mapping again, error nil, same `gamma`, same
    `indexOffset`; the three derived fields are recomputed by the constructor -/
theorem log_roundtrip (fuel : Nat) (m : LogarithmicMapping F) (h : MOps.le m.gamma (MOps.ofInt 1 : F) = false) :
    ∃ m', FromProto fuel (some (LogarithmicMapping.ToProto m)) = .ok (IndexMapping.LogarithmicMapping m', GoErr.nil) ∧
      m' = (NewLogarithmicMappingWithGamma m.gamma m.indexOffset).1 ∧
      m'.gamma = m.gamma ∧ m'.indexOffset = m.indexOffset := by
  obtain ⟨he, hg, ho⟩ := ctorLog_ok m.gamma m.indexOffset h
  refine ⟨_, ?_, rfl, hg, ho⟩
  rw [FromProto_none fuel _ rfl]
  show Res.ok (_, (NewLogarithmicMappingWithGamma m.gamma m.indexOffset).2) = _
  rw [he]
  rfl

theorem lin_roundtrip (fuel : Nat) (m : LinearlyInterpolatedMapping F)
    (h : MOps.le m.gamma (MOps.ofInt 1 : F) = false) :
    ∃ m', FromProto fuel (some (LinearlyInterpolatedMapping.ToProto m)) =
        .ok (IndexMapping.LinearlyInterpolatedMapping m', GoErr.nil) ∧
      m' = (NewLinearlyInterpolatedMappingWithGamma m.gamma m.indexOffset).1 ∧
      m'.gamma = m.gamma ∧ m'.indexOffset = m.indexOffset := by
  obtain ⟨he, hg, ho⟩ := ctorLin_ok m.gamma m.indexOffset h
  refine ⟨_, ?_, rfl, hg, ho⟩
  rw [FromProto_linear fuel _ rfl]
  show Res.ok (_, (NewLinearlyInterpolatedMappingWithGamma m.gamma m.indexOffset).2) = _
  rw [he]
  rfl

theorem cub_roundtrip (fuel : Nat) (m : CubicallyInterpolatedMapping F)
    (h : MOps.le m.gamma (MOps.ofInt 1 : F) = false) :
    ∃ m', FromProto fuel (some (CubicallyInterpolatedMapping.ToProto m)) =
        .ok (IndexMapping.CubicallyInterpolatedMapping m', GoErr.nil) ∧
      m' = (NewCubicallyInterpolatedMappingWithGamma m.gamma m.indexOffset).1 ∧
      m'.gamma = m.gamma ∧ m'.indexOffset = m.indexOffset := by
  obtain ⟨he, hg, ho⟩ := ctorCub_ok m.gamma m.indexOffset h
  refine ⟨_, ?_, rfl, hg, ho⟩
  rw [FromProto_cubic fuel _ rfl]
  show Res.ok (_, (NewCubicallyInterpolatedMappingWithGamma m.gamma m.indexOffset).2) = _
  rw [he]
  rfl

/-- **exact round trip of every mapping the constructor built** (all five fields), for every `F`: the message
    carries the two arguments of the constructor, and the constructor is a function -/
theorem log_roundtrip_ctor (fuel : Nat) (g o : F) (h : MOps.le g (MOps.ofInt 1 : F) = false) :
    FromProto fuel (some (LogarithmicMapping.ToProto (NewLogarithmicMappingWithGamma g o).1)) =
      .ok (IndexMapping.LogarithmicMapping (NewLogarithmicMappingWithGamma g o).1, GoErr.nil) := by
  obtain ⟨he, hg, ho⟩ := ctorLog_ok g o h
  rw [FromProto_none fuel _ rfl]
  show Res.ok (IndexMapping.LogarithmicMapping (NewLogarithmicMappingWithGamma
    (NewLogarithmicMappingWithGamma g o).1.gamma (NewLogarithmicMappingWithGamma g o).1.indexOffset).1,
    (NewLogarithmicMappingWithGamma
    (NewLogarithmicMappingWithGamma g o).1.gamma (NewLogarithmicMappingWithGamma g o).1.indexOffset).2) = _
  rw [hg, ho, he]

theorem lin_roundtrip_ctor (fuel : Nat) (g o : F) (h : MOps.le g (MOps.ofInt 1 : F) = false) :
    FromProto fuel (some (LinearlyInterpolatedMapping.ToProto (NewLinearlyInterpolatedMappingWithGamma g o).1)) =
      .ok (IndexMapping.LinearlyInterpolatedMapping (NewLinearlyInterpolatedMappingWithGamma g o).1, GoErr.nil) := by
  obtain ⟨he, hg, ho⟩ := ctorLin_ok g o h
  rw [FromProto_linear fuel _ rfl]
  show Res.ok (IndexMapping.LinearlyInterpolatedMapping (NewLinearlyInterpolatedMappingWithGamma
    (NewLinearlyInterpolatedMappingWithGamma g o).1.gamma
    (NewLinearlyInterpolatedMappingWithGamma g o).1.indexOffset).1,
    (NewLinearlyInterpolatedMappingWithGamma
    (NewLinearlyInterpolatedMappingWithGamma g o).1.gamma
    (NewLinearlyInterpolatedMappingWithGamma g o).1.indexOffset).2) = _
  rw [hg, ho, he]

theorem cub_roundtrip_ctor (fuel : Nat) (g o : F) (h : MOps.le g (MOps.ofInt 1 : F) = false) :
    FromProto fuel (some (CubicallyInterpolatedMapping.ToProto (NewCubicallyInterpolatedMappingWithGamma g o).1)) =
      .ok (IndexMapping.CubicallyInterpolatedMapping (NewCubicallyInterpolatedMappingWithGamma g o).1, GoErr.nil) := by
  obtain ⟨he, hg, ho⟩ := ctorCub_ok g o h
  rw [FromProto_cubic fuel _ rfl]
  show Res.ok (IndexMapping.CubicallyInterpolatedMapping (NewCubicallyInterpolatedMappingWithGamma
    (NewCubicallyInterpolatedMappingWithGamma g o).1.gamma
    (NewCubicallyInterpolatedMappingWithGamma g o).1.indexOffset).1,
    (NewCubicallyInterpolatedMappingWithGamma
    (NewCubicallyInterpolatedMappingWithGamma g o).1.gamma
    (NewCubicallyInterpolatedMappingWithGamma g o).1.indexOffset).2) = _
  rw [hg, ho, he]

end generic

end DDS.GenProtoSketch
