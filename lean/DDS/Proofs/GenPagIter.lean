/-
  DDS.Proofs.GenPagIter — the REGENERATED `BufferedPaginatedStore.ForEach` and same-kind `MergeWith`
  (`DDS/Generated/CodePaginated.lean`) against the hand model `DDS.PStore` (`binsList`, `mergeSame`).

  ForEach.  The generated `ForEach fuel s f` takes a pure stop callback `f : Int → Rat → Res Bool` and returns only
  the (buffer-sorted) store.  `visit f g l` is the model-side walker over a list of bins: call `f` on each bin in
  order, stop with `.ok g` at the first `.ok true`, propagate `.panic`/`.nofuel` of `f`, `.ok g` at the end.
    * `forEach_eq_visit` (MAIN): for EVERY store, capacity and callback,
        `ForEach fuel (toGen s cap) f = visit f (toGen s.sortRead cap) s.binsList`   when `forEachFuel s ≤ fuel`,
      `forEachFuel s = s.buffer.length + 1` (the page loops are structural; only the run scanners
      `loop5/loop6/loop1/loop2` consume fuel, and they walk the buffer once).  No store invariant is needed: the
      loop invariant is `buffer = pre ++ expand rs ∧ RunsOK rs` (the consumed prefix and the remaining runs),
      `bufferPos = pre.length`; sortedness of the buffer is not used.
    * calls made (`visitTrace f l` = arguments of the calls of the walk): `forEach_congr_trace` (values of `f`
      outside the trace are irrelevant), `forEach_panic_of_mem_trace` (a panic planted on a bin of the trace is hit),
      `visitTrace_pred`/`forEach_pred` (for a total predicate the trace is `uptoFirst p binsList` = the bins up to
      and including the first `true`), `forEach_all` (never stopping: all bins, result = store with sorted buffer).


  MergeWith.
    * `mergeWith_fallback`: `pageLenLog2` differ ⇒ the generated function returns the oracle `mergeFallback s o`.
    * the model generalised: `mergeSameBits s o bits` = page phase of `mergeSame` (`mergePages`), then
      `addUnitsBits` (fold of `addUnit` with the compaction bits `bits`; missing bits are `true`), so that
      `mergeSameBits s o [] = s.mergeSame o` (`mergeSameBits_nil`): the hand model ALWAYS compacts, the generated
      code compacts when `len(buffer) = cap(buffer)`.
    * `mergeWith_same` (MAIN, first half): under `PageSpec`, `AddSpec af`, for EVERY `s o cap cap' grow`, with
      `s.pageLenLog2 = o.pageLenLog2` and `mergeFuel af s o ≤ fuel`:
        `∃ bits, bits.length = o.buffer.length ∧ ROk (MergeWith fuel grow mf (toGen s cap) (toGen o cap')) (mergeSameBits s o bits)`
      (panic ↔ `none`, no `nofuel`).  No invariant.  The page phase is an equation (`mw_loop2`, `mw_loop3`:
      `loop2/loop3 = fold of mergePageBody / addAtPage`).
      `mergeFuel af s o = max ((s.minPageIndex - o.minPageIndex + 9).toNat + 2) (addsFuel af s1 o.buffer)`, `s1` the
      store after the page phase: `page` clears a left extension at most once (afterwards `minPageIndex ≤` the
      page asked for); `addsFuel` is the largest `af` over the stores reachable by the adds under any bits.
    * `mergeSameBits_ok`, `mergeWith_same_content` (second half): for `Inv s`, `Inv o` (the invariant contains "all
      indexes int32") the generated merge returns `.ok g'` with `Rel g' s'`, `Inv s'`,
      `content s' = (content s).merge (content o)`, the same for `abs`, and `wt s' j = wt s j + wt o j`.

  No disagreement between generated code and model was found (the only difference is the compaction schedule of the
  buffer phase of `mergeSame`, which is why that result is stated through the bits / through `content`).
-/
import DDS.Proofs.GenPagDefs
import DDS.Proofs.Paginated

namespace DDS.GenPag

open DDS DDS.GoSem DDS.GenDense
open DDS.Gen.Paginated
open DDS.PStore (castRuns runs mergeIter linesOf linesFrom)

/-! ## the walker -/

/-- walk a list of bins calling `f`; stop at the first `true`; then continue with `r` -/
def visitR (f : Int → Rat → Res Bool) (g : GP) : List (Int × Rat) → Res GP → Res GP
  | [], r => r
  | (i, c) :: rest, r => (f i c).bind (fun b => if b then .ok g else visitR f g rest r)

/-- `ForEach` as the model sees it: `f` is called on each bin in order until it answers `true` -/
def visit (f : Int → Rat → Res Bool) (g : GP) (l : List (Int × Rat)) : Res GP := visitR f g l (.ok g)

/-- the same inside a loop -/
def visitL {σ : Type} (f : Int → Rat → Res Bool) (g : GP) : List (Int × Rat) → Loop σ GP → Loop σ GP
  | [], k => k
  | (i, c) :: rest, k => (f i c).bindL (fun b => if b then .ret g else visitL f g rest k)

theorem visitL_append {σ : Type} (f : Int → Rat → Res Bool) (g : GP) (a b : List (Int × Rat)) (k : Loop σ GP) :
    visitL f g (a ++ b) k = visitL f g a (visitL f g b k) := by
  induction a with
  | nil => rfl
  | cons p a ih =>
    obtain ⟨i, c⟩ := p
    simp only [List.cons_append, visitL, ih]

theorem visitR_append (f : Int → Rat → Res Bool) (g : GP) (a b : List (Int × Rat)) (r : Res GP) :
    visitR f g (a ++ b) r = visitR f g a (visitR f g b r) := by
  induction a with
  | nil => rfl
  | cons p a ih =>
    obtain ⟨i, c⟩ := p
    simp only [List.cons_append, visitR, ih]

theorem elimL_visitL {σ σ' : Type} (f : Int → Rat → Res Bool) (g : GP) (l : List (Int × Rat)) (k : Loop σ GP)
    (K : σ → Loop σ' GP) :
    Loop.elimL (visitL f g l k) K = visitL f g l (Loop.elimL k K) := by
  induction l with
  | nil => rfl
  | cons p l ih =>
    obtain ⟨i, c⟩ := p
    simp only [visitL]
    cases f i c with
    | ok b =>
      cases b with
      | false => exact ih
      | true => rfl
    | panic => rfl
    | nofuel => rfl

theorem elim_visitL {σ : Type} (f : Int → Rat → Res Bool) (g : GP) (l : List (Int × Rat)) (k : Loop σ GP)
    (K : σ → Res GP) :
    Loop.elim (visitL f g l k) K = visitR f g l (Loop.elim k K) := by
  induction l with
  | nil => rfl
  | cons p l ih =>
    obtain ⟨i, c⟩ := p
    simp only [visitL, visitR]
    cases f i c with
    | ok b =>
      cases b with
      | false => exact ih
      | true => rfl
    | panic => rfl
    | nofuel => rfl

/-! ## runs as a decomposition of the buffer -/

/-- the list a run-length encoding denotes -/
def expand (rs : List (Int × Nat)) : List Int := rs.flatMap (fun r => List.replicate r.2 r.1)

/-- a run-length encoding with non-empty, maximal runs -/
def RunsOK : List (Int × Nat) → Prop
  | [] => True
  | r :: more => 0 < r.2 ∧ (∀ r' ∈ more.head?, r'.1 ≠ r.1) ∧ RunsOK more

@[simp] theorem expand_nil : expand [] = [] := rfl
theorem expand_cons (r : Int × Nat) (rs : List (Int × Nat)) :
    expand (r :: rs) = List.replicate r.2 r.1 ++ expand rs := by
  simp [expand]

theorem expand_runs (l : List Int) : expand (runs l) = l := by
  induction l with
  | nil => rfl
  | cons x xs ih =>
    rw [PStore.runs_cons]
    split
    · rename_i y n more heq
      rw [heq, expand_cons] at ih
      split
      · rename_i hxy
        subst hxy
        rw [expand_cons, ← ih]
        simp [List.replicate_succ]
      · rw [expand_cons, expand_cons, ← ih]
        simp
    · rename_i heq
      rw [heq] at ih
      have hx : xs = [] := ih.symm
      subst hx
      simp [expand_cons]

theorem runsOK_runs (l : List Int) : RunsOK (runs l) := by
  induction l with
  | nil => trivial
  | cons x xs ih =>
    rw [PStore.runs_cons]
    split
    · rename_i y n more heq
      rw [heq] at ih
      obtain ⟨h1, h2, h3⟩ := ih
      split
      · exact ⟨Nat.succ_pos _, h2, h3⟩
      · rename_i hne
        refine ⟨Nat.one_pos, ?_, h1, h2, h3⟩
        intro r' hr'
        simp at hr'
        subst hr'
        exact fun h => hne h.symm
    · exact ⟨Nat.one_pos, by simp, trivial⟩

theorem head_expand (rs : List (Int × Nat)) (h : RunsOK rs) : (expand rs).head? = rs.head?.map (·.1) := by
  cases rs with
  | nil => rfl
  | cons r more =>
    obtain ⟨h1, _, _⟩ := h
    rw [expand_cons]
    obtain ⟨y, n⟩ := r
    cases n with
    | zero => simp at h1
    | succ n => simp [List.replicate_succ]

theorem fe_idx_nat {α : Type} (l : List α) (n : Nat) : GoSem.idx l (n : Int) = l[n]? := by
  unfold GoSem.idx
  simp

/-! ## the run scanners `loop6` / `loop2` -/

theorem fe_loop6_run (g : GP) (st : Nat) (y : Int) (hst : g.buffer[st]? = some y) :
    ∀ (m p fuel : Nat), (∀ j, p ≤ j → j < p + m → g.buffer[j]? = some y) →
      g.buffer[p + m]? ≠ some y → m + 1 ≤ fuel →
      BufferedPaginatedStore.ForEach.loop6 g (st : Int) fuel (p : Int) = .done ((p + m : Nat) : Int) := by
  intro m
  induction m with
  | zero =>
    intro p fuel _ hend hf
    obtain ⟨fuel, rfl⟩ : ∃ k, fuel = k + 1 := ⟨fuel - 1, by omega⟩
    unfold BufferedPaginatedStore.ForEach.loop6
    by_cases hp : p < g.buffer.length
    · obtain ⟨z, hz⟩ : ∃ z, g.buffer[p]? = some z := ⟨g.buffer[p], List.getElem?_eq_getElem hp⟩
      have hne : z ≠ y := by
        intro h; subst h; exact hend (by simpa using hz)
      have hb : (z == y) = false := by simpa using hne
      simp only [GoSem.len, fe_idx_nat, hst, hz, optL_some, hb]
      rw [if_pos (by simpa using hp)]
      rfl
    · rw [if_neg (by simpa [GoSem.len] using hp)]
      rfl
  | succ m ih =>
    intro p fuel hrun hend hf
    obtain ⟨fuel, rfl⟩ : ∃ k, fuel = k + 1 := ⟨fuel - 1, by omega⟩
    have hp : g.buffer[p]? = some y := hrun p (Nat.le_refl _) (by omega)
    obtain ⟨hlt, _⟩ := List.getElem?_eq_some_iff.1 hp
    have e : (p : Int) + 1 = ((p + 1 : Nat) : Int) := by omega
    unfold BufferedPaginatedStore.ForEach.loop6
    simp only [GoSem.len, fe_idx_nat, hst, hp, optL_some, beq_self_eq_true, if_true]
    rw [if_pos (by simpa using hlt), e, ih (p + 1) fuel (fun j h1 h2 => hrun j (by omega) (by omega))
      (by rw [show p + 1 + m = p + (m + 1) by omega]; exact hend) (by omega)]
    congr 2; omega

theorem fe_loop2_eq_loop6 (g : GP) (st : Int) : ∀ (fuel : Nat) (p : Int),
    BufferedPaginatedStore.ForEach.loop2 g st fuel p = BufferedPaginatedStore.ForEach.loop6 g st fuel p := by
  intro fuel
  induction fuel with
  | zero => intro p; rfl
  | succ n ih =>
    intro p
    unfold BufferedPaginatedStore.ForEach.loop2 BufferedPaginatedStore.ForEach.loop6
    simp only [ih]

/-- element facts of a buffer that decomposes as `pre ++ expand ((y, n) :: more)` -/
theorem fe_run_facts (B pre : List Int) (y : Int) (n : Nat) (more : List (Int × Nat))
    (hB : B = pre ++ expand ((y, n) :: more)) (hok : RunsOK ((y, n) :: more)) :
    (∀ j, j < n → B[pre.length + j]? = some y) ∧ B[pre.length + n]? ≠ some y := by
  obtain ⟨hn, hhead, hmore⟩ := hok
  rw [expand_cons] at hB
  subst hB
  constructor
  · intro j hj
    rw [List.getElem?_append_right (by omega)]
    simp [List.getElem?_append_left, hj]
  · rw [List.getElem?_append_right (by omega), Nat.add_sub_cancel_left,
      List.getElem?_append_right (by simp)]
    simp only [List.length_replicate, Nat.sub_self]
    rw [← List.head?_eq_getElem?, head_expand more hmore]
    intro h
    cases more with
    | nil => simp at h
    | cons r' t =>
      simp at h
      exact hhead r' (by simp) h

/-! ## one page line against the runs: the pieces of `mergeIter` -/

/-- runs strictly before `idx` -/
def takeLt (idx : Int) (rs : List (Int × Nat)) : List (Int × Nat) := rs.takeWhile (fun r => decide (r.1 < idx))
/-- runs left once the line `idx` has been emitted -/
def afterRest (idx : Int) (rs : List (Int × Nat)) : List (Int × Nat) :=
  match rs.dropWhile (fun r => decide (r.1 < idx)) with
  | (y, n) :: after' => if y = idx then after' else (y, n) :: after'
  | [] => []
/-- buffer entries merged into the line `idx` -/
def mergedN (idx : Int) (rs : List (Int × Nat)) : Nat :=
  match rs.dropWhile (fun r => decide (r.1 < idx)) with
  | (y, n) :: _ => if y = idx then n else 0
  | [] => 0

theorem pieces_lt (idx y : Int) (n : Nat) (more : List (Int × Nat)) (h : y < idx) :
    takeLt idx ((y, n) :: more) = (y, n) :: takeLt idx more ∧
    afterRest idx ((y, n) :: more) = afterRest idx more ∧
    mergedN idx ((y, n) :: more) = mergedN idx more := by
  simp [takeLt, afterRest, mergedN, h]

theorem pieces_eq (idx : Int) (n : Nat) (more : List (Int × Nat)) :
    takeLt idx ((idx, n) :: more) = [] ∧
    afterRest idx ((idx, n) :: more) = more ∧
    mergedN idx ((idx, n) :: more) = n := by
  simp [takeLt, afterRest, mergedN]

theorem pieces_gt (idx y : Int) (n : Nat) (more : List (Int × Nat)) (h : idx < y) :
    takeLt idx ((y, n) :: more) = [] ∧
    afterRest idx ((y, n) :: more) = (y, n) :: more ∧
    mergedN idx ((y, n) :: more) = 0 := by
  have h1 : ¬ y < idx := by omega
  have h2 : ¬ y = idx := by omega
  simp [takeLt, afterRest, mergedN, h1, h2]

theorem mergeIter_cons_nz (idx : Int) (c : Rat) (more : List (Int × Rat)) (rs : List (Int × Nat)) (hc : c ≠ 0) :
    mergeIter ((idx, c) :: more) rs =
      castRuns (takeLt idx rs) ++ (idx, c + (mergedN idx rs : Rat)) :: mergeIter more (afterRest idx rs) := by
  rw [mergeIter, if_neg hc]
  simp only [takeLt, afterRest, mergedN]
  cases hd : List.dropWhile (fun r => decide (r.1 < idx)) rs with
  | nil => simp [castRuns]
  | cons r t =>
    obtain ⟨y, n⟩ := r
    by_cases h : y = idx <;> simp [h, castRuns]

theorem runsOK_tail {r : Int × Nat} {more : List (Int × Nat)} (h : RunsOK (r :: more)) : RunsOK more := h.2.2

theorem runsOK_afterRest (idx : Int) : ∀ (rs : List (Int × Nat)), RunsOK rs → RunsOK (afterRest idx rs) := by
  intro rs
  induction rs with
  | nil => intro _; trivial
  | cons r more ih =>
    intro h
    obtain ⟨y, n⟩ := r
    by_cases h1 : y < idx
    · rw [(pieces_lt idx y n more h1).2.1]; exact ih (runsOK_tail h)
    · by_cases h2 : y = idx
      · subst h2; rw [(pieces_eq y n more).2.1]; exact runsOK_tail h
      · rw [(pieces_gt idx y n more (by omega)).2.1]; exact h

/-! ## `loop5`: drain the runs up to a page line -/

theorem fe_loop5_spec (g : GP) (index : Int) (f : Int → Rat → Res Bool) :
    ∀ (rs : List (Int × Nat)) (pre : List Int) (fuel : Nat) (st0 : Int),
      g.buffer = pre ++ expand rs → RunsOK rs → (expand rs).length + 1 ≤ fuel →
      ∃ (pre' : List Int) (st : Int), g.buffer = pre' ++ expand (afterRest index rs) ∧
        (pre'.length : Int) - st = (mergedN index rs : Int) ∧
        BufferedPaginatedStore.ForEach.loop5 g index f fuel st0 (pre.length : Int)
          = visitL f g (castRuns (takeLt index rs)) (.done (st, (pre'.length : Int))) := by
  intro rs
  induction rs with
  | nil =>
    intro pre fuel st0 hB _ hf
    obtain ⟨fuel, rfl⟩ : ∃ k, fuel = k + 1 := ⟨fuel - 1, by omega⟩
    refine ⟨pre, (pre.length : Int), hB, by simp [mergedN], ?_⟩
    unfold BufferedPaginatedStore.ForEach.loop5
    have hl : g.buffer.length = pre.length := by rw [hB]; simp
    simp only [GoSem.len, hl]
    rw [if_pos (by simp)]
    rfl
  | cons r more ih =>
    intro pre fuel st0 hB hok hf
    obtain ⟨y, n⟩ := r
    obtain ⟨hget, hend⟩ := fe_run_facts g.buffer pre y n more hB hok
    have hn : 0 < n := hok.1
    have hmore : RunsOK more := hok.2.2
    have hlen : g.buffer.length = pre.length + n + (expand more).length := by
      rw [hB, expand_cons]; simp; omega
    rw [expand_cons] at hf
    simp only [List.length_append, List.length_replicate] at hf
    obtain ⟨fuel, rfl⟩ : ∃ k, fuel = k + 1 := ⟨fuel - 1, by omega⟩
    have h0 : g.buffer[pre.length]? = some y := by simpa using hget 0 hn
    unfold BufferedPaginatedStore.ForEach.loop5
    simp only [GoSem.len, fe_idx_nat, h0, optL_some]
    rw [if_neg (by simp; omega)]
    by_cases hlt : index < y
    · rw [if_pos (by simpa using hlt)]
      obtain ⟨e1, e2, e3⟩ := pieces_gt index y n more hlt
      refine ⟨pre, (pre.length : Int), by rw [e2]; exact hB, by rw [e3]; simp, ?_⟩
      rw [e1]; rfl
    · rw [if_neg (by simpa using hlt)]
      have e : (pre.length : Int) + 1 = ((pre.length + 1 : Nat) : Int) := by omega
      rw [e, fe_loop6_run g pre.length y h0 (n - 1) (pre.length + 1) fuel
        (fun j h1 h2 => by
          have := hget (j - pre.length) (by omega)
          rwa [show pre.length + (j - pre.length) = j by omega] at this)
        (by rw [show pre.length + 1 + (n - 1) = pre.length + n by omega]; exact hend) (by omega)]
      simp only [Loop.elimL]
      have epos : pre.length + 1 + (n - 1) = (pre ++ List.replicate n y).length := by simp; omega
      rw [epos]
      have hB' : g.buffer = (pre ++ List.replicate n y) ++ expand more := by
        rw [hB, expand_cons]; simp
      by_cases heq : y = index
      · subst heq
        obtain ⟨e1, e2, e3⟩ := pieces_eq y n more
        refine ⟨pre ++ List.replicate n y, (pre.length : Int), by rw [e2]; exact hB', by rw [e3]; simp, ?_⟩
        rw [e1]; simp [visitL]
      · obtain ⟨e1, e2, e3⟩ := pieces_lt index y n more (by omega)
        obtain ⟨pre', st, h1, h2, h3⟩ := ih (pre ++ List.replicate n y) fuel (pre.length : Int) hB' hmore (by omega)
        refine ⟨pre', st, by rw [e2]; exact h1, by rw [e3]; exact h2, ?_⟩
        have hb : (y == index) = false := by simpa using heq
        have ecnt : (((pre ++ List.replicate n y).length : Int) - (pre.length : Int)) = (n : Int) := by
          simp
        rw [e1]
        simp only [hb, castRuns, List.map_cons, visitL, ecnt, h3]
        rfl

/-! ## `mergeIter` split into what a block of lines emits and what it leaves -/

def emitted : List (Int × Rat) → List (Int × Nat) → List (Int × Rat)
  | [], _ => []
  | (idx, c) :: more, rs =>
    if c = 0 then emitted more rs
    else castRuns (takeLt idx rs) ++ (idx, c + (mergedN idx rs : Rat)) :: emitted more (afterRest idx rs)

def remaining : List (Int × Rat) → List (Int × Nat) → List (Int × Nat)
  | [], rs => rs
  | (idx, c) :: more, rs => if c = 0 then remaining more rs else remaining more (afterRest idx rs)

theorem mergeIter_split (a : List (Int × Rat)) : ∀ rs : List (Int × Nat),
    mergeIter a rs = emitted a rs ++ castRuns (remaining a rs) := by
  induction a with
  | nil => intro rs; simp [emitted, remaining]
  | cons p a ih =>
    intro rs
    obtain ⟨idx, c⟩ := p
    by_cases hc : c = 0
    · rw [PStore.mergeIter_cons_zero _ _ _ _ hc, emitted, remaining, if_pos hc, if_pos hc]; exact ih rs
    · rw [mergeIter_cons_nz _ _ _ _ hc, emitted, remaining, if_neg hc, if_neg hc, ih]; simp

theorem emitted_append (a b : List (Int × Rat)) : ∀ rs : List (Int × Nat),
    emitted (a ++ b) rs = emitted a rs ++ emitted b (remaining a rs) := by
  induction a with
  | nil => intro rs; simp [emitted, remaining]
  | cons p a ih =>
    intro rs
    obtain ⟨idx, c⟩ := p
    by_cases hc : c = 0
    · simp only [List.cons_append, emitted, remaining, if_pos hc]; exact ih rs
    · simp only [List.cons_append, emitted, remaining, if_neg hc, ih]; simp

theorem remaining_append (a b : List (Int × Rat)) : ∀ rs : List (Int × Nat),
    remaining (a ++ b) rs = remaining b (remaining a rs) := by
  induction a with
  | nil => intro rs; simp [remaining]
  | cons p a ih =>
    intro rs
    obtain ⟨idx, c⟩ := p
    by_cases hc : c = 0
    · simp only [List.cons_append, remaining, if_pos hc]; exact ih rs
    · simp only [List.cons_append, remaining, if_neg hc, ih]

theorem runsOK_remaining (a : List (Int × Rat)) : ∀ rs : List (Int × Nat), RunsOK rs → RunsOK (remaining a rs) := by
  induction a with
  | nil => intro rs h; exact h
  | cons p a ih =>
    intro rs h
    obtain ⟨idx, c⟩ := p
    by_cases hc : c = 0
    · simp only [remaining, if_pos hc]; exact ih rs h
    · simp only [remaining, if_neg hc]; exact ih _ (runsOK_afterRest idx rs h)

theorem expand_length_le (g : GP) (pre : List Int) (rs : List (Int × Nat)) (h : g.buffer = pre ++ expand rs) :
    (expand rs).length ≤ g.buffer.length := by
  rw [h]; simp

theorem fe_index_eq (s : PStore) (cap : Int) (p : Int) (l : Nat) :
    BufferedPaginatedStore.index (toGen s cap) p (l : Int) = s.index p l := by
  unfold BufferedPaginatedStore.index PStore.index PStore.pageLen
  simp

/-! ## `loop4` (one page), `loop3` (all pages), `loop1` (the rest of the buffer) -/

theorem fe_loop4_spec (s : PStore) (cap : Int) (off : Int) (f : Int → Rat → Res Bool) (fuel : Nat)
    (hf : (toGen s cap).buffer.length + 1 ≤ fuel) :
    ∀ (ys : List Rat) (m : Nat) (rs : List (Int × Nat)) (pre : List Int),
      (toGen s cap).buffer = pre ++ expand rs → RunsOK rs →
      ∃ pre' : List Int,
        (toGen s cap).buffer = pre' ++ expand (remaining (linesOf s (s.minPageIndex + off) ys m) rs) ∧
        BufferedPaginatedStore.ForEach.loop4 fuel (toGen s cap) off f ys (m : Int) (pre.length : Int)
          = visitL f (toGen s cap) (emitted (linesOf s (s.minPageIndex + off) ys m) rs)
              (.done (pre'.length : Int)) := by
  intro ys
  induction ys with
  | nil =>
    intro m rs pre hB _
    exact ⟨pre, hB, rfl⟩
  | cons y ys ih =>
    intro m rs pre hB hok
    have e : (m : Int) + 1 = ((m + 1 : Nat) : Int) := by omega
    rw [PStore.linesOf_cons]
    unfold BufferedPaginatedStore.ForEach.loop4
    by_cases hc : y = 0
    · have hb : (y == (0 : Rat)) = true := by simpa using hc
      simp only [hb, if_true, emitted, remaining, if_pos hc]
      rw [e]
      exact ih (m + 1) rs pre hB hok
    · have hb : (y == (0 : Rat)) = false := by simpa using hc
      simp only [hb, emitted, remaining, if_neg hc, toGen_minPageIndex, fe_index_eq]
      obtain ⟨pre1, st, h1, h2, h3⟩ := fe_loop5_spec (toGen s cap) (s.index (s.minPageIndex + off) m) f rs pre fuel 0 hB hok
        (by have := expand_length_le _ _ _ hB; omega)
      obtain ⟨pre', h4, h5⟩ := ih (m + 1) _ pre1 h1 (runsOK_afterRest _ rs hok)
      refine ⟨pre', h4, ?_⟩
      rw [h3, elimL_visitL, visitL_append]
      simp only [Loop.elimL, visitL, h2, Bool.false_eq_true, if_false]
      rw [e, h5]
      simp

theorem fe_loop3_spec (s : PStore) (cap : Int) (f : Int → Rat → Res Bool) (fuel : Nat)
    (hf : (toGen s cap).buffer.length + 1 ≤ fuel) :
    ∀ (xs : List (Array Rat)) (n : Nat) (rs : List (Int × Nat)) (pre : List Int),
      (toGen s cap).buffer = pre ++ expand rs → RunsOK rs →
      ∃ pre' : List Int,
        (toGen s cap).buffer = pre' ++ expand (remaining (linesFrom s xs n) rs) ∧
        BufferedPaginatedStore.ForEach.loop3 fuel (toGen s cap) f (xs.map Array.toList) (n : Int) (pre.length : Int)
          = visitL f (toGen s cap) (emitted (linesFrom s xs n) rs) (.done (pre'.length : Int)) := by
  intro xs
  induction xs with
  | nil =>
    intro n rs pre hB _
    exact ⟨pre, hB, rfl⟩
  | cons pg xs ih =>
    intro n rs pre hB hok
    have e : (n : Int) + 1 = ((n + 1 : Nat) : Int) := by omega
    rw [PStore.linesFrom_cons, emitted_append, remaining_append]
    obtain ⟨pre1, h1, h2⟩ := fe_loop4_spec s cap (n : Int) f fuel hf pg.toList 0 rs pre hB hok
    obtain ⟨pre', h3, h4⟩ := ih (n + 1) _ pre1 h1 (runsOK_remaining _ rs hok)
    refine ⟨pre', h3, ?_⟩
    simp only [List.map_cons]
    unfold BufferedPaginatedStore.ForEach.loop3
    have h2' := h2
    simp only [Int.natCast_zero] at h2'
    rw [h2', elimL_visitL, visitL_append]
    simp only [Loop.elimL]
    rw [e, h4]

theorem fe_loop1_spec (g : GP) (f : Int → Rat → Res Bool) :
    ∀ (rs : List (Int × Nat)) (pre : List Int) (fuel : Nat),
      g.buffer = pre ++ expand rs → RunsOK rs → (expand rs).length + 1 ≤ fuel →
      BufferedPaginatedStore.ForEach.loop1 g f fuel (pre.length : Int)
        = visitL f g (castRuns rs) (.done (g.buffer.length : Int)) := by
  intro rs
  induction rs with
  | nil =>
    intro pre fuel hB _ hf
    obtain ⟨fuel, rfl⟩ : ∃ k, fuel = k + 1 := ⟨fuel - 1, by omega⟩
    have hl : g.buffer.length = pre.length := by rw [hB]; simp
    unfold BufferedPaginatedStore.ForEach.loop1
    simp only [GoSem.len, hl]
    rw [if_neg (by simp)]
    rfl
  | cons r more ih =>
    intro pre fuel hB hok hf
    obtain ⟨y, n⟩ := r
    obtain ⟨hget, hend⟩ := fe_run_facts g.buffer pre y n more hB hok
    have hn : 0 < n := hok.1
    have hmore : RunsOK more := hok.2.2
    have hlen : g.buffer.length = pre.length + n + (expand more).length := by
      rw [hB, expand_cons]; simp; omega
    rw [expand_cons] at hf
    simp only [List.length_append, List.length_replicate] at hf
    obtain ⟨fuel, rfl⟩ : ∃ k, fuel = k + 1 := ⟨fuel - 1, by omega⟩
    have h0 : g.buffer[pre.length]? = some y := by simpa using hget 0 hn
    unfold BufferedPaginatedStore.ForEach.loop1
    have hlt : decide ((pre.length : Int) < GoSem.len g.buffer) = true := by
      simp [GoSem.len]; omega
    rw [if_pos hlt]
    have e : (pre.length : Int) + 1 = ((pre.length + 1 : Nat) : Int) := by omega
    simp only []
    rw [e, fe_loop2_eq_loop6, fe_loop6_run g pre.length y h0 (n - 1) (pre.length + 1) fuel
      (fun j h1 h2 => by
        have := hget (j - pre.length) (by omega)
        rwa [show pre.length + (j - pre.length) = j by omega] at this)
      (by rw [show pre.length + 1 + (n - 1) = pre.length + n by omega]; exact hend) (by omega)]
    have epos : pre.length + 1 + (n - 1) = (pre ++ List.replicate n y).length := by simp; omega
    have hB' : g.buffer = (pre ++ List.replicate n y) ++ expand more := by
      rw [hB, expand_cons]; simp
    have ecnt : (((pre ++ List.replicate n y).length : Int) - (pre.length : Int)) = (n : Int) := by
      simp
    simp only [Loop.elimL, fe_idx_nat, h0, optL_some, epos, ecnt, castRuns, List.map_cons, visitL]
    rw [ih (pre ++ List.replicate n y) fuel hB' hmore (by omega)]
    simp [castRuns]

/-! ## `ForEach` -/

/-- fuel that `ForEach` needs: the run scanners walk the buffer once (the page loops are structural) -/
def forEachFuel (s : PStore) : Nat := s.buffer.length + 1

theorem fe_sortBuffer_toGen (s : PStore) (cap : Int) :
    BufferedPaginatedStore.sortBuffer (toGen s cap) = toGen s.sortRead cap := rfl

/-- MAIN (ForEach): the generated iteration is the walk of the model's `binsList` -/
theorem forEach_eq_visit (s : PStore) (cap : Int) (f : Int → Rat → Res Bool) (fuel : Nat)
    (hf : forEachFuel s ≤ fuel) :
    BufferedPaginatedStore.ForEach fuel (toGen s cap) f = visit f (toGen s.sortRead cap) s.binsList := by
  unfold BufferedPaginatedStore.ForEach
  simp only [fe_sortBuffer_toGen]
  have hB : (toGen s.sortRead cap).buffer = [] ++ expand (runs (PStore.sortInts s.buffer)) := by
    rw [expand_runs]; rfl
  have hlen : (toGen s.sortRead cap).buffer.length + 1 ≤ fuel := by
    show (PStore.sortInts s.buffer).length + 1 ≤ fuel
    rw [PStore.length_sortInts]; exact hf
  obtain ⟨pre', h1, h2⟩ := fe_loop3_spec s.sortRead cap f fuel hlen s.pages.toList 0 _ [] hB (runsOK_runs _)
  have h2' : BufferedPaginatedStore.ForEach.loop3 fuel (toGen s.sortRead cap) f (toGen s.sortRead cap).pages 0 0
      = visitL f (toGen s.sortRead cap) (emitted (linesFrom s.sortRead s.pages.toList 0) (runs (PStore.sortInts s.buffer)))
          (.done (pre'.length : Int)) := h2
  rw [h2', elim_visitL]
  simp only [Loop.elim_done]
  rw [fe_loop1_spec _ f _ pre' fuel h1 (runsOK_remaining _ _ (runsOK_runs _))
    (by have := expand_length_le _ _ _ h1; omega), elim_visitL]
  simp only [Loop.elim_done]
  rw [← visitR_append]
  have e : s.binsList = emitted (linesFrom s.sortRead s.pages.toList 0) (runs (PStore.sortInts s.buffer)) ++
      castRuns (remaining (linesFrom s.sortRead s.pages.toList 0) (runs (PStore.sortInts s.buffer))) := by
    rw [← mergeIter_split]; rfl
  rw [visit, e]

/-! ### which calls `ForEach` makes -/

/-- the arguments of the calls to `f` that the walk makes, in order -/
def visitTrace (f : Int → Rat → Res Bool) : List (Int × Rat) → List (Int × Rat)
  | [] => []
  | (i, c) :: rest => (i, c) :: (match f i c with | .ok false => visitTrace f rest | _ => [])

/-- the prefix of `l` up to and including the first bin on which `p` answers `true` -/
def uptoFirst (p : Int → Rat → Bool) (l : List (Int × Rat)) : List (Int × Rat) :=
  l.takeWhile (fun x => !p x.1 x.2) ++ (l.dropWhile (fun x => !p x.1 x.2)).take 1

/-- (a) for a total stop predicate the calls are exactly the bins up to and including the first `true` -/
theorem visitTrace_pred (p : Int → Rat → Bool) (l : List (Int × Rat)) :
    visitTrace (fun i c => .ok (p i c)) l = uptoFirst p l := by
  induction l with
  | nil => rfl
  | cons x rest ih =>
    obtain ⟨i, c⟩ := x
    unfold uptoFirst at ih ⊢
    simp only [visitTrace, List.takeWhile_cons, List.dropWhile_cons]
    cases hp : p i c with
    | false => simp [ih]
    | true => simp

/-- the walk only depends on the values of `f` on its trace … -/
theorem visitR_congr_trace (f f' : Int → Rat → Res Bool) (g : GP) (r : Res GP) (l : List (Int × Rat))
    (h : ∀ x ∈ visitTrace f l, f' x.1 x.2 = f x.1 x.2) :
    visitR f' g l r = visitR f g l r ∧ visitTrace f' l = visitTrace f l := by
  induction l with
  | nil => exact ⟨rfl, rfl⟩
  | cons x rest ih =>
    obtain ⟨i, c⟩ := x
    have h0 : f' i c = f i c := h (i, c) (by simp [visitTrace])
    simp only [visitR, visitTrace, h0]
    cases hfc : f i c with
    | ok b =>
      cases b with
      | false =>
        have := ih (fun x hx => h x (by simp [visitTrace, hfc, hx]))
        simp [this.1, this.2]
      | true => simp
    | panic => simp
    | nofuel => simp

/-- … and every element of the trace is really consulted: a callback that panics there makes the walk panic -/
theorem visitR_panic_of_mem_trace (f f' : Int → Rat → Res Bool) (g : GP) (r : Res GP) (x : Int × Rat)
    (hne : ∀ y : Int × Rat, y ≠ x → f' y.1 y.2 = f y.1 y.2) (hp : f' x.1 x.2 = .panic) (l : List (Int × Rat))
    (hx : x ∈ visitTrace f l) : visitR f' g l r = .panic := by
  induction l with
  | nil => simp [visitTrace] at hx
  | cons y rest ih =>
    obtain ⟨i, c⟩ := y
    by_cases hy : ((i, c) : Int × Rat) = x
    · subst hy
      simp only [visitR]
      simp only [] at hp
      rw [hp]; rfl
    · have h0 : f' i c = f i c := hne (i, c) hy
      simp only [visitTrace, List.mem_cons] at hx
      rcases hx with hx | hx
      · exact absurd hx.symm hy
      · simp only [visitR, h0]
        cases hfc : f i c with
        | ok b =>
          cases b with
          | false => rw [hfc] at hx; exact ih hx
          | true => rw [hfc] at hx; simp at hx
        | panic => rw [hfc] at hx; simp at hx
        | nofuel => rw [hfc] at hx; simp at hx

/-- (a) `ForEach` consults `f` exactly on `visitTrace f s.binsList`: values elsewhere are irrelevant … -/
theorem forEach_congr_trace (s : PStore) (cap : Int) (f f' : Int → Rat → Res Bool) (fuel : Nat)
    (hf : forEachFuel s ≤ fuel) (h : ∀ x ∈ visitTrace f s.binsList, f' x.1 x.2 = f x.1 x.2) :
    BufferedPaginatedStore.ForEach fuel (toGen s cap) f' = BufferedPaginatedStore.ForEach fuel (toGen s cap) f := by
  rw [forEach_eq_visit s cap f fuel hf, forEach_eq_visit s cap f' fuel hf]
  exact (visitR_congr_trace f f' _ _ _ h).1

/-- … and a panic planted at any bin of the trace is hit -/
theorem forEach_panic_of_mem_trace (s : PStore) (cap : Int) (f f' : Int → Rat → Res Bool) (fuel : Nat)
    (hf : forEachFuel s ≤ fuel) (x : Int × Rat) (hx : x ∈ visitTrace f s.binsList)
    (hne : ∀ y : Int × Rat, y ≠ x → f' y.1 y.2 = f y.1 y.2) (hp : f' x.1 x.2 = .panic) :
    BufferedPaginatedStore.ForEach fuel (toGen s cap) f' = .panic := by
  rw [forEach_eq_visit s cap f' fuel hf]
  exact visitR_panic_of_mem_trace f f' _ _ x hne hp _ hx

/-- (a) with a total stop predicate `p`: the result is the sorted store and the calls made are the bins up to and
    including the first one where `p` holds -/
theorem forEach_pred (s : PStore) (cap : Int) (p : Int → Rat → Bool) (fuel : Nat) (hf : forEachFuel s ≤ fuel) :
    BufferedPaginatedStore.ForEach fuel (toGen s cap) (fun i c => .ok (p i c)) = .ok (toGen s.sortRead cap) ∧
    visitTrace (fun i c => .ok (p i c)) s.binsList = uptoFirst p s.binsList := by
  refine ⟨?_, visitTrace_pred p _⟩
  rw [forEach_eq_visit s cap _ fuel hf, visit]
  generalize s.binsList = l
  induction l with
  | nil => rfl
  | cons x rest ih =>
    obtain ⟨i, c⟩ := x
    simp only [visitR, Res.bind_ok]
    cases p i c with
    | false => exact ih
    | true => rfl

/-- (b) a callback that never stops: every bin is visited and the result is the store with its buffer sorted -/
theorem forEach_all (s : PStore) (cap : Int) (fuel : Nat) (hf : forEachFuel s ≤ fuel) :
    BufferedPaginatedStore.ForEach fuel (toGen s cap) (fun _ _ => .ok false)
      = .ok (toGen { s with buffer := PStore.sortInts s.buffer } cap) ∧
    visitTrace (fun _ _ => .ok false) s.binsList = s.binsList := by
  have h := forEach_pred s cap (fun _ _ => false) fuel hf
  refine ⟨h.1, ?_⟩
  rw [h.2]
  unfold uptoFirst
  generalize s.binsList = l
  induction l with
  | nil => rfl
  | cons x rest ih => simpa [List.takeWhile_cons, List.dropWhile_cons] using ih

/-- the propagation of a failing callback: the first bin where `f` does not answer `.ok false` decides -/
theorem visit_cons (f : Int → Rat → Res Bool) (g : GP) (i : Int) (c : Rat) (rest : List (Int × Rat)) :
    visit f g ((i, c) :: rest) =
      match f i c with
      | .ok true => .ok g
      | .ok false => visit f g rest
      | .panic => .panic
      | .nofuel => .nofuel := by
  unfold visit
  simp only [visitR]
  cases f i c with
  | ok b => cases b <;> rfl
  | panic => rfl
  | nofuel => rfl

theorem visit_nil (f : Int → Rat → Res Bool) (g : GP) : visit f g [] = .ok g := rfl

/-! # `MergeWith` -/

/-- other kind / other page length: the generated code is the oracle `mergeFallback` -/
theorem mergeWith_fallback (fuel : Nat) (grow : Int → Int → Int) (mf : GP → GP → Res GP) (s o : PStore)
    (cap cap' : Int) (hlog : s.pageLenLog2 ≠ o.pageLenLog2) :
    BufferedPaginatedStore.MergeWith fuel grow mf (toGen s cap) (toGen o cap') = mf (toGen s cap) (toGen o cap') := by
  unfold BufferedPaginatedStore.MergeWith
  have hb : (((s.pageLenLog2 : Nat) : Int) == ((o.pageLenLog2 : Nat) : Int)) = false := by
    simp; omega
  simp only [toGen_pageLenLog2, hb, Bool.and_false, Bool.false_eq_true, if_false]
  cases mf (toGen s cap) (toGen o cap') <;> rfl

/-! ## the model generalised: compaction bits from the evolving capacity -/

/-- fold of `addUnit` with an explicit stream of compaction bits (missing bits are `true`) -/
def addUnitsBits : PStore → List Int → List Bool → Option PStore
  | a, [], _ => some a
  | a, i :: rest, bits => (a.addUnit i (bits.headD true)).bind (fun a' => addUnitsBits a' rest bits.tail)

/-- the page phase of `mergeSame` -/
def mergePages (s o : PStore) : Option PStore :=
  (o.pages.toList.zipIdx).foldlM (PStore.mergePageBody o.minPageIndex) s

/-- `mergeSame` with the compaction bits of the buffer phase as a parameter -/
def mergeSameBits (s o : PStore) (bits : List Bool) : Option PStore :=
  (mergePages s o).bind (fun s1 => addUnitsBits s1 o.buffer bits)

theorem addUnitsBits_nil (l : List Int) : ∀ a : PStore,
    addUnitsBits a l [] = l.foldlM (fun acc i => acc.addUnit i true) a := by
  induction l with
  | nil => intro a; rfl
  | cons i rest ih =>
    intro a
    simp only [addUnitsBits, List.headD_nil, List.tail_nil, List.foldlM_cons]
    cases a.addUnit i true with
    | none => rfl
    | some a' => exact ih a'

/-- the hand model's `mergeSame` is the instance "always compact" -/
theorem mergeSameBits_nil (s o : PStore) : mergeSameBits s o [] = s.mergeSame o := by
  rw [PStore.mergeSame_eq]
  unfold mergeSameBits mergePages
  cases (o.pages.toList.zipIdx).foldlM (PStore.mergePageBody o.minPageIndex) s with
  | none => rfl
  | some s1 => exact addUnitsBits_nil _ _

/-! ## fuel -/

def optFuel (r : Option PStore) (k : PStore → Nat) : Nat :=
  match r with
  | some a => k a
  | none => 0

/-- fuel for the buffer phase: the largest `af` over the stores reachable through any choice of compaction bits -/
def addsFuel (af : PStore → Int → Nat) : PStore → List Int → Nat
  | _, [] => 0
  | a, i :: rest =>
    max (af a i) (max (optFuel (a.addUnit i true) (fun a' => addsFuel af a' rest))
                      (optFuel (a.addUnit i false) (fun a' => addsFuel af a' rest)))

/-- fuel for the same-kind `MergeWith`: `page` may have to clear a left extension down to `o.minPageIndex` once;
    then the `Add`s -/
def mergeFuel (af : PStore → Int → Nat) (s o : PStore) : Nat :=
  max ((s.minPageIndex - o.minPageIndex + 9).toNat + 2)
      (optFuel (mergePages s o) (fun s1 => addsFuel af s1 o.buffer))

/-! ## `loop3`: add the lines of one page -/

theorem mw_set_nat {α : Type} (l : List α) (n : Nat) (v : α) (h : n < l.length) :
    GoSem.set l (n : Int) v = some (l.set n v) := by
  unfold GoSem.set
  rw [if_neg (by omega)]
  simp

theorem mw_pagesL_set (a : PStore) (k : Nat) (pg : Array Rat) :
    pagesL { a with pages := a.pages.setIfInBounds k pg } = (pagesL a).set k pg.toList := by
  simp [pagesL, List.map_set]

/-- the successful result of `addAtPage a k m y` -/
def mwAddLine (a : PStore) (k m : Nat) (y : Rat) : PStore :=
  { a with pages := a.pages.setIfInBounds k ((a.pages.getD k #[]).setIfInBounds m ((a.pages.getD k #[]).getD m 0 + y)) }

theorem mw_addAtPage_some (a : PStore) (k m : Nat) (y : Rat) (hk : k < a.pages.size)
    (hm : m < (a.pages.getD k #[]).size) : PStore.addAtPage a k m y = some (mwAddLine a k m y) := by
  unfold PStore.addAtPage mwAddLine
  simp only []
  rw [if_pos ⟨hk, hm⟩]

theorem mw_addAtPage_none (a : PStore) (k m : Nat) (y : Rat)
    (hm : ¬ m < (a.pages.getD k #[]).size) : PStore.addAtPage a k m y = none := by
  unfold PStore.addAtPage
  simp only []
  rw [if_neg (fun h => hm h.2)]

theorem mw_toGen_setPage (a : PStore) (cap : Int) (k : Nat) (pg : Array Rat) :
    toGen { a with pages := a.pages.setIfInBounds k pg } cap = { toGen a cap with pages := (pagesL a).set k pg.toList } := by
  unfold toGen
  simp only [mw_pagesL_set]

theorem mwAddLine_page (a : PStore) (k m : Nat) (y : Rat) (hk : k < a.pages.size) :
    (mwAddLine a k m y).pages.getD k #[]
      = (a.pages.getD k #[]).setIfInBounds m ((a.pages.getD k #[]).getD m 0 + y) := by
  unfold mwAddLine
  simp only []
  rw [PStore.getD_setIfInBounds, if_pos ⟨rfl, hk⟩]

theorem mw_getD_toList_get (pg : Array Rat) (m : Nat) (hm : m < pg.size) : pg.toList[m]? = some (pg.getD m 0) := by
  simp [Array.getD_eq_getD_getElem?, hm]

theorem mw_loop3 (cap : Int) (k : Nat) : ∀ (ys : List Rat) (m : Nat) (a : PStore),
    BufferedPaginatedStore.MergeWith.loop3 (k : Int) ys (m : Int) (a.pages.getD k #[]).toList (toGen a cap)
      = match (ys.zipIdx m).foldlM (fun (a : PStore) (cl : Rat × Nat) => PStore.addAtPage a k cl.2 cl.1) a with
        | none => .panic
        | some a' => .done ((a'.pages.getD k #[]).toList, toGen a' cap) := by
  intro ys
  induction ys with
  | nil => intro m a; rfl
  | cons y ys ih =>
    intro m a
    unfold BufferedPaginatedStore.MergeWith.loop3
    simp only [List.zipIdx_cons, List.foldlM_cons, fe_idx_nat]
    by_cases hm : m < (a.pages.getD k #[]).size
    · have hk : k < a.pages.size := by
        apply Classical.byContradiction
        intro hk
        rw [PStore.getD_pages_oob a.pages k (by omega)] at hm
        simp at hm
      have hkl : k < (toGen a cap).pages.length := by
        show k < (pagesL a).length
        unfold pagesL; simpa using hk
      rw [mw_getD_toList_get _ m hm, mw_addAtPage_some a k m y hk hm]
      simp only [optL_some, Option.bind_eq_bind, Option.bind_some]
      rw [mw_set_nat _ m _ (by simpa using hm)]
      simp only [optL_some]
      rw [mw_set_nat _ k _ hkl]
      simp only [optL_some]
      have e := ih (m + 1) (mwAddLine a k m y)
      rw [mwAddLine_page a k m y hk, Array.toList_setIfInBounds] at e
      have e1 : toGen (mwAddLine a k m y) cap = _ := mw_toGen_setPage a cap k _
      rw [e1, Array.toList_setIfInBounds] at e
      have em : (m : Int) + 1 = ((m + 1 : Nat) : Int) := by omega
      rw [em]
      exact e
    · have hget : (a.pages.getD k #[]).toList[m]? = none := by
        rw [List.getElem?_eq_none]; simpa using hm
      rw [hget, mw_addAtPage_none a k m y hm]
      rfl

/-! ## `loop2`: the pages of the other store -/

theorem mw_materialize_min (s : PStore) (k : Nat) : (s.materialize k).minPageIndex = s.minPageIndex := by
  unfold PStore.materialize; split <;> rfl

/-- the slot that `page` answers is `p - minPageIndex` of the new store -/
theorem mw_page_slot (s s' : PStore) (p : Int) (e : Bool) (k : Nat) (h : s.page p e = some (s', some k)) :
    p - s'.minPageIndex = (k : Int) := by
  unfold PStore.page at h
  cases hs : s.slot? p with
  | some k0 =>
    have hk0 := (PStore.slot?_eq_some s p k0).1 hs
    rw [hs] at h
    simp only [Option.some.injEq, Prod.mk.injEq] at h
    obtain ⟨h1, h2⟩ := h
    have hmin : s'.minPageIndex = s.minPageIndex := by
      rw [← h1]
      cases e
      · rfl
      · exact mw_materialize_min s k0
    have hk : k = k0 := by
      by_cases hsz : ((if e = true then s.materialize k0 else s).pages.getD k0 #[]).size = 0
      · rw [if_pos hsz] at h2; cases h2
      · rw [if_neg hsz] at h2; cases h2; rfl
    rw [hmin, hk]; omega
  | none =>
    rw [hs] at h
    cases e with
    | false => simp at h
    | true =>
      simp only [Bool.not_true, Bool.false_eq_true, if_false] at h
      split at h
      · cases h
      · rename_i s2 _
        by_cases hc : 0 ≤ p - s2.minPageIndex ∧ p - s2.minPageIndex < (s2.pages.size : Int)
        · rw [if_pos hc] at h
          simp only [Option.some.injEq, Prod.mk.injEq] at h
          obtain ⟨h1, h2⟩ := h
          rw [← h1, ← h2, mw_materialize_min]
          omega
        · rw [if_neg hc] at h; cases h

theorem mw_addAtPage_min (a a' : PStore) (k m : Nat) (y : Rat) (h : PStore.addAtPage a k m y = some a') :
    a'.minPageIndex = a.minPageIndex := by
  unfold PStore.addAtPage at h
  simp only [] at h
  split at h
  · cases h; rfl
  · cases h

theorem mw_foldAddAtPage_min (k : Nat) : ∀ (l : List (Rat × Nat)) (a a' : PStore),
    l.foldlM (fun (a : PStore) (cl : Rat × Nat) => PStore.addAtPage a k cl.2 cl.1) a = some a' →
    a'.minPageIndex = a.minPageIndex := by
  intro l
  induction l with
  | nil => intro a a' h; cases h; rfl
  | cons x l ih =>
    intro a a' h
    simp only [List.foldlM_cons] at h
    cases h1 : PStore.addAtPage a k x.2 x.1 with
    | none => rw [h1] at h; cases h
    | some a1 =>
      rw [h1] at h
      rw [ih a1 a' h, mw_addAtPage_min a a1 k x.2 x.1 h1]

theorem mw_loop3_nil_page (slot : Int) (y : Rat) (ys : List Rat) (g : GP) :
    BufferedPaginatedStore.MergeWith.loop3 slot (y :: ys) 0 [] g = .panic := by
  unfold BufferedPaginatedStore.MergeWith.loop3
  rfl

theorem mw_loop2 (hpage : PageSpec) (o : PStore) (cap cap' : Int) (fuel : Nat) :
    ∀ (xs : List (Array Rat)) (n : Nat) (a : PStore),
      (∀ p : Int, o.minPageIndex + (n : Int) ≤ p → pageFuel a p ≤ fuel) →
      BufferedPaginatedStore.MergeWith.loop2 fuel (toGen o cap') (xs.map Array.toList) (n : Int) (toGen a cap)
        = match (xs.zipIdx n).foldlM (PStore.mergePageBody o.minPageIndex) a with
          | none => .panic
          | some a' => .done (toGen a' cap) := by
  intro xs
  induction xs with
  | nil => intro n a _; rfl
  | cons pg xs ih =>
    intro n a hfu
    have en : (n : Int) + 1 = ((n + 1 : Nat) : Int) := by omega
    simp only [List.map_cons, List.zipIdx_cons, List.foldlM_cons]
    unfold BufferedPaginatedStore.MergeWith.loop2
    by_cases hz : pg.size = 0
    · have hb : (GoSem.len pg.toList == (0 : Int)) = true := by simp [GoSem.len, hz]
      have hbody : PStore.mergePageBody o.minPageIndex a (pg, n) = some a := by
        simp [PStore.mergePageBody, hz]
      rw [hbody]
      simp only [hb, if_true, Option.bind_eq_bind, Option.bind_some]
      rw [en]
      exact ih (n + 1) a (fun p hp => hfu p (by omega))
    · have hb : (GoSem.len pg.toList == (0 : Int)) = false := by
        simpa [GoSem.len] using hz
      simp only [hb, Bool.false_eq_true, if_false, toGen_minPageIndex]
      rw [hpage a cap (o.minPageIndex + (n : Int)) true fuel (hfu _ (Int.le_refl _))]
      cases hpg : a.page (o.minPageIndex + (n : Int)) true with
      | none =>
        have hbody : PStore.mergePageBody o.minPageIndex a (pg, n) = none := by
          simp [PStore.mergePageBody, hz, hpg]
        rw [hbody]; rfl
      | some r =>
        obtain ⟨a1, k?⟩ := r
        cases k? with
        | none =>
          have hbody : PStore.mergePageBody o.minPageIndex a (pg, n) = none := by
            simp [PStore.mergePageBody, hz, hpg]
          rw [hbody]
          simp only [toRes_some, Res.bindL_ok, pageOf]
          obtain ⟨y, ys, hys⟩ : ∃ y ys, pg.toList = y :: ys := by
            cases hl : pg.toList with
            | nil => exfalso; apply hz; simpa using congrArg List.length hl
            | cons y ys => exact ⟨y, ys, rfl⟩
          rw [hys, mw_loop3_nil_page]
          rfl
        | some k =>
          have hslot := mw_page_slot a a1 _ true k hpg
          have hbody : PStore.mergePageBody o.minPageIndex a (pg, n) =
              (pg.toList.zipIdx).foldlM (fun (a : PStore) (cl : Rat × Nat) => PStore.addAtPage a k cl.2 cl.1) a1 := by
            simp [PStore.mergePageBody, hz, hpg]
          rw [hbody]
          simp only [toRes_some, Res.bindL_ok, pageOf, toGen_minPageIndex, hslot]
          have h3 := mw_loop3 cap k pg.toList 0 a1
          simp only [Int.natCast_zero] at h3
          rw [h3]
          cases hfold : (pg.toList.zipIdx).foldlM (fun (a : PStore) (cl : Rat × Nat) => PStore.addAtPage a k cl.2 cl.1) a1 with
          | none => rfl
          | some a2 =>
            simp only [Loop.elimL, Option.bind_eq_bind, Option.bind_some]
            rw [en]
            apply ih (n + 1) a2
            intro p hp
            have hmin : a2.minPageIndex = a1.minPageIndex := mw_foldAddAtPage_min k _ a1 a2 hfold
            have : pageFuel a2 p = 1 := by
              unfold pageFuel
              rw [if_pos (Or.inr (by rw [hmin]; omega))]
            rw [this]
            have := hfu _ (Int.le_refl (o.minPageIndex + (n : Int)))
            have h1 : 1 ≤ pageFuel a (o.minPageIndex + (n : Int)) := by
              unfold pageFuel; split <;> omega
            omega

/-! ## `loop1`: the buffer of the other store through `Add` -/

theorem mw_loop1 {af : PStore → Int → Nat} (hadd : AddSpec af) (grow : Int → Int → Int) (fuel : Nat) :
    ∀ (l : List Int) (a : PStore) (cap : Int), addsFuel af a l ≤ fuel →
      ∃ bits : List Bool, bits.length = l.length ∧
        match addUnitsBits a l bits with
        | none => BufferedPaginatedStore.MergeWith.loop1 fuel grow l (toGen a cap) = .panic
        | some a' => ∃ c', BufferedPaginatedStore.MergeWith.loop1 fuel grow l (toGen a cap) = .done (toGen a' c') := by
  intro l
  induction l with
  | nil =>
    intro a cap _
    exact ⟨[], rfl, cap, rfl⟩
  | cons i rest ih =>
    intro a cap hf
    have hspec := hadd a cap grow i fuel (by unfold addsFuel at hf; omega)
    unfold BufferedPaginatedStore.MergeWith.loop1
    cases hb : decide ((a.buffer.length : Int) = cap) with
    | false =>
      rw [hb] at hspec
      cases hu : a.addUnit i false with
      | none =>
        rw [hu] at hspec
        refine ⟨false :: List.replicate rest.length true, by simp, ?_⟩
        simp only [addUnitsBits, List.headD_cons, hu, Option.bind_none]
        rw [show BufferedPaginatedStore.Add fuel grow (toGen a cap) i = .panic from hspec]
        rfl
      | some a1 =>
        rw [hu] at hspec
        obtain ⟨g', hg, c1, rfl⟩ := hspec
        obtain ⟨bits, hlen, hres⟩ := ih a1 c1 (by
          unfold addsFuel at hf; simp only [hu, optFuel] at hf; omega)
        refine ⟨false :: bits, by simp [hlen], ?_⟩
        simp only [addUnitsBits, List.headD_cons, hu, Option.bind_some, List.tail_cons, hg, Res.bindL_ok]
        exact hres
    | true =>
      rw [hb] at hspec
      cases hu : a.addUnit i true with
      | none =>
        rw [hu] at hspec
        refine ⟨true :: List.replicate rest.length true, by simp, ?_⟩
        simp only [addUnitsBits, List.headD_cons, hu, Option.bind_none]
        rw [show BufferedPaginatedStore.Add fuel grow (toGen a cap) i = .panic from hspec]
        rfl
      | some a1 =>
        rw [hu] at hspec
        obtain ⟨g', hg, c1, rfl⟩ := hspec
        obtain ⟨bits, hlen, hres⟩ := ih a1 c1 (by
          unfold addsFuel at hf; simp only [hu, optFuel] at hf; omega)
        refine ⟨true :: bits, by simp [hlen], ?_⟩
        simp only [addUnitsBits, List.headD_cons, hu, Option.bind_some, List.tail_cons, hg, Res.bindL_ok]
        exact hres

/-! ## the same-kind path -/

theorem pageFuel_le_mergeFuel (af : PStore → Int → Nat) (s o : PStore) (p : Int) (hp : o.minPageIndex ≤ p) :
    pageFuel s p ≤ mergeFuel af s o := by
  unfold pageFuel mergeFuel
  split <;> omega

/-- MAIN (MergeWith, same page length), first half: the generated merge is the model's `mergeSame` with the
    compaction bits of the buffer phase read off the evolving capacity -/
theorem mergeWith_same {af : PStore → Int → Nat} (hpage : PageSpec) (hadd : AddSpec af)
    (grow : Int → Int → Int) (mf : GP → GP → Res GP) (s o : PStore) (cap cap' : Int) (fuel : Nat)
    (hlog : s.pageLenLog2 = o.pageLenLog2) (hf : mergeFuel af s o ≤ fuel) :
    ∃ bits : List Bool, bits.length = o.buffer.length ∧
      ROk (BufferedPaginatedStore.MergeWith fuel grow mf (toGen s cap) (toGen o cap')) (mergeSameBits s o bits) := by
  unfold BufferedPaginatedStore.MergeWith
  have hb : (((s.pageLenLog2 : Nat) : Int) == ((o.pageLenLog2 : Nat) : Int)) = true := by
    simp [hlog]
  simp only [toGen_pageLenLog2, hb, Bool.and_true, if_true, toGen_pages, toGen_buffer]
  have h2 := mw_loop2 hpage o cap cap' fuel o.pages.toList 0 s
    (fun p hp => Nat.le_trans (pageFuel_le_mergeFuel af s o p (by omega)) hf)
  have h2' : BufferedPaginatedStore.MergeWith.loop2 fuel (toGen o cap') (pagesL o) 0 (toGen s cap)
      = match mergePages s o with
        | none => .panic
        | some a' => .done (toGen a' cap) := h2
  rw [h2']
  unfold mergeSameBits
  cases hmp : mergePages s o with
  | none => exact ⟨List.replicate o.buffer.length true, by simp, rfl⟩
  | some s1 =>
    obtain ⟨bits, hlen, hres⟩ := mw_loop1 hadd grow fuel o.buffer s1 cap (by
      unfold mergeFuel at hf; simp only [hmp, optFuel] at hf; omega)
    refine ⟨bits, hlen, ?_⟩
    simp only [Loop.elim_done, Option.bind_some]
    cases hab : addUnitsBits s1 o.buffer bits with
    | none =>
      rw [hab] at hres
      simp only [] at hres
      rw [hres]; rfl
    | some a' =>
      rw [hab] at hres
      obtain ⟨c', hc'⟩ := hres
      rw [hc']
      exact ⟨toGen a' c', rfl, c', rfl⟩

/-! ## second half: under the invariant the bits are irrelevant -/

open DDS.PStore (Inv wt content Idx32) in
theorem addUnitsBits_ok (l : List Int) (hl : ∀ x ∈ l, Idx32 x) : ∀ (bits : List Bool) (s : PStore), Inv s →
    ∃ s', addUnitsBits s l bits = some s' ∧ Inv s' ∧ ∀ j, wt s' j = wt s j + (l.count j : Rat) := by
  induction l with
  | nil => intro bits s h; exact ⟨s, rfl, h, fun j => by simp⟩
  | cons x xs ih =>
    intro bits s h
    obtain ⟨s₁, h1, hI₁, hw₁⟩ := PStore.addUnit_ok s h x (hl x (List.mem_cons_self ..)) (bits.headD true)
    obtain ⟨s', h2, hI, hw⟩ := ih (fun y hy => hl y (List.mem_cons_of_mem _ hy)) bits.tail s₁ hI₁
    refine ⟨s', ?_, hI, ?_⟩
    · simp only [addUnitsBits, h1, Option.bind_some]; exact h2
    · intro j
      rw [hw, hw₁, List.count_cons]
      by_cases hj : j = x
      · subst hj; simp; grind
      · have : ¬ (x == j) = true := by simp; omega
        simp [hj, this]

open DDS.PStore (Inv wt content) in
/-- whatever the compaction bits: no panic, invariant kept, pointwise sum of the weights -/
theorem mergeSameBits_ok (s o : PStore) (hs : Inv s) (ho : Inv o) (bits : List Bool) :
    ∃ s', mergeSameBits s o bits = some s' ∧ Inv s' ∧ ∀ j, wt s' j = wt s j + wt o j := by
  obtain ⟨r, hr, hIr, hwr⟩ := PStore.mergeSame_ok s o hs ho
  rw [← mergeSameBits_nil] at hr
  unfold mergeSameBits at hr ⊢
  cases hmp : mergePages s o with
  | none => rw [hmp] at hr; cases hr
  | some s1 =>
    rw [hmp] at hr
    simp only [Option.bind_some] at hr ⊢
    -- `s1` satisfies the invariant: it is what `foldMergePages_spec` produces
    have hLo := ho.pageLen_eq
    obtain ⟨s₁, h1, hI₁, hb₁, hline₁⟩ := PStore.foldMergePages_spec o.pages.toList 0 o.minPageIndex s hs
      (fun m => by rw [PStore.toList_getD_pages, ← hLo]; exact ho.pageSizes m)
      (fun m l => by rw [PStore.toList_getD_pages]; exact ho.nonneg m l)
      (fun m hm => by
        rw [PStore.toList_getD_pages] at hm
        have := ho.pageRange m hm
        simpa using this)
    have e1 : s₁ = s1 := by
      have : mergePages s o = some s₁ := h1
      rw [hmp] at this; cases this; rfl
    subst e1
    obtain ⟨a, ha, hIa, hwa⟩ := addUnitsBits_ok o.buffer ho.bufRange [] s₁ hI₁
    obtain ⟨s', h2, hI, hw⟩ := addUnitsBits_ok o.buffer ho.bufRange bits s₁ hI₁
    refine ⟨s', h2, hI, ?_⟩
    intro j
    have hra : r = a := by rw [ha] at hr; cases hr; rfl
    rw [hw, ← hwr j, hra, hwa]

open DDS.PStore (Inv wt content) in
/-- MAIN (MergeWith, same page length), second half: for stores satisfying the invariant (which contains "all
    indexes are int32") the generated merge never panics nor runs out of fuel, and the content of the result is the
    merge of the contents -/
theorem mergeWith_same_content {af : PStore → Int → Nat} (hpage : PageSpec) (hadd : AddSpec af)
    (grow : Int → Int → Int) (mf : GP → GP → Res GP) (s o : PStore) (cap cap' : Int) (fuel : Nat)
    (hs : Inv s) (ho : Inv o) (hf : mergeFuel af s o ≤ fuel) :
    ∃ (g' : GP) (s' : PStore),
      BufferedPaginatedStore.MergeWith fuel grow mf (toGen s cap) (toGen o cap') = .ok g' ∧ Rel g' s' ∧ Inv s' ∧
      content s' = (content s).merge (content o) ∧ s'.abs = (s.abs).merge (o.abs) ∧
      (∀ j, wt s' j = wt s j + wt o j) := by
  obtain ⟨bits, _, hrok⟩ := mergeWith_same hpage hadd grow mf s o cap cap' fuel (by rw [hs.log2, ho.log2]) hf
  obtain ⟨s', h1, hI, hw⟩ := mergeSameBits_ok s o hs ho bits
  rw [h1] at hrok
  obtain ⟨g', hg, hrel⟩ := hrok
  have hc : content s' = (content s).merge (content o) := by
    apply PStore.content_eq_of_lookup s' hI _
      (Content.wf_merge _ _ (PStore.content_wf s hs) (PStore.content_wf o ho))
    intro j
    rw [hw, Content.lookup_merge, PStore.lookup_content s hs, PStore.lookup_content o ho]
  refine ⟨g', s', hg, hrel, hI, hc, ?_, hw⟩
  rw [PStore.abs_eq_content s' hI, PStore.abs_eq_content s hs, PStore.abs_eq_content o ho, hc]

/-- the fuel bounds are functions of the stores, hence satisfiable -/
theorem forEachFuel_sat (s : PStore) : ∃ fuel, forEachFuel s ≤ fuel := ⟨_, Nat.le_refl _⟩
theorem mergeFuel_sat (af : PStore → Int → Nat) (s o : PStore) : ∃ fuel, mergeFuel af s o ≤ fuel := ⟨_, Nat.le_refl _⟩

end DDS.GenPag
