#!/usr/bin/env python3
"""Regenerates MANIFEST.json from props.json (claimed checks) and the list of all property ids."""
import json, os
V = os.path.dirname(os.path.abspath(__file__))
props = json.load(open(os.path.join(V, "props.json")))
ids = [json.loads(l)["id"] for l in open(os.path.join(V, "properties.jsonl"))]
hooks_commits = []
hc = os.path.join(V, "hooks_commits.txt")
if os.path.exists(hc):
    hooks_commits = [l.strip() for l in open(hc) if l.strip()]
checks, na = [], []
for pid in ids:
    c = props.get(pid)
    if not c or not c.get("claimed", True):
        na.append({"property_id": pid, "reason": (c or {}).get("na_reason", "check not built yet in this round (planned, see DESIGN.md §6); not claimed until it exists")})
        continue
    checks.append({
        "property_id": pid,
        "quick_cmd": f"./check {pid} --tier quick",
        "thorough_cmd": f"./check {pid} --tier thorough",
        "evidence_file": f"/verif/evidence/{pid}.json",
        "replay_cmd_template": f"./check {pid} --replay {{path}}",
        "engine": "lean4+correspondence",
        "level_claimed": {"category": c.get("level", "proof"), "text": c["level_text"], "design_ref": c.get("design_ref", "DESIGN.md §6 " + pid)},
        "level_note": c["level_note"],
        "technique": c.get("technique", "Lean 4 theorems about a hand-written model + differential correspondence check (Go harness vs compiled Lean driver)"),
    })
m = {
    "version": 1,
    "setup_cmd": "./setup.sh",
    "hooks": {"guard": "verif", "enable": "go build -tags verif (the harness module under /verif/harness replaces github.com/DataDog/sketches-go by /repo)",
              "baseline_off_cmd": "cd /repo && GOFLAGS=-mod=mod GOPROXY=off GOSUMDB=off GOTOOLCHAIN=local go test -json -vet=off -count=1 -timeout 25m ./...",
              "source_commits": hooks_commits, "add_only": True},
    "engines": [
        {"name": "lean4-model-and-theorems", "path": "/verif/lean", "serves_properties": [c["property_id"] for c in checks],
         "kind_free_text": "Lean 4 model (DDS/Model), theorems (DDS/Props, DDS/Proofs), native driver executing the model (DDS/Driver)"},
        {"name": "go-harness", "path": "/verif/harness", "serves_properties": [c["property_id"] for c in checks],
         "kind_free_text": "generators, interpreter of the line protocol on the real implementation, direct property oracles, constant extractor"},
    ],
    "checks": checks,
    "notes": "One entry point: ./check <Cxx> [--tier quick|thorough] [--replay path]. See DESIGN.md.",
    "not_applicable": na,
}
json.dump(m, open(os.path.join(V, "MANIFEST.json"), "w"), indent=1)
print("claimed:", [c["property_id"] for c in checks], "not claimed:", [n["property_id"] for n in na])
