#!/bin/bash
# seedrun.sh <worktree-with-change> <seeds> <prop> [prop…] : run the quick checks against a scratch worktree of the
# library (VERIF_REPO) from a private copy of /verif, so that neither /repo nor /verif/lean/DDS/Generated is touched
# (used while proof work is going on in /verif/lean; seedtest.sh is the apply-to-/repo variant).
WT="$1"; SEEDS="$2"; shift 2
B=/tmp/sv/$(basename "$WT")-$$
mkdir -p "$B"
rsync -a --exclude .git --exclude .work --exclude seeded --exclude 'replays*' --exclude mutants /verif/ "$B/verif/"
# in-progress (untracked) proof files of other agents are not part of the committed machinery
git -C /verif ls-files --others --exclude-standard lean/DDS | while read f; do rm -f "$B/verif/$f"; done
trap 'rm -rf "$B"' EXIT
export GOFLAGS=-mod=mod GOPROXY=off GOSUMDB=off GOTOOLCHAIN=local CGO_ENABLED=0
for prop in "$@"; do
  for s in $SEEDS; do
    out=$(cd "$B/verif" && VERIF_REPO="$WT" VERIF_SEED=$s VERIF_HX_TIMEOUT=600 ./check $prop 2>&1 | grep -E 'VIOLATION|^OK|KNOWN' | head -3 | tr '\n' ' ')
    echo "$prop seed=$s: $out"
    case "$out" in *VIOLATION*) cp "$B"/verif/replays/$prop-* /tmp/sv/ 2>/dev/null; break;; esac
  done
done
