#!/bin/sh
# seedtest.sh <patch.diff> <seeds> <prop> [prop…] : apply a seeded change to /repo, run the quick checks, undo.
P="$1"; SEEDS="$2"; shift 2
cd /repo && git apply "$P" || { echo "patch does not apply"; exit 2; }
trap 'git -C /repo checkout -- . ; git -C /repo status --short | head -3; (cd /verif/harness && GOFLAGS=-mod=mod GOPROXY=off GOSUMDB=off GOTOOLCHAIN=local go build -tags verif -o hx . )' EXIT
for prop in "$@"; do
  for s in $SEEDS; do
    out=$(cd /verif && VERIF_SEED=$s ./check $prop 2>/dev/null | grep -E 'VIOLATION|OK|KNOWN' | head -3 | tr '\n' ' ')
    echo "$prop seed=$s: $out"
    case "$out" in *VIOLATION*) break;; esac
  done
done
