#!/usr/bin/env python3
"""Rewrites the '### Seeded-change results' section of DESIGN.md from seeded/*/meta.json."""
import json, glob, os, re
V=os.path.dirname(os.path.abspath(__file__))
rows=[]
for f in sorted(glob.glob(os.path.join(V,'seeded','*','meta.json'))):
    m=json.load(open(f)); c=m['confirmed']
    conf=f"demo {c['demo_with_change']}/{c['demo_without_change']} (with/without), suite fast {c['existing_fast_packages_with_change']}, store {c['existing_store_package_with_change'].split(' ')[0]}"
    rows.append(f"| `{m['id']}` | {m['property']} | {m['needs_to_manifest']} | {conf} | {m['checks']} |")
sec="### Seeded-change results\n\nEach change was written by an independent sub-agent that saw only the property text and a scratch\nworktree, keeps the library compiling and the existing suite green, and comes with a demonstration test\n(`seeded/<id>/`: `patch.diff`, demo test, `meta.json`, the author's `SEEDED.md`). Every line below was\nconfirmed here (demo fails with / passes without the change; existing suite with the change) and the\nchecks were run with the patch applied to `/repo` (`seedtest.sh`), then reverted.\n\n| id | property | needs, to manifest | confirmed | checks |\n|----|----------|--------------------|-----------|--------|\n"+"\n".join(rows)+"\n"
p=os.path.join(V,'DESIGN.md'); s=open(p).read()
i=s.index('### Seeded-change results')
open(p,'w').write(s[:i]+sec)
print(len(rows),'rows')
