#!/usr/bin/env python3
"""regthms.py Cxx Module [Module…] — registers every theorem of the given Lean modules for a property."""
import json, re, sys
def thms(mod):
    s=open('/verif/lean/'+mod.replace('.','/')+'.lean').read()
    out=[]; ns=[]
    for line in s.splitlines():
        m=re.match(r'^namespace\s+(\S+)',line)
        if m: ns.append(m.group(1)); continue
        m=re.match(r'^end\s+(\S+)',line)
        if m and ns and ns[-1].split('.')[-1]==m.group(1).split('.')[-1]: ns.pop(); continue
        m=re.match(r'^(?:@\[[^\]]*\]\s*)?(?:protected\s+)?theorem\s+([^\s:({\[]+)',line)
        if m: out.append('.'.join(ns+[m.group(1)]))
    return out
pid=sys.argv[1]; mods=sys.argv[2:]
p=json.load(open('/verif/props.json'))
p[pid]['modules']=mods
p[pid]['theorems']=[t for m in mods for t in thms(m)]
json.dump(p,open('/verif/props.json','w'),indent=1)
print(pid, len(p[pid]['theorems']))
