#!/usr/bin/env python3
"""regthms.py Cxx Module [Module…] — registers every theorem of the given Lean modules for a property."""
import json, re, sys
def thms(mod):
    s=open('/verif/lean/'+mod.replace('.','/')+'.lean').read()
    out=[]; ns=[]
    for line in s.splitlines():
        m=re.match(r'^namespace\s+(\S+)',line)
        if m: ns.append(m.group(1)); continue
        m=re.match(r'^end\s+(\S+)',line)
        if m and ns and ns[-1].split('.')[-1]==m.group(1).split('.')[-1]: ns.pop(); continue
        m=re.match(r'^(?:@\[[^\]]*\]\s*)?(?:protected\s+)?theorem\s+([^\s:({\[]+)',line)
        if m: out.append('.'.join(ns+[m.group(1)]))
    return out
# theorems the vacuity audit classified as trivial / definitional restatements: kept in the files, not
# counted as proof obligations
EXCLUDE={"DDS.Props.C12.count_eq_total","DDS.Props.C08.parseBlocks_total","DDS.Props.C06.encode_appends",
 "DDS.Props.C19.identity_determines_functions","DDS.Props.C19.equals_of_identity","DDS.Props.C10.clear_is_new",
 "DDS.Props.C12.forEachList_spec","DDS.Props.C12.quantiles_eq_map","DDS.Props.C12.quantiles_nil",
 "DDS.Props.C15.store_clear_sparse","DDS.Props.C15.sketch_clear_spec","DDS.Props.C15.dstore_clear_eq",
 "DDS.Props.C15.cleared_zero","DDS.Props.C15.dstore_clear_observes_like_new","DDS.Props.C15.xsketch_clear",
 "DDS.Props.C15.xsketch_clear_spec","DDS.Props.C13.add_error_state_independent"}
pid=sys.argv[1]; mods=sys.argv[2:]
p=json.load(open('/verif/props.json'))
p[pid]['modules']=mods
p[pid]['theorems']=[t for m in mods for t in thms(m) if t not in EXCLUDE]
json.dump(p,open('/verif/props.json','w'),indent=1)
print(pid, len(p[pid]['theorems']))
