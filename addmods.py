#!/usr/bin/env python3
"""addmods.py Cxx Module [Module…] — appends Lean modules to a property's registration (props.json) and
re-registers every theorem of all its modules (see regthms.py)."""
import json, subprocess, sys
pid=sys.argv[1]; new=sys.argv[2:]
p=json.load(open('/verif/props.json'))
mods=p[pid]['modules']+[m for m in new if m not in p[pid]['modules']]
subprocess.check_call(['python3','/verif/regthms.py',pid]+mods)
